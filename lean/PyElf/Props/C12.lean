/-
  C12 — DWARF expressions are split into exactly their operations and operands.

  Property theorems only.  Spec side: PyElf/Spec/DwarfExpr.lean (operation table of DWARF 2–5 §7.7.1
  plus the GNU / WebAssembly rows, the assembler `encodeOps`, the prescribed observation `annotate`).
  Model side: PyElf/Model/DwarfExpr.lean (`parse_expr`, the dispatch closures, `read_blob`).
  Tie: PyElf/Props/TieC12.lean (the regenerated dispatch and name tables are the standard's).
-/
import PyElf.Spec.DwarfExpr
import PyElf.Model.DwarfExpr
import PyElf.Gen.Extra_C12
import PyElf.Proofs.DwarfExpr
import PyElf.Proofs.DwarfExprFuel
import PyElf.Props.TieC12
namespace PyElf.Props.C12
open PyElf PyElf.Spec PyElf.Model PyElf.Proofs

/-- the regenerated tables satisfy what the round-trip proof assumes about dispatch and names -/
theorem gen_tables_ok (c : DwarfCfg) (D : List (Nat × List ArgKind)) (hD : (c, D) ∈ Gen.opDispatch) :
    TablesOk c D Gen.opOpcode2Name := by
  rw [TieC12.sig_table_eq_spec, List.mem_map] at hD
  obtain ⟨c', _, hc'⟩ := hD
  obtain ⟨rfl, rfl⟩ := Prod.mk.inj hc'
  constructor
  · intro op ks h
    rw [opTable_lookup]; exact h
  · intro op s h
    rw [TieC12.opcode2name_eq_spec]
    exact lookup_append_some _ (by rw [opNames_lookup]; exact h)

/-- **Round trip.**  For every configuration (byte order × DWARF32/64 × address size 4/8 × version 2–5) with the
    dispatch table the library builds for it, and every well-formed operation sequence `ops` (any length, every
    opcode of the table, operands anywhere in their ranges, LEB128 operands and block lengths minimal or padded,
    entry-value blocks nested to any depth): parsing the assembled bytes returns exactly `annotate c 0 ops` —
    per operation the opcode, the name, the operand values (signedness and width per the signature) and the byte
    offset (prefix sums of the encoded lengths; a nested block is numbered from 0 again).  In particular the
    model's fuel is never exhausted and no operation is split, merged, dropped or invented. -/
theorem expr_roundtrip (c : DwarfCfg) (D : List (Nat × List ArgKind)) (hD : (c, D) ∈ Gen.opDispatch)
    (ops : List Op) (hwf : WFops c ops = true) :
    parseExpr D Gen.opOpcode2Name (encodeOps c ops) = .ok (annotate c 0 ops) :=
  parseExpr_roundtrip (gen_tables_ok c D hD) ops hwf

/-- the same statement for the Spec's own tables (no regenerated data involved) -/
theorem expr_roundtrip_spec (c : DwarfCfg) (ops : List Op) (hwf : WFops c ops = true) :
    parseExpr (opTable c) opNames (encodeOps c ops) = .ok (annotate c 0 ops) :=
  parseExpr_roundtrip ⟨fun op ks h => by rw [opTable_lookup]; exact h,
                       fun op s h => by rw [opNames_lookup]; exact h⟩ ops hwf

/-- **Re-encoding the parsed result reproduces the input bytes.**  `Spec.reencOps` assembles bytes from the
    parsed list alone (opcodes and operand values; names and offsets are not consulted), always choosing the
    minimal LEB128 form.  For every well-formed sequence whose LEB128 operands and block lengths are minimal
    (the canonical encoding — a padded LEB128 is not recoverable from its value), parsing and re-assembling
    gives back the input. -/
theorem reencode_roundtrip (c : DwarfCfg) (D : List (Nat × List ArgKind)) (hD : (c, D) ∈ Gen.opDispatch)
    (ops : List Op) (hwf : WFops c ops = true) (hmin : opsMinimal c ops = true)
    (fuel : Nat) (hf : (encodeOps c ops).length + 1 ≤ fuel) :
    ∃ parsed, parseExpr D Gen.opOpcode2Name (encodeOps c ops) = .ok parsed
      ∧ reencOps c fuel parsed = some (encodeOps c ops) :=
  ⟨annotate c 0 ops, expr_roundtrip c D hD ops hwf, reencOps_ok c ops hwf hmin fuel 0 hf⟩

/-- **Concatenation / offsets are prefix sums.**  The bytes of a concatenation are the concatenation of the bytes,
    well-formedness is component-wise, and the prescribed observation of `a ++ b` is that of `a` followed by that of
    `b` with every (top-level) offset shifted by the encoded length of `a`. -/
theorem expr_concat (c : DwarfCfg) (a b : List Op) (off : Nat) :
    encodeOps c (a ++ b) = encodeOps c a ++ encodeOps c b
    ∧ WFops c (a ++ b) = (WFops c a && WFops c b)
    ∧ annotate c off (a ++ b) = annotate c off a ++ annotate c (off + (encodeOps c a).length) b :=
  ⟨encodeOps_append c a b, WFops_append c a b, annotate_append c a b off⟩

/-- **Termination.**  Whatever the input bytes (well-formed or not) and whatever the tables, the model's fuel
    `len(expr) + 1` is never exhausted: `outOfFuel` is not a possible outcome, i.e. the model describes the
    terminating Python loop on every input of the correspondence check, not only on well-formed ones. -/
theorem parse_fuel_sufficient (D : List (Nat × List ArgKind)) (N : List (Nat × String)) (expr : Bytes) :
    parseExpr D N expr ≠ .error .outOfFuel :=
  parseExpr_fuel D N expr

/-- every configuration of the property's quantifier has a dispatch table -/
theorem every_cfg_has_table : Gen.opDispatch.map (·.1) = Spec.allDwarfCfgs := by
  rw [TieC12.sig_table_eq_spec, List.map_map]; exact List.map_id _

/-! ### names ↔ opcodes -/

/-- Nat keys (`int.from_bytes(name, 'big')`) of the two range-marker names `DW_OP_lo_user`, `DW_OP_hi_user`
    (they delimit the vendor range, DWARF 5 §7.1; they are not operations).  `marker_keys` ties them to the strings. -/
def markerKeys : List Nat := [5414555469326863032897248650610, 5414555469326861900400272041330]

/-- forward name table with String names and Nat keys side by side (the generator emits both in dict order) -/
def forward : List ((String × Nat) × (Nat × Nat)) := Gen.opName2Opcode.zip Gen.opName2OpcodeK

/-- the operations of the forward name table: everything but the two range markers -/
def operations : List (String × Nat) := (forward.filter fun p => !(markerKeys.contains p.2.1)).map (·.1)
/-- the same, names as Nat keys -/
def operationsK : List (Nat × Nat) := Gen.opName2OpcodeK.filter fun e => !(markerKeys.contains e.1)

/-- the entries removed are exactly the standard's two range markers, and the keyed list is aligned with the
    String list (same length, same opcodes position by position) -/
theorem marker_keys :
    (forward.filter fun p => markerKeys.contains p.2.1).map (·.1) = Spec.opRangeMarkers
    ∧ Gen.opName2OpcodeK.map (·.2) = Gen.opName2Opcode.map (·.2)
    ∧ operations.map (·.2) = operationsK.map (·.2) := by
  refine ⟨?_, ?_, ?_⟩ <;> decide +kernel

/-- **Operation names are in one-to-one correspondence with opcodes**:
    (1) no name occurs twice in the forward table (names compared through their Nat keys);
    (2) on operations, no opcode occurs twice — so name ↦ opcode is injective;
    (3) the reverse table sends every operation's opcode back to its name;
    (4) the reverse table has one entry per opcode and no opcodes other than those of the operations and the
        `DW_OP_hi_user` marker — with (3), it is exactly the inverse of the forward table on operations. -/
theorem names_bijective :
    (Gen.opName2OpcodeK.map (·.1)).Nodup
    ∧ (operationsK.map (·.2)).Nodup
    ∧ (∀ e ∈ operations, Gen.opOpcode2Name.lookup e.2 = some e.1)
    ∧ ((Gen.opOpcode2Name.map (·.1)).Nodup ∧ ∀ e ∈ Gen.opOpcode2Name, e.1 = 0xff ∨ e.1 ∈ operationsK.map (·.2)) := by
  refine ⟨?_, ?_, ?_, ?_, ?_⟩ <;> decide +kernel

/-- the standard gives an operand signature to exactly the operations of the name table
    (every named opcode except the range markers has a parser; nothing else has) -/
theorem sig_domain :
    (∀ e ∈ operationsK, (opSigAbs e.2).isSome = true) ∧ (∀ r ∈ opRows, r.1 ∈ operationsK.map (·.2)) := by
  constructor <;> decide +kernel

/-! ### non-vacuity -/

/-- a concrete expression: address, a depth-3 nest of entry values (DWARF 5 and GNU spellings, one with a padded
    length), a typed constant, a WebAssembly global, an implicit value; 64-bit DWARF, 8-byte addresses, big endian -/
def sample : List Op :=
  [.plain 0x03 [.u 0x1122334455667788],
   .entry 0xa3 2 [.plain 0x50 [], .entry 0xf3 1 [.entry 0xa3 1 [.plain 0x91 [.sleb 2 (-5)]], .plain 0x96 []]],
   .plain 0xa4 [.uleb 1 9, .block1 [0xaa, 0xbb]],
   .plain 0xed [.wasm 3 0 7],
   .plain 0x94 [.u 0x80],
   .plain 0xfa [.u 0xdeadbeef],
   .plain 0x9e [.block 1 [1, 2, 3]]]

example : WFops ⟨false, 64, 8, 5⟩ sample = true := by decide +kernel
example : opsMinimal ⟨false, 64, 8, 5⟩ [.plain 0x10 [.uleb 2 300], .entry 0xa3 1 [.plain 0x91 [.sleb 1 (-5)]]] = true := by
  decide +kernel
example : (encodeOps ⟨false, 64, 8, 5⟩ sample).length = 44 := by decide +kernel
/-- the round trip instantiated: the hypotheses of `expr_roundtrip` are satisfiable for a depth-3 nest -/
example (D : List (Nat × List ArgKind)) (hD : ((⟨false, 64, 8, 5⟩ : DwarfCfg), D) ∈ Gen.opDispatch) :
    parseExpr D Gen.opOpcode2Name (encodeOps ⟨false, 64, 8, 5⟩ sample) = .ok (annotate ⟨false, 64, 8, 5⟩ 0 sample) :=
  expr_roundtrip _ D hD sample (by decide +kernel)
/-- and that configuration does have a table -/
example : (⟨false, 64, 8, 5⟩ : DwarfCfg) ∈ Gen.opDispatch.map (·.1) := by rw [every_cfg_has_table]; simp [allDwarfCfgs]

end PyElf.Props.C12
