/-
  C05 tie: the structs, tables and constants the line-program model reads from the
  regenerated side are the standard's (Spec), for every configuration.
-/
import PyElf.Gen.Structs
import PyElf.Gen.Extra_C05
import PyElf.Spec.DwarfStructs
import PyElf.Spec.LineProgram
import PyElf.Model.Env
import PyElf.Model.LineProgram
import PyElf.Proofs.LineProgram
namespace PyElf.Props.TieC05
open PyElf

/-- the line-program header struct (all versions, incl. the v5 entry-format / FormattedEntry fields) -/
theorem dwarf_Dwarf_lineprog_header : Gen.dwarfBundles.map (fun b => (b.1, b.2.Dwarf_lineprog_header)) = Spec.allDwarfCfgs.map (fun c => (c, (Spec.dwarfStructs c).Dwarf_lineprog_header)) := by rfl
theorem dwarf_Dwarf_lineprog_file_entry : Gen.dwarfBundles.map (fun b => (b.1, b.2.Dwarf_lineprog_file_entry)) = Spec.allDwarfCfgs.map (fun c => (c, (Spec.dwarfStructs c).Dwarf_lineprog_file_entry)) := by rfl
theorem dwarf_the_Dwarf_uint8 : Gen.dwarfBundles.map (fun b => (b.1, b.2.the_Dwarf_uint8)) = Spec.allDwarfCfgs.map (fun c => (c, (Spec.dwarfStructs c).the_Dwarf_uint8)) := by rfl
theorem dwarf_the_Dwarf_uint16 : Gen.dwarfBundles.map (fun b => (b.1, b.2.the_Dwarf_uint16)) = Spec.allDwarfCfgs.map (fun c => (c, (Spec.dwarfStructs c).the_Dwarf_uint16)) := by rfl
theorem dwarf_the_Dwarf_uleb128 : Gen.dwarfBundles.map (fun b => (b.1, b.2.the_Dwarf_uleb128)) = Spec.allDwarfCfgs.map (fun c => (c, (Spec.dwarfStructs c).the_Dwarf_uleb128)) := by rfl
theorem dwarf_the_Dwarf_sleb128 : Gen.dwarfBundles.map (fun b => (b.1, b.2.the_Dwarf_sleb128)) = Spec.allDwarfCfgs.map (fun c => (c, (Spec.dwarfStructs c).the_Dwarf_sleb128)) := by rfl
theorem dwarf_the_Dwarf_target_addr : Gen.dwarfBundles.map (fun b => (b.1, b.2.the_Dwarf_target_addr)) = Spec.allDwarfCfgs.map (fun c => (c, (Spec.dwarfStructs c).the_Dwarf_target_addr)) := by rfl
/-- the form → parser table `FormattedEntry` indexes with the forms of a v5 entry format -/
theorem dwarf_forms : Gen.dwarfBundles.map (fun b => (b.1, b.2.forms)) = Spec.allDwarfCfgs.map (fun c => (c, (Spec.dwarfStructs c).forms)) := by rfl

/-- `DW_LNS_*` / `DW_LNE_*` as the decoder sees them are the standard's numbers (DWARF 5 §7.22) -/
theorem lnConsts_are_standard :
    Model.Line.LnConsts.ofTable Gen.lnConstTable = some Proofs.Line.specConsts := by rfl

-- (no source pins: `FormattedEntry._parse` and `initial_length_field_size` are hand-mirrored and tied by the
-- correspondence streams — DESIGN §10.1; `Gen.formattedEntrySourceOk` / `Gen.initialLengthFieldSizeOk` are still
-- emitted by the generator and reported in the evidence, but no theorem depends on them)

/-- the driver runs the model with `forms` extended by `Gen.lineExtraForms` (entries of `Dwarf_dw_form` the
    bundles do not list; only malformed entry formats can name them): none of them shadows a listed form -/
theorem extra_forms_disjoint :
    Gen.lineExtraFormNames.all (fun n => !DwarfStructs.formNames.contains n) = true := by decide
theorem extra_forms_names :
    Gen.lineExtraForms.all (fun e => e.2.all fun f => Gen.lineExtraFormNames.contains f.1) = true := by decide

/-- content-type codes decode to the standard's names (DWARF 5 table 7.27) -/
theorem lnct_names : ∀ ct ∈ [1, 2, 3, 4, 5],
    Model.genEnumDecode "ENUM_DW_LNCT" (Int.ofNat ct) = Spec.Line.lnctName ct := by decide

/-- the form codes the Spec allows in entry formats decode to the standard's form names (table 7.6) -/
theorem form_names : ∀ fc ∈ [0x08, 0x1f, 0x0e, 0x1d, 0x0b, 0x05, 0x06, 0x07, 0x0f, 0x1e, 0x09],
    Model.genEnumDecode "ENUM_DW_FORM" (Int.ofNat fc) = (Spec.Line.formOf fc).map (·.1) := by decide

end PyElf.Props.TieC05
