/-
  C17 — catch-all theorems over the whole regenerated table index (robust against tables being added to or
  removed from the library: whatever gen.py finds is covered), and the tie of the index to gen.py's own lists.
-/
import PyElf.Props.C17Base
namespace PyElf.Props.C17All
open PyElf PyElf.Spec PyElf.Proofs.Registry PyElf.Props.C17
set_option maxRecDepth 100000

/-- the index lists exactly the tables of Gen/Tables.lean, in order, with their ids -/
theorem index_tables : Gen.tableIndex.map (fun x => x.2.2.2) = Gen.keyTables.map (·.2) ++ Gen.constKeyTables.map (·.2) := by rfl
theorem index_ids : Gen.tableIndex.map (fun x => x.2.1) = Gen.keyTables.map (·.1) ++ Gen.constKeyTables.map (·.1) := by decide +kernel
theorem index_kinds : Gen.tableIndex.map (fun x => x.2.2.1) = Gen.keyTables.map (fun _ => true) ++ Gen.constKeyTables.map (fun _ => false) := by decide +kernel
theorem index_keys_distinct : Gen.tableIndexComplete = true := by rfl

/-- C17, conformance: every (name, value) pair of every exported table whose name a registry defines has a registry value -/
theorem every_table_conforms : ∀ k id e T, (k, id, e, T) ∈ Gen.tableIndex → Conforms Registry.entries T := by
  have h : Gen.tableIndex.all (fun x => conformsB Registry.tree x.2.2.2) = true := by decide +kernel
  intro k id e T hm
  exact conformsB_sound registry_ordered (List.all_eq_true.mp h _ hm)

/-- C17, decoding direction, for every ENUM_* dictionary (incl. the per-machine compositions built by structs.py) -/
theorem every_enum_decodes_to_standard_name :
    ∀ k id T, (k, id, true, T) ∈ Gen.tableIndex → DecodesStd Registry.entries legacyAliases T := by
  have h : Gen.tableIndex.all (fun x => !x.2.2.1 || decodesStdB Registry.tree legacyAliases x.2.2.2 x.2.2.2) = true := by
    decide +kernel
  intro k id T hm
  have := List.all_eq_true.mp h _ hm
  simp only [Bool.not_true, Bool.false_or] at this
  exact decodesStdB_sound registry_ordered this

/-- the marker index lists one flag list per table of the index, under the same id keys, in the same order, each of the
    length of its table -/
theorem marker_index_parallel :
    Gen.markerIndex.map (fun x => (x.1, x.2.length)) = Gen.tableIndex.map (fun x => (x.1, x.2.2.2.length)) := by
  decide +kernel

/-- C17, range-marker rule, for every ENUM_* dictionary (incl. the per-machine compositions built by structs.py):
    a code for which the table knows a real (non-marker) name is never reported under a range marker sharing its
    value (`DT_FILTER` / `DT_HIPROC` = 0x7fffffff …) -/
theorem every_enum_no_marker_shadow :
    ∀ k id T, (k, id, true, T) ∈ Gen.tableIndex →
      ∃ ms M, findMarkers k Gen.markerIndex = some ms ∧ attachMarkers T ms = some M ∧ NoMarkerShadow M := by
  have h : Gen.tableIndex.all (fun x => !x.2.2.1 || markerCheckB x.1 x.2.2.2) = true := by
    decide +kernel
  intro k id T hm
  have := List.all_eq_true.mp h _ hm
  simp only [Bool.not_true, Bool.false_or] at this
  exact markerCheckB_elim this

end PyElf.Props.C17All
