/-
  C07 — location and range lists decode to exactly the encoded entries.

  Property theorems only.  `pre`/`rest` are arbitrary surrounding bytes.  The list
  objects are the model's `Lists` (stream, structs, address size, version) with the
  struct bundle of any configuration `cfg` (byte order × DWARF format × address size
  × version); `Props/TieC07.lean` ties those bundles and the DW_LLE/DW_RLE tables to
  what the library builds.  `env` is any construct environment whose two enum tables
  decode as the library's (`TieC07.lle_codes`, `rle_codes`: `Model.dwarfEnv` does).

  Sixth wave (end of file): END TO END from section bytes — `debug_info_cus_exact` (the units / entries the list code
  walks come out of C04's model on the Spec encoding of any well-formed forest), `die_decoding_exact` /
  `forest_die_decoding` (every form, indexed ones against the table bytes), `get_addr_slot`,
  `enumeration_exact_locations_v4_info` / `_v5_info`, `enumeration_exact_ranges_info`, `parse_from_attribute_info`,
  `range_list_of_attribute_info`; C07 × C12: `location_expr_ops_exact`, `v4_loclist_first_expr`,
  `location_expr_attr_ops_exact`.
  Correspondence-only (model ↔ code on every run, no theorem): malformed lists (no terminator before the section end,
  offsets beyond the section, offset-table index out of range: stream `raw`), DW_AT_GNU_locviews corner cases outside
  `refsAgree` (views without a list, a list referenced both with and without views), that `forestResolves` follows
  from `wfForestB` (both are decidable conditions on the description; the examples satisfy both), a section-level
  layout description for `iter_range_lists` (each fetch is `v4_rnglist_roundtrip` / `v5_rnglist_fetch`).
-/
import PyElf.Spec.DwarfStructs
import PyElf.Spec.Lists
import PyElf.Model.Lists
import PyElf.Model.Env
import PyElf.Proofs.ListsV4
import PyElf.Proofs.ListsV5
import PyElf.Proofs.ListsUnits
import PyElf.Proofs.ListsUnitLists
import PyElf.Proofs.ListsCls
import PyElf.Proofs.ListsFetch
import PyElf.Proofs.ListsEnum
import PyElf.Proofs.ListsLocScan
import PyElf.Proofs.ListsLocWalk
import PyElf.Props.TieC07
import PyElf.Props.TieC07Info
import PyElf.Model.ListsInfo
import PyElf.Proofs.ListsSlots
import PyElf.Proofs.ListsInfo
import PyElf.Proofs.ListsInfoDemo
import PyElf.Props.C04
import PyElf.Proofs.ListsExpr
import PyElf.Props.C12
namespace PyElf.Props.C07
open PyElf PyElf.Spec PyElf.Spec.Lists PyElf.Proofs

/-! ### DWARF 2–4 lists (.debug_loc, .debug_ranges) -/

/-- `v4_loclist_roundtrip`: fetching at the offset of an encoded list returns its entries up to the
    (0, 0) terminator — base-address selection entries and bounded entries with their expression bytes,
    each with its offset and length — whatever precedes and follows -/
theorem v4_loclist_roundtrip (env : Env) (secs : Model.Lists.Secs) (cfg : DwarfCfg) (l : Model.Lists.Lists)
    (cu : Option Model.Lists.Cu) (pre rest : Bytes) (es : List V4Loc)
    (hS : l.S = Spec.dwarfStructs cfg) (ha : l.asz = cfg.asz) (hasz : 1 ≤ cfg.asz) (hv : l.version < 5)
    (hd : l.data = pre ++ encV4Loc cfg.le cfg.asz es ++ rest)
    (hwf : ∀ e ∈ es, e.wf cfg.asz = true) (hsmall : pre.length < 2 ^ 63) :
    Model.Lists.getLocationListAtOffset env secs l (pre.length : Int) cu = .ok (obsV4Loc cfg.asz pre.length es) := by
  rw [← ha] at hd hwf hasz ⊢
  exact ListsFetch.getLocationListAtOffset_v4 env secs l cfg.le cu pre rest es
    (by rw [hS, ha]; rfl) (by rw [hS]; rfl) (by rw [hS]; rfl) hasz hv hd hwf hsmall

theorem v4_rnglist_roundtrip (env : Env) (secs : Model.Lists.Secs) (cfg : DwarfCfg) (l : Model.Lists.Lists)
    (cu : Option Model.Lists.Cu) (pre rest : Bytes) (es : List V4Rng)
    (hS : l.S = Spec.dwarfStructs cfg) (ha : l.asz = cfg.asz) (hasz : 1 ≤ cfg.asz) (hv : l.version < 5)
    (hd : l.data = pre ++ encV4Rng cfg.le cfg.asz es ++ rest)
    (hwf : ∀ e ∈ es, e.wf cfg.asz = true) (hsmall : pre.length < 2 ^ 63) :
    Model.Lists.getRangeListAtOffset env secs l (pre.length : Int) cu = .ok (obsV4Rng cfg.asz pre.length es) := by
  rw [← ha] at hd hwf hasz ⊢
  exact ListsFetch.getRangeListAtOffset_v4 env secs l cfg.le cu pre rest es
    (by rw [hS, ha]; rfl) hasz hv hd hwf hsmall

/-! ### DWARF 5 entries: every DW_LLE / DW_RLE kind -/

/-- `v5_entries_roundtrip` (∀ kind): the entry parser of the struct bundle, with the library's code
    table, decodes any sequence of entries of any kinds up to DW_LLE_end_of_list: kind, operands by
    name, entry offset, end offset and length; ULEB128 operands may be padded -/
theorem v5_entries_roundtrip_loc (S : DwarfStructs) (cfg : DwarfCfg) (pre rest : Bytes) (es : List Ent) (ctx : Fields)
    (hwf : ∀ e ∈ es, e.wf lleKinds cfg.asz = true) :
    Con.parse (Model.dwarfEnv S) (pre ++ encList cfg.le cfg.asz es ++ rest)
        (Spec.dwarfStructs cfg).Dwarf_loclists_entries ctx pre.length
      = .ok (.list (rawObsList cfg.asz pre.length es), pre.length + listSize cfg.asz es, ctx) :=
  ListsV5.parse_loclists_entries _ cfg pre rest es ctx TieC07.lle_codes hwf

theorem v5_entries_roundtrip_rng (S : DwarfStructs) (cfg : DwarfCfg) (pre rest : Bytes) (es : List Ent) (ctx : Fields)
    (hwf : ∀ e ∈ es, e.wf rleKinds cfg.asz = true) :
    Con.parse (Model.dwarfEnv S) (pre ++ encList cfg.le cfg.asz es ++ rest)
        (Spec.dwarfStructs cfg).Dwarf_rnglists_entries ctx pre.length
      = .ok (.list (rawObsList cfg.asz pre.length es), pre.length + listSize cfg.asz es, ctx) :=
  ListsV5.parse_rnglists_entries _ cfg pre rest es ctx TieC07.rle_codes hwf

/-- `translate_exact`: the translation tables give each kind its DWARF 5 meaning: indexed addresses
    come from the unit's address table, start/length denotes `[start, start + length)`, the default
    entry has no bounds, offset pairs stay relative -/
theorem translate_exact_loc (env : Env) (secs : Model.Lists.Secs) (cu : Option Model.Lists.Cu) (addrs : List Nat)
    (asz off : Nat) (e : Ent) (v : Val) (hwf : e.wf lleKinds asz = true)
    (haddr : ∀ i a, addrOf addrs i = some a → Model.Lists.cuAddr env secs cu (.int i) = .ok (.int a))
    (hsp : Spec.Lists.translateLoc (addrOf addrs) asz off e = some v) :
    Model.Lists.translateLoc env secs cu (e.rawObs asz off) = .ok v :=
  ListsV5.translateLoc_exact env secs cu addrs asz off e v hwf haddr hsp

/-- also `RangeLists.translate_v5_entry` -/
theorem translate_exact_rng (env : Env) (secs : Model.Lists.Secs) (cu : Option Model.Lists.Cu) (addrs : List Nat)
    (asz off : Nat) (e : Ent) (v : Val) (hwf : e.wf rleKinds asz = true)
    (haddr : ∀ i a, addrOf addrs i = some a → Model.Lists.cuAddr env secs cu (.int i) = .ok (.int a))
    (hsp : Spec.Lists.translateRng (addrOf addrs) asz off e = some v) :
    Model.Lists.translateV5Entry env secs cu (e.rawObs asz off) = .ok v :=
  ListsV5.translateRng_exact env secs cu addrs asz off e v hwf haddr hsp

/-- the address table: index `i` is the `i`-th address of the array at `DW_AT_addr_base` in .debug_addr
    (this discharges the `haddr` hypotheses above) -/
theorem get_addr_exact (env : Env) (secs : Model.Lists.Secs) (cu : Model.Lists.Cu) (le : Bool) (pre rest : Bytes)
    (addrs : List Nat) (i : Nat)
    (hS : cu.S.the_Dwarf_target_addr = .uint cu.asz le)
    (hbase : Model.Lists.getBaseOffset cu "DW_AT_addr_base" = .ok (.int pre.length))
    (hsec : secs.addr = some (pre ++ encAddrs le cu.asz addrs ++ rest))
    (hi : i < addrs.length) (hwf : ∀ a ∈ addrs, a < 256 ^ cu.asz)
    (hsmall : pre.length + i * cu.asz < 2 ^ 63) :
    Model.Lists.cuAddr env secs (some cu) (.int i) = .ok (.int (addrs[i]'hi)) :=
  ListsV4.getAddr_exact env secs cu le pre rest addrs i hS hbase hsec hi hwf hsmall

/-- fetching a DWARF 5 location list by section offset: the entries up to the terminator, translated -/
theorem v5_loclist_fetch (S : DwarfStructs) (secs : Model.Lists.Secs) (cfg : DwarfCfg) (l : Model.Lists.Lists)
    (cu : Model.Lists.Cu) (addrs : List Nat) (pre rest : Bytes) (es : List Ent) (vs : List Val)
    (hS : l.S = Spec.dwarfStructs cfg) (hv : 5 ≤ l.version)
    (hd : l.data = pre ++ encList cfg.le cfg.asz es ++ rest)
    (hwf : ∀ e ∈ es, e.wf lleKinds cfg.asz = true) (hsmall : pre.length < 2 ^ 63)
    (haddr : ∀ i a, addrOf addrs i = some a →
      Model.Lists.cuAddr (Model.dwarfEnv S) secs (some cu) (.int i) = .ok (.int a))
    (hsp : translateList (fun o e => Spec.Lists.translateLoc (addrOf addrs) cfg.asz o e) cfg.asz pre.length es = some vs) :
    Model.Lists.getLocationListAtOffset (Model.dwarfEnv S) secs l (pre.length : Int) (some cu) = .ok vs :=
  ListsFetch.getLocationListAtOffset_v5 _ secs cfg l cu addrs pre rest es vs TieC07.lle_codes (by rw [hS]) hv hd hwf
    hsmall haddr hsp

theorem v5_rnglist_fetch (S : DwarfStructs) (secs : Model.Lists.Secs) (cfg : DwarfCfg) (l : Model.Lists.Lists)
    (cu : Option Model.Lists.Cu) (addrs : List Nat) (pre rest : Bytes) (es : List Ent) (vs : List Val)
    (hS : l.S = Spec.dwarfStructs cfg) (hv : 5 ≤ l.version)
    (hd : l.data = pre ++ encList cfg.le cfg.asz es ++ rest)
    (hwf : ∀ e ∈ es, e.wf rleKinds cfg.asz = true) (hsmall : pre.length < 2 ^ 63)
    (haddr : ∀ i a, addrOf addrs i = some a →
      Model.Lists.cuAddr (Model.dwarfEnv S) secs cu (.int i) = .ok (.int a))
    (hsp : translateList (fun o e => Spec.Lists.translateRng (addrOf addrs) cfg.asz o e) cfg.asz pre.length es = some vs) :
    Model.Lists.getRangeListAtOffset (Model.dwarfEnv S) secs l (pre.length : Int) cu = .ok vs :=
  ListsFetch.getRangeListAtOffset_v5 _ secs cfg l cu addrs pre rest es vs TieC07.rle_codes (by rw [hS]) hv hd hwf
    hsmall haddr hsp

/-- `get_range_list_at_offset_ex`: the entries as stored, addresses and offsets unresolved -/
theorem v5_rnglist_fetch_raw (S : DwarfStructs) (cfg : DwarfCfg) (l : Model.Lists.Lists) (pre rest : Bytes) (es : List Ent)
    (hS : l.S = Spec.dwarfStructs cfg)
    (hd : l.data = pre ++ encList cfg.le cfg.asz es ++ rest)
    (hwf : ∀ e ∈ es, e.wf rleKinds cfg.asz = true) (hsmall : pre.length < 2 ^ 63) :
    Model.Lists.getRangeListAtOffsetEx (Model.dwarfEnv S) l (pre.length : Int)
      = .ok (.list (rawObsList cfg.asz pre.length es)) :=
  ListsFetch.getRangeListAtOffsetEx_v5 _ cfg l pre rest es TieC07.rle_codes (by rw [hS]) hd hwf hsmall

/-! ### lists designated by index: the unit's offset table -/

/-- `index_lookup_exact`: index `i` resolves to (table base) + (entry `i` of the offset table), with 4-byte
    entries in the 32-bit and 8-byte entries in the 64-bit DWARF format -/
theorem index_lookup_exact (env : Env) (cu : Model.Lists.Cu) (le : Bool) (pre rest : Bytes) (offs : List Nat) (i : Nat)
    (baseName : String) (osz : Nat) (hosz : osz = if cu.fmt = 32 then 4 else 8)
    (hS : cu.S.the_Dwarf_offset = .uint osz le)
    (hbase : Model.Lists.getBaseOffset cu baseName = .ok (.int pre.length))
    (hi : i < offs.length) (hwf : ∀ o ∈ offs, o < 256 ^ osz)
    (hsmall : pre.length + i * osz < 2 ^ 63) :
    Model.Lists.resolveViaOffsetTable env (some (pre ++ encOffsets le osz offs ++ rest)) cu (.int i) baseName
      = .ok (.int ((pre.length + offs[i]'hi : Nat) : Int)) :=
  ListsV4.resolveViaOffsetTable_exact env cu le pre rest offs i baseName osz hosz hS hbase hi hwf hsmall

/-- the value of a `DW_FORM_loclistx` attribute is that offset (die.py:328) -/
theorem attr_value_loclistx (env : Env) (secs : Model.Lists.Secs) (cu : Model.Lists.Cu) (le : Bool)
    (pre rest : Bytes) (offs : List Nat) (i : Nat) (osz : Nat) (hosz : osz = if cu.fmt = 32 then 4 else 8)
    (hS : cu.S.the_Dwarf_offset = .uint osz le)
    (hbase : Model.Lists.getBaseOffset cu "DW_AT_loclists_base" = .ok (.int pre.length))
    (hsec : secs.loclists = some (pre ++ encOffsets le osz offs ++ rest))
    (hi : i < offs.length) (hwf : ∀ o ∈ offs, o < 256 ^ osz) (hsmall : pre.length + i * osz < 2 ^ 63) :
    Model.Lists.translateAttrValue env secs cu "DW_FORM_loclistx" (.int i)
      = .ok (.int ((pre.length + offs[i]'hi : Nat) : Int)) :=
  ListsFetch.attrValue_loclistx env secs cu le pre rest offs i osz hosz hS hbase hsec hi hwf hsmall

/-- … and of a `DW_FORM_rnglistx` attribute (die.py:330) -/
theorem attr_value_rnglistx (env : Env) (secs : Model.Lists.Secs) (cu : Model.Lists.Cu) (le : Bool)
    (pre rest : Bytes) (offs : List Nat) (i : Nat) (osz : Nat) (hosz : osz = if cu.fmt = 32 then 4 else 8)
    (hS : cu.S.the_Dwarf_offset = .uint osz le)
    (hbase : Model.Lists.getBaseOffset cu "DW_AT_rnglists_base" = .ok (.int pre.length))
    (hsec : secs.rnglists = some (pre ++ encOffsets le osz offs ++ rest))
    (hi : i < offs.length) (hwf : ∀ o ∈ offs, o < 256 ^ osz) (hsmall : pre.length + i * osz < 2 ^ 63) :
    Model.Lists.translateAttrValue env secs cu "DW_FORM_rnglistx" (.int i)
      = .ok (.int ((pre.length + offs[i]'hi : Nat) : Int)) :=
  ListsFetch.attrValue_rnglistx env secs cu le pre rest offs i osz hosz hS hbase hsec hi hwf hsmall

/-! ### unit blocks of the DWARF 5 sections -/

/-- the unit header of either section, in either DWARF format -/
theorem unit_header_roundtrip (env : Env) (cfg : DwarfCfg) (u : UnitHdr) (body pre rest : Bytes) (ctx : Fields)
    (hwf : u.wf body = true) :
    structParse env (Spec.dwarfStructs cfg).Dwarf_rnglists_CU_header (pre ++ encUnit cfg.le u body ++ rest) pre.length
      = .ok (.record (u.obsFields pre.length body), pre.length + u.lenSize + 8) :=
  ListsUnits.parse_unit_header env cfg u body pre rest ctx hwf

theorem unit_header_roundtrip_loc (env : Env) (cfg : DwarfCfg) (u : UnitHdr) (body pre rest : Bytes) (ctx : Fields)
    (hwf : u.wf body = true) :
    structParse env (Spec.dwarfStructs cfg).Dwarf_loclists_CU_header (pre ++ encUnit cfg.le u body ++ rest) pre.length
      = .ok (.record (u.obsFields pre.length body), pre.length + u.lenSize + 8) :=
  ListsUnits.parse_unit_header_loc env cfg u body pre rest ctx hwf

/-- `enumeration_exact` (unit blocks): `iter_CUs()` over a section made of unit blocks yields exactly those
    blocks, each with its header fields and its offset table (`offset_count ≥ 0` entries of 4 or 8 bytes) -/
theorem enumeration_exact_units (env : Env) (cfg : DwarfCfg) (S : DwarfStructs) (us : List (UnitHdr × Bytes))
    (h64 : S.Dwarf_uint64 = .uint 8 cfg.le) (h32 : S.Dwarf_uint32 = .uint 4 cfg.le)
    (hwf : ∀ ub ∈ us, ub.1.wf ub.2 = true)
    (hsmall : (encUnits cfg.le us).length < 2 ^ 63) :
    Model.Lists.iterCUsLoop env S (Spec.dwarfStructs cfg).Dwarf_rnglists_CU_header (encUnits cfg.le us)
        ((encUnits cfg.le us).length + 1) 0 []
      = .ok (obsUnits 0 us) :=
  ListsUnits.iterCUs_exact env cfg S us h64 h32 hwf hsmall

/-- `enumeration_exact` (range lists of a unit block): `iter_CU_range_lists_ex(cu)` on a unit whose body is
    its lists one after the other yields exactly those lists, whatever the size of the offset table.
    (False of the tree before the fix `C07-rnglists-offset-table-skip`: with `offset_count = 1` the walk
    started 28 (DWARF32) bytes too far.) -/
theorem enumeration_exact_unit_lists (S : DwarfStructs) (cfg : DwarfCfg) (l : Model.Lists.Lists) (u : UnitHdr)
    (ls : List (List Ent)) (pre rest : Bytes)
    (hS : l.S = Spec.dwarfStructs cfg)
    (hd : l.data = pre ++ encUnit cfg.le u (encLists cfg.le cfg.asz ls) ++ rest)
    (hwf : ∀ es ∈ ls, ∀ e ∈ es, e.wf rleKinds cfg.asz = true)
    (hsmall : l.data.length < 2 ^ 63) :
    Model.Lists.iterCURangeListsEx (Model.dwarfEnv S) l (u.obs pre.length (encLists cfg.le cfg.asz ls))
      = .ok ((rawObsLists cfg.asz (pre.length + u.lenSize + 8 + u.osz * u.offsets.length) ls).map Val.list) :=
  ListsUnitLists.iterCURangeListsEx_exact _ cfg l u ls pre rest TieC07.rle_codes (by rw [hS]) hd hwf hsmall

/-- `enumeration_exact` (range lists referenced by debugging entries): `iter_range_lists()` fetches, in
    increasing offset order, exactly the distinct offsets held by the `DW_AT_ranges` attributes of the units of
    the section's generation (`refs`, in DIE order; indexed forms already resolved through the offset table by
    `attr_value_rnglistx`), each with the unit that referred to it last.  Each fetch is
    `v4_rnglist_roundtrip` / `v5_rnglist_fetch`. -/
theorem enumeration_exact_ranges (env : Env) (secs : Model.Lists.Secs) (l : Model.Lists.Lists)
    (cus : List Model.Lists.Cu) (refs : List (Int × Model.Lists.Cu))
    (hrefs : Model.Lists.rangeRefs env secs (decide (l.version ≥ 5)) cus = .ok refs) :
    Model.Lists.iterRangeLists env secs l cus =
      (sortedDistinct (refs.map (·.1))).mapM fun offset =>
        match Model.Lists.dictGet? (Model.Lists.cuMapOf refs) offset with
        | none => .error .keyError
        | some cu => Model.Lists.getRangeListAtOffset env secs l offset (some cu) :=
  ListsEnum.iterRangeLists_exact env secs l cus refs hrefs

/-- the visited offsets are the referenced ones: same members, strictly increasing (no list twice) … -/
theorem visited_offsets_mem (xs : List Int) (x : Int) : x ∈ sortedDistinct xs ↔ x ∈ xs :=
  ListsEnum.mem_sortedDistinct xs x

theorem visited_offsets_sorted (xs : List Int) : (sortedDistinct xs).Pairwise (· < ·) :=
  ListsEnum.sortedDistinct_sorted xs

/-- … every visited offset has a unit (the `KeyError` branch is unreachable), and it is one that referred to it -/
theorem visited_offset_has_unit (refs : List (Int × Model.Lists.Cu)) (offset : Int)
    (h : offset ∈ sortedDistinct (refs.map (·.1))) :
    (Model.Lists.dictGet? (Model.Lists.cuMapOf refs) offset).isSome = true :=
  ListsEnum.iterRangeLists_key_present refs offset h

theorem visited_offset_unit_referred (refs : List (Int × Model.Lists.Cu)) (k : Int) (cu : Model.Lists.Cu)
    (h : Model.Lists.dictGet? (Model.Lists.cuMapOf refs) k = some cu) : (k, cu) ∈ refs :=
  ListsEnum.dictGet_cuMapOf_mem refs k cu h

/-! ### `enumeration_exact` (location lists referenced by debugging entries): `iter_location_lists()`

  The section is described by its referenced objects (`Spec.Lists.LocObj`: unreferenced bytes, view pairs, list) —
  for .debug_loclists grouped in unit blocks (`LocUnit`: header with offset table, objects, unreferenced bytes at the
  end).  `dec cu die` is the decoded form of a debugging entry (hypothesis `hdec`; `die_decoding_plain` and
  `attr_value_loclistx` discharge it); `refs` are the references `Spec.Lists.dieLocRefs` finds in the entries of the
  units of the section's generation, in `iter_CUs()` × `iter_DIEs()` order, each with its unit.
  Well-formedness: every list entry and view pair is encodable (`wf`, `viewsOk`), the section is shorter than 2^63,
  and `refsAgree`: every reference designates an object of the layout — with `DW_AT_GNU_locviews` pointing at its first
  view pair exactly when the object has view pairs — and every object is referred to.  (Objects follow each other,
  so they do not overlap, and a list is referenced either always with or always without views.)
  Conclusion: the enumeration yields exactly the objects, in offset order, each as its view pairs followed by its
  entries (`obsObjs`); gaps, offset tables and the bytes at a unit's end are skipped. -/

/-- what `iter_location_lists()` does with one debugging entry: exactly the references the decision table finds -/
theorem die_refs_exact (env : Env) (secs : Model.Lists.Secs) (cu : Model.Lists.Cu) (st : Model.Lists.Scan)
    (die : List Model.Lists.RawAttr) (d : List Model.Lists.Attr) (rs : List LocRef)
    (hd : Model.Lists.dieAttrs env secs cu die = .ok d)
    (hr : dieLocRefs cu.version (d.map ListsLocScan.toDie) = some rs) :
    Model.Lists.scanDie env secs cu st die = .ok (rs.foldl (ListsLocScan.applyRef cu) st) :=
  ListsLocScan.scanDie_refs env secs cu st die d rs hd hr

/-- a debugging entry without indexed forms decodes to its raw values (discharges `hdec` below; indexed forms:
    `attr_value_loclistx`) -/
theorem die_decoding_plain (env : Env) (secs : Model.Lists.Secs) (cu : Model.Lists.Cu) (die : List Model.Lists.RawAttr)
    (h : ∀ a ∈ die, a.form ≠ "DW_FORM_loclistx" ∧ a.form ≠ "DW_FORM_rnglistx") :
    Model.Lists.dieAttrs env secs cu die
      = .ok (Model.Lists.attrDict (die.map fun a => ⟨a.name, a.form, a.raw⟩)) :=
  ListsLocScan.dieAttrs_plain env secs cu die h

/-- `enumeration_exact_locations` (.debug_loc, DWARF 2–4): the lists are fetched at the referenced offsets whatever
    lies between them (`gap`, `tail` are arbitrary bytes) -/
theorem enumeration_exact_locations_v4 (env : Env) (secs : Model.Lists.Secs) (cfg : DwarfCfg) (l : Model.Lists.Lists)
    (cus : List Model.Lists.Cu) (dec : Model.Lists.Cu → List Model.Lists.RawAttr → List Model.Lists.Attr)
    (refs : List (LocRef × Model.Lists.Cu)) (objs : List (LocObj (List V4Loc))) (tail : Bytes) (outs : List (List Val))
    (hS : l.S = Spec.dwarfStructs cfg) (ha : l.asz = cfg.asz) (hasz : 1 ≤ cfg.asz) (hv : l.version < 5)
    (hd : l.data = encObjs (encV4Loc cfg.le cfg.asz) cfg.le objs ++ tail)
    (hsmall : l.data.length < 2 ^ 63)
    (hdec : ∀ cu ∈ cus, (decide (cu.version ≥ 5) == false) = true →
      ∀ die ∈ cu.dies, Model.Lists.dieAttrs env secs cu die = .ok (dec cu die))
    (hrefs : ListsLocScan.locRefs dec false cus = some refs)
    (hobj : ∀ o ∈ objs, o.viewsOk = true ∧ ∀ x ∈ o.list, x.wf cfg.asz = true)
    (hagree : refsAgree (refs.map (·.1)) ((layout (v4LocSize cfg.asz) 0 objs).map layoutRef) = true)
    (hobs : obsObjs (fun off es => some (obsV4Loc cfg.asz off es)) (layout (v4LocSize cfg.asz) 0 objs) = some outs) :
    Model.Lists.iterLocationLists env secs l cus = .ok outs :=
  ListsLocWalk.iterLocationLists_v4 env secs cfg l cus dec refs objs tail outs hS ha hasz hv hd hsmall hdec hrefs hobj
    hagree hobs

/-- `enumeration_exact_locations` (.debug_loclists, DWARF 5): unit block after unit block; in each block the offset
    table, the bytes between objects and the bytes at the block's end are skipped; each list is translated with the
    address array of the unit that refers to it (`haddr`: what `get_addr_exact` gives).
    (False of the tree before the fix `C07-loclists-trailing-gap`: IndexError on a last block that ends in a gap.) -/
theorem enumeration_exact_locations_v5 (S : DwarfStructs) (secs : Model.Lists.Secs) (cfg : DwarfCfg)
    (l : Model.Lists.Lists) (cus : List Model.Lists.Cu)
    (dec : Model.Lists.Cu → List Model.Lists.RawAttr → List Model.Lists.Attr)
    (refs : List (LocRef × Model.Lists.Cu)) (us : List LocUnit) (outs : List (List Val))
    (hS : l.S = Spec.dwarfStructs cfg) (hv : 5 ≤ l.version)
    (hd : l.data = encLocUnits cfg.le cfg.asz us)
    (hsmall : l.data.length < 2 ^ 63)
    (hdec : ∀ cu ∈ cus, (decide (cu.version ≥ 5) == true) = true →
      ∀ die ∈ cu.dies, Model.Lists.dieAttrs (Model.dwarfEnv S) secs cu die = .ok (dec cu die))
    (hrefs : ListsLocScan.locRefs dec true cus = some refs)
    (hhdr : ∀ u ∈ us, u.hdr.wf (u.body cfg.le cfg.asz) = true)
    (hobj : ∀ u ∈ us, ∀ o ∈ u.objs, o.viewsOk = true ∧ ∀ x ∈ o.list.2, x.wf lleKinds cfg.asz = true)
    (hagree : refsAgree (refs.map (·.1)) ((layoutUnits cfg.le cfg.asz 0 us).map layoutRef) = true)
    (haddr : ∀ rc ∈ refs, ∀ e ∈ layoutUnits cfg.le cfg.asz 0 us, rc.1 = layoutRef e →
      ∀ i a, addrOf e.2.2.list.1 i = some a →
        Model.Lists.cuAddr (Model.dwarfEnv S) secs (some rc.2) (.int i) = .ok (.int a))
    (hobs : obsObjs (ListsLocWalk.obsL5 cfg.asz) (layoutUnits cfg.le cfg.asz 0 us) = some outs) :
    Model.Lists.iterLocationLists (Model.dwarfEnv S) secs l cus = .ok outs :=
  ListsLocWalk.iterLocationLists_v5 _ secs cfg l cus dec refs us outs TieC07.lle_codes hS hv hd hsmall hdec hrefs hhdr
    hobj hagree haddr hobs

/-- the references all come from units of the section's generation (a pre-v5 unit is ignored by the enumeration of
    .debug_loclists and vice versa) -/
theorem location_refs_generation (dec : Model.Lists.Cu → List Model.Lists.RawAttr → List Model.Lists.Attr)
    (ver5 : Bool) (cus : List Model.Lists.Cu) (refs : List (LocRef × Model.Lists.Cu))
    (h : ListsLocScan.locRefs dec ver5 cus = some refs) :
    ∀ rc ∈ refs, rc.2 ∈ cus ∧ (decide (rc.2.version ≥ 5) == ver5) = true :=
  ListsLocScan.locRefs_gen dec ver5 cus refs h

/-! ### both generations present: `LocationListsPair` / `RangeListsPair` (what `DWARFInfo.location_lists()` /
    `range_lists()` return when the old and the DWARF 5 section both exist) -/

/-- with both sections present the factory returns a pair holding a version-4 object over the old section and a
    version-5 object over the new one, both with the `DWARFInfo`'s structs -/
theorem factory_pair (S : DwarfStructs) (asz : Nat) (d4 d5 : Bytes) :
    Model.Lists.listsFactory S asz (some d4) (some d5)
      = .pair ⟨⟨d4, S, asz, 4⟩, ⟨d5, S, asz, 5⟩⟩ := rfl

/-- `pair_dispatch`: a request made for a unit is forwarded to the DWARF 5 section exactly when the unit's version
    is ≥ 5, otherwise to the old section; without a unit it is refused -/
theorem pair_dispatch_loc (env : Env) (secs : Model.Lists.Secs) (p : Model.Lists.ListsPair) (offset : Int)
    (cu : Model.Lists.Cu) :
    Model.Lists.pairGetLocationListAtOffset env secs p offset (some cu)
      = Model.Lists.getLocationListAtOffset env secs (if cu.version ≥ 5 then p.new else p.old) offset (some cu) := rfl

theorem pair_dispatch_rng (env : Env) (secs : Model.Lists.Secs) (p : Model.Lists.ListsPair) (offset : Int)
    (cu : Model.Lists.Cu) :
    Model.Lists.pairGetRangeListAtOffset env secs p offset (some cu)
      = Model.Lists.getRangeListAtOffset env secs (if cu.version ≥ 5 then p.new else p.old) offset (some cu) := rfl

theorem pair_no_unit (env : Env) (secs : Model.Lists.Secs) (p : Model.Lists.ListsPair) (offset : Int) :
    Model.Lists.pairGetLocationListAtOffset env secs p offset none = .error .dwarfError
      ∧ Model.Lists.pairGetRangeListAtOffset env secs p offset none = .error .dwarfError := ⟨rfl, rfl⟩

/-- a DWARF 5 unit's location list comes from .debug_loclists — whatever .debug_loc holds (`d4`) -/
theorem pair_loc_v5_unit (S : DwarfStructs) (secs : Model.Lists.Secs) (cfg : DwarfCfg) (d4 : Bytes)
    (cu : Model.Lists.Cu) (addrs : List Nat) (pre rest : Bytes) (es : List Ent) (vs : List Val)
    (hcu : 5 ≤ cu.version)
    (hwf : ∀ e ∈ es, e.wf lleKinds cfg.asz = true) (hsmall : pre.length < 2 ^ 63)
    (haddr : ∀ i a, addrOf addrs i = some a →
      Model.Lists.cuAddr (Model.dwarfEnv S) secs (some cu) (.int i) = .ok (.int a))
    (hsp : translateList (fun o e => Spec.Lists.translateLoc (addrOf addrs) cfg.asz o e) cfg.asz pre.length es = some vs) :
    Model.Lists.pairGetLocationListAtOffset (Model.dwarfEnv S) secs
        (Model.Lists.mkPair (Spec.dwarfStructs cfg) cfg.asz d4 (pre ++ encList cfg.le cfg.asz es ++ rest))
        (pre.length : Int) (some cu) = .ok vs := by
  have hc : cu.version ≥ 5 := hcu
  rw [pair_dispatch_loc, if_pos hc]
  exact v5_loclist_fetch S secs cfg _ cu addrs pre rest es vs rfl (Nat.le_refl 5) rfl hwf hsmall haddr hsp

/-- a pre-DWARF-5 unit's location list comes from .debug_loc — whatever .debug_loclists holds (`d5`) -/
theorem pair_loc_old_unit (env : Env) (secs : Model.Lists.Secs) (cfg : DwarfCfg) (d5 : Bytes)
    (cu : Model.Lists.Cu) (pre rest : Bytes) (es : List V4Loc)
    (hcu : cu.version < 5) (hasz : 1 ≤ cfg.asz)
    (hwf : ∀ e ∈ es, e.wf cfg.asz = true) (hsmall : pre.length < 2 ^ 63) :
    Model.Lists.pairGetLocationListAtOffset env secs
        (Model.Lists.mkPair (Spec.dwarfStructs cfg) cfg.asz (pre ++ encV4Loc cfg.le cfg.asz es ++ rest) d5)
        (pre.length : Int) (some cu) = .ok (obsV4Loc cfg.asz pre.length es) := by
  have hc : ¬ (cu.version ≥ 5) := by omega
  rw [pair_dispatch_loc, if_neg hc]
  exact v4_loclist_roundtrip env secs cfg _ (some cu) pre rest es rfl rfl hasz (Nat.lt_succ_self 4) rfl hwf hsmall

/-- … and the same for range lists -/
theorem pair_rng_v5_unit (S : DwarfStructs) (secs : Model.Lists.Secs) (cfg : DwarfCfg) (d4 : Bytes)
    (cu : Model.Lists.Cu) (addrs : List Nat) (pre rest : Bytes) (es : List Ent) (vs : List Val)
    (hcu : 5 ≤ cu.version)
    (hwf : ∀ e ∈ es, e.wf rleKinds cfg.asz = true) (hsmall : pre.length < 2 ^ 63)
    (haddr : ∀ i a, addrOf addrs i = some a →
      Model.Lists.cuAddr (Model.dwarfEnv S) secs (some cu) (.int i) = .ok (.int a))
    (hsp : translateList (fun o e => Spec.Lists.translateRng (addrOf addrs) cfg.asz o e) cfg.asz pre.length es = some vs) :
    Model.Lists.pairGetRangeListAtOffset (Model.dwarfEnv S) secs
        (Model.Lists.mkPair (Spec.dwarfStructs cfg) cfg.asz d4 (pre ++ encList cfg.le cfg.asz es ++ rest))
        (pre.length : Int) (some cu) = .ok vs := by
  have hc : cu.version ≥ 5 := hcu
  rw [pair_dispatch_rng, if_pos hc]
  exact v5_rnglist_fetch S secs cfg _ (some cu) addrs pre rest es vs rfl (Nat.le_refl 5) rfl hwf hsmall haddr hsp

theorem pair_rng_old_unit (env : Env) (secs : Model.Lists.Secs) (cfg : DwarfCfg) (d5 : Bytes)
    (cu : Model.Lists.Cu) (pre rest : Bytes) (es : List V4Rng)
    (hcu : cu.version < 5) (hasz : 1 ≤ cfg.asz)
    (hwf : ∀ e ∈ es, e.wf cfg.asz = true) (hsmall : pre.length < 2 ^ 63) :
    Model.Lists.pairGetRangeListAtOffset env secs
        (Model.Lists.mkPair (Spec.dwarfStructs cfg) cfg.asz (pre ++ encV4Rng cfg.le cfg.asz es ++ rest) d5)
        (pre.length : Int) (some cu) = .ok (obsV4Rng cfg.asz pre.length es) := by
  have hc : ¬ (cu.version ≥ 5) := by omega
  rw [pair_dispatch_rng, if_neg hc]
  exact v4_rnglist_roundtrip env secs cfg _ (some cu) pre rest es rfl rfl hasz (Nat.lt_succ_self 4) rfl hwf hsmall

/-- the remaining forwarding methods: the DWARF 5 object answers the unit-block API, enumeration over two
    sections is refused -/
theorem pair_forwarding (env : Env) (secs : Model.Lists.Secs) (p : Model.Lists.ListsPair) (offset : Int)
    (cus : List Model.Lists.Cu) (h : Val) (cu : Option Model.Lists.Cu) (e : Val) :
    Model.Lists.pairGetRangeListAtOffsetEx env p offset = Model.Lists.getRangeListAtOffsetEx env p.new offset
      ∧ Model.Lists.pairRngIterCUs env p cus = Model.Lists.iterCUs env p.new false cus
      ∧ Model.Lists.pairIterCURangeListsEx env p h = Model.Lists.iterCURangeListsEx env p.new h
      ∧ Model.Lists.pairTranslateV5Entry env secs cu e = Model.Lists.translateV5Entry env secs cu e
      ∧ Model.Lists.pairIterRangeLists = .error .dwarfError
      ∧ Model.Lists.pairIterLocationLists = .error .dwarfError
      ∧ Model.Lists.pairLocIterCUs = .error .dwarfError := ⟨rfl, rfl, rfl, rfl, rfl, rfl, rfl⟩

/-! ### attribute classification -/

/-- `classification_table`: for every form the library knows, every attribute name and every version, what
    `LocationParser` decides is the decision table `Spec.Lists.classify` -/
theorem classification_table (name form : String) (ver : Nat) (hf : form ∈ TieC07.formNames) :
    ListsCls.modelClass name form ver = classify name form ver :=
  ListsCls.modelClass_eq_classify name form ver (TieC07.block_prefix_forms form hf)

/-- `attribute_has_location` is "the table says expression or list" -/
theorem has_location_table (name form : String) (ver : Nat) (hf : form ∈ TieC07.formNames) :
    Model.Lists.attributeHasLocation name form ver = (classify name form ver != .neither) :=
  ListsCls.hasLocation_iff name form ver (TieC07.block_prefix_forms form hf)

/-- `parse_from_attribute`: an expression attribute yields its expression, a list attribute the list at the
    offset it holds (`v4_loclist_roundtrip` / `v5_loclist_fetch`), anything else is refused -/
theorem parse_from_attribute_by_class (env : Env) (secs : Model.Lists.Secs) (l : Model.Lists.Lists)
    (a : Model.Lists.Attr) (ver : Nat) (cu : Option Model.Lists.Cu) (hf : a.form ∈ TieC07.formNames) :
    Model.Lists.parseFromAttribute env secs l a ver cu =
      match classify a.name a.form ver with
      | .expr => .ok (Model.Lists.nt "LocationExpr" [("loc_expr", a.value)])
      | .list => do
          let off ← a.value.asInt
          let r ← Model.Lists.getLocationListAtOffset env secs l off cu
          pure (.list r)
      | .neither => .error .valueError :=
  ListsFetch.parseFromAttribute_by_class env secs l a ver cu (TieC07.block_prefix_forms a.form hf)

/-! ### non-vacuity -/

example : (V4Loc.loc 0 1 [0x50, 0x93, 0x04]).wf 4 = true := by decide
example : (V4Loc.base 0x1000).wf 8 = true := by decide
example : (V4Rng.range 0x10 0x20).wf 4 = true := by decide
example : (Ent.mk ⟨8, "DW_LLE_start_length", [("start_address", .addr), ("length", .uleb), ("loc_expr", .cld)]⟩
            [.addr 0x1000, .uleb 2 0x10, .cld 1 [0x50]]).wf lleKinds 8 = true := by decide
example : (Ent.mk ⟨2, "DW_RLE_startx_endx", [("start_index", .uleb), ("end_index", .uleb)]⟩
            [.uleb 1 0, .uleb 1 1]).wf rleKinds 4 = true := by decide
example : (UnitHdr.mk false 8 0 [4]).wf [7, 0, 0, 0, 0, 0, 0, 0, 0, 0, 0] = true := by decide
example : "DW_FORM_exprloc" ∈ TieC07.formNames := by decide
example : sortedDistinct [5, 3, 5, 1, 3] = [1, 3, 5] := by decide
example : classify "DW_AT_location" "DW_FORM_sec_offset" 5 = .list := by decide
example : classify "DW_AT_location" "DW_FORM_data4" 4 = .neither := by decide
example : classify "DW_AT_data_member_location" "DW_FORM_data4" 2 = .list := by decide

/-! non-vacuity of `enumeration_exact_locations_v4` / `_v5`: complete instances (view pairs, gaps, an offset table,
    a trailing gap, a second (64-bit) unit block, a unit of the other generation that is ignored) -/

example (env : Env) : Model.Lists.iterLocationLists env ⟨none, none, none⟩ ListsLocWalk.demoL [ListsLocWalk.demoCu, ListsLocWalk.demoCu5]
    = .ok [[viewPair 2 1 2, locationEntry 5 11 1 2 [0x50] false, locBaseEntry 16 8 7], []] :=
  enumeration_exact_locations_v4 env _ ListsLocWalk.demoCfg ListsLocWalk.demoL [ListsLocWalk.demoCu, ListsLocWalk.demoCu5] ListsLocWalk.demoDec
    [((some 2, 5), ListsLocWalk.demoCu), ((none, 33), ListsLocWalk.demoCu)] ListsLocWalk.demoObjs [1, 2, 3] _ rfl rfl (by decide) (by decide) rfl (by decide)
    (fun cu hcu hg die hdie => by
      simp only [List.mem_cons, List.not_mem_nil, or_false] at hcu
      rcases hcu with rfl | rfl
      · exact ListsLocScan.dieAttrs_plain env _ _ die (ListsLocWalk.demo_plain die hdie)
      · exact absurd hg (by decide))
    rfl (by decide) (by decide) rfl

example : (layoutUnits true 4 0 ListsLocWalk.demoUs).map layoutRef = [(none, 16), (some 28, 30)] := by decide

example : ListsLocWalk.demoL5.data.length = 58 := by decide

example (S : DwarfStructs) : Model.Lists.iterLocationLists (Model.dwarfEnv S) ⟨none, none, none⟩ ListsLocWalk.demoL5 [ListsLocWalk.demoCu, ListsLocWalk.demoCuV5]
    = .ok [[locBaseEntry 16 5 0x1000, locationEntry 21 5 1 2 [0x50] false],
           [viewPair 28 3 4, locationEntry 30 5 1 2 [0x50] false]] :=
  enumeration_exact_locations_v5 S _ ListsLocWalk.demoCfg ListsLocWalk.demoL5 [ListsLocWalk.demoCu, ListsLocWalk.demoCuV5] ListsLocWalk.demoDec
    [((none, 16), ListsLocWalk.demoCuV5), ((some 28, 30), ListsLocWalk.demoCuV5)] ListsLocWalk.demoUs _ rfl (by decide) rfl (by decide)
    (fun cu hcu hg die hdie => by
      simp only [List.mem_cons, List.not_mem_nil, or_false] at hcu
      rcases hcu with rfl | rfl
      · exact absurd hg (by decide)
      · exact ListsLocScan.dieAttrs_plain _ _ _ die (ListsLocWalk.demo_plain5 die hdie))
    rfl (by decide) (by decide) (by decide)
    (fun rc _ e he _ i a h => by
      have hall : ∀ e ∈ layoutUnits true 4 0 ListsLocWalk.demoUs, e.2.2.list.1 = [] := by decide
      rw [hall e he] at h
      simp [addrOf] at h)
    rfl


/-! ### END TO END FROM SECTION BYTES: `.debug_info` + `.debug_abbrev` (+ `.debug_str`, … for the other attributes) +
    the list sections + `.debug_addr`

  Above, the list code receives the units and their debugging entries as an argument (`cus`, `die`) and the
  decoding of an entry is a hypothesis (`hd`, `hdec`).  Below they come out of the composed model
  (Model/ListsInfo `infoCus`: C04's model of `iter_CUs()` × `iter_DIEs()` — unit headers, `cu.structs`,
  abbreviation tables, every form, DW_FORM_indirect, the cache-free `_get_cached_DIE` — followed by
  `die.attributes`), run on the Spec ENCODING of any well-formed forest description (Spec/DieSection `Forest`,
  `wfForestB`; C04's `debug_info_exact`), exactly as the driver runs it (regenerated registry and bundles).
  No hypothesis about DIE decoding is left: what remains are decidable conditions on the DESCRIPTION
  (`forestResolves`: every DW_FORM_loclistx / rnglistx index designates a slot of the table section;
  `refsAgree`; the well-formedness of the lists). -/

open PyElf.Spec.C04 (Forest wfForestB)

/-- the table sections of a forest as the list code reaches them -/
abbrev forestSecs (F : Forest) : Model.Lists.Secs := Model.Lists.secsOfSections F.secs

/-- what the list code must see of the units of a forest (Proofs/ListsInfo): version, address size, format, the
    standard's bundle, and per entry — in `iter_DIEs()` order, null entries included — the (name, form, raw value)
    of each attribute as encoded (final form of an indirection chain, DW_FORM_implicit_const from the declaration) -/
abbrev forestCus (F : Forest) : List Model.Lists.Cu := Model.Lists.forestCus C04.genNames F

/-- the regenerated `DWARFStructs(...)` answers with the standard's whole bundle (Props/TieC07Info) -/
theorem genBundles_full (le : Bool) (dasz : Nat) :
    ∀ c ∈ Spec.allDwarfCfgs, (C04.genBundles le dasz).structsOf c = some (Spec.dwarfStructs c) :=
  fun c hc => TieC07.gen_structs c hc

/-- `DWARFInfo.structs` — what the list objects are built with — is the standard's bundle of
    (byte order, 32-bit format, default address size, version 2) -/
theorem genBundles_S0_spec (le : Bool) (dasz : Nat) (hd : dasz = 4 ∨ dasz = 8) :
    (C04.genBundles le dasz).S0 = Spec.dwarfStructs ⟨le, 32, dasz, 2⟩ := by
  have h1 := C04.genBundles_S0 le dasz hd
  have hmem : (⟨le, 32, dasz, 2⟩ : DwarfCfg) ∈ Spec.allDwarfCfgs :=
    Proofs.C04.cfg_mem_all le false hd (by omega) (by omega)
  rw [TieC07.gen_structs _ hmem] at h1
  injection h1 with h1
  exact h1.symm

/--
  debug_info_cus_exact.  For EVERY well-formed forest description, the units and entries the list code walks
  (`for cu in dwarfinfo.iter_CUs(): for die in cu.iter_DIEs(): die.attributes`), obtained from the encoded
  `.debug_info` / `.debug_abbrev` by the model the driver runs, are exactly the described ones.  This discharges the
  interface under which every theorem above is stated (`cus`, `cu.dies`).
-/
theorem debug_info_cus_exact (F : Forest) (dasz : Nat) (hdasz : dasz = 4 ∨ dasz = 8)
    (hwf : wfForestB C04.genNames F = true)
    (G : Model.C04.UnitCtx → Nat → R Spec.C04.DieObs)
    (hG : ∀ U o, U.cuDieOffset ≤ o → G U o = Model.C04.getCachedDIE U o) :
    Model.Lists.infoCus G (C04.forestDInfo F dasz) (C04.genBundles F.le dasz).S0 = .ok (forestCus F) := by
  rw [C04.forestDInfo_eq]
  exact ListsInfo.infoCus_forest C04.registry_gen F dasz (C04.genBundles_ok F.le dasz hdasz) (genBundles_full F.le dasz)
    (Proofs.C04.wfForest_of_B _ F hwf) G hG

/--
  die_decoding_exact (supersedes `die_decoding_plain`: every form, indexed ones included).  `die.attributes` as the
  list code reads it is `specDec`: name, form and — for DW_FORM_loclistx / DW_FORM_rnglistx — `base +` the
  offset-table slot the index designates (`Spec.C04.uintAt` on the section bytes), the raw value otherwise.
  Hypotheses: the unit's offset reader is the 4 / 8-byte one of its format (`hS`), the table sections are
  addressable, every index designates a slot inside its section (`dieResolves`, decidable).
-/
theorem die_decoding_exact (env : Env) (secs : Model.Lists.Secs) (cu : Model.Lists.Cu) (le : Bool)
    (die : List Model.Lists.RawAttr)
    (hS : cu.S.the_Dwarf_offset = .uint (Model.Lists.oszOf cu) le)
    (hl : ∀ d, secs.loclists = some d → d.length < 2 ^ 63) (hr : ∀ d, secs.rnglists = some d → d.length < 2 ^ 63)
    (h : Model.Lists.dieResolves le secs cu die = true) :
    Model.Lists.dieAttrs env secs cu die = .ok (Model.Lists.specDec le secs cu die) :=
  ListsSlots.dieAttrs_spec env secs cu le die hS hl hr h

/-- … for every entry of every unit of a forest: no hypothesis about the unit is left -/
theorem forest_die_decoding (F : Forest) (hwf : wfForestB C04.genNames F = true)
    (hres : Model.Lists.forestResolves C04.genNames F = true) (env : Env)
    (cu : Model.Lists.Cu) (hcu : cu ∈ forestCus F) (die : List Model.Lists.RawAttr) (hdie : die ∈ cu.dies) :
    Model.Lists.dieAttrs env (forestSecs F) cu die = .ok (Model.Lists.specDec F.le (forestSecs F) cu die) :=
  ListsInfo.forest_dieAttrs env (Proofs.C04.wfForest_of_B _ F hwf) hres cu hcu die hdie

/-- `get_addr` against the bytes of .debug_addr (the section-level form of `get_addr_exact`): index `i` is the
    address in slot `DW_AT_addr_base + i · address_size` -/
theorem get_addr_slot (env : Env) (secs : Model.Lists.Secs) (cu : Model.Lists.Cu) (le : Bool) (i a : Nat)
    (hS : cu.S.the_Dwarf_target_addr = .uint cu.asz le) (hasz : 1 ≤ cu.asz)
    (hsmall : ∀ d, secs.addr = some d → d.length < 2 ^ 63)
    (h : Model.Lists.addrSlot le secs cu i = some a) :
    Model.Lists.cuAddr env secs (some cu) (.int i) = .ok (.int a) :=
  ListsSlots.cuAddr_slot env secs cu le i a hS hasz hsmall h

/--
  enumeration_exact_locations_v4_info.  `dwarfinfo.location_lists().iter_location_lists()` from section bytes,
  .debug_loc (DWARF 2–4): for every well-formed forest whose entries refer to the objects of the described
  .debug_loc (`refsAgree`: every reference — the value of an attribute the decision table classifies as a list, in
  ANY list-capable form, together with DW_AT_GNU_locviews — designates an object, every object is referred to), the
  enumeration yields exactly the objects in offset order.  `refs` are computed from the DESCRIPTION
  (`locRefs (specDec …) false (forestCus F)`).
-/
theorem enumeration_exact_locations_v4_info (F : Forest) (dasz : Nat) (hdasz : dasz = 4 ∨ dasz = 8)
    (hwf : wfForestB C04.genNames F = true)
    (G : Model.C04.UnitCtx → Nat → R Spec.C04.DieObs)
    (hG : ∀ U o, U.cuDieOffset ≤ o → G U o = Model.C04.getCachedDIE U o)
    (refs : List (LocRef × Model.Lists.Cu)) (objs : List (LocObj (List V4Loc))) (tail : Bytes) (outs : List (List Val))
    (hsmall : (encObjs (encV4Loc F.le dasz) F.le objs ++ tail).length < 2 ^ 63)
    (hres : Model.Lists.forestResolves C04.genNames F = true)
    (hrefs : ListsLocScan.locRefs (Model.Lists.specDec F.le (forestSecs F)) false (forestCus F) = some refs)
    (hobj : ∀ o ∈ objs, o.viewsOk = true ∧ ∀ x ∈ o.list, x.wf dasz = true)
    (hagree : refsAgree (refs.map (·.1)) ((layout (v4LocSize dasz) 0 objs).map layoutRef) = true)
    (hobs : obsObjs (fun off es => some (obsV4Loc dasz off es)) (layout (v4LocSize dasz) 0 objs) = some outs) :
    Model.Lists.infoIterLocationLists G (C04.forestDInfo F dasz) (C04.genBundles F.le dasz).S0
        (encObjs (encV4Loc F.le dasz) F.le objs ++ tail) 4 = .ok outs := by
  unfold Model.Lists.infoIterLocationLists
  rw [debug_info_cus_exact F dasz hdasz hwf G hG]
  simp only [bind, Except.bind]
  exact enumeration_exact_locations_v4 _ _ ⟨F.le, 32, dasz, 2⟩ _ _ (Model.Lists.specDec F.le (forestSecs F)) refs objs tail outs
    (genBundles_S0_spec F.le dasz hdasz) rfl (by rcases hdasz with h | h <;> simp [h]) (Nat.lt_succ_self 4) rfl hsmall
    (fun cu hcu _ die hdie => forest_die_decoding F hwf hres _ cu hcu die hdie) hrefs hobj hagree hobs

/--
  enumeration_exact_locations_v5_info.  The same for .debug_loclists (DWARF 5): unit blocks with offset tables, gaps,
  view pairs; entries refer to the lists by offset (DW_FORM_sec_offset) or by index (DW_FORM_loclistx through
  DW_AT_loclists_base and the offset table — decoded by the composed model, `forestResolves`); indexed addresses
  come from the slots of .debug_addr at the referring unit's DW_AT_addr_base (`haddr`, a decidable condition on the
  description: `addrSlot`).  In a file, `F.secs.loclists` is the section enumerated here.
-/
theorem enumeration_exact_locations_v5_info (F : Forest) (dasz : Nat) (hdasz : dasz = 4 ∨ dasz = 8)
    (hwf : wfForestB C04.genNames F = true)
    (G : Model.C04.UnitCtx → Nat → R Spec.C04.DieObs)
    (hG : ∀ U o, U.cuDieOffset ≤ o → G U o = Model.C04.getCachedDIE U o)
    (refs : List (LocRef × Model.Lists.Cu)) (us : List LocUnit) (outs : List (List Val))
    (hsmall : (encLocUnits F.le dasz us).length < 2 ^ 63)
    (hres : Model.Lists.forestResolves C04.genNames F = true)
    (hrefs : ListsLocScan.locRefs (Model.Lists.specDec F.le (forestSecs F)) true (forestCus F) = some refs)
    (hhdr : ∀ u ∈ us, u.hdr.wf (u.body F.le dasz) = true)
    (hobj : ∀ u ∈ us, ∀ o ∈ u.objs, o.viewsOk = true ∧ ∀ x ∈ o.list.2, x.wf lleKinds dasz = true)
    (hagree : refsAgree (refs.map (·.1)) ((layoutUnits F.le dasz 0 us).map layoutRef) = true)
    (haddr : ∀ rc ∈ refs, ∀ e ∈ layoutUnits F.le dasz 0 us, rc.1 = layoutRef e →
      ∀ i a, addrOf e.2.2.list.1 i = some a → Model.Lists.addrSlot F.le (forestSecs F) rc.2 i = some a)
    (hobs : obsObjs (ListsLocWalk.obsL5 dasz) (layoutUnits F.le dasz 0 us) = some outs) :
    Model.Lists.infoIterLocationLists G (C04.forestDInfo F dasz) (C04.genBundles F.le dasz).S0
        (encLocUnits F.le dasz us) 5 = .ok outs := by
  unfold Model.Lists.infoIterLocationLists
  rw [debug_info_cus_exact F dasz hdasz hwf G hG]
  simp only [bind, Except.bind]
  have hW := Proofs.C04.wfForest_of_B _ F hwf
  refine enumeration_exact_locations_v5 _ _ ⟨F.le, 32, dasz, 2⟩ _ _ (Model.Lists.specDec F.le (forestSecs F)) refs us outs
    (genBundles_S0_spec F.le dasz hdasz) (Nat.le_refl 5) rfl hsmall
    (fun cu hcu _ die hdie => forest_die_decoding F hwf hres _ cu hcu die hdie) hrefs hhdr hobj hagree ?_ hobs
  intro rc hrc e he hre i a hia
  have hmem := (location_refs_generation _ true _ refs hrefs rc hrc).1
  obtain ⟨p, hp, hcu⟩ := ListsInfo.mem_forestCus hmem
  have hasz : 1 ≤ rc.2.asz := by
    have := Proofs.C04.wfUnit_asz (hW.infoHdr p.2 (Proofs.C04.mem_placeInfo F _ _ p hp))
    rw [hcu]
    show 1 ≤ p.2.asz
    rcases this with h | h <;> (simp only [Spec.C04.infoUnitOf] at h; omega)
  refine get_addr_slot _ _ rc.2 F.le i a ?_ hasz
    (fun d hd => hW.secsSmall d (Or.inr (Or.inr (Or.inl hd)))) (haddr rc hrc e he hre i a hia)
  rw [hcu]
  exact ListsInfo.forestCu_addr _ F p

/--
  enumeration_exact_ranges_info.  `dwarfinfo.range_lists().iter_range_lists()` from section bytes (`ver` = 4:
  .debug_ranges, 5: .debug_rnglists): exactly the distinct offsets the DW_AT_ranges attributes of the described units of
  the section's generation hold (by offset or, DW_FORM_rnglistx, by index through DW_AT_rnglists_base and the offset
  table), in increasing order, each fetched with the unit that referred to it last.  `refs` are computed from the
  DESCRIPTION (`rangeRefsSpec`); each fetch is `v4_rnglist_roundtrip` / `v5_rnglist_fetch`.
-/
theorem enumeration_exact_ranges_info (F : Forest) (dasz : Nat) (hdasz : dasz = 4 ∨ dasz = 8)
    (hwf : wfForestB C04.genNames F = true)
    (G : Model.C04.UnitCtx → Nat → R Spec.C04.DieObs)
    (hG : ∀ U o, U.cuDieOffset ≤ o → G U o = Model.C04.getCachedDIE U o)
    (data : Bytes) (ver : Nat) (refs : List (Int × Model.Lists.Cu))
    (hres : Model.Lists.forestResolves C04.genNames F = true)
    (hrefs : ListsInfo.rangeRefsSpec (Model.Lists.specDec F.le (forestSecs F)) (decide (ver ≥ 5)) (forestCus F) = some refs) :
    Model.Lists.infoIterRangeLists G (C04.forestDInfo F dasz) (C04.genBundles F.le dasz).S0 data ver =
      (sortedDistinct (refs.map (·.1))).mapM fun offset =>
        match Model.Lists.dictGet? (Model.Lists.cuMapOf refs) offset with
        | none => .error .keyError
        | some cu => Model.Lists.getRangeListAtOffset (Model.dwarfEnv (C04.genBundles F.le dasz).S0) (forestSecs F)
            (Model.Lists.infoLists (C04.forestDInfo F dasz) (C04.genBundles F.le dasz).S0 data ver) offset (some cu) := by
  unfold Model.Lists.infoIterRangeLists
  rw [debug_info_cus_exact F dasz hdasz hwf G hG]
  simp only [bind, Except.bind]
  exact enumeration_exact_ranges _ _ _ _ refs
    (ListsInfo.rangeRefs_spec _ _ _ _ _ refs (fun cu hcu die hdie => forest_die_decoding F hwf hres _ cu hcu die hdie) hrefs)

/--
  parse_from_attribute_info.  `LocationParser.parse_from_attribute(die.attributes[name], cu['version'], die)` from
  section bytes, for entry `di` of unit `ci` of a well-formed forest: the attribute the description gives that entry
  under `name` (`a`: its form is the encoded final form, its value the raw value or, DW_FORM_loclistx, the offset the
  index designates) is classified by the decision table of its form, its name and the unit's version; an expression
  yields the encoded bytes, a list the list at that offset of the section (`v4_loclist_roundtrip` /
  `v5_loclist_fetch`), anything else is refused.
-/
theorem parse_from_attribute_info (F : Forest) (dasz : Nat) (hdasz : dasz = 4 ∨ dasz = 8)
    (hwf : wfForestB C04.genNames F = true)
    (G : Model.C04.UnitCtx → Nat → R Spec.C04.DieObs)
    (hG : ∀ U o, U.cuDieOffset ≤ o → G U o = Model.C04.getCachedDIE U o)
    (data : Bytes) (ver ci di : Nat) (name : String)
    (hres : Model.Lists.forestResolves C04.genNames F = true)
    (cu : Model.Lists.Cu) (die : List Model.Lists.RawAttr) (a : Model.Lists.Attr)
    (hcu : (forestCus F)[ci]? = some cu) (hdie : cu.dies[di]? = some die)
    (ha : Model.Lists.findAttr (Model.Lists.specDec F.le (forestSecs F) cu die) name = some a)
    (hf : a.form ∈ TieC07.formNames) :
    Model.Lists.infoParseFromAttribute G (C04.forestDInfo F dasz) (C04.genBundles F.le dasz).S0 data ver ci di name =
      match classify a.name a.form cu.version with
      | .expr => .ok (Model.Lists.nt "LocationExpr" [("loc_expr", a.value)])
      | .list => do
          let off ← a.value.asInt
          let r ← Model.Lists.getLocationListAtOffset (Model.dwarfEnv (C04.genBundles F.le dasz).S0) (forestSecs F)
            (Model.Lists.infoLists (C04.forestDInfo F dasz) (C04.genBundles F.le dasz).S0 data ver) off (some cu)
          pure (.list r)
      | .neither => .error .valueError := by
  unfold Model.Lists.infoParseFromAttribute Model.Lists.infoAttr
  rw [debug_info_cus_exact F dasz hdasz hwf G hG]
  have hd := forest_die_decoding F hwf hres (Model.dwarfEnv (C04.genBundles F.le dasz).S0) cu (List.mem_of_getElem? hcu) die
    (List.mem_of_getElem? hdie)
  have hs : (C04.forestDInfo F dasz).secs = F.secs := rfl
  simp only [bind, Except.bind, hcu, hdie, hs, hd, ha, pure, Except.pure]
  exact parse_from_attribute_by_class _ _ _ a cu.version (some cu) hf

/-- … and `range_lists.get_range_list_at_offset(die.attributes[name].value, cu)` -/
theorem range_list_of_attribute_info (F : Forest) (dasz : Nat) (hdasz : dasz = 4 ∨ dasz = 8)
    (hwf : wfForestB C04.genNames F = true)
    (G : Model.C04.UnitCtx → Nat → R Spec.C04.DieObs)
    (hG : ∀ U o, U.cuDieOffset ≤ o → G U o = Model.C04.getCachedDIE U o)
    (data : Bytes) (ver ci di : Nat) (name : String)
    (hres : Model.Lists.forestResolves C04.genNames F = true)
    (cu : Model.Lists.Cu) (die : List Model.Lists.RawAttr) (a : Model.Lists.Attr) (off : Int)
    (hcu : (forestCus F)[ci]? = some cu) (hdie : cu.dies[di]? = some die)
    (ha : Model.Lists.findAttr (Model.Lists.specDec F.le (forestSecs F) cu die) name = some a)
    (hoff : a.value = .int off) :
    Model.Lists.infoRangeListOfAttribute G (C04.forestDInfo F dasz) (C04.genBundles F.le dasz).S0 data ver ci di name =
      Model.Lists.getRangeListAtOffset (Model.dwarfEnv (C04.genBundles F.le dasz).S0) (forestSecs F)
        (Model.Lists.infoLists (C04.forestDInfo F dasz) (C04.genBundles F.le dasz).S0 data ver) off (some cu) := by
  unfold Model.Lists.infoRangeListOfAttribute Model.Lists.infoAttr
  rw [debug_info_cus_exact F dasz hdasz hwf G hG]
  have hd := forest_die_decoding F hwf hres (Model.dwarfEnv (C04.genBundles F.le dasz).S0) cu (List.mem_of_getElem? hcu) die
    (List.mem_of_getElem? hdie)
  have hs : (C04.forestDInfo F dasz).secs = F.secs := rfl
  simp only [bind, Except.bind, hcu, hdie, hs, hd, ha, hoff, Val.asInt, pure, Except.pure]


/-! non-vacuity of the end-to-end theorems: `ListsInfoDemo.demoF` (a DWARF 4 unit referring to .debug_loc with and
    without DW_AT_GNU_locviews, a DWARF 5 unit referring to .debug_loclists BY INDEX and by offset) satisfies every
    hypothesis; the two enumerations ignore the unit of the other generation -/

theorem demoF_wf : wfForestB C04.genNames ListsInfoDemo.demoF = true := by decide +kernel
theorem demoF_resolves : Model.Lists.forestResolves C04.genNames ListsInfoDemo.demoF = true := by decide +kernel

/-- two units; per unit the attribute counts of its entries in `iter_DIEs()` order (the closing null entry has none) -/
example : (forestCus ListsInfoDemo.demoF).map (fun cu => (cu.version, cu.dies.map (·.length)))
    = [(4, [1, 2, 2, 0]), (5, [1, 1, 2, 0])] := by decide +kernel

theorem demoF_refs4 : (ListsLocScan.locRefs (Model.Lists.specDec true (forestSecs ListsInfoDemo.demoF)) false
    (forestCus ListsInfoDemo.demoF)).isSome = true := by decide +kernel
theorem demoF_refs5 : (ListsLocScan.locRefs (Model.Lists.specDec true (forestSecs ListsInfoDemo.demoF)) true
    (forestCus ListsInfoDemo.demoF)).isSome = true := by decide +kernel

/-- the DW_FORM_loclistx index 0 of the DWARF 5 unit is decoded to offset 16 -/
example : ((ListsLocScan.locRefs (Model.Lists.specDec true (forestSecs ListsInfoDemo.demoF)) true
    (forestCus ListsInfoDemo.demoF)).get demoF_refs5).map (·.1) = [(none, 16), (some 28, 30)] := by decide +kernel

example : Model.Lists.infoIterLocationLists Model.C04.fetch (C04.forestDInfo ListsInfoDemo.demoF 4) (C04.genBundles true 4).S0
      (encObjs (encV4Loc true 4) true ListsLocWalk.demoObjs ++ [1, 2, 3]) 4
    = .ok [[viewPair 2 1 2, locationEntry 5 11 1 2 [0x50] false, locBaseEntry 16 8 7], []] :=
  enumeration_exact_locations_v4_info ListsInfoDemo.demoF 4 (Or.inl rfl) demoF_wf Model.C04.fetch C04.fetch_agrees
    (Option.get _ demoF_refs4) ListsLocWalk.demoObjs [1, 2, 3] _ (by decide) demoF_resolves (Option.some_get _).symm
    (by decide) (by decide +kernel) rfl

example : Model.Lists.infoIterLocationLists Model.C04.fetch (C04.forestDInfo ListsInfoDemo.demoF 4) (C04.genBundles true 4).S0
      (encLocUnits true 4 ListsLocWalk.demoUs) 5
    = .ok [[locBaseEntry 16 5 0x1000, locationEntry 21 5 1 2 [0x50] false],
           [viewPair 28 3 4, locationEntry 30 5 1 2 [0x50] false]] :=
  enumeration_exact_locations_v5_info ListsInfoDemo.demoF 4 (Or.inl rfl) demoF_wf Model.C04.fetch C04.fetch_agrees
    (Option.get _ demoF_refs5) ListsLocWalk.demoUs _ (by decide) demoF_resolves (Option.some_get _).symm
    (by decide) (by decide) (by decide +kernel)
    (fun rc _ e he _ i a h => by
      have hall : ∀ e ∈ layoutUnits true 4 0 ListsLocWalk.demoUs, e.2.2.list.1 = [] := by decide
      rw [hall e he] at h
      simp [addrOf] at h)
    rfl


/-! ### expressions inside location entries: C07 × C12 -/

/--
  location_expr_ops_exact.  A location entry (of either generation: `locationEntry` is what every fetch /
  enumeration theorem above reports for a bounded entry, with the encoded expression bytes in `loc_expr`) whose
  expression is the encoding of a well-formed operation sequence `ops` (C12's `Spec.encodeOps` / `WFops`): handing
  `entry.loc_expr` to `DWARFExprParser(structs).parse_expr` — `bytes(loc_expr)`, then C12's model of the parser with
  the REGENERATED dispatch and name tables of any configuration — yields exactly the encoded operations
  (`annotate c 0 ops`: opcode, name, operands, offset).  Corollary of Props/C12 `expr_roundtrip`.
-/
theorem location_expr_ops_exact (c : DwarfCfg) (D : List (Nat × List ArgKind)) (hD : (c, D) ∈ Gen.opDispatch)
    (ops : List Op) (hwf : WFops c ops = true) (off len : Nat) (b e : Int) (abs : Bool) :
    ∃ v, Model.Lists.attr (locationEntry off len b e (encodeOps c ops) abs) "loc_expr" = .ok v ∧
      (ListsExpr.exprBytes v).map (Model.parseExpr D Gen.opOpcode2Name) = some (.ok (annotate c 0 ops)) :=
  ⟨_, ListsExpr.locationEntry_expr off len b e _ abs, by
    rw [ListsExpr.exprBytes_exprVal, Option.map_some, C12.expr_roundtrip c D hD ops hwf]⟩

/-- … from section bytes, DWARF 2–4: the first entry of the list fetched at the offset of an encoded list whose first
    entry carries `encodeOps c ops` is that location entry (so `location_expr_ops_exact` applies to what
    `get_location_list_at_offset` returns) -/
theorem v4_loclist_first_expr (env : Env) (secs : Model.Lists.Secs) (cfg : DwarfCfg) (l : Model.Lists.Lists)
    (cu : Option Model.Lists.Cu) (pre rest : Bytes) (b e : Nat) (x : Bytes) (es : List V4Loc)
    (hS : l.S = Spec.dwarfStructs cfg) (ha : l.asz = cfg.asz) (hasz : 1 ≤ cfg.asz) (hv : l.version < 5)
    (hd : l.data = pre ++ encV4Loc cfg.le cfg.asz (.loc b e x :: es) ++ rest)
    (hwf : ∀ y ∈ V4Loc.loc b e x :: es, y.wf cfg.asz = true) (hsmall : pre.length < 2 ^ 63) :
    ∃ vs, Model.Lists.getLocationListAtOffset env secs l (pre.length : Int) cu
      = .ok (locationEntry pre.length (cfg.asz + cfg.asz + (2 + x.length)) b e x false :: vs) :=
  ⟨_, v4_loclist_roundtrip env secs cfg l cu pre rest _ hS ha hasz hv hd hwf hsmall⟩

/-- … and an expression-class attribute (`parse_from_attribute_by_class`, `.expr`): the `LocationExpr` carries the
    attribute's block bytes (C04's raw value of DW_FORM_exprloc / DW_FORM_block*: `Spec.C04.byteList`), which parse to
    the encoded operations -/
theorem location_expr_attr_ops_exact (c : DwarfCfg) (D : List (Nat × List ArgKind)) (hD : (c, D) ∈ Gen.opDispatch)
    (ops : List Op) (hwf : WFops c ops = true) :
    ∃ v, Model.Lists.attr (Model.Lists.nt "LocationExpr" [("loc_expr", Spec.C04.byteList (encodeOps c ops))]) "loc_expr" = .ok v ∧
      (ListsExpr.exprBytes v).map (Model.parseExpr D Gen.opOpcode2Name) = some (.ok (annotate c 0 ops)) :=
  ⟨Spec.C04.byteList (encodeOps c ops), by simp [Model.Lists.attr, Model.Lists.nt, Fields.get?], by
    show (ListsExpr.exprBytes (exprVal (encodeOps c ops))).map _ = _
    rw [ListsExpr.exprBytes_exprVal, Option.map_some, C12.expr_roundtrip c D hD ops hwf]⟩

example : WFops ⟨false, 64, 8, 5⟩ C12.sample = true := by decide +kernel
example : (V4Loc.loc 1 2 (encodeOps ⟨true, 32, 4, 4⟩ [.plain 0x50 [], .plain 0x91 [.sleb 2 (-5)]])).wf 4 = true := by decide +kernel

end PyElf.Props.C07
