/-
  C07 — location and range lists decode to exactly the encoded entries.

  Property theorems only.  `pre`/`rest` are arbitrary surrounding bytes.  The list
  objects are the model's `Lists` (stream, structs, address size, version) with the
  struct bundle of any configuration `cfg` (byte order × DWARF format × address size
  × version); `Props/TieC07.lean` ties those bundles and the DW_LLE/DW_RLE tables to
  what the library builds.  `env` is any construct environment whose two enum tables
  decode as the library's (`TieC07.lle_codes`, `rle_codes`: `Model.dwarfEnv` does).
-/
import PyElf.Spec.DwarfStructs
import PyElf.Spec.Lists
import PyElf.Model.Lists
import PyElf.Model.Env
import PyElf.Proofs.ListsV4
import PyElf.Proofs.ListsV5
import PyElf.Proofs.ListsUnits
import PyElf.Proofs.ListsUnitLists
import PyElf.Proofs.ListsCls
import PyElf.Proofs.ListsFetch
import PyElf.Proofs.ListsEnum
import PyElf.Proofs.ListsLocScan
import PyElf.Proofs.ListsLocWalk
import PyElf.Props.TieC07
namespace PyElf.Props.C07
open PyElf PyElf.Spec PyElf.Spec.Lists PyElf.Proofs

/-! ### DWARF 2–4 lists (.debug_loc, .debug_ranges) -/

/-- `v4_loclist_roundtrip`: fetching at the offset of an encoded list returns its entries up to the
    (0, 0) terminator — base-address selection entries and bounded entries with their expression bytes,
    each with its offset and length — whatever precedes and follows -/
theorem v4_loclist_roundtrip (env : Env) (secs : Model.Lists.Secs) (cfg : DwarfCfg) (l : Model.Lists.Lists)
    (cu : Option Model.Lists.Cu) (pre rest : Bytes) (es : List V4Loc)
    (hS : l.S = Spec.dwarfStructs cfg) (ha : l.asz = cfg.asz) (hasz : 1 ≤ cfg.asz) (hv : l.version < 5)
    (hd : l.data = pre ++ encV4Loc cfg.le cfg.asz es ++ rest)
    (hwf : ∀ e ∈ es, e.wf cfg.asz = true) (hsmall : pre.length < 2 ^ 63) :
    Model.Lists.getLocationListAtOffset env secs l (pre.length : Int) cu = .ok (obsV4Loc cfg.asz pre.length es) := by
  rw [← ha] at hd hwf hasz ⊢
  exact ListsFetch.getLocationListAtOffset_v4 env secs l cfg.le cu pre rest es
    (by rw [hS, ha]; rfl) (by rw [hS]; rfl) (by rw [hS]; rfl) hasz hv hd hwf hsmall

theorem v4_rnglist_roundtrip (env : Env) (secs : Model.Lists.Secs) (cfg : DwarfCfg) (l : Model.Lists.Lists)
    (cu : Option Model.Lists.Cu) (pre rest : Bytes) (es : List V4Rng)
    (hS : l.S = Spec.dwarfStructs cfg) (ha : l.asz = cfg.asz) (hasz : 1 ≤ cfg.asz) (hv : l.version < 5)
    (hd : l.data = pre ++ encV4Rng cfg.le cfg.asz es ++ rest)
    (hwf : ∀ e ∈ es, e.wf cfg.asz = true) (hsmall : pre.length < 2 ^ 63) :
    Model.Lists.getRangeListAtOffset env secs l (pre.length : Int) cu = .ok (obsV4Rng cfg.asz pre.length es) := by
  rw [← ha] at hd hwf hasz ⊢
  exact ListsFetch.getRangeListAtOffset_v4 env secs l cfg.le cu pre rest es
    (by rw [hS, ha]; rfl) hasz hv hd hwf hsmall

/-! ### DWARF 5 entries: every DW_LLE / DW_RLE kind -/

/-- `v5_entries_roundtrip` (∀ kind): the entry parser of the struct bundle, with the library's code
    table, decodes any sequence of entries of any kinds up to DW_LLE_end_of_list: kind, operands by
    name, entry offset, end offset and length; ULEB128 operands may be padded -/
theorem v5_entries_roundtrip_loc (S : DwarfStructs) (cfg : DwarfCfg) (pre rest : Bytes) (es : List Ent) (ctx : Fields)
    (hwf : ∀ e ∈ es, e.wf lleKinds cfg.asz = true) :
    Con.parse (Model.dwarfEnv S) (pre ++ encList cfg.le cfg.asz es ++ rest)
        (Spec.dwarfStructs cfg).Dwarf_loclists_entries ctx pre.length
      = .ok (.list (rawObsList cfg.asz pre.length es), pre.length + listSize cfg.asz es, ctx) :=
  ListsV5.parse_loclists_entries _ cfg pre rest es ctx TieC07.lle_codes hwf

theorem v5_entries_roundtrip_rng (S : DwarfStructs) (cfg : DwarfCfg) (pre rest : Bytes) (es : List Ent) (ctx : Fields)
    (hwf : ∀ e ∈ es, e.wf rleKinds cfg.asz = true) :
    Con.parse (Model.dwarfEnv S) (pre ++ encList cfg.le cfg.asz es ++ rest)
        (Spec.dwarfStructs cfg).Dwarf_rnglists_entries ctx pre.length
      = .ok (.list (rawObsList cfg.asz pre.length es), pre.length + listSize cfg.asz es, ctx) :=
  ListsV5.parse_rnglists_entries _ cfg pre rest es ctx TieC07.rle_codes hwf

/-- `translate_exact`: the translation tables give each kind its DWARF 5 meaning: indexed addresses
    come from the unit's address table, start/length denotes `[start, start + length)`, the default
    entry has no bounds, offset pairs stay relative -/
theorem translate_exact_loc (env : Env) (secs : Model.Lists.Secs) (cu : Option Model.Lists.Cu) (addrs : List Nat)
    (asz off : Nat) (e : Ent) (v : Val) (hwf : e.wf lleKinds asz = true)
    (haddr : ∀ i a, addrOf addrs i = some a → Model.Lists.cuAddr env secs cu (.int i) = .ok (.int a))
    (hsp : Spec.Lists.translateLoc (addrOf addrs) asz off e = some v) :
    Model.Lists.translateLoc env secs cu (e.rawObs asz off) = .ok v :=
  ListsV5.translateLoc_exact env secs cu addrs asz off e v hwf haddr hsp

/-- also `RangeLists.translate_v5_entry` -/
theorem translate_exact_rng (env : Env) (secs : Model.Lists.Secs) (cu : Option Model.Lists.Cu) (addrs : List Nat)
    (asz off : Nat) (e : Ent) (v : Val) (hwf : e.wf rleKinds asz = true)
    (haddr : ∀ i a, addrOf addrs i = some a → Model.Lists.cuAddr env secs cu (.int i) = .ok (.int a))
    (hsp : Spec.Lists.translateRng (addrOf addrs) asz off e = some v) :
    Model.Lists.translateV5Entry env secs cu (e.rawObs asz off) = .ok v :=
  ListsV5.translateRng_exact env secs cu addrs asz off e v hwf haddr hsp

/-- the address table: index `i` is the `i`-th address of the array at `DW_AT_addr_base` in .debug_addr
    (this discharges the `haddr` hypotheses above) -/
theorem get_addr_exact (env : Env) (secs : Model.Lists.Secs) (cu : Model.Lists.Cu) (le : Bool) (pre rest : Bytes)
    (addrs : List Nat) (i : Nat)
    (hS : cu.S.the_Dwarf_target_addr = .uint cu.asz le)
    (hbase : Model.Lists.getBaseOffset cu "DW_AT_addr_base" = .ok (.int pre.length))
    (hsec : secs.addr = some (pre ++ encAddrs le cu.asz addrs ++ rest))
    (hi : i < addrs.length) (hwf : ∀ a ∈ addrs, a < 256 ^ cu.asz)
    (hsmall : pre.length + i * cu.asz < 2 ^ 63) :
    Model.Lists.cuAddr env secs (some cu) (.int i) = .ok (.int (addrs[i]'hi)) :=
  ListsV4.getAddr_exact env secs cu le pre rest addrs i hS hbase hsec hi hwf hsmall

/-- fetching a DWARF 5 location list by section offset: the entries up to the terminator, translated -/
theorem v5_loclist_fetch (S : DwarfStructs) (secs : Model.Lists.Secs) (cfg : DwarfCfg) (l : Model.Lists.Lists)
    (cu : Model.Lists.Cu) (addrs : List Nat) (pre rest : Bytes) (es : List Ent) (vs : List Val)
    (hS : l.S = Spec.dwarfStructs cfg) (hv : 5 ≤ l.version)
    (hd : l.data = pre ++ encList cfg.le cfg.asz es ++ rest)
    (hwf : ∀ e ∈ es, e.wf lleKinds cfg.asz = true) (hsmall : pre.length < 2 ^ 63)
    (haddr : ∀ i a, addrOf addrs i = some a →
      Model.Lists.cuAddr (Model.dwarfEnv S) secs (some cu) (.int i) = .ok (.int a))
    (hsp : translateList (fun o e => Spec.Lists.translateLoc (addrOf addrs) cfg.asz o e) cfg.asz pre.length es = some vs) :
    Model.Lists.getLocationListAtOffset (Model.dwarfEnv S) secs l (pre.length : Int) (some cu) = .ok vs :=
  ListsFetch.getLocationListAtOffset_v5 _ secs cfg l cu addrs pre rest es vs TieC07.lle_codes (by rw [hS]) hv hd hwf
    hsmall haddr hsp

theorem v5_rnglist_fetch (S : DwarfStructs) (secs : Model.Lists.Secs) (cfg : DwarfCfg) (l : Model.Lists.Lists)
    (cu : Option Model.Lists.Cu) (addrs : List Nat) (pre rest : Bytes) (es : List Ent) (vs : List Val)
    (hS : l.S = Spec.dwarfStructs cfg) (hv : 5 ≤ l.version)
    (hd : l.data = pre ++ encList cfg.le cfg.asz es ++ rest)
    (hwf : ∀ e ∈ es, e.wf rleKinds cfg.asz = true) (hsmall : pre.length < 2 ^ 63)
    (haddr : ∀ i a, addrOf addrs i = some a →
      Model.Lists.cuAddr (Model.dwarfEnv S) secs cu (.int i) = .ok (.int a))
    (hsp : translateList (fun o e => Spec.Lists.translateRng (addrOf addrs) cfg.asz o e) cfg.asz pre.length es = some vs) :
    Model.Lists.getRangeListAtOffset (Model.dwarfEnv S) secs l (pre.length : Int) cu = .ok vs :=
  ListsFetch.getRangeListAtOffset_v5 _ secs cfg l cu addrs pre rest es vs TieC07.rle_codes (by rw [hS]) hv hd hwf
    hsmall haddr hsp

/-- `get_range_list_at_offset_ex`: the entries as stored, addresses and offsets unresolved -/
theorem v5_rnglist_fetch_raw (S : DwarfStructs) (cfg : DwarfCfg) (l : Model.Lists.Lists) (pre rest : Bytes) (es : List Ent)
    (hS : l.S = Spec.dwarfStructs cfg)
    (hd : l.data = pre ++ encList cfg.le cfg.asz es ++ rest)
    (hwf : ∀ e ∈ es, e.wf rleKinds cfg.asz = true) (hsmall : pre.length < 2 ^ 63) :
    Model.Lists.getRangeListAtOffsetEx (Model.dwarfEnv S) l (pre.length : Int)
      = .ok (.list (rawObsList cfg.asz pre.length es)) :=
  ListsFetch.getRangeListAtOffsetEx_v5 _ cfg l pre rest es TieC07.rle_codes (by rw [hS]) hd hwf hsmall

/-! ### lists designated by index: the unit's offset table -/

/-- `index_lookup_exact`: index `i` resolves to (table base) + (entry `i` of the offset table), with 4-byte
    entries in the 32-bit and 8-byte entries in the 64-bit DWARF format -/
theorem index_lookup_exact (env : Env) (cu : Model.Lists.Cu) (le : Bool) (pre rest : Bytes) (offs : List Nat) (i : Nat)
    (baseName : String) (osz : Nat) (hosz : osz = if cu.fmt = 32 then 4 else 8)
    (hS : cu.S.the_Dwarf_offset = .uint osz le)
    (hbase : Model.Lists.getBaseOffset cu baseName = .ok (.int pre.length))
    (hi : i < offs.length) (hwf : ∀ o ∈ offs, o < 256 ^ osz)
    (hsmall : pre.length + i * osz < 2 ^ 63) :
    Model.Lists.resolveViaOffsetTable env (some (pre ++ encOffsets le osz offs ++ rest)) cu (.int i) baseName
      = .ok (.int ((pre.length + offs[i]'hi : Nat) : Int)) :=
  ListsV4.resolveViaOffsetTable_exact env cu le pre rest offs i baseName osz hosz hS hbase hi hwf hsmall

/-- the value of a `DW_FORM_loclistx` attribute is that offset (die.py:328) -/
theorem attr_value_loclistx (env : Env) (secs : Model.Lists.Secs) (cu : Model.Lists.Cu) (le : Bool)
    (pre rest : Bytes) (offs : List Nat) (i : Nat) (osz : Nat) (hosz : osz = if cu.fmt = 32 then 4 else 8)
    (hS : cu.S.the_Dwarf_offset = .uint osz le)
    (hbase : Model.Lists.getBaseOffset cu "DW_AT_loclists_base" = .ok (.int pre.length))
    (hsec : secs.loclists = some (pre ++ encOffsets le osz offs ++ rest))
    (hi : i < offs.length) (hwf : ∀ o ∈ offs, o < 256 ^ osz) (hsmall : pre.length + i * osz < 2 ^ 63) :
    Model.Lists.translateAttrValue env secs cu "DW_FORM_loclistx" (.int i)
      = .ok (.int ((pre.length + offs[i]'hi : Nat) : Int)) :=
  ListsFetch.attrValue_loclistx env secs cu le pre rest offs i osz hosz hS hbase hsec hi hwf hsmall

/-- … and of a `DW_FORM_rnglistx` attribute (die.py:330) -/
theorem attr_value_rnglistx (env : Env) (secs : Model.Lists.Secs) (cu : Model.Lists.Cu) (le : Bool)
    (pre rest : Bytes) (offs : List Nat) (i : Nat) (osz : Nat) (hosz : osz = if cu.fmt = 32 then 4 else 8)
    (hS : cu.S.the_Dwarf_offset = .uint osz le)
    (hbase : Model.Lists.getBaseOffset cu "DW_AT_rnglists_base" = .ok (.int pre.length))
    (hsec : secs.rnglists = some (pre ++ encOffsets le osz offs ++ rest))
    (hi : i < offs.length) (hwf : ∀ o ∈ offs, o < 256 ^ osz) (hsmall : pre.length + i * osz < 2 ^ 63) :
    Model.Lists.translateAttrValue env secs cu "DW_FORM_rnglistx" (.int i)
      = .ok (.int ((pre.length + offs[i]'hi : Nat) : Int)) :=
  ListsFetch.attrValue_rnglistx env secs cu le pre rest offs i osz hosz hS hbase hsec hi hwf hsmall

/-! ### unit blocks of the DWARF 5 sections -/

/-- the unit header of either section, in either DWARF format -/
theorem unit_header_roundtrip (env : Env) (cfg : DwarfCfg) (u : UnitHdr) (body pre rest : Bytes) (ctx : Fields)
    (hwf : u.wf body = true) :
    structParse env (Spec.dwarfStructs cfg).Dwarf_rnglists_CU_header (pre ++ encUnit cfg.le u body ++ rest) pre.length
      = .ok (.record (u.obsFields pre.length body), pre.length + u.lenSize + 8) :=
  ListsUnits.parse_unit_header env cfg u body pre rest ctx hwf

theorem unit_header_roundtrip_loc (env : Env) (cfg : DwarfCfg) (u : UnitHdr) (body pre rest : Bytes) (ctx : Fields)
    (hwf : u.wf body = true) :
    structParse env (Spec.dwarfStructs cfg).Dwarf_loclists_CU_header (pre ++ encUnit cfg.le u body ++ rest) pre.length
      = .ok (.record (u.obsFields pre.length body), pre.length + u.lenSize + 8) :=
  ListsUnits.parse_unit_header_loc env cfg u body pre rest ctx hwf

/-- `enumeration_exact` (unit blocks): `iter_CUs()` over a section made of unit blocks yields exactly those
    blocks, each with its header fields and its offset table (`offset_count ≥ 0` entries of 4 or 8 bytes) -/
theorem enumeration_exact_units (env : Env) (cfg : DwarfCfg) (S : DwarfStructs) (us : List (UnitHdr × Bytes))
    (h64 : S.Dwarf_uint64 = .uint 8 cfg.le) (h32 : S.Dwarf_uint32 = .uint 4 cfg.le)
    (hwf : ∀ ub ∈ us, ub.1.wf ub.2 = true)
    (hsmall : (encUnits cfg.le us).length < 2 ^ 63) :
    Model.Lists.iterCUsLoop env S (Spec.dwarfStructs cfg).Dwarf_rnglists_CU_header (encUnits cfg.le us)
        ((encUnits cfg.le us).length + 1) 0 []
      = .ok (obsUnits 0 us) :=
  ListsUnits.iterCUs_exact env cfg S us h64 h32 hwf hsmall

/-- `enumeration_exact` (range lists of a unit block): `iter_CU_range_lists_ex(cu)` on a unit whose body is
    its lists one after the other yields exactly those lists, whatever the size of the offset table.
    (False of the tree before the fix `C07-rnglists-offset-table-skip`: with `offset_count = 1` the walk
    started 28 (DWARF32) bytes too far.) -/
theorem enumeration_exact_unit_lists (S : DwarfStructs) (cfg : DwarfCfg) (l : Model.Lists.Lists) (u : UnitHdr)
    (ls : List (List Ent)) (pre rest : Bytes)
    (hS : l.S = Spec.dwarfStructs cfg)
    (hd : l.data = pre ++ encUnit cfg.le u (encLists cfg.le cfg.asz ls) ++ rest)
    (hwf : ∀ es ∈ ls, ∀ e ∈ es, e.wf rleKinds cfg.asz = true)
    (hsmall : l.data.length < 2 ^ 63) :
    Model.Lists.iterCURangeListsEx (Model.dwarfEnv S) l (u.obs pre.length (encLists cfg.le cfg.asz ls))
      = .ok ((rawObsLists cfg.asz (pre.length + u.lenSize + 8 + u.osz * u.offsets.length) ls).map Val.list) :=
  ListsUnitLists.iterCURangeListsEx_exact _ cfg l u ls pre rest TieC07.rle_codes (by rw [hS]) hd hwf hsmall

/-- `enumeration_exact` (range lists referenced by debugging entries): `iter_range_lists()` fetches, in
    increasing offset order, exactly the distinct offsets held by the `DW_AT_ranges` attributes of the units of
    the section's generation (`refs`, in DIE order; indexed forms already resolved through the offset table by
    `attr_value_rnglistx`), each with the unit that referred to it last.  Each fetch is
    `v4_rnglist_roundtrip` / `v5_rnglist_fetch`. -/
theorem enumeration_exact_ranges (env : Env) (secs : Model.Lists.Secs) (l : Model.Lists.Lists)
    (cus : List Model.Lists.Cu) (refs : List (Int × Model.Lists.Cu))
    (hrefs : Model.Lists.rangeRefs env secs (decide (l.version ≥ 5)) cus = .ok refs) :
    Model.Lists.iterRangeLists env secs l cus =
      (sortedDistinct (refs.map (·.1))).mapM fun offset =>
        match Model.Lists.dictGet? (Model.Lists.cuMapOf refs) offset with
        | none => .error .keyError
        | some cu => Model.Lists.getRangeListAtOffset env secs l offset (some cu) :=
  ListsEnum.iterRangeLists_exact env secs l cus refs hrefs

/-- the visited offsets are the referenced ones: same members, strictly increasing (no list twice) … -/
theorem visited_offsets_mem (xs : List Int) (x : Int) : x ∈ sortedDistinct xs ↔ x ∈ xs :=
  ListsEnum.mem_sortedDistinct xs x

theorem visited_offsets_sorted (xs : List Int) : (sortedDistinct xs).Pairwise (· < ·) :=
  ListsEnum.sortedDistinct_sorted xs

/-- … every visited offset has a unit (the `KeyError` branch is unreachable), and it is one that referred to it -/
theorem visited_offset_has_unit (refs : List (Int × Model.Lists.Cu)) (offset : Int)
    (h : offset ∈ sortedDistinct (refs.map (·.1))) :
    (Model.Lists.dictGet? (Model.Lists.cuMapOf refs) offset).isSome = true :=
  ListsEnum.iterRangeLists_key_present refs offset h

theorem visited_offset_unit_referred (refs : List (Int × Model.Lists.Cu)) (k : Int) (cu : Model.Lists.Cu)
    (h : Model.Lists.dictGet? (Model.Lists.cuMapOf refs) k = some cu) : (k, cu) ∈ refs :=
  ListsEnum.dictGet_cuMapOf_mem refs k cu h

/-! ### `enumeration_exact` (location lists referenced by debugging entries): `iter_location_lists()`

  The section is described by its referenced objects (`Spec.Lists.LocObj`: unreferenced bytes, view pairs, list) —
  for .debug_loclists grouped in unit blocks (`LocUnit`: header with offset table, objects, unreferenced bytes at the
  end).  `dec cu die` is the decoded form of a debugging entry (hypothesis `hdec`; `die_decoding_plain` and
  `attr_value_loclistx` discharge it); `refs` are the references `Spec.Lists.dieLocRefs` finds in the entries of the
  units of the section's generation, in `iter_CUs()` × `iter_DIEs()` order, each with its unit.
  Well-formedness: every list entry and view pair is encodable (`wf`, `viewsOk`), the section is shorter than 2^63,
  and `refsAgree`: every reference designates an object of the layout — with `DW_AT_GNU_locviews` pointing at its first
  view pair exactly when the object has view pairs — and every object is referred to.  (Objects follow each other,
  so they do not overlap, and a list is referenced either always with or always without views.)
  Conclusion: the enumeration yields exactly the objects, in offset order, each as its view pairs followed by its
  entries (`obsObjs`); gaps, offset tables and the bytes at a unit's end are skipped. -/

/-- what `iter_location_lists()` does with one debugging entry: exactly the references the decision table finds -/
theorem die_refs_exact (env : Env) (secs : Model.Lists.Secs) (cu : Model.Lists.Cu) (st : Model.Lists.Scan)
    (die : List Model.Lists.RawAttr) (d : List Model.Lists.Attr) (rs : List LocRef)
    (hd : Model.Lists.dieAttrs env secs cu die = .ok d)
    (hr : dieLocRefs cu.version (d.map ListsLocScan.toDie) = some rs) :
    Model.Lists.scanDie env secs cu st die = .ok (rs.foldl (ListsLocScan.applyRef cu) st) :=
  ListsLocScan.scanDie_refs env secs cu st die d rs hd hr

/-- a debugging entry without indexed forms decodes to its raw values (discharges `hdec` below; indexed forms:
    `attr_value_loclistx`) -/
theorem die_decoding_plain (env : Env) (secs : Model.Lists.Secs) (cu : Model.Lists.Cu) (die : List Model.Lists.RawAttr)
    (h : ∀ a ∈ die, a.form ≠ "DW_FORM_loclistx" ∧ a.form ≠ "DW_FORM_rnglistx") :
    Model.Lists.dieAttrs env secs cu die
      = .ok (Model.Lists.attrDict (die.map fun a => ⟨a.name, a.form, a.raw⟩)) :=
  ListsLocScan.dieAttrs_plain env secs cu die h

/-- `enumeration_exact_locations` (.debug_loc, DWARF 2–4): the lists are fetched at the referenced offsets whatever
    lies between them (`gap`, `tail` are arbitrary bytes) -/
theorem enumeration_exact_locations_v4 (env : Env) (secs : Model.Lists.Secs) (cfg : DwarfCfg) (l : Model.Lists.Lists)
    (cus : List Model.Lists.Cu) (dec : Model.Lists.Cu → List Model.Lists.RawAttr → List Model.Lists.Attr)
    (refs : List (LocRef × Model.Lists.Cu)) (objs : List (LocObj (List V4Loc))) (tail : Bytes) (outs : List (List Val))
    (hS : l.S = Spec.dwarfStructs cfg) (ha : l.asz = cfg.asz) (hasz : 1 ≤ cfg.asz) (hv : l.version < 5)
    (hd : l.data = encObjs (encV4Loc cfg.le cfg.asz) cfg.le objs ++ tail)
    (hsmall : l.data.length < 2 ^ 63)
    (hdec : ∀ cu ∈ cus, (decide (cu.version ≥ 5) == false) = true →
      ∀ die ∈ cu.dies, Model.Lists.dieAttrs env secs cu die = .ok (dec cu die))
    (hrefs : ListsLocScan.locRefs dec false cus = some refs)
    (hobj : ∀ o ∈ objs, o.viewsOk = true ∧ ∀ x ∈ o.list, x.wf cfg.asz = true)
    (hagree : refsAgree (refs.map (·.1)) ((layout (v4LocSize cfg.asz) 0 objs).map layoutRef) = true)
    (hobs : obsObjs (fun off es => some (obsV4Loc cfg.asz off es)) (layout (v4LocSize cfg.asz) 0 objs) = some outs) :
    Model.Lists.iterLocationLists env secs l cus = .ok outs :=
  ListsLocWalk.iterLocationLists_v4 env secs cfg l cus dec refs objs tail outs hS ha hasz hv hd hsmall hdec hrefs hobj
    hagree hobs

/-- `enumeration_exact_locations` (.debug_loclists, DWARF 5): unit block after unit block; in each block the offset
    table, the bytes between objects and the bytes at the block's end are skipped; each list is translated with the
    address array of the unit that refers to it (`haddr`: what `get_addr_exact` gives).
    (False of the tree before the fix `C07-loclists-trailing-gap`: IndexError on a last block that ends in a gap.) -/
theorem enumeration_exact_locations_v5 (S : DwarfStructs) (secs : Model.Lists.Secs) (cfg : DwarfCfg)
    (l : Model.Lists.Lists) (cus : List Model.Lists.Cu)
    (dec : Model.Lists.Cu → List Model.Lists.RawAttr → List Model.Lists.Attr)
    (refs : List (LocRef × Model.Lists.Cu)) (us : List LocUnit) (outs : List (List Val))
    (hS : l.S = Spec.dwarfStructs cfg) (hv : 5 ≤ l.version)
    (hd : l.data = encLocUnits cfg.le cfg.asz us)
    (hsmall : l.data.length < 2 ^ 63)
    (hdec : ∀ cu ∈ cus, (decide (cu.version ≥ 5) == true) = true →
      ∀ die ∈ cu.dies, Model.Lists.dieAttrs (Model.dwarfEnv S) secs cu die = .ok (dec cu die))
    (hrefs : ListsLocScan.locRefs dec true cus = some refs)
    (hhdr : ∀ u ∈ us, u.hdr.wf (u.body cfg.le cfg.asz) = true)
    (hobj : ∀ u ∈ us, ∀ o ∈ u.objs, o.viewsOk = true ∧ ∀ x ∈ o.list.2, x.wf lleKinds cfg.asz = true)
    (hagree : refsAgree (refs.map (·.1)) ((layoutUnits cfg.le cfg.asz 0 us).map layoutRef) = true)
    (haddr : ∀ rc ∈ refs, ∀ e ∈ layoutUnits cfg.le cfg.asz 0 us, rc.1 = layoutRef e →
      ∀ i a, addrOf e.2.2.list.1 i = some a →
        Model.Lists.cuAddr (Model.dwarfEnv S) secs (some rc.2) (.int i) = .ok (.int a))
    (hobs : obsObjs (ListsLocWalk.obsL5 cfg.asz) (layoutUnits cfg.le cfg.asz 0 us) = some outs) :
    Model.Lists.iterLocationLists (Model.dwarfEnv S) secs l cus = .ok outs :=
  ListsLocWalk.iterLocationLists_v5 _ secs cfg l cus dec refs us outs TieC07.lle_codes hS hv hd hsmall hdec hrefs hhdr
    hobj hagree haddr hobs

/-- the references all come from units of the section's generation (a pre-v5 unit is ignored by the enumeration of
    .debug_loclists and vice versa) -/
theorem location_refs_generation (dec : Model.Lists.Cu → List Model.Lists.RawAttr → List Model.Lists.Attr)
    (ver5 : Bool) (cus : List Model.Lists.Cu) (refs : List (LocRef × Model.Lists.Cu))
    (h : ListsLocScan.locRefs dec ver5 cus = some refs) :
    ∀ rc ∈ refs, rc.2 ∈ cus ∧ (decide (rc.2.version ≥ 5) == ver5) = true :=
  ListsLocScan.locRefs_gen dec ver5 cus refs h

/-! ### both generations present: `LocationListsPair` / `RangeListsPair` (what `DWARFInfo.location_lists()` /
    `range_lists()` return when the old and the DWARF 5 section both exist) -/

/-- with both sections present the factory returns a pair holding a version-4 object over the old section and a
    version-5 object over the new one, both with the `DWARFInfo`'s structs -/
theorem factory_pair (S : DwarfStructs) (asz : Nat) (d4 d5 : Bytes) :
    Model.Lists.listsFactory S asz (some d4) (some d5)
      = .pair ⟨⟨d4, S, asz, 4⟩, ⟨d5, S, asz, 5⟩⟩ := rfl

/-- `pair_dispatch`: a request made for a unit is forwarded to the DWARF 5 section exactly when the unit's version
    is ≥ 5, otherwise to the old section; without a unit it is refused -/
theorem pair_dispatch_loc (env : Env) (secs : Model.Lists.Secs) (p : Model.Lists.ListsPair) (offset : Int)
    (cu : Model.Lists.Cu) :
    Model.Lists.pairGetLocationListAtOffset env secs p offset (some cu)
      = Model.Lists.getLocationListAtOffset env secs (if cu.version ≥ 5 then p.new else p.old) offset (some cu) := rfl

theorem pair_dispatch_rng (env : Env) (secs : Model.Lists.Secs) (p : Model.Lists.ListsPair) (offset : Int)
    (cu : Model.Lists.Cu) :
    Model.Lists.pairGetRangeListAtOffset env secs p offset (some cu)
      = Model.Lists.getRangeListAtOffset env secs (if cu.version ≥ 5 then p.new else p.old) offset (some cu) := rfl

theorem pair_no_unit (env : Env) (secs : Model.Lists.Secs) (p : Model.Lists.ListsPair) (offset : Int) :
    Model.Lists.pairGetLocationListAtOffset env secs p offset none = .error .dwarfError
      ∧ Model.Lists.pairGetRangeListAtOffset env secs p offset none = .error .dwarfError := ⟨rfl, rfl⟩

/-- a DWARF 5 unit's location list comes from .debug_loclists — whatever .debug_loc holds (`d4`) -/
theorem pair_loc_v5_unit (S : DwarfStructs) (secs : Model.Lists.Secs) (cfg : DwarfCfg) (d4 : Bytes)
    (cu : Model.Lists.Cu) (addrs : List Nat) (pre rest : Bytes) (es : List Ent) (vs : List Val)
    (hcu : 5 ≤ cu.version)
    (hwf : ∀ e ∈ es, e.wf lleKinds cfg.asz = true) (hsmall : pre.length < 2 ^ 63)
    (haddr : ∀ i a, addrOf addrs i = some a →
      Model.Lists.cuAddr (Model.dwarfEnv S) secs (some cu) (.int i) = .ok (.int a))
    (hsp : translateList (fun o e => Spec.Lists.translateLoc (addrOf addrs) cfg.asz o e) cfg.asz pre.length es = some vs) :
    Model.Lists.pairGetLocationListAtOffset (Model.dwarfEnv S) secs
        (Model.Lists.mkPair (Spec.dwarfStructs cfg) cfg.asz d4 (pre ++ encList cfg.le cfg.asz es ++ rest))
        (pre.length : Int) (some cu) = .ok vs := by
  have hc : cu.version ≥ 5 := hcu
  rw [pair_dispatch_loc, if_pos hc]
  exact v5_loclist_fetch S secs cfg _ cu addrs pre rest es vs rfl (Nat.le_refl 5) rfl hwf hsmall haddr hsp

/-- a pre-DWARF-5 unit's location list comes from .debug_loc — whatever .debug_loclists holds (`d5`) -/
theorem pair_loc_old_unit (env : Env) (secs : Model.Lists.Secs) (cfg : DwarfCfg) (d5 : Bytes)
    (cu : Model.Lists.Cu) (pre rest : Bytes) (es : List V4Loc)
    (hcu : cu.version < 5) (hasz : 1 ≤ cfg.asz)
    (hwf : ∀ e ∈ es, e.wf cfg.asz = true) (hsmall : pre.length < 2 ^ 63) :
    Model.Lists.pairGetLocationListAtOffset env secs
        (Model.Lists.mkPair (Spec.dwarfStructs cfg) cfg.asz (pre ++ encV4Loc cfg.le cfg.asz es ++ rest) d5)
        (pre.length : Int) (some cu) = .ok (obsV4Loc cfg.asz pre.length es) := by
  have hc : ¬ (cu.version ≥ 5) := by omega
  rw [pair_dispatch_loc, if_neg hc]
  exact v4_loclist_roundtrip env secs cfg _ (some cu) pre rest es rfl rfl hasz (Nat.lt_succ_self 4) rfl hwf hsmall

/-- … and the same for range lists -/
theorem pair_rng_v5_unit (S : DwarfStructs) (secs : Model.Lists.Secs) (cfg : DwarfCfg) (d4 : Bytes)
    (cu : Model.Lists.Cu) (addrs : List Nat) (pre rest : Bytes) (es : List Ent) (vs : List Val)
    (hcu : 5 ≤ cu.version)
    (hwf : ∀ e ∈ es, e.wf rleKinds cfg.asz = true) (hsmall : pre.length < 2 ^ 63)
    (haddr : ∀ i a, addrOf addrs i = some a →
      Model.Lists.cuAddr (Model.dwarfEnv S) secs (some cu) (.int i) = .ok (.int a))
    (hsp : translateList (fun o e => Spec.Lists.translateRng (addrOf addrs) cfg.asz o e) cfg.asz pre.length es = some vs) :
    Model.Lists.pairGetRangeListAtOffset (Model.dwarfEnv S) secs
        (Model.Lists.mkPair (Spec.dwarfStructs cfg) cfg.asz d4 (pre ++ encList cfg.le cfg.asz es ++ rest))
        (pre.length : Int) (some cu) = .ok vs := by
  have hc : cu.version ≥ 5 := hcu
  rw [pair_dispatch_rng, if_pos hc]
  exact v5_rnglist_fetch S secs cfg _ (some cu) addrs pre rest es vs rfl (Nat.le_refl 5) rfl hwf hsmall haddr hsp

theorem pair_rng_old_unit (env : Env) (secs : Model.Lists.Secs) (cfg : DwarfCfg) (d5 : Bytes)
    (cu : Model.Lists.Cu) (pre rest : Bytes) (es : List V4Rng)
    (hcu : cu.version < 5) (hasz : 1 ≤ cfg.asz)
    (hwf : ∀ e ∈ es, e.wf cfg.asz = true) (hsmall : pre.length < 2 ^ 63) :
    Model.Lists.pairGetRangeListAtOffset env secs
        (Model.Lists.mkPair (Spec.dwarfStructs cfg) cfg.asz (pre ++ encV4Rng cfg.le cfg.asz es ++ rest) d5)
        (pre.length : Int) (some cu) = .ok (obsV4Rng cfg.asz pre.length es) := by
  have hc : ¬ (cu.version ≥ 5) := by omega
  rw [pair_dispatch_rng, if_neg hc]
  exact v4_rnglist_roundtrip env secs cfg _ (some cu) pre rest es rfl rfl hasz (Nat.lt_succ_self 4) rfl hwf hsmall

/-- the remaining forwarding methods: the DWARF 5 object answers the unit-block API, enumeration over two
    sections is refused -/
theorem pair_forwarding (env : Env) (secs : Model.Lists.Secs) (p : Model.Lists.ListsPair) (offset : Int)
    (cus : List Model.Lists.Cu) (h : Val) (cu : Option Model.Lists.Cu) (e : Val) :
    Model.Lists.pairGetRangeListAtOffsetEx env p offset = Model.Lists.getRangeListAtOffsetEx env p.new offset
      ∧ Model.Lists.pairRngIterCUs env p cus = Model.Lists.iterCUs env p.new false cus
      ∧ Model.Lists.pairIterCURangeListsEx env p h = Model.Lists.iterCURangeListsEx env p.new h
      ∧ Model.Lists.pairTranslateV5Entry env secs cu e = Model.Lists.translateV5Entry env secs cu e
      ∧ Model.Lists.pairIterRangeLists = .error .dwarfError
      ∧ Model.Lists.pairIterLocationLists = .error .dwarfError
      ∧ Model.Lists.pairLocIterCUs = .error .dwarfError := ⟨rfl, rfl, rfl, rfl, rfl, rfl, rfl⟩

/-! ### attribute classification -/

/-- `classification_table`: for every form the library knows, every attribute name and every version, what
    `LocationParser` decides is the decision table `Spec.Lists.classify` -/
theorem classification_table (name form : String) (ver : Nat) (hf : form ∈ TieC07.formNames) :
    ListsCls.modelClass name form ver = classify name form ver :=
  ListsCls.modelClass_eq_classify name form ver (TieC07.block_prefix_forms form hf)

/-- `attribute_has_location` is "the table says expression or list" -/
theorem has_location_table (name form : String) (ver : Nat) (hf : form ∈ TieC07.formNames) :
    Model.Lists.attributeHasLocation name form ver = (classify name form ver != .neither) :=
  ListsCls.hasLocation_iff name form ver (TieC07.block_prefix_forms form hf)

/-- `parse_from_attribute`: an expression attribute yields its expression, a list attribute the list at the
    offset it holds (`v4_loclist_roundtrip` / `v5_loclist_fetch`), anything else is refused -/
theorem parse_from_attribute_by_class (env : Env) (secs : Model.Lists.Secs) (l : Model.Lists.Lists)
    (a : Model.Lists.Attr) (ver : Nat) (cu : Option Model.Lists.Cu) (hf : a.form ∈ TieC07.formNames) :
    Model.Lists.parseFromAttribute env secs l a ver cu =
      match classify a.name a.form ver with
      | .expr => .ok (Model.Lists.nt "LocationExpr" [("loc_expr", a.value)])
      | .list => do
          let off ← a.value.asInt
          let r ← Model.Lists.getLocationListAtOffset env secs l off cu
          pure (.list r)
      | .neither => .error .valueError :=
  ListsFetch.parseFromAttribute_by_class env secs l a ver cu (TieC07.block_prefix_forms a.form hf)

/-! ### non-vacuity -/

example : (V4Loc.loc 0 1 [0x50, 0x93, 0x04]).wf 4 = true := by decide
example : (V4Loc.base 0x1000).wf 8 = true := by decide
example : (V4Rng.range 0x10 0x20).wf 4 = true := by decide
example : (Ent.mk ⟨8, "DW_LLE_start_length", [("start_address", .addr), ("length", .uleb), ("loc_expr", .cld)]⟩
            [.addr 0x1000, .uleb 2 0x10, .cld 1 [0x50]]).wf lleKinds 8 = true := by decide
example : (Ent.mk ⟨2, "DW_RLE_startx_endx", [("start_index", .uleb), ("end_index", .uleb)]⟩
            [.uleb 1 0, .uleb 1 1]).wf rleKinds 4 = true := by decide
example : (UnitHdr.mk false 8 0 [4]).wf [7, 0, 0, 0, 0, 0, 0, 0, 0, 0, 0] = true := by decide
example : "DW_FORM_exprloc" ∈ TieC07.formNames := by decide
example : sortedDistinct [5, 3, 5, 1, 3] = [1, 3, 5] := by decide
example : classify "DW_AT_location" "DW_FORM_sec_offset" 5 = .list := by decide
example : classify "DW_AT_location" "DW_FORM_data4" 4 = .neither := by decide
example : classify "DW_AT_data_member_location" "DW_FORM_data4" 2 = .list := by decide

/-! non-vacuity of `enumeration_exact_locations_v4` / `_v5`: complete instances (view pairs, gaps, an offset table,
    a trailing gap, a second (64-bit) unit block, a unit of the other generation that is ignored) -/

example (env : Env) : Model.Lists.iterLocationLists env ⟨none, none, none⟩ ListsLocWalk.demoL [ListsLocWalk.demoCu, ListsLocWalk.demoCu5]
    = .ok [[viewPair 2 1 2, locationEntry 5 11 1 2 [0x50] false, locBaseEntry 16 8 7], []] :=
  enumeration_exact_locations_v4 env _ ListsLocWalk.demoCfg ListsLocWalk.demoL [ListsLocWalk.demoCu, ListsLocWalk.demoCu5] ListsLocWalk.demoDec
    [((some 2, 5), ListsLocWalk.demoCu), ((none, 33), ListsLocWalk.demoCu)] ListsLocWalk.demoObjs [1, 2, 3] _ rfl rfl (by decide) (by decide) rfl (by decide)
    (fun cu hcu hg die hdie => by
      simp only [List.mem_cons, List.not_mem_nil, or_false] at hcu
      rcases hcu with rfl | rfl
      · exact ListsLocScan.dieAttrs_plain env _ _ die (ListsLocWalk.demo_plain die hdie)
      · exact absurd hg (by decide))
    rfl (by decide) (by decide) rfl

example : (layoutUnits true 4 0 ListsLocWalk.demoUs).map layoutRef = [(none, 16), (some 28, 30)] := by decide

example : ListsLocWalk.demoL5.data.length = 58 := by decide

example (S : DwarfStructs) : Model.Lists.iterLocationLists (Model.dwarfEnv S) ⟨none, none, none⟩ ListsLocWalk.demoL5 [ListsLocWalk.demoCu, ListsLocWalk.demoCuV5]
    = .ok [[locBaseEntry 16 5 0x1000, locationEntry 21 5 1 2 [0x50] false],
           [viewPair 28 3 4, locationEntry 30 5 1 2 [0x50] false]] :=
  enumeration_exact_locations_v5 S _ ListsLocWalk.demoCfg ListsLocWalk.demoL5 [ListsLocWalk.demoCu, ListsLocWalk.demoCuV5] ListsLocWalk.demoDec
    [((none, 16), ListsLocWalk.demoCuV5), ((some 28, 30), ListsLocWalk.demoCuV5)] ListsLocWalk.demoUs _ rfl (by decide) rfl (by decide)
    (fun cu hcu hg die hdie => by
      simp only [List.mem_cons, List.not_mem_nil, or_false] at hcu
      rcases hcu with rfl | rfl
      · exact absurd hg (by decide)
      · exact ListsLocScan.dieAttrs_plain _ _ _ die (ListsLocWalk.demo_plain5 die hdie))
    rfl (by decide) (by decide) (by decide)
    (fun rc _ e he _ i a h => by
      have hall : ∀ e ∈ layoutUnits true 4 0 ListsLocWalk.demoUs, e.2.2.list.1 = [] := by decide
      rw [hall e he] at h
      simp [addrOf] at h)
    rfl

end PyElf.Props.C07
