/-
  C10 — answers do not depend on query history or stream position.

  Property theorems only.  `F : File` is the pure (stateless) side of one opened file: the parse functions
  `_parse_CU_at_offset` and `DIE(cu, stream, offset)` enter as PARAMETERS that are pure in (file, offset) — for the
  code this is the content of the absolute `seek` before every parse, which the correspondence run checks
  (harness/props/c10.py runs the same op list through `step` and through the live object and compares every answer,
  the abstract cache state AND the position of the `.debug_info` stream after every operation).
  `FileWF F cs`: parse results carry the offset they were parsed at, the section is the units `cs` back to back
  (`Chain`, C13), nothing parses as a DIE below a unit's first DIE.  `OpValid`: unit offsets passed to lookups are
  unit starts (an invalid `get_CU_at` offset poisons the unit cache by design; out of scope as the design states).
  DIE offsets are NOT restricted.

  No struct bundle or generated table is used by this property, so there is no `TieC10`.
-/
import PyElf.Model.History
import PyElf.Proofs.History
import PyElf.Proofs.HistoryState
import PyElf.Proofs.DwarfLookup
namespace PyElf.Props.C10
open PyElf PyElf.Model.Lookup PyElf.Model.C10 PyElf.Proofs.Lookup PyElf.Proofs.C10

/-! ### the invariant -/

/-- a freshly opened object satisfies the invariant -/
theorem inv_initial (F : File) (cs : List CU) : Inv F cs State.init := inv_init F cs

/-- EVERY public operation keeps it: unit lookups, DIE lookups, `iter_children` / `get_parent` (ancestor search),
    line-program retrieval, the name maps, creating a generator, resuming any suspended generator (`next`, partial
    consumption interleaved with anything else), abandoning generators, and adversarial `seek`s -/
theorem inv_step {F : File} {cs : List CU} (wf : FileWF F cs) {st : State} (hinv : Inv F cs st) {op : Op}
    (hv : OpValid F cs op) : Inv F cs (step F st op).2 := step_inv wf hinv hv

/-- hence it holds after every finite history -/
theorem inv_run {F : File} {cs : List CU} (wf : FileWF F cs) (ops : List Op) (hv : ∀ op ∈ ops, OpValid F cs op) :
    Inv F cs (run F State.init ops) := run_inv wf ops _ (inv_init F cs) hv

/-! ### refinement: the answer of a lookup is its stateless meaning -/

/-- `Inv s → (step s op).2 = answer file op`.
    PARTIAL: proved for the lookups `Lookup op` (get_CU_at, get_CU_containing, get_top_DIE, get_DIE_from_refaddr on
    a unit and on the DWARFInfo, line_program_for_CU, get_section_index / the section-name map,
    get_symbol_by_name / the symbol-name map, seek).  The full statement is the same without `Lookup op`; for the
    navigation answers (`children`, `parent`, `take` / `all` / `itNext` on generators) the invariant is proved to be
    KEPT (`inv_step`), but that their answers equal the fresh object's is established by correspondence and the
    exhaustive history exploration only (it additionally needs the DIE layout to be a tree: `_parent` is whichever
    ancestor walk reached the DIE last). -/
theorem answer_refines_partial {F : File} {cs : List CU} (wf : FileWF F cs) {st : State} (hinv : Inv F cs st) {op : Op}
    (hv : OpValid F cs op) (hl : Lookup op) : (step F st op).1 = answer F op :=
  step_answer_eq wf hinv (inv_init F cs) hv hl

/-- answers are independent of the history: after ANY finite sequence of valid operations — including child and
    subtree iteration, parent search, partially consumed generators and seeks — a lookup answers what it answers
    on a freshly opened object.  (PARTIAL in the same sense: `Lookup op`.) -/
theorem answers_independent_of_history_partial {F : File} {cs : List CU} (wf : FileWF F cs) (ops : List Op)
    (hops : ∀ o ∈ ops, OpValid F cs o) {op : Op} (hv : OpValid F cs op) (hl : Lookup op) :
    (step F (run F State.init ops) op).1 = answer F op :=
  answer_refines_partial wf (inv_run wf ops hops) hv hl

/-- … and of where the shared stream was left: repositioning the stream does not change the next answer -/
theorem answers_independent_of_stream_position_partial {F : File} {cs : List CU} (wf : FileWF F cs) {st : State}
    (hinv : Inv F cs st) (n : Nat) {op : Op} (hv : OpValid F cs op) (hl : Lookup op) :
    (step F (step F st (.seek n)).2 op).1 = (step F st op).1 :=
  step_answer_eq wf (step_inv wf hinv (op := .seek n) trivial) hinv hv hl

/-- repeated identical queries return equal results -/
theorem repeated_query_equal_partial {F : File} {cs : List CU} (wf : FileWF F cs) {st : State} (hinv : Inv F cs st)
    {op : Op} (hv : OpValid F cs op) (hl : Lookup op) : (step F (step F st op).2 op).1 = (step F st op).1 :=
  step_answer_eq wf (step_inv wf hinv hv) hinv hv hl

/-! ### closed forms: what the lookups answer -/

/-- `get_CU_at(o)` at a unit start: the unit starting there -/
theorem cu_at_exact {F : File} {cs : List CU} (wf : FileWF F cs) {st : State} (hinv : Inv F cs st) {c : CU} (hc : c ∈ cs) :
    (step F st (.cuAt c.cuOffset)).1 = .ok (.pair c.cuOffset c.cuDieOffset) := (step_cuAt wf hinv hc).1

/-- `get_CU_containing(x)`: the unit whose extent contains `x` -/
theorem cu_containing_exact {F : File} {cs : List CU} (wf : FileWF F cs) {st : State} (hinv : Inv F cs st) {x : Nat}
    (hx : x < F.size) :
    ∃ c sz, (step F st (.cuCont x)).1 = .ok (.pair c.cuOffset c.cuDieOffset) ∧ c ∈ cs ∧ c.size = .ok sz ∧
      c.cuOffset ≤ x ∧ x < c.cuOffset + sz := by
  obtain ⟨c, sz, h1, h2, h3, h4, h5, _⟩ := step_cuCont wf hinv hx
  exact ⟨c, sz, h1, h2, h3, h4, h5⟩

/-- `cu.get_DIE_from_refaddr(off)`: the pure parse at `off` (random access), in every cache state -/
theorem die_at_exact {F : File} {cs : List CU} (wf : FileWF F cs) {st : State} (hinv : Inv F cs st) {c : CU} (hc : c ∈ cs)
    {sz : Nat} (hsz : c.size = .ok sz) (off : Nat) :
    (step F st (.die c.cuOffset off)).1 = (pureRefaddr F c sz off).map (fun d => Ans.nat d.offset) :=
  (step_die wf hinv hc hsz off).1

/-- `get_top_DIE()` -/
theorem top_die_exact {F : File} {cs : List CU} (wf : FileWF F cs) {st : State} (hinv : Inv F cs st) {c : CU} (hc : c ∈ cs) :
    (step F st (.top c.cuOffset)).1 = (F.parseDIE c.cuOffset c.cuDieOffset).map (fun d => Ans.nat d.offset) :=
  (step_top wf hinv hc).1

/-- the section-name map (`dict` overwrite: the last index bearing a name), built lazily, never changes an answer -/
theorem section_index_exact {F : File} {cs : List CU} {st : State} (hinv : Inv F cs st) (name : String) :
    (step F st (.secIdx name)).1 = .ok (.opt (((buildSecMap F.secNames).find? (·.1 == name)).map (·.2))) :=
  (step_secIdx hinv name).1

/-! ### the per-unit DIE cache (`_diemap` / `_dielist`, bisect insertion) -/

/-- `_get_cached_DIE(o)`: for every cache state satisfying the unit invariant and every offset not below the first
    DIE, the answer is the pure parse at `o` (after the pure parse of the top DIE, which is forced first), and the
    invariant (parallel arrays, sorted offsets, every cached DIE is the pure parse at its offset, the first entry is
    the top DIE) is kept.  `bisect_right` is CPython's loop (`Model.Lookup.bisectLoop`, specification
    `Props.C13.bisect_right_sorted`). -/
theorem die_cache_exact {PD : Nat → R DIE} {dieOff : Nat} (hPo : ∀ o d, PD o = .ok d → d.offset = o) {u : UnitCache}
    (h : UCore PD dieOff u) {o : Nat} (hlow : dieOff ≤ o) :
    (getCachedDIE PD dieOff u o).1 = (PD dieOff >>= fun _ => PD o) ∧ UCore PD dieOff (getCachedDIE PD dieOff u o).2 :=
  getCachedDIE_spec hPo h hlow

theorem die_cache_initial (PD : Nat → R DIE) (dieOff pos : Nat) : UCore PD dieOff (UnitCache.empty pos) :=
  ucore_empty PD dieOff pos

/-- child iteration (every `next()` of a suspended `iter_DIE_children` generator, with the DW_AT_sibling shortcut,
    the `_terminator` reuse and the nested full iteration), subtree iteration and the ancestor search keep the unit
    invariant, for every fuel, iterator state and DIE -/
theorem navigation_keeps_die_cache {PD : Nat → R DIE} {dieOff : Nat} (hPo : ∀ o d, PD o = .ok d → d.offset = o)
    (hlowP : ∀ o d, PD o = .ok d → dieOff ≤ o) {u : UnitCache} (h : UCore PD dieOff u) (fuel : Nat) :
    (∀ it, UCore PD dieOff (childNext PD dieOff fuel it u).2.2) ∧
    (∀ it acc, UCore PD dieOff (drain PD dieOff fuel it u acc).2) ∧
    (∀ stack, UCore PD dieOff (subNext PD dieOff fuel stack u).2.2) ∧
    (∀ self, UCore PD dieOff (getParent PD dieOff fuel self u).2) :=
  ⟨fun it => childNext_core hPo hlowP fuel it h, fun it acc => drain_core hPo hlowP fuel it acc h,
   fun stack => subNext_core hPo hlowP fuel stack u h, fun self => getParent_core hPo hlowP fuel self h⟩


/-! ### second wave: navigation answers, with the tree-shaped layout as a file hypothesis

  `TreeWF F cs T`: `T` assigns to every unit the tree of its entries (`DTree`: an entry and its sibling list, the
  null entry closing the list being its last element); the tree is laid out from the unit's first DIE offset
  (`Lay`: positive sizes tile the extent, a null entry owns nothing, an entry without children has no sibling list,
  DW_AT_sibling on an owner designates the end of its subtree — the shape of C04's `flatten` / `sibOk`), it ends
  inside the unit, and the parse at every entry's offset returns that entry (what C04's `iter_dies_flatten` assumes of
  the cache function; here `die_cache_exact` provides it in every invariant state).
  `OpValidT`: as `OpValid`, and the DIE offsets passed to `children` / `parent` / a children generator are offsets
  of entries (a navigation call on a garbage offset hangs `_parent` links of real entries on a garbage object).
  `InvT F cs T g st`: `Inv`, the `_parent` / `_terminator` links are the tree's, and the generator behind every
  handle `i` still has to produce the stateless enumeration of its kind from item `n` on, `(kind, n) = g[i]` being
  bookkeeping computed from the operation list alone (`ghost`). -/

theorem invT_initial (F : File) (cs : List CU) (T : Nat → DTree) : InvT F cs T [] State.init := invT_init F cs T

theorem invT_step {F : File} {cs : List CU} {T : Nat → DTree} (wf : FileWF F cs) (tw : TreeWF F cs T) {st : State}
    {g : Ghost} (hinv : InvT F cs T g st) {op : Op} (hv : OpValidT F cs T op) :
    InvT F cs T (ghostStep g op) (step F st op).2 := step_invT wf tw hinv hv

theorem invT_run {F : File} {cs : List CU} {T : Nat → DTree} (wf : FileWF F cs) (tw : TreeWF F cs T) (ops : List Op)
    (hv : ∀ op ∈ ops, OpValidT F cs T op) : InvT F cs T (ghost ops) (run F State.init ops) :=
  run_invT wf tw ops _ [] (invT_init F cs T) hv

/-- `Inv s → (step s op).1 = answer file op` for every query (`Query`: everything except creating / resuming a
    handle, whose answers are by nature relative to the handle — see `suspended_generator_kth`): the lookups AND
    `iter_children`, `get_parent`, the first `n` items and the full list of the CU, DIE-subtree and children
    generators. -/
theorem answer_refines {F : File} {cs : List CU} {T : Nat → DTree} (wf : FileWF F cs) (tw : TreeWF F cs T) {st : State}
    {g : Ghost} (hinv : InvT F cs T g st) {op : Op} (hv : OpValidT F cs T op) (hq : Query op) :
    (step F st op).1 = answer F op :=
  step_answer_eqT wf tw hinv (invT_init F cs T) hv hq

/-- after ANY finite history of valid operations (navigation, generators created, partially consumed, abandoned,
    seeks), every query answers what it answers on a freshly opened object -/
theorem answers_independent_of_history {F : File} {cs : List CU} {T : Nat → DTree} (wf : FileWF F cs)
    (tw : TreeWF F cs T) (ops : List Op) (hops : ∀ o ∈ ops, OpValidT F cs T o) {op : Op} (hv : OpValidT F cs T op)
    (hq : Query op) : (step F (run F State.init ops) op).1 = answer F op :=
  answer_refines wf tw (invT_run wf tw ops hops) hv hq

theorem answers_independent_of_stream_position {F : File} {cs : List CU} {T : Nat → DTree} (wf : FileWF F cs)
    (tw : TreeWF F cs T) {st : State} {g : Ghost} (hinv : InvT F cs T g st) (n : Nat) {op : Op}
    (hv : OpValidT F cs T op) (hq : Query op) : (step F (step F st (.seek n)).2 op).1 = (step F st op).1 :=
  step_answer_eqT wf tw (step_invT wf tw hinv (op := .seek n) trivial) hinv hv hq

theorem repeated_query_equal {F : File} {cs : List CU} {T : Nat → DTree} (wf : FileWF F cs) (tw : TreeWF F cs T)
    {st : State} {g : Ghost} (hinv : InvT F cs T g st) {op : Op} (hv : OpValidT F cs T op) (hq : Query op) :
    (step F (step F st op).2 op).1 = (step F st op).1 :=
  step_answer_eqT wf tw (step_invT wf tw hinv hv) hinv hv hq

/-- `list(die.iter_children())`: the entry's children in the tree (the closing null entry is not reported) -/
theorem children_exact {F : File} {cs : List CU} {T : Nat → DTree} (wf : FileWF F cs) (tw : TreeWF F cs T) {st : State}
    {g : Ghost} (hinv : InvT F cs T g st) {c : CU} (hc : c ∈ cs) {x : DTree × Option DIE}
    (hx : x ∈ ents none (T c.cuOffset)) :
    (step F st (.children c.cuOffset x.1.d.offset)).1 = .ok (.list ((kidsOut x.1.kids).map (·.offset))) :=
  (step_children_T wf tw hinv hc hx).1

/-- `die.get_parent()`: the owner in the tree, `None` for the top entry — whichever walk set `_parent` last -/
theorem parent_exact {F : File} {cs : List CU} {T : Nat → DTree} (wf : FileWF F cs) (tw : TreeWF F cs T) {st : State}
    {g : Ghost} (hinv : InvT F cs T g st) {c : CU} (hc : c ∈ cs) {x : DTree × Option DIE}
    (hx : x ∈ ents none (T c.cuOffset)) :
    (step F st (.parent c.cuOffset x.1.d.offset)).1 = .ok (.opt (x.2.map (·.offset))) :=
  (step_parent_T wf tw hinv hc hx).1

/-- `list(cu.iter_DIEs())`: the pre-order flattening of the tree, null entries included -/
theorem iter_dies_exact {F : File} {cs : List CU} {T : Nat → DTree} (wf : FileWF F cs) (tw : TreeWF F cs T) {st : State}
    {g : Ghost} (hinv : InvT F cs T g st) {c : CU} (hc : c ∈ cs) :
    (step F st (.all (.dies c.cuOffset))).1 = .ok (.list ((flatT (T c.cuOffset)).map (·.offset))) :=
  (step_all_T wf tw hinv (k := .dies c.cuOffset) ⟨⟨c, hc, rfl⟩, rfl⟩).1

/-- `list(dwarfinfo.iter_CUs())`: the units of the section -/
theorem iter_cus_exact {F : File} {cs : List CU} {T : Nat → DTree} (wf : FileWF F cs) (tw : TreeWF F cs T) {st : State}
    {g : Ghost} (hinv : InvT F cs T g st) : (step F st (.all .cus)).1 = .ok (.list (cs.map (·.cuOffset))) :=
  (step_all_T wf tw hinv (k := .cus) rfl).1

/-- the first `n` items of a fresh generator are the first `n` of its full list -/
theorem take_exact {F : File} {cs : List CU} {T : Nat → DTree} (wf : FileWF F cs) (tw : TreeWF F cs T) {st : State}
    {g : Ghost} (hinv : InvT F cs T g st) {k : IterKind} {l : List Nat} (hk : KindEnum cs T k l) (n : Nat) :
    (step F st (.take k n)).1 = .ok (.list (l.take n)) ∧ (step F st (.all k)).1 = .ok (.list l) :=
  ⟨(step_take_T wf tw hinv hk n).1, (step_all_T wf tw hinv hk).1⟩

/-- PARTIALLY CONSUMED GENERATORS.  After any history `ops` of valid operations — creating further generators,
    resuming this or other generators, navigation, lookups, seeks, in any interleaving — `next()` on the handle
    that `ghost ops` records as created with kind `k` and asked `n` times so far reports the `n`-th item of the
    STATELESS enumeration of `k` (the answer `list(...)` gives on a freshly opened object), or exhaustion. -/
theorem suspended_generator_kth {F : File} {cs : List CU} {T : Nat → DTree} (wf : FileWF F cs) (tw : TreeWF F cs T)
    (ops : List Op) (hops : ∀ o ∈ ops, OpValidT F cs T o) (h : Nat) {k : IterKind} {n : Nat}
    (hg : (ghost ops)[h % (ghost ops).length]? = some (k, n)) :
    ∃ l, answer F (.all k) = .ok (.list l) ∧ (step F (run F State.init ops) (.itNext h)).1 = .ok (nthAns l n) := by
  obtain ⟨l, hk, h1⟩ := step_itNext_T wf tw (invT_run wf tw ops hops) h hg
  exact ⟨l, (step_all_T wf tw (invT_init F cs T) hk).1, h1⟩

/-- … and creating a generator answers the next free handle -/
theorem new_generator_handle {F : File} {cs : List CU} {T : Nat → DTree} (wf : FileWF F cs) (tw : TreeWF F cs T)
    (ops : List Op) (hops : ∀ o ∈ ops, OpValidT F cs T o) {k : IterKind} (hk : OpValidT F cs T (.itNew k)) :
    (step F (run F State.init ops) (.itNew k)).1 = .ok (.nat (ghost ops).length) := by
  obtain ⟨l, hl⟩ := hk
  exact step_itNew_T wf tw (invT_run wf tw ops hops) hl

/-- RANDOM ACCESS = SEQUENTIAL ACCESS.  The sequential enumeration of a unit (on a fresh object) is the pre-order
    flattening of its tree, and after ANY history `get_DIE_from_refaddr` at the offset of an element `d` of that
    enumeration returns exactly the record `d` (the model's `die` query reports its offset). -/
theorem random_access_eq_sequential {F : File} {cs : List CU} {T : Nat → DTree} (wf : FileWF F cs) (tw : TreeWF F cs T)
    (ops : List Op) (hops : ∀ o ∈ ops, OpValidT F cs T o) {c : CU} (hc : c ∈ cs) :
    answer F (.all (.dies c.cuOffset)) = .ok (.list ((flatT (T c.cuOffset)).map (·.offset))) ∧
    ∀ d ∈ flatT (T c.cuOffset),
      (dieAt F (run F State.init ops) c.cuOffset d.offset).1 = .ok (c, d) ∧
      (step F (run F State.init ops) (.die c.cuOffset d.offset)).1 = .ok (.nat d.offset) := by
  refine ⟨iter_dies_exact wf tw (invT_init F cs T) hc, ?_⟩
  intro d hd
  obtain ⟨x, hx, rfl⟩ := (mem_flatT none).mp hd
  obtain ⟨st', h1, _⟩ := dieAt_ok wf tw (invT_run wf tw ops hops) hc hx
  refine ⟨by rw [h1], ?_⟩
  simp only [step, h1]

/-! ### non-vacuity: a concrete file -/

def exCU0 : CU := ⟨.record [("unit_length", .int 6)], 32, 0, 4⟩
def exCU1 : CU := ⟨.record [("unit_length", .int 8)], 32, 10, 14⟩

/-- two units ([0,10) with DIEs from 4, [10,22) with DIEs from 14); one-byte DIEs, the first of each unit has children -/
def exFile : File :=
  { size := 22
    parseCU := fun o => if o = 0 then .ok exCU0 else if o = 10 then .ok exCU1 else .error .elfParseError
    parseDIE := fun cu o =>
      if cu = 0 then (if 4 ≤ o ∧ o < 10 then .ok ⟨o, 1, o == 4, o == 9, none, if o = 4 then some 0 else none, o⟩ else .error .elfParseError)
      else if cu = 10 then (if 14 ≤ o ∧ o < 22 then .ok ⟨o, 1, o == 14, o == 21, none, none, o⟩ else .error .elfParseError)
      else .error .elfParseError
    secNames := ["", ".text", ".debug_info", ".text"]
    symNames := ["", "main", "foo", "main"] }

theorem exFile_wf : FileWF exFile [exCU0, exCU1] where
  cuOff := by
    intro o c h
    simp only [exFile] at h
    split at h
    · injection h with h; subst h; simp [exCU0, *]
    · split at h
      · injection h with h; subst h; simp [exCU1, *]
      · cases h
  chain := by
    refine ⟨by decide, rfl, 10, rfl, by decide, ?_⟩
    refine ⟨by decide, rfl, 12, rfl, by decide, ?_⟩
    rfl
  dieOff := by
    intro cu o d h
    simp only [exFile] at h
    split at h
    · split at h
      · injection h with h; subst h; rfl
      · cases h
    · split at h
      · split at h
        · injection h with h; subst h; rfl
        · cases h
      · cases h
  dieLow := by
    intro c hc o d h
    simp at hc
    rcases hc with rfl | rfl
    · show 4 ≤ o
      by_cases hb : 4 ≤ o
      · exact hb
      · simp [exFile, exCU0, hb] at h
    · show 14 ≤ o
      by_cases hb : 14 ≤ o
      · exact hb
      · simp [exFile, exCU1, hb] at h

/-- after a history with a partially consumed subtree generator, a children walk, a parent search and a seek, the
    lookup of a DIE by offset answers as on a fresh object -/
example :
    (step exFile (run exFile State.init [.itNew (.dies 0), .itNext 0, .children 10 14, .seek 3, .itNext 0, .parent 0 7,
        .cuCont 21, .lp 0 true]) (.die 0 6)).1 = answer exFile (.die 0 6) :=
  answers_independent_of_history_partial exFile_wf _
    (by intro o ho; simp at ho; rcases ho with rfl | rfl | rfl | rfl | rfl | rfl | rfl | rfl <;>
          first | trivial | exact ⟨exCU0, by simp, rfl⟩ | exact ⟨exCU1, by simp, rfl⟩ | (show 21 < 22; decide))
    ⟨exCU0, by simp, rfl⟩ trivial

/-- the trees of `exFile`: in each unit the first entry owns all the others, the last one is the null entry -/
def exLeaf (o : Nat) (null : Bool) : DTree := .mk ⟨o, 1, false, null, none, none, o⟩ []
def exT0 : DTree := .mk ⟨4, 1, true, false, none, some 0, 4⟩ [exLeaf 5 false, exLeaf 6 false, exLeaf 7 false, exLeaf 8 false, exLeaf 9 true]
def exT1 : DTree := .mk ⟨14, 1, true, false, none, none, 14⟩
  [exLeaf 15 false, exLeaf 16 false, exLeaf 17 false, exLeaf 18 false, exLeaf 19 false, exLeaf 20 false, exLeaf 21 true]
def exT (cu : Nat) : DTree := if cu = 0 then exT0 else exT1

theorem exFile_tree : TreeWF exFile [exCU0, exCU1] exT where
  tree := by
    intro c hc
    simp at hc
    rcases hc with rfl | rfl
    · refine ⟨10, 10, rfl, ?_, by decide, ?_⟩
      · simp [exT, exT0, exCU0, exLeaf, Lay, LayK, DTree.d]
      · intro x hx
        simp [exT, exT0, exCU0, exLeaf, ents, entsF] at hx
        rcases hx with rfl | rfl | rfl | rfl | rfl | rfl <;> rfl
    · refine ⟨22, 12, rfl, ?_, by decide, ?_⟩
      · simp [exT, exT1, exCU1, exLeaf, Lay, LayK, DTree.d]
      · intro x hx
        simp [exT, exT1, exCU1, exLeaf, ents, entsF] at hx
        rcases hx with rfl | rfl | rfl | rfl | rfl | rfl | rfl | rfl <;> rfl


def exOps : List Op := [.itNew (.dies 0), .itNext 0, .children 10 14, .seek 3, .itNext 0, .parent 0 7, .cuCont 21,
      .lp 0 true, .itNew (.children 0 4), .itNext 1]

theorem exOps_valid : ∀ o ∈ exOps, OpValidT exFile [exCU0, exCU1] exT o := by
    intro o ho
    simp [exOps] at ho
    rcases ho with rfl | rfl | rfl | rfl | rfl | rfl | rfl | rfl | rfl | rfl
    · exact ⟨_, ⟨exCU0, by simp, rfl⟩, rfl⟩
    · trivial
    · exact ⟨exCU1, by simp, rfl, (exT1, none), by simp [exT, exT1, ents], rfl⟩
    · trivial
    · trivial
    · exact ⟨exCU0, by simp, rfl, (exLeaf 7 false, some exT0.d), by simp [exT, exT0, exLeaf, ents, entsF, DTree.d], rfl⟩
    · show 21 < 22; decide
    · exact ⟨exCU0, by simp, rfl⟩
    · exact ⟨_, ⟨exCU0, by simp, rfl⟩, (exT0, none), by simp [exT, exT0, ents], rfl, rfl⟩
    · trivial

theorem exGhost : (ghost exOps)[1 % (ghost exOps).length]? = some (.children 0 4, 1) := by rfl

theorem exEnum : KindEnum [exCU0, exCU1] exT (.children 0 4) [5, 6, 7, 8] :=
  ⟨⟨exCU0, by simp, rfl⟩, (exT0, none), by simp [exT, exT0, ents], rfl, rfl⟩

/-- after a history with a partially consumed subtree generator, a children walk, a parent search that reaches the
    same entries from another side, a seek and a second (children) generator: parent and full iteration answer as on
    a fresh object, and the second generator, asked once before, now reports the second child -/
example :
    (step exFile (run exFile State.init exOps) (.parent 0 8)).1 = answer exFile (.parent 0 8) ∧
    (step exFile (run exFile State.init exOps) (.all (.dies 0))).1 = answer exFile (.all (.dies 0)) ∧
    (step exFile (run exFile State.init exOps) (.itNext 1)).1 = .ok (.nat 6) := by
  refine ⟨answers_independent_of_history exFile_wf exFile_tree exOps exOps_valid
      ⟨exCU0, by simp, rfl, (exLeaf 8 false, some exT0.d), by simp [exT, exT0, exLeaf, ents, entsF, DTree.d], rfl⟩ trivial,
    answers_independent_of_history exFile_wf exFile_tree exOps exOps_valid ⟨_, ⟨exCU0, by simp, rfl⟩, rfl⟩ trivial, ?_⟩
  obtain ⟨l, h1, h2⟩ := step_itNext_T exFile_wf exFile_tree (invT_run exFile_wf exFile_tree exOps exOps_valid) 1 exGhost
  rw [h2, kindEnum_unique exFile_wf exFile_tree h1 exEnum]
  rfl

end PyElf.Props.C10
