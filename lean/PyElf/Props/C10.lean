/-
  C10 — answers do not depend on query history or stream position.

  Property theorems only.  `F : File` is the pure (stateless) side of one opened file: the parse functions
  `_parse_CU_at_offset` and `DIE(cu, stream, offset)` enter as PARAMETERS that are pure in (file, offset) — for the
  code this is the content of the absolute `seek` before every parse, which the correspondence run checks
  (harness/props/c10.py runs the same op list through `step` and through the live object and compares every answer,
  the abstract cache state AND the position of the `.debug_info` stream after every operation).
  `FileWF F cs`: parse results carry the offset they were parsed at, the section is the units `cs` back to back
  (`Chain`, C13), nothing parses as a DIE below a unit's first DIE.  `OpValid`: unit offsets passed to lookups are
  unit starts (an invalid `get_CU_at` offset poisons the unit cache by design; out of scope as the design states).
  DIE offsets are NOT restricted.

  No struct bundle or generated table is used by this property, so there is no `TieC10`.
-/
import PyElf.Model.History
import PyElf.Proofs.History
import PyElf.Proofs.DwarfLookup
namespace PyElf.Props.C10
open PyElf PyElf.Model.Lookup PyElf.Model.C10 PyElf.Proofs.Lookup PyElf.Proofs.C10

/-! ### the invariant -/

/-- a freshly opened object satisfies the invariant -/
theorem inv_initial (F : File) (cs : List CU) : Inv F cs State.init := inv_init F cs

/-- EVERY public operation keeps it: unit lookups, DIE lookups, `iter_children` / `get_parent` (ancestor search),
    line-program retrieval, the name maps, creating a generator, resuming any suspended generator (`next`, partial
    consumption interleaved with anything else), abandoning generators, and adversarial `seek`s -/
theorem inv_step {F : File} {cs : List CU} (wf : FileWF F cs) {st : State} (hinv : Inv F cs st) {op : Op}
    (hv : OpValid F cs op) : Inv F cs (step F st op).2 := step_inv wf hinv hv

/-- hence it holds after every finite history -/
theorem inv_run {F : File} {cs : List CU} (wf : FileWF F cs) (ops : List Op) (hv : ∀ op ∈ ops, OpValid F cs op) :
    Inv F cs (run F State.init ops) := run_inv wf ops _ (inv_init F cs) hv

/-! ### refinement: the answer of a lookup is its stateless meaning -/

/-- `Inv s → (step s op).2 = answer file op`.
    PARTIAL: proved for the lookups `Lookup op` (get_CU_at, get_CU_containing, get_top_DIE, get_DIE_from_refaddr on
    a unit and on the DWARFInfo, line_program_for_CU, get_section_index / the section-name map,
    get_symbol_by_name / the symbol-name map, seek).  The full statement is the same without `Lookup op`; for the
    navigation answers (`children`, `parent`, `take` / `all` / `itNext` on generators) the invariant is proved to be
    KEPT (`inv_step`), but that their answers equal the fresh object's is established by correspondence and the
    exhaustive history exploration only (it additionally needs the DIE layout to be a tree: `_parent` is whichever
    ancestor walk reached the DIE last). -/
theorem answer_refines_partial {F : File} {cs : List CU} (wf : FileWF F cs) {st : State} (hinv : Inv F cs st) {op : Op}
    (hv : OpValid F cs op) (hl : Lookup op) : (step F st op).1 = answer F op :=
  step_answer_eq wf hinv (inv_init F cs) hv hl

/-- answers are independent of the history: after ANY finite sequence of valid operations — including child and
    subtree iteration, parent search, partially consumed generators and seeks — a lookup answers what it answers
    on a freshly opened object.  (PARTIAL in the same sense: `Lookup op`.) -/
theorem answers_independent_of_history_partial {F : File} {cs : List CU} (wf : FileWF F cs) (ops : List Op)
    (hops : ∀ o ∈ ops, OpValid F cs o) {op : Op} (hv : OpValid F cs op) (hl : Lookup op) :
    (step F (run F State.init ops) op).1 = answer F op :=
  answer_refines_partial wf (inv_run wf ops hops) hv hl

/-- … and of where the shared stream was left: repositioning the stream does not change the next answer -/
theorem answers_independent_of_stream_position_partial {F : File} {cs : List CU} (wf : FileWF F cs) {st : State}
    (hinv : Inv F cs st) (n : Nat) {op : Op} (hv : OpValid F cs op) (hl : Lookup op) :
    (step F (step F st (.seek n)).2 op).1 = (step F st op).1 :=
  step_answer_eq wf (step_inv wf hinv (op := .seek n) trivial) hinv hv hl

/-- repeated identical queries return equal results -/
theorem repeated_query_equal_partial {F : File} {cs : List CU} (wf : FileWF F cs) {st : State} (hinv : Inv F cs st)
    {op : Op} (hv : OpValid F cs op) (hl : Lookup op) : (step F (step F st op).2 op).1 = (step F st op).1 :=
  step_answer_eq wf (step_inv wf hinv hv) hinv hv hl

/-! ### closed forms: what the lookups answer -/

/-- `get_CU_at(o)` at a unit start: the unit starting there -/
theorem cu_at_exact {F : File} {cs : List CU} (wf : FileWF F cs) {st : State} (hinv : Inv F cs st) {c : CU} (hc : c ∈ cs) :
    (step F st (.cuAt c.cuOffset)).1 = .ok (.pair c.cuOffset c.cuDieOffset) := (step_cuAt wf hinv hc).1

/-- `get_CU_containing(x)`: the unit whose extent contains `x` -/
theorem cu_containing_exact {F : File} {cs : List CU} (wf : FileWF F cs) {st : State} (hinv : Inv F cs st) {x : Nat}
    (hx : x < F.size) :
    ∃ c sz, (step F st (.cuCont x)).1 = .ok (.pair c.cuOffset c.cuDieOffset) ∧ c ∈ cs ∧ c.size = .ok sz ∧
      c.cuOffset ≤ x ∧ x < c.cuOffset + sz := by
  obtain ⟨c, sz, h1, h2, h3, h4, h5, _⟩ := step_cuCont wf hinv hx
  exact ⟨c, sz, h1, h2, h3, h4, h5⟩

/-- `cu.get_DIE_from_refaddr(off)`: the pure parse at `off` (random access), in every cache state -/
theorem die_at_exact {F : File} {cs : List CU} (wf : FileWF F cs) {st : State} (hinv : Inv F cs st) {c : CU} (hc : c ∈ cs)
    {sz : Nat} (hsz : c.size = .ok sz) (off : Nat) :
    (step F st (.die c.cuOffset off)).1 = (pureRefaddr F c sz off).map (fun d => Ans.nat d.offset) :=
  (step_die wf hinv hc hsz off).1

/-- `get_top_DIE()` -/
theorem top_die_exact {F : File} {cs : List CU} (wf : FileWF F cs) {st : State} (hinv : Inv F cs st) {c : CU} (hc : c ∈ cs) :
    (step F st (.top c.cuOffset)).1 = (F.parseDIE c.cuOffset c.cuDieOffset).map (fun d => Ans.nat d.offset) :=
  (step_top wf hinv hc).1

/-- the section-name map (`dict` overwrite: the last index bearing a name), built lazily, never changes an answer -/
theorem section_index_exact {F : File} {cs : List CU} {st : State} (hinv : Inv F cs st) (name : String) :
    (step F st (.secIdx name)).1 = .ok (.opt (((buildSecMap F.secNames).find? (·.1 == name)).map (·.2))) :=
  (step_secIdx hinv name).1

/-! ### the per-unit DIE cache (`_diemap` / `_dielist`, bisect insertion) -/

/-- `_get_cached_DIE(o)`: for every cache state satisfying the unit invariant and every offset not below the first
    DIE, the answer is the pure parse at `o` (after the pure parse of the top DIE, which is forced first), and the
    invariant (parallel arrays, sorted offsets, every cached DIE is the pure parse at its offset, the first entry is
    the top DIE) is kept.  `bisect_right` is CPython's loop (`Model.Lookup.bisectLoop`, specification
    `Props.C13.bisect_right_sorted`). -/
theorem die_cache_exact {PD : Nat → R DIE} {dieOff : Nat} (hPo : ∀ o d, PD o = .ok d → d.offset = o) {u : UnitCache}
    (h : UCore PD dieOff u) {o : Nat} (hlow : dieOff ≤ o) :
    (getCachedDIE PD dieOff u o).1 = (PD dieOff >>= fun _ => PD o) ∧ UCore PD dieOff (getCachedDIE PD dieOff u o).2 :=
  getCachedDIE_spec hPo h hlow

theorem die_cache_initial (PD : Nat → R DIE) (dieOff pos : Nat) : UCore PD dieOff (UnitCache.empty pos) :=
  ucore_empty PD dieOff pos

/-- child iteration (every `next()` of a suspended `iter_DIE_children` generator, with the DW_AT_sibling shortcut,
    the `_terminator` reuse and the nested full iteration), subtree iteration and the ancestor search keep the unit
    invariant, for every fuel, iterator state and DIE -/
theorem navigation_keeps_die_cache {PD : Nat → R DIE} {dieOff : Nat} (hPo : ∀ o d, PD o = .ok d → d.offset = o)
    (hlowP : ∀ o d, PD o = .ok d → dieOff ≤ o) {u : UnitCache} (h : UCore PD dieOff u) (fuel : Nat) :
    (∀ it, UCore PD dieOff (childNext PD dieOff fuel it u).2.2) ∧
    (∀ it acc, UCore PD dieOff (drain PD dieOff fuel it u acc).2) ∧
    (∀ stack, UCore PD dieOff (subNext PD dieOff fuel stack u).2.2) ∧
    (∀ self, UCore PD dieOff (getParent PD dieOff fuel self u).2) :=
  ⟨fun it => childNext_core hPo hlowP fuel it h, fun it acc => drain_core hPo hlowP fuel it acc h,
   fun stack => subNext_core hPo hlowP fuel stack u h, fun self => getParent_core hPo hlowP fuel self h⟩

/-! ### non-vacuity: a concrete file -/

def exCU0 : CU := ⟨.record [("unit_length", .int 6)], 32, 0, 4⟩
def exCU1 : CU := ⟨.record [("unit_length", .int 8)], 32, 10, 14⟩

/-- two units ([0,10) with DIEs from 4, [10,22) with DIEs from 14); one-byte DIEs, the first of each unit has children -/
def exFile : File :=
  { size := 22
    parseCU := fun o => if o = 0 then .ok exCU0 else if o = 10 then .ok exCU1 else .error .elfParseError
    parseDIE := fun cu o =>
      if cu = 0 then (if 4 ≤ o ∧ o < 10 then .ok ⟨o, 1, o == 4, o == 9, none, if o = 4 then some 0 else none, o⟩ else .error .elfParseError)
      else if cu = 10 then (if 14 ≤ o ∧ o < 22 then .ok ⟨o, 1, o == 14, o == 21, none, none, o⟩ else .error .elfParseError)
      else .error .elfParseError
    secNames := ["", ".text", ".debug_info", ".text"]
    symNames := ["", "main", "foo", "main"] }

theorem exFile_wf : FileWF exFile [exCU0, exCU1] where
  cuOff := by
    intro o c h
    simp only [exFile] at h
    split at h
    · injection h with h; subst h; simp [exCU0, *]
    · split at h
      · injection h with h; subst h; simp [exCU1, *]
      · cases h
  chain := by
    refine ⟨by decide, rfl, 10, rfl, by decide, ?_⟩
    refine ⟨by decide, rfl, 12, rfl, by decide, ?_⟩
    rfl
  dieOff := by
    intro cu o d h
    simp only [exFile] at h
    split at h
    · split at h
      · injection h with h; subst h; rfl
      · cases h
    · split at h
      · split at h
        · injection h with h; subst h; rfl
        · cases h
      · cases h
  dieLow := by
    intro c hc o d h
    simp at hc
    rcases hc with rfl | rfl
    · show 4 ≤ o
      by_cases hb : 4 ≤ o
      · exact hb
      · simp [exFile, exCU0, hb] at h
    · show 14 ≤ o
      by_cases hb : 14 ≤ o
      · exact hb
      · simp [exFile, exCU1, hb] at h

/-- after a history with a partially consumed subtree generator, a children walk, a parent search and a seek, the
    lookup of a DIE by offset answers as on a fresh object -/
example :
    (step exFile (run exFile State.init [.itNew (.dies 0), .itNext 0, .children 10 14, .seek 3, .itNext 0, .parent 0 7,
        .cuCont 21, .lp 0 true]) (.die 0 6)).1 = answer exFile (.die 0 6) :=
  answers_independent_of_history_partial exFile_wf _
    (by intro o ho; simp at ho; rcases ho with rfl | rfl | rfl | rfl | rfl | rfl | rfl | rfl <;>
          first | trivial | exact ⟨exCU0, by simp, rfl⟩ | exact ⟨exCU1, by simp, rfl⟩ | (show 21 < 22; decide))
    ⟨exCU0, by simp, rfl⟩ trivial

end PyElf.Props.C10
