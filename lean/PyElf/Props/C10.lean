/-
  C10 — answers do not depend on query history or stream position.

  Property theorems only.  `F : File` is the pure (stateless) side of one opened file: the parse functions
  `_parse_CU_at_offset` and `DIE(cu, stream, offset)` enter as PARAMETERS that are pure in (file, offset) — for the
  code this is the content of the absolute `seek` before every parse, which the correspondence run checks
  (harness/props/c10.py runs the same op list through the model and through the live object and compares every answer,
  the abstract cache state AND the position of the `.debug_info` stream after every operation).
  `FileWF F cs`: parse results carry the offset they were parsed at, the section is the units `cs` back to back
  (`Chain`, C13), nothing parses as a DIE below a unit's first DIE.  `OpValid`: unit offsets passed to lookups are
  unit starts (an invalid `get_CU_at` offset poisons the unit cache by design; out of scope as the design states).
  DIE offsets are NOT restricted.

  What is proved (no `sorry`), by wave:
    1  `Inv` kept by every operation; lookups answer their stateless meaning (`answer_refines_partial` …);
    2/3 with the tree-shaped layout `TreeWF` as file hypothesis: `InvT`, `answer_refines` for navigation and for the
       generators, `suspended_generator_kth`, `random_access_eq_sequential`;
    4  `Query` now contains EVERY operation except creating / resuming a handle (those are `new_generator_handle` /
       `suspended_generator_kth`): reference following (`ref`, unit-relative and DW_FORM_ref_addr) and the pubnames
       lookup joined it; `iter_siblings` is a generator kind (`take` / `it_new` / `next`, partially consumed,
       interleaved); and the cache layer `Model/HistoryCaches.lean` (`xstep`) adds the abbreviation-table caches
       (`_abbrevtable_cache`, `CompileUnit._abbrev_table` — the DIE constructor of the base model is fed with the
       table the caches hold, and `die_parse_independent_of_abbrev_caches` shows the base machine runs on the
       stateless file in every reachable state), the `LineProgram` objects of `_linetable_cache` (header, decoded
       entries) and `CallFrameInfo` objects (`entries`, `_entry_cache` with forward CIE pointers, FDE → CIE
       sharing, retries after a parse that raised) with invariant `XInvT` and refinement `xanswer_refines`.
  Hypotheses that remain (each with a concrete witness below): `TreeWF` for navigation; a sibling GENERATOR is
  covered for entries that have an owner (for the top entry the generator raises at its first `next()`, which
  `step_siblings_T` proves for the list form in every state); `LPWF` (units sharing a line program share its structs;
  no DW_LNE_define_file — the known finding); `CfiWF` (a fresh parse of a CFI entry ends where its length field
  says) and the model's fuel suffices for the reference enumeration.
  Correspondence / exploration only: section, segment and symbol access by index and iteration, section data,
  aranges (no cache state of their own beyond the two name maps, which are proved); the stream positions of the
  sections other than `.debug_info` (every parse there starts with an absolute seek; after the fix for
  `_parse_entry_at` this includes the cache-hit path of CFI).

  No struct bundle or generated table is used by this property, so there is no `TieC10`.
-/
import PyElf.Model.History
import PyElf.Proofs.History
import PyElf.Proofs.HistoryState
import PyElf.Proofs.DwarfLookup
import PyElf.Model.HistoryCaches
import PyElf.Proofs.HistoryCfi
import PyElf.Proofs.HistoryCaches
import PyElf.Proofs.SigCache
namespace PyElf.Props.C10
open PyElf PyElf.Model.Lookup PyElf.Model.C10 PyElf.Proofs.Lookup PyElf.Proofs.C10

/-! ### the invariant -/

/-- a freshly opened object satisfies the invariant -/
theorem inv_initial (F : File) (cs : List CU) : Inv F cs State.init := inv_init F cs

/-- EVERY public operation keeps it: unit lookups, DIE lookups, `iter_children` / `get_parent` (ancestor search),
    line-program retrieval, the name maps, creating a generator, resuming any suspended generator (`next`, partial
    consumption interleaved with anything else), abandoning generators, and adversarial `seek`s -/
theorem inv_step {F : File} {cs : List CU} (wf : FileWF F cs) {st : State} (hinv : Inv F cs st) {op : Op}
    (hv : OpValid F cs op) : Inv F cs (step F st op).2 := step_inv wf hinv hv

/-- hence it holds after every finite history -/
theorem inv_run {F : File} {cs : List CU} (wf : FileWF F cs) (ops : List Op) (hv : ∀ op ∈ ops, OpValid F cs op) :
    Inv F cs (run F State.init ops) := run_inv wf ops _ (inv_init F cs) hv

/-! ### refinement: the answer of a lookup is its stateless meaning -/

/-- `Inv s → (step s op).2 = answer file op`.
    PARTIAL: proved for the lookups `Lookup op` (get_CU_at, get_CU_containing, get_top_DIE, get_DIE_from_refaddr on
    a unit and on the DWARFInfo, line_program_for_CU, get_section_index / the section-name map,
    get_symbol_by_name / the symbol-name map, seek).  The full statement is the same without `Lookup op`; for the
    navigation answers (`children`, `parent`, `take` / `all` / `itNext` on generators) the invariant is proved to be
    KEPT (`inv_step`), but that their answers equal the fresh object's is established by correspondence and the
    exhaustive history exploration only (it additionally needs the DIE layout to be a tree: `_parent` is whichever
    ancestor walk reached the DIE last). -/
theorem answer_refines_partial {F : File} {cs : List CU} (wf : FileWF F cs) {st : State} (hinv : Inv F cs st) {op : Op}
    (hv : OpValid F cs op) (hl : Lookup op) : (step F st op).1 = answer F op :=
  step_answer_eq wf hinv (inv_init F cs) hv hl

/-- answers are independent of the history: after ANY finite sequence of valid operations — including child and
    subtree iteration, parent search, partially consumed generators and seeks — a lookup answers what it answers
    on a freshly opened object.  (PARTIAL in the same sense: `Lookup op`.) -/
theorem answers_independent_of_history_partial {F : File} {cs : List CU} (wf : FileWF F cs) (ops : List Op)
    (hops : ∀ o ∈ ops, OpValid F cs o) {op : Op} (hv : OpValid F cs op) (hl : Lookup op) :
    (step F (run F State.init ops) op).1 = answer F op :=
  answer_refines_partial wf (inv_run wf ops hops) hv hl

/-- … and of where the shared stream was left: repositioning the stream does not change the next answer -/
theorem answers_independent_of_stream_position_partial {F : File} {cs : List CU} (wf : FileWF F cs) {st : State}
    (hinv : Inv F cs st) (n : Nat) {op : Op} (hv : OpValid F cs op) (hl : Lookup op) :
    (step F (step F st (.seek n)).2 op).1 = (step F st op).1 :=
  step_answer_eq wf (step_inv wf hinv (op := .seek n) trivial) hinv hv hl

/-- repeated identical queries return equal results -/
theorem repeated_query_equal_partial {F : File} {cs : List CU} (wf : FileWF F cs) {st : State} (hinv : Inv F cs st)
    {op : Op} (hv : OpValid F cs op) (hl : Lookup op) : (step F (step F st op).2 op).1 = (step F st op).1 :=
  step_answer_eq wf (step_inv wf hinv hv) hinv hv hl

/-! ### closed forms: what the lookups answer -/

/-- `get_CU_at(o)` at a unit start: the unit starting there -/
theorem cu_at_exact {F : File} {cs : List CU} (wf : FileWF F cs) {st : State} (hinv : Inv F cs st) {c : CU} (hc : c ∈ cs) :
    (step F st (.cuAt c.cuOffset)).1 = .ok (.pair c.cuOffset c.cuDieOffset) := (step_cuAt wf hinv hc).1

/-- `get_CU_containing(x)`: the unit whose extent contains `x` -/
theorem cu_containing_exact {F : File} {cs : List CU} (wf : FileWF F cs) {st : State} (hinv : Inv F cs st) {x : Nat}
    (hx : x < F.size) :
    ∃ c sz, (step F st (.cuCont x)).1 = .ok (.pair c.cuOffset c.cuDieOffset) ∧ c ∈ cs ∧ c.size = .ok sz ∧
      c.cuOffset ≤ x ∧ x < c.cuOffset + sz := by
  obtain ⟨c, sz, h1, h2, h3, h4, h5, _⟩ := step_cuCont wf hinv hx
  exact ⟨c, sz, h1, h2, h3, h4, h5⟩

/-- `cu.get_DIE_from_refaddr(off)`: the pure parse at `off` (random access), in every cache state -/
theorem die_at_exact {F : File} {cs : List CU} (wf : FileWF F cs) {st : State} (hinv : Inv F cs st) {c : CU} (hc : c ∈ cs)
    {sz : Nat} (hsz : c.size = .ok sz) (off : Nat) :
    (step F st (.die c.cuOffset off)).1 = (pureRefaddr F c sz off).map (fun d => Ans.nat d.offset) :=
  (step_die wf hinv hc hsz off).1

/-- `get_top_DIE()` -/
theorem top_die_exact {F : File} {cs : List CU} (wf : FileWF F cs) {st : State} (hinv : Inv F cs st) {c : CU} (hc : c ∈ cs) :
    (step F st (.top c.cuOffset)).1 = (F.parseDIE c.cuOffset c.cuDieOffset).map (fun d => Ans.nat d.offset) :=
  (step_top wf hinv hc).1

/-- the section-name map (`dict` overwrite: the last index bearing a name), built lazily, never changes an answer -/
theorem section_index_exact {F : File} {cs : List CU} {st : State} (hinv : Inv F cs st) (name : String) :
    (step F st (.secIdx name)).1 = .ok (.opt (((buildSecMap F.secNames).find? (·.1 == name)).map (·.2))) :=
  (step_secIdx hinv name).1

/-! ### the per-unit DIE cache (`_diemap` / `_dielist`, bisect insertion) -/

/-- `_get_cached_DIE(o)`: for every cache state satisfying the unit invariant and every offset not below the first
    DIE, the answer is the pure parse at `o` (after the pure parse of the top DIE, which is forced first), and the
    invariant (parallel arrays, sorted offsets, every cached DIE is the pure parse at its offset, the first entry is
    the top DIE) is kept.  `bisect_right` is CPython's loop (`Model.Lookup.bisectLoop`, specification
    `Props.C13.bisect_right_sorted`). -/
theorem die_cache_exact {PD : Nat → R DIE} {dieOff : Nat} (hPo : ∀ o d, PD o = .ok d → d.offset = o) {u : UnitCache}
    (h : UCore PD dieOff u) {o : Nat} (hlow : dieOff ≤ o) :
    (getCachedDIE PD dieOff u o).1 = (PD dieOff >>= fun _ => PD o) ∧ UCore PD dieOff (getCachedDIE PD dieOff u o).2 :=
  getCachedDIE_spec hPo h hlow

theorem die_cache_initial (PD : Nat → R DIE) (dieOff pos : Nat) : UCore PD dieOff (UnitCache.empty pos) :=
  ucore_empty PD dieOff pos

/-- child iteration (every `next()` of a suspended `iter_DIE_children` generator, with the DW_AT_sibling shortcut,
    the `_terminator` reuse and the nested full iteration), subtree iteration and the ancestor search keep the unit
    invariant, for every fuel, iterator state and DIE -/
theorem navigation_keeps_die_cache {PD : Nat → R DIE} {dieOff : Nat} (hPo : ∀ o d, PD o = .ok d → d.offset = o)
    (hlowP : ∀ o d, PD o = .ok d → dieOff ≤ o) {u : UnitCache} (h : UCore PD dieOff u) (fuel : Nat) :
    (∀ it, UCore PD dieOff (childNext PD dieOff fuel it u).2.2) ∧
    (∀ it acc, UCore PD dieOff (drain PD dieOff fuel it u acc).2) ∧
    (∀ stack, UCore PD dieOff (subNext PD dieOff fuel stack u).2.2) ∧
    (∀ self, UCore PD dieOff (getParent PD dieOff fuel self u).2) :=
  ⟨fun it => childNext_core hPo hlowP fuel it h, fun it acc => drain_core hPo hlowP fuel it acc h,
   fun stack => subNext_core hPo hlowP fuel stack u h, fun self => getParent_core hPo hlowP fuel self h⟩


/-! ### second wave: navigation answers, with the tree-shaped layout as a file hypothesis

  `TreeWF F cs T`: `T` assigns to every unit the tree of its entries (`DTree`: an entry and its sibling list, the
  null entry closing the list being its last element); the tree is laid out from the unit's first DIE offset
  (`Lay`: positive sizes tile the extent, a null entry owns nothing, an entry without children has no sibling list,
  DW_AT_sibling on an owner designates the end of its subtree — the shape of C04's `flatten` / `sibOk`), it ends
  inside the unit, and the parse at every entry's offset returns that entry (what C04's `iter_dies_flatten` assumes of
  the cache function; here `die_cache_exact` provides it in every invariant state).
  `OpValidT`: as `OpValid`, and the DIE offsets passed to `children` / `parent` / a children generator are offsets
  of entries (a navigation call on a garbage offset hangs `_parent` links of real entries on a garbage object).
  `InvT F cs T g st`: `Inv`, the `_parent` / `_terminator` links are the tree's, and the generator behind every
  handle `i` still has to produce the stateless enumeration of its kind from item `n` on, `(kind, n) = g[i]` being
  bookkeeping computed from the operation list alone (`ghost`). -/

theorem invT_initial (F : File) (cs : List CU) (T : Nat → DTree) : InvT F cs T [] State.init := invT_init F cs T

theorem invT_step {F : File} {cs : List CU} {T : Nat → DTree} (wf : FileWF F cs) (tw : TreeWF F cs T) {st : State}
    {g : Ghost} (hinv : InvT F cs T g st) {op : Op} (hv : OpValidT F cs T op) :
    InvT F cs T (ghostStep g op) (step F st op).2 := step_invT wf tw hinv hv

theorem invT_run {F : File} {cs : List CU} {T : Nat → DTree} (wf : FileWF F cs) (tw : TreeWF F cs T) (ops : List Op)
    (hv : ∀ op ∈ ops, OpValidT F cs T op) : InvT F cs T (ghost ops) (run F State.init ops) :=
  run_invT wf tw ops _ [] (invT_init F cs T) hv

/-- `Inv s → (step s op).1 = answer file op` for every query (`Query`: everything except creating / resuming a
    handle, whose answers are by nature relative to the handle — see `suspended_generator_kth`): the lookups AND
    `iter_children`, `get_parent`, `iter_siblings`, reference following (`get_DIE_from_attribute`, unit-relative
    and `DW_FORM_ref_addr`), the `.debug_pubnames` lookup with `get_DIE_from_lut_entry`, the first `n` items and
    the full list of the CU, DIE-subtree, children and sibling generators. -/
theorem answer_refines {F : File} {cs : List CU} {T : Nat → DTree} (wf : FileWF F cs) (tw : TreeWF F cs T) {st : State}
    {g : Ghost} (hinv : InvT F cs T g st) {op : Op} (hv : OpValidT F cs T op) (hq : Query op) :
    (step F st op).1 = answer F op :=
  step_answer_eqT wf tw hinv (invT_init F cs T) hv hq

/-- after ANY finite history of valid operations (navigation, generators created, partially consumed, abandoned,
    seeks), every query answers what it answers on a freshly opened object -/
theorem answers_independent_of_history {F : File} {cs : List CU} {T : Nat → DTree} (wf : FileWF F cs)
    (tw : TreeWF F cs T) (ops : List Op) (hops : ∀ o ∈ ops, OpValidT F cs T o) {op : Op} (hv : OpValidT F cs T op)
    (hq : Query op) : (step F (run F State.init ops) op).1 = answer F op :=
  answer_refines wf tw (invT_run wf tw ops hops) hv hq

theorem answers_independent_of_stream_position {F : File} {cs : List CU} {T : Nat → DTree} (wf : FileWF F cs)
    (tw : TreeWF F cs T) {st : State} {g : Ghost} (hinv : InvT F cs T g st) (n : Nat) {op : Op}
    (hv : OpValidT F cs T op) (hq : Query op) : (step F (step F st (.seek n)).2 op).1 = (step F st op).1 :=
  step_answer_eqT wf tw (step_invT wf tw hinv (op := .seek n) trivial) hinv hv hq

theorem repeated_query_equal {F : File} {cs : List CU} {T : Nat → DTree} (wf : FileWF F cs) (tw : TreeWF F cs T)
    {st : State} {g : Ghost} (hinv : InvT F cs T g st) {op : Op} (hv : OpValidT F cs T op) (hq : Query op) :
    (step F (step F st op).2 op).1 = (step F st op).1 :=
  step_answer_eqT wf tw (step_invT wf tw hinv hv) hinv hv hq

/-- `list(die.iter_children())`: the entry's children in the tree (the closing null entry is not reported) -/
theorem children_exact {F : File} {cs : List CU} {T : Nat → DTree} (wf : FileWF F cs) (tw : TreeWF F cs T) {st : State}
    {g : Ghost} (hinv : InvT F cs T g st) {c : CU} (hc : c ∈ cs) {x : DTree × Option DIE}
    (hx : x ∈ ents none (T c.cuOffset)) :
    (step F st (.children c.cuOffset x.1.d.offset)).1 = .ok (.list ((kidsOut x.1.kids).map (·.offset))) :=
  (step_children_T wf tw hinv hc hx).1

/-- `die.get_parent()`: the owner in the tree, `None` for the top entry — whichever walk set `_parent` last -/
theorem parent_exact {F : File} {cs : List CU} {T : Nat → DTree} (wf : FileWF F cs) (tw : TreeWF F cs T) {st : State}
    {g : Ghost} (hinv : InvT F cs T g st) {c : CU} (hc : c ∈ cs) {x : DTree × Option DIE}
    (hx : x ∈ ents none (T c.cuOffset)) :
    (step F st (.parent c.cuOffset x.1.d.offset)).1 = .ok (.opt (x.2.map (·.offset))) :=
  (step_parent_T wf tw hinv hc hx).1

/-- `list(cu.iter_DIEs())`: the pre-order flattening of the tree, null entries included -/
theorem iter_dies_exact {F : File} {cs : List CU} {T : Nat → DTree} (wf : FileWF F cs) (tw : TreeWF F cs T) {st : State}
    {g : Ghost} (hinv : InvT F cs T g st) {c : CU} (hc : c ∈ cs) :
    (step F st (.all (.dies c.cuOffset))).1 = .ok (.list ((flatT (T c.cuOffset)).map (·.offset))) :=
  (step_all_T wf tw hinv (k := .dies c.cuOffset) ⟨⟨c, hc, rfl⟩, rfl⟩).1

/-- `list(dwarfinfo.iter_CUs())`: the units of the section -/
theorem iter_cus_exact {F : File} {cs : List CU} {T : Nat → DTree} (wf : FileWF F cs) (tw : TreeWF F cs T) {st : State}
    {g : Ghost} (hinv : InvT F cs T g st) : (step F st (.all .cus)).1 = .ok (.list (cs.map (·.cuOffset))) :=
  (step_all_T wf tw hinv (k := .cus) rfl).1

/-- the first `n` items of a fresh generator are the first `n` of its full list -/
theorem take_exact {F : File} {cs : List CU} {T : Nat → DTree} (wf : FileWF F cs) (tw : TreeWF F cs T) {st : State}
    {g : Ghost} (hinv : InvT F cs T g st) {k : IterKind} {l : List Nat} (hk : KindEnum cs T k l) (n : Nat) :
    (step F st (.take k n)).1 = .ok (.list (l.take n)) ∧ (step F st (.all k)).1 = .ok (.list l) :=
  ⟨(step_take_T wf tw hinv hk n).1, (step_all_T wf tw hinv hk).1⟩

/-- PARTIALLY CONSUMED GENERATORS.  After any history `ops` of valid operations — creating further generators,
    resuming this or other generators, navigation, lookups, seeks, in any interleaving — `next()` on the handle
    that `ghost ops` records as created with kind `k` and asked `n` times so far reports the `n`-th item of the
    STATELESS enumeration of `k` (the answer `list(...)` gives on a freshly opened object), or exhaustion. -/
theorem suspended_generator_kth {F : File} {cs : List CU} {T : Nat → DTree} (wf : FileWF F cs) (tw : TreeWF F cs T)
    (ops : List Op) (hops : ∀ o ∈ ops, OpValidT F cs T o) (h : Nat) {k : IterKind} {n : Nat}
    (hg : (ghost ops)[h % (ghost ops).length]? = some (k, n)) :
    ∃ l, answer F (.all k) = .ok (.list l) ∧ (step F (run F State.init ops) (.itNext h)).1 = .ok (nthAns l n) := by
  obtain ⟨l, hk, h1⟩ := step_itNext_T wf tw (invT_run wf tw ops hops) h hg
  exact ⟨l, (step_all_T wf tw (invT_init F cs T) hk).1, h1⟩

/-- … and creating a generator answers the next free handle -/
theorem new_generator_handle {F : File} {cs : List CU} {T : Nat → DTree} (wf : FileWF F cs) (tw : TreeWF F cs T)
    (ops : List Op) (hops : ∀ o ∈ ops, OpValidT F cs T o) {k : IterKind} (hk : OpValidT F cs T (.itNew k)) :
    (step F (run F State.init ops) (.itNew k)).1 = .ok (.nat (ghost ops).length) := by
  obtain ⟨l, hl⟩ := hk
  exact step_itNew_T wf tw (invT_run wf tw ops hops) hl

/-- RANDOM ACCESS = SEQUENTIAL ACCESS.  The sequential enumeration of a unit (on a fresh object) is the pre-order
    flattening of its tree, and after ANY history `get_DIE_from_refaddr` at the offset of an element `d` of that
    enumeration returns exactly the record `d` (the model's `die` query reports its offset). -/
theorem random_access_eq_sequential {F : File} {cs : List CU} {T : Nat → DTree} (wf : FileWF F cs) (tw : TreeWF F cs T)
    (ops : List Op) (hops : ∀ o ∈ ops, OpValidT F cs T o) {c : CU} (hc : c ∈ cs) :
    answer F (.all (.dies c.cuOffset)) = .ok (.list ((flatT (T c.cuOffset)).map (·.offset))) ∧
    ∀ d ∈ flatT (T c.cuOffset),
      (dieAt F (run F State.init ops) c.cuOffset d.offset).1 = .ok (c, d) ∧
      (step F (run F State.init ops) (.die c.cuOffset d.offset)).1 = .ok (.nat d.offset) := by
  refine ⟨iter_dies_exact wf tw (invT_init F cs T) hc, ?_⟩
  intro d hd
  obtain ⟨x, hx, rfl⟩ := (mem_flatT none).mp hd
  obtain ⟨st', h1, _⟩ := dieAt_ok wf tw (invT_run wf tw ops hops) hc hx
  refine ⟨by rw [h1], ?_⟩
  simp only [step, h1]

/-- `list(die.iter_siblings())` / the sibling generator of an entry that has an owner: the other non-null entries
    of the owner's sibling list, in order (fourth wave: also as a generator kind for `take` / `it_new` / `next`,
    so `suspended_generator_kth` covers partially consumed sibling iteration interleaved with anything) -/
theorem iter_siblings_exact {F : File} {cs : List CU} {T : Nat → DTree} (wf : FileWF F cs) (tw : TreeWF F cs T) {st : State}
    {g : Ghost} (hinv : InvT F cs T g st) {c : CU} (hc : c ∈ cs) {x : DTree × Option DIE}
    (hx : x ∈ ents none (T c.cuOffset)) {n : DTree} {q : Option DIE} (hn : (n, q) ∈ ents none (T c.cuOffset))
    (hp : x.2 = some n.d) (k : Nat) :
    (step F st (.all (.siblings c.cuOffset x.1.d.offset))).1
        = .ok (.list ((sibFilter x.1.d.offset (kidsOut n.kids)).map (·.offset))) ∧
    (step F st (.take (.siblings c.cuOffset x.1.d.offset) k)).1
        = .ok (.list (((sibFilter x.1.d.offset (kidsOut n.kids)).map (·.offset)).take k)) ∧
    (step F st (.siblings c.cuOffset x.1.d.offset)).1 = (step F st (.all (.siblings c.cuOffset x.1.d.offset))).1 := by
  have hk : KindEnum cs T (.siblings c.cuOffset x.1.d.offset) ((sibFilter x.1.d.offset (kidsOut n.kids)).map (·.offset)) :=
    ⟨⟨c, hc, rfl⟩, x, hx, rfl, n, q, hn, hp, rfl⟩
  refine ⟨(step_all_T wf tw hinv hk).1, (step_take_T wf tw hinv hk k).1, ?_⟩
  rw [(step_all_T wf tw hinv hk).1]
  rcases (step_siblings_T wf tw hinv hc hx).1 with ⟨hp', _⟩ | ⟨n', q', hn', hp', _, h1⟩
  · rw [hp] at hp'; cases hp'
  · have hnn : (n, q) = (n', q') := tw_unique (treeWF_tw wf tw hc) hn hn' (by
      rw [hp] at hp'; injection hp' with hp'; rw [hp'])
    injection hnn with e1 _
    subst e1
    exact h1

/-- reference following, closed form of the `.debug_pubnames` path: the row of the table and the pure parse at
    the offsets it names (`get_DIE_from_lut_entry` = `get_CU_at(cu_ofs).get_DIE_from_refaddr(die_ofs)`) -/
theorem pubname_exact {F : File} {cs : List CU} (wf : FileWF F cs) {st : State} (hinv : Inv F cs st) {name : String}
    {tbl : List (String × Nat × Nat)} (hp : F.pubnames = some tbl) {c : CU} (hc : c ∈ cs) {sz : Nat}
    (hsz : c.size = .ok sz) {nm : String} {dieo : Nat} (hf : tbl.find? (·.1 == name) = some (nm, c.cuOffset, dieo)) :
    (step F st (.pubname name)).1 = (pureRefaddr F c sz dieo).map (fun d => Ans.list [c.cuOffset, dieo, d.offset]) :=
  step_pubname wf hinv hp hc hsz hf

/-- `get_DIE_from_attribute` and the pubnames lookup only need the cache invariant (no tree hypothesis): two
    states satisfying `Inv` answer alike -/
theorem ref_pubname_state_independent {F : File} {cs : List CU} (wf : FileWF F cs) {st st' : State} (hinv : Inv F cs st)
    (hinv' : Inv F cs st') :
    (∀ cu off name, OpValid F cs (.ref cu off name) → (step F st (.ref cu off name)).1 = (step F st' (.ref cu off name)).1) ∧
    (∀ name, OpValid F cs (.pubname name) → (step F st (.pubname name)).1 = (step F st' (.pubname name)).1) :=
  ⟨fun _ _ _ hv => step_ref_eq wf hinv hinv' hv, fun _ hv => step_pubname_eq wf hinv hinv' hv⟩

/-! ### non-vacuity: a concrete file -/

def exCU0 : CU := ⟨.record [("unit_length", .int 6)], 32, 0, 4⟩
def exCU1 : CU := ⟨.record [("unit_length", .int 8)], 32, 10, 14⟩

/-- two units ([0,10) with DIEs from 4, [10,22) with DIEs from 14); one-byte DIEs, the first of each unit has children -/
def exFile : File :=
  { size := 22
    parseCU := fun o => if o = 0 then .ok exCU0 else if o = 10 then .ok exCU1 else .error .elfParseError
    parseDIE := fun cu o =>
      if cu = 0 then (if 4 ≤ o ∧ o < 10 then .ok ⟨o, 1, o == 4, o == 9, none, if o = 4 then some 0 else none, o⟩ else .error .elfParseError)
      else if cu = 10 then (if 14 ≤ o ∧ o < 22 then .ok ⟨o, 1, o == 14, o == 21, none, none, o⟩ else .error .elfParseError)
      else .error .elfParseError
    secNames := ["", ".text", ".debug_info", ".text"]
    symNames := ["", "main", "foo", "main"] }

theorem exFile_wf : FileWF exFile [exCU0, exCU1] where
  cuOff := by
    intro o c h
    simp only [exFile] at h
    split at h
    · injection h with h; subst h; simp [exCU0, *]
    · split at h
      · injection h with h; subst h; simp [exCU1, *]
      · cases h
  chain := by
    refine ⟨by decide, rfl, 10, rfl, by decide, ?_⟩
    refine ⟨by decide, rfl, 12, rfl, by decide, ?_⟩
    rfl
  dieOff := by
    intro cu o d h
    simp only [exFile] at h
    split at h
    · split at h
      · injection h with h; subst h; rfl
      · cases h
    · split at h
      · split at h
        · injection h with h; subst h; rfl
        · cases h
      · cases h
  dieLow := by
    intro c hc o d h
    simp at hc
    rcases hc with rfl | rfl
    · show 4 ≤ o
      by_cases hb : 4 ≤ o
      · exact hb
      · simp [exFile, exCU0, hb] at h
    · show 14 ≤ o
      by_cases hb : 14 ≤ o
      · exact hb
      · simp [exFile, exCU1, hb] at h

/-- after a history with a partially consumed subtree generator, a children walk, a parent search and a seek, the
    lookup of a DIE by offset answers as on a fresh object -/
example :
    (step exFile (run exFile State.init [.itNew (.dies 0), .itNext 0, .children 10 14, .seek 3, .itNext 0, .parent 0 7,
        .cuCont 21, .lp 0 true]) (.die 0 6)).1 = answer exFile (.die 0 6) :=
  answers_independent_of_history_partial exFile_wf _
    (by intro o ho; simp at ho; rcases ho with rfl | rfl | rfl | rfl | rfl | rfl | rfl | rfl <;>
          first | trivial | exact ⟨exCU0, by simp, rfl⟩ | exact ⟨exCU1, by simp, rfl⟩ | (show 21 < 22; decide))
    ⟨exCU0, by simp, rfl⟩ trivial

/-- the trees of `exFile`: in each unit the first entry owns all the others, the last one is the null entry -/
def exLeaf (o : Nat) (null : Bool) : DTree := .mk ⟨o, 1, false, null, none, none, o⟩ []
def exT0 : DTree := .mk ⟨4, 1, true, false, none, some 0, 4⟩ [exLeaf 5 false, exLeaf 6 false, exLeaf 7 false, exLeaf 8 false, exLeaf 9 true]
def exT1 : DTree := .mk ⟨14, 1, true, false, none, none, 14⟩
  [exLeaf 15 false, exLeaf 16 false, exLeaf 17 false, exLeaf 18 false, exLeaf 19 false, exLeaf 20 false, exLeaf 21 true]
def exT (cu : Nat) : DTree := if cu = 0 then exT0 else exT1

theorem exFile_tree : TreeWF exFile [exCU0, exCU1] exT where
  tree := by
    intro c hc
    simp at hc
    rcases hc with rfl | rfl
    · refine ⟨10, 10, rfl, ?_, by decide, ?_⟩
      · simp [exT, exT0, exCU0, exLeaf, Lay, LayK, DTree.d]
      · intro x hx
        simp [exT, exT0, exCU0, exLeaf, ents, entsF] at hx
        rcases hx with rfl | rfl | rfl | rfl | rfl | rfl <;> rfl
    · refine ⟨22, 12, rfl, ?_, by decide, ?_⟩
      · simp [exT, exT1, exCU1, exLeaf, Lay, LayK, DTree.d]
      · intro x hx
        simp [exT, exT1, exCU1, exLeaf, ents, entsF] at hx
        rcases hx with rfl | rfl | rfl | rfl | rfl | rfl | rfl | rfl <;> rfl


def exOps : List Op := [.itNew (.dies 0), .itNext 0, .children 10 14, .seek 3, .itNext 0, .parent 0 7, .cuCont 21,
      .lp 0 true, .itNew (.children 0 4), .itNext 1]

theorem exOps_valid : ∀ o ∈ exOps, OpValidT exFile [exCU0, exCU1] exT o := by
    intro o ho
    simp [exOps] at ho
    rcases ho with rfl | rfl | rfl | rfl | rfl | rfl | rfl | rfl | rfl | rfl
    · exact ⟨_, ⟨exCU0, by simp, rfl⟩, rfl⟩
    · trivial
    · exact ⟨exCU1, by simp, rfl, (exT1, none), by simp [exT, exT1, ents], rfl⟩
    · trivial
    · trivial
    · exact ⟨exCU0, by simp, rfl, (exLeaf 7 false, some exT0.d), by simp [exT, exT0, exLeaf, ents, entsF, DTree.d], rfl⟩
    · show 21 < 22; decide
    · exact ⟨exCU0, by simp, rfl⟩
    · exact ⟨_, ⟨exCU0, by simp, rfl⟩, (exT0, none), by simp [exT, exT0, ents], rfl, rfl⟩
    · trivial

theorem exGhost : (ghost exOps)[1 % (ghost exOps).length]? = some (.children 0 4, 1) := by rfl

theorem exEnum : KindEnum [exCU0, exCU1] exT (.children 0 4) [5, 6, 7, 8] :=
  ⟨⟨exCU0, by simp, rfl⟩, (exT0, none), by simp [exT, exT0, ents], rfl, rfl⟩

/-- after a history with a partially consumed subtree generator, a children walk, a parent search that reaches the
    same entries from another side, a seek and a second (children) generator: parent and full iteration answer as on
    a fresh object, and the second generator, asked once before, now reports the second child -/
example :
    (step exFile (run exFile State.init exOps) (.parent 0 8)).1 = answer exFile (.parent 0 8) ∧
    (step exFile (run exFile State.init exOps) (.all (.dies 0))).1 = answer exFile (.all (.dies 0)) ∧
    (step exFile (run exFile State.init exOps) (.itNext 1)).1 = .ok (.nat 6) := by
  refine ⟨answers_independent_of_history exFile_wf exFile_tree exOps exOps_valid
      ⟨exCU0, by simp, rfl, (exLeaf 8 false, some exT0.d), by simp [exT, exT0, exLeaf, ents, entsF, DTree.d], rfl⟩ trivial,
    answers_independent_of_history exFile_wf exFile_tree exOps exOps_valid ⟨_, ⟨exCU0, by simp, rfl⟩, rfl⟩ trivial, ?_⟩
  obtain ⟨l, h1, h2⟩ := step_itNext_T exFile_wf exFile_tree (invT_run exFile_wf exFile_tree exOps exOps_valid) 1 exGhost
  rw [h2, kindEnum_unique exFile_wf exFile_tree h1 exEnum]
  rfl

/-- `exFile` with reference attributes (a unit-relative one, a `DW_FORM_ref_addr` into the other unit) and a
    `.debug_pubnames` table -/
def exFile2 : File :=
  { exFile with
    refAttr := fun cu o name =>
      if cu = 0 ∧ o = 5 ∧ name = "DW_AT_type" then some (false, 7)
      else if cu = 10 ∧ o = 15 ∧ name = "DW_AT_type" then some (true, 6) else none
    pubnames := some [("pn5", 0, 5), ("pn16", 10, 16)] }

theorem exFile2_wf : FileWF exFile2 [exCU0, exCU1] :=
  { cuOff := exFile_wf.cuOff, chain := exFile_wf.chain, dieOff := exFile_wf.dieOff, dieLow := exFile_wf.dieLow }

theorem exFile2_tree : TreeWF exFile2 [exCU0, exCU1] exT := { tree := exFile_tree.tree }

def exOps2 : List Op := [.itNew (.siblings 0 6), .itNext 0, .ref 10 15 "DW_AT_type", .seek 3, .children 0 4,
      .pubname "pn16", .itNext 0, .ref 0 5 "DW_AT_type", .itNew (.dies 10), .itNext 1]

theorem exOps2_valid : ∀ o ∈ exOps2, OpValidT exFile2 [exCU0, exCU1] exT o := by
    intro o ho
    simp [exOps2] at ho
    rcases ho with rfl | rfl | rfl | rfl | rfl | rfl | rfl | rfl | rfl | rfl
    · exact ⟨_, ⟨exCU0, by simp, rfl⟩, (exLeaf 6 false, some exT0.d), by simp [exT, exT0, exLeaf, ents, entsF, DTree.d], rfl,
        exT0, none, by simp [exT, exT0, ents], rfl, rfl⟩
    · trivial
    · refine ⟨⟨exCU1, by simp, rfl⟩, ?_⟩
      intro o raw h
      simp only [exFile2] at h
      split at h
      · cases h
      · split at h
        · injection h with h; injection h with _ h; subst h; show 6 < 22; decide
        · cases h
    · trivial
    · exact ⟨exCU0, by simp, rfl, (exT0, none), by simp [exT, exT0, ents], rfl⟩
    · intro tbl e hp hf
      simp only [exFile2] at hp
      injection hp with hp; subst hp
      simp [List.find?] at hf
      subst hf
      exact ⟨exCU1, by simp, rfl⟩
    · trivial
    · refine ⟨⟨exCU0, by simp, rfl⟩, ?_⟩
      intro o raw h
      simp only [exFile2] at h
      split at h
      · cases h
      · split at h
        · rename_i h1 h2; exact absurd h2.1 (by decide)
        · cases h
    · exact ⟨_, ⟨exCU1, by simp, rfl⟩, rfl⟩
    · trivial

theorem exGhost2 : (ghost exOps2)[0 % (ghost exOps2).length]? = some (.siblings 0 6, 2) := by rfl

theorem exEnum2 : KindEnum [exCU0, exCU1] exT (.siblings 0 6) [5, 7, 8] :=
  ⟨⟨exCU0, by simp, rfl⟩, (exLeaf 6 false, some exT0.d), by simp [exT, exT0, exLeaf, ents, entsF, DTree.d], rfl,
    exT0, none, by simp [exT, exT0, ents], rfl, rfl⟩

/-- after a history with a partially consumed SIBLING generator, reference following inside a unit and across units
    (`DW_FORM_ref_addr`), a pubnames lookup, a children walk, a seek and a second generator: reference following and
    the pubnames lookup answer as on a fresh object, and the sibling generator of the entry at 6, asked twice before
    (5, 7), now reports the third sibling -/
example :
    (step exFile2 (run exFile2 State.init exOps2) (.ref 10 15 "DW_AT_type")).1 = answer exFile2 (.ref 10 15 "DW_AT_type") ∧
    (step exFile2 (run exFile2 State.init exOps2) (.pubname "pn5")).1 = answer exFile2 (.pubname "pn5") ∧
    (step exFile2 (run exFile2 State.init exOps2) (.itNext 0)).1 = .ok (.nat 8) := by
  refine ⟨answers_independent_of_history exFile2_wf exFile2_tree exOps2 exOps2_valid (exOps2_valid _ (by simp [exOps2])) trivial,
    answers_independent_of_history exFile2_wf exFile2_tree exOps2 exOps2_valid ?_ trivial, ?_⟩
  · intro tbl e hp hf
    simp only [exFile2] at hp
    injection hp with hp; subst hp
    simp [List.find?] at hf
    subst hf
    exact ⟨exCU0, by simp, rfl⟩
  · obtain ⟨l, h1, h2⟩ := step_itNext_T exFile2_wf exFile2_tree (invT_run exFile2_wf exFile2_tree exOps2 exOps2_valid) 0 exGhost2
    rw [h2, kindEnum_unique exFile2_wf exFile2_tree h1 exEnum2]
    rfl

/-! ### fourth wave: the cache layer (abbreviation tables, line-program objects, CFI entries)

  `Model/HistoryCaches.lean`: `xstep X xs op` runs the base step on the `File` whose DIE constructor uses what
  `cu.get_abbrev_table()` returns IN STATE `xs` (`fileOf X xs`), and adds `_abbrevtable_cache` / `CompileUnit._abbrev_table`,
  `_linetable_cache` with the `LineProgram` objects (header as it reads now, `_decoded_entries`) and `CallFrameInfo`
  objects (`entries`, `_entry_cache`) as state, with operations on them.  `XWF X cs T`: `FileWF` and `TreeWF` of the
  stateless file `pureFile X`; `LPWF` (units sharing a line program share the structs it is parsed with; decoding
  does not change the header — this excludes exactly the known finding lineprogram-define-file-header); `CfiWF` (a
  fresh parse of a CFI entry ends where the entry's length field says) and the reference enumeration of each CFI
  section does not run out of the model's fuel.  `XInvT`: `InvT` of the base, every cached table / line program /
  CFI entry is the pure parse at its key. -/

theorem xinv_initial (X : XFile) (cs : List CU) (T : Nat → DTree) : XInvT X cs T [] XState.init := xinvT_init X cs T

theorem xinv_step {X : XFile} {cs : List CU} {T : Nat → DTree} (w : XWF X cs T) {xs : XState} {g : Ghost}
    (hinv : XInvT X cs T g xs) {op : XOp} (hv : XOpValid X cs T op) :
    XInvT X cs T (xghostStep g op) (xstep X xs op).2 := xstep_invT w hinv hv

theorem xinv_run {X : XFile} {cs : List CU} {T : Nat → DTree} (w : XWF X cs T) (ops : List XOp)
    (hv : ∀ op ∈ ops, XOpValid X cs T op) : XInvT X cs T (xghost ops) (xrun X XState.init ops) :=
  xrun_invT w ops _ [] (xinvT_init X cs T) hv

/-- THE ABBREVIATION CACHES NEVER CHANGE A DIE: in every state satisfying the invariant the `File` the base machine
    runs on (DIE constructor fed with what `cu.get_abbrev_table()` returns now — memo, shared cache entry or a new
    parse) is the stateless file.  This discharges, for the abbreviation tables, the assumption of the base model
    that `DIE(cu, stream, offset)` is pure in (file, offset). -/
theorem die_parse_independent_of_abbrev_caches {X : XFile} {cs : List CU} {T : Nat → DTree} {xs : XState} {g : Ghost}
    (hinv : XInvT X cs T g xs) : fileOf X xs = pureFile X := fileOf_eq hinv.ab

/-- `Inv s → (xstep s op).1 = xanswer file op` for every query of the layer: the base queries (`Query`),
    `get_abbrev_table` on a unit and on the DWARFInfo, `line_program_for_CU` with header and decoded entries,
    `CFI_entries()` / `EH_CFI_entries()` and `get_entries()` on a `CallFrameInfo` that is kept -/
theorem xanswer_refines {X : XFile} {cs : List CU} {T : Nat → DTree} (w : XWF X cs T) {xs : XState} {g : Ghost}
    (hinv : XInvT X cs T g xs) {op : XOp} (hv : XOpValid X cs T op) (hq : XQuery op) :
    (xstep X xs op).1 = xanswer X op :=
  xstep_answer_eq w hinv (xinvT_init X cs T) hv hq

theorem xanswers_independent_of_history {X : XFile} {cs : List CU} {T : Nat → DTree} (w : XWF X cs T) (ops : List XOp)
    (hops : ∀ o ∈ ops, XOpValid X cs T o) {op : XOp} (hv : XOpValid X cs T op) (hq : XQuery op) :
    (xstep X (xrun X XState.init ops) op).1 = xanswer X op :=
  xanswer_refines w (xinv_run w ops hops) hv hq

theorem xrepeated_query_equal {X : XFile} {cs : List CU} {T : Nat → DTree} (w : XWF X cs T) {xs : XState} {g : Ghost}
    (hinv : XInvT X cs T g xs) {op : XOp} (hv : XOpValid X cs T op) (hq : XQuery op) :
    (xstep X (xstep X xs op).2 op).1 = (xstep X xs op).1 :=
  xstep_answer_eq w (xstep_invT w hinv hv) hinv hv hq

/-- `cu.get_abbrev_table()` / `dwarfinfo.get_abbrev_table(off)`: the pure parse at the offset, in every state; hence
    two units with the same `debug_abbrev_offset` get the same table whichever asked first and whatever was cached -/
theorem abbrev_table_exact {X : XFile} {cs : List CU} {T : Nat → DTree} (w : XWF X cs T) {xs : XState} {g : Ghost}
    (hinv : XInvT X cs T g xs) :
    (∀ c ∈ cs, (xstep X xs (.abbrevCU c.cuOffset)).1 = (pureTable X c.cuOffset).map XAns.tbl) ∧
    (∀ off, (xstep X xs (.abbrevAt off)).1
        = (if off < X.abbrevSize then X.parseAbbrev off else .error .dwarfError).map XAns.tbl) :=
  ⟨fun _ hc => xstep_abbrevCU w hinv hc, fun off => xstep_abbrevAt hinv off⟩

theorem abbrev_table_shared {X : XFile} {cs : List CU} {T : Nat → DTree} (w : XWF X cs T) {xs xs' : XState} {g g' : Ghost}
    (hinv : XInvT X cs T g xs) (hinv' : XInvT X cs T g' xs') {c c' : CU} (hc : c ∈ cs) (hc' : c' ∈ cs)
    (h : X.abbrevOff c.cuOffset = X.abbrevOff c'.cuOffset) :
    (xstep X xs (.abbrevCU c.cuOffset)).1 = (xstep X xs' (.abbrevCU c'.cuOffset)).1 := by
  rw [xstep_abbrevCU w hinv hc, xstep_abbrevCU w hinv' hc']
  unfold pureTable
  rw [h]

/-- `line_program_for_CU`: offset, header and (on request) decoded entries are the fresh parse / decoding at the
    unit's `DW_AT_stmt_list`, whether the `LineProgram` object is new, cached by this or another unit, decoded or not -/
theorem line_program_exact {X : XFile} {cs : List CU} {T : Nat → DTree} (w : XWF X cs T) {xs : XState} {g : Ghost}
    (hinv : XInvT X cs T g xs) {c : CU} (hc : c ∈ cs) (decode : Bool) :
    (xstep X xs (.lp c.cuOffset decode)).1
        = (match topStmt X c with
            | .error e => .error e
            | .ok none => .ok .none
            | .ok (some o) => pureLP X (X.lpKey c.cuOffset) o decode) :=
  (xstep_lp w hinv hc decode).1

/-- THE CFI ENTRY CACHE.  `_parse_entry_at(off)` in ANY state of `_entry_cache` that holds reference entries —
    empty, partly filled by forward CIE pointers, or left behind by a `get_entries()` that raised — returns the
    cache-free reference entry (an FDE carries the reference entry at the offset its CIE pointer designates, so all
    FDEs designating one CIE share it), leaves the stream right behind the entry, and keeps the cache property. -/
theorem cfi_entry_cache_exact {X : XFile} {eh : Bool} (wf : CfiWF X eh) (f : Nat) (off : Int) (cache : CCache)
    (hc : CInv X eh cache) (hr : pureEnt X eh f off ≠ .error .outOfFuel) :
    (centAt X eh f off cache).1 = (pureEnt X eh f off).map (fun e => (e, off.toNat + e.len)) ∧
      CInv X eh (centAt X eh f off cache).2 :=
  centAt_spec wf f off cache _ hc rfl hr

/-- … and the ENTRY part needs no well-formedness at all: for arbitrary section contents, a cache hit returns what a
    miss would build (`CfiWF` only enters where the next entry is looked for) -/
theorem cfi_cache_hit_eq_miss {X : XFile} {eh : Bool} (f : Nat) (off : Int) (cache : CCache) (hc : CInv X eh cache)
    (hr : pureEnt X eh f off ≠ .error .outOfFuel) :
    (centAt X eh f off cache).1.map (·.1) = pureEnt X eh f off ∧ CInv X eh (centAt X eh f off cache).2 :=
  centAt_ent f off cache _ hc rfl hr

/-- `get_entries()` on a `CallFrameInfo` in every state (fresh, answered before, after attempts that raised), and
    `CFI_entries()` / `EH_CFI_entries()` (a new object per call): the reference list of the section -/
theorem cfi_entries_exact {X : XFile} {cs : List CU} {T : Nat → DTree} (w : XWF X cs T) {xs : XState} {g : Ghost}
    (hinv : XInvT X cs T g xs) (eh : Bool) :
    (xstep X xs (.cfi eh)).1 = (pureAll X eh).map XAns.cfi ∧ (xstep X xs (.cfiObj eh)).1 = (pureAll X eh).map XAns.cfi :=
  xstep_cfi w hinv eh

theorem cfi_object_exact {X : XFile} {eh : Bool} (wf : CfiWF X eh) (hfuel : pureAll X eh ≠ .error .outOfFuel) {o : CfiObj}
    (ho : CObjInv X eh o) : (cfiGetEntries X eh o).1 = pureAll X eh ∧ CObjInv X eh (cfiGetEntries X eh o).2 :=
  cfiGetEntries_spec wf hfuel ho

/-- FDE → CIE sharing: the CIE object of an FDE is the reference entry at the designated offset -/
theorem cfi_fde_cie_shared {X : XFile} {eh : Bool} {f : Nat} {off : Int} {s p : Nat} {c : CEnt}
    (h : pureEnt X eh f off = .ok (.fde off s p c)) :
    ∃ ptr f', X.cfiHead eh off = .ok (.fde ptr) ∧ pureEnt X eh f' ptr = .ok c :=
  pureEnt_fde_cie h

/-! ### non-vacuity of the cache layer -/

/-- `exFile2` with one abbreviation table shared by both units, a line program behind the first unit's top DIE, and
    a CFI section whose FDE (at 0) points FORWARD to its CIE (at 8), so that `_parse_entries` meets the CIE in the cache -/
def exX : XFile :=
  { skel := exFile2
    ctor := fun cu off tbl => match tbl with | .ok 7 => exFile2.parseDIE cu off | .ok _ => .error .assertion | .error e => .error e
    abbrevOff := fun _ => 0
    abbrevSize := 10
    parseAbbrev := fun o => if o = 0 then .ok 7 else .error .elfParseError
    lpKey := fun _ => 0
    lpParse := fun _ o => if o = 0 then .ok 100 else .error .elfParseError
    lpDecode := fun _ o => if o = 0 then .ok (200, 100) else .error .elfParseError
    cfiSize := fun _ => 20
    cfiHead := fun _ off => if off = 0 then .ok (.fde 8) else if off = 8 then .ok (.cie ⟨12, 20, 1⟩) else .error .elfParseError
    cfiFde := fun _ off _ _ => if off = 0 then .ok ⟨8, 8, 2⟩ else .error .elfParseError }

theorem exX_pure : pureFile exX = exFile2 := rfl

theorem exX_cfi (eh : Bool) : pureAll exX eh = .ok [.fde 0 8 2 (.cie 8 12 1), .cie 8 12 1] := by
  cases eh <;> rfl

theorem exX_wf : XWF exX [exCU0, exCU1] exT where
  file := exFile2_wf
  tree := exFile2_tree
  lp := {
    share := fun _ _ _ _ _ _ _ => rfl
    stable := by
      intro k o h e h' h1 h2
      simp only [exX] at h1 h2
      split at h1
      · simp only [*, if_true] at h2
        injection h1 with h1; injection h2 with h2; injection h2 with _ h2
        rw [← h1, ← h2]
      · cases h1 }
  cfi := fun eh => {
    zero := by
      intro off p h
      simp only [exX] at h
      split at h
      · cases h
      · split at h <;> cases h
    cie := by
      intro off raw h
      simp only [exX] at h
      split at h
      · cases h
      · split at h
        · rename_i h8
          injection h with h; injection h with h
          subst h h8; rfl
        · cases h
    fde := by
      intro off t1 t2 raw h
      simp only [exX] at h
      split at h
      · rename_i h0
        injection h with h
        subst h h0; rfl
      · cases h }
  cfiFuel := fun eh => by rw [exX_cfi]; simp

def exXOps : List XOp := [.cfiObj false, .base (.itNew (.siblings 0 6)), .abbrevAt 0, .lp 0 false, .base (.itNext 0),
  .base (.ref 10 15 "DW_AT_type"), .lp 0 true, .cfi true, .abbrevCU 10, .base (.seek 3), .base (.children 0 4)]

theorem exXOps_valid : ∀ o ∈ exXOps, XOpValid exX [exCU0, exCU1] exT o := by
  intro o ho
  simp [exXOps] at ho
  rcases ho with rfl | rfl | rfl | rfl | rfl | rfl | rfl | rfl | rfl | rfl | rfl
  · trivial
  · exact exOps2_valid (.itNew (.siblings 0 6)) (by simp [exOps2])
  · trivial
  · exact ⟨exCU0, by simp, rfl⟩
  · exact exOps2_valid (.itNext 0) (by simp [exOps2])
  · exact exOps2_valid (.ref 10 15 "DW_AT_type") (by simp [exOps2])
  · exact ⟨exCU0, by simp, rfl⟩
  · trivial
  · exact ⟨exCU1, by simp, rfl⟩
  · exact exOps2_valid (.seek 3) (by simp [exOps2])
  · exact exOps2_valid (.children 0 4) (by simp [exOps2])

/-- after a history that fills every cache (a kept `CallFrameInfo`, the shared abbreviation table through a DIE parse
    and through direct lookups, the line program first by its header and then decoded) interleaved with a partially
    consumed sibling generator, reference following, a seek and a children walk: the line program (header and entries),
    the other unit's abbreviation table, the kept CFI object and a DIE lookup answer as on a fresh object — with the
    values the pure side prescribes -/
example :
    (xstep exX (xrun exX XState.init exXOps) (.lp 0 true)).1 = xanswer exX (.lp 0 true) ∧
    (xstep exX (xrun exX XState.init exXOps) (.lp 0 true)).1 = .ok (.lp 0 100 (some 200)) ∧
    (xstep exX (xrun exX XState.init exXOps) (.abbrevCU 0)).1 = .ok (.tbl 7) ∧
    (xstep exX (xrun exX XState.init exXOps) (.cfiObj false)).1
      = .ok (.cfi [.fde 0 8 2 (.cie 8 12 1), .cie 8 12 1]) ∧
    (xstep exX (xrun exX XState.init exXOps) (.base (.die 10 16))).1 = xanswer exX (.base (.die 10 16)) := by
  have hinv := xinv_run exX_wf exXOps exXOps_valid
  refine ⟨xanswers_independent_of_history exX_wf exXOps exXOps_valid ⟨exCU0, by simp, rfl⟩ trivial, ?_, ?_, ?_,
    xanswers_independent_of_history exX_wf exXOps exXOps_valid (show OpValidT exFile2 [exCU0, exCU1] exT (.die 10 16) from ⟨exCU1, by simp, rfl⟩) trivial⟩
  · exact (line_program_exact exX_wf hinv (c := exCU0) (by simp) true).trans rfl
  · exact ((abbrev_table_exact exX_wf hinv).1 exCU0 (by simp)).trans rfl
  · rw [(cfi_entries_exact exX_wf hinv false).2, exX_cfi]; rfl

/-! ### caches built by ONE complete scan on first use (generic)

  `DWARFInfo._type_units_by_sig` (signature → type unit, behind `get_DIE_by_sig8` / `get_TU_by_sig8`) and
  `RelrRelocationTable._cached_relocations` (behind `num_relocations` / `get_relocation`) share one shape: `None` until a
  scan has COMPLETED, then the finished map; a scan that raises publishes nothing.  `Model/SigCache` is that machine,
  generic in the scan, the query type and the lookup (both pure in the file).  The instances, with the scans and lookups
  of the library and their ties, are Props/C04 `sig8_history_independent` and Props/C08 `relr_cache_history_independent`.
-/

/-- every reachable state of such a cache is `None` or the completed scan's map -/
theorem lazy_cache_inv {M Q A : Type} (scan : M × Option Err) (look : M → Q → R A) (qs : List Q) :
    Model.SigCache.Inv scan (Model.SigCache.run scan look Model.SigCache.St.init qs).2 :=
  (Proofs.SigCache.run_answers scan look qs _ (Proofs.SigCache.inv_init scan)).2

/-- after ANY history of queries — repeated, failing, absent keys — every answer is the freshly opened object's -/
theorem lazy_cache_answers_independent_of_history {M Q A : Type} (scan : M × Option Err) (look : M → Q → R A)
    (qs : List Q) :
    (Model.SigCache.run scan look Model.SigCache.St.init qs).1 = qs.map (Model.SigCache.stateless scan look) :=
  (Proofs.SigCache.run_answers scan look qs _ (Proofs.SigCache.inv_init scan)).1

/-- a failed scan leaves no trace: after a history in which every scan raised the state is still the initial one, so
    nothing half-built can ever be observed (the defect class of fix ccfe17f: half-built type-unit / name maps) -/
theorem lazy_cache_failed_scan_publishes_nothing {M Q A : Type} (scan : M × Option Err) (look : M → Q → R A) (e : Err)
    (he : scan.2 = some e) (qs : List Q) :
    (Model.SigCache.run scan look Model.SigCache.St.init qs).2.map.isSome = false := by
  rw [Proofs.SigCache.run_published, he]
  simp

/-- non-vacuity: a two-entry map, a history with a repeated key and an absent key -/
example : (Model.SigCache.run (([(1, 10), (2, 20)] : List (Int × Nat)), (none : Option Err))
      (fun m (q : Int) => match m.lookup q with | some v => (.ok v : R Nat) | none => .error .keyError)
      Model.SigCache.St.init [2, 7, 2]).1 = [.ok 20, .error .keyError, .ok 20] := by rfl

end PyElf.Props.C10
