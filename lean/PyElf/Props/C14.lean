/-
  C14 — note sections and segments yield every note exactly once; stab records likewise.

  Property theorems only.  `pre`/`post` are the arbitrary bytes of the file before and
  after the extent, `tail` the (< 12) bytes of alignment padding the extent may end with.
  The model (`PyElf.Model.Notes`) follows notes.py as repaired by the C14 fix
  (`while offset + nhdr_size <= end`); with the original `<` the first theorem is false:
  a final note consisting of a header only, ending exactly at the extent end, was dropped.
-/
import PyElf.Spec.Notes
import PyElf.Model.Env
import PyElf.Model.Notes
import PyElf.Proofs.Notes
import PyElf.Props.TieC14
namespace PyElf.Props.C14
open PyElf PyElf.Spec PyElf.Model PyElf.Proofs.Notes

/-! ### the note walk -/

/-- Iterating an extent that holds the encoded notes `ns` (any number, any owner and type, name and
    descriptor sizes of any residue mod 4, GNU / core descriptors of every grammar, either class and byte
    order, core file or not), optionally followed by fewer than 12 bytes, anywhere in a file, yields
    exactly the notes of `ns`, in order, each once, with owner, type name, raw descriptor, decoded
    descriptor, offset and padded size as the Spec prescribes. -/
theorem notes_roundtrip (env : Env) (he : EnvOK env) (c : ElfCfg) (hc : cfgWf c = true) (ns : List Note)
    (hwf : ∀ n ∈ ns, n.wf c = true) (pre tail post : Bytes) (htail : tail.length < 12) :
    iterNotes (Spec.elfStructs c) env c.cls (pre ++ (encodeNotes c ns ++ tail) ++ post) pre.length
        ((encodeNotes c ns).length + tail.length) = .ok (obsNotes c pre.length ns) :=
  iterNotes_ok he c hc ns hwf pre tail post htail

/-- the same with the enum environment regenerated from the library's tables -/
theorem notes_roundtrip_generated_env (c : ElfCfg) (hc : cfgWf c = true) (ns : List Note)
    (hwf : ∀ n ∈ ns, n.wf c = true) (pre tail post : Bytes) (htail : tail.length < 12) :
    iterNotes (Spec.elfStructs c) Model.elfEnv c.cls (pre ++ (encodeNotes c ns ++ tail) ++ post) pre.length
        ((encodeNotes c ns).length + tail.length) = .ok (obsNotes c pre.length ns) :=
  iterNotes_ok TieC14.elfEnv_ok c hc ns hwf pre tail post htail

/-- closed over the tie: for every configuration, with the bundle and the tables regenerated from the
    library's source on this run -/
theorem notes_roundtrip_generated (c : ElfCfg) (S : ElfStructs) (hS : (c, S) ∈ Gen.elfBundles) (hc : cfgWf c = true)
    (ns : List Note) (hwf : ∀ n ∈ ns, n.wf c = true) (pre tail post : Bytes) (htail : tail.length < 12) :
    iterNotes S Model.elfEnv c.cls (pre ++ (encodeNotes c ns ++ tail) ++ post) pre.length
        ((encodeNotes c ns).length + tail.length) = .ok (obsNotes c pre.length ns) := by
  rw [iterNotes_congr (TieC14.field_of_tie (·.Elf_Nhdr) TieC14.elf_Elf_Nhdr hS)
    (TieC14.field_of_tie (·.Elf_abi) TieC14.elf_Elf_abi hS) (TieC14.field_of_tie (·.Elf_Prop) TieC14.elf_Elf_Prop hS)
    (TieC14.field_of_tie (·.Elf_Prpsinfo) TieC14.elf_Elf_Prpsinfo hS)
    (TieC14.field_of_tie (·.Elf_Nt_File) TieC14.elf_Elf_Nt_File hS)]
  exact iterNotes_ok TieC14.elfEnv_ok c hc ns hwf pre tail post htail

/-- the class of inputs the unrepaired code got wrong: a last note that is only a header (no name, empty
    descriptor; a type that does not call for a structured descriptor) and ends exactly at the end of the
    extent is yielded like any other -/
theorem final_header_only_note_yielded (env : Env) (he : EnvOK env) (c : ElfCfg) (hc : cfgWf c = true) (ns : List Note)
    (hwf : ∀ n ∈ ns, n.wf c = true) (t : Nat) (ht : t < 2 ^ 32) (hk : descKind c.core none t = .raw) (pre post : Bytes) :
    iterNotes (Spec.elfStructs c) env c.cls (pre ++ (encodeNotes c (ns ++ [⟨none, t, .raw []⟩]) ++ []) ++ post) pre.length
        ((encodeNotes c (ns ++ [⟨none, t, .raw []⟩])).length + 0)
      = .ok (obsNotes c pre.length (ns ++ [⟨none, t, .raw []⟩])) := by
  refine iterNotes_ok he c hc _ ?_ pre [] post (by decide)
  intro n hn
  rcases List.mem_append.mp hn with h | h
  · exact hwf n h
  · simp only [List.mem_singleton] at h
    subst h
    simp [Note.wf, ownerWf, nameField, encDesc, Desc.wf, Desc.kind, ht, hk]

/-- one loop iteration: the note at `off` and the offset of the next one -/
theorem note_at (env : Env) (he : EnvOK env) (c : ElfCfg) (hc : cfgWf c = true) (n : Note) (hn : n.wf c = true)
    (data : Bytes) (off : Nat) (rest : Bytes) (hd : data.drop off = encNote c n ++ rest) :
    noteAt (Spec.elfStructs c) env c.cls data 12 off = .ok (obsNote c off n, off + (encNote c n).length) :=
  noteAt_ok he c hc n hn hd

/-- `n_size`: header plus name and descriptor, each padded to 4 bytes -/
theorem note_size (c : ElfCfg) (n : Note) :
    (encNote c n).length = 12 + ((nameField n.owner).length + pad4 (nameField n.owner).length)
      + ((encDesc c n.desc).length + pad4 (encDesc c n.desc).length) :=
  encNote_length c n

/-- the library's `roundup(n, 2)` (regenerated from utils.py) is the 4-byte padding of the standard,
    for every `n` including 0 -/
theorem roundup_is_pad4 (n : Nat) : Model.roundup n 2 = n + pad4 n := roundup2 n

theorem pad4_lt (n : Nat) : pad4 n < 4 ∧ (n + pad4 n) % 4 = 0 := by
  unfold pad4 padTo; omega

/-- the yielded sizes tile the extent: nothing is skipped, nothing is read twice -/
theorem sizes_tile_extent (c : ElfCfg) (ns : List Note) :
    (ns.map fun n => (encNote c n).length).sum = (encodeNotes c ns).length := by
  induction ns with
  | nil => simp [encodeNotes]
  | cons n ns ih => rw [encodeNotes_cons, List.length_append, ← ih]; simp

/-! ### section view and segment view -/

/-- both front ends are the same function of (offset, size) -/
theorem section_view_eq_segment_view (S : ElfStructs) (env : Env) (cls : Nat) (data : Bytes) (shdr phdr : Val)
    (ho : shdr.getNat "sh_offset" = phdr.getNat "p_offset") (hs : shdr.getNat "sh_size" = phdr.getNat "p_filesz") :
    noteSectionIterNotes S env cls data shdr = noteSegmentIterNotes S env cls data phdr := by
  unfold noteSectionIterNotes noteSegmentIterNotes
  rw [ho, hs]

theorem section_roundtrip (env : Env) (he : EnvOK env) (c : ElfCfg) (hc : cfgWf c = true) (ns : List Note)
    (hwf : ∀ n ∈ ns, n.wf c = true) (pre tail post : Bytes) (htail : tail.length < 12) (shdr : Val)
    (ho : shdr.getNat "sh_offset" = .ok pre.length)
    (hs : shdr.getNat "sh_size" = .ok ((encodeNotes c ns).length + tail.length)) :
    noteSectionIterNotes (Spec.elfStructs c) env c.cls (pre ++ (encodeNotes c ns ++ tail) ++ post) shdr
      = .ok (obsNotes c pre.length ns) := by
  unfold noteSectionIterNotes
  rw [ho, hs]
  exact iterNotes_ok he c hc ns hwf pre tail post htail

theorem segment_roundtrip (env : Env) (he : EnvOK env) (c : ElfCfg) (hc : cfgWf c = true) (ns : List Note)
    (hwf : ∀ n ∈ ns, n.wf c = true) (pre tail post : Bytes) (htail : tail.length < 12) (phdr : Val)
    (ho : phdr.getNat "p_offset" = .ok pre.length)
    (hs : phdr.getNat "p_filesz" = .ok ((encodeNotes c ns).length + tail.length)) :
    noteSegmentIterNotes (Spec.elfStructs c) env c.cls (pre ++ (encodeNotes c ns ++ tail) ++ post) phdr
      = .ok (obsNotes c pre.length ns) := by
  unfold noteSegmentIterNotes
  rw [ho, hs]
  exact iterNotes_ok he c hc ns hwf pre tail post htail

/-! ### descriptors -/

/-- the `if/elif` chain on the decoded type name and owner selects the grammar the Spec assigns to the
    numeric type, the owner bytes and the file kind (the two type tables differ) -/
theorem descriptor_dispatch (core : Bool) (owner : Option Bytes) (type : Nat) :
    modelKind (enumVal (typeTable core) type) (obsOwner owner) = descKind core owner type :=
  modelKind_spec core owner type

/-- every descriptor is decoded to its encoded fields (all seven grammars) -/
theorem descriptor_decoded (env : Env) (he : EnvOK env) (c : ElfCfg) (hc : cfgWf c = true) (n : Note) (hn : n.wf c = true)
    (data : Bytes) (off : Nat) (rest : Bytes) (hd : data.drop off = encDesc c n.desc ++ rest) :
    decodeDesc (Spec.elfStructs c) env c.cls data (enumVal (typeTable c.core) n.type) (obsOwner n.owner)
        (encDesc c n.desc) (encDesc c n.desc).length off = .ok (obsDesc c n.desc) :=
  decodeDesc_ok he c hc n hn hd

theorem abi_tag_roundtrip (env : Env) (he : EnvOK env) (c : ElfCfg) (os ma mi ti : Nat)
    (h : (Desc.abiTag os ma mi ti).wf c = true) (data : Bytes) (off : Nat) (rest : Bytes)
    (hd : data.drop off = encDesc c (.abiTag os ma mi ti) ++ rest) :
    structParse env (Spec.elfStructs c).Elf_abi data off
      = .ok (obsDesc c (.abiTag os ma mi ti), off + (encDesc c (.abiTag os ma mi ti)).length) :=
  abi_ok he c h hd

theorem prpsinfo_roundtrip (env : Env) (c : ElfCfg) (hc : cfgWf c = true) (p : Prpsinfo)
    (h : (Desc.prpsinfo p).wf c = true) (data : Bytes) (off : Nat) (rest : Bytes)
    (hd : data.drop off = encDesc c (.prpsinfo p) ++ rest) :
    structParse env (Spec.elfStructs c).Elf_Prpsinfo data off
      = .ok (obsDesc c (.prpsinfo p), off + (encDesc c (.prpsinfo p)).length) :=
  prps_ok c (cfg_cls hc) h hd

theorem nt_file_roundtrip (env : Env) (c : ElfCfg) (hc : cfgWf c = true) (ps : Nat) (maps : List FileMap)
    (h : (Desc.ntFile ps maps).wf c = true) (data : Bytes) (off : Nat) (rest : Bytes)
    (hd : data.drop off = encDesc c (.ntFile ps maps) ++ rest) :
    structParse env (Spec.elfStructs c).Elf_Nt_File data off
      = .ok (obsDesc c (.ntFile ps maps), off + (encDesc c (.ntFile ps maps)).length) :=
  ntfile_ok c (cfg_cls hc) h hd

/-- one program property: type name, size, and the payload as a word (feature words, native-size stack
    size) or raw bytes, consuming the payload and its class-dependent padding -/
theorem property_roundtrip (env : Env) (he : EnvOK env) (c : ElfCfg) (hc : cfgWf c = true) (p : GnuProp)
    (hp : p.wf = true) (data : Bytes) (off : Nat) (rest : Bytes) (hd : data.drop off = encProp c p ++ rest) :
    structParse env (Spec.elfStructs c).Elf_Prop data off = .ok (obsProp c p, off + (encProp c p).length) :=
  prop_parse he c (cfg_cls hc) p hp hd

/-- a property list of any length: each property once, in order, stopping exactly at `n_descsz` -/
theorem property_list_roundtrip (env : Env) (he : EnvOK env) (c : ElfCfg) (hc : cfgWf c = true) (ps : List GnuProp)
    (h : (Desc.props ps).wf c = true) (data : Bytes) (off : Nat) (rest : Bytes)
    (hd : data.drop off = encDesc c (.props ps) ++ rest) :
    gnuPropLoop (Spec.elfStructs c) env c.cls data (off + (encDesc c (.props ps)).length)
        ((encDesc c (.props ps)).length + 1) off [] = .ok (ps.map (obsProp c)) :=
  props_ok he c (cfg_cls hc) h hd

/-! ### stabs -/

/-- a `.stab` section of `k` encoded records yields exactly those records with their offsets -/
theorem stabs_exact (env : Env) (c : ElfCfg) (ss : List Stab) (hwf : ∀ s ∈ ss, s.wf = true) (pre post : Bytes)
    (shdr : Val) (ho : shdr.getNat "sh_offset" = .ok pre.length)
    (hs : shdr.getNat "sh_size" = .ok (encodeStabs c.le ss).length) :
    iterStabs (Spec.elfStructs c) env (pre ++ encodeStabs c.le ss ++ post) shdr = .ok (obsStabs pre.length ss) :=
  iterStabs_ok c ss hwf pre post shdr ho hs

theorem stabs_exact_generated (c : ElfCfg) (S : ElfStructs) (hS : (c, S) ∈ Gen.elfBundles) (ss : List Stab)
    (hwf : ∀ s ∈ ss, s.wf = true) (pre post : Bytes) (shdr : Val) (ho : shdr.getNat "sh_offset" = .ok pre.length)
    (hs : shdr.getNat "sh_size" = .ok (encodeStabs c.le ss).length) :
    iterStabs S Model.elfEnv (pre ++ encodeStabs c.le ss ++ post) shdr = .ok (obsStabs pre.length ss) := by
  rw [iterStabs_congr (TieC14.field_of_tie (·.Elf_Stabs) TieC14.elf_Elf_Stabs hS)]
  exact iterStabs_ok c ss hwf pre post shdr ho hs

/-! ### non-vacuity: concrete well-formed objects of every grammar -/

def cfg64 : ElfCfg := ⟨true, 64, "EM_X86_64", false, false⟩
def core32 : ElfCfg := ⟨false, 32, "EM_SPARC", false, true⟩

example : cfgWf cfg64 = true ∧ cfgWf core32 = true := by decide
/-- both are configurations the translator enumerated, so `notes_roundtrip_generated` applies to them -/
example : (Gen.elfBundles.map (·.1)).contains cfg64 = true ∧ (Gen.elfBundles.map (·.1)).contains core32 = true := by
  decide +kernel
example : Note.wf cfg64 ⟨some gnuOwner, 3, .buildId [1, 2, 3, 4, 5]⟩ = true := by decide
example : Note.wf cfg64 ⟨some gnuOwner, 1, .abiTag 0 3 2 0⟩ = true := by decide
example : Note.wf cfg64 ⟨some gnuOwner, 4, .goldVersion [0x67, 0x6f, 0x6c, 0x64]⟩ = true := by decide
example : Note.wf cfg64 ⟨some gnuOwner, 5, .props [⟨0xc0000002, [3, 0, 0, 0]⟩, ⟨1, [0, 0, 0x10, 0, 0, 0, 0, 0]⟩, ⟨2, []⟩, ⟨7, [1, 2, 3]⟩]⟩ = true := by decide
example : Note.wf cfg64 ⟨none, 0x1234, .raw []⟩ = true := by decide
example : Note.wf cfg64 ⟨some [0x58], 7, .raw [1, 2, 3, 4, 5, 6, 7]⟩ = true := by decide
example : Note.wf core32 ⟨some [0x43, 0x4f, 0x52, 0x45], 0x46494c45, .ntFile 4096 [⟨0x1000, 0x2000, 0, [0x2f, 0x61]⟩, ⟨0x3000, 0x4000, 1, []⟩]⟩ = true := by decide
example : Note.wf core32 ⟨some [0x43, 0x4f, 0x52, 0x45], 3,
    .prpsinfo ⟨0, 0x52, 0, 0, 0x400, 1000, 1000, 1, 0, 1, 1, List.replicate 16 0x61, List.replicate 80 0⟩⟩ = true := by decide +kernel
example : Stab.wf ⟨1, 0x64, 0, 2, 0x8048000⟩ = true := by decide
/-- the 32-byte witness of the repaired defect: a 20-byte note followed by a header-only one -/
example : (encodeNotes cfg64 [⟨some [0x41, 0x42, 0x43], 99, .raw [1, 2, 3, 4]⟩, ⟨none, 7, .raw []⟩]).length = 32 := by decide

end PyElf.Props.C14
