/-
  C14 — note sections and segments yield every note exactly once; stab records likewise.

  Property theorems only.  `pre`/`post` are the arbitrary bytes of the file before and
  after the extent, `tail` the (< 12) bytes of alignment padding the extent may end with.
  The model (`PyElf.Model.Notes`) follows notes.py as repaired by the C14 fix
  (`while offset + nhdr_size <= end`); with the original `<` the first theorem is false:
  a final note consisting of a header only, ending exactly at the extent end, was dropped.

  Fourth wave (second half of the file):
  * whole files — `file_section_notes_exact`, `file_segment_notes_exact`,
    `file_segment_notes_over_sections`, `file_section_view_eq_segment_view` and their `_generated`
    forms: for every C01-well-formed ELF description with an SHT_NOTE section / PT_NOTE program header
    over encoded notes and ANY byte string carrying it, `ELFFile(BytesIO(bytes)).get_section(i)
    .iter_notes()` / `.get_segment(j).iter_notes()` (Model/NotesFile.lean = C01's mirror of elffile.py
    + the notes mirror) yield exactly the notes; the `_generated` forms are about the very function the
    driver runs (regenerated tables, struct factory and machine classification: Props/TieC14File.lean).
  * edge of the domain — `final_note_without_padding`, `last_note_past_extent_end` (name / descriptor /
    padding past the extent end: yielded in full, clean stop), `truncated_header_error` (ELFParseError),
    `unterminated_name_error` (construct error), `descriptor_cut_by_end_of_file` (short `n_descdata`),
    `notes_roundtrip_at` (truncated header INSIDE the extent: clean stop).
  Correspondence-only: everything outside these domains (descriptors of a known type that do not have the
  type's grammar, name fields with bytes after the terminator, extents running on after a cut note, files
  C01 does not call well-formed, objects without `iter_notes`), and the tie of the hand-written
  mirrors to the Python text.
-/
import PyElf.Spec.Notes
import PyElf.Model.Env
import PyElf.Model.Notes
import PyElf.Proofs.Notes
import PyElf.Proofs.NotesEdge
import PyElf.Proofs.NotesFile
import PyElf.Props.TieC14
import PyElf.Props.TieC14File
import PyElf.Props.C01
namespace PyElf.Props.C14
open PyElf PyElf.Spec PyElf.Model PyElf.Proofs.Notes

/-! ### the note walk -/

/-- Iterating an extent that holds the encoded notes `ns` (any number, any owner and type, name and
    descriptor sizes of any residue mod 4, GNU / core descriptors of every grammar, either class and byte
    order, core file or not), optionally followed by fewer than 12 bytes, anywhere in a file, yields
    exactly the notes of `ns`, in order, each once, with owner, type name, raw descriptor, decoded
    descriptor, offset and padded size as the Spec prescribes. -/
theorem notes_roundtrip (env : Env) (he : EnvOK env) (c : ElfCfg) (hc : cfgWf c = true) (ns : List Note)
    (hwf : ∀ n ∈ ns, n.wf c = true) (pre tail post : Bytes) (htail : tail.length < 12) :
    iterNotes (Spec.elfStructs c) env c.cls (pre ++ (encodeNotes c ns ++ tail) ++ post) pre.length
        ((encodeNotes c ns).length + tail.length) = .ok (obsNotes c pre.length ns) :=
  iterNotes_ok he c hc ns hwf pre tail post htail

/-- the same with the enum environment regenerated from the library's tables -/
theorem notes_roundtrip_generated_env (c : ElfCfg) (hc : cfgWf c = true) (ns : List Note)
    (hwf : ∀ n ∈ ns, n.wf c = true) (pre tail post : Bytes) (htail : tail.length < 12) :
    iterNotes (Spec.elfStructs c) Model.elfEnv c.cls (pre ++ (encodeNotes c ns ++ tail) ++ post) pre.length
        ((encodeNotes c ns).length + tail.length) = .ok (obsNotes c pre.length ns) :=
  iterNotes_ok TieC14.elfEnv_ok c hc ns hwf pre tail post htail

/-- closed over the tie: for every configuration, with the bundle and the tables regenerated from the
    library's source on this run -/
theorem notes_roundtrip_generated (c : ElfCfg) (S : ElfStructs) (hS : (c, S) ∈ Gen.elfBundles) (hc : cfgWf c = true)
    (ns : List Note) (hwf : ∀ n ∈ ns, n.wf c = true) (pre tail post : Bytes) (htail : tail.length < 12) :
    iterNotes S Model.elfEnv c.cls (pre ++ (encodeNotes c ns ++ tail) ++ post) pre.length
        ((encodeNotes c ns).length + tail.length) = .ok (obsNotes c pre.length ns) := by
  rw [iterNotes_congr (TieC14.field_of_tie (·.Elf_Nhdr) TieC14.elf_Elf_Nhdr hS)
    (TieC14.field_of_tie (·.Elf_abi) TieC14.elf_Elf_abi hS) (TieC14.field_of_tie (·.Elf_Prop) TieC14.elf_Elf_Prop hS)
    (TieC14.field_of_tie (·.Elf_Prpsinfo) TieC14.elf_Elf_Prpsinfo hS)
    (TieC14.field_of_tie (·.Elf_Nt_File) TieC14.elf_Elf_Nt_File hS)]
  exact iterNotes_ok TieC14.elfEnv_ok c hc ns hwf pre tail post htail

/-- the class of inputs the unrepaired code got wrong: a last note that is only a header (no name, empty
    descriptor; a type that does not call for a structured descriptor) and ends exactly at the end of the
    extent is yielded like any other -/
theorem final_header_only_note_yielded (env : Env) (he : EnvOK env) (c : ElfCfg) (hc : cfgWf c = true) (ns : List Note)
    (hwf : ∀ n ∈ ns, n.wf c = true) (t : Nat) (ht : t < 2 ^ 32) (hk : descKind c.core none t = .raw) (pre post : Bytes) :
    iterNotes (Spec.elfStructs c) env c.cls (pre ++ (encodeNotes c (ns ++ [⟨none, t, .raw []⟩]) ++ []) ++ post) pre.length
        ((encodeNotes c (ns ++ [⟨none, t, .raw []⟩])).length + 0)
      = .ok (obsNotes c pre.length (ns ++ [⟨none, t, .raw []⟩])) := by
  refine iterNotes_ok he c hc _ ?_ pre [] post (by decide)
  intro n hn
  rcases List.mem_append.mp hn with h | h
  · exact hwf n h
  · simp only [List.mem_singleton] at h
    subst h
    simp [Note.wf, ownerWf, nameField, encDesc, Desc.wf, Desc.kind, ht, hk]

/-- one loop iteration: the note at `off` and the offset of the next one -/
theorem note_at (env : Env) (he : EnvOK env) (c : ElfCfg) (hc : cfgWf c = true) (n : Note) (hn : n.wf c = true)
    (data : Bytes) (off : Nat) (rest : Bytes) (hd : data.drop off = encNote c n ++ rest) :
    noteAt (Spec.elfStructs c) env c.cls data 12 off = .ok (obsNote c off n, off + (encNote c n).length) :=
  noteAt_ok he c hc n hn hd

/-- `n_size`: header plus name and descriptor, each padded to 4 bytes -/
theorem note_size (c : ElfCfg) (n : Note) :
    (encNote c n).length = 12 + ((nameField n.owner).length + pad4 (nameField n.owner).length)
      + ((encDesc c n.desc).length + pad4 (encDesc c n.desc).length) :=
  encNote_length c n

/-- the library's `roundup(n, 2)` (regenerated from utils.py) is the 4-byte padding of the standard,
    for every `n` including 0 -/
theorem roundup_is_pad4 (n : Nat) : Model.roundup n 2 = n + pad4 n := roundup2 n

theorem pad4_lt (n : Nat) : pad4 n < 4 ∧ (n + pad4 n) % 4 = 0 := by
  unfold pad4 padTo; omega

/-- the yielded sizes tile the extent: nothing is skipped, nothing is read twice -/
theorem sizes_tile_extent (c : ElfCfg) (ns : List Note) :
    (ns.map fun n => (encNote c n).length).sum = (encodeNotes c ns).length := by
  induction ns with
  | nil => simp [encodeNotes]
  | cons n ns ih => rw [encodeNotes_cons, List.length_append, ← ih]; simp

/-! ### section view and segment view -/

/-- both front ends are the same function of (offset, size) -/
theorem section_view_eq_segment_view (S : ElfStructs) (env : Env) (cls : Nat) (data : Bytes) (shdr phdr : Val)
    (ho : shdr.getNat "sh_offset" = phdr.getNat "p_offset") (hs : shdr.getNat "sh_size" = phdr.getNat "p_filesz") :
    noteSectionIterNotes S env cls data shdr = noteSegmentIterNotes S env cls data phdr := by
  unfold noteSectionIterNotes noteSegmentIterNotes
  rw [ho, hs]

theorem section_roundtrip (env : Env) (he : EnvOK env) (c : ElfCfg) (hc : cfgWf c = true) (ns : List Note)
    (hwf : ∀ n ∈ ns, n.wf c = true) (pre tail post : Bytes) (htail : tail.length < 12) (shdr : Val)
    (ho : shdr.getNat "sh_offset" = .ok pre.length)
    (hs : shdr.getNat "sh_size" = .ok ((encodeNotes c ns).length + tail.length)) :
    noteSectionIterNotes (Spec.elfStructs c) env c.cls (pre ++ (encodeNotes c ns ++ tail) ++ post) shdr
      = .ok (obsNotes c pre.length ns) := by
  unfold noteSectionIterNotes
  rw [ho, hs]
  exact iterNotes_ok he c hc ns hwf pre tail post htail

theorem segment_roundtrip (env : Env) (he : EnvOK env) (c : ElfCfg) (hc : cfgWf c = true) (ns : List Note)
    (hwf : ∀ n ∈ ns, n.wf c = true) (pre tail post : Bytes) (htail : tail.length < 12) (phdr : Val)
    (ho : phdr.getNat "p_offset" = .ok pre.length)
    (hs : phdr.getNat "p_filesz" = .ok ((encodeNotes c ns).length + tail.length)) :
    noteSegmentIterNotes (Spec.elfStructs c) env c.cls (pre ++ (encodeNotes c ns ++ tail) ++ post) phdr
      = .ok (obsNotes c pre.length ns) := by
  unfold noteSegmentIterNotes
  rw [ho, hs]
  exact iterNotes_ok he c hc ns hwf pre tail post htail

/-! ### descriptors -/

/-- the `if/elif` chain on the decoded type name and owner selects the grammar the Spec assigns to the
    numeric type, the owner bytes and the file kind (the two type tables differ) -/
theorem descriptor_dispatch (core : Bool) (owner : Option Bytes) (type : Nat) :
    modelKind (enumVal (typeTable core) type) (obsOwner owner) = descKind core owner type :=
  modelKind_spec core owner type

/-- every descriptor is decoded to its encoded fields (all seven grammars) -/
theorem descriptor_decoded (env : Env) (he : EnvOK env) (c : ElfCfg) (hc : cfgWf c = true) (n : Note) (hn : n.wf c = true)
    (data : Bytes) (off : Nat) (rest : Bytes) (hd : data.drop off = encDesc c n.desc ++ rest) :
    decodeDesc (Spec.elfStructs c) env c.cls data (enumVal (typeTable c.core) n.type) (obsOwner n.owner)
        (encDesc c n.desc) (encDesc c n.desc).length off = .ok (obsDesc c n.desc) :=
  decodeDesc_ok he c hc n hn hd

theorem abi_tag_roundtrip (env : Env) (he : EnvOK env) (c : ElfCfg) (os ma mi ti : Nat)
    (h : (Desc.abiTag os ma mi ti).wf c = true) (data : Bytes) (off : Nat) (rest : Bytes)
    (hd : data.drop off = encDesc c (.abiTag os ma mi ti) ++ rest) :
    structParse env (Spec.elfStructs c).Elf_abi data off
      = .ok (obsDesc c (.abiTag os ma mi ti), off + (encDesc c (.abiTag os ma mi ti)).length) :=
  abi_ok he c h hd

theorem prpsinfo_roundtrip (env : Env) (c : ElfCfg) (hc : cfgWf c = true) (p : Prpsinfo)
    (h : (Desc.prpsinfo p).wf c = true) (data : Bytes) (off : Nat) (rest : Bytes)
    (hd : data.drop off = encDesc c (.prpsinfo p) ++ rest) :
    structParse env (Spec.elfStructs c).Elf_Prpsinfo data off
      = .ok (obsDesc c (.prpsinfo p), off + (encDesc c (.prpsinfo p)).length) :=
  prps_ok c (cfg_cls hc) h hd

theorem nt_file_roundtrip (env : Env) (c : ElfCfg) (hc : cfgWf c = true) (ps : Nat) (maps : List FileMap)
    (h : (Desc.ntFile ps maps).wf c = true) (data : Bytes) (off : Nat) (rest : Bytes)
    (hd : data.drop off = encDesc c (.ntFile ps maps) ++ rest) :
    structParse env (Spec.elfStructs c).Elf_Nt_File data off
      = .ok (obsDesc c (.ntFile ps maps), off + (encDesc c (.ntFile ps maps)).length) :=
  ntfile_ok c (cfg_cls hc) h hd

/-- one program property: type name, size, and the payload as a word (feature words, native-size stack
    size) or raw bytes, consuming the payload and its class-dependent padding -/
theorem property_roundtrip (env : Env) (he : EnvOK env) (c : ElfCfg) (hc : cfgWf c = true) (p : GnuProp)
    (hp : p.wf = true) (data : Bytes) (off : Nat) (rest : Bytes) (hd : data.drop off = encProp c p ++ rest) :
    structParse env (Spec.elfStructs c).Elf_Prop data off = .ok (obsProp c p, off + (encProp c p).length) :=
  prop_parse he c (cfg_cls hc) p hp hd

/-- a property list of any length: each property once, in order, stopping exactly at `n_descsz` -/
theorem property_list_roundtrip (env : Env) (he : EnvOK env) (c : ElfCfg) (hc : cfgWf c = true) (ps : List GnuProp)
    (h : (Desc.props ps).wf c = true) (data : Bytes) (off : Nat) (rest : Bytes)
    (hd : data.drop off = encDesc c (.props ps) ++ rest) :
    gnuPropLoop (Spec.elfStructs c) env c.cls data (off + (encDesc c (.props ps)).length)
        ((encDesc c (.props ps)).length + 1) off [] = .ok (ps.map (obsProp c)) :=
  props_ok he c (cfg_cls hc) h hd

/-! ### stabs -/

/-- a `.stab` section of `k` encoded records yields exactly those records with their offsets -/
theorem stabs_exact (env : Env) (c : ElfCfg) (ss : List Stab) (hwf : ∀ s ∈ ss, s.wf = true) (pre post : Bytes)
    (shdr : Val) (ho : shdr.getNat "sh_offset" = .ok pre.length)
    (hs : shdr.getNat "sh_size" = .ok (encodeStabs c.le ss).length) :
    iterStabs (Spec.elfStructs c) env (pre ++ encodeStabs c.le ss ++ post) shdr = .ok (obsStabs pre.length ss) :=
  iterStabs_ok c ss hwf pre post shdr ho hs

theorem stabs_exact_generated (c : ElfCfg) (S : ElfStructs) (hS : (c, S) ∈ Gen.elfBundles) (ss : List Stab)
    (hwf : ∀ s ∈ ss, s.wf = true) (pre post : Bytes) (shdr : Val) (ho : shdr.getNat "sh_offset" = .ok pre.length)
    (hs : shdr.getNat "sh_size" = .ok (encodeStabs c.le ss).length) :
    iterStabs S Model.elfEnv (pre ++ encodeStabs c.le ss ++ post) shdr = .ok (obsStabs pre.length ss) := by
  rw [iterStabs_congr (TieC14.field_of_tie (·.Elf_Stabs) TieC14.elf_Elf_Stabs hS)]
  exact iterStabs_ok c ss hwf pre post shdr ho hs

/-! ### non-vacuity: concrete well-formed objects of every grammar -/

def cfg64 : ElfCfg := ⟨true, 64, "EM_X86_64", false, false⟩
def core32 : ElfCfg := ⟨false, 32, "EM_SPARC", false, true⟩

example : cfgWf cfg64 = true ∧ cfgWf core32 = true := by decide
/-- both are configurations the translator enumerated, so `notes_roundtrip_generated` applies to them -/
example : (Gen.elfBundles.map (·.1)).contains cfg64 = true ∧ (Gen.elfBundles.map (·.1)).contains core32 = true := by
  decide +kernel
example : Note.wf cfg64 ⟨some gnuOwner, 3, .buildId [1, 2, 3, 4, 5]⟩ = true := by decide
example : Note.wf cfg64 ⟨some gnuOwner, 1, .abiTag 0 3 2 0⟩ = true := by decide
example : Note.wf cfg64 ⟨some gnuOwner, 4, .goldVersion [0x67, 0x6f, 0x6c, 0x64]⟩ = true := by decide
example : Note.wf cfg64 ⟨some gnuOwner, 5, .props [⟨0xc0000002, [3, 0, 0, 0]⟩, ⟨1, [0, 0, 0x10, 0, 0, 0, 0, 0]⟩, ⟨2, []⟩, ⟨7, [1, 2, 3]⟩]⟩ = true := by decide
example : Note.wf cfg64 ⟨none, 0x1234, .raw []⟩ = true := by decide
example : Note.wf cfg64 ⟨some [0x58], 7, .raw [1, 2, 3, 4, 5, 6, 7]⟩ = true := by decide
example : Note.wf core32 ⟨some [0x43, 0x4f, 0x52, 0x45], 0x46494c45, .ntFile 4096 [⟨0x1000, 0x2000, 0, [0x2f, 0x61]⟩, ⟨0x3000, 0x4000, 1, []⟩]⟩ = true := by decide
example : Note.wf core32 ⟨some [0x43, 0x4f, 0x52, 0x45], 3,
    .prpsinfo ⟨0, 0x52, 0, 0, 0x400, 1000, 1000, 1, 0, 1, 1, List.replicate 16 0x61, List.replicate 80 0⟩⟩ = true := by decide +kernel
example : Stab.wf ⟨1, 0x64, 0, 2, 0x8048000⟩ = true := by decide
/-- the 32-byte witness of the repaired defect: a 20-byte note followed by a header-only one -/
example : (encodeNotes cfg64 [⟨some [0x41, 0x42, 0x43], 99, .raw [1, 2, 3, 4]⟩, ⟨none, 7, .raw []⟩]).length = 32 := by decide

/-! ## Fourth wave

  ### whole files (composition with C01)

  `d` is an abstract ELF description (Spec/ElfImage.lean), `bytes` ANY byte string that carries it
  (`Layout d bytes`: header, tables and section bodies sit where the description puts them, nothing
  else is constrained), `d.wfZ env` C01's well-formedness (compressed sections admitted).  The model
  functions `fileSectionNotes` / `fileSegmentNotes` (Model/NotesFile.lean) are
  `ELFFile(BytesIO(bytes)).get_section(i).iter_notes()` / `.get_segment(j).iter_notes()`: C01's mirror
  of elffile.py followed by the mirror of notes.py on the header the file object decoded.

  Alignment: the code hands (`sh_offset`, `sh_size`) resp. (`p_offset`, `p_filesz`) to `iter_notes`
  and rounds name and descriptor to 4 bytes whatever `sh_addralign` / `p_align` say (no 8-byte
  variant exists in this code); accordingly the theorems put no condition on those two fields, and the
  Spec encoder pads to 4. -/

open PyElf.Spec.C14 PyElf.Model.C14 PyElf.Proofs.NotesEdge PyElf.Proofs.NotesFile

/-- the regenerated tables name SHT_NOTE = 7 and PT_NOTE = 4 (gABI) in every machine's table -/
theorem elfEnv_note : EnvNote Model.elfEnv where
  sh m := by unfold shTypeTable; split <;> rfl
  pt m := by unfold pTypeTable; split <;> rfl

/-- For every well-formed description with a section `i` of type SHT_NOTE whose body is the encoding
    of `ns` (followed by fewer than 12 bytes) and whose `sh_size` is the body's length, and ANY byte
    string carrying the description: `ELFFile(BytesIO(bytes)).get_section(i).iter_notes()` yields
    exactly the notes of `ns`, at their file offsets. -/
theorem file_section_notes_exact (env : Env) (he : EnvOK env) (hn : EnvNote env) (d : ElfDesc) (bytes : Bytes)
    (obs : ElfObs) (hwf : d.wfZ env = true) (hl : Layout d bytes) (ho : d.observe env = .ok obs)
    (i : Nat) (sd : SecDesc) (hsd : d.sections[i]? = some sd)
    (hty : Fields.get? sd.hdr "sh_type" = some (.int 7))
    (ns : List Note) (hns : ∀ n ∈ ns, n.wf d.cfg = true) (tail : Bytes) (htail : tail.length < 12)
    (hbody : sd.body = some (encodeNotes d.cfg ns ++ tail))
    (hsize : getNatD sd.hdr "sh_size" = (encodeNotes d.cfg ns).length + tail.length) :
    fileSectionNotes env C01.specStructs C01.specMachineClass bytes i
      = .ok (obsNotes d.cfg (getNatD sd.hdr "sh_offset") ns) := by
  rw [C01.specStructs_eq, C01.specMachineClass_eq]
  exact fileSectionNotes_ok he hn hwf hl ho hsd hty ns hns tail htail hbody hsize

/-- The same for a PT_NOTE program header `j` whose extent (`p_offset`, `p_filesz`) lies in the body
    of a section of the description (`pre = post = []`: it IS the body of that section). -/
theorem file_segment_notes_exact (env : Env) (he : EnvOK env) (hn : EnvNote env) (d : ElfDesc) (bytes : Bytes)
    (obs : ElfObs) (hwf : d.wfZ env = true) (hl : Layout d bytes) (ho : d.observe env = .ok obs)
    (j : Nat) (p : Fields) (hp : d.segments[j]? = some p)
    (hty : Fields.get? p "p_type" = some (.int 4))
    (sd : SecDesc) (hm : sd ∈ d.sections)
    (ns : List Note) (hns : ∀ n ∈ ns, n.wf d.cfg = true) (pre tail post : Bytes) (htail : tail.length < 12)
    (hbody : sd.body = some (pre ++ (encodeNotes d.cfg ns ++ tail) ++ post))
    (hoff : getNatD p "p_offset" = getNatD sd.hdr "sh_offset" + pre.length)
    (hsize : getNatD p "p_filesz" = (encodeNotes d.cfg ns).length + tail.length) :
    fileSegmentNotes env C01.specStructs C01.specMachineClass bytes j
      = .ok (obsNotes d.cfg (getNatD p "p_offset") ns) := by
  rw [C01.specStructs_eq, C01.specMachineClass_eq]
  exact fileSegmentNotes_ok he hn hwf hl ho hp hty hm ns hns pre tail post htail hbody hoff hsize

/-- … and for a PT_NOTE program header covering several sections (indices `is`) laid end to end
    (`.note.gnu.property`, `.note.gnu.build-id`, `.note.ABI-tag` under one segment; `adjacentBodies` is
    their bodies concatenated when each starts where the previous one ends): the notes of all of them,
    in file order. -/
theorem file_segment_notes_over_sections (env : Env) (he : EnvOK env) (hn : EnvNote env) (d : ElfDesc) (bytes : Bytes)
    (obs : ElfObs) (hwf : d.wfZ env = true) (hl : Layout d bytes) (ho : d.observe env = .ok obs)
    (j : Nat) (p : Fields) (hp : d.segments[j]? = some p)
    (hty : Fields.get? p "p_type" = some (.int 4))
    (is : List Nat) (ns : List Note) (hns : ∀ n ∈ ns, n.wf d.cfg = true) (tail : Bytes) (htail : tail.length < 12)
    (hadj : adjacentBodies d (getNatD p "p_offset") is = some (encodeNotes d.cfg ns ++ tail))
    (hsize : getNatD p "p_filesz" = (encodeNotes d.cfg ns).length + tail.length) :
    fileSegmentNotes env C01.specStructs C01.specMachineClass bytes j
      = .ok (obsNotes d.cfg (getNatD p "p_offset") ns) := by
  rw [C01.specStructs_eq, C01.specMachineClass_eq]
  exact fileSegmentNotes_adjacent he hn hwf hl ho hp hty is ns hns tail htail hadj hsize

/-- Section view = segment view for whole files: a PT_NOTE program header and an SHT_NOTE section over
    the same bytes of any file carrying the description yield the same notes. -/
theorem file_section_view_eq_segment_view (env : Env) (he : EnvOK env) (hn : EnvNote env) (d : ElfDesc) (bytes : Bytes)
    (obs : ElfObs) (hwf : d.wfZ env = true) (hl : Layout d bytes) (ho : d.observe env = .ok obs)
    (i : Nat) (sd : SecDesc) (hsd : d.sections[i]? = some sd) (htys : Fields.get? sd.hdr "sh_type" = some (.int 7))
    (j : Nat) (p : Fields) (hp : d.segments[j]? = some p) (htyp : Fields.get? p "p_type" = some (.int 4))
    (ns : List Note) (hns : ∀ n ∈ ns, n.wf d.cfg = true) (tail : Bytes) (htail : tail.length < 12)
    (hbody : sd.body = some (encodeNotes d.cfg ns ++ tail))
    (hsize : getNatD sd.hdr "sh_size" = (encodeNotes d.cfg ns).length + tail.length)
    (hoff : getNatD p "p_offset" = getNatD sd.hdr "sh_offset")
    (hfsz : getNatD p "p_filesz" = getNatD sd.hdr "sh_size") :
    fileSegmentNotes env C01.specStructs C01.specMachineClass bytes j
      = fileSectionNotes env C01.specStructs C01.specMachineClass bytes i := by
  rw [file_section_notes_exact env he hn d bytes obs hwf hl ho i sd hsd htys ns hns tail htail hbody hsize,
    file_segment_notes_exact env he hn d bytes obs hwf hl ho j p hp htyp sd (List.mem_of_getElem? hsd) ns hns [] tail []
      htail (by simpa using hbody) (by simpa using hoff) (by rw [hfsz, hsize]), hoff]

/-- Reduction, with no hypothesis on the contents: for every well-formed description, an SHT_NOTE
    section `i` and any byte string carrying the description, `get_section(i).iter_notes()` IS
    `iter_notes` at (`sh_offset`, `sh_size`) of the description's header with the description's struct
    bundle and class.  Every extent-level theorem of this file (round trip, edge of the domain) thereby
    speaks about whole files. -/
theorem file_section_notes_reduce (env : Env) (hn : EnvNote env) (d : ElfDesc) (bytes : Bytes)
    (obs : ElfObs) (hwf : d.wfZ env = true) (hl : Layout d bytes) (ho : d.observe env = .ok obs)
    (i : Nat) (sd : SecDesc) (hsd : d.sections[i]? = some sd)
    (hty : Fields.get? sd.hdr "sh_type" = some (.int 7)) :
    fileSectionNotes env C01.specStructs C01.specMachineClass bytes i
      = iterNotes (elfStructs d.cfg) env d.cfg.cls bytes (getNatD sd.hdr "sh_offset") (getNatD sd.hdr "sh_size") := by
  rw [C01.specStructs_eq, C01.specMachineClass_eq]
  exact fileSectionNotes_reduce hn hwf hl ho hsd hty

theorem file_segment_notes_reduce (env : Env) (hn : EnvNote env) (d : ElfDesc) (bytes : Bytes)
    (obs : ElfObs) (hwf : d.wfZ env = true) (hl : Layout d bytes) (ho : d.observe env = .ok obs)
    (j : Nat) (p : Fields) (hp : d.segments[j]? = some p)
    (hty : Fields.get? p "p_type" = some (.int 4)) :
    fileSegmentNotes env C01.specStructs C01.specMachineClass bytes j
      = iterNotes (elfStructs d.cfg) env d.cfg.cls bytes (getNatD p "p_offset") (getNatD p "p_filesz") := by
  rw [C01.specStructs_eq, C01.specMachineClass_eq]
  exact fileSegmentNotes_reduce hn hwf hl ho hp hty

/-- … and the bytes of such a file from the offset of a section on begin with the body the description
    gives the section (the `data.drop off = …` hypothesis of the extent-level theorems) -/
theorem file_bytes_at_section (d : ElfDesc) (bytes : Bytes) (hl : Layout d bytes) (sd : SecDesc) (hm : sd ∈ d.sections)
    (body : Bytes) (hb : sd.body = some body) :
    bytes.drop (getNatD sd.hdr "sh_offset") = body ++ bytes.drop (getNatD sd.hdr "sh_offset" + body.length) :=
  body_drop (Proofs.layout_facts hl) hm hb

/-- closed over the regenerated tables -/
theorem file_section_notes_exact_generated_env (d : ElfDesc) (bytes : Bytes)
    (obs : ElfObs) (hwf : d.wfZ Model.elfEnv = true) (hl : Layout d bytes) (ho : d.observe Model.elfEnv = .ok obs)
    (i : Nat) (sd : SecDesc) (hsd : d.sections[i]? = some sd)
    (hty : Fields.get? sd.hdr "sh_type" = some (.int 7))
    (ns : List Note) (hns : ∀ n ∈ ns, n.wf d.cfg = true) (tail : Bytes) (htail : tail.length < 12)
    (hbody : sd.body = some (encodeNotes d.cfg ns ++ tail))
    (hsize : getNatD sd.hdr "sh_size" = (encodeNotes d.cfg ns).length + tail.length) :
    fileSectionNotes Model.elfEnv C01.specStructs C01.specMachineClass bytes i
      = .ok (obsNotes d.cfg (getNatD sd.hdr "sh_offset") ns) :=
  file_section_notes_exact _ TieC14.elfEnv_ok elfEnv_note d bytes obs hwf hl ho i sd hsd hty ns hns tail htail hbody hsize

theorem file_segment_notes_exact_generated_env (d : ElfDesc) (bytes : Bytes)
    (obs : ElfObs) (hwf : d.wfZ Model.elfEnv = true) (hl : Layout d bytes) (ho : d.observe Model.elfEnv = .ok obs)
    (j : Nat) (p : Fields) (hp : d.segments[j]? = some p)
    (hty : Fields.get? p "p_type" = some (.int 4))
    (sd : SecDesc) (hm : sd ∈ d.sections)
    (ns : List Note) (hns : ∀ n ∈ ns, n.wf d.cfg = true) (pre tail post : Bytes) (htail : tail.length < 12)
    (hbody : sd.body = some (pre ++ (encodeNotes d.cfg ns ++ tail) ++ post))
    (hoff : getNatD p "p_offset" = getNatD sd.hdr "sh_offset" + pre.length)
    (hsize : getNatD p "p_filesz" = (encodeNotes d.cfg ns).length + tail.length) :
    fileSegmentNotes Model.elfEnv C01.specStructs C01.specMachineClass bytes j
      = .ok (obsNotes d.cfg (getNatD p "p_offset") ns) :=
  file_segment_notes_exact _ TieC14.elfEnv_ok elfEnv_note d bytes obs hwf hl ho j p hp hty sd hm ns hns pre tail post
    htail hbody hoff hsize

/-- closed over the whole tie: the function the driver runs on every generated file — the file-level
    model with the enum tables, the struct factory and the machine classification regenerated from the
    library on this run (`TieC14File.openElf_generated`: it opens every byte string as the Spec's does) -/
theorem file_section_notes_exact_generated (d : ElfDesc) (bytes : Bytes)
    (obs : ElfObs) (hwf : d.wfZ Model.elfEnv = true) (hl : Layout d bytes) (ho : d.observe Model.elfEnv = .ok obs)
    (i : Nat) (sd : SecDesc) (hsd : d.sections[i]? = some sd)
    (hty : Fields.get? sd.hdr "sh_type" = some (.int 7))
    (ns : List Note) (hns : ∀ n ∈ ns, n.wf d.cfg = true) (tail : Bytes) (htail : tail.length < 12)
    (hbody : sd.body = some (encodeNotes d.cfg ns ++ tail))
    (hsize : getNatD sd.hdr "sh_size" = (encodeNotes d.cfg ns).length + tail.length) :
    fileSectionNotes Model.elfEnv Model.elfStructsFor Model.machineClassOf bytes i
      = .ok (obsNotes d.cfg (getNatD sd.hdr "sh_offset") ns) := by
  rw [TieC14File.fileSectionNotes_generated]
  exact fileSectionNotes_ok TieC14.elfEnv_ok elfEnv_note hwf hl ho hsd hty ns hns tail htail hbody hsize

theorem file_segment_notes_exact_generated (d : ElfDesc) (bytes : Bytes)
    (obs : ElfObs) (hwf : d.wfZ Model.elfEnv = true) (hl : Layout d bytes) (ho : d.observe Model.elfEnv = .ok obs)
    (j : Nat) (p : Fields) (hp : d.segments[j]? = some p)
    (hty : Fields.get? p "p_type" = some (.int 4))
    (sd : SecDesc) (hm : sd ∈ d.sections)
    (ns : List Note) (hns : ∀ n ∈ ns, n.wf d.cfg = true) (pre tail post : Bytes) (htail : tail.length < 12)
    (hbody : sd.body = some (pre ++ (encodeNotes d.cfg ns ++ tail) ++ post))
    (hoff : getNatD p "p_offset" = getNatD sd.hdr "sh_offset" + pre.length)
    (hsize : getNatD p "p_filesz" = (encodeNotes d.cfg ns).length + tail.length) :
    fileSegmentNotes Model.elfEnv Model.elfStructsFor Model.machineClassOf bytes j
      = .ok (obsNotes d.cfg (getNatD p "p_offset") ns) := by
  rw [TieC14File.fileSegmentNotes_generated]
  exact fileSegmentNotes_ok TieC14.elfEnv_ok elfEnv_note hwf hl ho hp hty hm ns hns pre tail post htail hbody hoff hsize

theorem file_segment_notes_over_sections_generated (d : ElfDesc) (bytes : Bytes)
    (obs : ElfObs) (hwf : d.wfZ Model.elfEnv = true) (hl : Layout d bytes) (ho : d.observe Model.elfEnv = .ok obs)
    (j : Nat) (p : Fields) (hp : d.segments[j]? = some p)
    (hty : Fields.get? p "p_type" = some (.int 4))
    (is : List Nat) (ns : List Note) (hns : ∀ n ∈ ns, n.wf d.cfg = true) (tail : Bytes) (htail : tail.length < 12)
    (hadj : adjacentBodies d (getNatD p "p_offset") is = some (encodeNotes d.cfg ns ++ tail))
    (hsize : getNatD p "p_filesz" = (encodeNotes d.cfg ns).length + tail.length) :
    fileSegmentNotes Model.elfEnv Model.elfStructsFor Model.machineClassOf bytes j
      = .ok (obsNotes d.cfg (getNatD p "p_offset") ns) := by
  rw [TieC14File.fileSegmentNotes_generated]
  exact fileSegmentNotes_adjacent TieC14.elfEnv_ok elfEnv_note hwf hl ho hp hty is ns hns tail htail hadj hsize

/-! non-vacuity of the whole-file hypotheses.  `ElfDesc.wfZ`, `Layout` and `observe` are C01's
    (`C01.assemble_layout_z` produces layouts; `Con.encodeRaw` / `Con.decodeRaw` are compiled by
    well-founded recursion and do not reduce in the kernel, so — as for C09 / C11 — `wfZ` and the
    hypotheses below are evaluated by the driver on every generated file: the harness counts the cases
    inside the theorems' domain as `file:*:theorem-domain`; the description below, sent through the
    driver, is `wfZ` and in the domain of all three theorems).  The hypotheses that are C14's own, on a
    concrete description: two note sections laid end to end (8- and 4-aligned), a PT_NOTE header over
    the first and one over both. -/

private def exNotesA : List Note := [⟨some gnuOwner, 3, .buildId [1, 2, 3, 4, 5]⟩, ⟨none, 7, .raw []⟩]
private def exNotesB : List Note := [⟨some gnuOwner, 1, .abiTag 0 3 2 0⟩]

private def exShdr (ty off size align : Nat) : Fields :=
  [("sh_type", .int ty), ("sh_flags", .int 2), ("sh_addr", .int 0), ("sh_offset", .int off), ("sh_size", .int size),
   ("sh_link", .int 0), ("sh_info", .int 0), ("sh_addralign", .int align), ("sh_entsize", .int 0)]

private def exPhdr (off size align : Nat) : Fields :=
  [("p_type", .int 4), ("p_flags", .int 4), ("p_offset", .int off), ("p_vaddr", .int 0), ("p_paddr", .int 0),
   ("p_filesz", .int size), ("p_memsz", .int size), ("p_align", .int align)]

private def exDesc : ElfDesc :=
  { cls := 64, le := true, mclass := "EM_X86_64", solaris := false, core := false,
    ehdr := [("EI_VERSION", .int 1), ("e_type", .int 2), ("e_machine", .int 62), ("e_version", .int 1), ("e_ehsize", .int 64)],
    shoff := 512, phoff := 64, shentsize := 64, phentsize := 56,
    sections := [⟨[], exShdr 0 0 0 0, none, 0⟩,
                 ⟨[0x2e, 0x6e], exShdr 7 256 36 8, some (encodeNotes cfg64 exNotesA), 1⟩,
                 ⟨[0x2e, 0x6e], exShdr 7 292 32 4, some (encodeNotes cfg64 exNotesB), 1⟩,
                 ⟨[0x2e, 0x73], exShdr 3 400 7 1, some [0, 0x2e, 0x6e, 0, 0x2e, 0x73, 0], 4⟩],
    segments := [exPhdr 256 36 8, exPhdr 256 68 4],
    shstrndx := 3 }

example : exDesc.cfg = cfg64 := rfl
example : ∀ n ∈ exNotesA ++ exNotesB, n.wf cfg64 = true := by decide
example : exDesc.sections[1]? = some ⟨[0x2e, 0x6e], exShdr 7 256 36 8, some (encodeNotes cfg64 exNotesA ++ []), 1⟩ := by
  simp [exDesc]
example : Fields.get? (exShdr 7 256 36 8) "sh_type" = some (.int 7) := by simp [Fields.get?, exShdr]
example : getNatD (exShdr 7 256 36 8) "sh_size" = (encodeNotes cfg64 exNotesA).length + ([] : Bytes).length := by decide
example : exDesc.segments[0]? = some (exPhdr 256 36 8) ∧ exDesc.segments[1]? = some (exPhdr 256 68 4) := ⟨rfl, rfl⟩
example : Fields.get? (exPhdr 256 36 8) "p_type" = some (.int 4) := by simp [Fields.get?, exPhdr]
example : getNatD (exPhdr 256 36 8) "p_offset" = getNatD (exShdr 7 256 36 8) "sh_offset" + ([] : Bytes).length
    ∧ getNatD (exPhdr 256 36 8) "p_filesz" = getNatD (exShdr 7 256 36 8) "sh_size" := by decide
/-- the second PT_NOTE covers both sections: their bodies end to end are the encoding of all three notes -/
example : adjacentBodies exDesc (getNatD (exPhdr 256 68 4) "p_offset") [1, 2]
    = some (encodeNotes cfg64 (exNotesA ++ exNotesB) ++ []) := by decide
example : getNatD (exPhdr 256 68 4) "p_filesz" = (encodeNotes cfg64 (exNotesA ++ exNotesB)).length + ([] : Bytes).length := by
  decide

/-! ### the edge of the domain: extents that are not whole padded notes + < 12 bytes

  `data.drop off = X ++ rest` says: the bytes of the file from offset `off` on begin with `X`
  (`rest` is everything after, possibly empty = end of file).  `size` is the declared extent size. -/

/-- the round trip in this form (the extent is the notes and `k < 12` further bytes, which may be a
    truncated header: the walk stops cleanly) -/
theorem notes_roundtrip_at (env : Env) (he : EnvOK env) (c : ElfCfg) (hc : cfgWf c = true) (ns : List Note)
    (hwf : ∀ n ∈ ns, n.wf c = true) (data : Bytes) (off k : Nat) (rest : Bytes) (hk : k < 12)
    (hd : data.drop off = encodeNotes c ns ++ rest) :
    iterNotes (Spec.elfStructs c) env c.cls data off ((encodeNotes c ns).length + k) = .ok (obsNotes c off ns) :=
  iterNotes_drop he c hc ns hwf data off k rest hk hd

/-- A last note whose HEADER lies inside the extent is yielded in full, whatever of its name,
    descriptor and padding lies beyond the extent end (`iter_notes` bounds the header only and reads
    name and descriptor from the stream), and the walk stops there.  In particular
    (`size = |notes| + |bare note|`): a final note WITHOUT trailing padding, ending exactly at the
    extent end — and at the end of the file when `rest = []` — is yielded like any other, with the
    padded `n_size`. -/
theorem last_note_past_extent_end (env : Env) (he : EnvOK env) (c : ElfCfg) (hc : cfgWf c = true) (ns : List Note)
    (hwf : ∀ n ∈ ns, n.wf c = true) (n : Note) (hn : n.wf c = true) (data : Bytes) (off size : Nat) (rest : Bytes)
    (hd : data.drop off = encodeNotes c ns ++ (encNoteBare c n ++ rest))
    (hlo : (encodeNotes c ns).length + 12 ≤ size)
    (hhi : size < (encodeNotes c ns).length + (encNote c n).length + 12) :
    iterNotes (Spec.elfStructs c) env c.cls data off size = .ok (obsNotes c off (ns ++ [n])) :=
  iterNotes_overrun he c hc ns hwf n hn data off size rest hd hlo hhi

theorem final_note_without_padding (env : Env) (he : EnvOK env) (c : ElfCfg) (hc : cfgWf c = true) (ns : List Note)
    (hwf : ∀ n ∈ ns, n.wf c = true) (n : Note) (hn : n.wf c = true) (data : Bytes) (off : Nat) (rest : Bytes)
    (hd : data.drop off = encodeNotes c ns ++ (encNoteBare c n ++ rest)) :
    iterNotes (Spec.elfStructs c) env c.cls data off ((encodeNotes c ns).length + (encNoteBare c n).length)
      = .ok (obsNotes c off (ns ++ [n])) := by
  have h1 := encNoteBare_length c n
  have h2 := encNote_length c n
  exact iterNotes_overrun he c hc ns hwf n hn data off _ rest hd (by omega) (by omega)

/-- The extent promises (at least) one more header after the notes, the file ends before 12 bytes of
    it: `struct_parse` raises ELFParseError (the notes before it were yielded; the drained walk is the error). -/
theorem truncated_header_error (env : Env) (he : EnvOK env) (c : ElfCfg) (hc : cfgWf c = true) (ns : List Note)
    (hwf : ∀ n ∈ ns, n.wf c = true) (data : Bytes) (off size : Nat) (rest : Bytes)
    (hd : data.drop off = encodeNotes c ns ++ rest) (hrest : rest.length < 12)
    (hsize : (encodeNotes c ns).length + 12 ≤ size) :
    iterNotes (Spec.elfStructs c) env c.cls data off size = .error .elfParseError :=
  iterNotes_truncated he c hc ns hwf data off size rest hd hrest hsize

/-- A header with `n_namesz > 0` whose name field (the `roundup(n_namesz, 4)` bytes after the header, or
    as many as the file still has) holds no NUL — a name that is not terminated, or runs past the end
    of the file: `CString('').parse` raises construct's error, which `iter_notes` does not wrap. -/
theorem unterminated_name_error (env : Env) (he : EnvOK env) (c : ElfCfg) (hc : cfgWf c = true) (ns : List Note)
    (hwf : ∀ n ∈ ns, n.wf c = true) (namesz descsz type : Nat)
    (hn0 : 0 < namesz) (hns : namesz < 2 ^ 32) (hds : descsz < 2 ^ 32) (hty : type < 2 ^ 32)
    (data : Bytes) (off size : Nat) (rest : Bytes)
    (hd : data.drop off = encodeNotes c ns ++ (encNhdr c namesz descsz type ++ rest))
    (hnul : ∀ b ∈ rest.take (namesz + pad4 namesz), b ≠ 0)
    (hsize : (encodeNotes c ns).length + 12 ≤ size) :
    iterNotes (Spec.elfStructs c) env c.cls data off size = .error .structError :=
  iterNotes_name_unterminated he c hc ns hwf namesz descsz type hn0 hns hds hty data off size rest hd hnul hsize

/-- The file ends inside the descriptor of the last note (`n_descsz` runs past the end of the file), the
    type calling for no structured descriptor: `stream.read` returns what is there, the note is yielded
    with the declared sizes and the available bytes, and the walk stops unless the extent reaches 12
    bytes past the note's declared end (then the next header read is `truncated_header_error`'s). -/
theorem descriptor_cut_by_end_of_file (env : Env) (he : EnvOK env) (c : ElfCfg) (hc : cfgWf c = true) (ns : List Note)
    (hwf : ∀ n ∈ ns, n.wf c = true) (owner : Option Bytes) (type descsz : Nat) (avail : Bytes)
    (how : ownerWf owner = true) (hnl : (nameField owner).length < 2 ^ 32) (htl : type < 2 ^ 32) (hdl : descsz < 2 ^ 32)
    (hk : descKind c.core owner type = .raw) (hlt : avail.length ≤ descsz)
    (data : Bytes) (off size : Nat)
    (hd : data.drop off = encodeNotes c ns ++ encNoteCut c owner type descsz avail)
    (hlo : (encodeNotes c ns).length + 12 ≤ size)
    (hhi : size < (encodeNotes c ns).length + (12 + paddedLen (nameField owner).length + paddedLen descsz) + 12) :
    iterNotes (Spec.elfStructs c) env c.cls data off size
      = .ok (obsNotes c off ns ++ [obsNoteCut c (off + (encodeNotes c ns).length) owner type descsz avail]) :=
  iterNotes_desc_cut he c hc ns hwf owner type descsz avail how hnl htl hdl hk hlt data off size hd hlo hhi

/-! ### inputs at the border of `Note.wf` that the quantifier names -/

/-- a zero-length name (`n_namesz = 0`) and a name that is only the terminator (`n_namesz = 1`) are
    well-formed owners: `None` resp. `''` is reported -/
example (c : ElfCfg) (t : Nat) (ht : t < 2 ^ 32) (d : Bytes) (hd : d.length < 2 ^ 32) (hk : descKind c.core none t = .raw) :
    Note.wf c ⟨none, t, .raw d⟩ = true := by
  simp [Note.wf, ownerWf, nameField, encDesc, Desc.wf, Desc.kind, ht, hd, hk]
example : obsOwner none = .none ∧ obsOwner (some []) = .str "" := ⟨rfl, rfl⟩

/-- descriptors of every length (hence every residue mod 4) are well-formed raw descriptors, for any
    owner and any type the file kind does not assign a grammar — in particular unknown types of the
    owner "GNU" and unknown owners -/
theorem raw_note_wf (c : ElfCfg) (o : Option Bytes) (t : Nat) (d : Bytes) (ho : ownerWf o = true)
    (hol : (nameField o).length < 2 ^ 32) (ht : t < 2 ^ 32) (hd : d.length < 2 ^ 32) (hk : descKind c.core o t = .raw) :
    Note.wf c ⟨o, t, .raw d⟩ = true := by
  simp [Note.wf, ho, hol, encDesc, Desc.wf, Desc.kind, ht, hd, hk]

/-- unknown types of a known owner: outside a core file, "GNU" notes of every type but 1, 3, 4, 5 carry a
    raw descriptor; other owners always do -/
theorem gnu_unknown_type_raw (t : Nat) (h : t ≠ 1 ∧ t ≠ 3 ∧ t ≠ 4 ∧ t ≠ 5) : descKind false (some gnuOwner) t = .raw := by
  simp [descKind, h.1, h.2.1, h.2.2.1, h.2.2.2]

theorem other_owner_raw (o : Option Bytes) (t : Nat) (h : o ≠ some gnuOwner) : descKind false o t = .raw := by
  simp [descKind, h]

theorem core_unknown_type_raw (o : Option Bytes) (t : Nat) (h : t ≠ 3 ∧ t ≠ 0x46494c45) : descKind true o t = .raw := by
  simp [descKind, h.1, h.2]

/-! ### non-vacuity of the fourth-wave hypotheses -/

example : Note.wf cfg64 ⟨some gnuOwner, 2, .raw [1, 2, 3, 4, 5]⟩ = true := by decide
example : Note.wf cfg64 ⟨some gnuOwner, 0x1234, .raw [1]⟩ = true := by decide
example : Note.wf cfg64 ⟨some [], 7, .raw [1, 2]⟩ = true := by decide
/-- a bare final note: 12 + 4 + 5 bytes, 3 bytes short of its padded size -/
example : (encNoteBare cfg64 ⟨some gnuOwner, 3, .buildId [1, 2, 3, 4, 5]⟩).length = 21
    ∧ (encNote cfg64 ⟨some gnuOwner, 3, .buildId [1, 2, 3, 4, 5]⟩).length = 24 := by decide
/-- a descriptor of declared size 9 of which the file holds 2 bytes; owner "X", unknown type -/
example : ownerWf (some [0x58]) = true ∧ descKind false (some [0x58]) 7 = .raw ∧ ([1, 2] : Bytes).length ≤ 9
    ∧ (encNoteCut cfg64 (some [0x58]) 7 9 [1, 2]).length = 18 := by decide
/-- an unterminated name: `n_namesz = 4`, name field "ABCD" -/
example : ∀ b ∈ ([0x41, 0x42, 0x43, 0x44, 9, 9] : Bytes).take (4 + pad4 4), b ≠ 0 := by decide

end PyElf.Props.C14
