/-
  C14 tie: the note / stab structs the library builds for every configuration, and the
  four code tables that name note types, ABI-tag systems and property types, are the
  Spec's; hence the enum environment of the generated side satisfies `EnvOK`.
-/
import PyElf.Gen.Structs
import PyElf.Gen.Tables
import PyElf.Spec.ElfStructs
import PyElf.Spec.Notes
import PyElf.Model.Env
import PyElf.Proofs.Notes
namespace PyElf.Props.TieC14
open PyElf

theorem elf_Elf_Nhdr : Gen.elfBundles.map (fun b => (b.1, b.2.Elf_Nhdr)) = Spec.allElfCfgs.map (fun c => (c, (Spec.elfStructs c).Elf_Nhdr)) := by rfl
theorem elf_Elf_abi : Gen.elfBundles.map (fun b => (b.1, b.2.Elf_abi)) = Spec.allElfCfgs.map (fun c => (c, (Spec.elfStructs c).Elf_abi)) := by rfl
theorem elf_Elf_Prop : Gen.elfBundles.map (fun b => (b.1, b.2.Elf_Prop)) = Spec.allElfCfgs.map (fun c => (c, (Spec.elfStructs c).Elf_Prop)) := by rfl
theorem elf_Elf_Prpsinfo : Gen.elfBundles.map (fun b => (b.1, b.2.Elf_Prpsinfo)) = Spec.allElfCfgs.map (fun c => (c, (Spec.elfStructs c).Elf_Prpsinfo)) := by rfl
theorem elf_Elf_Nt_File : Gen.elfBundles.map (fun b => (b.1, b.2.Elf_Nt_File)) = Spec.allElfCfgs.map (fun c => (c, (Spec.elfStructs c).Elf_Nt_File)) := by rfl
theorem elf_Elf_Stabs : Gen.elfBundles.map (fun b => (b.1, b.2.Elf_Stabs)) = Spec.allElfCfgs.map (fun c => (c, (Spec.elfStructs c).Elf_Stabs)) := by rfl
theorem elf_Elf_ugid : Gen.elfBundles.map (fun b => (b.1, b.2.Elf_ugid)) = Spec.allElfCfgs.map (fun c => (c, (Spec.elfStructs c).Elf_ugid)) := by rfl

/-- the library's tables, as regenerated, are the standards' -/
theorem table_note_types : Gen.tables.find? (·.1 == "ENUM_NOTE_N_TYPE") = some ("ENUM_NOTE_N_TYPE", Spec.noteTypes, true) := by rfl
theorem table_core_note_types : Gen.tables.find? (·.1 == "ENUM_CORE_NOTE_N_TYPE") = some ("ENUM_CORE_NOTE_N_TYPE", Spec.coreNoteTypes, true) := by rfl
theorem table_abi_os : Gen.tables.find? (·.1 == "ENUM_NOTE_ABI_TAG_OS") = some ("ENUM_NOTE_ABI_TAG_OS", Spec.abiOsNames, true) := by rfl
theorem table_prop_types : Gen.tables.find? (·.1 == "ENUM_NOTE_GNU_PROPERTY_TYPE") = some ("ENUM_NOTE_GNU_PROPERTY_TYPE", Spec.propTypes, true) := by rfl

/-- the enum environment of the generated side decodes the four tables as the Spec does -/
theorem elfEnv_ok : Proofs.Notes.EnvOK Model.elfEnv where
  noteT v := by simp only [Model.elfEnv, Model.genEnumDecode, table_note_types]; rfl
  coreT v := by simp only [Model.elfEnv, Model.genEnumDecode, table_core_note_types]; rfl
  abiOs v := by simp only [Model.elfEnv, Model.genEnumDecode, table_abi_os]; rfl
  propT v := by simp only [Model.elfEnv, Model.genEnumDecode, table_prop_types]; rfl

/-- a per-field tie, read pointwise: the field of the bundle generated for `c` is the Spec's -/
theorem field_of_tie {α : Type} (proj : ElfStructs → α)
    (h : Gen.elfBundles.map (fun b => (b.1, proj b.2)) = Spec.allElfCfgs.map (fun c => (c, proj (Spec.elfStructs c))))
    {c : ElfCfg} {S : ElfStructs} (hS : (c, S) ∈ Gen.elfBundles) : proj S = proj (Spec.elfStructs c) := by
  have hm : (c, proj S) ∈ Gen.elfBundles.map (fun b => (b.1, proj b.2)) := List.mem_map.mpr ⟨(c, S), hS, rfl⟩
  rw [h] at hm
  obtain ⟨c', -, hc'⟩ := List.mem_map.mp hm
  simp only [Prod.mk.injEq] at hc'
  obtain ⟨rfl, h2⟩ := hc'
  exact h2.symm

end PyElf.Props.TieC14
