/-
  C02 — Section and segment contents, string tables and address mapping are exact.

  Property theorems only.  The Spec side (Spec/Contents.lean) says, over numeric on-disk values
  (`Sec`, `Seg`, `Chdr`) and the file image, what a section's data, logical size and alignment, a
  segment's data, the interpreter path, a string-table entry, the file offsets of an address range
  and binutils' strict section-in-segment rule ARE.  The model (Model/Contents.lean) mirrors
  sections.py / segments.py / elffile.py.  `sh`, `ph`, `chv` are decoded headers as C01 proves them
  to be reported (`IsShdr`/`IsPhdr`/`IsChdr`: the numeric fields, with type codes reported by name or
  as raw integers through `decT`/`decP`/`decC`); the naming hypotheses (`NobitsNaming`, `PTypeNaming`,
  `ZlibNaming`) are proved for every decoding table of /repo in TieC02.  zlib is an external call:
  `zlib c n` stands for `decompressobj().decompress(c, n)`, `inflate` for the fully inflated payload;
  the one assumption relating them is stated where it is used (`hz`).

  Fourth wave (second half of the file):
  * the error side (`data_*_unreachable`, `data_nobits_oversize`, `data_compressed_bad_stream`,
    `data_compressed_size_unaskable`, `data_compressed_offset_unreachable`, `data_nobits_compressed`,
    `segment_data_unreachable`, `interp_name_unreachable` / `_unterminated`, `get_string_unreachable`);
  * section in segment against the WHOLE binutils macro (`macroFull64`, Spec/ContentsMacro.lean):
    `in_segment_eq_C_macro_full_partial` extends the first partial theorem to everywhere the `.tbss`
    size rule and the PT_DYNAMIC / PT_NOTE empty-section clause are inert, `in_segment_eq_C_macro_iff`
    shows that domain is exact, and `in_segment_lacks_tbss_rule` / `in_segment_lacks_empty_edge_clause`
    exhibit the two clauses the code does not implement;
  * whole files (`file_*`): composition with C01 — for every well-formed description `d` (`wfZ`) and
    ANY byte string that carries it (`Layout`), `ELFFile(BytesIO(bytes))` followed by `get_section(i)` /
    `get_segment(j)` and the accessor gives what the description assigns.
  Still correspondence-only (model = code checked by the harness, no theorem): zlib itself (a parameter);
  UTF-8 decoding of strings / paths (the model compares bytes); MemoryError for SHT_NOBITS sizes between
  2^20 and 2^63 (not modelled); a compressed section whose `sh_size` is smaller than its compression
  header (the code then reads to the end of the file); truncated / substituted images (the `raw` stream).
-/
import PyElf.Proofs.Contents
import PyElf.Proofs.ContentsErrors
import PyElf.Proofs.ContentsMacro
import PyElf.Proofs.ContentsFile
import PyElf.Props.TieC02
import PyElf.Props.C01
namespace PyElf.Props.C02
open PyElf PyElf.Spec PyElf.Model PyElf.Proofs
open PyElf.Spec.C02 PyElf.Model.C02 PyElf.Proofs.C02

/-! ### C-strings and string tables -/

/-- the chunked reader returns the bytes before the first NUL whatever the chunk size
    (63/64/65-byte strings are instances, not tests) -/
theorem cstring_chunked_eq (data : Bytes) (pos k : Nat) (hk : 1 ≤ k) :
    parseCStringFromStream data pos k = .ok (firstNul (data.drop pos)) := by
  have := cstringChunkLoop_eq data k hk (data.length - pos + 2) pos [] (by omega)
  simpa [parseCStringFromStream] using this

/-- `get_string(off)`: the bytes up to the first NUL at `sh_offset + off` of the file, whatever their
    number; `''` both for an empty string and when no NUL follows -/
theorem get_string_file (file : Bytes) (st : Val) (toff off : Nat)
    (h : st.getField "sh_offset" = .ok (.int toff)) (hp : toff + off < 2 ^ 63) :
    getString file st off = .ok ((firstNul (file.drop (toff + off))).getD []) :=
  getString_eq file off h hp

/-- ... which is the NUL-terminated string at `off` of the table whenever the table holds one there
    (in particular for every offset inside a table that ends with NUL) -/
theorem get_string_exact {decT : Nat → Val} (file : Bytes) (st : Val) (t : Sec) (off : Nat) (str : Bytes)
    (hst : IsShdr decT st t) (hp : t.offset + off < 2 ^ 63)
    (hs : stringAt (extent file t.offset t.size) off = some str) :
    getString file st off = .ok str := by
  rw [getString_eq file off hst.offset hp, stringAt_extent file _ _ _ _ hs]; rfl

example : stringAt (extent [9, 9, 0, 0x61, 0x62, 0, 7] 2 4) 1 = some [0x61, 0x62] := by decide

/-! ### section contents -/

/-- not compressed: logical size and alignment are the header's -/
theorem section_plain_size_align (env : Env) (S : ElfStructs) (file : Bytes) {decT : Nat → Val} (sh : Val) (s : Sec)
    (hsh : IsShdr decT sh s) (hc : s.compressed = false) :
    ∃ o, sectionNew env S shFlags file sh = .ok o ∧ (o.compressed != 0) = false ∧
      o.dsize = .int (logicalSize s none) ∧ o.dalign = .int (logicalAlign s none) := by
  refine ⟨plainObj sh s, sectionNew_plain env S file hsh hc, rfl, ?_, ?_⟩ <;>
    simp [plainObj, logicalSize, logicalAlign, hc]

/-- the data of a section that is neither SHT_NOBITS nor compressed is exactly the file bytes of its extent -/
theorem data_raw (zlib : Bytes → Nat → R Bytes) (env : Env) (S : ElfStructs) (cls : Nat) (file : Bytes) {decT : Nat → Val}
    (hT : NobitsNaming decT) (sh : Val) (s : Sec) (hsh : IsShdr decT sh s)
    (hnb : s.nobits = false) (hc : s.compressed = false) (ho : s.offset < 2 ^ 63) (hs : s.size < 2 ^ 63)
    (inflate : Bytes → Option Bytes) :
    ∃ o, sectionNew env S shFlags file sh = .ok o ∧
      sectionData zlib S file o = .ok (extent file s.offset s.size) ∧
      dataOf inflate cls file s none = some (extent file s.offset s.size) := by
  refine ⟨plainObj sh s, sectionNew_plain env S file hsh hc, sectionData_raw zlib S file hT hsh hnb ho hs, ?_⟩
  simp [dataOf, hnb, hc]

/-- SHT_NOBITS: a zero block of the declared size -/
theorem data_nobits (zlib : Bytes → Nat → R Bytes) (env : Env) (S : ElfStructs) (cls : Nat) (file : Bytes) {decT : Nat → Val}
    (hT : NobitsNaming decT) (sh : Val) (s : Sec) (hsh : IsShdr decT sh s)
    (hnb : s.nobits = true) (hc : s.compressed = false) (hs : s.size < 2 ^ 63) (inflate : Bytes → Option Bytes) :
    ∃ o, sectionNew env S shFlags file sh = .ok o ∧
      sectionData zlib S file o = .ok (List.replicate s.size 0) ∧
      dataOf inflate cls file s none = some (List.replicate s.size 0) := by
  refine ⟨plainObj sh s, sectionNew_plain env S file hsh hc, sectionData_nobits zlib S file hT hsh hnb hs, ?_⟩
  simp [dataOf, hnb]

/-- SHF_COMPRESSED: logical size and alignment come from the compression header; the data is the
    fully inflated payload of the bytes after the header when its length is the declared `ch_size`;
    a stream of any other inflated length, and any compression type other than ELFCOMPRESS_ZLIB, is
    rejected.  In every case the model's answer is the Spec's `dataOf`.
    `hz`: zlib's `decompress(c, n)` returns the first `n` bytes of the inflated payload. -/
theorem data_compressed (zlib : Bytes → Nat → R Bytes) (inflate : Bytes → Option Bytes) (env : Env) (S : ElfStructs)
    (cls : Nat) (file : Bytes) {decT decC : Nat → Val} (hT : NobitsNaming decT) (hC : ZlibNaming decC)
    (sh chv : Val) (s : Sec) (ch : Chdr) (p : Nat) (hsh : IsShdr decT sh s)
    (hnb : s.nobits = false) (hc : s.compressed = true)
    (hparse : structParseAt env S.Elf_Chdr file s.offset = .ok (chv, p)) (hch : IsChdr decC chv ch)
    (hsz : S.Elf_Chdr.sizeof = some (chdrSize cls))
    (ho : s.offset + chdrSize cls < 2 ^ 63) (hfull : chdrSize cls ≤ s.size) (hs : s.size < 2 ^ 63)
    (hw : ch.chSize + 1 < 2 ^ 63) (P : Bytes) (hP : inflate (payload cls file s) = some P)
    (hz : ∀ n, 0 < n → zlib (payload cls file s) n = .ok (P.take n)) :
    ∃ o, sectionNew env S shFlags file sh = .ok o ∧ (o.compressed != 0) = true ∧
      o.dsize = .int (logicalSize s (some ch)) ∧ o.dalign = .int (logicalAlign s (some ch)) ∧
      (sectionData zlib S file o).toOption = dataOf inflate cls file s (some ch) ∧
      (ch.chType = ELFCOMPRESS_ZLIB → P.length = ch.chSize → sectionData zlib S file o = .ok P) ∧
      (ch.chType = ELFCOMPRESS_ZLIB → P.length ≠ ch.chSize → sectionData zlib S file o = .error .elfCompressionError) ∧
      (ch.chType ≠ ELFCOMPRESS_ZLIB → ∃ e, sectionData zlib S file o = .error e) := by
  have hnew := sectionNew_compressed env S file hsh hc hparse hch
  have h0 : ¬ (s.flags &&& 0x800 = 0) := by
    intro h; rw [(compressed_false_iff s).2 h] at hc; cases hc
  have hzl := fun hty => sectionData_zlib zlib S cls file hT hC (sh := sh) (ch := ch) hsh hnb hc hty hsz ho hfull hs hw P
    (hz _ (by omega))
  refine ⟨zObj decC sh s ch, hnew, ?_, ?_, ?_, ?_, ?_, ?_, ?_⟩
  · simp only [zObj, bne_def', cast_beq_zero]; simpa using h0
  · simp [zObj, logicalSize, hc]
  · simp [zObj, logicalAlign, hc]
  · by_cases hty : ch.chType = ELFCOMPRESS_ZLIB
    · rw [hzl hty]
      simp only [dataOf, hnb, hc, hty, hP, Bool.false_eq_true, if_false, if_true]
      by_cases hl : P.length = ch.chSize <;> simp [hl, Except.toOption]
    · rcases sectionData_unknown zlib S file hT hC (sh := sh) (ch := ch) hsh hnb hc hty with h | h <;>
        simp [h, dataOf, hnb, hc, hty, Except.toOption]
  · intro hty hl; rw [hzl hty, if_pos hl]
  · intro hty hl; rw [hzl hty, if_neg hl]
  · intro hty
    rcases sectionData_unknown zlib S file hT hC (sh := sh) (ch := ch) hsh hnb hc hty with h | h
    · exact ⟨_, h⟩
    · exact ⟨_, h⟩

/-- the compression header is read exactly as the gABI lays it out, for both classes and byte orders,
    anywhere in any file (this discharges `hparse`/`hch`/`hsz` of `data_compressed` for the Spec bundles,
    which TieC02 proves equal to the bundles /repo builds) -/
theorem chdr_read32 (env : Env) (le : Bool) (m : String) (sol core : Bool) (c : Chdr) (hfit : c.fits 32 = true)
    (pre rest : Bytes) (hp : pre.length < 2 ^ 63) :
    ∃ v, structParseAt env (Spec.elfStructs ⟨le, 32, m, sol, core⟩).Elf_Chdr (pre ++ encChdr 32 le c ++ rest) pre.length
        = .ok (v, pre.length + chdrSize 32) ∧ IsChdr (decCOf env) v c ∧
      (Spec.elfStructs ⟨le, 32, m, sol, core⟩).Elf_Chdr.sizeof = some (chdrSize 32) := by
  obtain ⟨v, h1, h2⟩ := chdr_roundtrip32 env le m sol core c hfit (pre ++ encChdr 32 le c ++ rest) pre.length rest
    (drop_pre _ _ _) hp
  exact ⟨v, h1, h2, chdr_sizeof32 le m sol core⟩

theorem chdr_read64 (env : Env) (le : Bool) (m : String) (sol core : Bool) (c : Chdr) (hfit : c.fits 64 = true)
    (pre rest : Bytes) (hp : pre.length < 2 ^ 63) :
    ∃ v, structParseAt env (Spec.elfStructs ⟨le, 64, m, sol, core⟩).Elf_Chdr (pre ++ encChdr 64 le c ++ rest) pre.length
        = .ok (v, pre.length + chdrSize 64) ∧ IsChdr (decCOf env) v c ∧
      (Spec.elfStructs ⟨le, 64, m, sol, core⟩).Elf_Chdr.sizeof = some (chdrSize 64) := by
  obtain ⟨v, h1, h2⟩ := chdr_roundtrip64 env le m sol core c hfit (pre ++ encChdr 64 le c ++ rest) pre.length rest
    (drop_pre _ _ _) hp
  exact ⟨v, h1, h2, chdr_sizeof64 le m sol core⟩

example : (⟨1, 450, 8⟩ : Chdr).fits 32 = true := by decide

/-! ### segments -/

/-- a segment's data is exactly its file extent -/
theorem segment_data {decP : Nat → Val} (file : Bytes) (ph : Val) (g : Seg) (hph : IsPhdr decP ph g)
    (ho : g.offset < 2 ^ 63) (hs : g.filesz < 2 ^ 63) :
    segmentData file ph = .ok (segData file g) :=
  segmentData_eq file hph ho hs

/-- the interpreter path is the NUL-terminated string at the segment start -/
theorem interp_name (env : Env) {decP : Nat → Val} (file : Bytes) (ph : Val) (g : Seg) (path : Bytes)
    (hph : IsPhdr decP ph g) (ho : g.offset < 2 ^ 63) (hs : interpName file g = some path) :
    getInterpName env file ph = .ok path :=
  getInterpName_eq env file hph ho hs

example : interpName [1, 2, 0x2f, 0x6c, 0, 9] ⟨PT_INTERP, 2, 0, 3, 3⟩ = some [0x2f, 0x6c] := by decide

/-! ### virtual address → file offset -/

/-- `address_offsets(start, size)` yields, in program-header order, the offsets given by exactly those
    PT_LOAD segments with `p_vaddr ≤ start ∧ start + size ≤ p_vaddr + p_filesz` -/
theorem addr_offsets_exact {decP : Nat → Val} (hP : PTypeNaming decP) (phs : List Val) (segs : List Seg)
    (h : ArePhdrs decP phs segs) (start size : Nat) :
    addressOffsetsOf (start : Int) (size : Int) phs = .ok ((addrOffsets segs start size).map Int.ofNat) :=
  addressOffsetsOf_eq hP start size phs segs h

/-- ... over the segments `iter_segments` enumerates -/
theorem addr_offsets_file {decP : Nat → Val} (hP : PTypeNaming decP) (env : Env) (f : ElfFile)
    (kphs : List (String × Val)) (segs : List Seg)
    (hit : iterSegments env f.S f.data f.header f.shstr = .ok kphs)
    (h : ArePhdrs decP (kphs.map (·.2)) segs) (start size : Nat) :
    addressOffsets env f (start : Int) (size : Int) = .ok ((addrOffsets segs start size).map Int.ofNat) := by
  unfold addressOffsets
  simp only [hit, bind, Except.bind]
  exact addressOffsetsOf_eq hP start size _ segs h

example : addrOffsets [⟨PT_LOAD, 0x100, 0x1000, 0x20, 0x40⟩, ⟨PT_LOAD, 0x200, 0x1010, 0x10, 0x10⟩, ⟨PT_NOTE, 0, 0x1000, 0x40, 0x40⟩]
    0x1018 8 = [0x118, 0x208] := by decide

/-! ### section in segment -/

/-- `section_in_segment` is binutils' strict containment rule (the four condition groups), for all
    field values (no bound on any field is needed: Python integers do not wrap) -/
theorem in_segment_eq_strict {decP decT : Nat → Val} (hP : PTypeNaming decP) (hT : NobitsNaming decT)
    (ph sh : Val) (g : Seg) (s : Sec) (hph : IsPhdr decP ph g) (hsh : IsShdr decT sh s) :
    sectionInSegment shFlags ph sh = .ok (inSegmentStrict g s) :=
  sectionInSegment_eq hP hT hph hsh

/-- equality with the C macro `ELF_SECTION_IN_SEGMENT_STRICT` evaluated as C evaluates it
    (unsigned 64-bit), PARTIAL: under the no-overflow hypotheses `sh_offset - p_offset + sh_size < 2^64`
    and `sh_addr - p_vaddr + sh_size < 2^64`, and outside the two clauses of the macro the property does
    not enumerate (`.tbss` size rule; empty sections in PT_DYNAMIC / PT_NOTE).  The wrap case is outside
    the claim.
    Full statement (not claimed): `∀ g s, fits64 g s → macro64 g s = inSegmentStrict g s`. -/
theorem in_segment_eq_C_macro_partial {decP decT : Nat → Val} (hP : PTypeNaming decP) (hT : NobitsNaming decT)
    (ph sh : Val) (g : Seg) (s : Sec) (hph : IsPhdr decP ph g) (hsh : IsShdr decT sh s)
    (hfit : fits64 g s = true) (hplain : plainCase g s = true)
    (hf : g.offset ≤ s.offset → s.offset - g.offset + s.size < 2 ^ 64)
    (hv : g.vaddr ≤ s.addr → s.addr - g.vaddr + s.size < 2 ^ 64) :
    sectionInSegment shFlags ph sh = .ok (macro64 g s) := by
  rw [macro64_eq g s hfit hplain hf hv]
  exact sectionInSegment_eq hP hT hph hsh

/-- the full statement is false: in the wrap case the C macro and the ideal-arithmetic rule differ -/
theorem in_segment_C_macro_wrap_counterexample :
    ∃ g s, fits64 g s = true ∧ plainCase g s = true ∧ macro64 g s ≠ inSegmentStrict g s :=
  ⟨⟨PT_NOTE, 0x10, 0, 0x20, 0⟩, ⟨1, 0, 0, 0x18, 2 ^ 64 - 4, 1⟩, by decide⟩

-- non-vacuity: an empty section at the very end of a non-empty segment is outside, inside an empty one it is inside
example : inSegmentStrict ⟨PT_LOAD, 0x100, 0x1000, 0x20, 0x20⟩ ⟨1, 2, 0x1020, 0x120, 0, 1⟩ = false := by decide
example : inSegmentStrict ⟨PT_LOAD, 0x100, 0x1000, 0, 0⟩ ⟨1, 2, 0x1000, 0x100, 0, 1⟩ = true := by decide
example : inSegmentStrict ⟨PT_GNU_MBIND_LO, 0x100, 0, 0x20, 0⟩ ⟨1, 0, 0, 0x100, 8, 1⟩ = false := by decide

/-! ### the header hypotheses hold of what C01 proves reported -/

/-- the decoded section header C01 proves reported for a description's raw header (`Elf_Shdr.decodeRaw`
    of `SecDesc.raw`) carries the numeric fields, with `sh_type` reported through the machine's table -/
theorem shdr_shape (env : Env) (cfg : ElfCfg) (nameOff : Nat) (s : Sec) (link info entsize : Nat) :
    ∃ h, (Spec.elfStructs cfg).Elf_Shdr.decodeRaw env [] (rawShdr nameOff s link info entsize) = .ok h ∧
      IsShdr (nameOr env.enumDecode (shTypeTable cfg.mclass)) h s :=
  isShdr_of_decodeRaw env cfg nameOff s link info entsize

theorem phdr_shape32 (env : Env) (le : Bool) (m : String) (sol core : Bool) (g : Seg) (paddr flags align : Nat) :
    ∃ h, (Spec.elfStructs ⟨le, 32, m, sol, core⟩).Elf_Phdr.decodeRaw env [] (rawPhdr32 g paddr flags align) = .ok h ∧
      IsPhdr (nameOr env.enumDecode (pTypeTable m)) h g :=
  isPhdr_of_decodeRaw32 env le m sol core g paddr flags align

theorem phdr_shape64 (env : Env) (le : Bool) (m : String) (sol core : Bool) (g : Seg) (paddr flags align : Nat) :
    ∃ h, (Spec.elfStructs ⟨le, 64, m, sol, core⟩).Elf_Phdr.decodeRaw env [] (rawPhdr64 g paddr flags align) = .ok h ∧
      IsPhdr (nameOr env.enumDecode (pTypeTable m)) h g :=
  isPhdr_of_decodeRaw64 env le m sol core g paddr flags align

/-! ### the hypotheses hold of what /repo builds (TieC02) -/

/-- for every machine class, the decoders the Spec bundles (= the bundles of /repo) attach to `p_type`,
    `sh_type` and `ch_type`, instantiated with the regenerated tables, satisfy the naming hypotheses -/
theorem naming_holds (m : String) (hm : m ∈ Spec.machineClasses) :
    PTypeNaming (nameOr Model.genEnumDecode (Spec.pTypeTable m)) ∧
    NobitsNaming (nameOr Model.genEnumDecode (Spec.shTypeTable m)) ∧
    ZlibNaming (decCOf Model.elfEnv) :=
  ⟨TieC02.ptype_naming _ (TieC02.tables_cover m hm).1, TieC02.nobits_naming _ (TieC02.tables_cover m hm).2,
   TieC02.zlib_naming⟩

/-! ## the error side

  Outside the domain of the exactness theorems the accessors fail; each failure the code can produce
  on a decoded header is a theorem.  (`data_compressed` above already has: declared size ≠ inflated
  size → ELFCompressionError; compression type other than ELFCOMPRESS_ZLIB → an error.) -/

/-- a section at an offset no stream position can hold (`sh_offset ≥ 2^63`): `seek` raises OverflowError -/
theorem data_raw_unreachable (zlib : Bytes → Nat → R Bytes) (env : Env) (S : ElfStructs) (file : Bytes) {decT : Nat → Val}
    (hT : NobitsNaming decT) (sh : Val) (s : Sec) (hsh : IsShdr decT sh s)
    (hnb : s.nobits = false) (hc : s.compressed = false) (ho : 2 ^ 63 ≤ s.offset) :
    ∃ o, sectionNew env S shFlags file sh = .ok o ∧ sectionData zlib S file o = .error .overflowError :=
  ⟨plainObj sh s, sectionNew_plain env S file hsh hc, sectionData_raw_offset_overflow zlib S file hT hsh hnb ho⟩

/-- ... or of a size no `read` can be asked for -/
theorem data_raw_oversize (zlib : Bytes → Nat → R Bytes) (env : Env) (S : ElfStructs) (file : Bytes) {decT : Nat → Val}
    (hT : NobitsNaming decT) (sh : Val) (s : Sec) (hsh : IsShdr decT sh s)
    (hnb : s.nobits = false) (hc : s.compressed = false) (ho : s.offset < 2 ^ 63) (hs : 2 ^ 63 ≤ s.size) :
    ∃ o, sectionNew env S shFlags file sh = .ok o ∧ sectionData zlib S file o = .error .overflowError :=
  ⟨plainObj sh s, sectionNew_plain env S file hsh hc, sectionData_raw_size_overflow zlib S file hT hsh hnb ho hs⟩

/-- a SHT_NOBITS section declaring `sh_size ≥ 2^63`: `b'\0' * n` raises OverflowError -/
theorem data_nobits_oversize (zlib : Bytes → Nat → R Bytes) (env : Env) (S : ElfStructs) (file : Bytes) {decT : Nat → Val}
    (hT : NobitsNaming decT) (sh : Val) (s : Sec) (hsh : IsShdr decT sh s)
    (hnb : s.nobits = true) (hc : s.compressed = false) (hs : 2 ^ 63 ≤ s.size) :
    ∃ o, sectionNew env S shFlags file sh = .ok o ∧ sectionData zlib S file o = .error .overflowError :=
  ⟨plainObj sh s, sectionNew_plain env S file hsh hc, sectionData_nobits_overflow zlib S file hT hsh hnb hs⟩

example : (⟨1, 0, 0, 2 ^ 63, 0, 1⟩ : Sec).nobits = false ∧ (⟨1, 0, 0, 2 ^ 63, 0, 1⟩ : Sec).compressed = false := by decide

/-- a section flagged compressed whose compression header lies at `sh_offset ≥ 2^63`: the section
    object cannot be made (`struct_parse` wraps the unrepresentable offset into ELFParseError) -/
theorem data_compressed_offset_unreachable (env : Env) (S : ElfStructs) (file : Bytes) {decT : Nat → Val}
    (sh : Val) (s : Sec) (hsh : IsShdr decT sh s) (hc : s.compressed = true) (ho : 2 ^ 63 ≤ s.offset) :
    sectionNew env S shFlags file sh = .error .elfParseError :=
  sectionNew_offset_overflow env S file hsh hc ho

/-- a compressed section whose stream zlib rejects is rejected with zlib's error; one whose payload
    starts beyond what `seek` reaches, or whose declared size `decompress` cannot be asked for
    (`ch_size + 1 ≥ 2^63`), with OverflowError -/
theorem data_compressed_bad_stream (zlib : Bytes → Nat → R Bytes) (S : ElfStructs) (cls : Nat) (file : Bytes)
    {decT decC : Nat → Val} (hT : NobitsNaming decT) (hC : ZlibNaming decC) (sh : Val) (s : Sec) (ch : Chdr)
    (hsh : IsShdr decT sh s) (hnb : s.nobits = false) (hc : s.compressed = true)
    (hty : ch.chType = ELFCOMPRESS_ZLIB) (hsz : S.Elf_Chdr.sizeof = some (chdrSize cls)) :
    (∀ e, s.offset + chdrSize cls < 2 ^ 63 → chdrSize cls ≤ s.size → s.size < 2 ^ 63 → ch.chSize + 1 < 2 ^ 63 →
      zlib (payload cls file s) (ch.chSize + 1) = .error e →
      sectionData zlib S file (zObj decC sh s ch) = .error e) ∧
    (2 ^ 63 ≤ s.offset + chdrSize cls → sectionData zlib S file (zObj decC sh s ch) = .error .overflowError) ∧
    (s.offset + chdrSize cls < 2 ^ 63 → chdrSize cls ≤ s.size → s.size < 2 ^ 63 → 2 ^ 63 ≤ ch.chSize + 1 →
      sectionData zlib S file (zObj decC sh s ch) = .error .overflowError) :=
  ⟨fun e ho hfull hs hw hz => sectionData_zlib_err zlib S cls file hT hC hsh hnb hc hty hsz ho hfull hs hw e hz,
   fun ho => sectionData_zlib_offset_overflow zlib S cls file hT hC hsh hnb hc hty hsz ho,
   fun ho hfull hs hw => sectionData_zlib_want_overflow zlib S cls file hT hC hsh hnb hc hty hsz ho hfull hs hw⟩

/-- SHT_NOBITS together with SHF_COMPRESSED — a combination the gABI forbids ("SHF_COMPRESSED cannot
    be applied to sections of type SHT_NOBITS"), so outside the property's quantifier; what the code
    does with it: it reads a compression header at `sh_offset` and answers a zero block of ITS
    `ch_size` (no error) -/
theorem data_nobits_compressed (zlib : Bytes → Nat → R Bytes) (env : Env) (S : ElfStructs) (file : Bytes)
    {decT decC : Nat → Val} (hT : NobitsNaming decT) (sh chv : Val) (s : Sec) (ch : Chdr) (p : Nat)
    (hsh : IsShdr decT sh s) (hnb : s.nobits = true) (hc : s.compressed = true)
    (hparse : structParseAt env S.Elf_Chdr file s.offset = .ok (chv, p)) (hch : IsChdr decC chv ch)
    (hs : ch.chSize < 2 ^ 63) :
    ∃ o, sectionNew env S shFlags file sh = .ok o ∧ sectionData zlib S file o = .ok (List.replicate ch.chSize 0) :=
  ⟨zObj decC sh s ch, sectionNew_compressed env S file hsh hc hparse hch, sectionData_nobits_z zlib S file hT hsh hnb hs⟩

example : (⟨8, 0x800, 0, 0x40, 0, 1⟩ : Sec).nobits = true ∧ (⟨8, 0x800, 0, 0x40, 0, 1⟩ : Sec).compressed = true := by decide

/-- a segment whose extent no `seek` / `read` reaches -/
theorem segment_data_unreachable {decP : Nat → Val} (file : Bytes) (ph : Val) (g : Seg) (hph : IsPhdr decP ph g)
    (h : 2 ^ 63 ≤ g.offset ∨ (g.offset < 2 ^ 63 ∧ 2 ^ 63 ≤ g.filesz)) :
    segmentData file ph = .error .overflowError := by
  rcases h with h | ⟨h1, h2⟩
  · exact segmentData_offset_overflow file hph h
  · exact segmentData_size_overflow file hph h1 h2

/-- the interpreter path of a segment at an unreachable offset, or without a NUL before the end of the
    file, is an ELFParseError -/
theorem interp_name_unreachable (env : Env) {decP : Nat → Val} (file : Bytes) (ph : Val) (g : Seg)
    (hph : IsPhdr decP ph g) (ho : 2 ^ 63 ≤ g.offset) : getInterpName env file ph = .error .elfParseError :=
  getInterpName_offset_overflow env file hph ho

theorem interp_name_unterminated (env : Env) {decP : Nat → Val} (file : Bytes) (ph : Val) (g : Seg)
    (hph : IsPhdr decP ph g) (ho : g.offset < 2 ^ 63) (hs : interpName file g = none) :
    getInterpName env file ph = .error .elfParseError :=
  getInterpName_unterminated env file hph ho hs

example : interpName [1, 2, 0x2f, 0x6c] ⟨PT_INTERP, 2, 0, 2, 2⟩ = none := by decide

/-- a string offset no `seek` reaches -/
theorem get_string_unreachable (file : Bytes) (st : Val) (toff off : Nat)
    (h : st.getField "sh_offset" = .ok (.int toff)) (hp : 2 ^ 63 ≤ toff + off) :
    getString file st off = .error .overflowError :=
  getString_offset_overflow file off h hp

/-! ## section in segment against the whole binutils macro

  `macroFull64` (Spec/ContentsMacro.lean) is `ELF_SECTION_IN_SEGMENT_1 (sec, seg, 1, 1)` of binutils 2.40
  with every clause, in unsigned 64-bit arithmetic.  `section_in_segment` implements its four condition
  groups (segment type vs SHF_TLS; SHF_ALLOC vs PT_LOAD-like types; file extent; address extent — each
  with the strict `≤ size - 1` comparison and the empty-segment wrap) and NOT
    (a) `ELF_SECTION_SIZE`: a `.tbss` section (SHF_TLS, SHT_NOBITS) counts with size 0 outside PT_TLS,
    (b) "No zero size sections at start or end of PT_DYNAMIC nor PT_NOTE".
  `clausesInert g s` says (a) and (b) do not change the answer for the pair. -/

/-- the whole macro in ideal arithmetic, where nothing wraps -/
theorem macro_full_ideal (g : Seg) (s : Sec) (hfit : fits64 g s = true)
    (hf : g.offset ≤ s.offset → s.offset - g.offset + s.size < 2 ^ 64)
    (hv : g.vaddr ≤ s.addr → s.addr - g.vaddr + s.size < 2 ^ 64) :
    macroFull64 g s = inSegmentFull g s :=
  macroFull64_eq g s hfit hf hv

/-- equality with the whole C macro, PARTIAL: under the no-overflow hypotheses and `clausesInert`.
    Extends `in_segment_eq_C_macro_partial` (`plainCase → clausesInert`, and on `plainCase` the two
    macro texts agree): it also covers `.tbss` sections wherever the size rule does not matter and
    empty sections strictly inside PT_DYNAMIC / PT_NOTE segments.
    Full statement (FALSE of the code, see the two theorems after the next):
      `∀ g s, fits64 g s → no wrap → sectionInSegment … = .ok (macroFull64 g s)`. -/
theorem in_segment_eq_C_macro_full_partial {decP decT : Nat → Val} (hP : PTypeNaming decP) (hT : NobitsNaming decT)
    (ph sh : Val) (g : Seg) (s : Sec) (hph : IsPhdr decP ph g) (hsh : IsShdr decT sh s)
    (hfit : fits64 g s = true) (hin : clausesInert g s = true)
    (hf : g.offset ≤ s.offset → s.offset - g.offset + s.size < 2 ^ 64)
    (hv : g.vaddr ≤ s.addr → s.addr - g.vaddr + s.size < 2 ^ 64) :
    sectionInSegment shFlags ph sh = .ok (macroFull64 g s) := by
  rw [macroFull64_eq g s hfit hf hv, ← (clausesInert_iff g s).2 hin]
  exact sectionInSegment_eq hP hT hph hsh

theorem plain_case_is_inert (g : Seg) (s : Sec) (h : plainCase g s = true) :
    clausesInert g s = true ∧ macroFull64 g s = macro64 g s :=
  ⟨plainCase_inert h, macroFull64_eq_macro64 g s h⟩

-- non-vacuity beyond `plainCase`: a `.tbss` that fits its PT_LOAD with its real size; an empty section
-- strictly inside a PT_NOTE segment
example : plainCase ⟨PT_LOAD, 0x100, 0x1000, 0x40, 0x80⟩ ⟨8, 0x403, 0x1040, 0x140, 0x20, 1⟩ = false ∧
    clausesInert ⟨PT_LOAD, 0x100, 0x1000, 0x40, 0x80⟩ ⟨8, 0x403, 0x1040, 0x140, 0x20, 1⟩ = true ∧
    fits64 ⟨PT_LOAD, 0x100, 0x1000, 0x40, 0x80⟩ ⟨8, 0x403, 0x1040, 0x140, 0x20, 1⟩ = true := by decide
example : plainCase ⟨PT_NOTE, 0x100, 0x1000, 0x40, 0x40⟩ ⟨1, 2, 0x1010, 0x110, 0, 1⟩ = false ∧
    clausesInert ⟨PT_NOTE, 0x100, 0x1000, 0x40, 0x40⟩ ⟨1, 2, 0x1010, 0x110, 0, 1⟩ = true := by decide

/-- the domain of the partial theorem is exact: where nothing wraps, the code's answer is the whole
    macro's IF AND ONLY IF the two clauses are inert -/
theorem in_segment_eq_C_macro_iff {decP decT : Nat → Val} (hP : PTypeNaming decP) (hT : NobitsNaming decT)
    (ph sh : Val) (g : Seg) (s : Sec) (hph : IsPhdr decP ph g) (hsh : IsShdr decT sh s)
    (hfit : fits64 g s = true)
    (hf : g.offset ≤ s.offset → s.offset - g.offset + s.size < 2 ^ 64)
    (hv : g.vaddr ≤ s.addr → s.addr - g.vaddr + s.size < 2 ^ 64) :
    sectionInSegment shFlags ph sh = .ok (macroFull64 g s) ↔ clausesInert g s = true := by
  rw [sectionInSegment_eq hP hT hph hsh, macroFull64_eq g s hfit hf hv, ← clausesInert_iff]
  constructor
  · intro h; exact Except.ok.inj h
  · intro h; rw [h]

/-- (a) is not implemented: a `.tbss` section larger than what is left of its PT_LOAD segment is inside
    by the macro (it occupies no address space there) and outside by the code -/
theorem in_segment_lacks_tbss_rule :
    ∃ g s, fits64 g s = true ∧ tbssSpecial g s = true ∧ macroFull64 g s = true ∧ inSegmentStrict g s = false :=
  ⟨⟨PT_LOAD, 0x100, 0x1000, 0x40, 0x40⟩, ⟨8, 0x403, 0x1030, 0x130, 0x20, 1⟩, by decide⟩

/-- (b) is not implemented: an empty section at the very start of a PT_DYNAMIC (or PT_NOTE) segment is
    outside by the macro and inside by the code -/
theorem in_segment_lacks_empty_edge_clause :
    ∃ g s, fits64 g s = true ∧ tbssSpecial g s = false ∧ macroFull64 g s = false ∧ inSegmentStrict g s = true :=
  ⟨⟨PT_DYNAMIC, 0x100, 0x1000, 0x40, 0x40⟩, ⟨1, 3, 0x1000, 0x100, 0, 1⟩, by decide⟩

/-! ## whole files: composition with C01

  `Carries env d bytes`: `d` is well-formed with compressed sections admitted (`Spec.ElfDesc.wfZ`),
  `bytes` is ANY byte string with `Layout d bytes` (every region of the description at its offset,
  nothing else constrained), and `d.observe` is defined (C01's three hypotheses).  The model functions
  `file…` (Model/ContentsFile.lean) are `ELFFile(BytesIO(bytes))` → `get_section(i)` / `get_segment(j)` →
  accessor, instantiated with the Spec bundles (= the bundles of /repo: TieC01, TieC02).
  `secOf` / `segOf` read the numeric header fields off the description.  The naming hypotheses are
  discharged for /repo's tables by `file_naming`.  A hypothesis `offset + size < 2^63` holds of every
  non-empty stored body in a byte string Python can hold (`stored_extent_reachable`). -/

/-- every image the Spec assembler makes of a well-formed description carries it (non-vacuity of
    `Carries`; the check evaluates `wfZ` and assembles on every generated description) -/
theorem carries_assembled (env : Env) (d : ElfDesc) (tail : Nat) (bytes : Bytes) (obs : ElfObs)
    (hwf : d.wfZ env = true) (h : d.assemble tail = some bytes) (ho : d.observe env = .ok obs) :
    Carries env d bytes :=
  carries_of_assemble hwf h ho

/-- the naming hypotheses hold of the decoders /repo attaches to every well-formed description -/
theorem file_naming (d : ElfDesc) (hwf : d.wfZ Model.elfEnv = true) :
    PTypeNaming (decPOf Model.elfEnv d) ∧ NobitsNaming (decTOf Model.elfEnv d) ∧ ZlibNaming (decCOf Model.elfEnv) ∧
    (∀ n, decTOf Model.elfEnv d n = .str "SHT_STRTAB" ↔ n = 3) ∧
    (∀ n, decPOf Model.elfEnv d n = .str "PT_INTERP" ↔ n = PT_INTERP) := by
  have hm := wfZ_mclass hwf
  obtain ⟨h1, h2, h3⟩ := naming_holds d.mclass hm
  exact ⟨h1, h2, h3, TieC02.strtab_naming _ (TieC02.tables_cover _ hm).2, TieC02.interp_naming _ (TieC02.tables_cover _ hm).1⟩

theorem stored_extent_reachable (env : Env) (d : ElfDesc) (bytes : Bytes) (h : Carries env d bytes)
    (i : Nat) (hi : i < d.sections.length) (hne : bodyOf d.sections[i] ≠ []) (hlen : bytes.length < 2 ^ 63) :
    (secOf d.sections[i]).offset + (bodyOf d.sections[i]).length < 2 ^ 63 :=
  stored_fits (layout_facts h.layout) (List.getElem_mem hi) hne hlen

section wholeFile
variable (zlib : Bytes → Nat → R Bytes) (env : Env) (d : ElfDesc) (bytes : Bytes) (h : Carries env d bytes)
include h

/-- `get_section(i).data()` of a section that is neither SHT_NOBITS nor flagged compressed is exactly
    the bytes the description stores for it (= the file bytes of its extent); `data_size`,
    `data_alignment` are the header's and `compressed` is false -/
theorem file_data_raw (hT : NobitsNaming (decTOf env d)) (i : Nat) (hi : i < d.sections.length) (b : Bytes)
    (hst : StoresPlain d.sections[i] b)
    (hfit : (secOf d.sections[i]).offset + (secOf d.sections[i]).size < 2 ^ 63) :
    fileSectionData env C01.specStructs C01.specMachineClass shFlags bytes zlib i = .ok b ∧
    b = extent bytes (secOf d.sections[i]).offset (secOf d.sections[i]).size ∧
    fileSectionMeta env C01.specStructs C01.specMachineClass shFlags bytes i
      = .ok (false, .int (secOf d.sections[i]).size, .int (secOf d.sections[i]).addralign) := by
  obtain ⟨f, X, hL⟩ := h.facts
  rw [C01.specStructs_eq, C01.specMachineClass_eq]
  obtain ⟨h1, h2, h3⟩ := file_plain zlib X hL hT hi hst hfit
  refine ⟨h1, ?_, h3⟩
  rw [h1] at h2; cases h2; rfl

/-- SHT_NOBITS: a zero block of the declared size, wherever `sh_offset` points -/
theorem file_data_nobits (hT : NobitsNaming (decTOf env d)) (i : Nat) (hi : i < d.sections.length)
    (hnb : (secOf d.sections[i]).nobits = true) (hc : (secOf d.sections[i]).compressed = false)
    (hs : (secOf d.sections[i]).size < 2 ^ 63) :
    fileSectionData env C01.specStructs C01.specMachineClass shFlags bytes zlib i
      = .ok (List.replicate (secOf d.sections[i]).size 0) ∧
    fileSectionMeta env C01.specStructs C01.specMachineClass shFlags bytes i
      = .ok (false, .int (secOf d.sections[i]).size, .int (secOf d.sections[i]).addralign) := by
  obtain ⟨f, X, -⟩ := h.facts
  rw [C01.specStructs_eq, C01.specMachineClass_eq]
  exact file_nobits zlib X hT hi hnb hc hs

/-- SHF_COMPRESSED, the compression header `ch` of the file's class followed by the stream `z`:
    `compressed` is true, `data_size` / `data_alignment` are `ch_size` / `ch_addralign`; `data()` is the
    fully inflated stream when the type is ELFCOMPRESS_ZLIB and its length is the declared `ch_size`,
    ELFCompressionError when the length differs, and an error for any other compression type.
    `hz`: zlib's `decompress(z, n)` returns the first `n` bytes of the inflated stream. -/
theorem file_data_compressed (inflate : Bytes → Option Bytes) (hT : NobitsNaming (decTOf env d))
    (hC : ZlibNaming (decCOf env)) (i : Nat) (hi : i < d.sections.length) (ch : Chdr) (z : Bytes)
    (hst : StoresCompressed d.cls d.le d.sections[i] ch z)
    (hfit : (secOf d.sections[i]).offset + (secOf d.sections[i]).size < 2 ^ 63)
    (hw : ch.chSize + 1 < 2 ^ 63) (P : Bytes) (hP : inflate z = some P)
    (hz : ∀ n, 0 < n → zlib z n = .ok (P.take n)) :
    fileSectionMeta env C01.specStructs C01.specMachineClass shFlags bytes i
      = .ok (true, .int ch.chSize, .int ch.chAlign) ∧
    (fileSectionData env C01.specStructs C01.specMachineClass shFlags bytes zlib i).toOption = inflatedOf inflate ch z ∧
    (ch.chType = ELFCOMPRESS_ZLIB → P.length = ch.chSize →
      fileSectionData env C01.specStructs C01.specMachineClass shFlags bytes zlib i = .ok P) ∧
    (ch.chType = ELFCOMPRESS_ZLIB → P.length ≠ ch.chSize →
      fileSectionData env C01.specStructs C01.specMachineClass shFlags bytes zlib i = .error .elfCompressionError) ∧
    (ch.chType ≠ ELFCOMPRESS_ZLIB →
      fileSectionData env C01.specStructs C01.specMachineClass shFlags bytes zlib i = .error .elfCompressionError ∨
      fileSectionData env C01.specStructs C01.specMachineClass shFlags bytes zlib i = .error .valueError) := by
  obtain ⟨f, X, hL⟩ := h.facts
  rw [C01.specStructs_eq, C01.specMachineClass_eq]
  exact file_compressed zlib inflate X hL hT hC hi hst hfit hw P hP hz

/-- ... a stream zlib rejects is rejected with zlib's error, and a declared size `decompress` cannot be
    asked for (`ch_size + 1 ≥ 2^63`) with OverflowError -/
theorem file_data_compressed_rejected (hT : NobitsNaming (decTOf env d))
    (hC : ZlibNaming (decCOf env)) (i : Nat) (hi : i < d.sections.length) (ch : Chdr) (z : Bytes)
    (hst : StoresCompressed d.cls d.le d.sections[i] ch z)
    (hfit : (secOf d.sections[i]).offset + (secOf d.sections[i]).size < 2 ^ 63)
    (hty : ch.chType = ELFCOMPRESS_ZLIB) :
    (∀ e, ch.chSize + 1 < 2 ^ 63 → zlib z (ch.chSize + 1) = .error e →
      fileSectionData env C01.specStructs C01.specMachineClass shFlags bytes zlib i = .error e) ∧
    (2 ^ 63 ≤ ch.chSize + 1 →
      fileSectionData env C01.specStructs C01.specMachineClass shFlags bytes zlib i = .error .overflowError) := by
  obtain ⟨f, X, hL⟩ := h.facts
  rw [C01.specStructs_eq, C01.specMachineClass_eq]
  exact ⟨fun e hw hz => file_compressed_badstream zlib X hL hT hC hi hst hfit hty hw e hz,
         fun hw => file_compressed_want_overflow zlib X hL hT hC hi hst hfit hty hw⟩

/-- the error side for sections not flagged compressed, whole files: an extent `seek` / `read` / `* n`
    cannot reach is an OverflowError -/
theorem file_data_unreachable (hT : NobitsNaming (decTOf env d)) (i : Nat) (hi : i < d.sections.length)
    (hc : (secOf d.sections[i]).compressed = false)
    (hbad : ((secOf d.sections[i]).nobits = false ∧ 2 ^ 63 ≤ (secOf d.sections[i]).offset) ∨
            ((secOf d.sections[i]).nobits = false ∧ (secOf d.sections[i]).offset < 2 ^ 63 ∧ 2 ^ 63 ≤ (secOf d.sections[i]).size) ∨
            ((secOf d.sections[i]).nobits = true ∧ 2 ^ 63 ≤ (secOf d.sections[i]).size)) :
    fileSectionData env C01.specStructs C01.specMachineClass shFlags bytes zlib i = .error .overflowError := by
  obtain ⟨f, X, -⟩ := h.facts
  rw [C01.specStructs_eq, C01.specMachineClass_eq]
  obtain ⟨sh, hI, hD⟩ := fileSectionData_plain_bridge zlib X hi hc
  rw [hD]
  rcases hbad with ⟨h1, h2⟩ | ⟨h1, h2, h3⟩ | ⟨h1, h2⟩
  · exact sectionData_raw_offset_overflow zlib f.S bytes hT hI h1 h2
  · exact sectionData_raw_size_overflow zlib f.S bytes hT hI h1 h2 h3
  · exact sectionData_nobits_overflow zlib f.S bytes hT hI h1 h2

omit zlib in
/-- `get_section(i).get_string(off)` on a string table: the NUL-terminated string at `off` of the table
    the description stores, whatever its length -/
theorem file_get_string_exact (i : Nat) (hi : i < d.sections.length)
    (hk : decTOf env d (secOf d.sections[i]).shType = .str "SHT_STRTAB") (off : Nat) (str : Bytes)
    (hp : (secOf d.sections[i]).offset + off < 2 ^ 63) (hs : stringAt (tableOf d.sections[i]) off = some str) :
    fileGetString env C01.specStructs C01.specMachineClass bytes i off = .ok str := by
  obtain ⟨f, X, hL⟩ := h.facts
  rw [C01.specStructs_eq, C01.specMachineClass_eq]
  exact file_get_string X hL hi hk hp hs

omit zlib in
/-- ... at ANY reachable offset of a string table: the bytes up to the first NUL from there in the file
    (`''` when there is none), and OverflowError at an offset no `seek` reaches -/
theorem file_get_string_any_offset (i : Nat) (hi : i < d.sections.length)
    (hk : decTOf env d (secOf d.sections[i]).shType = .str "SHT_STRTAB") (off : Nat) :
    ((secOf d.sections[i]).offset + off < 2 ^ 63 →
      fileGetString env C01.specStructs C01.specMachineClass bytes i off
        = .ok ((firstNul (bytes.drop ((secOf d.sections[i]).offset + off))).getD [])) ∧
    (2 ^ 63 ≤ (secOf d.sections[i]).offset + off →
      fileGetString env C01.specStructs C01.specMachineClass bytes i off = .error .overflowError) := by
  obtain ⟨f, X, -⟩ := h.facts
  rw [C01.specStructs_eq, C01.specMachineClass_eq]
  exact ⟨fun hp => file_get_string_any X hi hk hp, fun hp => file_get_string_overflow X hi hk hp⟩

omit zlib in
/-- `get_segment(j).data()` is exactly the segment's file extent -/
theorem file_segment_data_exact (j : Nat) (hj : j < d.segments.length)
    (ho : (segOf d.segments[j]).offset < 2 ^ 63) (hs : (segOf d.segments[j]).filesz < 2 ^ 63) :
    fileSegmentData env C01.specStructs C01.specMachineClass bytes j = .ok (segData bytes (segOf d.segments[j])) := by
  obtain ⟨f, X, -⟩ := h.facts
  rw [C01.specStructs_eq, C01.specMachineClass_eq]
  exact file_segment_data X hj ho hs

omit zlib in
/-- ... the bytes the description stores there, when the extent lies inside a section body -/
theorem file_segment_data_stored (j : Nat) (hj : j < d.segments.length) (i : Nat) (hi : i < d.sections.length) (k : Nat)
    (hin : SegInBody (segOf d.segments[j]) d.sections[i] k)
    (ho : (segOf d.segments[j]).offset < 2 ^ 63) (hs : (segOf d.segments[j]).filesz < 2 ^ 63) :
    fileSegmentData env C01.specStructs C01.specMachineClass bytes j
      = .ok (segBytes (segOf d.segments[j]) d.sections[i] k) := by
  obtain ⟨f, X, hL⟩ := h.facts
  rw [C01.specStructs_eq, C01.specMachineClass_eq, file_segment_data X hj ho hs,
    segData_in_body hL (List.getElem_mem hi) hin]

omit zlib in
/-- ... and an extent no `seek` / `read` reaches is an OverflowError -/
theorem file_segment_data_unreachable (j : Nat) (hj : j < d.segments.length)
    (hbad : 2 ^ 63 ≤ (segOf d.segments[j]).offset ∨
      ((segOf d.segments[j]).offset < 2 ^ 63 ∧ 2 ^ 63 ≤ (segOf d.segments[j]).filesz)) :
    fileSegmentData env C01.specStructs C01.specMachineClass bytes j = .error .overflowError := by
  obtain ⟨f, X, -⟩ := h.facts
  rw [C01.specStructs_eq, C01.specMachineClass_eq]
  obtain ⟨ph, hP, hD⟩ := fileSegmentData_bridge X hj
  rw [hD]
  exact segment_data_unreachable bytes ph _ hP hbad

omit zlib in
/-- `get_segment(j).get_interp_name()` on a PT_INTERP segment: the NUL-terminated string at the segment
    start — the one the description stores there when the segment starts inside a section body -/
theorem file_interp_name (j : Nat) (hj : j < d.segments.length)
    (hk : decPOf env d (segOf d.segments[j]).ptype = .str "PT_INTERP")
    (ho : (segOf d.segments[j]).offset < 2 ^ 63) (path : Bytes) :
    (interpName bytes (segOf d.segments[j]) = some path →
      fileInterpName env C01.specStructs C01.specMachineClass bytes j = .ok path) ∧
    (∀ i (hi : i < d.sections.length) k, (segOf d.segments[j]).offset = (secOf d.sections[i]).offset + k →
      firstNul ((bodyOf d.sections[i]).drop k) = some path →
      fileInterpName env C01.specStructs C01.specMachineClass bytes j = .ok path) := by
  obtain ⟨f, X, hL⟩ := h.facts
  rw [C01.specStructs_eq, C01.specMachineClass_eq]
  refine ⟨fun hs => file_interp X hj hk ho hs, fun i hi k hoff hp => ?_⟩
  exact file_interp X hj hk ho (interpName_in_body hL (List.getElem_mem hi) hoff hp)

omit zlib in
/-- ... and a PT_INTERP segment at an offset `struct_parse` cannot seek to, or with no NUL between its
    start and the end of the file, has no path: ELFParseError -/
theorem file_interp_name_rejected (j : Nat) (hj : j < d.segments.length)
    (hk : decPOf env d (segOf d.segments[j]).ptype = .str "PT_INTERP")
    (hbad : 2 ^ 63 ≤ (segOf d.segments[j]).offset ∨
      ((segOf d.segments[j]).offset < 2 ^ 63 ∧ interpName bytes (segOf d.segments[j]) = none)) :
    fileInterpName env C01.specStructs C01.specMachineClass bytes j = .error .elfParseError := by
  obtain ⟨f, X, -⟩ := h.facts
  rw [C01.specStructs_eq, C01.specMachineClass_eq]
  obtain ⟨ph, hP, hD⟩ := fileInterpName_bridge X hj hk
  rw [hD]
  rcases hbad with h1 | ⟨h1, h2⟩
  · exact getInterpName_offset_overflow env bytes hP h1
  · exact getInterpName_unterminated env bytes hP h1 h2

omit zlib in
/-- `address_offsets(start, size)`: in program-header order, the offsets given by exactly those PT_LOAD
    segments of the description that wholly contain the range -/
theorem file_addr_offsets (hP : PTypeNaming (decPOf env d)) (start size : Nat) :
    fileAddressOffsets env C01.specStructs C01.specMachineClass bytes (start : Int) (size : Int)
      = .ok ((addrOffsets (d.segments.map segOf) start size).map Int.ofNat) := by
  obtain ⟨f, X, -⟩ := h.facts
  rw [C01.specStructs_eq, C01.specMachineClass_eq]
  exact file_address_offsets X hP start size

omit zlib in
/-- `get_segment(j).section_in_segment(get_section(i))` is the strict rule on the description's headers -/
theorem file_in_segment_strict (hP : PTypeNaming (decPOf env d)) (hT : NobitsNaming (decTOf env d))
    (j i : Nat) (hj : j < d.segments.length) (hi : i < d.sections.length) :
    fileSectionInSegment env C01.specStructs C01.specMachineClass shFlags bytes j i
      = .ok (inSegmentStrict (segOf d.segments[j]) (secOf d.sections[i])) := by
  obtain ⟨f, X, -⟩ := h.facts
  rw [C01.specStructs_eq, C01.specMachineClass_eq]
  exact file_in_segment X hP hT hj hi

end wholeFile

/-! non-vacuity of the storage predicates (the whole-file hypotheses `wfZ` / `Layout` / `observe` are
    C01's: `carries_assembled`; the check evaluates `wfZ`, assembles and observes every generated
    description, and compares the real library against `Stores…`-derived expectations) -/

private def exHdr (ty flags off size : Nat) : Fields :=
  [("sh_type", .int ty), ("sh_flags", .int flags), ("sh_addr", .int 0), ("sh_offset", .int off), ("sh_size", .int size),
   ("sh_link", .int 0), ("sh_info", .int 0), ("sh_addralign", .int 4), ("sh_entsize", .int 0)]

example : StoresPlain ⟨[0x2e, 0x64], exHdr 1 3 96 3, some [1, 2, 3], 1⟩ [1, 2, 3] := by
  refine ⟨by decide, by decide, by decide, by decide⟩
example : StoresPlain ⟨[0x2e, 0x64], exHdr 1 3 96 2, some [1, 2, 3], 1⟩ [1, 2] := by
  refine ⟨by decide, by decide, by decide, by decide⟩
example : StoresCompressed 32 true ⟨[0x2e, 0x7a], exHdr 1 0x800 96 15, some (encChdr 32 true ⟨1, 5, 8⟩ ++ [0x78, 0x9c, 0x03]), 1⟩
    ⟨1, 5, 8⟩ [0x78, 0x9c, 0x03] := by
  refine ⟨by decide, by decide, by decide, rfl, by decide⟩
example : stringAt (tableOf ⟨[0x2e, 0x73], exHdr 3 0 64 7, some [0, 0x61, 0x62, 0, 0x63, 0x64, 0], 1⟩) 4 = some [0x63, 0x64] := by
  decide
example : SegInBody ⟨PT_LOAD, 97, 0x1000, 2, 2⟩ ⟨[0x2e, 0x64], exHdr 1 3 96 3, some [1, 2, 3], 1⟩ 1 ∧
    segBytes ⟨PT_LOAD, 97, 0x1000, 2, 2⟩ ⟨[0x2e, 0x64], exHdr 1 3 96 3, some [1, 2, 3], 1⟩ 1 = [2, 3] := by
  refine ⟨⟨by decide, by decide⟩, by decide⟩
example : inflatedOf (fun z => if z = [0x78, 0x9c, 0x03] then some [7, 7, 7, 7, 7] else none) ⟨1, 5, 8⟩ [0x78, 0x9c, 0x03]
    = some [7, 7, 7, 7, 7] := by decide

end PyElf.Props.C02
