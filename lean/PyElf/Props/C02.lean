/-
  C02 — Section and segment contents, string tables and address mapping are exact.

  Property theorems only.  The Spec side (Spec/Contents.lean) says, over numeric on-disk values
  (`Sec`, `Seg`, `Chdr`) and the file image, what a section's data, logical size and alignment, a
  segment's data, the interpreter path, a string-table entry, the file offsets of an address range
  and binutils' strict section-in-segment rule ARE.  The model (Model/Contents.lean) mirrors
  sections.py / segments.py / elffile.py.  `sh`, `ph`, `chv` are decoded headers as C01 proves them
  to be reported (`IsShdr`/`IsPhdr`/`IsChdr`: the numeric fields, with type codes reported by name or
  as raw integers through `decT`/`decP`/`decC`); the naming hypotheses (`NobitsNaming`, `PTypeNaming`,
  `ZlibNaming`) are proved for every decoding table of /repo in TieC02.  zlib is an external call:
  `zlib c n` stands for `decompressobj().decompress(c, n)`, `inflate` for the fully inflated payload;
  the one assumption relating them is stated where it is used (`hz`).
-/
import PyElf.Proofs.Contents
import PyElf.Props.TieC02
namespace PyElf.Props.C02
open PyElf PyElf.Spec PyElf.Model PyElf.Proofs
open PyElf.Spec.C02 PyElf.Model.C02 PyElf.Proofs.C02

/-! ### C-strings and string tables -/

/-- the chunked reader returns the bytes before the first NUL whatever the chunk size
    (63/64/65-byte strings are instances, not tests) -/
theorem cstring_chunked_eq (data : Bytes) (pos k : Nat) (hk : 1 ≤ k) :
    parseCStringFromStream data pos k = .ok (firstNul (data.drop pos)) := by
  have := cstringChunkLoop_eq data k hk (data.length - pos + 2) pos [] (by omega)
  simpa [parseCStringFromStream] using this

/-- `get_string(off)`: the bytes up to the first NUL at `sh_offset + off` of the file, whatever their
    number; `''` both for an empty string and when no NUL follows -/
theorem get_string_file (file : Bytes) (st : Val) (toff off : Nat)
    (h : st.getField "sh_offset" = .ok (.int toff)) (hp : toff + off < 2 ^ 63) :
    getString file st off = .ok ((firstNul (file.drop (toff + off))).getD []) :=
  getString_eq file off h hp

/-- ... which is the NUL-terminated string at `off` of the table whenever the table holds one there
    (in particular for every offset inside a table that ends with NUL) -/
theorem get_string_exact {decT : Nat → Val} (file : Bytes) (st : Val) (t : Sec) (off : Nat) (str : Bytes)
    (hst : IsShdr decT st t) (hp : t.offset + off < 2 ^ 63)
    (hs : stringAt (extent file t.offset t.size) off = some str) :
    getString file st off = .ok str := by
  rw [getString_eq file off hst.offset hp, stringAt_extent file _ _ _ _ hs]; rfl

example : stringAt (extent [9, 9, 0, 0x61, 0x62, 0, 7] 2 4) 1 = some [0x61, 0x62] := by decide

/-! ### section contents -/

/-- not compressed: logical size and alignment are the header's -/
theorem section_plain_size_align (env : Env) (S : ElfStructs) (file : Bytes) {decT : Nat → Val} (sh : Val) (s : Sec)
    (hsh : IsShdr decT sh s) (hc : s.compressed = false) :
    ∃ o, sectionNew env S shFlags file sh = .ok o ∧ (o.compressed != 0) = false ∧
      o.dsize = .int (logicalSize s none) ∧ o.dalign = .int (logicalAlign s none) := by
  refine ⟨plainObj sh s, sectionNew_plain env S file hsh hc, rfl, ?_, ?_⟩ <;>
    simp [plainObj, logicalSize, logicalAlign, hc]

/-- the data of a section that is neither SHT_NOBITS nor compressed is exactly the file bytes of its extent -/
theorem data_raw (zlib : Bytes → Nat → R Bytes) (env : Env) (S : ElfStructs) (cls : Nat) (file : Bytes) {decT : Nat → Val}
    (hT : NobitsNaming decT) (sh : Val) (s : Sec) (hsh : IsShdr decT sh s)
    (hnb : s.nobits = false) (hc : s.compressed = false) (ho : s.offset < 2 ^ 63) (hs : s.size < 2 ^ 63)
    (inflate : Bytes → Option Bytes) :
    ∃ o, sectionNew env S shFlags file sh = .ok o ∧
      sectionData zlib S file o = .ok (extent file s.offset s.size) ∧
      dataOf inflate cls file s none = some (extent file s.offset s.size) := by
  refine ⟨plainObj sh s, sectionNew_plain env S file hsh hc, sectionData_raw zlib S file hT hsh hnb ho hs, ?_⟩
  simp [dataOf, hnb, hc]

/-- SHT_NOBITS: a zero block of the declared size -/
theorem data_nobits (zlib : Bytes → Nat → R Bytes) (env : Env) (S : ElfStructs) (cls : Nat) (file : Bytes) {decT : Nat → Val}
    (hT : NobitsNaming decT) (sh : Val) (s : Sec) (hsh : IsShdr decT sh s)
    (hnb : s.nobits = true) (hc : s.compressed = false) (hs : s.size < 2 ^ 63) (inflate : Bytes → Option Bytes) :
    ∃ o, sectionNew env S shFlags file sh = .ok o ∧
      sectionData zlib S file o = .ok (List.replicate s.size 0) ∧
      dataOf inflate cls file s none = some (List.replicate s.size 0) := by
  refine ⟨plainObj sh s, sectionNew_plain env S file hsh hc, sectionData_nobits zlib S file hT hsh hnb hs, ?_⟩
  simp [dataOf, hnb]

/-- SHF_COMPRESSED: logical size and alignment come from the compression header; the data is the
    fully inflated payload of the bytes after the header when its length is the declared `ch_size`;
    a stream of any other inflated length, and any compression type other than ELFCOMPRESS_ZLIB, is
    rejected.  In every case the model's answer is the Spec's `dataOf`.
    `hz`: zlib's `decompress(c, n)` returns the first `n` bytes of the inflated payload. -/
theorem data_compressed (zlib : Bytes → Nat → R Bytes) (inflate : Bytes → Option Bytes) (env : Env) (S : ElfStructs)
    (cls : Nat) (file : Bytes) {decT decC : Nat → Val} (hT : NobitsNaming decT) (hC : ZlibNaming decC)
    (sh chv : Val) (s : Sec) (ch : Chdr) (p : Nat) (hsh : IsShdr decT sh s)
    (hnb : s.nobits = false) (hc : s.compressed = true)
    (hparse : structParseAt env S.Elf_Chdr file s.offset = .ok (chv, p)) (hch : IsChdr decC chv ch)
    (hsz : S.Elf_Chdr.sizeof = some (chdrSize cls))
    (ho : s.offset + chdrSize cls < 2 ^ 63) (hfull : chdrSize cls ≤ s.size) (hs : s.size < 2 ^ 63)
    (hw : ch.chSize + 1 < 2 ^ 63) (P : Bytes) (hP : inflate (payload cls file s) = some P)
    (hz : ∀ n, 0 < n → zlib (payload cls file s) n = .ok (P.take n)) :
    ∃ o, sectionNew env S shFlags file sh = .ok o ∧ (o.compressed != 0) = true ∧
      o.dsize = .int (logicalSize s (some ch)) ∧ o.dalign = .int (logicalAlign s (some ch)) ∧
      (sectionData zlib S file o).toOption = dataOf inflate cls file s (some ch) ∧
      (ch.chType = ELFCOMPRESS_ZLIB → P.length = ch.chSize → sectionData zlib S file o = .ok P) ∧
      (ch.chType = ELFCOMPRESS_ZLIB → P.length ≠ ch.chSize → sectionData zlib S file o = .error .elfCompressionError) ∧
      (ch.chType ≠ ELFCOMPRESS_ZLIB → ∃ e, sectionData zlib S file o = .error e) := by
  have hnew := sectionNew_compressed env S file hsh hc hparse hch
  have h0 : ¬ (s.flags &&& 0x800 = 0) := by
    intro h; rw [(compressed_false_iff s).2 h] at hc; cases hc
  have hzl := fun hty => sectionData_zlib zlib S cls file hT hC (sh := sh) (ch := ch) hsh hnb hc hty hsz ho hfull hs hw P
    (hz _ (by omega))
  refine ⟨zObj decC sh s ch, hnew, ?_, ?_, ?_, ?_, ?_, ?_, ?_⟩
  · simp only [zObj, bne_def', cast_beq_zero]; simpa using h0
  · simp [zObj, logicalSize, hc]
  · simp [zObj, logicalAlign, hc]
  · by_cases hty : ch.chType = ELFCOMPRESS_ZLIB
    · rw [hzl hty]
      simp only [dataOf, hnb, hc, hty, hP, Bool.false_eq_true, if_false, if_true]
      by_cases hl : P.length = ch.chSize <;> simp [hl, Except.toOption]
    · rcases sectionData_unknown zlib S file hT hC (sh := sh) (ch := ch) hsh hnb hc hty with h | h <;>
        simp [h, dataOf, hnb, hc, hty, Except.toOption]
  · intro hty hl; rw [hzl hty, if_pos hl]
  · intro hty hl; rw [hzl hty, if_neg hl]
  · intro hty
    rcases sectionData_unknown zlib S file hT hC (sh := sh) (ch := ch) hsh hnb hc hty with h | h
    · exact ⟨_, h⟩
    · exact ⟨_, h⟩

/-- the compression header is read exactly as the gABI lays it out, for both classes and byte orders,
    anywhere in any file (this discharges `hparse`/`hch`/`hsz` of `data_compressed` for the Spec bundles,
    which TieC02 proves equal to the bundles /repo builds) -/
theorem chdr_read32 (env : Env) (le : Bool) (m : String) (sol core : Bool) (c : Chdr) (hfit : c.fits 32 = true)
    (pre rest : Bytes) (hp : pre.length < 2 ^ 63) :
    ∃ v, structParseAt env (Spec.elfStructs ⟨le, 32, m, sol, core⟩).Elf_Chdr (pre ++ encChdr 32 le c ++ rest) pre.length
        = .ok (v, pre.length + chdrSize 32) ∧ IsChdr (decCOf env) v c ∧
      (Spec.elfStructs ⟨le, 32, m, sol, core⟩).Elf_Chdr.sizeof = some (chdrSize 32) := by
  obtain ⟨v, h1, h2⟩ := chdr_roundtrip32 env le m sol core c hfit (pre ++ encChdr 32 le c ++ rest) pre.length rest
    (drop_pre _ _ _) hp
  exact ⟨v, h1, h2, chdr_sizeof32 le m sol core⟩

theorem chdr_read64 (env : Env) (le : Bool) (m : String) (sol core : Bool) (c : Chdr) (hfit : c.fits 64 = true)
    (pre rest : Bytes) (hp : pre.length < 2 ^ 63) :
    ∃ v, structParseAt env (Spec.elfStructs ⟨le, 64, m, sol, core⟩).Elf_Chdr (pre ++ encChdr 64 le c ++ rest) pre.length
        = .ok (v, pre.length + chdrSize 64) ∧ IsChdr (decCOf env) v c ∧
      (Spec.elfStructs ⟨le, 64, m, sol, core⟩).Elf_Chdr.sizeof = some (chdrSize 64) := by
  obtain ⟨v, h1, h2⟩ := chdr_roundtrip64 env le m sol core c hfit (pre ++ encChdr 64 le c ++ rest) pre.length rest
    (drop_pre _ _ _) hp
  exact ⟨v, h1, h2, chdr_sizeof64 le m sol core⟩

example : (⟨1, 450, 8⟩ : Chdr).fits 32 = true := by decide

/-! ### segments -/

/-- a segment's data is exactly its file extent -/
theorem segment_data {decP : Nat → Val} (file : Bytes) (ph : Val) (g : Seg) (hph : IsPhdr decP ph g)
    (ho : g.offset < 2 ^ 63) (hs : g.filesz < 2 ^ 63) :
    segmentData file ph = .ok (segData file g) :=
  segmentData_eq file hph ho hs

/-- the interpreter path is the NUL-terminated string at the segment start -/
theorem interp_name (env : Env) {decP : Nat → Val} (file : Bytes) (ph : Val) (g : Seg) (path : Bytes)
    (hph : IsPhdr decP ph g) (ho : g.offset < 2 ^ 63) (hs : interpName file g = some path) :
    getInterpName env file ph = .ok path :=
  getInterpName_eq env file hph ho hs

example : interpName [1, 2, 0x2f, 0x6c, 0, 9] ⟨PT_INTERP, 2, 0, 3, 3⟩ = some [0x2f, 0x6c] := by decide

/-! ### virtual address → file offset -/

/-- `address_offsets(start, size)` yields, in program-header order, the offsets given by exactly those
    PT_LOAD segments with `p_vaddr ≤ start ∧ start + size ≤ p_vaddr + p_filesz` -/
theorem addr_offsets_exact {decP : Nat → Val} (hP : PTypeNaming decP) (phs : List Val) (segs : List Seg)
    (h : ArePhdrs decP phs segs) (start size : Nat) :
    addressOffsetsOf (start : Int) (size : Int) phs = .ok ((addrOffsets segs start size).map Int.ofNat) :=
  addressOffsetsOf_eq hP start size phs segs h

/-- ... over the segments `iter_segments` enumerates -/
theorem addr_offsets_file {decP : Nat → Val} (hP : PTypeNaming decP) (env : Env) (f : ElfFile)
    (kphs : List (String × Val)) (segs : List Seg)
    (hit : iterSegments env f.S f.data f.header f.shstr = .ok kphs)
    (h : ArePhdrs decP (kphs.map (·.2)) segs) (start size : Nat) :
    addressOffsets env f (start : Int) (size : Int) = .ok ((addrOffsets segs start size).map Int.ofNat) := by
  unfold addressOffsets
  simp only [hit, bind, Except.bind]
  exact addressOffsetsOf_eq hP start size _ segs h

example : addrOffsets [⟨PT_LOAD, 0x100, 0x1000, 0x20, 0x40⟩, ⟨PT_LOAD, 0x200, 0x1010, 0x10, 0x10⟩, ⟨PT_NOTE, 0, 0x1000, 0x40, 0x40⟩]
    0x1018 8 = [0x118, 0x208] := by decide

/-! ### section in segment -/

/-- `section_in_segment` is binutils' strict containment rule (the four condition groups), for all
    field values (no bound on any field is needed: Python integers do not wrap) -/
theorem in_segment_eq_strict {decP decT : Nat → Val} (hP : PTypeNaming decP) (hT : NobitsNaming decT)
    (ph sh : Val) (g : Seg) (s : Sec) (hph : IsPhdr decP ph g) (hsh : IsShdr decT sh s) :
    sectionInSegment shFlags ph sh = .ok (inSegmentStrict g s) :=
  sectionInSegment_eq hP hT hph hsh

/-- equality with the C macro `ELF_SECTION_IN_SEGMENT_STRICT` evaluated as C evaluates it
    (unsigned 64-bit), PARTIAL: under the no-overflow hypotheses `sh_offset - p_offset + sh_size < 2^64`
    and `sh_addr - p_vaddr + sh_size < 2^64`, and outside the two clauses of the macro the property does
    not enumerate (`.tbss` size rule; empty sections in PT_DYNAMIC / PT_NOTE).  The wrap case is outside
    the claim.
    Full statement (not claimed): `∀ g s, fits64 g s → macro64 g s = inSegmentStrict g s`. -/
theorem in_segment_eq_C_macro_partial {decP decT : Nat → Val} (hP : PTypeNaming decP) (hT : NobitsNaming decT)
    (ph sh : Val) (g : Seg) (s : Sec) (hph : IsPhdr decP ph g) (hsh : IsShdr decT sh s)
    (hfit : fits64 g s = true) (hplain : plainCase g s = true)
    (hf : g.offset ≤ s.offset → s.offset - g.offset + s.size < 2 ^ 64)
    (hv : g.vaddr ≤ s.addr → s.addr - g.vaddr + s.size < 2 ^ 64) :
    sectionInSegment shFlags ph sh = .ok (macro64 g s) := by
  rw [macro64_eq g s hfit hplain hf hv]
  exact sectionInSegment_eq hP hT hph hsh

/-- the full statement is false: in the wrap case the C macro and the ideal-arithmetic rule differ -/
theorem in_segment_C_macro_wrap_counterexample :
    ∃ g s, fits64 g s = true ∧ plainCase g s = true ∧ macro64 g s ≠ inSegmentStrict g s :=
  ⟨⟨PT_NOTE, 0x10, 0, 0x20, 0⟩, ⟨1, 0, 0, 0x18, 2 ^ 64 - 4, 1⟩, by decide⟩

-- non-vacuity: an empty section at the very end of a non-empty segment is outside, inside an empty one it is inside
example : inSegmentStrict ⟨PT_LOAD, 0x100, 0x1000, 0x20, 0x20⟩ ⟨1, 2, 0x1020, 0x120, 0, 1⟩ = false := by decide
example : inSegmentStrict ⟨PT_LOAD, 0x100, 0x1000, 0, 0⟩ ⟨1, 2, 0x1000, 0x100, 0, 1⟩ = true := by decide
example : inSegmentStrict ⟨PT_GNU_MBIND_LO, 0x100, 0, 0x20, 0⟩ ⟨1, 0, 0, 0x100, 8, 1⟩ = false := by decide

/-! ### the header hypotheses hold of what C01 proves reported -/

/-- the decoded section header C01 proves reported for a description's raw header (`Elf_Shdr.decodeRaw`
    of `SecDesc.raw`) carries the numeric fields, with `sh_type` reported through the machine's table -/
theorem shdr_shape (env : Env) (cfg : ElfCfg) (nameOff : Nat) (s : Sec) (link info entsize : Nat) :
    ∃ h, (Spec.elfStructs cfg).Elf_Shdr.decodeRaw env [] (rawShdr nameOff s link info entsize) = .ok h ∧
      IsShdr (nameOr env.enumDecode (shTypeTable cfg.mclass)) h s :=
  isShdr_of_decodeRaw env cfg nameOff s link info entsize

theorem phdr_shape32 (env : Env) (le : Bool) (m : String) (sol core : Bool) (g : Seg) (paddr flags align : Nat) :
    ∃ h, (Spec.elfStructs ⟨le, 32, m, sol, core⟩).Elf_Phdr.decodeRaw env [] (rawPhdr32 g paddr flags align) = .ok h ∧
      IsPhdr (nameOr env.enumDecode (pTypeTable m)) h g :=
  isPhdr_of_decodeRaw32 env le m sol core g paddr flags align

theorem phdr_shape64 (env : Env) (le : Bool) (m : String) (sol core : Bool) (g : Seg) (paddr flags align : Nat) :
    ∃ h, (Spec.elfStructs ⟨le, 64, m, sol, core⟩).Elf_Phdr.decodeRaw env [] (rawPhdr64 g paddr flags align) = .ok h ∧
      IsPhdr (nameOr env.enumDecode (pTypeTable m)) h g :=
  isPhdr_of_decodeRaw64 env le m sol core g paddr flags align

/-! ### the hypotheses hold of what /repo builds (TieC02) -/

/-- for every machine class, the decoders the Spec bundles (= the bundles of /repo) attach to `p_type`,
    `sh_type` and `ch_type`, instantiated with the regenerated tables, satisfy the naming hypotheses -/
theorem naming_holds (m : String) (hm : m ∈ Spec.machineClasses) :
    PTypeNaming (nameOr Model.genEnumDecode (Spec.pTypeTable m)) ∧
    NobitsNaming (nameOr Model.genEnumDecode (Spec.shTypeTable m)) ∧
    ZlibNaming (decCOf Model.elfEnv) :=
  ⟨TieC02.ptype_naming _ (TieC02.tables_cover m hm).1, TieC02.nobits_naming _ (TieC02.tables_cover m hm).2,
   TieC02.zlib_naming⟩

end PyElf.Props.C02
