/-
  C04 — debugging-information entries are decoded into exactly the encoded tree.

  Property theorems only.  Layers (each composed into the next; nothing is left to correspondence
  except what the last paragraph lists):
    * forms      : `form_table` (Props/TieC04) + `form_roundtrip`, `form_classes_total`; the legacy DW_FORM_ref
                   (0x02): `form_ref_roundtrip`, tied by Props/TieC04 `form_ref_entry` / `form_extra_keys`
    * abbrevs    : `abbrev_roundtrip`, `abbrev_roundtrip_table` — `_parse_abbrev_table` on `encAbbrevs`
    * entries    : `die_roundtrip` (every form, DW_FORM_indirect chains of any length,
                   DW_FORM_implicit_const), `die_null_roundtrip`, `top_die_roundtrip` (`get_top_DIE`
                   with the deferred `_translate_indirect_attributes`)
    * values     : `translate_resolve`, `translate_pre_resolve` — `_translate_attr_value` against
                   `Spec.C04.resolve` under an explicit `Sections` layout
    * iteration  : `iter_dies_flatten` (abstract in the entry decoder), `iter_dies_exact` (no hypothesis
                   about the cache / the decoder left), `children_parent_exact`
    * units      : `unit_header_roundtrip` (v2–5, six v5 unit types, both formats), `unit_chain`,
                   `type_unit_header_roundtrip` (v4 `.debug_types`), `tiling`, `tiling_unit`,
                   `tiling_type_unit`
    * references : `ref_unit_relative`, `ref_section_relative` (DW_FORM_ref_addr through C13's unit lookup),
                   `ref_sig8_units`, `ref_sig8_absent`, `ref_sig8_debug_types`, `ref_sig8_debug_info_v5`
                   (whole-section scans included; the DWARF 5 half after the fix for sig8-v5-type-unit)
    * sections   : `debug_info_exact`, `debug_types_exact` — END TO END: for every well-formed forest description
                   (Spec/DieSection `Forest`, `wfForestB`) the model of `iter_CUs()` / `iter_TUs()` + `iter_DIEs()`
                   on the Spec encoding of `.debug_info` / `.debug_types` / `.debug_abbrev` (+ string / address /
                   list tables) yields exactly the described units and per unit the flattening with resolved
                   values, parents, children, tiling up to the declared length.  The glue between a parsed unit
                   header and the `UnitCtx` of its entries is MODELLED (Model/DieSection `unitCtx`: `cu.structs` of
                   (format, address_size, version), abbreviation table at debug_abbrev_offset parsed with
                   `DWARFInfo.structs`, `cu.size`) and proved (`Proofs/DieSection`), no longer a hypothesis.
                   The theorems are about the model AS THE DRIVER RUNS IT (`Model.C04.genDInfo`: regenerated
                   registry, regenerated struct bundles through `Model.dwarfStructsFor`): `UnitOK` asks of a
                   unit's bundle only agreement with the standard's on the fields the DIE code reads
                   (`Proofs.C04.BundleEq`), which Props/TieC04 `gen_bundles` proves of every regenerated bundle;
                   `refs_info_exact` (unit- and section-relative references for every entry of every unit).
  Ties (Props/TieC04): struct fields (`dwarf_fields`, `dwarf_fields_for`, `gen_bundles`), `enum_ok`, `enum_forms`,
  `raw2name_forms`, `enum_ut`, `base_names`, `form_ref_entry`, `form_extra_keys`.
  Correspondence-only (model ↔ code checked by the harness on every run, no theorem):
    * signature references under a scan that raises (malformed unit in either section): the model re-raises the
      scan's exception (`sigUnits`), compared with the code only;
    * the driver answers DW_FORM_ref_addr queries with a linear search over the scanned units (`Driver.C04.sectionRef`);
      `refs_info_exact` is about C13's model of `get_CU_containing` (bisect over the unit cache, any reachable cache
      state).  Both are compared with the code; that they agree with each other is not stated;
    * the cache refinement of `_get_cached_DIE` / `_dielist` (C10), incl. a DIE fetched below
      cu_die_offset taking the top DIE's slot (driver: `fetch` / `low_fetch`).
-/
import PyElf.Core.Construct
import PyElf.Spec.DieTree
import PyElf.Model.Die
import PyElf.Proofs.DieForms
import PyElf.Proofs.DieIter
import PyElf.Proofs.DieAbbrev
import PyElf.Proofs.DieEntry
import PyElf.Proofs.DieUnit
import PyElf.Proofs.DieHeaders
import PyElf.Proofs.DieValues
import PyElf.Proofs.DieTop
import PyElf.Proofs.DieChildren
import PyElf.Spec.DieSection
import PyElf.Model.DieSection
import PyElf.Proofs.DieSection
import PyElf.Proofs.SigCache
import PyElf.Props.TieC04
namespace PyElf.Props.C04
open PyElf PyElf.Spec PyElf.Spec.C04 PyElf.Model.C04 PyElf.Proofs PyElf.Proofs.C04

/-! ### forms -/

/-- every form of the table × every configuration × every in-range operand (LEB128 of any
    length, empty and large blocks, …), anywhere in any byte string: the registered parser
    returns the operand's value and consumes exactly its bytes -/
theorem form_roundtrip (env : Env) (c : DwarfCfg) (k : Nat) (hk : k ∈ stdFormCodes) (cl : Cls)
    (hcl : formClass c k = some cl) (op : Operand) (hwf : wfOperand cl op = true) (pre rest : Bytes) (ctx : Fields) :
    ∃ P, (Spec.dwarfStructs c).form ((formName k).getD "") = some P ∧
      Con.parse env (pre ++ encOperand c.le cl op ++ rest) P ctx pre.length
        = .ok (rawVal op, pre.length + (encOperand c.le cl op).length, ctx) := by
  refine ⟨clsCon c.le cl, ?_, ?_⟩
  · rw [TieC04.form_table c k hk, hcl]; rfl
  · exact operand_roundtrip cl op hwf (drop_pre pre _ rest)

/--
  form_ref_roundtrip.  The legacy DW_FORM_ref (code 0x02; unassigned in DWARF 2–5, the 4-byte FORM_REF of DWARF 1.1,
  read by the library as a unit-relative reference): `Dwarf_dw_form['DW_FORM_ref']` — in the model the answer of
  `formParser`, tied to the regenerated dict entry of all 32 configurations by Props/TieC04 `form_ref_entry`,
  `form_extra_keys` — reads exactly the four bytes of the operand, in the unit's byte order.  With it code 0x02 is a
  member of `formCodes` / has a `formClass`, so every theorem below (`die_roundtrip`, `iter_dies_exact`,
  `debug_info_exact`, DW_AT_sibling in that form through `sibsOk`) covers entries that use it.
-/
theorem form_ref_roundtrip (env : Env) (c : DwarfCfg) (v : Nat) (hv : v < 256 ^ 4) (pre rest : Bytes) (ctx : Fields) :
    formClass c 0x02 = some (.fixed 4) ∧ formName 0x02 = some "DW_FORM_ref" ∧
    ∃ P, formParser (Spec.dwarfStructs c) (.str "DW_FORM_ref") = .ok P ∧
      Con.parse env (pre ++ encOperand c.le (.fixed 4) (.nat v) ++ rest) P ctx pre.length
        = .ok (.int v, pre.length + (encOperand c.le (.fixed 4) (.nat v)).length, ctx) := by
  refine ⟨rfl, rfl, clsCon c.le (.fixed 4), rfl, ?_⟩
  exact operand_roundtrip (.fixed 4) (.nat v) (by simpa [wfOperand] using hv) (drop_pre pre _ rest)

/-- the whole operand table of DWARF 5 §7.5.6 (and the legacy code 0x02) is covered: every listed code has an
    encoding class -/
theorem form_classes_total (c : DwarfCfg) : formCodes.all (fun k => (formClass c k).isSome) = true := by
  cases c; rfl

/-! ### iteration -/

/-- the walk looks at the entry it starts from only through its offset, size and child flag -/
theorem subtree_root (G : Nat → R DieObs) (cuOff fuel : Nat) (d d' : DieObs) (parent : Option Nat)
    (h1 : d.offset = d'.offset) (h2 : d.size = d'.size) (h3 : d.kids = d'.kids) :
    subtree G cuOff fuel d parent
      = (subtree G cuOff fuel d' parent).map (fun l => (d, parent) :: l.tail) := by
  cases fuel with
  | zero => simp [subtree, Except.map]
  | succ f =>
    simp only [subtree, h1, h2, h3]
    cases d'.kids with
    | false => simp [Except.map]
    | true =>
      simp only [if_true, bind, Except.bind]
      cases childWalk G cuOff f d'.offset (d'.offset + d'.size) <;> simp [Except.map, pure, Except.pure]

/-- the flat list of a unit with the recorded parents -/
def flattenUnitP (nm : Names) (c : DwarfCfg) (ρtop ρ : Val → Val → Val) (off : Nat) (t : Tree) :
    List (DieObs × Option Nat) :=
  (entryObs nm c ρtop off t.root, none) :: (flattenP nm c ρ none off t).tail

/--
  iter_dies_flatten.  `G` is `_get_cached_DIE` of the unit.  Hypotheses: the registry gives every
  tag a name or number (`hnm`), `G` finds the entries of `flattenUnit` at their offsets (`hG`),
  and a DW_AT_sibling attribute, where an entry that owns children has one, is in one of the six
  unit-relative reference forms or DW_FORM_ref_addr and designates the entry after the owner's
  subtree (`hsib`; entries without the attribute are unconstrained).  Then driving
  `cu.iter_DIEs()` to exhaustion yields exactly the encoded sequence — offset, size, code, tag,
  child flag, attributes — null entries closing exactly the sibling lists they terminate, each
  entry with the parent the encoded nesting gives it.
-/
theorem iter_dies_flatten {nm : Names} (hnm : ∀ x, nm.tag x ≠ Val.none) (c : DwarfCfg) (ρtop ρ : Val → Val → Val)
    (G : Nat → R DieObs) (cuOff dieOff fuel : Nat) (t : Tree) (hfuel : t.count ≤ fuel)
    (hG : Covered G (flattenUnit nm c ρtop ρ dieOff t))
    (hsib : sibsOk nm c ρ cuOff dieOff t = true) :
    iterDIEs G cuOff dieOff fuel = .ok (flattenUnitP nm c ρtop ρ dieOff t) := by
  obtain ⟨n, kids, nl⟩ := t
  have htop : G dieOff = .ok (entryObs nm c ρtop dieOff n) := by
    have := hG (entryObs nm c ρtop dieOff n) (by simp [flattenUnit])
    simpa [entryObs] using this
  have hcov : Covered G (flatten nm c ρ dieOff (.mk n kids nl)).tail := by
    apply hG.mono
    intro d hd
    simp only [flatten, List.tail_cons] at hd
    simp only [flattenUnit, List.mem_cons]
    exact Or.inr hd
  have hsub := subtree_flatten hnm c ρ G cuOff (.mk n kids nl) dieOff none fuel hfuel hcov hsib
  unfold iterDIEs
  simp only [htop, bind, Except.bind]
  rw [subtree_root G cuOff fuel (entryObs nm c ρtop dieOff n) (entryObs nm c ρ dieOff n) none rfl rfl
    (by rw [entryObs_kids, entryObs_kids])]
  simp only [Tree.root] at hsub
  rw [hsub]
  rfl

/-- the observed sequence without the parents is `flattenUnit` -/
theorem flattenUnitP_fst (nm : Names) (c : DwarfCfg) (ρtop ρ : Val → Val → Val) (off : Nat) (t : Tree) :
    (flattenUnitP nm c ρtop ρ off t).map (·.1) = flattenUnit nm c ρtop ρ off t := by
  obtain ⟨n, kids, nl⟩ := t
  have h := flattenP_fst nm c ρ (.mk n kids nl) none off
  rw [flattenP, flatten] at h
  simp only [List.map_cons, List.cons.injEq] at h
  simp only [flattenUnitP, flattenUnit, Tree.root, List.map_cons, flattenP, List.tail_cons, h.2]

/-- tiling: the entries of a tree lie back to back, without gap or overlap, from the tree's first
    byte to its last (for the unit's tree: from `cu_die_offset` to the end of the unit's bytes,
    `encUnit = header ++ encTree`) -/
theorem tiling (nm : Names) (c : DwarfCfg) (ρ : Val → Val → Val) (t : Tree) (off : Nat) :
    Tiles off (flatten nm c ρ off t) (off + (encTree c t).length) :=
  flatten_tiles nm c ρ t off

/-- a unit-relative reference that designates an entry of the unit resolves to that entry -/
theorem ref_unit_relative (U : UnitCtx) (l : List DieObs) (hcov : Covered (getCachedDIE U) l) (d : DieObs)
    (hd : d ∈ l) (hr : U.cuDieOffset ≤ d.offset ∧ d.offset < U.cuOffset + U.size) :
    unitDIEFromRefaddr U d.offset = .ok d := by
  unfold unitDIEFromRefaddr
  rw [if_pos hr]
  exact hcov d hd

/-! ### abbreviation tables -/

/--
  abbrev_roundtrip.  The abbreviation table parser on an encoded table, anywhere in any section
  (`pre`, `rest` arbitrary), for every configuration and every registry with the `EnumOK` facts
  (Props/TieC04 `enum_ok`: the regenerated one has them): arbitrary codes (any LEB128 padding),
  unknown tag / attribute / form numbers (presented as numbers), DW_FORM_implicit_const values, the
  `(0, 0)` pair and the zero code in any padding.  A repeated code overwrites the earlier
  declaration, as in the Python dict (`abbrevMap`).
-/
theorem abbrev_roundtrip (env : Env) (hok : EnumOK env.enumDecode) (c : DwarfCfg) (ds : List AbbrevDecl) (endLen : Nat)
    (hwf : ds.all wfDecl = true) (hend : 1 ≤ endLen) (pre rest : Bytes) (hoff : pre.length < 2 ^ 63) :
    getAbbrevTable env (Spec.dwarfStructs c) (some (pre ++ encAbbrevs ds endLen ++ rest)) pre.length
      = .ok (abbrevMap (namesOf env.enumDecode) ds) :=
  getAbbrevTable_encoded hok c ds (fun d hd => List.all_eq_true.1 hwf d hd) hend hoff (drop_pre pre _ rest)

/-- … for a well-formed table (distinct codes) the dict is the table itself, in order, and
    `get_abbrev(code)` returns the declaration with that code -/
theorem abbrev_roundtrip_table (env : Env) (hok : EnumOK env.enumDecode) (c : DwarfCfg) (ds : List AbbrevDecl)
    (endLen : Nat) (hwf : wfAbbrevs ds endLen = true) (pre rest : Bytes) (hoff : pre.length < 2 ^ 63) :
    getAbbrevTable env (Spec.dwarfStructs c) (some (pre ++ encAbbrevs ds endLen ++ rest)) pre.length
        = .ok (ds.map fun d => (d.code, declVal (namesOf env.enumDecode) d))
      ∧ ∀ d ∈ ds, mapGet? (ds.map fun d => (d.code, declVal (namesOf env.enumDecode) d)) d.code
          = some (declVal (namesOf env.enumDecode) d) := by
  simp only [wfAbbrevs, Bool.and_eq_true, decide_eq_true_eq] at hwf
  obtain ⟨⟨h1, h2⟩, h3⟩ := hwf
  refine ⟨?_, fun d hd => mapGet_table _ ds d hd h2⟩
  rw [abbrev_roundtrip env hok c ds endLen h1 h3 pre rest hoff, abbrevMap_nodup _ ds h2]

/-! ### one entry -/

/--
  die_roundtrip.  `DIE(cu, stream, offset)` on an encoded entry at its offset, in any unit context
  whose struct bundle is the standard's for configuration `c` (all 32) and whose form names are
  the standard's (`UnitOK`): the observation is exactly `entryObs` — offset, size, abbreviation
  code, tag, child flag and, in order, each attribute's name, final form, raw value, value and
  offset.  Covers every form of the table, DW_FORM_indirect chains of any length (each code in any
  LEB128 padding), DW_FORM_implicit_const (value from the declaration, no bytes).
  Hypotheses: the node is well formed against its declaration (`wfNode`), the unit's abbreviation
  table has the declaration under the node's code (`hdecl`; abbrev_roundtrip_table), the value
  translation of each attribute succeeds with `ρ` (`htr`; see translate_resolve), attribute names
  are distinct (`hdist`), the offset is seekable.
-/
theorem die_roundtrip {U : UnitCtx} {c : DwarfCfg} {nm : Names} (hU : UnitOK U c nm) (ti : Option (List AttrObs))
    (ρ : Val → Val → Val) (n : Node) {off : Nat} {rest : Bytes} {m : List (Nat × Val)}
    (hwf : wfNode c n = true) (hoff : off < 2 ^ 63) (hab : U.abbrevs = .ok m)
    (hdecl : mapGet? m n.decl.code = some (declVal nm n.decl))
    (htr : TransOK U ti nm ρ n.decl.specs n.attrs) (hdist : DistinctAt nm n.decl.specs)
    (hd : U.data.drop off = encEntry c n ++ rest) :
    parseDIE U ti off = .ok (entryObs nm c ρ off n) :=
  parseDIE_encoded hU ti ρ n hwf hoff hab hdecl htr (namesDistinct_attrObs nm c ρ _ _ _ hdist) hd

/-- a null entry: abbreviation code 0 in any LEB128 padding; its size is the padding's length -/
theorem die_null_roundtrip {U : UnitCtx} {c : DwarfCfg} {nm : Names} (hU : UnitOK U c nm) (ti : Option (List AttrObs))
    {off l : Nat} {rest : Bytes} (hl : 1 ≤ l) (hoff : off < 2 ^ 63) (hd : U.data.drop off = encUlebN l 0 ++ rest) :
    parseDIE U ti off = .ok (nullObs off l) :=
  parseDIE_null hU ti hl hoff hd

/-- the regenerated registry and `DW_FORM_raw2name` satisfy `UnitOK`'s naming clauses -/
theorem unit_ok_gen (U : UnitCtx) (c : DwarfCfg) (hS : U.S = Spec.dwarfStructs c) (hr : U.raw2name = genRaw2name) :
    UnitOK U c (namesOf Model.genEnumDecode) where
  structs := BundleEq.of_eq hS
  raw2name := fun k hk => by
    have := List.all_eq_true.1 TieC04.raw2name_forms k hk
    rw [hr]; simpa using this
  formNames := fun k hk => by
    have h1 := List.all_eq_true.1 TieC04.enum_forms k hk
    have h2 : Model.genEnumDecode "ENUM_DW_FORM" k = formName k := by simpa using h1
    obtain ⟨h3, _⟩ := formFacts' hk
    show Engine.enumVal Model.genEnumDecode "ENUM_DW_FORM" k = _
    rw [Engine.enumVal, h2]
    cases hf : formName k with
    | none => rw [hf] at h3; cases h3
    | some s => rfl

/-! ### the unit: iteration without the cache hypothesis -/

/--
  iter_dies_of_translation (intermediate form of `iter_dies_exact` below, abstract in the value
  functions `ρtop`, `ρ`): for the bytes of an encoded tree at the unit's first-entry offset, with
  `G := _get_cached_DIE` as parse-on-miss (`getCachedDIE`; the cache refinement is C10), driving
  `iter_DIEs` to exhaustion yields exactly `flattenUnit` with the encoded parents — the `Covered`
  hypothesis of `iter_dies_flatten` is discharged by `die_roundtrip`.  Hypotheses left here: what
  `get_top_DIE` returns (`htop`) and that each value translates to `ρ` (`TransOK` in `NodeOK`);
  `iter_dies_exact` discharges both from "every value resolves".
-/
theorem iter_dies_of_translation {U : UnitCtx} {c : DwarfCfg} {nm : Names} (hU : UnitOK U c nm)
    (hnm : ∀ x, nm.tag x ≠ Val.none) (ρtop ρ : Val → Val → Val) {m : List (Nat × Val)} (hab : U.abbrevs = .ok m)
    (n : Node) (kids : List Tree) (nl : Nat) {rest : Bytes} (fuel : Nat) (hfuel : (Tree.mk n kids nl).count ≤ fuel)
    (hwf : wfTree c (.mk n kids nl) = true)
    (hd : U.data.drop U.cuDieOffset = encTree c (.mk n kids nl) ++ rest) (hlen : U.data.length ≤ 2 ^ 63)
    (htop : getTopDIE U = .ok (entryObs nm c ρtop U.cuDieOffset n))
    (hkids : ForestAll (NodeOK U (some (entryObs nm c ρtop U.cuDieOffset n).attrs) nm ρ m) kids)
    (hsib : sibsOk nm c ρ U.cuOffset U.cuDieOffset (.mk n kids nl) = true) :
    iterDIEs (getCachedDIE U) U.cuOffset U.cuDieOffset fuel
      = .ok (flattenUnitP nm c ρtop ρ U.cuDieOffset (.mk n kids nl)) :=
  iter_dies_flatten hnm c ρtop ρ (getCachedDIE U) U.cuOffset U.cuDieOffset fuel _ hfuel
    (covered_unit hU ρtop ρ hab n kids nl hwf hd hlen htop hkids) hsib

/-! ### value translation -/

/--
  translate_resolve.  `DIE._translate_attr_value(form, raw_value)` with the cached top entry at hand
  against the standard's `resolve`, under an explicit layout of the referenced sections (`SecsOK`:
  the unit sees these sections, its format / address size are the configuration's, every section is
  shorter than 2^63) and with the top entry presenting the unit's bases (`BasesOK`):
  DW_FORM_strp / line_strp → the NUL-terminated string at that offset of .debug_str / .debug_line_str
  (`None` for one running into the section end); strx* → the string at the offset stored in slot
  `str_offsets_base + i·offset_size` of .debug_str_offsets; addrx* → the address in slot
  `addr_base + i·address_size` of .debug_addr; loclistx / rnglistx → `base + ` the slot of the offset
  table; flag / flag_present → bool; everything else → the raw value.  Whenever `resolve` designates
  a value (the reference does not dangle) the translation returns exactly it.
-/
theorem translate_resolve {U : UnitCtx} {c : DwarfCfg} {nm : Names} {secs : Sections} (hU : UnitOK U c nm)
    (hS : SecsOK U c secs) {top : List AttrObs} {b : Bases} (hB : BasesOK top b) (name : String) (r v : Val)
    (hint : name ∈ intForms → ∃ n : Nat, r = .int n) (hres : resolve c secs b (.str name) r = some v) :
    translate U (some top) (.str name) r = .ok v :=
  Proofs.C04.translate_resolve hU hS hB name r v hint hres

/-- … while the top entry itself is being parsed (`translate_indirect = False`): the index forms stay
    raw (`preResolve`), the rest is translated as above -/
theorem translate_pre_resolve {U : UnitCtx} {c : DwarfCfg} {secs : Sections} (hS : SecsOK U c secs) (b : Bases)
    (name : String) (r v : Val) (hint : name ∈ intForms → ∃ n : Nat, r = .int n)
    (hres : preResolve c secs b (.str name) r = some v) :
    translate U none (.str name) r = .ok v :=
  translate_none hS b name r v hint hres

/-- `get_top_DIE()`: parse, then `_translate_indirect_attributes` against the entry's own base attributes
    (DW_AT_str_offsets_base, DW_AT_addr_base, DW_AT_loclists_base, DW_AT_rnglists_base in
    DW_FORM_sec_offset, wherever they stand among the attributes) — the entry with every value resolved -/
theorem top_die_roundtrip {U : UnitCtx} {c : DwarfCfg} {nm : Names} {secs : Sections} (hU : UnitOK U c nm)
    (hS : SecsOK U c secs) (hat : ∀ k, (nm.at_ k == nm.at_ k) = true) (hbn : BaseNames nm) (n : Node)
    {rest : Bytes} {m : List (Nat × Val)} (hwf : wfNode c n = true) (hoff : U.cuDieOffset < 2 ^ 63)
    (hab : U.abbrevs = .ok m) (hdecl : mapGet? m n.decl.code = some (declVal nm n.decl))
    (hdist : DistinctAt nm n.decl.specs) (hres : ResolvesAll c secs (basesOf n) nm n.decl.specs n.attrs)
    (hd : U.data.drop U.cuDieOffset = encEntry c n ++ rest) :
    getTopDIE U = .ok (entryObs nm c (rho c secs (basesOf n)) U.cuDieOffset n) :=
  getTopDIE_encoded hU hS hat hbn n hwf hoff hab hdecl hdist hres hd

/--
  iter_dies_exact.  For the bytes of an encoded tree at the unit's first-entry offset, in a unit
  context with the standard's struct bundle / form names (`UnitOK`) that sees the sections `secs`
  (`SecsOK`): if the tree is well formed (`wfTree`), every node's declaration is in the unit's
  abbreviation table under its code, attribute names are distinct and every value resolves
  (`NodeWF`; the bases are those of the top entry), and DW_AT_sibling attributes designate the next
  sibling (`sibsOk`), then `list(cu.iter_DIEs())` — with `_get_cached_DIE` as parse-on-miss; the
  cache refinement is C10 — is exactly the encoded sequence `flattenUnit` (offset, size, code, tag,
  child flag, attributes with name / final form / raw value / resolved value / offset, null entries
  closing the sibling lists they terminate), each entry with the parent the nesting gives it.
  No hypothesis about the cache or about what the entry decoder returns is left.
-/
theorem iter_dies_exact {U : UnitCtx} {c : DwarfCfg} {nm : Names} {secs : Sections} (hU : UnitOK U c nm)
    (hS : SecsOK U c secs) (hnm : ∀ x, nm.tag x ≠ Val.none) (hat : ∀ k, (nm.at_ k == nm.at_ k) = true)
    (hbn : BaseNames nm) {m : List (Nat × Val)} (hab : U.abbrevs = .ok m) (n : Node) (kids : List Tree) (nl : Nat)
    {rest : Bytes} (fuel : Nat) (hfuel : (Tree.mk n kids nl).count ≤ fuel) (hwf : wfTree c (.mk n kids nl) = true)
    (hd : U.data.drop U.cuDieOffset = encTree c (.mk n kids nl) ++ rest) (hlen : U.data.length ≤ 2 ^ 63)
    (hnodes : TreeAll (NodeWF c secs (basesOf n) nm m) (.mk n kids nl))
    (hsib : sibsOk nm c (rho c secs (basesOf n)) U.cuOffset U.cuDieOffset (.mk n kids nl) = true) :
    iterDIEs (getCachedDIE U) U.cuOffset U.cuDieOffset fuel
      = .ok (flattenUnitP nm c (rho c secs (basesOf n)) (rho c secs (basesOf n)) U.cuDieOffset (.mk n kids nl)) :=
  iter_dies_flatten hnm c _ _ (getCachedDIE U) U.cuOffset U.cuDieOffset fuel _ hfuel
    (covered_unit_wf hU hS hat hbn hab n kids nl hwf hd hlen hnodes) hsib

/-! ### unit headers -/

/--
  unit_header_roundtrip.  `_parse_CU_at_offset` on an encoded unit anywhere in `.debug_info`: DWARF
  versions 2–5, both DWARF formats (format detection from the initial length), and for version 5 all
  six unit types through the `ENUM_DW_UT` switch (compile, partial: no extra field; skeleton,
  split_compile: dwo_id; type, split_type: type_signature and type_offset).  The unit object has the
  header container of `unitHdrVal`, the format, the unit offset and the first-entry offset.
  (Generalises C13's `parseCU_encoded`, versions 2–4.)
-/
theorem unit_header_roundtrip (enumDecode : String → Int → Option String)
    (hUT : ∀ k : Nat, 1 ≤ k → k ≤ 6 → enumDecode "ENUM_DW_UT" k = Lookup.utName k) (le : Bool) (dasz : Nat)
    (u : Lookup.InfoUnit) (hwf : Lookup.wfUnit le u = true) (pre rest : Bytes) :
    Proofs.Lookup.specP enumDecode le dasz (pre ++ Lookup.encUnit le u ++ rest) pre.length
      = .ok (Proofs.Lookup.cuOf le pre.length u) :=
  parseCU_encoded_all hUT hwf (drop_pre pre _ rest)

/-- a whole `.debug_info` of mixed-version units is a chain for `_parse_CUs_iter` (C13's
    `chain_encoded_partial` without the version restriction) -/
theorem unit_chain (enumDecode : String → Int → Option String)
    (hUT : ∀ k : Nat, 1 ≤ k → k ≤ 6 → enumDecode "ENUM_DW_UT" k = Lookup.utName k) (le : Bool) (dasz : Nat)
    (us : List Lookup.InfoUnit) (hwf : ∀ u ∈ us, Lookup.wfUnit le u = true) :
    Proofs.Lookup.Chain (Proofs.Lookup.specP enumDecode le dasz (Lookup.encUnits le us)) (Lookup.encUnits le us).length 0
      (Proofs.Lookup.cusOf le 0 us) :=
  chain_encoded_all hUT us 0 hwf (by simp) (by simp)

/-- `_parse_TU_at_offset` on an encoded type unit of `.debug_types` (DWARF 4 §7.5.1.2), both formats:
    header container (unit_length, version, debug_abbrev_offset, address_size, signature, type_offset),
    format, offsets; and `TypeUnit.size` is the encoded extent -/
theorem type_unit_header_roundtrip (enumDecode : String → Int → Option String) (le : Bool) (dasz : Nat)
    (h : TUHeader) (body : Bytes) (hwf : wfTU le h body = true) (pre rest : Bytes) :
    specTU enumDecode le dasz (pre ++ encTU le h body ++ rest) pre.length = .ok (tuOf le pre.length h body)
      ∧ (tuOf le pre.length h body).size = .ok (encTU le h body).length :=
  ⟨parseTU_encoded hwf (drop_pre pre _ rest), tuOf_size le pre.length h body⟩

/-! ### tiling up to the declared length -/

theorem flattenUnit_tiles (nm : Names) (c : DwarfCfg) (ρtop ρ : Val → Val → Val) (t : Tree) (off : Nat) :
    Tiles off (flattenUnit nm c ρtop ρ off t) (off + (encTree c t).length) := by
  obtain ⟨n, kids, nl⟩ := t
  have h := flatten_tiles nm c ρ (.mk n kids nl) off
  rw [flatten] at h
  rw [flattenUnit]
  exact ⟨rfl, h.2⟩

/--
  tiling_unit.  For a unit of `.debug_info` whose bytes behind the header are an encoded tree: the
  entries `iter_DIEs` must yield lie back to back, without gap or overlap, from the unit's first-entry
  offset (`cu_die_offset`) to `cu_offset + size`, where `size = unit_length + initial-length field` is
  what `CompileUnit.size` computes from the DECLARED length of the parsed header.
-/
theorem tiling_unit (nm : Names) (c : DwarfCfg) (ρtop ρ : Val → Val → Val) (le : Bool) (off : Nat)
    (u : Lookup.InfoUnit) (t : Tree) (hbody : u.body = encTree c t) :
    ∃ sz, (Proofs.Lookup.cuOf le off u).size = .ok sz ∧
      Tiles (Proofs.Lookup.cuOf le off u).cuDieOffset
        (flattenUnit nm c ρtop ρ (Proofs.Lookup.cuOf le off u).cuDieOffset t) ((Proofs.Lookup.cuOf le off u).cuOffset + sz) := by
  refine ⟨Lookup.unitSize le u, cuOf_size_all, ?_⟩
  have h := flattenUnit_tiles nm c ρtop ρ t (off + u.ilSize + (Lookup.unitHdrRest le u).length)
  have e : off + u.ilSize + (Lookup.unitHdrRest le u).length + (encTree c t).length = off + Lookup.unitSize le u := by
    rw [← hbody]; simp only [Lookup.unitSize, Lookup.unitLength]; omega
  rw [e] at h
  exact h

/-- … and for a type unit of `.debug_types` -/
theorem tiling_type_unit (nm : Names) (c : DwarfCfg) (ρtop ρ : Val → Val → Val) (le : Bool) (off : Nat)
    (h : TUHeader) (t : Tree) :
    ∃ sz, (tuOf le off h (encTree c t)).size = .ok sz ∧
      Tiles (tuOf le off h (encTree c t)).cuDieOffset
        (flattenUnit nm c ρtop ρ (tuOf le off h (encTree c t)).cuDieOffset t) ((tuOf le off h (encTree c t)).cuOffset + sz) := by
  refine ⟨_, tuOf_size le off h _, ?_⟩
  have ht := flattenUnit_tiles nm c ρtop ρ t (off + h.ilSize + (tuHdrRest le h).length)
  have e : off + h.ilSize + (tuHdrRest le h).length + (encTree c t).length = off + (encTU le h (encTree c t)).length := by
    cases hf : h.fmt64 <;>
      simp [encTU, Lookup.encInitialLength, TUHeader.ilSize, hf, encNat_length] <;> omega
  rw [e] at ht
  exact ht

/-! ### children, parents -/

/-- the parents `flattenUnitP` records are the (parent, child) pairs of the encoded nesting -/
theorem flattenUnitP_parents (nm : Names) (c : DwarfCfg) (ρtop ρ : Val → Val → Val) (off : Nat) (t : Tree) :
    parentsOf (flattenUnitP nm c ρtop ρ off t) = parentPairs c off t := by
  obtain ⟨n, kids, nl⟩ := t
  have h := parentsOf_flattenP nm c ρ (.mk n kids nl) none off
  rw [flattenP] at h
  have e : parentsOf ((entryObs nm c ρ off n, (none : Option Nat)) ::
      (if n.decl.children then flattenForestP nm c ρ off (off + (encEntry c n).length) kids ++
        [(nullObs (off + (encEntry c n).length + (encForest c kids).length) nl, some off)] else []))
      = parentsOf (if n.decl.children then flattenForestP nm c ρ off (off + (encEntry c n).length) kids ++
        [(nullObs (off + (encEntry c n).length + (encForest c kids).length) nl, some off)] else []) := by
    simp [parentsOf]
  rw [e] at h
  simp only [flattenUnitP, Tree.root, flattenP, List.tail_cons]
  have e2 : parentsOf ((entryObs nm c ρtop off n, (none : Option Nat)) ::
      (if n.decl.children then flattenForestP nm c ρ off (off + (encEntry c n).length) kids ++
        [(nullObs (off + (encEntry c n).length + (encForest c kids).length) nl, some off)] else []))
      = parentsOf (if n.decl.children then flattenForestP nm c ρ off (off + (encEntry c n).length) kids ++
        [(nullObs (off + (encEntry c n).length + (encForest c kids).length) nl, some off)] else []) := by
    simp [parentsOf]
  rw [e2, h]; simp

/--
  children_parent_exact.  Under the hypotheses of `iter_dies_exact`: (1) the entries `iter_DIEs`
  yields carry as recorded parents (`get_parent()`) exactly the (parent, child) pairs of the encoded
  nesting (`parentPairs`: every entry below the top one, null entries included, the top entry has
  none); (2) for every entry, in order, `[c.offset for c in die.iter_children()]` — sibling
  shortcuts, terminators found by walking nested lists — is the list of its encoded children
  (`childLists`; none for childless and null entries).
-/
theorem children_parent_exact {U : UnitCtx} {c : DwarfCfg} {nm : Names} {secs : Sections} (hU : UnitOK U c nm)
    (hS : SecsOK U c secs) (hnm : ∀ x, nm.tag x ≠ Val.none) (hat : ∀ k, (nm.at_ k == nm.at_ k) = true)
    (hbn : BaseNames nm) {m : List (Nat × Val)} (hab : U.abbrevs = .ok m) (n : Node) (kids : List Tree) (nl : Nat)
    {rest : Bytes} (fuel : Nat) (hfuel : (Tree.mk n kids nl).count ≤ fuel) (hwf : wfTree c (.mk n kids nl) = true)
    (hd : U.data.drop U.cuDieOffset = encTree c (.mk n kids nl) ++ rest) (hlen : U.data.length ≤ 2 ^ 63)
    (hnodes : TreeAll (NodeWF c secs (basesOf n) nm m) (.mk n kids nl))
    (hsib : sibsOk nm c (rho c secs (basesOf n)) U.cuOffset U.cuDieOffset (.mk n kids nl) = true) :
    (∃ l, iterDIEs (getCachedDIE U) U.cuOffset U.cuDieOffset fuel = .ok l ∧
        parentsOf l = parentPairs c U.cuDieOffset (.mk n kids nl)) ∧
      (flattenUnit nm c (rho c secs (basesOf n)) (rho c secs (basesOf n)) U.cuDieOffset (.mk n kids nl)).map
          (childrenOf (getCachedDIE U) U.cuOffset fuel)
        = (childLists c U.cuDieOffset (.mk n kids nl)).map .ok :=
  ⟨⟨_, iter_dies_exact hU hS hnm hat hbn hab n kids nl fuel hfuel hwf hd hlen hnodes hsib,
     flattenUnitP_parents nm c _ _ _ _⟩,
   children_unit hnm c _ _ (getCachedDIE U) U.cuOffset fuel _ _ hfuel
     (covered_unit_wf hU hS hat hbn hab n kids nl hwf hd hlen hnodes) hsib⟩

/-! ### section-relative references -/

/--
  ref_section_relative.  `DWARFInfo.get_DIE_from_refaddr(x)` for a DW_FORM_ref_addr value `x` that
  designates the entry `d` of the unit `u` starting at `o` in a `.debug_info` of mixed-version units
  (2–5, all unit types): from every reachable state of the unit cache, `get_CU_containing(x)` returns
  the unit whose extent contains `x` (C13's lookup theorem, now over all versions through
  `unit_chain`), and that unit's `get_DIE_from_refaddr(x)` — range check against the first-entry
  offset and the declared size, then `_get_cached_DIE` — returns `d`.  `U` is the context of that unit
  (`hUo`, `hUd`, `hUs`), `hcov` is what `iter_dies_exact`'s proof establishes for it (`covered_unit_wf`).
-/
theorem ref_section_relative (enumDecode : String → Int → Option String)
    (hUT : ∀ k : Nat, 1 ≤ k → k ≤ 6 → enumDecode "ENUM_DW_UT" k = Lookup.utName k) (le : Bool) (dasz : Nat)
    (us : List Lookup.InfoUnit) (hwf : ∀ u ∈ us, Lookup.wfUnit le u = true) (st : Model.Lookup.CUCache)
    (hinv : Proofs.Lookup.Inv (Proofs.Lookup.specP enumDecode le dasz (Lookup.encUnits le us)) (Proofs.Lookup.cusOf le 0 us) st)
    (x o : Nat) (u : Lookup.InfoUnit) (hu : Lookup.unitContaining le us x = some (o, u))
    (U : UnitCtx) (hUo : U.cuOffset = o) (hUd : U.cuDieOffset = (Proofs.Lookup.cuOf le o u).cuDieOffset)
    (hUs : U.size = Lookup.unitSize le u) (l : List DieObs) (hcov : Covered (getCachedDIE U) l) (d : DieObs)
    (hd : d ∈ l) (hdx : d.offset = x) (hlo : U.cuDieOffset ≤ x) :
    (∃ st', Model.Lookup.getCUContaining (Proofs.Lookup.specP enumDecode le dasz (Lookup.encUnits le us))
          (Lookup.encUnits le us).length st x = (.ok (Proofs.Lookup.cuOf le o u), st') ∧
        Proofs.Lookup.Inv (Proofs.Lookup.specP enumDecode le dasz (Lookup.encUnits le us)) (Proofs.Lookup.cusOf le 0 us) st')
      ∧ unitDIEFromRefaddr U x = .ok d := by
  have hm := List.mem_of_find?_eq_some hu
  have hp := List.find?_some hu
  simp only [decide_eq_true_eq] at hp
  refine ⟨Proofs.Lookup.getCUContaining_exact (fun o c h => Proofs.Lookup.parseCU_offset o c h)
    (unit_chain enumDecode hUT le dasz us hwf) hinv (Proofs.Lookup.mem_cusOf us 0 o u hm) cuOf_size_all hp.1 hp.2, ?_⟩
  rw [← hdx]
  exact ref_unit_relative U l hcov d hd ⟨by rw [hdx]; exact hlo, by rw [hdx, hUo, hUs]; exact hp.2⟩

/-! ### signature references -/

/--
  ref_sig8_units (was `ref_sig8_partial`).  The property's clause: a DW_FORM_ref_sig8 value resolves to the
  entry at the type_offset of the type unit carrying that signature — in `.debug_types` (DWARF 4) or,
  for DWARF 5, a DW_UT_type / DW_UT_split_type unit of `.debug_info`.  This is the statement over the unit list
  `_parse_debug_types` built (`units`, scan completed), for either kind of unit (`unitSig`: `signature` in a
  `Dwarf_TU_header`, `type_signature` in a `Dwarf_CU_header`): if the last unit carrying the signature is `cu`
  with context `U`, and the entry `d` of that unit lies at `cu_offset + type_offset`, `get_DIE_by_sig8` returns
  `d` of that unit.  That `units` IS the list of encoded type units of both sections, with no hypothesis left, is
  `ref_sig8_debug_types` (DWARF 4 half) and `ref_sig8_debug_info_v5` (DWARF 5 half, after the fix for the former
  known finding `sig8-v5-type-unit`: `get_DIE_by_sig8` scanned `.debug_types` only and raised KeyError).
-/
theorem ref_sig8_units (pre post : List (Model.Lookup.CU × R UnitCtx)) (cu : Model.Lookup.CU) (U : UnitCtx) (sig : Int)
    (to : Nat) (hsig : unitSig cu.header = .ok sig)
    (hlast : ∀ p ∈ post, unitSig p.1.header ≠ .ok sig) (hto : cu.header.getNat "type_offset" = .ok to)
    (l : List DieObs) (hcov : Covered (getCachedDIE U) l) (d : DieObs) (hd : d ∈ l) (hdx : d.offset = cu.cuOffset + to) :
    dieBySig8 getCachedDIE (pre ++ (cu, .ok U) :: post) none sig = .ok (cu.cuOffset, d) := by
  have hG := hcov d hd
  rw [hdx] at hG
  exact dieBySig8_last getCachedDIE pre post cu U sig to hsig hlast hto d hG

/-- a signature no scanned unit carries: `KeyError` (the scan having completed) -/
theorem ref_sig8_absent (G : UnitCtx → Nat → R DieObs) (units : List (Model.Lookup.CU × R UnitCtx)) (sig : Int)
    (hno : ∀ p ∈ units, unitSig p.1.header ≠ .ok sig) :
    dieBySig8 G units none sig = .error .keyError := by
  have hfold : ∀ (f : Option (Model.Lookup.CU × R UnitCtx) → Model.Lookup.CU × R UnitCtx → Option (Model.Lookup.CU × R UnitCtx))
      (ps : List (Model.Lookup.CU × R UnitCtx)) (acc : Option (Model.Lookup.CU × R UnitCtx)),
      (∀ acc p, p ∈ ps → f acc p = acc) → ps.foldl f acc = acc := by
    intro f ps
    induction ps with
    | nil => intro acc _; rfl
    | cons p ps ih =>
      intro acc h
      rw [List.foldl_cons, h acc p (by simp)]
      exact ih acc (fun a q hq => h a q (by simp [hq]))
  unfold dieBySig8
  simp only [bind, Except.bind, pure, Except.pure]
  rw [hfold _ units _ (fun acc p hp => by
    obtain ⟨cu', rU'⟩ := p
    have hne := hno _ hp
    simp only at hne ⊢
    cases hg : unitSig cu'.header with
    | error e => rfl
    | ok s =>
      have : ¬ s = sig := fun e => hne (by rw [hg, e])
      simp [this])]

/-- a scan that raised: the signature map is published only when `_parse_debug_types` completes, so EVERY lookup —
    whatever the signature, whatever the units scanned before the failure — re-raises the scan's exception -/
theorem ref_sig8_scan_error (G : UnitCtx → Nat → R DieObs) (units : List (Model.Lookup.CU × R UnitCtx)) (e : Err)
    (sig : Int) : dieBySig8 G units (some e) sig = .error e := by
  unfold dieBySig8
  rfl

/-- a malformed `.debug_types` is met first: its exception is what `get_DIE_by_sig8` raises, whatever `.debug_info`
    holds (the DWARF 5 type units of `.debug_info` are only looked at after `.debug_types` has been walked) -/
theorem sig_scan_types_error_first (w : DInfo) (S0 : DwarfStructs) (e : Err)
    (h : (sectionUnits w S0 w.types true).2 = some e) : (sigUnits w S0).2 = some e := by
  unfold sigUnits
  simp only [h]

/-- … and with a clean `.debug_types` a malformed unit anywhere in `.debug_info` — type unit or not — fails every
    signature lookup (`_parse_CUs_iter` walks every unit header) -/
theorem sig_scan_info_error (w : DInfo) (S0 : DwarfStructs) (e : Err)
    (ht : (sectionUnits w S0 w.types true).2 = none) (hi : (sectionUnits w S0 w.info false).2 = some e) :
    (sigUnits w S0).2 = some e := by
  unfold sigUnits
  simp only [ht, hi]

/-- one lookup on a freshly opened object, written with the cache model's vocabulary, is `sig8Lookup` -/
theorem sig8_stateless_eq (G : UnitCtx → Nat → R DieObs) (w : DInfo) (S0 : DwarfStructs) (sig : Int) :
    Model.SigCache.stateless (sigUnits w S0) (fun us s => dieBySig8 G us none s) sig = sig8Lookup G w S0 sig := by
  unfold sig8Lookup Model.SigCache.stateless
  generalize sigUnits w S0 = p
  obtain ⟨us, e⟩ := p
  cases e with
  | none => rfl
  | some err => exact (ref_sig8_scan_error G us err sig).symm

/--
  sig8_history_independent (C10's clause for this cache, stated where its ingredients live).  `get_DIE_by_sig8`
  answers through the lazily built `_type_units_by_sig` (Model/SigCache: `None` until a scan of both sections has
  COMPLETED; a scan that raises publishes nothing).  For ANY file (no well-formedness), after ANY history of signature
  lookups — repeated, absent, failing — every answer is the one a freshly opened object gives (`sig8Lookup`, the
  function `ref_sig8_debug_types` / `ref_sig8_debug_info_v5` / `ref_sig8_absent` are about), and the state stays
  reachable.  The driver runs exactly this `run` beside the stateless lookups and the harness compares both with the
  library's answers on one `DWARFInfo` object and with `_type_units_by_sig is not None`.
-/
theorem sig8_history_independent (G : UnitCtx → Nat → R DieObs) (w : DInfo) (S0 : DwarfStructs) (sigs : List Int) :
    (Model.SigCache.run (sigUnits w S0) (fun us s => dieBySig8 G us none s) Model.SigCache.St.init sigs).1
      = sigs.map (sig8Lookup G w S0) := by
  rw [(Proofs.SigCache.run_answers (sigUnits w S0) (fun us s => dieBySig8 G us none s) sigs _
    (Proofs.SigCache.inv_init _)).1]
  exact List.map_congr_left (fun s _ => sig8_stateless_eq G w S0 s)

/-- the map is published exactly when a lookup happened and the scan completes -/
theorem sig8_published_iff (G : UnitCtx → Nat → R DieObs) (w : DInfo) (S0 : DwarfStructs) (sigs : List Int) :
    (Model.SigCache.run (sigUnits w S0) (fun us s => dieBySig8 G us none s) Model.SigCache.St.init sigs).2.map.isSome
      = (!sigs.isEmpty && (sigUnits w S0).2.isNone) :=
  Proofs.SigCache.run_published _ _ sigs

/-! ### whole sections, end to end -/

/-- the regenerated registry and `DW_FORM_raw2name` have every fact the composition uses (Props/TieC04) -/
theorem registry_gen : RegistryOK Model.genEnumDecode genRaw2name where
  enum := TieC04.enum_ok
  ut := TieC04.enum_ut
  forms := fun k hk => by simpa using List.all_eq_true.1 TieC04.enum_forms k hk
  raw2name := fun k hk => by simpa using List.all_eq_true.1 TieC04.raw2name_forms k hk
  bases := TieC04.base_names

/-- … hence any unit context whose bundle agrees with the standard's on the fields the DIE code reads (`BundleEq`:
    every regenerated bundle, Props/TieC04 `gen_bundles`) and that uses the regenerated `DW_FORM_raw2name` is `UnitOK`
    (`unit_ok_gen` above with the bundle hypothesis weakened from equality) -/
theorem unit_ok_gen_bundle (U : UnitCtx) (c : DwarfCfg) (hS : BundleEq U.S (Spec.dwarfStructs c))
    (hr : U.raw2name = genRaw2name) : UnitOK U c (namesOf Model.genEnumDecode) :=
  unitOK_of_registry registry_gen U c hS hr

/-- how the regenerated registry presents tag / attribute / form numbers -/
abbrev genNames : Names := namesOf Model.genEnumDecode

/-- the resolved-value function of a unit of a forest: `resolve` against the forest's sections with the bases
    of the unit's top entry -/
abbrev unitRho (F : Forest) (u : UnitDesc) : Val → Val → Val := rho (u.cfg F.le) F.secs (basesOf u.tree.root)

/-- the struct bundles of the model as the driver runs it: the regenerated constructor `Model.dwarfStructsFor`,
    and for `DWARFInfo.structs` its answer for (32-bit format, default address size, version 2) -/
def genBundles (le : Bool) (dasz : Nat) : Bundles :=
  { structsOf := Model.dwarfStructsFor,
    S0 := (Model.dwarfStructsFor ⟨le, 32, dasz, 2⟩).getD (Spec.dwarfStructs ⟨le, 32, dasz, 2⟩) }

/-- … agree with the standard's on every field the DIE code reads (Props/TieC04 `gen_bundles`, from the regenerated
    bundles); `dasz ∈ {4, 8}` is what `DWARFStructs.__new__` asserts of `config.default_address_size` -/
theorem genBundles_ok (le : Bool) (dasz : Nat) (hd : dasz = 4 ∨ dasz = 8) : BundlesOK (genBundles le dasz) le dasz := by
  have hmem : (⟨le, 32, dasz, 2⟩ : DwarfCfg) ∈ Spec.allDwarfCfgs :=
    cfg_mem_all le false hd (by omega) (by omega)
  refine ⟨?_, TieC04.gen_bundles⟩
  obtain ⟨S, h1, h2⟩ := TieC04.gen_bundles _ hmem
  simp only [genBundles, h1, Option.getD_some]
  exact h2

/-- `DWARFInfo.structs` of the regenerated constructor is what the driver starts from -/
theorem genBundles_S0 (le : Bool) (dasz : Nat) (hd : dasz = 4 ∨ dasz = 8) :
    Model.dwarfStructsFor ⟨le, 32, dasz, 2⟩ = some (genBundles le dasz).S0 := by
  have hmem : (⟨le, 32, dasz, 2⟩ : DwarfCfg) ∈ Spec.allDwarfCfgs :=
    cfg_mem_all le false hd (by omega) (by omega)
  obtain ⟨S, h1, _⟩ := TieC04.gen_bundles _ hmem
  simp only [genBundles, h1, Option.getD_some]

/-- the `DWARFInfo` over the encoded sections of a forest, everything else regenerated — `Model.C04.genDInfo`, the
    model the driver runs -/
abbrev forestDInfo (F : Forest) (dasz : Nat) : DInfo :=
  genDInfo F.le dasz (some (infoSec F)) (some (encTables F.tables)) (some (typesSec F)) F.secs

theorem forestDInfo_eq (F : Forest) (dasz : Nat) :
    forestDInfo F dasz = dinfoOf F dasz Model.genEnumDecode genRaw2name (genBundles F.le dasz).structsOf := rfl

/-- the unit context the glue builds for a unit of `.debug_info` placed at `p.1` (`sectionUnits_info`) -/
abbrev infoCtx (F : Forest) (dasz : Nat) (p : Nat × UnitDesc) : UnitCtx :=
  ctxOf F Model.genEnumDecode genRaw2name (genBundles F.le dasz) (infoSec F) p.2 p.1 (infoDieOff F p.1 p.2)
    (Lookup.unitSize F.le (infoUnitOf F p.2))

/-- … for a type unit of `.debug_types` -/
abbrev typesCtx (F : Forest) (dasz : Nat) (p : Nat × UnitDesc) : UnitCtx :=
  ctxOf F Model.genEnumDecode genRaw2name (genBundles F.le dasz) (typesSec F) p.2 p.1 (typesDieOff F p.1 p.2)
    (encTUOf F p.2).length

/--
  debug_info_exact.  For EVERY well-formed forest description `F` (`wfForestB`, decidable: abbreviation tables
  with distinct non-zero codes placed anywhere in `.debug_abbrev` — arbitrary bytes between tables, tables
  shared by units —, units of DWARF version 2–5, both DWARF formats, address size 4 | 8, any of the six
  DWARF 5 unit types, each naming one table and carrying a tree of entries with operands in range of their
  forms (every form of DWARF 5 table 7.6, the GNU alt forms, the legacy DW_FORM_ref; DW_FORM_indirect chains,
  implicit_const), distinct attribute names, values that resolve against the forest's `.debug_str`,
  `.debug_line_str`, `.debug_str_offsets`, `.debug_addr`, `.debug_loclists`, `.debug_rnglists`, DW_AT_sibling
  designating the next sibling; sections shorter than 2^63) and either byte order, the model of

      for cu in dwarfinfo.iter_CUs():  list(cu.iter_DIEs())

  on the Spec encoding of the sections (`infoSec F`, `encTables F.tables`, `F.secs`), run EXACTLY AS THE DRIVER
  RUNS IT (`forestDInfo` = `Model.C04.genDInfo`: regenerated enum registry, regenerated struct bundles through
  `Model.dwarfStructsFor`, regenerated `DW_FORM_raw2name`; `DWARFInfo.structs` of the default address size `dasz`,
  unit headers through `_parse_CU_at_offset`, `cu.structs` of the header's (format, address_size, version),
  abbreviation table of `debug_abbrev_offset` — the glue `Model.C04.unitCtx`, no longer a hypothesis) yields
   (1) exactly the described units, in order, each with its header container, format, unit offset and first-entry
       offset (`cuOf`), no exception ending the iteration, and per unit exactly the pre-order flattening of its
       tree: offset, size, abbreviation code, tag, child flag and, in order, each attribute's name, final form,
       raw value, resolved value and offset, null entries closing the sibling lists, every entry with the parent
       the nesting gives it;
  and for every unit
   (2) the entries tile the unit without gap or overlap from the first-entry offset to `cu_offset + cu.size`
       (`size` computed from the DECLARED length of the parsed header),
   (3) the recorded parents are the (parent, child) pairs of the encoded nesting,
   (4) `iter_children()` of every entry lists exactly its encoded children,
   (5) `_get_cached_DIE` finds every entry at its offset (what reference resolution starts from: `refs_info_exact`).
  `G` is `_get_cached_DIE`: any function that agrees with the pure parse-on-miss `getCachedDIE` from each unit's
  first-entry offset on (the driver's `fetch` is one, `getCachedDIE` itself another); the cache refinement is C10.
  No hypothesis besides the description's well-formedness (and `dasz ∈ {4, 8}`, without which `DWARFInfo.__init__`
  raises) is left: registry facts are `registry_gen`, bundle facts `genBundles_ok` (both from Props/TieC04).
-/
theorem debug_info_exact (F : Forest) (dasz : Nat) (hdasz : dasz = 4 ∨ dasz = 8) (hwf : wfForestB genNames F = true)
    (G : UnitCtx → Nat → R DieObs) (hG : ∀ U o, U.cuDieOffset ≤ o → G U o = getCachedDIE U o) :
    iterSection G (forestDInfo F dasz) (genBundles F.le dasz).S0 (some (infoSec F)) false
      = ((placeInfo F 0 F.units).map fun p =>
          (Proofs.Lookup.cuOf F.le p.1 (infoUnitOf F p.2),
           .ok (flattenUnitP genNames (p.2.cfg F.le) (unitRho F p.2) (unitRho F p.2) (infoDieOff F p.1 p.2) p.2.tree)),
         none)
    ∧ ∀ p ∈ placeInfo F 0 F.units,
        (∃ sz, (Proofs.Lookup.cuOf F.le p.1 (infoUnitOf F p.2)).size = .ok sz ∧
          Tiles (Proofs.Lookup.cuOf F.le p.1 (infoUnitOf F p.2)).cuDieOffset
            (flattenUnit genNames (p.2.cfg F.le) (unitRho F p.2) (unitRho F p.2) (infoDieOff F p.1 p.2) p.2.tree)
            ((Proofs.Lookup.cuOf F.le p.1 (infoUnitOf F p.2)).cuOffset + sz))
        ∧ parentsOf (flattenUnitP genNames (p.2.cfg F.le) (unitRho F p.2) (unitRho F p.2) (infoDieOff F p.1 p.2) p.2.tree)
            = parentPairs (p.2.cfg F.le) (infoDieOff F p.1 p.2) p.2.tree
        ∧ (flattenUnit genNames (p.2.cfg F.le) (unitRho F p.2) (unitRho F p.2) (infoDieOff F p.1 p.2) p.2.tree).map
              (childrenOf (G (infoCtx F dasz p)) p.1 (unitFuel (infoCtx F dasz p)))
            = (childLists (p.2.cfg F.le) (infoDieOff F p.1 p.2) p.2.tree).map .ok
        ∧ Covered (G (infoCtx F dasz p))
            (flattenUnit genNames (p.2.cfg F.le) (unitRho F p.2) (unitRho F p.2) (infoDieOff F p.1 p.2) p.2.tree) := by
  have hW := wfForest_of_B genNames F hwf
  have hB := genBundles_ok F.le dasz hdasz
  refine ⟨iterSection_info registry_gen F dasz hB hW G hG, fun p hp => ?_⟩
  have h := forest_info_unit registry_gen F dasz hB hW (G (infoCtx F dasz p)) p hp (fun o ho => hG _ o ho)
  exact ⟨⟨_, cuOf_size_all, info_unit_tiles genNames _ _ F p.1 p.2⟩, flattenUnitP_parents genNames _ _ _ _ _, h.2, h.1⟩

/-- the units `iter_CUs()` yields come with exactly the contexts `infoCtx` (`sectionUnits` is what both
    `iterSection` and the driver's reference queries start from) -/
theorem debug_info_units (F : Forest) (dasz : Nat) (hdasz : dasz = 4 ∨ dasz = 8) (hwf : wfForestB genNames F = true) :
    sectionUnits (forestDInfo F dasz) (genBundles F.le dasz).S0 (some (infoSec F)) false
      = ((placeInfo F 0 F.units).map fun p => (Proofs.Lookup.cuOf F.le p.1 (infoUnitOf F p.2), .ok (infoCtx F dasz p)), none) :=
  sectionUnits_info registry_gen F dasz (genBundles_ok F.le dasz hdasz) (wfForest_of_B genNames F hwf).infoHdr

/--
  debug_types_exact.  The same for `.debug_types` (DWARF 4 §7.5.1.2 type units; `iter_TUs()`, `_parse_TU_at_offset`,
  `TypeUnit.iter_DIEs()`): exactly the described type units (header container with signature and type_offset,
  format, offsets) and per unit the flattening of its tree; tiling up to `tu_offset + size`, parents, children,
  `_get_cached_DIE` on every entry.
-/
theorem debug_types_exact (F : Forest) (dasz : Nat) (hdasz : dasz = 4 ∨ dasz = 8) (hwf : wfForestB genNames F = true)
    (G : UnitCtx → Nat → R DieObs) (hG : ∀ U o, U.cuDieOffset ≤ o → G U o = getCachedDIE U o) :
    iterSection G (forestDInfo F dasz) (genBundles F.le dasz).S0 (some (typesSec F)) true
      = ((placeTypes F 0 F.tus).map fun p =>
          (tuOf F.le p.1 (tuHeaderOf F p.2) (encTree (p.2.cfg F.le) p.2.tree),
           .ok (flattenUnitP genNames (p.2.cfg F.le) (unitRho F p.2) (unitRho F p.2) (typesDieOff F p.1 p.2) p.2.tree)),
         none)
    ∧ ∀ p ∈ placeTypes F 0 F.tus,
        (∃ sz, (tuOf F.le p.1 (tuHeaderOf F p.2) (encTree (p.2.cfg F.le) p.2.tree)).size = .ok sz ∧
          Tiles (tuOf F.le p.1 (tuHeaderOf F p.2) (encTree (p.2.cfg F.le) p.2.tree)).cuDieOffset
            (flattenUnit genNames (p.2.cfg F.le) (unitRho F p.2) (unitRho F p.2) (typesDieOff F p.1 p.2) p.2.tree)
            ((tuOf F.le p.1 (tuHeaderOf F p.2) (encTree (p.2.cfg F.le) p.2.tree)).cuOffset + sz))
        ∧ parentsOf (flattenUnitP genNames (p.2.cfg F.le) (unitRho F p.2) (unitRho F p.2) (typesDieOff F p.1 p.2) p.2.tree)
            = parentPairs (p.2.cfg F.le) (typesDieOff F p.1 p.2) p.2.tree
        ∧ (flattenUnit genNames (p.2.cfg F.le) (unitRho F p.2) (unitRho F p.2) (typesDieOff F p.1 p.2) p.2.tree).map
              (childrenOf (G (typesCtx F dasz p)) p.1 (unitFuel (typesCtx F dasz p)))
            = (childLists (p.2.cfg F.le) (typesDieOff F p.1 p.2) p.2.tree).map .ok
        ∧ Covered (G (typesCtx F dasz p))
            (flattenUnit genNames (p.2.cfg F.le) (unitRho F p.2) (unitRho F p.2) (typesDieOff F p.1 p.2) p.2.tree) := by
  have hW := wfForest_of_B genNames F hwf
  have hB := genBundles_ok F.le dasz hdasz
  refine ⟨iterSection_types registry_gen F dasz hB hW G hG, fun p hp => ?_⟩
  have h := forest_types_unit registry_gen F dasz hB hW (G (typesCtx F dasz p)) p hp (fun o ho => hG _ o ho)
  exact ⟨⟨_, tuOf_size _ _ _ _, types_unit_tiles genNames _ _ F p.1 p.2⟩, flattenUnitP_parents genNames _ _ _ _ _, h.2, h.1⟩

/-- … and the type units `iter_TUs()` / `_parse_debug_types` find come with exactly the contexts `typesCtx` -/
theorem debug_types_units (F : Forest) (dasz : Nat) (hdasz : dasz = 4 ∨ dasz = 8) (hwf : wfForestB genNames F = true) :
    sectionUnits (forestDInfo F dasz) (genBundles F.le dasz).S0 (some (typesSec F)) true
      = ((placeTypes F 0 F.tus).map fun p =>
          (tuOf F.le p.1 (tuHeaderOf F p.2) (encTree (p.2.cfg F.le) p.2.tree), .ok (typesCtx F dasz p)), none) :=
  sectionUnits_types F dasz (genBundles_ok F.le dasz hdasz) (wfForest_of_B genNames F hwf).typesHdr

/-- the same statements hold of the model run with the standard's bundles themselves (the form the layers above
    are stated in: `specP`, `Spec.dwarfStructs`), for any default address size -/
theorem debug_info_exact_spec (F : Forest) (dasz : Nat) (hwf : wfForestB genNames F = true)
    (G : UnitCtx → Nat → R DieObs) (hG : ∀ U o, U.cuDieOffset ≤ o → G U o = getCachedDIE U o) :
    iterSection G (dinfoOf F dasz Model.genEnumDecode genRaw2name (fun c => some (Spec.dwarfStructs c)))
        (Spec.dwarfStructs ⟨F.le, 32, dasz, 2⟩) (some (infoSec F)) false
      = ((placeInfo F 0 F.units).map fun p =>
          (Proofs.Lookup.cuOf F.le p.1 (infoUnitOf F p.2),
           .ok (flattenUnitP genNames (p.2.cfg F.le) (unitRho F p.2) (unitRho F p.2) (infoDieOff F p.1 p.2) p.2.tree)),
         none) :=
  iterSection_info registry_gen F dasz (specBundles_ok F.le dasz) (wfForest_of_B genNames F hwf) G hG

/--
  ref_sig8_debug_types.  The `.debug_types` half of the signature clause with NO hypothesis about the scan:
  `get_DIE_by_sig8(sig)` on the encoded `.debug_types` of a well-formed forest — `_parse_debug_types` scans the
  whole section into the unit list (`sectionUnits`, discharged by `debug_types_units`), the map keyed
  by signature keeps the LAST unit carrying `sig` (`hsplit`, `hlast`: for the unique signatures DWARF prescribes,
  `post` has none) — returns the entry `d` of that unit lying at `tu_offset + type_offset`, together with the
  unit's offset.  (`ref_sig8_units` above is this with the unit list as a hypothesis.)  `hinfo`: no DWARF 5 type
  unit of `.debug_info` carries the same signature — `_parse_debug_types` enters those after the units of
  `.debug_types`, so such a unit would be the one the map keeps (`ref_sig8_debug_info_v5`).
-/
theorem ref_sig8_debug_types (F : Forest) (dasz : Nat) (hdasz : dasz = 4 ∨ dasz = 8) (hwf : wfForestB genNames F = true)
    (G : UnitCtx → Nat → R DieObs) (hG : ∀ U o, U.cuDieOffset ≤ o → G U o = getCachedDIE U o)
    (pre post : List (Nat × UnitDesc)) (p : Nat × UnitDesc) (hsplit : placeTypes F 0 F.tus = pre ++ p :: post)
    (hlast : ∀ q ∈ post, q.2.id8 ≠ p.2.id8)
    (hinfo : ∀ q ∈ placeInfo F 0 F.units, q.2.isTypeV5 = true → q.2.id8 ≠ p.2.id8) (d : DieObs)
    (hd : d ∈ flattenUnit genNames (p.2.cfg F.le) (unitRho F p.2) (unitRho F p.2) (typesDieOff F p.1 p.2) p.2.tree)
    (hdx : d.offset = p.1 + p.2.typeOff) :
    sig8Lookup G (forestDInfo F dasz) (genBundles F.le dasz).S0 (p.2.id8 : Int) = .ok (p.1, d) :=
  sig8_forest registry_gen F dasz (genBundles_ok F.le dasz hdasz) (wfForest_of_B genNames F hwf) G hG pre post p hsplit
    hlast hinfo d hd hdx

/--
  ref_sig8_debug_info_v5.  The DWARF 5 half of the signature clause, no hypothesis about the scan:
  `get_DIE_by_sig8(sig)` on the encoded sections of a well-formed forest, for the signature of a type unit `p`
  (DW_UT_type / DW_UT_split_type, version 5) placed anywhere in `.debug_info` — `_parse_debug_types` walks
  `.debug_types` (whatever it holds, same signature included) and then every unit of `.debug_info`, entering the
  type units among them; the LAST one carrying `sig` is kept (`hsplit`, `hlast`) — returns the entry `d` of that
  unit lying at `cu_offset + type_offset`, together with the unit's offset.  Before the fix for
  `sig8-v5-type-unit` the code answered KeyError here.
-/
theorem ref_sig8_debug_info_v5 (F : Forest) (dasz : Nat) (hdasz : dasz = 4 ∨ dasz = 8) (hwf : wfForestB genNames F = true)
    (G : UnitCtx → Nat → R DieObs) (hG : ∀ U o, U.cuDieOffset ≤ o → G U o = getCachedDIE U o)
    (pre post : List (Nat × UnitDesc)) (p : Nat × UnitDesc) (hsplit : placeInfo F 0 F.units = pre ++ p :: post)
    (hty : p.2.isTypeV5 = true) (hlast : ∀ q ∈ post, q.2.isTypeV5 = true → q.2.id8 ≠ p.2.id8) (d : DieObs)
    (hd : d ∈ flattenUnit genNames (p.2.cfg F.le) (unitRho F p.2) (unitRho F p.2) (infoDieOff F p.1 p.2) p.2.tree)
    (hdx : d.offset = p.1 + p.2.typeOff) :
    sig8Lookup G (forestDInfo F dasz) (genBundles F.le dasz).S0 (p.2.id8 : Int) = .ok (p.1, d) :=
  sig8_forest_info registry_gen F dasz (genBundles_ok F.le dasz hdasz) (wfForest_of_B genNames F hwf) G hG pre post p
    hsplit hty hlast d hd hdx

/--
  ref_sig8_v5_after_any_history.  The two halves composed: on the encoded sections of a well-formed forest, after ANY
  history `sigs` of signature lookups on the same `DWARFInfo` object (present, absent, repeated signatures), looking up
  the signature of the DWARF 5 type unit `p` of `.debug_info` still returns the entry `d` at `cu_offset + type_offset`
  of that unit — the exactness theorem `ref_sig8_debug_info_v5` carried through the cache by
  `sig8_history_independent`.
-/
theorem ref_sig8_v5_after_any_history (F : Forest) (dasz : Nat) (hdasz : dasz = 4 ∨ dasz = 8)
    (hwf : wfForestB genNames F = true)
    (G : UnitCtx → Nat → R DieObs) (hG : ∀ U o, U.cuDieOffset ≤ o → G U o = getCachedDIE U o)
    (pre post : List (Nat × UnitDesc)) (p : Nat × UnitDesc) (hsplit : placeInfo F 0 F.units = pre ++ p :: post)
    (hty : p.2.isTypeV5 = true) (hlast : ∀ q ∈ post, q.2.isTypeV5 = true → q.2.id8 ≠ p.2.id8) (d : DieObs)
    (hd : d ∈ flattenUnit genNames (p.2.cfg F.le) (unitRho F p.2) (unitRho F p.2) (infoDieOff F p.1 p.2) p.2.tree)
    (hdx : d.offset = p.1 + p.2.typeOff) (sigs : List Int) :
    (Model.SigCache.run (sigUnits (forestDInfo F dasz) (genBundles F.le dasz).S0)
        (fun us s => dieBySig8 G us none s) Model.SigCache.St.init (sigs ++ [(p.2.id8 : Int)])).1.getLast?
      = some (.ok (p.1, d)) := by
  rw [sig8_history_independent, List.map_append, List.map_cons, List.map_nil, List.getLast?_concat,
    ref_sig8_debug_info_v5 F dasz hdasz hwf G hG pre post p hsplit hty hlast d hd hdx]

/--
  refs_info_exact.  Unit-relative and section-relative references at the level of whole sections, no hypothesis
  besides the forest's well-formedness: for EVERY entry `d` (null entries included) of every unit `p` of
  `.debug_info`,
   * `cu.get_DIE_from_refaddr(d.offset)` — what `get_DIE_from_attribute` calls for DW_FORM_ref1/2/4/8/ref/ref_udata
     after adding `cu_offset` — passes the range check against the first-entry offset and the declared size and
     returns exactly `d` (`infoCtx` is the context `iter_CUs()` gives that unit: `debug_info_units`);
   * `dwarfinfo.get_CU_containing(d.offset)` — DW_FORM_ref_addr — returns the unit `p` from every reachable state
     of the unit cache (`Inv`), leaving a reachable state; that unit's `get_DIE_from_refaddr` is the first bullet.
  (`ref_unit_relative` / `ref_section_relative` above are these with the unit context and `Covered` as hypotheses;
  the signature form is `ref_sig8_debug_types`.)
-/
theorem refs_info_exact (F : Forest) (dasz : Nat) (hdasz : dasz = 4 ∨ dasz = 8) (hwf : wfForestB genNames F = true)
    (p : Nat × UnitDesc) (hp : p ∈ placeInfo F 0 F.units) (d : DieObs)
    (hd : d ∈ flattenUnit genNames (p.2.cfg F.le) (unitRho F p.2) (unitRho F p.2) (infoDieOff F p.1 p.2) p.2.tree) :
    unitDIEFromRefaddr (infoCtx F dasz p) d.offset = .ok d
      ∧ ∀ st, Proofs.Lookup.Inv (Proofs.Lookup.specP Model.genEnumDecode F.le dasz (infoSec F))
            (Proofs.Lookup.cusOf F.le 0 (F.units.map (infoUnitOf F))) st →
          ∃ st', Model.Lookup.getCUContaining (Proofs.Lookup.specP Model.genEnumDecode F.le dasz (infoSec F))
                (infoSec F).length st d.offset = (.ok (Proofs.Lookup.cuOf F.le p.1 (infoUnitOf F p.2)), st')
            ∧ Proofs.Lookup.Inv (Proofs.Lookup.specP Model.genEnumDecode F.le dasz (infoSec F))
                (Proofs.Lookup.cusOf F.le 0 (F.units.map (infoUnitOf F))) st' :=
  forest_refs_info registry_gen F dasz (genBundles_ok F.le dasz hdasz) (wfForest_of_B genNames F hwf) p hp d hd

/-- `_parse_CU_at_offset` as the model runs it (regenerated bundles) IS the parser `specP` the unit-lookup theorems
    (C13, `ref_section_relative`, `refs_info_exact`) are stated with -/
theorem parseCU_gen_eq_spec (le : Bool) (dasz : Nat) (hdasz : dasz = 4 ∨ dasz = 8) (data : Bytes) :
    Model.Lookup.parseCUAtOffset Model.genEnumDecode Model.dwarfStructsFor (genBundles le dasz).S0 le data
      = Proofs.Lookup.specP Model.genEnumDecode le dasz data :=
  parseCU_bundles (genBundles_ok le dasz hdasz) data

/-- the driver's marked fetch is `_get_cached_DIE` from the first-entry offset on -/
theorem fetch_agrees (U : UnitCtx) (o : Nat) (h : U.cuDieOffset ≤ o) : fetch U o = getCachedDIE U o := by
  unfold fetch; rw [if_neg (by omega)]

/-! ### non-vacuity -/

/-- a two-level tree: a parent that owns children and carries DW_AT_sibling (DW_FORM_ref4), a
    childless child, the closing null entries -/
def exDecls : List AbbrevDecl :=
  [{ code := 1, tag := 0x11, children := true, specs := [] },
   { code := 2, tag := 0x2e, children := true, specs := [{ name := 0x01, form := 0x13 }] },
   { code := 3, tag := 0x34, children := false, specs := [{ name := 0x3e, form := 0x0b }] }]

def exTree : Tree :=
  .mk { decl := exDecls[0]!, attrs := [] }
    [.mk { decl := exDecls[1]!, attrs := [{ form := 0x13, op := .nat 21 }] }
       [.mk { decl := exDecls[2]!, attrs := [{ form := 0x0b, op := .nat 7 }] } [] 1] 2,
     .mk { decl := exDecls[2]!, attrs := [{ form := 0x0b, op := .nat 9 }] } [] 1] 1

def exNames : Names := { tag := fun n => .int n, at_ := fun n => if n = 1 then .str "DW_AT_sibling" else .int n,
                         form := fun n => match formName n with | some s => .str s | none => .int n }

def exCfg : DwarfCfg := ⟨true, 32, 4, 4⟩

example : wfTree exCfg exTree = true := by decide
example : sibsOk exNames exCfg (fun _ r => r) 0 11 exTree = true := by decide
example : encTree exCfg exTree = [1, 2, 21, 0, 0, 0, 3, 7, 0x80, 0, 3, 9, 0] := by decide
example : exTree.count = 6 := by decide


/-! ### non-vacuity of the entry / unit layer -/

/-- a registry for the examples: the names the theorems look at, numbers otherwise -/
def exNames2 : Names :=
  { tag := fun n => .int n,
    at_ := fun n => if n = 1 then .str "DW_AT_sibling" else if n = 0x72 then .str "DW_AT_str_offsets_base"
      else if n = 0x73 then .str "DW_AT_addr_base" else if n = 0x74 then .str "DW_AT_rnglists_base"
      else if n = 0x8c then .str "DW_AT_loclists_base" else .int n,
    form := fun n => match formName n with | some s => .str s | none => .int n }

/-- a unit with a top entry carrying DW_AT_str_offsets_base and a DW_FORM_strx1 name, a child with
    DW_AT_sibling (ref4) and an indirect (→ data1, two-level chain) attribute, a grandchild with an
    implicit_const and a strp -/
def exD0 : AbbrevDecl :=
  { code := 1, tag := 0x11, children := true, specs := [{ name := 0x03, form := 0x25 }, { name := 0x72, form := 0x17 }] }
def exD1 : AbbrevDecl :=
  { code := 2, tag := 0x2e, children := true, specs := [{ name := 0x01, form := 0x13 }, { name := 0x3e, form := 0x16 }] }
def exD2 : AbbrevDecl :=
  { code := 300, tag := 0x34, children := false, codeLen := 3,
    specs := [{ name := 0x3a, form := 0x21, const := -5 }, { name := 0x03, form := 0x0e }] }
def exDecls2 : List AbbrevDecl := [exD0, exD1, exD2]

def exN0 : Node := { decl := exD0, attrs := [{ form := 0x25, op := .nat 1 }, { form := 0x17, op := .nat 8 }] }
def exN1 : Node := { decl := exD1, attrs := [{ form := 0x13, op := .nat 34 }, { ind := [2, 1], form := 0x0b, op := .nat 7 }] }
def exN2 : Node := { decl := exD2, codeLen := 2, attrs := [{ form := 0x21, op := .implicit }, { form := 0x0e, op := .nat 2 }] }

def exTree2 : Tree := .mk exN0 [.mk exN1 [.mk exN2 [] 1] 2] 1

def exSecs : Sections :=
  { str := some [0x61, 0, 0x62, 0x63, 0], strOffsets := some [0, 0, 0, 0, 0, 0, 0, 0, 0, 0, 0, 0, 2, 0, 0, 0] }

def exU : UnitCtx :=
  { S := Spec.dwarfStructs exCfg, env := Env.empty, data := List.replicate 11 0xAA ++ encTree exCfg exTree2 ++ [0xBB],
    abbrevs := .ok (abbrevMap exNames2 exDecls2), cuOffset := 0, cuDieOffset := 11, size := 35, fmt := 32, addrSize := 4,
    secs := exSecs, raw2name := formName }

example : encTree exCfg exTree2 = [1, 1, 8, 0, 0, 0, 2, 34, 0, 0, 0, 0x96, 0, 0x0b, 7, 0xac, 2, 2, 0, 0, 0, 0x80, 0, 0] := by decide


theorem exU_ok : UnitOK exU exCfg exNames2 where
  structs := BundleEq.refl _
  raw2name := fun _ _ => rfl
  formNames := fun k hk => by
    have h : formCodes.all (fun k => (formName k).isSome) = true := by decide
    have := List.all_eq_true.1 h k hk
    show (match formName k with | some s => Val.str s | none => Val.int k) = _
    cases hf : formName k with
    | none => rw [hf] at this; cases this
    | some s => rfl

theorem exSecs_ok : SecsOK exU exCfg exSecs where
  secsEq := rfl
  fmt := rfl
  asz := rfl
  fmtOK := Or.inl rfl
  aszPos := by decide
  small := fun s h => by
    rcases h with h | h | h | h | h | h <;> simp [exSecs] at h <;> subst h <;> decide

theorem exNames2_refl (k : Nat) : (exNames2.at_ k == exNames2.at_ k) = true := by
  simp only [exNames2]
  repeat' split
  all_goals simp [BEq.beq, Val.beq]

theorem exNames2_base : BaseNames exNames2 := by
  constructor <;> intro k <;> simp only [exNames2] <;> repeat' split
  all_goals simp_all [BEq.beq, Val.beq]

/-- iter_dies_exact / children_parent_exact are not vacuous: a concrete unit (top entry with
    DW_AT_str_offsets_base and a DW_FORM_strx1 name resolved through .debug_str_offsets, a child with
    DW_AT_sibling and a two-level DW_FORM_indirect chain, a grandchild with a padded three-digit code,
    DW_FORM_implicit_const and DW_FORM_strp, padded null entries) satisfies every hypothesis -/
example : iterDIEs (getCachedDIE exU) 0 11 6
    = .ok (flattenUnitP exNames2 exCfg (rho exCfg exSecs (basesOf exTree2.root)) (rho exCfg exSecs (basesOf exTree2.root))
        11 exTree2) :=
  iter_dies_exact (secs := exSecs) (rest := [0xBB]) exU_ok exSecs_ok (fun _ => by simp [exNames2]) exNames2_refl exNames2_base
    (m := abbrevMap exNames2 exDecls2) rfl _ _ _ 6 (by decide) (by decide) (by decide) (by decide)
    (by
      refine ⟨⟨rfl, ?_, ?_⟩, ⟨⟨rfl, ?_, ?_⟩, ⟨⟨rfl, ?_, ?_⟩, trivial⟩, trivial⟩, trivial⟩
      all_goals first
        | (simp only [DistinctAt, exTree2, Tree.root, exN0, exN1, exN2, exD0, exD1, exD2]; decide)
        | (simp only [ResolvesAll, exTree2, Tree.root, exN0, exN1, exN2, exD0, exD1, exD2]; decide))
    (by decide)


example : wfAbbrevs exDecls2 2 = true := by decide
example : wfTree exCfg exTree2 = true := by decide
/-- the abbreviation table of the example, as `abbrev_roundtrip_table` presents it -/
example : (abbrevMap exNames2 exDecls2).map (·.1) = [1, 2, 300] := by decide

/-- unit headers: a DWARF 5 split type unit in 64-bit format, a DWARF 4 type unit -/
def exUnit5 : Lookup.InfoUnit :=
  { fmt64 := true, version := 5, utype := 6, abbrevOff := 7, asz := 8, id8 := 0x1122334455667788, typeOff := 40,
    body := encTree exCfg exTree2 }
def exTU4 : TUHeader := { fmt64 := false, version := 4, abbrevOff := 0, asz := 4, signature := 5, typeOff := 23 }
example : Lookup.wfUnit true exUnit5 = true := by decide
example : wfTU false exTU4 (encTree exCfg exTree2) = true := by decide

/-! ### non-vacuity of the section layer -/

def exD3 : AbbrevDecl := { code := 1, tag := 0x41, children := true, specs := [{ name := 0x03, form := 0x08 }] }
def exD4 : AbbrevDecl :=
  { code := 7, tag := 0x24, children := false, specs := [{ name := 0x0b, form := 0x0b }, { name := 0x49, form := 0x20 }] }
def exTree3 : Tree :=
  .mk { decl := exD3, attrs := [{ form := 0x08, op := .str [0x54] }] }
    [.mk { decl := exD4, attrs := [{ form := 0x0b, op := .nat 4 }, { form := 0x20, op := .nat 5 }] } [] 1] 2

/-- a forest: two abbreviation tables (the second behind three stray bytes, shared by three units); in
    `.debug_info` a DWARF 4 unit (32-bit format; the tree of `exTree2`: strx1 through DW_AT_str_offsets_base,
    DW_AT_sibling, a DW_FORM_indirect chain, implicit_const, strp, padded codes and null entries), a DWARF 5
    split type unit in 64-bit format with 8-byte addresses, a DWARF 2 unit; in `.debug_types` a DWARF 4 type unit
    whose type_offset designates its second entry -/
def exForest : Forest :=
  { le := true,
    tables := [{ decls := exDecls2, endLen := 2 }, { gap := [0xEE, 0xEE, 0xEE], decls := [exD3, exD4] }],
    units := [{ fmt64 := false, version := 4, asz := 4, table := 0, tree := exTree2 },
              { fmt64 := true, version := 5, utype := 6, asz := 8, id8 := 0x1122334455667788, typeOff := 43, table := 1,
                tree := exTree3 },
              { fmt64 := false, version := 2, asz := 8, table := 1, tree := exTree3 }],
    tus := [{ fmt64 := false, version := 4, asz := 4, id8 := 5, typeOff := 26, table := 1, tree := exTree3 }],
    secs := exSecs }

/-- the forest is well formed against the REGENERATED registry -/
theorem exForest_wf : wfForestB genNames exForest = true := by decide +kernel

example : (placeInfo exForest 0 exForest.units).map (fun p => (p.1, infoDieOff exForest p.1 p.2)) = [(0, 11), (35, 75), (90, 101)] := by
  decide +kernel
example : tableOff exForest.tables 1 = 35 := by decide +kernel

/-- `debug_info_exact` / `debug_types_exact` apply to it, with the driver's `fetch` as `_get_cached_DIE` -/
example := debug_info_exact exForest 4 (Or.inl rfl) exForest_wf fetch fetch_agrees
example := debug_types_exact exForest 8 (Or.inr rfl) exForest_wf getCachedDIE (fun _ _ _ => rfl)

/-- the third entry of the first unit of `exForest` (offset 26, abbreviation code 300) -/
def exEntry : DieObs :=
  (flattenUnit genNames ((exForest.units[0]).cfg true) (unitRho exForest exForest.units[0])
    (unitRho exForest exForest.units[0]) 11 exTree2)[2]'(by decide +kernel)

/-- `refs_info_exact`: … is what a unit-relative reference to it yields -/
example : exEntry.offset = 26 ∧ exEntry.code = 300 ∧
    unitDIEFromRefaddr (infoCtx exForest 4 (0, exForest.units[0])) 26 = .ok exEntry := by
  have hmem : exEntry ∈ flattenUnit genNames ((exForest.units[0]).cfg true) (unitRho exForest exForest.units[0])
      (unitRho exForest exForest.units[0]) 11 exTree2 := List.getElem_mem _
  have h := (refs_info_exact exForest 4 (Or.inl rfl) exForest_wf (0, exForest.units[0]) (List.Mem.head _) _ hmem).1
  have e : exEntry.offset = 26 := by decide +kernel
  rw [e] at h
  exact ⟨e, by decide +kernel, h⟩

example : (form_ref_roundtrip Env.empty exCfg 0x01020304 (by decide) [0xAA] [0xBB] []).1 = rfl := rfl

/-- `ref_sig8_debug_types`: signature 5 resolves to the entry at offset 26 of the type unit at offset 0 -/
example : ∃ d : DieObs, d.offset = 26 ∧ d.code = 7 ∧
    sig8Lookup fetch (forestDInfo exForest 4) (genBundles true 4).S0 5 = .ok (0, d) := by
  have hmem : (flattenUnit genNames ((exForest.tus[0]).cfg true) (unitRho exForest exForest.tus[0])
      (unitRho exForest exForest.tus[0]) 23 exTree3)[1]'(by decide +kernel) ∈ _ := List.getElem_mem _
  exact ⟨_, by decide +kernel, by decide +kernel,
    ref_sig8_debug_types exForest 4 (Or.inl rfl) exForest_wf fetch fetch_agrees [] [] (0, exForest.tus[0]) rfl (by simp)
      (by decide +kernel) _ hmem (by decide +kernel)⟩

theorem exForest_place : placeInfo exForest 0 exForest.units
    = [(0, exForest.units[0])] ++ (35, exForest.units[1]) :: [(90, exForest.units[2])] := by
  have h1 : 0 + Spec.Lookup.unitSize exForest.le (infoUnitOf exForest exForest.units[0]) = 35 := by decide +kernel
  have h2 : 35 + Spec.Lookup.unitSize exForest.le (infoUnitOf exForest exForest.units[1]) = 90 := by decide +kernel
  show placeInfo exForest 0 [exForest.units[0], exForest.units[1], exForest.units[2]] = _
  simp only [placeInfo, h1, h2, List.singleton_append]

/-- `ref_sig8_debug_info_v5`: signature 0x1122334455667788 resolves to the entry at offset 78 = 35 + 43 of the
    DWARF 5 split type unit placed at offset 35 of `.debug_info` (between a DWARF 4 and a DWARF 2 unit) -/
example : ∃ d : DieObs, d.offset = 78 ∧ d.code = 7 ∧
    sig8Lookup fetch (forestDInfo exForest 4) (genBundles true 4).S0 0x1122334455667788 = .ok (35, d) := by
  have hmem : (flattenUnit genNames ((exForest.units[1]).cfg true) (unitRho exForest exForest.units[1])
      (unitRho exForest exForest.units[1]) 75 exTree3)[1]'(by decide +kernel) ∈ _ := List.getElem_mem _
  exact ⟨_, by decide +kernel, by decide +kernel,
    ref_sig8_debug_info_v5 exForest 4 (Or.inl rfl) exForest_wf fetch fetch_agrees [(0, exForest.units[0])]
      [(90, exForest.units[2])] (35, exForest.units[1]) exForest_place (by decide +kernel) (by decide +kernel) _ hmem
      (by decide +kernel)⟩

end PyElf.Props.C04
