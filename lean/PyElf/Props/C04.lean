/-
  C04 — debugging-information entries are decoded into exactly the encoded tree.

  Property theorems only.  Layers:
    * forms      : `form_table` (Props/TieC04: the parser registered for a form reads the operand
                   encoding DWARF prescribes, all configurations) + `form_roundtrip`
    * iteration  : `iter_dies_flatten` — whatever bytes the unit is made of, if the DIE found at
                   each entry offset of `flatten` is that entry (`Covered`; the single-entry
                   decoder, see below) the walk of `iter_DIEs` — sibling shortcuts, terminator
                   tracking, recorded parents — yields exactly `flatten`, in order, with the
                   encoded nesting; `tiling`; `ref_unit_relative`
  Correspondence-only (model ↔ code checked by the harness on every run, no theorem yet):
    the single-entry decoder `parseDIE` against `encEntry` (die_roundtrip incl. indirect chains),
    `parseAbbrevTable` against `encAbbrevs` (abbrev_roundtrip), the v5 / type-unit headers
    (v2–4 compile-unit headers: Props/C13 `chain_encoded_partial`), value translation through
    .debug_str/.debug_str_offsets/.debug_addr/loclists/rnglists against `Spec.C04.resolve`,
    `iterChildren`, section-relative and signature references.
-/
import PyElf.Core.Construct
import PyElf.Spec.DieTree
import PyElf.Model.Die
import PyElf.Proofs.DieForms
import PyElf.Proofs.DieIter
import PyElf.Props.TieC04
namespace PyElf.Props.C04
open PyElf PyElf.Spec PyElf.Spec.C04 PyElf.Model.C04 PyElf.Proofs PyElf.Proofs.C04

/-! ### forms -/

/-- every form of the table × every configuration × every in-range operand (LEB128 of any
    length, empty and large blocks, …), anywhere in any byte string: the registered parser
    returns the operand's value and consumes exactly its bytes -/
theorem form_roundtrip (env : Env) (c : DwarfCfg) (k : Nat) (hk : k ∈ formCodes) (cl : Cls)
    (hcl : formClass c k = some cl) (op : Operand) (hwf : wfOperand cl op = true) (pre rest : Bytes) (ctx : Fields) :
    ∃ P, (Spec.dwarfStructs c).form ((formName k).getD "") = some P ∧
      Con.parse env (pre ++ encOperand c.le cl op ++ rest) P ctx pre.length
        = .ok (rawVal op, pre.length + (encOperand c.le cl op).length, ctx) := by
  refine ⟨clsCon c.le cl, ?_, ?_⟩
  · rw [TieC04.form_table c k hk, hcl]; rfl
  · exact operand_roundtrip cl op hwf (drop_pre pre _ rest)

/-- the whole operand table of DWARF 5 §7.5.6 is covered: every listed code has an encoding class -/
theorem form_classes_total (c : DwarfCfg) : formCodes.all (fun k => (formClass c k).isSome) = true := by
  cases c; rfl

/-! ### iteration -/

/-- the walk looks at the entry it starts from only through its offset, size and child flag -/
theorem subtree_root (G : Nat → R DieObs) (cuOff fuel : Nat) (d d' : DieObs) (parent : Option Nat)
    (h1 : d.offset = d'.offset) (h2 : d.size = d'.size) (h3 : d.kids = d'.kids) :
    subtree G cuOff fuel d parent
      = (subtree G cuOff fuel d' parent).map (fun l => (d, parent) :: l.tail) := by
  cases fuel with
  | zero => simp [subtree, Except.map]
  | succ f =>
    simp only [subtree, h1, h2, h3]
    cases d'.kids with
    | false => simp [Except.map]
    | true =>
      simp only [if_true, bind, Except.bind]
      cases childWalk G cuOff f d'.offset (d'.offset + d'.size) <;> simp [Except.map, pure, Except.pure]

/-- the flat list of a unit with the recorded parents -/
def flattenUnitP (nm : Names) (c : DwarfCfg) (ρtop ρ : Val → Val → Val) (off : Nat) (t : Tree) :
    List (DieObs × Option Nat) :=
  (entryObs nm c ρtop off t.root, none) :: (flattenP nm c ρ none off t).tail

/--
  iter_dies_flatten.  `G` is `_get_cached_DIE` of the unit.  Hypotheses: the registry gives every
  tag a name or number (`hnm`), `G` finds the entries of `flattenUnit` at their offsets (`hG`),
  and a DW_AT_sibling attribute, where an entry that owns children has one, is in one of the six
  unit-relative reference forms or DW_FORM_ref_addr and designates the entry after the owner's
  subtree (`hsib`; entries without the attribute are unconstrained).  Then driving
  `cu.iter_DIEs()` to exhaustion yields exactly the encoded sequence — offset, size, code, tag,
  child flag, attributes — null entries closing exactly the sibling lists they terminate, each
  entry with the parent the encoded nesting gives it.
-/
theorem iter_dies_flatten {nm : Names} (hnm : ∀ x, nm.tag x ≠ Val.none) (c : DwarfCfg) (ρtop ρ : Val → Val → Val)
    (G : Nat → R DieObs) (cuOff dieOff fuel : Nat) (t : Tree) (hfuel : t.count ≤ fuel)
    (hG : Covered G (flattenUnit nm c ρtop ρ dieOff t))
    (hsib : sibsOk nm c ρ cuOff dieOff t = true) :
    iterDIEs G cuOff dieOff fuel = .ok (flattenUnitP nm c ρtop ρ dieOff t) := by
  obtain ⟨n, kids, nl⟩ := t
  have htop : G dieOff = .ok (entryObs nm c ρtop dieOff n) := by
    have := hG (entryObs nm c ρtop dieOff n) (by simp [flattenUnit])
    simpa [entryObs] using this
  have hcov : Covered G (flatten nm c ρ dieOff (.mk n kids nl)).tail := by
    apply hG.mono
    intro d hd
    simp only [flatten, List.tail_cons] at hd
    simp only [flattenUnit, List.mem_cons]
    exact Or.inr hd
  have hsub := subtree_flatten hnm c ρ G cuOff (.mk n kids nl) dieOff none fuel hfuel hcov hsib
  unfold iterDIEs
  simp only [htop, bind, Except.bind]
  rw [subtree_root G cuOff fuel (entryObs nm c ρtop dieOff n) (entryObs nm c ρ dieOff n) none rfl rfl
    (by rw [entryObs_kids, entryObs_kids])]
  simp only [Tree.root] at hsub
  rw [hsub]
  rfl

/-- the observed sequence without the parents is `flattenUnit` -/
theorem flattenUnitP_fst (nm : Names) (c : DwarfCfg) (ρtop ρ : Val → Val → Val) (off : Nat) (t : Tree) :
    (flattenUnitP nm c ρtop ρ off t).map (·.1) = flattenUnit nm c ρtop ρ off t := by
  obtain ⟨n, kids, nl⟩ := t
  have h := flattenP_fst nm c ρ (.mk n kids nl) none off
  rw [flattenP, flatten] at h
  simp only [List.map_cons, List.cons.injEq] at h
  simp only [flattenUnitP, flattenUnit, Tree.root, List.map_cons, flattenP, List.tail_cons, h.2]

/-- tiling: the entries of a tree lie back to back, without gap or overlap, from the tree's first
    byte to its last (for the unit's tree: from `cu_die_offset` to the end of the unit's bytes,
    `encUnit = header ++ encTree`) -/
theorem tiling (nm : Names) (c : DwarfCfg) (ρ : Val → Val → Val) (t : Tree) (off : Nat) :
    Tiles off (flatten nm c ρ off t) (off + (encTree c t).length) :=
  flatten_tiles nm c ρ t off

/-- a unit-relative reference that designates an entry of the unit resolves to that entry -/
theorem ref_unit_relative (U : UnitCtx) (l : List DieObs) (hcov : Covered (getCachedDIE U) l) (d : DieObs)
    (hd : d ∈ l) (hr : U.cuDieOffset ≤ d.offset ∧ d.offset < U.cuOffset + U.size) :
    unitDIEFromRefaddr U d.offset = .ok d := by
  unfold unitDIEFromRefaddr
  rw [if_pos hr]
  exact hcov d hd

/-! ### non-vacuity -/

/-- a two-level tree: a parent that owns children and carries DW_AT_sibling (DW_FORM_ref4), a
    childless child, the closing null entries -/
def exDecls : List AbbrevDecl :=
  [{ code := 1, tag := 0x11, children := true, specs := [] },
   { code := 2, tag := 0x2e, children := true, specs := [{ name := 0x01, form := 0x13 }] },
   { code := 3, tag := 0x34, children := false, specs := [{ name := 0x3e, form := 0x0b }] }]

def exTree : Tree :=
  .mk { decl := exDecls[0]!, attrs := [] }
    [.mk { decl := exDecls[1]!, attrs := [{ form := 0x13, op := .nat 21 }] }
       [.mk { decl := exDecls[2]!, attrs := [{ form := 0x0b, op := .nat 7 }] } [] 1] 2,
     .mk { decl := exDecls[2]!, attrs := [{ form := 0x0b, op := .nat 9 }] } [] 1] 1

def exNames : Names := { tag := fun n => .int n, at_ := fun n => if n = 1 then .str "DW_AT_sibling" else .int n,
                         form := fun n => match formName n with | some s => .str s | none => .int n }

def exCfg : DwarfCfg := ⟨true, 32, 4, 4⟩

example : wfTree exCfg exTree = true := by decide
example : sibsOk exNames exCfg (fun _ r => r) 0 11 exTree = true := by decide
example : encTree exCfg exTree = [1, 2, 21, 0, 0, 0, 3, 7, 0x80, 0, 3, 9, 0] := by decide
example : exTree.count = 6 := by decide

end PyElf.Props.C04
