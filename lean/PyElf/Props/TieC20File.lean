/-
  C20 tie for the whole-file theorems: the factories the DRIVER runs the file-level model with
  (`Model.elfStructsFor`, `Model.machineClassOf`, `Model.ehabiStructsFor`: look-ups in the bundles and
  the table regenerated from the library on this run) behave on every byte string exactly as the
  standards-side ones the theorems are stated with, and the regenerated enum tables name the three
  processor-specific section types as the psABIs do.
-/
import PyElf.Model.Env
import PyElf.Model.AttrFile
import PyElf.Proofs.AttrFile
import PyElf.Proofs.EhabiFile
import PyElf.Props.TieC20
import PyElf.Props.TieC14File
namespace PyElf.Props.TieC20File
open PyElf PyElf.Spec PyElf.Model PyElf.Model.C20 PyElf.Proofs PyElf.Proofs.C20

/-- SHT_ARM_ATTRIBUTES / SHT_RISCV_ATTRIBUTES = 0x70000003, SHT_ARM_EXIDX = 0x70000001 in the
    regenerated tables of the respective machine -/
theorem elfEnv_c20 : EnvC20 Model.elfEnv where
  armAttr := by rfl
  riscvAttr := by rfl
  armExidx := by rfl

/-- `EHABIStructs(little_endian)` regenerated = the Spec's, for both byte orders -/
theorem ehabiStructsFor_eq : Model.ehabiStructsFor = specEH := by
  funext le
  unfold Model.ehabiStructsFor specEH
  rw [TieC20.ehabi_bundles]
  cases le <;> rfl

theorem fileAttrSection_generated (env : Env) (data : Bytes) (i : Nat) :
    fileAttrSection env Model.elfStructsFor Model.machineClassOf data i = fileAttrSection env specSF specMC data i := by
  unfold fileAttrSection
  rw [TieC14File.openElf_generated]

theorem fileAttrSectionByName_generated (env : Env) (data name : Bytes) :
    fileAttrSectionByName env Model.elfStructsFor Model.machineClassOf data name
      = fileAttrSectionByName env specSF specMC data name := by
  unfold fileAttrSectionByName
  rw [TieC14File.openElf_generated]

theorem fileEhabiInfo_generated (env : Env) (data : Bytes) (i : Nat) :
    fileEhabiInfo env Model.elfStructsFor Model.machineClassOf Model.ehabiStructsFor data i
      = fileEhabiInfo env specSF specMC specEH data i := by
  unfold fileEhabiInfo
  rw [TieC14File.openElf_generated, ehabiStructsFor_eq]

theorem fileEhabiEntry_generated (env : Env) (data : Bytes) (i n : Nat) :
    fileEhabiEntry env Model.elfStructsFor Model.machineClassOf Model.ehabiStructsFor data i n
      = fileEhabiEntry env specSF specMC specEH data i n := by
  unfold fileEhabiEntry
  rw [fileEhabiInfo_generated]

theorem fileEhabiNumEntry_generated (env : Env) (data : Bytes) (i : Nat) :
    fileEhabiNumEntry env Model.elfStructsFor Model.machineClassOf Model.ehabiStructsFor data i
      = fileEhabiNumEntry env specSF specMC specEH data i := by
  unfold fileEhabiNumEntry
  rw [fileEhabiInfo_generated]

theorem fileEhabiInfosEntry_generated (env : Env) (data : Bytes) (k n : Nat) :
    fileEhabiInfosEntry env Model.elfStructsFor Model.machineClassOf Model.ehabiStructsFor data k n
      = fileEhabiInfosEntry env specSF specMC specEH data k n := by
  unfold fileEhabiInfosEntry fileEhabiInfos
  rw [TieC14File.openElf_generated, ehabiStructsFor_eq]

end PyElf.Props.TieC20File
