/-
  C03 tie: the structures the symbol-table and hash-table code parses are, for every
  configuration, the gABI / Oracle LLG / GNU-hash structures the C03 theorems are about.
-/
import PyElf.Gen.Structs
import PyElf.Spec.ElfStructs
namespace PyElf.Props.TieC03
open PyElf

theorem elf_Elf_Sym : Gen.elfBundles.map (fun b => (b.1, b.2.Elf_Sym)) = Spec.allElfCfgs.map (fun c => (c, (Spec.elfStructs c).Elf_Sym)) := by rfl
theorem elf_Elf_Hash : Gen.elfBundles.map (fun b => (b.1, b.2.Elf_Hash)) = Spec.allElfCfgs.map (fun c => (c, (Spec.elfStructs c).Elf_Hash)) := by rfl
theorem elf_Gnu_Hash : Gen.elfBundles.map (fun b => (b.1, b.2.Gnu_Hash)) = Spec.allElfCfgs.map (fun c => (c, (Spec.elfStructs c).Gnu_Hash)) := by rfl
theorem elf_Elf_Sunw_Syminfo : Gen.elfBundles.map (fun b => (b.1, b.2.Elf_Sunw_Syminfo)) = Spec.allElfCfgs.map (fun c => (c, (Spec.elfStructs c).Elf_Sunw_Syminfo)) := by rfl
theorem elf_Elf_word : Gen.elfBundles.map (fun b => (b.1, b.2.Elf_word)) = Spec.allElfCfgs.map (fun c => (c, (Spec.elfStructs c).Elf_word)) := by rfl
theorem elf_Elf_xword : Gen.elfBundles.map (fun b => (b.1, b.2.Elf_xword)) = Spec.allElfCfgs.map (fun c => (c, (Spec.elfStructs c).Elf_xword)) := by rfl

/-- a per-field tie, read pointwise: the field of the bundle generated for `c` is the Spec's -/
theorem field_of_tie {α : Type} (proj : ElfStructs → α)
    (h : Gen.elfBundles.map (fun b => (b.1, proj b.2)) = Spec.allElfCfgs.map (fun c => (c, proj (Spec.elfStructs c))))
    {c : ElfCfg} {S : ElfStructs} (hS : (c, S) ∈ Gen.elfBundles) : proj S = proj (Spec.elfStructs c) := by
  have hm : (c, proj S) ∈ Gen.elfBundles.map (fun b => (b.1, proj b.2)) := List.mem_map.mpr ⟨(c, S), hS, rfl⟩
  rw [h] at hm
  obtain ⟨c', -, hc'⟩ := List.mem_map.mp hm
  simp only [Prod.mk.injEq] at hc'
  obtain ⟨rfl, h2⟩ := hc'
  exact h2.symm

end PyElf.Props.TieC03
