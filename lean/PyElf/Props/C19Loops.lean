/-
  C19 — the other loops of the enumeration battery (notes, dynamic tags, symbol counts, hash headers)
  are bounded by the file size.

  Property theorems only; helpers in Proofs/ElfLoops.lean.  As in Props/C19.lean the statements quantify over
  ALL byte strings `data` (and all offsets / extents / header values handed to the loops): no well-formedness
  hypothesis.  The loops are the ones other properties model (C14 `iterNotes`, C09 `iterTags` /
  `gnuNumSymbols`, C03 `gnuHashCount` / `elfHashCount`); the models are imported unchanged.

  Two kinds of statement per loop:
    * the model's `fuel` always suffices — `outOfFuel` (the mark of a Python loop that would not end) is unreachable;
    * a count: iterations that succeed / elements yielded / chain words read are bounded by `len / entry size`.
  The structures are the Spec's (`elfStructs c`); where the entry size depends on the class, `c.cls` is 32 or 64
  (what `openElf` guarantees for every file it returns, `ElfErrors.openElf_ok`) — a degenerate configuration with
  word size 0 has zero-size entries and no file selects it.
-/
import PyElf.Proofs.ElfLoops
namespace PyElf.Props.C19Loops
open PyElf PyElf.Spec PyElf.Model PyElf.Proofs PyElf.Proofs.ElfErrors PyElf.Proofs.ElfLoops

/-! ### the construct engine -/

/-- the only fuel-bounded loop of the construct engine is `RepeatUntil`: every other construct — in particular every
    structure the loops below parse — never reports `outOfFuel`, on any bytes -/
theorem parse_never_out_of_fuel (env : Env) (data : Bytes) (c : Con) (hc : Con.loopFree c = true) (ctx : Fields) (pos : Nat) :
    ∀ e, Con.parse env data c ctx pos = .error e → e ≠ .outOfFuel :=
  nf_parse env data c hc ctx pos

/-! ### (1) notes: `iter_notes(elffile, offset, size)` -/

/-- every iteration of the `while` loop advances the offset by at least the note-header size (12 bytes) -/
theorem note_advances (env : Env) (c : ElfCfg) (cls : Nat) (data : Bytes) (offset : Nat) (note : Val) (offset' : Nat)
    (h : noteAt (elfStructs c) env cls data 12 offset = .ok (note, offset')) : offset + 12 ≤ offset' :=
  noteAt_adv (elfStructs c) env cls data 12 offset note offset' h

/-- on ANY bytes, for ANY extent: `iter_notes` never runs out of fuel (neither the note loop nor the
    GNU-property loop inside a note), and it yields at most `size / 12` notes (≤ size/12 + 1) -/
theorem notes_bounded (env : Env) (c : ElfCfg) (cls : Nat) (data : Bytes) (offset size : Nat) :
    iterNotes (elfStructs c) env cls data offset size ≠ .error .outOfFuel ∧
    ∀ notes, iterNotes (elfStructs c) env cls data offset size = .ok notes → notes.length ≤ size / 12 := by
  obtain ⟨h1, h2⟩ := iterNotes_bounds (notesLoopFree_spec c) env cls data (nhdr_sizeofCon c) (by decide) offset size
  exact ⟨fun h => h1 _ h rfl, h2⟩

/-- the same for the two front ends (`NoteSection.iter_notes`, `NoteSegment.iter_notes`), whatever the header says -/
theorem note_section_never_out_of_fuel (env : Env) (c : ElfCfg) (cls : Nat) (data : Bytes) (shdr : Val) :
    noteSectionIterNotes (elfStructs c) env cls data shdr ≠ .error .outOfFuel := by
  intro h
  unfold noteSectionIterNotes at h
  exact (Only.bind (nf_getNat _ _) (fun o _ => Only.bind (nf_getNat _ _) (fun s _ =>
    (iterNotes_bounds (notesLoopFree_spec c) env cls data (nhdr_sizeofCon c) (by decide) o s).1))) _ h rfl

theorem note_segment_never_out_of_fuel (env : Env) (c : ElfCfg) (cls : Nat) (data : Bytes) (phdr : Val) :
    noteSegmentIterNotes (elfStructs c) env cls data phdr ≠ .error .outOfFuel := by
  intro h
  unfold noteSegmentIterNotes at h
  exact (Only.bind (nf_getNat _ _) (fun o _ => Only.bind (nf_getNat _ _) (fun s _ =>
    (iterNotes_bounds (notesLoopFree_spec c) env cls data (nhdr_sizeofCon c) (by decide) o s).1))) _ h rfl

/-! ### (2) dynamic tags: `Dynamic._iter_tags` / `iter_tags` -/

/-- an index at which `_get_tag(n)` succeeds lies within the file: at most `(len − offset)/tagsize` —
    so the walk reads at most `(len − offset)/tagsize + 1` entries before DT_NULL or a parse error -/
theorem tag_steps_bounded (env : Env) (c : ElfCfg) (hc : c.cls = 32 ∨ c.cls = 64) (data : Bytes) (d : Dynamic.Dyn)
    (ht : 0 < d.tagsize) (n : Nat) (v : Val) (h : Dynamic.getTagRaw env (elfStructs c) data d n = .ok v) :
    n ≤ (data.length - d.offset) / d.tagsize ∧ d.offset + n * d.tagsize + 2 * (c.cls / 8) ≤ data.length :=
  ⟨getTagRaw_ok_index (dynOK_spec c hc) ht h, getTagRaw_ok_bound (dynOK_spec c hc) h⟩

/-- `list(iter_tags(type))` on ANY bytes: never out of fuel, and at most `(len − offset)/tagsize + 1` tags.
    `IfcNF ifc`: the ELFFile operations the string-table lookup calls (`num_segments`, `get_segment`,
    `get_section_by_name`) do not themselves report `outOfFuel` (C19's `make_section_fuel_sufficient` is that fact
    for `get_section`); `0 < d.tagsize`: `Elf_Dyn.sizeof()` is 8 or 16. -/
theorem tags_bounded (env : Env) (c : ElfCfg) (hc : c.cls = 32 ∨ c.cls = 64) (data : Bytes) (ifc : Dynamic.FileIfc)
    (hI : IfcNF ifc) (d : Dynamic.Dyn) (ht : 0 < d.tagsize) (type : Option String) :
    Dynamic.iterTags env (elfStructs c) data ifc d type ≠ .error .outOfFuel ∧
    ∀ l, Dynamic.iterTags env (elfStructs c) data ifc d type = .ok l →
      l.length ≤ (data.length - d.offset) / d.tagsize + 1 :=
  ⟨fun h => nf_iterTags (dynOK_spec c hc) ht hI type _ h rfl, fun _ h => iterTags_count (dynOK_spec c hc) ht type h⟩

/-- the early-exit walk (`next(iter_tags(type))`, `get_table_offset`) needs nothing of the file interface -/
theorem first_tag_never_out_of_fuel (env : Env) (c : ElfCfg) (hc : c.cls = 32 ∨ c.cls = 64) (data : Bytes)
    (d : Dynamic.Dyn) (ht : 0 < d.tagsize) (type : Option String) :
    Dynamic.firstTagRaw env (elfStructs c) data d type ≠ .error .outOfFuel :=
  fun h => nf_firstTagRaw (dynOK_spec c hc) ht type _ h rfl

-- non-vacuity: an interface that satisfies `IfcNF`, and the tag sizes of the two classes
example : IfcNF ⟨.ok 0, fun _ => .error .indexError, fun _ => .ok none⟩ :=
  ⟨Only.ok _, fun _ => Only.error (by decide), fun _ => Only.ok _⟩
example : sizeofR (elfStructs ⟨true, 64, "default", false, false⟩).Elf_Dyn = .ok 16 := by rfl
example : sizeofR (elfStructs ⟨true, 32, "default", false, false⟩).Elf_Dyn = .ok 8 := by rfl

/-! ### (3) symbol counts from the hash tables -/

/-- GNU hash, C03's model: the chain walk of `get_number_of_symbols` (called with fuel `len + 1`) ends with a value
    or with struct.error (the 4-byte read came up short) — never out of fuel — and reads at most
    `(len − pos)/4` chain words (`r − maxIdx` is the number of words read; ≤ (len − pos)/4 + 1) -/
theorem gnu_chain_walk_bounded (le : Bool) (data : Bytes) (pos maxIdx : Nat) :
    (∀ e, gnuCountLoop le data (data.length + 1) pos maxIdx = .error e → e = .structError) ∧
    ∀ r, gnuCountLoop le data (data.length + 1) pos maxIdx = .ok r →
      maxIdx < r ∧ r - maxIdx ≤ (data.length - pos) / 4 :=
  ⟨gnuCountLoop_only le data _ pos maxIdx (by omega), gnuCountLoop_steps le data _ pos maxIdx⟩

/-- `GNUHashTable.get_number_of_symbols` (C03's model), any params whatsoever -/
theorem gnu_count_never_out_of_fuel (le : Bool) (data : Bytes) (g : GnuHash) :
    gnuHashCount le data g ≠ .error .outOfFuel :=
  fun h => nf_gnuHashCount le data g _ h rfl

/-- the same walk as dynamic.py reaches it (C09's model; fuel `(len − pos)/4 + 2`) -/
theorem gnu_chain_walk_bounded_dyn (le : Bool) (data : Bytes) (pos maxIdx : Nat) :
    (∀ e, Dynamic.gnuNumSymbols.walk data le 4 ((data.length - pos) / 4 + 2) pos maxIdx = .error e → e = .structError) ∧
    ∀ r, Dynamic.gnuNumSymbols.walk data le 4 ((data.length - pos) / 4 + 2) pos maxIdx = .ok r →
      maxIdx < r ∧ r - maxIdx ≤ (data.length - pos) / 4 :=
  ⟨walk_only data le _ pos maxIdx (Nat.le_refl _), walk_steps data le _ pos maxIdx⟩

theorem gnu_num_symbols_never_out_of_fuel (env : Env) (c : ElfCfg) (data : Bytes) (le : Bool) (off : Nat) :
    Dynamic.gnuNumSymbols env (elfStructs c) data le off ≠ .error .outOfFuel :=
  fun h => nf_gnuNumSymbols env c data le off _ h rfl

/-- SysV hash: after the header parse the count is one dictionary access (no loop at all) -/
theorem sysv_count_is_a_lookup (params : Val) : elfHashCount params = params.getField "nchains" := rfl

theorem sysv_num_symbols_never_out_of_fuel (env : Env) (c : ElfCfg) (data : Bytes) (off : Nat) :
    Dynamic.sysvNumSymbols env (elfStructs c) data off ≠ .error .outOfFuel := by
  intro h
  unfold Dynamic.sysvNumSymbols at h
  refine (Only.bind (nf_structParseAt' (c := (elfStructs c).Elf_Hash) (by rfl) data off) ?_) _ h rfl
  rintro ⟨p, q⟩ _
  exact nf_getNat _ _

/-! ### (4) the hash-table headers: arrays counted by attacker-controlled words -/

/-- `MetaArray._parse` is lazy: if the loop over `m` elements fails, the loop over ANY larger count fails in exactly
    the same way — nothing beyond the failing element is evaluated (the `arrayLoop` form of `mapM_range_stops`) -/
theorem counted_array_stops (step : Nat → Fields → PRes) (e : Err) (m n pos : Nat) (ctx : Fields) (acc : List Val)
    (hmn : m ≤ n) (h : arrayLoop step m pos ctx acc = .error e) : arrayLoop step n pos ctx acc = .error e :=
  arrayLoop_stops step m n pos ctx acc hmn h

/-- an array of `k`-byte integers counted by the context field `key` whose value `n` is absurd — more elements than
    the rest of the file can hold — fails with ELFParseError, and its parse IS the loop over `(len − pos)/k + 1`
    elements: at most that many (≤ len/4 + 1 for the 4-byte words of the hash tables) are parsed before the failure -/
theorem counted_array_absurd (env : Env) (data : Bytes) (key : String) (k : Nat) (le : Bool) (ctx : Fields)
    (pos n : Nat) (hk : 0 < k) (hkey : Fields.get? ctx key = some (.int (n : Int)))
    (hn : (data.length - pos) / k + 1 ≤ n) :
    Con.parse env data (.array (.ctx key) (.uint k le)) ctx pos = .error .elfParseError ∧
    Con.parse env data (.array (.ctx key) (.uint k le)) ctx pos
      = arrayLoop (fun p c => Con.parse env data (.uint k le) c p) ((data.length - pos) / k + 1) pos ctx [] :=
  parse_array_ctx_absurd hk hkey hn

/-- `Elf_Hash` (ELFHashTable.__init__) parses only if the header and BOTH arrays lie inside the file:
    with `nbucket`, `nchain` the two words the file holds at `off`, `8 + 4·nbucket + 4·nchain ≤ len − off`.
    Absurd counts therefore always fail (with the work bound of `counted_array_absurd`). -/
theorem sysv_header_parse_bounded (env : Env) (c : ElfCfg) (data : Bytes) (off : Nat) (r : Val × Nat)
    (h : structParse env (elfStructs c).Elf_Hash data off = .ok r) :
    r.2 = off + 8 + 4 * decNat c.le (readN data off 4) + 4 * decNat c.le (readN data (off + 4) 4) ∧
    r.2 ≤ data.length :=
  hash_parse_ok_bound env c data off r h

/-- `Gnu_Hash` (GNUHashTable.__init__): with `nbuckets` the word at `off` and `bloom_size` the word at `off + 8`,
    `16 + bloom_size·(cls/8) + 4·nbuckets ≤ len − off` -/
theorem gnu_header_parse_bounded (env : Env) (c : ElfCfg) (hc : c.cls = 32 ∨ c.cls = 64) (data : Bytes) (off : Nat)
    (r : Val × Nat) (h : structParse env (elfStructs c).Gnu_Hash data off = .ok r) :
    r.2 = off + 16 + decNat c.le (readN data (off + 8) 4) * (c.cls / 8) + 4 * decNat c.le (readN data off 4) ∧
    r.2 ≤ data.length :=
  gnu_parse_ok_bound env c hc data off r h

/-- neither header parse can run out of fuel -/
theorem hash_headers_never_out_of_fuel (env : Env) (c : ElfCfg) (data : Bytes) (off : Nat) :
    structParse env (elfStructs c).Elf_Hash data off ≠ .error .outOfFuel ∧
    structParse env (elfStructs c).Gnu_Hash data off ≠ .error .outOfFuel :=
  ⟨fun h => nf_structParse (c := (elfStructs c).Elf_Hash) (by rfl) data off [] _ h rfl,
   fun h => nf_structParse (c := (elfStructs c).Gnu_Hash) (by rfl) data off [] _ h rfl⟩

-- non-vacuity of the absurd-count statement: 8 bytes claiming 0xffffffff buckets fail after ONE element
example : structParse Env.empty (elfStructs ⟨true, 64, "default", false, false⟩).Elf_Hash
    [0xff, 0xff, 0xff, 0xff, 0, 0, 0, 0] 0 = .error .elfParseError := by rfl
-- and a table that fits parses, ending at 8 + 4·1 + 4·1
example : (structParse Env.empty (elfStructs ⟨true, 64, "default", false, false⟩).Elf_Hash
    [1, 0, 0, 0, 1, 0, 0, 0, 0, 0, 0, 0, 0, 0, 0, 0] 0).toOption.map (·.2) = some 16 := by rfl

end PyElf.Props.C19Loops
