/-
  C07 tie, part 2: the look-up the models use for `DWARFStructs(...)` (`Model.dwarfStructsFor`, over the regenerated
  bundles) answers, for each of the 32 configurations, with the bundle written from the standard — the whole
  bundle (Props/TieDwarf `dwarf_bundles_eq_spec`), so that `cu.structs` / `DWARFInfo.structs` of the composed
  model (Model/ListsInfo) are the `Spec.dwarfStructs cfg` the C07 theorems are stated with.
-/
import PyElf.Gen.Structs
import PyElf.Spec.DwarfStructs
import PyElf.Model.Env
namespace PyElf.Props.TieC07
open PyElf

theorem gen_structs_all :
    Spec.allDwarfCfgs.map Model.dwarfStructsFor = Spec.allDwarfCfgs.map (fun c => some (Spec.dwarfStructs c)) := by rfl

theorem gen_structs (c : DwarfCfg) (hc : c ∈ Spec.allDwarfCfgs) : Model.dwarfStructsFor c = some (Spec.dwarfStructs c) :=
  (List.map_inj_left.1 gen_structs_all) c hc

end PyElf.Props.TieC07
