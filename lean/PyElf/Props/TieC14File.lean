/-
  C14 tie for the whole-file theorems: the struct factory and the machine classification the DRIVER
  runs the file-level model with (`Model.elfStructsFor`, `Model.machineClassOf`: look-ups in the
  bundles and the table regenerated from the library on this run) open every byte string exactly as
  the standards-side factory the theorems are stated with (`C01.specStructs`, `C01.specMachineClass`).
-/
import PyElf.Model.Env
import PyElf.Model.ElfFile
import PyElf.Model.NotesFile
import PyElf.Spec.ElfStructs
import PyElf.Proofs.ElfFile
namespace PyElf.Props.TieC14File
open PyElf PyElf.Spec PyElf.Model PyElf.Proofs

/-- for every configuration the Spec enumerates, the look-up in the regenerated bundles returns the
    Spec's bundle -/
theorem factory_tie : allElfCfgs.map Model.elfStructsFor = allElfCfgs.map (fun c => some (elfStructs c)) := by rfl

theorem factory_at {c : ElfCfg} (h : c ∈ allElfCfgs) : Model.elfStructsFor c = specSF c :=
  (List.map_inj_left.1 factory_tie) c h

theorem machine_table_tie : Gen.machineClass = Spec.machineClass := by rfl

theorem machineClassOf_eq : Model.machineClassOf = specMC := by
  funext v
  cases v <;> try rfl
  rename_i m
  simp only [Model.machineClassOf, specMC, machine_table_tie]
  cases machineClass.find? (fun x => x.1 == m) <;> rfl

theorem cfg_mem (le : Bool) (cls : Nat) (m : String) (sol core : Bool) (hc : cls = 32 ∨ cls = 64)
    (hm : m ∈ machineClasses) : (⟨le, cls, m, sol, core⟩ : ElfCfg) ∈ allElfCfgs := by
  simp only [allElfCfgs, List.mem_flatMap, List.mem_map]
  refine ⟨m, hm, le, by cases le <;> simp, cls, by rcases hc with h | h <;> simp [h], sol, by cases sol <;> simp,
    core, by cases core <;> simp, rfl⟩

theorem specMC_mem (v : Val) : specMC v ∈ machineClasses := by
  cases v <;> first | exact machine_factor_aux _ | simp [specMC, machineClasses]

theorem identify_cls {data : Bytes} {cls : Nat} {le : Bool} (h : identify data = .ok (cls, le)) : cls = 32 ∨ cls = 64 := by
  unfold identify at h
  simp only [bind, Except.bind, pure, Except.pure] at h
  split at h
  · cases h
  · split at h
    · split at h <;> first | (cases h; done) | (cases h; simp)
    · split at h <;> first | (cases h; done) | (cases h; simp)
    · cases h

theorem cfgOfHeader_shape {mc : Val → String} {cls : Nat} {le : Bool} {hdr : Val} {cfg : ElfCfg}
    (h : cfgOfHeader mc cls le hdr = .ok cfg) : ∃ em sol core, cfg = ⟨le, cls, mc em, sol, core⟩ := by
  unfold cfgOfHeader at h
  cases h1 : hdr.getField "e_type" with
  | error e => simp [h1, bind, Except.bind] at h
  | ok et =>
    cases h2 : hdr.getField "e_machine" with
    | error e => simp [h1, h2, bind, Except.bind] at h
    | ok em =>
      cases h3 : hdr.getField "e_ident" with
      | error e => simp [h1, h2, h3, bind, Except.bind] at h
      | ok idt =>
        cases h4 : idt.getField "EI_OSABI" with
        | error e => simp [h1, h2, h3, h4, bind, Except.bind] at h
        | ok os =>
          simp only [h1, h2, h3, h4, bind, Except.bind, pure, Except.pure, Except.ok.injEq] at h
          exact ⟨em, _, _, h.symm⟩

/-- `ELFFile(stream)` with the regenerated factory = with the Spec's, on every byte string -/
theorem openElf_generated (env : Env) (data : Bytes) :
    openElf env Model.elfStructsFor Model.machineClassOf data = openElf env specSF specMC data := by
  rw [machineClassOf_eq]
  unfold openElf
  cases hid : identify data with
  | error e => rfl
  | ok p =>
    obtain ⟨cls, le⟩ := p
    have hc := identify_cls hid
    simp only [bind, Except.bind]
    rw [factory_at (cfg_mem le cls "default" false false hc (by simp [machineClasses]))]
    simp only [specSF]
    cases hp : structParseAt env (elfStructs ⟨le, cls, "default", false, false⟩).Elf_Ehdr data 0 with
    | error e => rfl
    | ok r =>
      obtain ⟨hdr, q⟩ := r
      simp only
      cases hcfg : cfgOfHeader specMC cls le hdr with
      | error e => rfl
      | ok cfg =>
        obtain ⟨em, sol, core, rfl⟩ := cfgOfHeader_shape hcfg
        simp only
        rw [factory_at (cfg_mem le cls (specMC em) sol core hc (specMC_mem em))]
        rfl

theorem fileSectionNotes_generated (env : Env) (data : Bytes) (i : Nat) :
    Model.C14.fileSectionNotes env Model.elfStructsFor Model.machineClassOf data i
      = Model.C14.fileSectionNotes env specSF specMC data i := by
  unfold Model.C14.fileSectionNotes
  rw [openElf_generated]

theorem fileSegmentNotes_generated (env : Env) (data : Bytes) (j : Nat) :
    Model.C14.fileSegmentNotes env Model.elfStructsFor Model.machineClassOf data j
      = Model.C14.fileSegmentNotes env specSF specMC data j := by
  unfold Model.C14.fileSegmentNotes
  rw [openElf_generated]

end PyElf.Props.TieC14File
