/-
  C09, non-vacuity of the whole-file hypotheses.  `Con.encodeRaw` / `Con.decodeRaw` are compiled by
  well-founded recursion and do not reduce in the kernel, so the conditions of the whole-file theorems
  of Props/C09.lean (`DynDesc.WF`, `wfBase`, `wfTags`, `wfSyms`, `wfHash`, `noHash`, `fallbackExact`,
  `strRoute`, `regionsOk`, the container's `ElfDesc.wf`, the end-of-image condition of
  `seg_tags_truncated`) are evaluated here at build time (`#guard`) on concrete descriptions, one per
  domain.  The descriptions were drawn by the C09 generator (harness/props/c09.py, `gen_desc` /
  `gen_ext`) and are the smallest it produced for each domain; the assembler's output for each is a
  layout (`assemble_dynLayout_of_regionsOk`).  The driver evaluates the same conditions on every
  generated case (`ext.dom` of its reply; the harness prints the distribution).
-/
import PyElf.Spec.DynamicExt
import PyElf.Model.Env
namespace PyElf.Props.C09.Examples
open PyElf PyElf.Spec PyElf.Spec.Dynamic PyElf.Model

/-- both containers well formed in the sense of C01, regions disjoint, both images assemble -/
def okBoth (d : DynDesc) : Bool :=
  d.wfBase elfEnv && (d.container true).wf elfEnv && (d.container false).wf elfEnv &&
  d.regionsOk true && d.regionsOk false && (d.assemble true).isSome && (d.assemble false).isSome

def endsWithTable (d : DynDesc) (full : Bool) : Bool :=
  match d.assemble full with
  | some b => decide (b.length < d.dynOff + d.tags.length * (2 * d.w) + 2 * d.w)
  | none => false

/-- a well-formed description with a hash table: `DynDesc.WF`, `hashOk` (`segment_view_eq_section_view`, `by_name_exact`) -/
def exHash : DynDesc :=
  { cls := 64, le := false, mclass := "EM_MIPS", solaris := false,
    ehdr := [("EI_VERSION", .int 1), ("EI_OSABI", .int 3), ("EI_ABIVERSION", .int 0), ("e_type", .int 2), ("e_machine", .int 8), ("e_version", .int 1), ("e_entry", .int 0x81), ("e_flags", .int 0xfffe), ("e_ehsize", .int 0x40)],
    tags := [((-2147483648), 0x200000001), (0x70000035, 0xaf), (6, 0x2e), (0x70000005, 0x80000000), (11, 0x18),
             (38, 0x80), (5, 0x25), (1, 1), (0x6ffffef5, 0), (38, 0x40000000001), (1, 6), (10, 9), (21, 3), (0, 0),
             (5, 0x7ff)],
    dynOff := 0x9e, secDynOff := none,
    strtab := [0, 0x6c, 0x69, 0x62, 0xff, 0x2e, 0x73, 0x6f, 0],
    strOff := 0x7d, symOff := 0x86,
    syms := [[("st_name", .int 0), ("st_value", .int 0), ("st_size", .int 0), ("st_info", .record [("bind", .int 0), ("type", .int 0)]), ("st_other", .record [("local", .int 0), ("visibility", .int 0)]), ("st_shndx", .int 0)]],
    gnu := some (⟨1, [0xca], 0x18, [[]]⟩, 0x58),
    segments := [[("p_type", .int 2), ("p_flags", .int 6), ("p_offset", .int 0x9e), ("p_vaddr", .int 0x46), ("p_paddr", .int 0), ("p_filesz", .int 0xf0), ("p_memsz", .int 0xf0), ("p_align", .int 8)],
                 [("p_type", .int 1), ("p_flags", .int 6), ("p_offset", .int 0x58), ("p_vaddr", .int 0), ("p_paddr", .int 0x54), ("p_filesz", .int 0x136), ("p_memsz", .int 0x236), ("p_align", .int 0x1000)]],
    phoff := 0x1c9, shoff := 0x469, phentsize := 0x38, shentsize := 0x40, decoys := 1, shstrOff := 0x191 }

/-- DT_STRTAB removed, `.dynamic` section not at the segment's offset: full layout → string table through the section called `.dynstr`; stripped layout → none -/
def exByName : DynDesc :=
  { cls := 32, le := true, mclass := "EM_AARCH64", solaris := false,
    ehdr := [("EI_VERSION", .int 1), ("EI_OSABI", .int 9), ("EI_ABIVERSION", .int 0), ("e_type", .int 3), ("e_machine", .int 0xb7), ("e_version", .int 1), ("e_entry", .int 0xff), ("e_flags", .int 0x8b), ("e_ehsize", .int 0x34)],
    tags := [(11, 0x11), (6, 0), (1, 1), (0x12345, 0x9c), (0x6ffffef5, 0x84), (0x6000000d, 0x81), (0x60000010, 0x41),
             (0x70000003, 0x2b3ad4ee), ((-2147483648), 0xffffffff), (10, 0x1a), (0x60000010, 0x9e), (14, 0x19),
             (0x70000005, 0xff00), (0, 0)],
    dynOff := 0x29c, secDynOff := some 0x21c,
    strtab := [0, 0x24, 0x4f, 0x52, 0x49, 0x47, 0x49, 0x4e, 0x2f, 0x2e, 0x2e, 0x2f, 0x6c, 0x69, 0x62, 0x3a, 0x2f,
               0x6f, 0x70, 0x74, 0x2f, 0x6c, 0x69, 0x62, 0, 0],
    strOff := 0x328, symOff := 0x28c,
    syms := [[("st_name", .int 0), ("st_value", .int 0), ("st_size", .int 0), ("st_info", .record [("bind", .int 0), ("type", .int 0)]), ("st_other", .record [("local", .int 0), ("visibility", .int 0)]), ("st_shndx", .int 0)]],
    gnu := some (⟨1, [], 0x12, [[], []]⟩, 0x310),
    segments := [[("p_type", .int 2), ("p_offset", .int 0x29c), ("p_vaddr", .int 0x10), ("p_paddr", .int 0), ("p_filesz", .int 0x70), ("p_memsz", .int 0x70), ("p_flags", .int 6), ("p_align", .int 4)],
                 [("p_type", .int 1), ("p_offset", .int 0x28c), ("p_vaddr", .int 0), ("p_paddr", .int 0xffffffff), ("p_filesz", .int 0xbb), ("p_memsz", .int 0xbb), ("p_flags", .int 6), ("p_align", .int 1)]],
    phoff := 0x3c, shoff := 0x347, phentsize := 0x28, shentsize := 0x30, decoys := 0, shstrOff := 0x438 }

/-- no hash table, the estimate is the true count (`seg_symbols_exact_fallback`) -/
def exFbExact : DynDesc :=
  { cls := 64, le := false, mclass := "EM_X86_64", solaris := false,
    ehdr := [("EI_VERSION", .int 1), ("EI_OSABI", .int 3), ("EI_ABIVERSION", .int 0), ("e_type", .int 3), ("e_machine", .int 0x3e), ("e_version", .int 1), ("e_entry", .int 0x100), ("e_flags", .int 0x5a), ("e_ehsize", .int 0x40)],
    tags := [(1, 1), (0x12345, 0x200240), (11, 0x18), (6, 0x200268), (10, 0xf), (5, 0x1000d5), (1, 1), (0, 0),
             (0, 0xf6)],
    dynOff := 0x44, secDynOff := none,
    strtab := [0, 0x6c, 0x69, 0x62, 0x6d, 0x2e, 0x73, 0x6f, 0x2e, 0x36, 0, 0x66, 0x6f, 0x6f, 0],
    strOff := 0xd5, symOff := 0x268,
    syms := [[("st_name", .int 0), ("st_value", .int 0), ("st_size", .int 0), ("st_info", .record [("bind", .int 0), ("type", .int 0)]), ("st_other", .record [("local", .int 0), ("visibility", .int 0)]), ("st_shndx", .int 0)],
             [("st_name", .int 0xb), ("st_value", .int 0xb9), ("st_size", .int 0x20000000000), ("st_info", .record [("bind", .int 7), ("type", .int 2)]), ("st_other", .record [("local", .int 7), ("visibility", .int 2)]), ("st_shndx", .int 0x419b)]],
    segments := [[("p_type", .int 1), ("p_flags", .int 5), ("p_offset", .int 0x40), ("p_vaddr", .int 0x100040), ("p_paddr", .int 0xa0), ("p_filesz", .int 0xa4), ("p_memsz", .int 0xa4), ("p_align", .int 1)],
                 [("p_type", .int 2), ("p_flags", .int 6), ("p_offset", .int 0x44), ("p_vaddr", .int 0x100044), ("p_paddr", .int 0), ("p_filesz", .int 0x90), ("p_memsz", .int 0x90), ("p_align", .int 8)],
                 [("p_type", .int 1), ("p_flags", .int 4), ("p_offset", .int 0x23c), ("p_vaddr", .int 0x20023c), ("p_paddr", .int 0x28), ("p_filesz", .int 0x61), ("p_memsz", .int 0x61), ("p_align", .int 0x1000)]],
    phoff := 0x2d1, shoff := 0xec, phentsize := 0x40, shentsize := 0x40, decoys := 0, shstrOff := 0x29e }

/-- no hash table, the estimate is NOT the true count (`seg_num_symbols_fallback_inexact`) -/
def exFbInexact : DynDesc :=
  { cls := 32, le := true, mclass := "default", solaris := false,
    ehdr := [("EI_VERSION", .int 1), ("EI_OSABI", .int 0), ("EI_ABIVERSION", .int 0), ("e_type", .int 2), ("e_machine", .int 0xab), ("e_version", .int 1), ("e_entry", .int 0x93822f8a), ("e_flags", .int 0x107), ("e_ehsize", .int 0x34)],
    tags := [(11, 0x10), (6, 0x41), (14, 0x50), (10, 0x5c), (1, 1), (29, 0x43), (5, 0x55), (0, 0)],
    dynOff := 0xbe, secDynOff := some 0x35,
    strtab := [0, 0x7a, 0x7a, 0x7a, 0x7a, 0x7a, 0x7a, 0x7a, 0x7a, 0x7a, 0x7a, 0x7a, 0x7a, 0x7a, 0x7a, 0x7a, 0x7a,
               0x7a, 0x7a, 0x7a, 0x7a, 0x7a, 0x7a, 0x7a, 0x7a, 0x7a, 0x7a, 0x7a, 0x7a, 0x7a, 0x7a, 0x7a, 0x7a, 0x7a,
               0x7a, 0x7a, 0x7a, 0x7a, 0x7a, 0x7a, 0x7a, 0x7a, 0x7a, 0x7a, 0x7a, 0x7a, 0x7a, 0x7a, 0x7a, 0x7a, 0x7a,
               0x7a, 0x7a, 0x7a, 0x7a, 0x7a, 0x7a, 0x7a, 0x7a, 0x7a, 0x7a, 0x7a, 0x7a, 0x7a, 0x7a, 0x7a, 0, 0x24,
               0x4f, 0x52, 0x49, 0x47, 0x49, 0x4e, 0x2f, 0x2e, 0x2e, 0x2f, 0x6c, 0x69, 0x62, 0x3a, 0x2f, 0x6f, 0x70,
               0x74, 0x2f, 0x6c, 0x69, 0x62, 0, 0x9c],
    strOff := 0x113, symOff := 0xff,
    syms := [[("st_name", .int 0), ("st_value", .int 0), ("st_size", .int 0), ("st_info", .record [("bind", .int 0), ("type", .int 0)]), ("st_other", .record [("local", .int 0), ("visibility", .int 0)]), ("st_shndx", .int 0)]],
    segments := [[("p_type", .int 2), ("p_offset", .int 0xbe), ("p_vaddr", .int 0), ("p_paddr", .int 0), ("p_filesz", .int 0x40), ("p_memsz", .int 0x40), ("p_flags", .int 6), ("p_align", .int 4)],
                 [("p_type", .int 1), ("p_offset", .int 0xbe), ("p_vaddr", .int 0), ("p_paddr", .int 0xb6e6f57d), ("p_filesz", .int 0xb6), ("p_memsz", .int 0xb6), ("p_flags", .int 4), ("p_align", .int 1)],
                 [("p_type", .int 4), ("p_offset", .int 0xc5), ("p_vaddr", .int 0), ("p_paddr", .int 0xb6e6f57d), ("p_filesz", .int 0xb6), ("p_memsz", .int 0xb6), ("p_flags", .int 4), ("p_align", .int 1)]],
    phoff := 0x2cc, shoff := 0x17c, phentsize := 0x20, shentsize := 0x30, decoys := 2, shstrOff := 0x75 }

/-- no DT_NULL, the table is the last thing in both images (`seg_tags_truncated`) -/
def exTrunc : DynDesc :=
  { cls := 64, le := false, mclass := "EM_AARCH64", solaris := false,
    ehdr := [("EI_VERSION", .int 1), ("EI_OSABI", .int 0), ("EI_ABIVERSION", .int 0), ("e_type", .int 3), ("e_machine", .int 0xb7), ("e_version", .int 1), ("e_entry", .int 0x8000000000000001), ("e_flags", .int 0x80000001), ("e_ehsize", .int 0x40)],
    tags := [(6, 0x1010e8), (5, 0x101109), (0x6ffffffe, 0x7f), (11, 0x18), (1, 3), (10, 0xc)],
    dynOff := 0x380, secDynOff := none,
    strtab := [0, 0x6c, 0x69, 0x62, 0x66, 0x6f, 0x6f, 0x2e, 0x73, 0x6f, 0, 0xbc],
    strOff := 0x109, symOff := 0xe8,
    syms := [[("st_name", .int 0), ("st_value", .int 0), ("st_size", .int 0), ("st_info", .record [("bind", .int 0), ("type", .int 0)]), ("st_other", .record [("local", .int 0), ("visibility", .int 0)]), ("st_shndx", .int 0)]],
    segments := [[("p_type", .int 1), ("p_flags", .int 6), ("p_offset", .int 0xe8), ("p_vaddr", .int 0x1010e8), ("p_paddr", .int 0x7ffffffffffff), ("p_filesz", .int 0xa6), ("p_memsz", .int 0xa6), ("p_align", .int 0x1000)],
                 [("p_type", .int 2), ("p_flags", .int 6), ("p_offset", .int 0x380), ("p_vaddr", .int 0x101119), ("p_paddr", .int 0), ("p_filesz", .int 0x70), ("p_memsz", .int 0x60), ("p_align", .int 8)]],
    phoff := 0x30f, shoff := 0x18f, phentsize := 0x38, shentsize := 0x40, decoys := 1, shstrOff := 0xb8 }

/-- DT_SYMTAB outside every PT_LOAD, no hash table (`seg_symbols_unmapped`) -/
def exUnmapped : DynDesc :=
  { cls := 64, le := false, mclass := "EM_ARM", solaris := false,
    ehdr := [("EI_VERSION", .int 1), ("EI_OSABI", .int 3), ("EI_ABIVERSION", .int 0), ("e_type", .int 3), ("e_machine", .int 0x28), ("e_version", .int 1), ("e_entry", .int 0xff), ("e_flags", .int 0x2000001), ("e_ehsize", .int 0x40)],
    tags := [(6, 0x7f0003f7), (14, 1), (10, 0xb), (0x60000010, 0xd581b6b8a252ddca), (0x12345, 0x10051c), (11, 0x18),
             (22, 0x80), (0x6fffffff, 0x328d70e8028233ef), (5, 0x100534), (0, 0)],
    dynOff := 0x543, secDynOff := none,
    strtab := [0, 0x6c, 0x69, 0x62, 0x6d, 0x2e, 0x73, 0x6f, 0x2e, 0x36, 0],
    strOff := 0x534, symOff := 0x503,
    syms := [[("st_name", .int 0), ("st_value", .int 0), ("st_size", .int 0), ("st_info", .record [("bind", .int 0), ("type", .int 0)]), ("st_other", .record [("local", .int 0), ("visibility", .int 0)]), ("st_shndx", .int 0)]],
    segments := [[("p_type", .int 1), ("p_flags", .int 6), ("p_offset", .int 0x503), ("p_vaddr", .int 0x100503), ("p_paddr", .int 0x7fffff), ("p_filesz", .int 0xe0), ("p_memsz", .int 0x1e0), ("p_align", .int 0x1000)],
                 [("p_type", .int 2), ("p_flags", .int 6), ("p_offset", .int 0x543), ("p_vaddr", .int 0x100543), ("p_paddr", .int 0), ("p_filesz", .int 0xa0), ("p_memsz", .int 0xa0), ("p_align", .int 8)],
                 [("p_type", .int 1), ("p_flags", .int 6), ("p_offset", .int 0x503), ("p_vaddr", .int 0x100503), ("p_paddr", .int 0x7fffff), ("p_filesz", .int 0xe0), ("p_memsz", .int 0x1e0), ("p_align", .int 0x1000)]],
    phoff := 0x201, shoff := 0x48, phentsize := 0x40, shentsize := 0x40, decoys := 1, shstrOff := 0x1d0 }


#guard exHash.WF elfEnv && hashOk exHash && okBoth exHash
#guard exHash.wfTags elfEnv true && exHash.wfTags elfEnv false && exHash.wfSyms elfEnv && exHash.wfHash elfEnv

-- `seg_tags_exact_routes` / `seg_by_name_exact` through the section called `.dynstr`; `seg_tags_no_strtab`
#guard okBoth exByName && exByName.strRoute elfEnv true == .byName && exByName.wfTags elfEnv true &&
  exByName.wfSyms elfEnv && exByName.wfHash elfEnv && hashOk exByName
#guard hasTerminator exByName.tags && exByName.strRoute elfEnv false == .none && !exByName.wf elfEnv true

-- `seg_num_symbols_fallback`, `seg_symbols_exact_fallback`
#guard okBoth exFbExact && exFbExact.wfTags elfEnv true && exFbExact.wfTags elfEnv false && exFbExact.wfSyms elfEnv &&
  exFbExact.noHash elfEnv && symentOk exFbExact.symsz exFbExact.live && exFbExact.fallbackExact elfEnv

-- `seg_num_symbols_fallback_inexact`
#guard okBoth exFbInexact && exFbInexact.wfTags elfEnv true && exFbInexact.wfTags elfEnv false && exFbInexact.wfSyms elfEnv &&
  exFbInexact.noHash elfEnv && symentOk exFbInexact.symsz exFbInexact.live && !exFbInexact.fallbackExact elfEnv

-- `seg_tags_truncated`, both layouts (section link / stored DT_STRTAB)
#guard okBoth exTrunc && !hasTerminator exTrunc.tags && stringsOk exTrunc && exTrunc.strOk elfEnv true &&
  exTrunc.strOk elfEnv false && exTrunc.strRoute elfEnv true == .link && exTrunc.strRoute elfEnv false == .pointer &&
  endsWithTable exTrunc true && endsWithTable exTrunc false

-- `seg_symbols_unmapped`
#guard okBoth exUnmapped && hasTerminator exUnmapped.tags && exUnmapped.noHash elfEnv &&
  ((firstVal exUnmapped.live DT_SYMTAB).bind (mapAddr (exUnmapped.phdrs elfEnv))).isNone

end PyElf.Props.C09.Examples
