/-
  C17 — symbolic names and numeric codes follow the ELF and DWARF registries.

  Property theorems only.  Objects:
    * `Registry.entries`  (Spec/Registry.lean, vendored from registry/*.tsv): name key ↦ accepted values
      (glibc elf.h, LLVM 14 ELF.h / ELFRelocs/*.def / DynamicTags.def / Dwarf.def; a value is accepted when any
      source assigns it; the aaelf64 document is a third source for R_AARCH64_TLS_DTPREL64 / DTPMOD64; `*_NUM`-style
      count pseudo-constants are not in the registry).
    * `Gen.tableIndex`    (regenerated from /repo on every run): every ENUM_* dictionary, flag class, DWARF constant
      module, reverse form map, operation tables and the CFA opcode name map, as (name key, value) lists.
  Names are compared through `int.from_bytes(name, 'big')`.  A name the registries do not define is not judged.

  One theorem per table (a failure names the table) + the catch-all theorems of Props/C17All.lean
  (every table of the index, so a table added to the library is covered without a new theorem).
-/
import PyElf.Spec.Registry
import PyElf.Proofs.Registry
import PyElf.Gen.Tables
import PyElf.Gen.Extra_C17
import PyElf.Props.C17Base
import PyElf.Props.C17All
namespace PyElf.Props.C17
open PyElf PyElf.Spec PyElf.Proofs.Registry
set_option maxRecDepth 100000

/-! ### every (name, value) pair whose name a registry defines carries a registry value -/

theorem conforms_ENUM_EI_CLASS : TableConforms 5490986168324623947164568081235 "ENUM_EI_CLASS" := tableConforms_of (by decide +kernel)
theorem conforms_ENUM_EI_DATA : TableConforms 21449164720018062293627655233 "ENUM_EI_DATA" := tableConforms_of (by decide +kernel)
theorem conforms_ENUM_E_VERSION : TableConforms 1405692459091105313210148567207758 "ENUM_E_VERSION" := tableConforms_of (by decide +kernel)
theorem conforms_ENUM_EI_OSABI : TableConforms 5490986168324623947216225124937 "ENUM_EI_OSABI" := tableConforms_of (by decide +kernel)
theorem conforms_ENUM_E_TYPE : TableConforms 83785799687570650140594245 "ENUM_E_TYPE" := tableConforms_of (by decide +kernel)
theorem conforms_ENUM_E_MACHINE : TableConforms 1405692459091105310672411121241669 "ENUM_E_MACHINE" := tableConforms_of (by decide +kernel)
theorem conforms_ENUM_SH_TYPE_BASE : TableConforms 23583606015746942546096466659962463015749 "ENUM_SH_TYPE_BASE" := tableConforms_of (by decide +kernel)
theorem conforms_ENUM_SH_TYPE_AMD64 : TableConforms 6037403140031217291800695464950386437404212 "ENUM_SH_TYPE_AMD64" := tableConforms_of (by decide +kernel)
theorem conforms_ENUM_SH_TYPE_ARM : TableConforms 92123460999011494320689322890478309965 "ENUM_SH_TYPE_ARM" := tableConforms_of (by decide +kernel)
theorem conforms_ENUM_SH_TYPE_AARCH64 : TableConforms 395667252185085856435450377990988512427931874868 "ENUM_SH_TYPE_AARCH64" := tableConforms_of (by decide +kernel)
theorem conforms_ENUM_SH_TYPE_RISCV : TableConforms 6037403140031217291800695464950459385725782 "ENUM_SH_TYPE_RISCV" := tableConforms_of (by decide +kernel)
theorem conforms_ENUM_SH_TYPE_MIPS : TableConforms 23583606015746942546096466659962648088659 "ENUM_SH_TYPE_MIPS" := tableConforms_of (by decide +kernel)
theorem conforms_ENUM_ELFCOMPRESS_TYPE : TableConforms 101290816559363390316311524803579510309099230810181 "ENUM_ELFCOMPRESS_TYPE" := tableConforms_of (by decide +kernel)
theorem conforms_ENUM_P_TYPE_BASE : TableConforms 92123460999007975955103142905942987589 "ENUM_P_TYPE_BASE" := tableConforms_of (by decide +kernel)
theorem conforms_ENUM_P_TYPE_ARM : TableConforms 359857269527374906074621651976278605 "ENUM_P_TYPE_ARM" := tableConforms_of (by decide +kernel)
theorem conforms_ENUM_P_TYPE_AARCH64 : TableConforms 1545575203847932598321571730811591707165472308 "ENUM_P_TYPE_AARCH64" := tableConforms_of (by decide +kernel)
theorem conforms_ENUM_P_TYPE_MIPS : TableConforms 92123460999007975955103142906128060499 "ENUM_P_TYPE_MIPS" := tableConforms_of (by decide +kernel)
theorem conforms_ENUM_P_TYPE_RISCV : TableConforms 23583606015746041844506404583990258516822 "ENUM_P_TYPE_RISCV" := tableConforms_of (by decide +kernel)
theorem conforms_ENUM_ST_INFO_BIND : TableConforms 23583606015746957053002592413412686908996 "ENUM_ST_INFO_BIND" := tableConforms_of (by decide +kernel)
theorem conforms_ENUM_ST_INFO_TYPE : TableConforms 23583606015746957053002592413412989947973 "ENUM_ST_INFO_TYPE" := tableConforms_of (by decide +kernel)
theorem conforms_ENUM_ST_VISIBILITY : TableConforms 6037403140031221005629963123418601599095897 "ENUM_ST_VISIBILITY" := tableConforms_of (by decide +kernel)
theorem conforms_ENUM_ST_LOCAL : TableConforms 5490986168325635849744548053324 "ENUM_ST_LOCAL" := tableConforms_of (by decide +kernel)
theorem conforms_ENUM_ST_SHNDX : TableConforms 5490986168325635849774496105560 "ENUM_ST_SHNDX" := tableConforms_of (by decide +kernel)
theorem conforms_ENUM_D_TAG_COMMON : TableConforms 23583606015742328023945185354600441270094 "ENUM_D_TAG_COMMON" := tableConforms_of (by decide +kernel)
theorem conforms_ENUM_D_TAG_SOLARIS : TableConforms 6037403140030035974129967455281308096416083 "ENUM_D_TAG_SOLARIS" := tableConforms_of (by decide +kernel)
theorem conforms_ENUM_D_TAG_MIPS : TableConforms 359857269527318237670062032555692115 "ENUM_D_TAG_MIPS" := tableConforms_of (by decide +kernel)
theorem conforms_ENUM_D_TAG_AARCH64 : TableConforms 6037403140030035974129967450199391155533364 "ENUM_D_TAG_AARCH64" := tableConforms_of (by decide +kernel)
theorem conforms_ENUMMAP_EXTRA_D_TAG_MACHINE_EM_MIPS : TableConforms 525931988587779285554006944825206534167808176617811026131802937566110139496096419923 "ENUMMAP_EXTRA_D_TAG_MACHINE.EM_MIPS" := tableConforms_of (by decide +kernel)
theorem conforms_ENUMMAP_EXTRA_D_TAG_MACHINE_EM_MIPS_RS3_LE : TableConforms 37897393725218347923570720628013233352097014075304961872765879622367461971712501551450893166753827909 "ENUMMAP_EXTRA_D_TAG_MACHINE.EM_MIPS_RS3_LE" := tableConforms_of (by decide +kernel)
theorem conforms_ENUMMAP_EXTRA_D_TAG_MACHINE_EM_AARCH64 : TableConforms 8823674573846708034065254178832572268344698025683165032594902352981144090112754306387555892 "ENUMMAP_EXTRA_D_TAG_MACHINE.EM_AARCH64" := tableConforms_of (by decide +kernel)
theorem conforms_ENUM_D_TAG : TableConforms 327288280029568557138247 "ENUM_D_TAG" := tableConforms_of (by decide +kernel)
theorem conforms_ENUM_DT_FLAGS : TableConforms 5490986168324554985808158869331 "ENUM_DT_FLAGS" := tableConforms_of (by decide +kernel)
theorem conforms_ENUM_DT_FLAGS_1 : TableConforms 359857269527318035549923499660500785 "ENUM_DT_FLAGS_1" := tableConforms_of (by decide +kernel)
theorem conforms_ENUM_RELOC_TYPE_MIPS : TableConforms 395667252185080601784453994131958333791839801427 "ENUM_RELOC_TYPE_MIPS" := tableConforms_of (by decide +kernel)
theorem conforms_ENUM_RELOC_TYPE_i386 : TableConforms 395667252185080601784453994131958333792308115510 "ENUM_RELOC_TYPE_i386" := tableConforms_of (by decide +kernel)
theorem conforms_ENUM_RELOC_TYPE_x64 : TableConforms 1545575203847971100720523414577962241377187380 "ENUM_RELOC_TYPE_x64" := tableConforms_of (by decide +kernel)
theorem conforms_ENUM_RELOC_TYPE_BPF : TableConforms 1545575203847971100720523414577962241373655110 "ENUM_RELOC_TYPE_BPF" := tableConforms_of (by decide +kernel)
theorem conforms_ENUM_RELOC_TYPE_LOONGARCH : TableConforms 435040744507675065289786661379414259730056511727649399391048 "ENUM_RELOC_TYPE_LOONGARCH" := tableConforms_of (by decide +kernel)
theorem conforms_ENUM_RELOC_TYPE_S390X : TableConforms 101290816559380634056820222497781333450736388354136 "ENUM_RELOC_TYPE_S390X" := tableConforms_of (by decide +kernel)
theorem conforms_ENUM_SUNW_SYMINFO_BOUNDTO : TableConforms 435040744507681131269464648684575588108239366786995389224015 "ENUM_SUNW_SYMINFO_BOUNDTO" := tableConforms_of (by decide +kernel)
theorem conforms_ENUM_VERSYM : TableConforms 83785799687589230135171405 "ENUM_VERSYM" := tableConforms_of (by decide +kernel)
theorem conforms_ENUM_NOTE_N_TYPE : TableConforms 92123460999005482544163267873070469189 "ENUM_NOTE_N_TYPE" := tableConforms_of (by decide +kernel)
theorem conforms_ENUM_CORE_NOTE_N_TYPE : TableConforms 101290816559360747680762855109562653562230468595781 "ENUM_CORE_NOTE_N_TYPE" := tableConforms_of (by decide +kernel)
theorem conforms_ENUM_NOTE_ABI_TAG_OS : TableConforms 395667252185060036051880049272814348524672995155 "ENUM_NOTE_ABI_TAG_OS" := tableConforms_of (by decide +kernel)
theorem conforms_ENUM_NOTE_GNU_PROPERTY_TYPE : TableConforms 28510830232053511161622554788441095477571919501453577736838271045 "ENUM_NOTE_GNU_PROPERTY_TYPE" := tableConforms_of (by decide +kernel)
theorem conforms_ENUM_GNU_PROPERTY_X86_FEATURE_1_FLAGS : TableConforms 34467478806175671139419112514877951785895495964585981512951044543423280605358461533898579 "ENUM_GNU_PROPERTY_X86_FEATURE_1_FLAGS" := tableConforms_of (by decide +kernel)
theorem conforms_ENUM_RELOC_TYPE_ARM : TableConforms 1545575203847971100720523414577962241373590093 "ENUM_RELOC_TYPE_ARM" := tableConforms_of (by decide +kernel)
theorem conforms_ENUM_RELOC_TYPE_AARCH64 : TableConforms 6638194954035569233547770101614597469022408898450568756 "ENUM_RELOC_TYPE_AARCH64" := tableConforms_of (by decide +kernel)
theorem conforms_ENUM_ATTR_TAG_ARM : TableConforms 23583606015741386271047026491525492200013 "ENUM_ATTR_TAG_ARM" := tableConforms_of (by decide +kernel)
theorem conforms_ENUM_ATTR_TAG_RISCV : TableConforms 1545575203847627490659337928148614729683911510 "ENUM_ATTR_TAG_RISCV" := tableConforms_of (by decide +kernel)
theorem conforms_ENUM_RELOC_TYPE_PPC64 : TableConforms 101290816559380634056820222497781333450723990648372 "ENUM_RELOC_TYPE_PPC64" := tableConforms_of (by decide +kernel)
theorem conforms_ENUM_RELOC_TYPE_PPC : TableConforms 1545575203847971100720523414577962241374572611 "ENUM_RELOC_TYPE_PPC" := tableConforms_of (by decide +kernel)
theorem conforms_ENUM_RELOC_TYPE_V850 : TableConforms 395667252185080601784453994131958333791989675312 "ENUM_RELOC_TYPE_V850" := tableConforms_of (by decide +kernel)
theorem conforms_ENUM_DW_TAG : TableConforms 83785799687569516453445959 "ENUM_DW_TAG" := tableConforms_of (by decide +kernel)
theorem conforms_ENUM_DW_CHILDREN : TableConforms 92123460998993431267662574657318569294 "ENUM_DW_CHILDREN" := tableConforms_of (by decide +kernel)
theorem conforms_ENUM_DW_AT : TableConforms 327288280029568423641428 "ENUM_DW_AT" := tableConforms_of (by decide +kernel)
theorem conforms_ENUM_DW_FORM : TableConforms 21449164720017796211848204877 "ENUM_DW_FORM" := tableConforms_of (by decide +kernel)
theorem conforms_ENUM_DW_LNCT : TableConforms 21449164720017796211948798804 "ENUM_DW_LNCT" := tableConforms_of (by decide +kernel)
theorem conforms_ENUM_DW_UT : TableConforms 327288280029568423646548 "ENUM_DW_UT" := tableConforms_of (by decide +kernel)
theorem conforms_ENUM_DW_LLE : TableConforms 83785799687569516452924485 "ENUM_DW_LLE" := tableConforms_of (by decide +kernel)
theorem conforms_ENUM_DW_RLE : TableConforms 83785799687569516453317701 "ENUM_DW_RLE" := tableConforms_of (by decide +kernel)
theorem conforms_ENUM_DW_LANG : TableConforms 21449164720017796211947949639 "ENUM_DW_LANG" := tableConforms_of (by decide +kernel)
theorem conforms_ENUM_DW_ATE : TableConforms 83785799687569516452205637 "ENUM_DW_ATE" := tableConforms_of (by decide +kernel)
theorem conforms_ENUM_DW_ACCESS : TableConforms 1405692459091086292534134604911443 "ENUM_DW_ACCESS" := tableConforms_of (by decide +kernel)
theorem conforms_ENUM_DW_INL : TableConforms 83785799687569516452728396 "ENUM_DW_INL" := tableConforms_of (by decide +kernel)
theorem conforms_ENUM_DW_CC : TableConforms 327288280029568423641923 "ENUM_DW_CC" := tableConforms_of (by decide +kernel)
theorem conforms_ENUM_D_TAG_COMMON_plus_ENUM_D_TAG_SOLARIS : TableConforms 134638589086618532146726471560221906536058733914486131561414915929751087272143856224595 "ENUM_D_TAG_COMMON+ENUM_D_TAG_SOLARIS" := tableConforms_of (by decide +kernel)
theorem conforms_ENUM_D_TAG_COMMON_plus_ENUM_D_TAG_MIPS : TableConforms 8025085275567682513399509880555981787208243245749839041317398305520480011505747 "ENUM_D_TAG_COMMON+ENUM_D_TAG_MIPS" := tableConforms_of (by decide +kernel)
theorem conforms_ENUM_D_TAG_COMMON_plus_ENUM_D_TAG_AARCH64 : TableConforms 134638589086618532146726471560221906536058733914486131561414915929751082190226915341876 "ENUM_D_TAG_COMMON+ENUM_D_TAG_AARCH64" := tableConforms_of (by decide +kernel)
theorem conforms_EC_E_FLAGS : TableConforms 327082553346798729119571 "EC.E_FLAGS" := tableConforms_of (by decide +kernel)
theorem conforms_EC_E_FLAGS_MASKS : TableConforms 92065554085752070986984450781906946899 "EC.E_FLAGS_MASKS" := tableConforms_of (by decide +kernel)
theorem conforms_EC_SHN_INDICES : TableConforms 1404808886533171878668036521280851 "EC.SHN_INDICES" := tableConforms_of (by decide +kernel)
theorem conforms_EC_SH_FLAGS : TableConforms 83733134659140328926299987 "EC.SH_FLAGS" := tableConforms_of (by decide +kernel)
theorem conforms_EC_RH_FLAGS : TableConforms 83733134587082734888372051 "EC.RH_FLAGS" := tableConforms_of (by decide +kernel)
theorem conforms_EC_P_FLAGS : TableConforms 327082556443023472936787 "EC.P_FLAGS" := tableConforms_of (by decide +kernel)
theorem conforms_EC_SUNW_SYMINFO_FLAGS : TableConforms 101227148451104497984153029207468720316143731033939 "EC.SUNW_SYMINFO_FLAGS" := tableConforms_of (by decide +kernel)
theorem conforms_EC_VER_FLAGS : TableConforms 21435682527860351931655472979 "EC.VER_FLAGS" := tableConforms_of (by decide +kernel)
theorem conforms_DC : TableConforms 17475 "DC" := tableConforms_of (by decide +kernel)
theorem conforms_DW_FORM_raw2name : TableConforms 90841165939499345344331467654875409765 "DW_FORM_raw2name" := tableConforms_of (by decide +kernel)
theorem conforms_DW_OP_name2opcode : TableConforms 23255338663136810212560646762475432141925 "DW_OP_name2opcode" := tableConforms_of (by decide +kernel)
theorem conforms_DW_OP_opcode2name : TableConforms 23255338663136811492138230817840183733605 "DW_OP_opcode2name" := tableConforms_of (by decide +kernel)
theorem conforms_CFA_OPCODE_NAME_MAP : TableConforms 1500270033359103805726572147429148446228824400 "CFA_OPCODE_NAME_MAP" := tableConforms_of (by decide +kernel)

/-! ### decoding direction (`Enum` reverse dictionaries: the LAST name carrying a code is the one reported) -/

theorem decodes_to_standard_name_ENUM_EI_CLASS : TableDecodesStd 5490986168324623947164568081235 "ENUM_EI_CLASS" := tableDecodesStd_of (by decide +kernel)
theorem decodes_to_standard_name_ENUM_EI_DATA : TableDecodesStd 21449164720018062293627655233 "ENUM_EI_DATA" := tableDecodesStd_of (by decide +kernel)
theorem decodes_to_standard_name_ENUM_E_VERSION : TableDecodesStd 1405692459091105313210148567207758 "ENUM_E_VERSION" := tableDecodesStd_of (by decide +kernel)
theorem decodes_to_standard_name_ENUM_EI_OSABI : TableDecodesStd 5490986168324623947216225124937 "ENUM_EI_OSABI" := tableDecodesStd_of (by decide +kernel)
theorem decodes_to_standard_name_ENUM_E_TYPE : TableDecodesStd 83785799687570650140594245 "ENUM_E_TYPE" := tableDecodesStd_of (by decide +kernel)
theorem decodes_to_standard_name_ENUM_E_MACHINE : TableDecodesStd 1405692459091105310672411121241669 "ENUM_E_MACHINE" := tableDecodesStd_of (by decide +kernel)
theorem decodes_to_standard_name_ENUM_SH_TYPE_BASE : TableDecodesStd 23583606015746942546096466659962463015749 "ENUM_SH_TYPE_BASE" := tableDecodesStd_of (by decide +kernel)
theorem decodes_to_standard_name_ENUM_SH_TYPE_AMD64 : TableDecodesStd 6037403140031217291800695464950386437404212 "ENUM_SH_TYPE_AMD64" := tableDecodesStd_of (by decide +kernel)
theorem decodes_to_standard_name_ENUM_SH_TYPE_ARM : TableDecodesStd 92123460999011494320689322890478309965 "ENUM_SH_TYPE_ARM" := tableDecodesStd_of (by decide +kernel)
theorem decodes_to_standard_name_ENUM_SH_TYPE_AARCH64 : TableDecodesStd 395667252185085856435450377990988512427931874868 "ENUM_SH_TYPE_AARCH64" := tableDecodesStd_of (by decide +kernel)
theorem decodes_to_standard_name_ENUM_SH_TYPE_RISCV : TableDecodesStd 6037403140031217291800695464950459385725782 "ENUM_SH_TYPE_RISCV" := tableDecodesStd_of (by decide +kernel)
theorem decodes_to_standard_name_ENUM_SH_TYPE_MIPS : TableDecodesStd 23583606015746942546096466659962648088659 "ENUM_SH_TYPE_MIPS" := tableDecodesStd_of (by decide +kernel)
theorem decodes_to_standard_name_ENUM_ELFCOMPRESS_TYPE : TableDecodesStd 101290816559363390316311524803579510309099230810181 "ENUM_ELFCOMPRESS_TYPE" := tableDecodesStd_of (by decide +kernel)
theorem decodes_to_standard_name_ENUM_P_TYPE_BASE : TableDecodesStd 92123460999007975955103142905942987589 "ENUM_P_TYPE_BASE" := tableDecodesStd_of (by decide +kernel)
theorem decodes_to_standard_name_ENUM_P_TYPE_ARM : TableDecodesStd 359857269527374906074621651976278605 "ENUM_P_TYPE_ARM" := tableDecodesStd_of (by decide +kernel)
theorem decodes_to_standard_name_ENUM_P_TYPE_AARCH64 : TableDecodesStd 1545575203847932598321571730811591707165472308 "ENUM_P_TYPE_AARCH64" := tableDecodesStd_of (by decide +kernel)
theorem decodes_to_standard_name_ENUM_P_TYPE_MIPS : TableDecodesStd 92123460999007975955103142906128060499 "ENUM_P_TYPE_MIPS" := tableDecodesStd_of (by decide +kernel)
theorem decodes_to_standard_name_ENUM_P_TYPE_RISCV : TableDecodesStd 23583606015746041844506404583990258516822 "ENUM_P_TYPE_RISCV" := tableDecodesStd_of (by decide +kernel)
theorem decodes_to_standard_name_ENUM_ST_INFO_BIND : TableDecodesStd 23583606015746957053002592413412686908996 "ENUM_ST_INFO_BIND" := tableDecodesStd_of (by decide +kernel)
theorem decodes_to_standard_name_ENUM_ST_INFO_TYPE : TableDecodesStd 23583606015746957053002592413412989947973 "ENUM_ST_INFO_TYPE" := tableDecodesStd_of (by decide +kernel)
theorem decodes_to_standard_name_ENUM_ST_VISIBILITY : TableDecodesStd 6037403140031221005629963123418601599095897 "ENUM_ST_VISIBILITY" := tableDecodesStd_of (by decide +kernel)
theorem decodes_to_standard_name_ENUM_ST_LOCAL : TableDecodesStd 5490986168325635849744548053324 "ENUM_ST_LOCAL" := tableDecodesStd_of (by decide +kernel)
theorem decodes_to_standard_name_ENUM_ST_SHNDX : TableDecodesStd 5490986168325635849774496105560 "ENUM_ST_SHNDX" := tableDecodesStd_of (by decide +kernel)
theorem decodes_to_standard_name_ENUM_D_TAG_COMMON : TableDecodesStd 23583606015742328023945185354600441270094 "ENUM_D_TAG_COMMON" := tableDecodesStd_of (by decide +kernel)
theorem decodes_to_standard_name_ENUM_D_TAG_SOLARIS : TableDecodesStd 6037403140030035974129967455281308096416083 "ENUM_D_TAG_SOLARIS" := tableDecodesStd_of (by decide +kernel)
theorem decodes_to_standard_name_ENUM_D_TAG_MIPS : TableDecodesStd 359857269527318237670062032555692115 "ENUM_D_TAG_MIPS" := tableDecodesStd_of (by decide +kernel)
theorem decodes_to_standard_name_ENUM_D_TAG_AARCH64 : TableDecodesStd 6037403140030035974129967450199391155533364 "ENUM_D_TAG_AARCH64" := tableDecodesStd_of (by decide +kernel)
theorem decodes_to_standard_name_ENUMMAP_EXTRA_D_TAG_MACHINE_EM_MIPS : TableDecodesStd 525931988587779285554006944825206534167808176617811026131802937566110139496096419923 "ENUMMAP_EXTRA_D_TAG_MACHINE.EM_MIPS" := tableDecodesStd_of (by decide +kernel)
theorem decodes_to_standard_name_ENUMMAP_EXTRA_D_TAG_MACHINE_EM_MIPS_RS3_LE : TableDecodesStd 37897393725218347923570720628013233352097014075304961872765879622367461971712501551450893166753827909 "ENUMMAP_EXTRA_D_TAG_MACHINE.EM_MIPS_RS3_LE" := tableDecodesStd_of (by decide +kernel)
theorem decodes_to_standard_name_ENUMMAP_EXTRA_D_TAG_MACHINE_EM_AARCH64 : TableDecodesStd 8823674573846708034065254178832572268344698025683165032594902352981144090112754306387555892 "ENUMMAP_EXTRA_D_TAG_MACHINE.EM_AARCH64" := tableDecodesStd_of (by decide +kernel)
theorem decodes_to_standard_name_ENUM_D_TAG : TableDecodesStd 327288280029568557138247 "ENUM_D_TAG" := tableDecodesStd_of (by decide +kernel)
theorem decodes_to_standard_name_ENUM_DT_FLAGS : TableDecodesStd 5490986168324554985808158869331 "ENUM_DT_FLAGS" := tableDecodesStd_of (by decide +kernel)
theorem decodes_to_standard_name_ENUM_DT_FLAGS_1 : TableDecodesStd 359857269527318035549923499660500785 "ENUM_DT_FLAGS_1" := tableDecodesStd_of (by decide +kernel)
theorem decodes_to_standard_name_ENUM_RELOC_TYPE_MIPS : TableDecodesStd 395667252185080601784453994131958333791839801427 "ENUM_RELOC_TYPE_MIPS" := tableDecodesStd_of (by decide +kernel)
theorem decodes_to_standard_name_ENUM_RELOC_TYPE_i386 : TableDecodesStd 395667252185080601784453994131958333792308115510 "ENUM_RELOC_TYPE_i386" := tableDecodesStd_of (by decide +kernel)
theorem decodes_to_standard_name_ENUM_RELOC_TYPE_x64 : TableDecodesStd 1545575203847971100720523414577962241377187380 "ENUM_RELOC_TYPE_x64" := tableDecodesStd_of (by decide +kernel)
theorem decodes_to_standard_name_ENUM_RELOC_TYPE_BPF : TableDecodesStd 1545575203847971100720523414577962241373655110 "ENUM_RELOC_TYPE_BPF" := tableDecodesStd_of (by decide +kernel)
theorem decodes_to_standard_name_ENUM_RELOC_TYPE_LOONGARCH : TableDecodesStd 435040744507675065289786661379414259730056511727649399391048 "ENUM_RELOC_TYPE_LOONGARCH" := tableDecodesStd_of (by decide +kernel)
theorem decodes_to_standard_name_ENUM_RELOC_TYPE_S390X : TableDecodesStd 101290816559380634056820222497781333450736388354136 "ENUM_RELOC_TYPE_S390X" := tableDecodesStd_of (by decide +kernel)
theorem decodes_to_standard_name_ENUM_SUNW_SYMINFO_BOUNDTO : TableDecodesStd 435040744507681131269464648684575588108239366786995389224015 "ENUM_SUNW_SYMINFO_BOUNDTO" := tableDecodesStd_of (by decide +kernel)
theorem decodes_to_standard_name_ENUM_VERSYM : TableDecodesStd 83785799687589230135171405 "ENUM_VERSYM" := tableDecodesStd_of (by decide +kernel)
theorem decodes_to_standard_name_ENUM_NOTE_N_TYPE : TableDecodesStd 92123460999005482544163267873070469189 "ENUM_NOTE_N_TYPE" := tableDecodesStd_of (by decide +kernel)
theorem decodes_to_standard_name_ENUM_CORE_NOTE_N_TYPE : TableDecodesStd 101290816559360747680762855109562653562230468595781 "ENUM_CORE_NOTE_N_TYPE" := tableDecodesStd_of (by decide +kernel)
theorem decodes_to_standard_name_ENUM_NOTE_ABI_TAG_OS : TableDecodesStd 395667252185060036051880049272814348524672995155 "ENUM_NOTE_ABI_TAG_OS" := tableDecodesStd_of (by decide +kernel)
theorem decodes_to_standard_name_ENUM_NOTE_GNU_PROPERTY_TYPE : TableDecodesStd 28510830232053511161622554788441095477571919501453577736838271045 "ENUM_NOTE_GNU_PROPERTY_TYPE" := tableDecodesStd_of (by decide +kernel)
theorem decodes_to_standard_name_ENUM_GNU_PROPERTY_X86_FEATURE_1_FLAGS : TableDecodesStd 34467478806175671139419112514877951785895495964585981512951044543423280605358461533898579 "ENUM_GNU_PROPERTY_X86_FEATURE_1_FLAGS" := tableDecodesStd_of (by decide +kernel)
theorem decodes_to_standard_name_ENUM_RELOC_TYPE_ARM : TableDecodesStd 1545575203847971100720523414577962241373590093 "ENUM_RELOC_TYPE_ARM" := tableDecodesStd_of (by decide +kernel)
theorem decodes_to_standard_name_ENUM_RELOC_TYPE_AARCH64 : TableDecodesStd 6638194954035569233547770101614597469022408898450568756 "ENUM_RELOC_TYPE_AARCH64" := tableDecodesStd_of (by decide +kernel)
theorem decodes_to_standard_name_ENUM_ATTR_TAG_ARM : TableDecodesStd 23583606015741386271047026491525492200013 "ENUM_ATTR_TAG_ARM" := tableDecodesStd_of (by decide +kernel)
theorem decodes_to_standard_name_ENUM_ATTR_TAG_RISCV : TableDecodesStd 1545575203847627490659337928148614729683911510 "ENUM_ATTR_TAG_RISCV" := tableDecodesStd_of (by decide +kernel)
theorem decodes_to_standard_name_ENUM_RELOC_TYPE_PPC64 : TableDecodesStd 101290816559380634056820222497781333450723990648372 "ENUM_RELOC_TYPE_PPC64" := tableDecodesStd_of (by decide +kernel)
theorem decodes_to_standard_name_ENUM_RELOC_TYPE_PPC : TableDecodesStd 1545575203847971100720523414577962241374572611 "ENUM_RELOC_TYPE_PPC" := tableDecodesStd_of (by decide +kernel)
theorem decodes_to_standard_name_ENUM_RELOC_TYPE_V850 : TableDecodesStd 395667252185080601784453994131958333791989675312 "ENUM_RELOC_TYPE_V850" := tableDecodesStd_of (by decide +kernel)
theorem decodes_to_standard_name_ENUM_DW_TAG : TableDecodesStd 83785799687569516453445959 "ENUM_DW_TAG" := tableDecodesStd_of (by decide +kernel)
theorem decodes_to_standard_name_ENUM_DW_CHILDREN : TableDecodesStd 92123460998993431267662574657318569294 "ENUM_DW_CHILDREN" := tableDecodesStd_of (by decide +kernel)
theorem decodes_to_standard_name_ENUM_DW_AT : TableDecodesStd 327288280029568423641428 "ENUM_DW_AT" := tableDecodesStd_of (by decide +kernel)
theorem decodes_to_standard_name_ENUM_DW_FORM : TableDecodesStd 21449164720017796211848204877 "ENUM_DW_FORM" := tableDecodesStd_of (by decide +kernel)
theorem decodes_to_standard_name_ENUM_DW_LNCT : TableDecodesStd 21449164720017796211948798804 "ENUM_DW_LNCT" := tableDecodesStd_of (by decide +kernel)
theorem decodes_to_standard_name_ENUM_DW_UT : TableDecodesStd 327288280029568423646548 "ENUM_DW_UT" := tableDecodesStd_of (by decide +kernel)
theorem decodes_to_standard_name_ENUM_DW_LLE : TableDecodesStd 83785799687569516452924485 "ENUM_DW_LLE" := tableDecodesStd_of (by decide +kernel)
theorem decodes_to_standard_name_ENUM_DW_RLE : TableDecodesStd 83785799687569516453317701 "ENUM_DW_RLE" := tableDecodesStd_of (by decide +kernel)
theorem decodes_to_standard_name_ENUM_DW_LANG : TableDecodesStd 21449164720017796211947949639 "ENUM_DW_LANG" := tableDecodesStd_of (by decide +kernel)
theorem decodes_to_standard_name_ENUM_DW_ATE : TableDecodesStd 83785799687569516452205637 "ENUM_DW_ATE" := tableDecodesStd_of (by decide +kernel)
theorem decodes_to_standard_name_ENUM_DW_ACCESS : TableDecodesStd 1405692459091086292534134604911443 "ENUM_DW_ACCESS" := tableDecodesStd_of (by decide +kernel)
theorem decodes_to_standard_name_ENUM_DW_INL : TableDecodesStd 83785799687569516452728396 "ENUM_DW_INL" := tableDecodesStd_of (by decide +kernel)
theorem decodes_to_standard_name_ENUM_DW_CC : TableDecodesStd 327288280029568423641923 "ENUM_DW_CC" := tableDecodesStd_of (by decide +kernel)
theorem decodes_to_standard_name_ENUM_D_TAG_COMMON_plus_ENUM_D_TAG_SOLARIS : TableDecodesStd 134638589086618532146726471560221906536058733914486131561414915929751087272143856224595 "ENUM_D_TAG_COMMON+ENUM_D_TAG_SOLARIS" := tableDecodesStd_of (by decide +kernel)
theorem decodes_to_standard_name_ENUM_D_TAG_COMMON_plus_ENUM_D_TAG_MIPS : TableDecodesStd 8025085275567682513399509880555981787208243245749839041317398305520480011505747 "ENUM_D_TAG_COMMON+ENUM_D_TAG_MIPS" := tableDecodesStd_of (by decide +kernel)
theorem decodes_to_standard_name_ENUM_D_TAG_COMMON_plus_ENUM_D_TAG_AARCH64 : TableDecodesStd 134638589086618532146726471560221906536058733914486131561414915929751082190226915341876 "ENUM_D_TAG_COMMON+ENUM_D_TAG_AARCH64" := tableDecodesStd_of (by decide +kernel)

/-! ### range-marker rule: a code with a real name is never reported under a range marker sharing its value
     (`Enum` reports the LAST name of the dictionary: `DT_HIPROC` listed after `DT_FILTER` would shadow it) -/

theorem no_marker_shadow_ENUM_EI_CLASS : TableNoMarkerShadow 5490986168324623947164568081235 "ENUM_EI_CLASS" := tableNoMarkerShadow_of (by decide +kernel)
theorem no_marker_shadow_ENUM_EI_DATA : TableNoMarkerShadow 21449164720018062293627655233 "ENUM_EI_DATA" := tableNoMarkerShadow_of (by decide +kernel)
theorem no_marker_shadow_ENUM_E_VERSION : TableNoMarkerShadow 1405692459091105313210148567207758 "ENUM_E_VERSION" := tableNoMarkerShadow_of (by decide +kernel)
theorem no_marker_shadow_ENUM_EI_OSABI : TableNoMarkerShadow 5490986168324623947216225124937 "ENUM_EI_OSABI" := tableNoMarkerShadow_of (by decide +kernel)
theorem no_marker_shadow_ENUM_E_TYPE : TableNoMarkerShadow 83785799687570650140594245 "ENUM_E_TYPE" := tableNoMarkerShadow_of (by decide +kernel)
theorem no_marker_shadow_ENUM_E_MACHINE : TableNoMarkerShadow 1405692459091105310672411121241669 "ENUM_E_MACHINE" := tableNoMarkerShadow_of (by decide +kernel)
theorem no_marker_shadow_ENUM_SH_TYPE_BASE : TableNoMarkerShadow 23583606015746942546096466659962463015749 "ENUM_SH_TYPE_BASE" := tableNoMarkerShadow_of (by decide +kernel)
theorem no_marker_shadow_ENUM_SH_TYPE_AMD64 : TableNoMarkerShadow 6037403140031217291800695464950386437404212 "ENUM_SH_TYPE_AMD64" := tableNoMarkerShadow_of (by decide +kernel)
theorem no_marker_shadow_ENUM_SH_TYPE_ARM : TableNoMarkerShadow 92123460999011494320689322890478309965 "ENUM_SH_TYPE_ARM" := tableNoMarkerShadow_of (by decide +kernel)
theorem no_marker_shadow_ENUM_SH_TYPE_AARCH64 : TableNoMarkerShadow 395667252185085856435450377990988512427931874868 "ENUM_SH_TYPE_AARCH64" := tableNoMarkerShadow_of (by decide +kernel)
theorem no_marker_shadow_ENUM_SH_TYPE_RISCV : TableNoMarkerShadow 6037403140031217291800695464950459385725782 "ENUM_SH_TYPE_RISCV" := tableNoMarkerShadow_of (by decide +kernel)
theorem no_marker_shadow_ENUM_SH_TYPE_MIPS : TableNoMarkerShadow 23583606015746942546096466659962648088659 "ENUM_SH_TYPE_MIPS" := tableNoMarkerShadow_of (by decide +kernel)
theorem no_marker_shadow_ENUM_ELFCOMPRESS_TYPE : TableNoMarkerShadow 101290816559363390316311524803579510309099230810181 "ENUM_ELFCOMPRESS_TYPE" := tableNoMarkerShadow_of (by decide +kernel)
theorem no_marker_shadow_ENUM_P_TYPE_BASE : TableNoMarkerShadow 92123460999007975955103142905942987589 "ENUM_P_TYPE_BASE" := tableNoMarkerShadow_of (by decide +kernel)
theorem no_marker_shadow_ENUM_P_TYPE_ARM : TableNoMarkerShadow 359857269527374906074621651976278605 "ENUM_P_TYPE_ARM" := tableNoMarkerShadow_of (by decide +kernel)
theorem no_marker_shadow_ENUM_P_TYPE_AARCH64 : TableNoMarkerShadow 1545575203847932598321571730811591707165472308 "ENUM_P_TYPE_AARCH64" := tableNoMarkerShadow_of (by decide +kernel)
theorem no_marker_shadow_ENUM_P_TYPE_MIPS : TableNoMarkerShadow 92123460999007975955103142906128060499 "ENUM_P_TYPE_MIPS" := tableNoMarkerShadow_of (by decide +kernel)
theorem no_marker_shadow_ENUM_P_TYPE_RISCV : TableNoMarkerShadow 23583606015746041844506404583990258516822 "ENUM_P_TYPE_RISCV" := tableNoMarkerShadow_of (by decide +kernel)
theorem no_marker_shadow_ENUM_ST_INFO_BIND : TableNoMarkerShadow 23583606015746957053002592413412686908996 "ENUM_ST_INFO_BIND" := tableNoMarkerShadow_of (by decide +kernel)
theorem no_marker_shadow_ENUM_ST_INFO_TYPE : TableNoMarkerShadow 23583606015746957053002592413412989947973 "ENUM_ST_INFO_TYPE" := tableNoMarkerShadow_of (by decide +kernel)
theorem no_marker_shadow_ENUM_ST_VISIBILITY : TableNoMarkerShadow 6037403140031221005629963123418601599095897 "ENUM_ST_VISIBILITY" := tableNoMarkerShadow_of (by decide +kernel)
theorem no_marker_shadow_ENUM_ST_LOCAL : TableNoMarkerShadow 5490986168325635849744548053324 "ENUM_ST_LOCAL" := tableNoMarkerShadow_of (by decide +kernel)
theorem no_marker_shadow_ENUM_ST_SHNDX : TableNoMarkerShadow 5490986168325635849774496105560 "ENUM_ST_SHNDX" := tableNoMarkerShadow_of (by decide +kernel)
theorem no_marker_shadow_ENUM_D_TAG_COMMON : TableNoMarkerShadow 23583606015742328023945185354600441270094 "ENUM_D_TAG_COMMON" := tableNoMarkerShadow_of (by decide +kernel)
theorem no_marker_shadow_ENUM_D_TAG_SOLARIS : TableNoMarkerShadow 6037403140030035974129967455281308096416083 "ENUM_D_TAG_SOLARIS" := tableNoMarkerShadow_of (by decide +kernel)
theorem no_marker_shadow_ENUM_D_TAG_MIPS : TableNoMarkerShadow 359857269527318237670062032555692115 "ENUM_D_TAG_MIPS" := tableNoMarkerShadow_of (by decide +kernel)
theorem no_marker_shadow_ENUM_D_TAG_AARCH64 : TableNoMarkerShadow 6037403140030035974129967450199391155533364 "ENUM_D_TAG_AARCH64" := tableNoMarkerShadow_of (by decide +kernel)
theorem no_marker_shadow_ENUMMAP_EXTRA_D_TAG_MACHINE_EM_MIPS : TableNoMarkerShadow 525931988587779285554006944825206534167808176617811026131802937566110139496096419923 "ENUMMAP_EXTRA_D_TAG_MACHINE.EM_MIPS" := tableNoMarkerShadow_of (by decide +kernel)
theorem no_marker_shadow_ENUMMAP_EXTRA_D_TAG_MACHINE_EM_MIPS_RS3_LE : TableNoMarkerShadow 37897393725218347923570720628013233352097014075304961872765879622367461971712501551450893166753827909 "ENUMMAP_EXTRA_D_TAG_MACHINE.EM_MIPS_RS3_LE" := tableNoMarkerShadow_of (by decide +kernel)
theorem no_marker_shadow_ENUMMAP_EXTRA_D_TAG_MACHINE_EM_AARCH64 : TableNoMarkerShadow 8823674573846708034065254178832572268344698025683165032594902352981144090112754306387555892 "ENUMMAP_EXTRA_D_TAG_MACHINE.EM_AARCH64" := tableNoMarkerShadow_of (by decide +kernel)
theorem no_marker_shadow_ENUM_D_TAG : TableNoMarkerShadow 327288280029568557138247 "ENUM_D_TAG" := tableNoMarkerShadow_of (by decide +kernel)
theorem no_marker_shadow_ENUM_DT_FLAGS : TableNoMarkerShadow 5490986168324554985808158869331 "ENUM_DT_FLAGS" := tableNoMarkerShadow_of (by decide +kernel)
theorem no_marker_shadow_ENUM_DT_FLAGS_1 : TableNoMarkerShadow 359857269527318035549923499660500785 "ENUM_DT_FLAGS_1" := tableNoMarkerShadow_of (by decide +kernel)
theorem no_marker_shadow_ENUM_RELOC_TYPE_MIPS : TableNoMarkerShadow 395667252185080601784453994131958333791839801427 "ENUM_RELOC_TYPE_MIPS" := tableNoMarkerShadow_of (by decide +kernel)
theorem no_marker_shadow_ENUM_RELOC_TYPE_i386 : TableNoMarkerShadow 395667252185080601784453994131958333792308115510 "ENUM_RELOC_TYPE_i386" := tableNoMarkerShadow_of (by decide +kernel)
theorem no_marker_shadow_ENUM_RELOC_TYPE_x64 : TableNoMarkerShadow 1545575203847971100720523414577962241377187380 "ENUM_RELOC_TYPE_x64" := tableNoMarkerShadow_of (by decide +kernel)
theorem no_marker_shadow_ENUM_RELOC_TYPE_BPF : TableNoMarkerShadow 1545575203847971100720523414577962241373655110 "ENUM_RELOC_TYPE_BPF" := tableNoMarkerShadow_of (by decide +kernel)
theorem no_marker_shadow_ENUM_RELOC_TYPE_LOONGARCH : TableNoMarkerShadow 435040744507675065289786661379414259730056511727649399391048 "ENUM_RELOC_TYPE_LOONGARCH" := tableNoMarkerShadow_of (by decide +kernel)
theorem no_marker_shadow_ENUM_RELOC_TYPE_S390X : TableNoMarkerShadow 101290816559380634056820222497781333450736388354136 "ENUM_RELOC_TYPE_S390X" := tableNoMarkerShadow_of (by decide +kernel)
theorem no_marker_shadow_ENUM_SUNW_SYMINFO_BOUNDTO : TableNoMarkerShadow 435040744507681131269464648684575588108239366786995389224015 "ENUM_SUNW_SYMINFO_BOUNDTO" := tableNoMarkerShadow_of (by decide +kernel)
theorem no_marker_shadow_ENUM_VERSYM : TableNoMarkerShadow 83785799687589230135171405 "ENUM_VERSYM" := tableNoMarkerShadow_of (by decide +kernel)
theorem no_marker_shadow_ENUM_NOTE_N_TYPE : TableNoMarkerShadow 92123460999005482544163267873070469189 "ENUM_NOTE_N_TYPE" := tableNoMarkerShadow_of (by decide +kernel)
theorem no_marker_shadow_ENUM_CORE_NOTE_N_TYPE : TableNoMarkerShadow 101290816559360747680762855109562653562230468595781 "ENUM_CORE_NOTE_N_TYPE" := tableNoMarkerShadow_of (by decide +kernel)
theorem no_marker_shadow_ENUM_NOTE_ABI_TAG_OS : TableNoMarkerShadow 395667252185060036051880049272814348524672995155 "ENUM_NOTE_ABI_TAG_OS" := tableNoMarkerShadow_of (by decide +kernel)
theorem no_marker_shadow_ENUM_NOTE_GNU_PROPERTY_TYPE : TableNoMarkerShadow 28510830232053511161622554788441095477571919501453577736838271045 "ENUM_NOTE_GNU_PROPERTY_TYPE" := tableNoMarkerShadow_of (by decide +kernel)
theorem no_marker_shadow_ENUM_GNU_PROPERTY_X86_FEATURE_1_FLAGS : TableNoMarkerShadow 34467478806175671139419112514877951785895495964585981512951044543423280605358461533898579 "ENUM_GNU_PROPERTY_X86_FEATURE_1_FLAGS" := tableNoMarkerShadow_of (by decide +kernel)
theorem no_marker_shadow_ENUM_RELOC_TYPE_ARM : TableNoMarkerShadow 1545575203847971100720523414577962241373590093 "ENUM_RELOC_TYPE_ARM" := tableNoMarkerShadow_of (by decide +kernel)
theorem no_marker_shadow_ENUM_RELOC_TYPE_AARCH64 : TableNoMarkerShadow 6638194954035569233547770101614597469022408898450568756 "ENUM_RELOC_TYPE_AARCH64" := tableNoMarkerShadow_of (by decide +kernel)
theorem no_marker_shadow_ENUM_ATTR_TAG_ARM : TableNoMarkerShadow 23583606015741386271047026491525492200013 "ENUM_ATTR_TAG_ARM" := tableNoMarkerShadow_of (by decide +kernel)
theorem no_marker_shadow_ENUM_ATTR_TAG_RISCV : TableNoMarkerShadow 1545575203847627490659337928148614729683911510 "ENUM_ATTR_TAG_RISCV" := tableNoMarkerShadow_of (by decide +kernel)
theorem no_marker_shadow_ENUM_RELOC_TYPE_PPC64 : TableNoMarkerShadow 101290816559380634056820222497781333450723990648372 "ENUM_RELOC_TYPE_PPC64" := tableNoMarkerShadow_of (by decide +kernel)
theorem no_marker_shadow_ENUM_RELOC_TYPE_PPC : TableNoMarkerShadow 1545575203847971100720523414577962241374572611 "ENUM_RELOC_TYPE_PPC" := tableNoMarkerShadow_of (by decide +kernel)
theorem no_marker_shadow_ENUM_RELOC_TYPE_V850 : TableNoMarkerShadow 395667252185080601784453994131958333791989675312 "ENUM_RELOC_TYPE_V850" := tableNoMarkerShadow_of (by decide +kernel)
theorem no_marker_shadow_ENUM_DW_TAG : TableNoMarkerShadow 83785799687569516453445959 "ENUM_DW_TAG" := tableNoMarkerShadow_of (by decide +kernel)
theorem no_marker_shadow_ENUM_DW_CHILDREN : TableNoMarkerShadow 92123460998993431267662574657318569294 "ENUM_DW_CHILDREN" := tableNoMarkerShadow_of (by decide +kernel)
theorem no_marker_shadow_ENUM_DW_AT : TableNoMarkerShadow 327288280029568423641428 "ENUM_DW_AT" := tableNoMarkerShadow_of (by decide +kernel)
theorem no_marker_shadow_ENUM_DW_FORM : TableNoMarkerShadow 21449164720017796211848204877 "ENUM_DW_FORM" := tableNoMarkerShadow_of (by decide +kernel)
theorem no_marker_shadow_ENUM_DW_LNCT : TableNoMarkerShadow 21449164720017796211948798804 "ENUM_DW_LNCT" := tableNoMarkerShadow_of (by decide +kernel)
theorem no_marker_shadow_ENUM_DW_UT : TableNoMarkerShadow 327288280029568423646548 "ENUM_DW_UT" := tableNoMarkerShadow_of (by decide +kernel)
theorem no_marker_shadow_ENUM_DW_LLE : TableNoMarkerShadow 83785799687569516452924485 "ENUM_DW_LLE" := tableNoMarkerShadow_of (by decide +kernel)
theorem no_marker_shadow_ENUM_DW_RLE : TableNoMarkerShadow 83785799687569516453317701 "ENUM_DW_RLE" := tableNoMarkerShadow_of (by decide +kernel)
theorem no_marker_shadow_ENUM_DW_LANG : TableNoMarkerShadow 21449164720017796211947949639 "ENUM_DW_LANG" := tableNoMarkerShadow_of (by decide +kernel)
theorem no_marker_shadow_ENUM_DW_ATE : TableNoMarkerShadow 83785799687569516452205637 "ENUM_DW_ATE" := tableNoMarkerShadow_of (by decide +kernel)
theorem no_marker_shadow_ENUM_DW_ACCESS : TableNoMarkerShadow 1405692459091086292534134604911443 "ENUM_DW_ACCESS" := tableNoMarkerShadow_of (by decide +kernel)
theorem no_marker_shadow_ENUM_DW_INL : TableNoMarkerShadow 83785799687569516452728396 "ENUM_DW_INL" := tableNoMarkerShadow_of (by decide +kernel)
theorem no_marker_shadow_ENUM_DW_CC : TableNoMarkerShadow 327288280029568423641923 "ENUM_DW_CC" := tableNoMarkerShadow_of (by decide +kernel)
theorem no_marker_shadow_ENUM_D_TAG_COMMON_plus_ENUM_D_TAG_SOLARIS : TableNoMarkerShadow 134638589086618532146726471560221906536058733914486131561414915929751087272143856224595 "ENUM_D_TAG_COMMON+ENUM_D_TAG_SOLARIS" := tableNoMarkerShadow_of (by decide +kernel)
theorem no_marker_shadow_ENUM_D_TAG_COMMON_plus_ENUM_D_TAG_MIPS : TableNoMarkerShadow 8025085275567682513399509880555981787208243245749839041317398305520480011505747 "ENUM_D_TAG_COMMON+ENUM_D_TAG_MIPS" := tableNoMarkerShadow_of (by decide +kernel)
theorem no_marker_shadow_ENUM_D_TAG_COMMON_plus_ENUM_D_TAG_AARCH64 : TableNoMarkerShadow 134638589086618532146726471560221906536058733914486131561414915929751082190226915341876 "ENUM_D_TAG_COMMON+ENUM_D_TAG_AARCH64" := tableNoMarkerShadow_of (by decide +kernel)

/-! ### reverse maps and the CFA opcode name map -/

/-- `DW_FORM_raw2name` reports exactly the (name, code) pairs of `ENUM_DW_FORM` and has an entry for each of its codes -/
theorem DW_FORM_raw2name_consistent :
    TablesRelated 90841165939499345344331467654875409765 "DW_FORM_raw2name" 21449164720017796211848204877 "ENUM_DW_FORM" ReverseConsistent :=
  tablesRelated_of reverseConsistentB (fun _ _ => reverseConsistentB_sound) (by decide +kernel)

/-- `DW_OP_opcode2name` is the reverse of `DW_OP_name2opcode` -/
theorem DW_OP_opcode2name_consistent :
    TablesRelated 23255338663136811492138230817840183733605 "DW_OP_opcode2name" 23255338663136810212560646762475432141925 "DW_OP_name2opcode" ReverseConsistent :=
  tablesRelated_of reverseConsistentB (fun _ _ => reverseConsistentB_sound) (by decide +kernel)

/-- every (opcode ↦ name) of callframe's `_OPCODE_NAME_MAP` is a `DW_CFA_*` constant of dwarf/constants.py with that
    value (and, by `conforms_CFA_OPCODE_NAME_MAP`, the registry's value for that name) -/
theorem CFA_OPCODE_NAME_MAP_consistent :
    TablesRelated 1500270033359103805726572147429148446228824400 "CFA_OPCODE_NAME_MAP" 17475 "DC" (fun M T => ∀ k v, (k, v) ∈ M → (k, v) ∈ T) :=
  tablesRelated_of subsetB (fun _ _ h k v hm => memPair_true (List.all_eq_true.mp h (k, v) hm)) (by decide +kernel)

/-! ### consequence used by every reader of a parsed header -/

/-- whatever name the library reports for a code `v` found in a file (through any table of the index), if a registry
    defines that name then `v` is a value the registry assigns to it -/
theorem reported_name_is_standard {k : Nat} {id : String} {e : Bool} {T : List (Nat × Int)}
    (hT : (k, id, e, T) ∈ Gen.tableIndex) {v : Int} {k' : Nat} (h : decodeKey T v = some k')
    {vs : List Int} (hl : alookup Registry.entries k' = some vs) : v ∈ vs :=
  decode_reports_standard_name (C17All.every_table_conforms k id e T hT) h hl

/-- a standard name selects a standard code: looking a registry-defined name up in any table gives a registry value -/
theorem standard_name_selects_standard_code {k : Nat} {id : String} {e : Bool} {T : List (Nat × Int)}
    (hT : (k, id, e, T) ∈ Gen.tableIndex) {n : Nat} {v : Int} (hm : (n, v) ∈ T)
    {vs : List Int} (hl : alookup Registry.entries n = some vs) : v ∈ vs :=
  C17All.every_table_conforms k id e T hT n v hm vs hl

/-- whatever name the library reports for a code `v` through an ENUM_* table of the index: its marker flag `b` is
    false unless EVERY name that table gives `v` is a range marker (so `DT_FILTER` is never reported as `DT_HIPROC`) -/
theorem reported_name_is_not_range_marker {k : Nat} {id : String} {T : List (Nat × Int)}
    (hT : (k, id, true, T) ∈ Gen.tableIndex) {v : Int} {k' : Nat} (h : decodeKey T v = some k') :
    ∃ ms M b, findMarkers k Gen.markerIndex = some ms ∧ attachMarkers T ms = some M ∧
      decodeEntry M v = some (k', b) ∧ (b = true → ∀ n b', (n, v, b') ∈ M → b' = true) := by
  obtain ⟨ms, M, h1, h2, h3⟩ := C17All.every_enum_no_marker_shadow k id T hT
  obtain ⟨b, h4, h5⟩ := reported_key_not_marker h2 h3 h
  exact ⟨ms, M, b, h1, h2, h4, h5⟩

/-- the same on a String-keyed table as `Model.decodeIn` (every reader's `Enum` decoding) sees it: under the rule, a
    range marker is reported for `v` only when all names of `v` are range markers; the rule's premise for the
    regenerated tables is `every_enum_no_marker_shadow` + the driver's `selfcheck` (`markers`: the flagged tables
    ARE `markTable` of the String tables) -/
theorem decodeIn_reports_no_range_marker {t : List (String × Int)} (h : NoMarkerShadow (markTable t)) {v : Int} {n : String}
    (hd : Model.decodeIn t v = some n) (hm : isRangeMarker n = true) : ∀ n', (n', v) ∈ t → isRangeMarker n' = true :=
  decodeIn_not_marker h hd hm

/-! ### non-vacuity -/

-- the registry knows R_ARM_IRELATIVE ↦ [160] and the regenerated ARM table carries exactly that pair
example : Registry.tree.lookup 427700346614074272228759675175786053 = some [160] := by decide +kernel
example : tableCheckB 1545575203847971100720523414577962241373590093 "ENUM_RELOC_TYPE_ARM"
    (memPair 427700346614074272228759675175786053 160) = true := by decide +kernel
-- two sources, two values: both accepted (LLVM 1028 vs aaelf64 1029 for R_AARCH64_TLS_DTPMOD64)
example : Registry.tree.lookup 30819057567511393641070689462402394539252358121272884 = some [1028, 1029] := by decide +kernel
-- a name no registry defines ("DT_SUNW_CAP") is not judged
example : Registry.tree.lookup 82605392963834651821162832 = none := by decide +kernel

-- the rule bites: ENUM_D_TAG_COMMON carries DT_HIPROC and DT_FILTER, both 0x7fffffff, DT_HIPROC flagged, DT_FILTER last
example : tableCheckB 23583606015742328023945185354600441270094 "ENUM_D_TAG_COMMON" (fun T =>
    match findMarkers 23583606015742328023945185354600441270094 Gen.markerIndex with
    | some ms => (match attachMarkers T ms with
      | some M => decide ((1260458254513940352835, 2147483647, true) ∈ M) && decide ((1260458252314850116946, 2147483647, false) ∈ M)
          && decide (decodeEntry M 2147483647 = some (1260458252314850116946, false))
      | none => false)
    | none => false) = true := by decide +kernel
-- and the check rejects the swapped order
example : noMarkerShadow [(1260458252314850116946, 2147483647, false), (1260458254513940352835, 2147483647, true)] = false := by decide
example : noMarkerShadow [(1260458254513940352835, 2147483647, true), (1260458252314850116946, 2147483647, false)] = true := by decide
-- two markers sharing a value are fine (SHN_LORESERVE / SHN_LOPROC = 0xff00)
example : noMarkerShadow [(1, 0xff00, true), (2, 0xff00, true)] = true := by decide

end PyElf.Props.C17
