/-
  C11 tie: the structures, tables and constants the container code uses are the Spec's, for every
  configuration the translator enumerates; the section-name table regenerated from the source of
  `get_dwarf_info` is the Spec's list of DWARF section names.
-/
import PyElf.Gen.Structs
import PyElf.Gen.Extra_C11
import PyElf.Spec.ElfStructs
import PyElf.Spec.DwarfStructs
import PyElf.Spec.Container
import PyElf.Model.Env
import PyElf.Model.DwarfView
namespace PyElf.Props.TieC11
open PyElf

theorem elf_Elf_Chdr : Gen.elfBundles.map (fun b => (b.1, b.2.Elf_Chdr)) = Spec.allElfCfgs.map (fun c => (c, (Spec.elfStructs c).Elf_Chdr)) := by rfl
theorem elf_Gnu_debuglink : Gen.elfBundles.map (fun b => (b.1, b.2.Gnu_debuglink)) = Spec.allElfCfgs.map (fun c => (c, (Spec.elfStructs c).Gnu_debuglink)) := by rfl
theorem dwarf_Dwarf_debugsup : Gen.dwarfBundles.map (fun b => (b.1, b.2.Dwarf_debugsup)) = Spec.allDwarfCfgs.map (fun c => (c, (Spec.dwarfStructs c).Dwarf_debugsup)) := by rfl
theorem dwarf_Dwarf_debugaltlink : Gen.dwarfBundles.map (fun b => (b.1, b.2.Dwarf_debugaltlink)) = Spec.allDwarfCfgs.map (fun c => (c, (Spec.dwarfStructs c).Dwarf_debugaltlink)) := by rfl

/-- the translator recognised the shape of `get_dwarf_info` -/
theorem names_not_refused : Gen.c11Refused = false := by rfl

/-- keyword ↦ section name, in lookup order, is the Spec's list -/
theorem section_names :
    Gen.c11SectionNames.map (fun e => (e.1, e.2.1)) = Spec.C11.sectionNames.map (fun e => (e.1, e.2.1)) := by decide

/-- which names the reader renames in a `.zdebug` file: the Spec's, `.gnu_debugaltlink` aside (the
    library also looks for a `.zgnu_debugaltlink`, which no producer ever emitted) -/
theorem section_renaming :
    (Gen.c11SectionNames.filter (fun e => e.1 != "gnu_debugaltlink_sec")).map (fun e => (e.1, e.2.2))
      = (Spec.C11.sectionNames.filter (fun e => e.1 != "gnu_debugaltlink_sec")).map (fun e => (e.1, e.2.2)) := by decide

/-- a name that is not renamed is never taken for a legacy-compressed one -/
theorem unrenamed_not_dotZ :
    ∀ kn ∈ Gen.c11SectionNames, kn.2.2 = false → Model.C11.startsWithDotZ kn.2.1 = false := by decide

theorem shf_compressed : Gen.c11ShfCompressed = Spec.C11.shfCompressed := by rfl
theorem elfcompress_zlib : Gen.c11Zlib = Spec.C11.compressZlib := by rfl
theorem em_dspic30f : Gen.c11DspicMachine = Spec.C11.emDspic30f := by rfl

/-- the names the model tests decoded codes against are the generated tables' names for the Spec's numbers -/
theorem zlib_name : Model.genEnumDecode "ENUM_ELFCOMPRESS_TYPE" (Spec.C11.compressZlib : Nat) = some "ELFCOMPRESS_ZLIB" := by rfl
theorem dspic_name : Model.genEnumDecode "ENUM_E_MACHINE" (Spec.C11.emDspic30f : Nat) = some "EM_DSPIC30F" := by rfl

/-- the constants of the model are the Spec's -/
theorem model_names :
    Model.C11.nDebugInfo = [0x2e, 0x64, 0x65, 0x62, 0x75, 0x67, 0x5f, 0x69, 0x6e, 0x66, 0x6f] ∧
    Model.C11.nZdebugInfo = Spec.C11.zdebugName Model.C11.nDebugInfo ∧
    Model.C11.magicZlib = Spec.C11.zlibMagic ∧
    (∀ x, Model.C11.zName x = Spec.C11.zdebugName x) := by
  refine ⟨rfl, rfl, rfl, fun _ => rfl⟩

end PyElf.Props.TieC11
