/-
  C09 tie, continued: in each of the four tag tables `_create_dyn` can build,
  exactly the gABI code 11 bears the name DT_SYMENT (the tag the symbol-count
  fallback of `DynamicSegment.num_symbols` checks against `Elf_Sym.sizeof()`).
-/
import PyElf.Props.TieC09
namespace PyElf.Props.TieC09
open PyElf PyElf.Model PyElf.Model.Dynamic PyElf.Spec.Dynamic PyElf.Proofs.Dynamic

theorem syment_common : TagIs elfEnv "ENUM_D_TAG_COMMON" "DT_SYMENT" DT_SYMENT :=
  tagIs_of_table "ENUM_D_TAG_COMMON" "DT_SYMENT" DT_SYMENT (by decide +kernel) (by decide +kernel)

theorem syment_mips : TagIs elfEnv "ENUM_D_TAG_COMMON+ENUM_D_TAG_MIPS" "DT_SYMENT" DT_SYMENT :=
  tagIs_of_table "ENUM_D_TAG_COMMON+ENUM_D_TAG_MIPS" "DT_SYMENT" DT_SYMENT (by decide +kernel) (by decide +kernel)

theorem syment_aarch64 : TagIs elfEnv "ENUM_D_TAG_COMMON+ENUM_D_TAG_AARCH64" "DT_SYMENT" DT_SYMENT :=
  tagIs_of_table "ENUM_D_TAG_COMMON+ENUM_D_TAG_AARCH64" "DT_SYMENT" DT_SYMENT (by decide +kernel) (by decide +kernel)

theorem syment_solaris : TagIs elfEnv "ENUM_D_TAG_COMMON+ENUM_D_TAG_SOLARIS" "DT_SYMENT" DT_SYMENT :=
  tagIs_of_table "ENUM_D_TAG_COMMON+ENUM_D_TAG_SOLARIS" "DT_SYMENT" DT_SYMENT (by decide +kernel) (by decide +kernel)

end PyElf.Props.TieC09
