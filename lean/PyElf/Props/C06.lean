/-
  C06 — call-frame information is parsed and interpreted per DWARF / .eh_frame rules.

  Property theorems only; helper lemmas are in PyElf/Proofs/CfiTable.lean and
  PyElf/Proofs/CfiParse.lean.  `T = Spec.cfiTables`, `S = Spec.dwarfStructs cfg`: by
  Props/TieC06.lean these are the regenerated tables and struct bundles of /repo.
-/
import PyElf.Spec.CFI
import PyElf.Model.CallFrame
import PyElf.Proofs.CfiTable
import PyElf.Proofs.CfiParse
import PyElf.Proofs.CfiEntries
import PyElf.Proofs.CfiEhFde
import PyElf.Proofs.CfiOrder
import PyElf.Props.TieC06
namespace PyElf.Props.C06
open PyElf PyElf.Spec PyElf.Model PyElf.Proofs.Cfi

/-! ### cfa_instr_roundtrip: the instruction stream is split into exactly the encoded opcodes and operands -/

/-- every DW_CFA opcode (all 28 of the generated opcode set), arbitrary operands (LEB128 operands with any
    padding, blocks of any length), either byte order, any address size, any DWARF format/version of the
    struct bundle, arbitrary bytes before and after: the opcode byte and exactly its operands are consumed
    and reported -/
theorem cfa_instr_roundtrip (le : Bool) (fmt asz ver : Nat) (env : Env) (pre rest : Bytes) (i : Cfa)
    (hw : i.wf asz = true) :
    parseInstr Spec.cfiTables (Spec.dwarfStructs ⟨le, fmt, asz, ver⟩) env (pre ++ i.enc le asz ++ rest) pre.length
      = .ok (toInstr i, pre.length + (i.enc le asz).length) :=
  parseInstr_ok (instrStructs_spec le fmt asz ver) env _ _ i rest (PyElf.Proofs.drop_pre pre _ rest) hw

/-- a whole instruction list between `pos` and `end_offset = pos + length`: exactly the encoded instructions,
    in order, and the stream is left at `end_offset` -/
theorem cfa_instrs_roundtrip (le : Bool) (fmt asz ver : Nat) (env : Env) (pre rest : Bytes) (is : List Cfa)
    (hw : ∀ i ∈ is, i.wf asz = true) (fuel : Nat) (hf : is.length < fuel) :
    parseInstructions Spec.cfiTables (Spec.dwarfStructs ⟨le, fmt, asz, ver⟩) env (pre ++ encInstrs le asz is ++ rest)
        (pre.length + (encInstrs le asz is).length) fuel pre.length
      = .ok (is.map toInstr, pre.length + (encInstrs le asz is).length) :=
  parseInstructions_ok (instrStructs_spec le fmt asz ver) env _ is pre.length fuel rest
    (PyElf.Proofs.drop_pre pre _ rest) hw hf

/-- what the returned objects show: opcode and operand list of each instruction, as the Spec prescribes -/
theorem toInstr_obs (i : Cfa) : (toInstr i).toVal = instrObs i := rfl

example : Cfa.wf 8 (.val_offset_sf ⟨3, 300⟩ ⟨2, -65⟩) = true := by decide      -- padded operands
example : (Cfa.enc true 8 (.def_cfa_expression ⟨2, [0x77, 0x08]⟩)) = [0x0f, 0x82, 0x00, 0x77, 0x08] := by decide

/-! ### entries_exact: the section scan returns exactly the entries of the section

  FULL STATEMENT:

    entries_exact : ∀ (sec : Section) (env : Env), sec.wf = true → (encodeSection sec).length < 2 ^ 63 →
        parseEntries (cfiOf sec env (encodeSection sec)) (encodeSection sec).length
          = .ok (modelFrom sec 0 sec.entries)
    -- `modelFrom sec 0 sec.entries` = for each Spec entry, in section order, THE object the library must build
    -- (`modelOf`: kind, offset, header fields, augmentation bytes/dict, pc-relative adjustment
    -- `+ address + field offset`, LSDA pointer, the FDE's `cie` being the object built for the designated CIE —
    -- also when the FDE precedes its CIE —, instruction list).  `entries_observe` below turns it into the
    -- observation `observeSection sec`: every field of `Entry.toVal` except `order` (pyelftools-only) equals
    -- `Entry.obs`, and the decoded table is related by `LineRel` to the Spec's table where the Spec defines one.
    -- `(encodeSection sec).length < 2 ^ 63`: a stream offset is a C `Py_ssize_t` (`seekPos`).

  PROVED at full strength for both section kinds (`entries_exact` below).  `.debug_frame`: CIE versions 1/3/4,
  DWARF32/64, address size 4/8, any interleaving incl. an FDE before its CIE (`entries_exact_debug_frame`).
  `.eh_frame`: zero terminators, CIEs with every augmentation over 'z','R','L','P','S' and every pointer encoding
  (`cie_entry_exact`), FDEs under every augmentation string '' / z[RLPS]*, every FDE and LSDA pointer encoding
  (nine bases × {none, pcrel}), any section address, the CIE taken from the cache or parsed recursively
  (`Proofs.Cfi.fde_miss_eh`, which assembles `fdeHeader_eh` = the `.eh_frame` branch of `_parse_fde_header` with the
  augmentation-data / LSDA block of `_parse_entry_at`).
  `Section.wf` for an `.eh_frame` FDE includes: the CIE lies BEFORE the FDE (the CIE pointer is an unsigned distance
  backwards — an `.eh_frame` FDE placed before its CIE cannot be encoded, see the `example` after `exEh`), that
  distance fits the 4-byte field, and the augmentation-data length fits its `augLenN` LEB128 bytes. -/

/-- the section scan returns exactly the entries of the section: both section kinds, full strength -/
theorem entries_exact (sec : Section) (env : Env) (hwf : sec.wf = true) (hsz : (encodeSection sec).length < 2 ^ 63) :
    parseEntries (cfiOf sec env (encodeSection sec)) (encodeSection sec).length = .ok (modelFrom sec 0 sec.entries) :=
  parseEntries_ok sec env hwf hsz (fdeMissOk sec env hwf hsz)

/-- one `.eh_frame` FDE anywhere in a well-formed section, whatever the cache holds (CIE cached or not): header
    fields with the pc-relative adjustment, the FDE's `cie` object, augmentation bytes, LSDA pointer, instructions -/
theorem fde_entry_exact_eh (sec : Section) (env : Env) (hwf : sec.wf = true) (hsz : (encodeSection sec).length < 2 ^ 63)
    (heh : sec.eh = true) (i : Nat) (f : Fde) (c : Cie) (hi : sec.entries[i]? = some (.fde f))
    (hc : sec.cieAt f.cie = some c) (fuel pos : Nat) (cache : Cache) (hinv : CacheInv sec cache)
    (hmiss : cache.get (sec.offsetOf i : Int) = none) :
    ∃ cache', parseEntryAt (cfiOf sec env (encodeSection sec)) (fuel + 2) (sec.offsetOf i) pos cache
        = .ok (mFde sec (sec.offsetOf i) f c, sec.offsetOf i + Spec.Entry.size sec (.fde f), cache')
      ∧ CacheInv sec cache' :=
  fde_miss_eh sec env hwf hsz heh i f c hi hc fuel pos cache hinv hmiss

/-- `.debug_frame`, full strength -/
theorem entries_exact_debug_frame (sec : Section) (env : Env) (hwf : sec.wf = true) (heh : sec.eh = false)
    (hsz : (encodeSection sec).length < 2 ^ 63) :
    parseEntries (cfiOf sec env (encodeSection sec)) (encodeSection sec).length = .ok (modelFrom sec 0 sec.entries) :=
  parseEntries_ok sec env hwf hsz (fdeMissOk_df sec env hwf hsz heh)

/-- both section kinds, given the single-entry fact for an FDE that is not in the cache (`FdeMissOk`;
    proved for `.debug_frame`, `fdeMissOk_df`) -/
theorem entries_exact_partial (sec : Section) (env : Env) (hwf : sec.wf = true)
    (hsz : (encodeSection sec).length < 2 ^ 63) (hfde : FdeMissOk sec env) :
    parseEntries (cfiOf sec env (encodeSection sec)) (encodeSection sec).length = .ok (modelFrom sec 0 sec.entries) :=
  parseEntries_ok sec env hwf hsz hfde

/-- `.eh_frame` (or any section) without FDEs: CIEs with any augmentation, zero terminators -/
theorem entries_exact_no_fde (sec : Section) (env : Env) (hwf : sec.wf = true)
    (hsz : (encodeSection sec).length < 2 ^ 63) (h : ∀ f, Spec.Entry.fde f ∉ sec.entries) :
    parseEntries (cfiOf sec env (encodeSection sec)) (encodeSection sec).length = .ok (modelFrom sec 0 sec.entries) :=
  parseEntries_ok sec env hwf hsz (fdeMissOk_noFde sec env h)

/-- one CIE anywhere in a well-formed section of either kind, with a cold cache: header fields (all versions,
    both DWARF formats), augmentation string/data/dictionary for every augmentation over the property's
    alphabet and every pointer encoding of the personality routine, instruction list; cached under its offset -/
theorem cie_entry_exact (sec : Section) (env : Env) (hwf : sec.wf = true) (hsz : (encodeSection sec).length < 2 ^ 63)
    (j : Nat) (c : Cie) (hj : sec.entries[j]? = some (.cie c)) (fuel pos : Nat) (cache : Cache)
    (hmiss : cache.get (sec.offsetOf j : Int) = none) :
    parseEntryAt (cfiOf sec env (encodeSection sec)) (fuel + 1) (sec.offsetOf j) pos cache
      = .ok (mCie sec (sec.offsetOf j) c, sec.offsetOf j + Spec.Entry.size sec (.cie c),
             ((sec.offsetOf j : Int), mCie sec (sec.offsetOf j) c) :: cache) :=
  cie_miss sec env hwf hsz j c hj fuel pos cache hmiss

/-- the objects of `modelFrom` show exactly `observeSection sec`: all fields but the table and `order` … -/
theorem entries_observe (sec : Section) (hwf : sec.wf = true) :
    All₂ (fun m v => coreVal (Model.Entry.toVal Spec.cfiTables m) = coreVal v)
      (modelFrom sec 0 sec.entries) (obsFrom sec 0 sec.entries) := by
  simp only [Section.wf, Bool.and_eq_true] at hwf
  exact core_from sec sec.entries 0 hwf.2

/-- … and the decoded table of entry `i` is the Spec's table (`stdTableOf` is the argument of `tableObs` in
    `Entry.obs`) wherever the Spec defines one -/
theorem entries_table (sec : Section) (hwf : sec.wf = true) (i : Nat) (se : Spec.Entry)
    (hi : sec.entries[i]? = some se) (rows : List Row) (hstd : stdTableOf sec (sec.offsetOf i) se = some rows) :
    ∃ d, decodeTable Spec.cfiTables (modelOf sec (sec.offsetOf i) se) = .ok d ∧ All₂ LineRel d.table rows :=
  modelOf_table sec hwf i se hi rows hstd

/-- non-vacuity: a `.debug_frame` section whose FDE precedes its CIE (DWARF64 FDE, version-4 CIE) -/
def exSec : Section :=
  { eh := false, le := true, asz := 8, address := 0,
    entries := [.fde { fmt64 := true, cie := 1, loc := 0x401000, range := 0x20, lsda := 0, augLenN := 1,
                       instrs := [.advance_loc 4, .def_cfa_offset ⟨1, 16⟩] },
                .cie { fmt64 := false, version := 4, aug := none, augLenN := 1, addrSize := 8, segSize := 0,
                       caf := ⟨1, 1⟩, daf := ⟨1, -8⟩, ra := ⟨1, 16⟩, instrs := [.def_cfa ⟨1, 7⟩ ⟨1, 8⟩, .offset 16 ⟨1, 1⟩] }] }
example : exSec.wf = true ∧ exSec.eh = false ∧ (encodeSection exSec).length < 2 ^ 63 := by decide

/-- non-vacuity: an `.eh_frame` at a non-zero address with a `zPLR` CIE (personality indirect|pcrel|sdata4,
    LSDA encoding uleb128, FDE encoding pcrel|sdata4), an FDE of it (negative pc-relative initial location, LSDA
    pointer 0x3000 in two LEB128 bytes, padded augmentation length), a second CIE with an empty augmentation
    string and an FDE of it, a third FDE that designates the FIRST CIE across the other entries, and the terminator -/
def exEh : Section :=
  { eh := true, le := true, asz := 8, address := 0x400000,
    entries := [.cie { fmt64 := false, version := 1, aug := some [.P 0x9b 0x1234, .L 0x01, .R 0x1b], augLenN := 1,
                       addrSize := 0, segSize := 0, caf := ⟨1, 1⟩, daf := ⟨1, -8⟩, ra := ⟨1, 16⟩,
                       instrs := [.def_cfa ⟨1, 7⟩ ⟨1, 8⟩, .offset 16 ⟨1, 1⟩] },
                .fde { fmt64 := false, cie := 0, loc := -0x200, range := 0x40, lsda := 0x3000, augLenN := 2,
                       instrs := [.advance_loc 4, .def_cfa_offset ⟨1, 16⟩] },
                .cie { fmt64 := false, version := 3, aug := none, augLenN := 1, addrSize := 0, segSize := 0,
                       caf := ⟨1, 4⟩, daf := ⟨1, -4⟩, ra := ⟨2, 30⟩, instrs := [.def_cfa ⟨1, 31⟩ ⟨1, 0⟩] },
                .fde { fmt64 := false, cie := 2, loc := 0x401000, range := 0x10, lsda := 0, augLenN := 1,
                       instrs := [.set_loc 0x401004, .nop] },
                .fde { fmt64 := false, cie := 0, loc := 0x7fff0000, range := 8, lsda := 5, augLenN := 1, instrs := [] },
                .zero] }
example : exEh.wf = true ∧ exEh.eh = true ∧ (encodeSection exEh).length < 2 ^ 63 := by decide +kernel
example (env : Env) : parseEntries (cfiOf exEh env (encodeSection exEh)) (encodeSection exEh).length
    = .ok (modelFrom exEh 0 exEh.entries) := entries_exact exEh env (by decide +kernel) (by decide +kernel)

/-- in `.eh_frame` the CIE pointer is an unsigned distance BACK from the pointer field (LSB 10.6.1.1.2; pyelftools reads
    it unsigned and subtracts): an FDE placed before its CIE has no encoding, so it is outside `Section.wf` — the
    FDE-before-CIE case (recursive CIE parse, then cache hit when the scan reaches the CIE) is the `.debug_frame`
    section `exSec` above.  Within `.eh_frame` the recursive CIE parse happens whenever the FDE is fetched with a
    cache that lacks its CIE (`fde_entry_exact_eh` holds for every cache satisfying the invariant). -/
example : ({ exEh with entries := (exEh.entries.take 2).reverse } : Section).wf = false := by decide +kernel

theorem entry_zero_exact (C : Cfi) (S32 : DwarfStructs) (le : Bool) (fuel off pos : Nat) (cache : Cache) (rest : Bytes)
    (heh : C.eh = true) (hS : C.structs 32 = .ok S32) (hu32 : S32.the_Dwarf_uint32 = .uint 4 le)
    (hoff : off < 2 ^ 63) (hmiss : cache.get (off : Int) = none)
    (hd : C.data.drop off = [0, 0, 0, 0] ++ rest) :
    parseEntryAt C (fuel + 1) off pos cache = .ok (.zero off, off + 4, cache) :=
  entry_zero C S32 le fuel off pos cache rest heh hS hu32 hoff hmiss hd

theorem entry_cached_exact (C : Cfi) (fuel : Nat) (off : Int) (pos : Nat) (cache : Cache) (e : Model.Entry)
    (h : Fields) (len ilfs : Nat) (hc : cache.get off = some e) (hh : e.header = .ok h)
    (hl : Fields.getR h "length" = .ok (.int len)) (hi : e.ilfs = .ok ilfs) :
    parseEntryAt C (fuel + 1) off pos cache = .ok (e, pos + (len + ilfs), cache) :=
  entry_cached C fuel off pos cache e h len ilfs hc hh hl hi

theorem fde_cie_link (C : Cfi) (recur : Int → Nat → Cache → R (Model.Entry × Nat × Cache)) (fdeOff cieOff : Nat)
    (header : Fields) (pos p' : Nat) (cache cache' : Cache) (e : Model.Entry)
    (hptr : Fields.getR header "CIE_pointer"
      = .ok (.int (if C.eh then ((fdeOff + 4 - cieOff : Nat) : Int) else (cieOff : Int))))
    (hback : C.eh = true → cieOff ≤ fdeOff + 4)
    (hrec : recur (cieOff : Int) pos cache = .ok (e, p', cache')) :
    parseCieForFde C recur fdeOff header 32 pos cache = .ok (e, cache') :=
  cie_link C recur fdeOff cieOff header pos p' cache cache' e hptr hback hrec

/-! ### table_eq_std: the decoded table is the table of DWARF §6.4

  `LineRel l row`: same location, same CFA rule (as `CFARule(reg, offset, expr)`), and for EVERY
  register number the same rule (as `RegisterRule(type, arg)`), absent where the standard has none.
  `All₂ LineRel`: same number of rows, related pointwise, in order.
  Hypothesis `stdTable… = some rows` is the validity of the program per §6.4.2 (no restore outside
  an FDE, remember/restore balanced, def_cfa_register/offset only under a register+offset CFA rule,
  CIE initial instructions do not advance the location). -/

/-- one instruction: the dict-based interpreter step simulates the reference machine step,
    for every DW_CFA opcode with arbitrary operands and alignment factors -/
theorem table_step_eq_std (asz : Nat) (caf daf : Int) (cieH : Fields)
    (hcaf : Fields.getR cieH "code_alignment_factor" = .ok (.int caf))
    (hdaf : Fields.getR cieH "data_alignment_factor" = .ok (.int daf))
    (isFde : Bool) (last : List (Nat × RuleV)) (init : Option Rules) (hinit : InitRel isFde last init)
    (s : DState) (t t' : TState) (hrel : StRel s t) (i : Cfa) (hwf : i.wf asz = true)
    (hstep : tstep caf daf init t i = some t') :
    ∃ s', decodeStep Spec.cfiTables isFde last cieH s (toInstr i) = .ok s' ∧ StRel s' t' :=
  step_sim asz caf daf cieH hcaf hdaf isFde last init hinit s t t' hrel i hwf hstep

/-- CIE: `get_decoded().table` of the entry the parser returns for instruction list `is` -/
theorem table_eq_std_cie (asz : Nat) (caf daf : Int) (h : Fields)
    (hcaf : Fields.getR h "code_alignment_factor" = .ok (.int caf))
    (hdaf : Fields.getR h "data_alignment_factor" = .ok (.int daf))
    (is : List Cfa) (hwf : ∀ i ∈ is, i.wf asz = true) (rows : List Row)
    (hstd : stdTableCie caf daf is = some rows) (off : Nat) (ad : Fields) (ab : Bytes) (fmt : Nat) :
    ∃ d, decodeTable Spec.cfiTables (.cie h (is.map toInstr) off ad ab fmt) = .ok d ∧ All₂ LineRel d.table rows :=
  decode_cie asz caf daf h hcaf hdaf is hwf rows hstd off ad ab fmt

/-- FDE: the CIE's initial rules at `initial_location`, restore to them, remember/restore state -/
theorem table_eq_std_fde (asz : Nat) (caf daf : Int) (hc hf : Fields) (loc : Int)
    (hcaf : Fields.getR hc "code_alignment_factor" = .ok (.int caf))
    (hdaf : Fields.getR hc "data_alignment_factor" = .ok (.int daf))
    (hloc : Fields.getR hf "initial_location" = .ok (.int loc))
    (cis fis : List Cfa) (hwfc : ∀ i ∈ cis, i.wf asz = true) (hwff : ∀ i ∈ fis, i.wf asz = true)
    (rows : List Row) (hstd : stdTableFde caf daf cis loc fis = some rows)
    (off coff : Nat) (ad : Fields) (ab fab : Bytes) (lsda : Option Int) (fmt cfmt : Nat) :
    ∃ d, decodeTable Spec.cfiTables
          (.fde hf (fis.map toInstr) off (.cie hc (cis.map toInstr) coff ad ab cfmt) fab lsda fmt) = .ok d
      ∧ All₂ LineRel d.table rows :=
  decode_fde asz caf daf hc hf loc hcaf hdaf hloc cis fis hwfc hwff rows hstd off coff ad ab fab lsda fmt cfmt

/-- what `LineRel` means for an observer: location, CFA rule and every register column agree -/
theorem lineRel_obs {l : Line} {row : Row} (h : LineRel l row) :
    l.pc = row.loc ∧ l.cfa.toVal = row.rules.cfa.obs ∧
      ∀ r, (regGet l.regs r).map RuleV.toVal = (row.rules.regs.get r).map RegRule.obs := by
  obtain ⟨hpc, hc, hr⟩ := h
  refine ⟨hpc, by rw [hc, cfaV_obs], fun r => ?_⟩
  rw [hr r]
  cases row.rules.regs.get r <;> simp [ruleV_obs]

/-! non-vacuity: DWARF 5 appendix D.6-style program (CIE: def_cfa r7+0, r8 at cfa-4…; FDE advances,
    remembers, restores) has a defined standard table with 4 rows -/
example :
    (stdTableFde 4 (-4) [.def_cfa ⟨1, 7⟩ ⟨1, 0⟩, .offset 8 ⟨1, 1⟩, .same_value ⟨1, 4⟩]
      0x1000 [.advance_loc 1, .def_cfa_offset ⟨1, 4⟩, .remember_state, .advance_loc 1, .offset 6 ⟨1, 2⟩,
              .def_cfa_sf ⟨1, 6⟩ ⟨1, -2⟩, .advance_loc 2, .restore_state, .restore 8]).map List.length = some 4 := by
  decide

/-- the defect the pinned suite cannot see: DW_CFA_def_cfa_sf factors by the DATA alignment factor -/
example : stdTableCie 4 (-8) [.def_cfa_sf ⟨1, 7⟩ ⟨1, -2⟩] = some [⟨0, ⟨.regOff 7 16, []⟩⟩] := by decide

/-- a row whose only content is a CFA expression is a row -/
example : stdTableCie 1 1 [.def_cfa_expression ⟨1, [0x50]⟩] = some [⟨0, ⟨.expr [0x50], []⟩⟩] := by decide

/-- restore under a CIE that gives the register no rule removes the rule -/
example : stdTableFde 1 1 [] 0x10 [.undefined ⟨1, 3⟩, .advance_loc 1, .restore 3]
    = some [⟨0x10, ⟨.unset, [(3, .undefined)]⟩⟩] := by decide

/-! ### reg_order: pyelftools' register column order is the order of first appearance

  `Spec.regOrder is` = first occurrences, in order, of the registers named by the register-rule instructions of
  `is` (`Cfa.ruleReg`: offset*, val_offset*, register, undefined, same_value, expression, val_expression, restore*).
  Not a DWARF notion (the standard's table has one column per register, unordered); it is what
  `DecodedCallFrameTable.reg_order` promises to readelf-style printers.  The theorems hold whenever the table
  decodes at all (no validity hypothesis on the program). -/

/-- CIE -/
theorem reg_order_cie (asz : Nat) (caf daf : Int) (h : Fields)
    (hcaf : Fields.getR h "code_alignment_factor" = .ok (.int caf))
    (hdaf : Fields.getR h "data_alignment_factor" = .ok (.int daf))
    (is : List Cfa) (hwf : ∀ i ∈ is, i.wf asz = true) (off : Nat) (ad : Fields) (ab : Bytes) (fmt : Nat) (d : Decoded)
    (hd : decodeTable Spec.cfiTables (.cie h (is.map toInstr) off ad ab fmt) = .ok d) : d.regOrder = regOrder is :=
  order_cie asz caf daf h hcaf hdaf is hwf off ad ab fmt d hd

/-- FDE: the registers of the CIE's initial instructions come first -/
theorem reg_order_fde (asz : Nat) (caf daf : Int) (hc hf : Fields)
    (hcaf : Fields.getR hc "code_alignment_factor" = .ok (.int caf))
    (hdaf : Fields.getR hc "data_alignment_factor" = .ok (.int daf))
    (cis fis : List Cfa) (hwfc : ∀ i ∈ cis, i.wf asz = true) (hwff : ∀ i ∈ fis, i.wf asz = true)
    (off coff : Nat) (ad : Fields) (ab fab : Bytes) (lsda : Option Int) (fmt cfmt : Nat) (d : Decoded)
    (hd : decodeTable Spec.cfiTables
          (.fde hf (fis.map toInstr) off (.cie hc (cis.map toInstr) coff ad ab cfmt) fab lsda fmt) = .ok d) :
    d.regOrder = regOrder (cis ++ fis) :=
  order_fde asz caf daf hc hf hcaf hdaf cis fis hwfc hwff off coff ad ab fab lsda fmt cfmt d hd

/-- the objects `entries_exact` returns: `reg_order` of entry `i` is the Spec's (`regOrderOf`: a CIE's own
    instructions; an FDE's designated CIE's instructions, then its own) -/
theorem entries_reg_order (sec : Section) (hwf : sec.wf = true) (i : Nat) (se : Spec.Entry)
    (hi : sec.entries[i]? = some se) (d : Decoded)
    (hd : decodeTable Spec.cfiTables (modelOf sec (sec.offsetOf i) se) = .ok d) : d.regOrder = regOrderOf sec se :=
  modelOf_order sec hwf i se hi d hd

/-- `firstOccurrences` keeps every element exactly once (and, by its definition, at its first position) -/
theorem regOrder_spec (is : List Cfa) :
    (regOrder is).Nodup ∧ ∀ r, r ∈ regOrder is ↔ some r ∈ is.map Cfa.ruleReg := by
  refine ⟨firstOccurrences_nodup _, fun r => ?_⟩
  rw [regOrder, mem_firstOccurrences, List.mem_filterMap, List.mem_map]

example : regOrder [.def_cfa ⟨1, 7⟩ ⟨1, 8⟩, .offset 16 ⟨1, 1⟩, .advance_loc 1, .offset 6 ⟨1, 2⟩, .restore 16,
    .same_value ⟨1, 3⟩, .offset_extended ⟨1, 6⟩ ⟨1, 4⟩] = [16, 6, 3] := by decide

end PyElf.Props.C06
