/-
  C06 — call-frame information is parsed and interpreted per DWARF / .eh_frame rules.

  Property theorems only; helper lemmas are in PyElf/Proofs/Cfi*.lean.  `T = Spec.cfiTables`,
  `S = Spec.dwarfStructs cfg`: by Props/TieC06.lean these are the regenerated tables and struct bundles of /repo.

  PROVED (sections of this file, in order):
    cfa_instr_roundtrip / cfa_instrs_roundtrip   instruction split, all 28 opcodes, any operands
    entries_exact (+ per-entry forms)            section scan, both section kinds, full strength
    table_eq_std_*, reg_order_*                  decoded table = DWARF §6.4 reference machine; column order
    cfi_entries_of_file, eh_cfi_entries_of_file, has_cfi_of_file, cfi_entries_of_file_relocated, file_cfi_table,
    *_of_view                                    WHOLE FILES: `ELFFile(BytesIO(bytes)).get_dwarf_info().CFI_entries()` /
                                                 `EH_CFI_entries()` / `has_CFI()` / `has_EH_CFI()` for every well-formed
                                                 container description (C01 + C11: plain, gABI-compressed, `.zdebug`
                                                 storage; relocations; any byte string with `Spec.Layout`), glue of
                                                 dwarfinfo.py modelled in Model/CallFrameFile.lean
    bad_*                                        MALFORMED sections: exact error class / continuation per class
    set_loc_*                                    the boundary of the known finding eh-set-loc-encoding as theorems

    entries_exact_prefix, bad_*_after_section    a well-formed section followed by anything / by a malformed entry:
                                                 `get_entries()` on the whole byte string

  CORRESPONDENCE-ONLY (harness streams raw / bad / setloc): unknown opcode / truncation INSIDE AN FDE at entry level
  (the instruction-level theorems are entry-kind independent; CIE and FDE-pointer classes are proved at entry and
  section level); malformed entries BEFORE well-formed ones; an unknown augmentation letter at entry level (proved for the letter loop); an FDE that
  designates itself (unbounded recursion); arbitrary byte damage.
-/
import PyElf.Spec.CFI
import PyElf.Model.CallFrame
import PyElf.Proofs.CfiTable
import PyElf.Proofs.CfiParse
import PyElf.Proofs.CfiEntries
import PyElf.Proofs.CfiEhFde
import PyElf.Proofs.CfiOrder
import PyElf.Proofs.CfiFile
import PyElf.Proofs.CfiMalformed
import PyElf.Proofs.CfiMalformedEntry
import PyElf.Proofs.CfiMalformedCut
import PyElf.Proofs.CfiSetLoc
import PyElf.Proofs.CfiTail
import PyElf.Props.TieC06
import PyElf.Props.TieC01
import PyElf.Props.TieC11
import PyElf.Props.TieDwarf
namespace PyElf.Props.C06
open PyElf PyElf.Spec PyElf.Model PyElf.Proofs.Cfi

/-! ### cfa_instr_roundtrip: the instruction stream is split into exactly the encoded opcodes and operands -/

/-- every DW_CFA opcode (all 28 of the generated opcode set), arbitrary operands (LEB128 operands with any
    padding, blocks of any length), either byte order, any address size, any DWARF format/version of the
    struct bundle, arbitrary bytes before and after: the opcode byte and exactly its operands are consumed
    and reported -/
theorem cfa_instr_roundtrip (le : Bool) (fmt asz ver : Nat) (env : Env) (pre rest : Bytes) (i : Cfa)
    (hw : i.wf asz = true) :
    parseInstr Spec.cfiTables (Spec.dwarfStructs ⟨le, fmt, asz, ver⟩) env (pre ++ i.enc le asz ++ rest) pre.length
      = .ok (toInstr i, pre.length + (i.enc le asz).length) :=
  parseInstr_ok (instrStructs_spec le fmt asz ver) env _ _ i rest (PyElf.Proofs.drop_pre pre _ rest) hw

/-- a whole instruction list between `pos` and `end_offset = pos + length`: exactly the encoded instructions,
    in order, and the stream is left at `end_offset` -/
theorem cfa_instrs_roundtrip (le : Bool) (fmt asz ver : Nat) (env : Env) (pre rest : Bytes) (is : List Cfa)
    (hw : ∀ i ∈ is, i.wf asz = true) (fuel : Nat) (hf : is.length < fuel) :
    parseInstructions Spec.cfiTables (Spec.dwarfStructs ⟨le, fmt, asz, ver⟩) env (pre ++ encInstrs le asz is ++ rest)
        (pre.length + (encInstrs le asz is).length) fuel pre.length
      = .ok (is.map toInstr, pre.length + (encInstrs le asz is).length) :=
  parseInstructions_ok (instrStructs_spec le fmt asz ver) env _ is pre.length fuel rest
    (PyElf.Proofs.drop_pre pre _ rest) hw hf

/-- what the returned objects show: opcode and operand list of each instruction, as the Spec prescribes -/
theorem toInstr_obs (i : Cfa) : (toInstr i).toVal = instrObs i := rfl

example : Cfa.wf 8 (.val_offset_sf ⟨3, 300⟩ ⟨2, -65⟩) = true := by decide      -- padded operands
example : (Cfa.enc true 8 (.def_cfa_expression ⟨2, [0x77, 0x08]⟩)) = [0x0f, 0x82, 0x00, 0x77, 0x08] := by decide

/-! ### entries_exact: the section scan returns exactly the entries of the section

  FULL STATEMENT:

    entries_exact : ∀ (sec : Section) (env : Env), sec.wf = true → (encodeSection sec).length < 2 ^ 63 →
        parseEntries (cfiOf sec env (encodeSection sec)) (encodeSection sec).length
          = .ok (modelFrom sec 0 sec.entries)
    -- `modelFrom sec 0 sec.entries` = for each Spec entry, in section order, THE object the library must build
    -- (`modelOf`: kind, offset, header fields, augmentation bytes/dict, pc-relative adjustment
    -- `+ address + field offset`, LSDA pointer, the FDE's `cie` being the object built for the designated CIE —
    -- also when the FDE precedes its CIE —, instruction list).  `entries_observe` below turns it into the
    -- observation `observeSection sec`: every field of `Entry.toVal` except `order` (pyelftools-only) equals
    -- `Entry.obs`, and the decoded table is related by `LineRel` to the Spec's table where the Spec defines one.
    -- `(encodeSection sec).length < 2 ^ 63`: a stream offset is a C `Py_ssize_t` (`seekPos`).

  PROVED at full strength for both section kinds (`entries_exact` below).  `.debug_frame`: CIE versions 1/3/4,
  DWARF32/64, address size 4/8, any interleaving incl. an FDE before its CIE (`entries_exact_debug_frame`).
  `.eh_frame`: zero terminators, CIEs with every augmentation over 'z','R','L','P','S' and every pointer encoding
  (`cie_entry_exact`), FDEs under every augmentation string '' / z[RLPS]*, every FDE and LSDA pointer encoding
  (nine bases × {none, pcrel}), any section address, the CIE taken from the cache or parsed recursively
  (`Proofs.Cfi.fde_miss_eh`, which assembles `fdeHeader_eh` = the `.eh_frame` branch of `_parse_fde_header` with the
  augmentation-data / LSDA block of `_parse_entry_at`).
  `Section.wf` for an `.eh_frame` FDE includes: the CIE lies BEFORE the FDE (the CIE pointer is an unsigned distance
  backwards — an `.eh_frame` FDE placed before its CIE cannot be encoded, see the `example` after `exEh`), that
  distance fits the 4-byte field, and the augmentation-data length fits its `augLenN` LEB128 bytes. -/

/-- the section scan returns exactly the entries of the section: both section kinds, full strength -/
theorem entries_exact (sec : Section) (env : Env) (hwf : sec.wf = true) (hsz : (encodeSection sec).length < 2 ^ 63) :
    parseEntries (cfiOf sec env (encodeSection sec)) (encodeSection sec).length = .ok (modelFrom sec 0 sec.entries) :=
  parseEntries_ok sec env hwf hsz (fdeMissOk sec env hwf hsz)

/-- one `.eh_frame` FDE anywhere in a well-formed section, whatever the cache holds (CIE cached or not): header
    fields with the pc-relative adjustment, the FDE's `cie` object, augmentation bytes, LSDA pointer, instructions -/
theorem fde_entry_exact_eh (sec : Section) (env : Env) (hwf : sec.wf = true) (hsz : (encodeSection sec).length < 2 ^ 63)
    (heh : sec.eh = true) (i : Nat) (f : Fde) (c : Cie) (hi : sec.entries[i]? = some (.fde f))
    (hc : sec.cieAt f.cie = some c) (fuel pos : Nat) (cache : Cache) (hinv : CacheInv sec cache)
    (hmiss : cache.get (sec.offsetOf i : Int) = none) :
    ∃ cache', parseEntryAt (cfiOf sec env (encodeSection sec)) (fuel + 2) (sec.offsetOf i) pos cache
        = .ok (mFde sec (sec.offsetOf i) f c, sec.offsetOf i + Spec.Entry.size sec (.fde f), cache')
      ∧ CacheInv sec cache' :=
  fde_miss_eh sec env hwf hsz heh i f c hi hc fuel pos cache hinv hmiss

/-- `.debug_frame`, full strength -/
theorem entries_exact_debug_frame (sec : Section) (env : Env) (hwf : sec.wf = true) (heh : sec.eh = false)
    (hsz : (encodeSection sec).length < 2 ^ 63) :
    parseEntries (cfiOf sec env (encodeSection sec)) (encodeSection sec).length = .ok (modelFrom sec 0 sec.entries) :=
  parseEntries_ok sec env hwf hsz (fdeMissOk_df sec env hwf hsz heh)

/-- both section kinds, given the single-entry fact for an FDE that is not in the cache (`FdeMissOk`;
    proved for `.debug_frame`, `fdeMissOk_df`) -/
theorem entries_exact_partial (sec : Section) (env : Env) (hwf : sec.wf = true)
    (hsz : (encodeSection sec).length < 2 ^ 63) (hfde : FdeMissOk sec env) :
    parseEntries (cfiOf sec env (encodeSection sec)) (encodeSection sec).length = .ok (modelFrom sec 0 sec.entries) :=
  parseEntries_ok sec env hwf hsz hfde

/-- `.eh_frame` (or any section) without FDEs: CIEs with any augmentation, zero terminators -/
theorem entries_exact_no_fde (sec : Section) (env : Env) (hwf : sec.wf = true)
    (hsz : (encodeSection sec).length < 2 ^ 63) (h : ∀ f, Spec.Entry.fde f ∉ sec.entries) :
    parseEntries (cfiOf sec env (encodeSection sec)) (encodeSection sec).length = .ok (modelFrom sec 0 sec.entries) :=
  parseEntries_ok sec env hwf hsz (fdeMissOk_noFde sec env h)

/-- one CIE anywhere in a well-formed section of either kind, with a cold cache: header fields (all versions,
    both DWARF formats), augmentation string/data/dictionary for every augmentation over the property's
    alphabet and every pointer encoding of the personality routine, instruction list; cached under its offset -/
theorem cie_entry_exact (sec : Section) (env : Env) (hwf : sec.wf = true) (hsz : (encodeSection sec).length < 2 ^ 63)
    (j : Nat) (c : Cie) (hj : sec.entries[j]? = some (.cie c)) (fuel pos : Nat) (cache : Cache)
    (hmiss : cache.get (sec.offsetOf j : Int) = none) :
    parseEntryAt (cfiOf sec env (encodeSection sec)) (fuel + 1) (sec.offsetOf j) pos cache
      = .ok (mCie sec (sec.offsetOf j) c, sec.offsetOf j + Spec.Entry.size sec (.cie c),
             ((sec.offsetOf j : Int), mCie sec (sec.offsetOf j) c) :: cache) :=
  cie_miss sec env hwf hsz j c hj fuel pos cache hmiss

/-- the objects of `modelFrom` show exactly `observeSection sec`: all fields but the table and `order` … -/
theorem entries_observe (sec : Section) (hwf : sec.wf = true) :
    All₂ (fun m v => coreVal (Model.Entry.toVal Spec.cfiTables m) = coreVal v)
      (modelFrom sec 0 sec.entries) (obsFrom sec 0 sec.entries) := by
  simp only [Section.wf, Bool.and_eq_true] at hwf
  exact core_from sec sec.entries 0 hwf.2

/-- … and the decoded table of entry `i` is the Spec's table (`stdTableOf` is the argument of `tableObs` in
    `Entry.obs`) wherever the Spec defines one -/
theorem entries_table (sec : Section) (hwf : sec.wf = true) (i : Nat) (se : Spec.Entry)
    (hi : sec.entries[i]? = some se) (rows : List Row) (hstd : stdTableOf sec (sec.offsetOf i) se = some rows) :
    ∃ d, decodeTable Spec.cfiTables (modelOf sec (sec.offsetOf i) se) = .ok d ∧ All₂ LineRel d.table rows :=
  modelOf_table sec hwf i se hi rows hstd

/-- non-vacuity: a `.debug_frame` section whose FDE precedes its CIE (DWARF64 FDE, version-4 CIE) -/
def exSec : Section :=
  { eh := false, le := true, asz := 8, address := 0,
    entries := [.fde { fmt64 := true, cie := 1, loc := 0x401000, range := 0x20, lsda := 0, augLenN := 1,
                       instrs := [.advance_loc 4, .def_cfa_offset ⟨1, 16⟩] },
                .cie { fmt64 := false, version := 4, aug := none, augLenN := 1, addrSize := 8, segSize := 0,
                       caf := ⟨1, 1⟩, daf := ⟨1, -8⟩, ra := ⟨1, 16⟩, instrs := [.def_cfa ⟨1, 7⟩ ⟨1, 8⟩, .offset 16 ⟨1, 1⟩] }] }
example : exSec.wf = true ∧ exSec.eh = false ∧ (encodeSection exSec).length < 2 ^ 63 := by decide

/-- non-vacuity: an `.eh_frame` at a non-zero address with a `zPLR` CIE (personality indirect|pcrel|sdata4,
    LSDA encoding uleb128, FDE encoding pcrel|sdata4), an FDE of it (negative pc-relative initial location, LSDA
    pointer 0x3000 in two LEB128 bytes, padded augmentation length), a second CIE with an empty augmentation
    string and an FDE of it, a third FDE that designates the FIRST CIE across the other entries, and the terminator -/
def exEh : Section :=
  { eh := true, le := true, asz := 8, address := 0x400000,
    entries := [.cie { fmt64 := false, version := 1, aug := some [.P 0x9b 0x1234, .L 0x01, .R 0x1b], augLenN := 1,
                       addrSize := 0, segSize := 0, caf := ⟨1, 1⟩, daf := ⟨1, -8⟩, ra := ⟨1, 16⟩,
                       instrs := [.def_cfa ⟨1, 7⟩ ⟨1, 8⟩, .offset 16 ⟨1, 1⟩] },
                .fde { fmt64 := false, cie := 0, loc := -0x200, range := 0x40, lsda := 0x3000, augLenN := 2,
                       instrs := [.advance_loc 4, .def_cfa_offset ⟨1, 16⟩] },
                .cie { fmt64 := false, version := 3, aug := none, augLenN := 1, addrSize := 0, segSize := 0,
                       caf := ⟨1, 4⟩, daf := ⟨1, -4⟩, ra := ⟨2, 30⟩, instrs := [.def_cfa ⟨1, 31⟩ ⟨1, 0⟩] },
                .fde { fmt64 := false, cie := 2, loc := 0x401000, range := 0x10, lsda := 0, augLenN := 1,
                       instrs := [.set_loc 0x401004, .nop] },
                .fde { fmt64 := false, cie := 0, loc := 0x7fff0000, range := 8, lsda := 5, augLenN := 1, instrs := [] },
                .zero] }
example : exEh.wf = true ∧ exEh.eh = true ∧ (encodeSection exEh).length < 2 ^ 63 := by decide +kernel
example (env : Env) : parseEntries (cfiOf exEh env (encodeSection exEh)) (encodeSection exEh).length
    = .ok (modelFrom exEh 0 exEh.entries) := entries_exact exEh env (by decide +kernel) (by decide +kernel)

/-- in `.eh_frame` the CIE pointer is an unsigned distance BACK from the pointer field (LSB 10.6.1.1.2; pyelftools reads
    it unsigned and subtracts): an FDE placed before its CIE has no encoding, so it is outside `Section.wf` — the
    FDE-before-CIE case (recursive CIE parse, then cache hit when the scan reaches the CIE) is the `.debug_frame`
    section `exSec` above.  Within `.eh_frame` the recursive CIE parse happens whenever the FDE is fetched with a
    cache that lacks its CIE (`fde_entry_exact_eh` holds for every cache satisfying the invariant). -/
example : ({ exEh with entries := (exEh.entries.take 2).reverse } : Section).wf = false := by decide +kernel

theorem entry_zero_exact (C : Cfi) (S32 : DwarfStructs) (le : Bool) (fuel off pos : Nat) (cache : Cache) (rest : Bytes)
    (heh : C.eh = true) (hS : C.structs 32 = .ok S32) (hu32 : S32.the_Dwarf_uint32 = .uint 4 le)
    (hoff : off < 2 ^ 63) (hmiss : cache.get (off : Int) = none)
    (hd : C.data.drop off = [0, 0, 0, 0] ++ rest) :
    parseEntryAt C (fuel + 1) off pos cache = .ok (.zero off, off + 4, cache) :=
  entry_zero C S32 le fuel off pos cache rest heh hS hu32 hoff hmiss hd

theorem entry_cached_exact (C : Cfi) (fuel : Nat) (off : Int) (pos : Nat) (cache : Cache) (e : Model.Entry)
    (h : Fields) (len ilfs : Nat) (hc : cache.get off = some e) (hh : e.header = .ok h)
    (hl : Fields.getR h "length" = .ok (.int len)) (hi : e.ilfs = .ok ilfs) :
    parseEntryAt C (fuel + 1) off pos cache = .ok (e, pos + (len + ilfs), cache) :=
  entry_cached C fuel off pos cache e h len ilfs hc hh hl hi

theorem fde_cie_link (C : Cfi) (recur : Int → Nat → Cache → R (Model.Entry × Nat × Cache)) (fdeOff cieOff : Nat)
    (header : Fields) (pos p' : Nat) (cache cache' : Cache) (e : Model.Entry)
    (hptr : Fields.getR header "CIE_pointer"
      = .ok (.int (if C.eh then ((fdeOff + 4 - cieOff : Nat) : Int) else (cieOff : Int))))
    (hback : C.eh = true → cieOff ≤ fdeOff + 4)
    (hrec : recur (cieOff : Int) pos cache = .ok (e, p', cache')) :
    parseCieForFde C recur fdeOff header 32 pos cache = .ok (e, cache') :=
  cie_link C recur fdeOff cieOff header pos p' cache cache' e hptr hback hrec

/-! ### table_eq_std: the decoded table is the table of DWARF §6.4

  `LineRel l row`: same location, same CFA rule (as `CFARule(reg, offset, expr)`), and for EVERY
  register number the same rule (as `RegisterRule(type, arg)`), absent where the standard has none.
  `All₂ LineRel`: same number of rows, related pointwise, in order.
  Hypothesis `stdTable… = some rows` is the validity of the program per §6.4.2 (no restore outside
  an FDE, remember/restore balanced, def_cfa_register/offset only under a register+offset CFA rule,
  CIE initial instructions do not advance the location). -/

/-- one instruction: the dict-based interpreter step simulates the reference machine step,
    for every DW_CFA opcode with arbitrary operands and alignment factors -/
theorem table_step_eq_std (asz : Nat) (caf daf : Int) (cieH : Fields)
    (hcaf : Fields.getR cieH "code_alignment_factor" = .ok (.int caf))
    (hdaf : Fields.getR cieH "data_alignment_factor" = .ok (.int daf))
    (isFde : Bool) (last : List (Nat × RuleV)) (init : Option Rules) (hinit : InitRel isFde last init)
    (s : DState) (t t' : TState) (hrel : StRel s t) (i : Cfa) (hwf : i.wf asz = true)
    (hstep : tstep caf daf init t i = some t') :
    ∃ s', decodeStep Spec.cfiTables isFde last cieH s (toInstr i) = .ok s' ∧ StRel s' t' :=
  step_sim asz caf daf cieH hcaf hdaf isFde last init hinit s t t' hrel i hwf hstep

/-- CIE: `get_decoded().table` of the entry the parser returns for instruction list `is` -/
theorem table_eq_std_cie (asz : Nat) (caf daf : Int) (h : Fields)
    (hcaf : Fields.getR h "code_alignment_factor" = .ok (.int caf))
    (hdaf : Fields.getR h "data_alignment_factor" = .ok (.int daf))
    (is : List Cfa) (hwf : ∀ i ∈ is, i.wf asz = true) (rows : List Row)
    (hstd : stdTableCie caf daf is = some rows) (off : Nat) (ad : Fields) (ab : Bytes) (fmt : Nat) :
    ∃ d, decodeTable Spec.cfiTables (.cie h (is.map toInstr) off ad ab fmt) = .ok d ∧ All₂ LineRel d.table rows :=
  decode_cie asz caf daf h hcaf hdaf is hwf rows hstd off ad ab fmt

/-- FDE: the CIE's initial rules at `initial_location`, restore to them, remember/restore state -/
theorem table_eq_std_fde (asz : Nat) (caf daf : Int) (hc hf : Fields) (loc : Int)
    (hcaf : Fields.getR hc "code_alignment_factor" = .ok (.int caf))
    (hdaf : Fields.getR hc "data_alignment_factor" = .ok (.int daf))
    (hloc : Fields.getR hf "initial_location" = .ok (.int loc))
    (cis fis : List Cfa) (hwfc : ∀ i ∈ cis, i.wf asz = true) (hwff : ∀ i ∈ fis, i.wf asz = true)
    (rows : List Row) (hstd : stdTableFde caf daf cis loc fis = some rows)
    (off coff : Nat) (ad : Fields) (ab fab : Bytes) (lsda : Option Int) (fmt cfmt : Nat) :
    ∃ d, decodeTable Spec.cfiTables
          (.fde hf (fis.map toInstr) off (.cie hc (cis.map toInstr) coff ad ab cfmt) fab lsda fmt) = .ok d
      ∧ All₂ LineRel d.table rows :=
  decode_fde asz caf daf hc hf loc hcaf hdaf hloc cis fis hwfc hwff rows hstd off coff ad ab fab lsda fmt cfmt

/-- what `LineRel` means for an observer: location, CFA rule and every register column agree -/
theorem lineRel_obs {l : Line} {row : Row} (h : LineRel l row) :
    l.pc = row.loc ∧ l.cfa.toVal = row.rules.cfa.obs ∧
      ∀ r, (regGet l.regs r).map RuleV.toVal = (row.rules.regs.get r).map RegRule.obs := by
  obtain ⟨hpc, hc, hr⟩ := h
  refine ⟨hpc, by rw [hc, cfaV_obs], fun r => ?_⟩
  rw [hr r]
  cases row.rules.regs.get r <;> simp [ruleV_obs]

/-! non-vacuity: DWARF 5 appendix D.6-style program (CIE: def_cfa r7+0, r8 at cfa-4…; FDE advances,
    remembers, restores) has a defined standard table with 4 rows -/
example :
    (stdTableFde 4 (-4) [.def_cfa ⟨1, 7⟩ ⟨1, 0⟩, .offset 8 ⟨1, 1⟩, .same_value ⟨1, 4⟩]
      0x1000 [.advance_loc 1, .def_cfa_offset ⟨1, 4⟩, .remember_state, .advance_loc 1, .offset 6 ⟨1, 2⟩,
              .def_cfa_sf ⟨1, 6⟩ ⟨1, -2⟩, .advance_loc 2, .restore_state, .restore 8]).map List.length = some 4 := by
  decide

/-- the defect the pinned suite cannot see: DW_CFA_def_cfa_sf factors by the DATA alignment factor -/
example : stdTableCie 4 (-8) [.def_cfa_sf ⟨1, 7⟩ ⟨1, -2⟩] = some [⟨0, ⟨.regOff 7 16, []⟩⟩] := by decide

/-- a row whose only content is a CFA expression is a row -/
example : stdTableCie 1 1 [.def_cfa_expression ⟨1, [0x50]⟩] = some [⟨0, ⟨.expr [0x50], []⟩⟩] := by decide

/-- restore under a CIE that gives the register no rule removes the rule -/
example : stdTableFde 1 1 [] 0x10 [.undefined ⟨1, 3⟩, .advance_loc 1, .restore 3]
    = some [⟨0x10, ⟨.unset, [(3, .undefined)]⟩⟩] := by decide

/-! ### reg_order: pyelftools' register column order is the order of first appearance

  `Spec.regOrder is` = first occurrences, in order, of the registers named by the register-rule instructions of
  `is` (`Cfa.ruleReg`: offset*, val_offset*, register, undefined, same_value, expression, val_expression, restore*).
  Not a DWARF notion (the standard's table has one column per register, unordered); it is what
  `DecodedCallFrameTable.reg_order` promises to readelf-style printers.  The theorems hold whenever the table
  decodes at all (no validity hypothesis on the program). -/

/-- CIE -/
theorem reg_order_cie (asz : Nat) (caf daf : Int) (h : Fields)
    (hcaf : Fields.getR h "code_alignment_factor" = .ok (.int caf))
    (hdaf : Fields.getR h "data_alignment_factor" = .ok (.int daf))
    (is : List Cfa) (hwf : ∀ i ∈ is, i.wf asz = true) (off : Nat) (ad : Fields) (ab : Bytes) (fmt : Nat) (d : Decoded)
    (hd : decodeTable Spec.cfiTables (.cie h (is.map toInstr) off ad ab fmt) = .ok d) : d.regOrder = regOrder is :=
  order_cie asz caf daf h hcaf hdaf is hwf off ad ab fmt d hd

/-- FDE: the registers of the CIE's initial instructions come first -/
theorem reg_order_fde (asz : Nat) (caf daf : Int) (hc hf : Fields)
    (hcaf : Fields.getR hc "code_alignment_factor" = .ok (.int caf))
    (hdaf : Fields.getR hc "data_alignment_factor" = .ok (.int daf))
    (cis fis : List Cfa) (hwfc : ∀ i ∈ cis, i.wf asz = true) (hwff : ∀ i ∈ fis, i.wf asz = true)
    (off coff : Nat) (ad : Fields) (ab fab : Bytes) (lsda : Option Int) (fmt cfmt : Nat) (d : Decoded)
    (hd : decodeTable Spec.cfiTables
          (.fde hf (fis.map toInstr) off (.cie hc (cis.map toInstr) coff ad ab cfmt) fab lsda fmt) = .ok d) :
    d.regOrder = regOrder (cis ++ fis) :=
  order_fde asz caf daf hc hf hcaf hdaf cis fis hwfc hwff off coff ad ab fab lsda fmt cfmt d hd

/-- the objects `entries_exact` returns: `reg_order` of entry `i` is the Spec's (`regOrderOf`: a CIE's own
    instructions; an FDE's designated CIE's instructions, then its own) -/
theorem entries_reg_order (sec : Section) (hwf : sec.wf = true) (i : Nat) (se : Spec.Entry)
    (hi : sec.entries[i]? = some se) (d : Decoded)
    (hd : decodeTable Spec.cfiTables (modelOf sec (sec.offsetOf i) se) = .ok d) : d.regOrder = regOrderOf sec se :=
  modelOf_order sec hwf i se hi d hd

/-- `firstOccurrences` keeps every element exactly once (and, by its definition, at its first position) -/
theorem regOrder_spec (is : List Cfa) :
    (regOrder is).Nodup ∧ ∀ r, r ∈ regOrder is ↔ some r ∈ is.map Cfa.ruleReg := by
  refine ⟨firstOccurrences_nodup _, fun r => ?_⟩
  rw [regOrder, mem_firstOccurrences, List.mem_filterMap, List.mem_map]

example : regOrder [.def_cfa ⟨1, 7⟩ ⟨1, 8⟩, .offset 16 ⟨1, 1⟩, .advance_loc 1, .offset 6 ⟨1, 2⟩, .restore 16,
    .same_value ⟨1, 3⟩, .offset_extended ⟨1, 6⟩ ⟨1, 4⟩] = [16, 6, 3] := by decide

/-! ### whole files: `ELFFile(BytesIO(bytes)).get_dwarf_info().CFI_entries()` / `.EH_CFI_entries()`

  The section theorems above are about the bytes handed to `CallFrameInfo`.  `DWARFInfo.CFI_entries()` hands it
  the `.debug_frame` descriptor's stream, size and ADDRESS (`EH_CFI_entries()`: the `.eh_frame` one, with
  `for_eh_frame=True`) and the context structs `DWARFStructs(little_endian, 32, elfclass // 8)`
  (Model/CallFrameFile.lean: `cfiOfDescr`, `cfiEntries`, `ehCfiEntries`, `fileCfiEntries`, `fileEhCfiEntries`).
  Composed with C11 (`view_of_file_z`: C01's header / section-table decoding, name lookup, `Section.data()`,
  gABI and `.zdebug` decompression): for every well-formed container description `d`, ANY byte string carrying it
  (`Spec.Layout d bytes`), whose logical content under `debug_frame_sec` / `eh_frame_sec` is the Spec encoding of a
  well-formed CFI description `sec` with the file's byte order and address size at `sec.address = sh_addr`, the
  accessors on the opened file yield exactly `modelFrom sec 0 sec.entries` — to which `entries_observe`,
  `entries_table`, `entries_reg_order` apply (`file_cfi_table`, `file_eh_cfi_table` spell the table out).
  `*_of_view` are the generic forms: they compose with EVERY view theorem of C11 (relocated content
  `view_of_file_relocated` → `cfi_entries_of_file_relocated`; debug link, supplementary file).
  `StructsOk P le asz`: the DWARF struct factory gives the Spec's bundles for the file's configuration at both
  DWARF formats (TieDwarf: the regenerated factory does — `structsOk_generated`). -/

open PyElf.Model.C11 PyElf.Model.C06 PyElf.Proofs.C11 PyElf.Proofs.CfiFile in
/-- generic: from ANY statement that the view of a byte string is a content (C11) to `CFI_entries()` on it -/
theorem cfi_entries_of_view {P : Params} {fuel : Nat} {loader : Option Loader} {bytes : Bytes} {relocate followLinks : Bool}
    {le : Bool} {asz : Nat} {arch : String} {content : Content} {supv : Option View}
    (hview : dwarfView P fuel loader bytes relocate followLinks
      = .ok (.mk le asz arch (contentView P.names content) supv))
    (hk : "debug_frame_sec" ∈ P.names.map (·.1)) (hDS : StructsOk P le asz)
    (sec : Section) (hwf : sec.wf = true) (heh : sec.eh = false) (hle : sec.le = le) (hasz : sec.asz = asz)
    (hc : content "debug_frame_sec" = some (encodeSection sec, sec.address))
    (hsz : (encodeSection sec).length < 2 ^ 63) :
    fileCfiEntries Spec.cfiTables P fuel loader bytes relocate followLinks = .ok (modelFrom sec 0 sec.entries) :=
  onFile_of_view (cfiEntries Spec.cfiTables P) (.ok (modelFrom sec 0 sec.entries)) hview fun di hv => by
    have := entriesOf_of_view (P := P) hv "debug_frame_sec" hk sec hle hasz hc hDS hwf hsz
    rw [heh] at this; exact this

open PyElf.Model.C11 PyElf.Model.C06 PyElf.Proofs.C11 PyElf.Proofs.CfiFile in
/-- generic, `.eh_frame`: the descriptor's address is the base of the pc-relative pointer encodings -/
theorem eh_cfi_entries_of_view {P : Params} {fuel : Nat} {loader : Option Loader} {bytes : Bytes} {relocate followLinks : Bool}
    {le : Bool} {asz : Nat} {arch : String} {content : Content} {supv : Option View}
    (hview : dwarfView P fuel loader bytes relocate followLinks
      = .ok (.mk le asz arch (contentView P.names content) supv))
    (hk : "eh_frame_sec" ∈ P.names.map (·.1)) (hDS : StructsOk P le asz)
    (sec : Section) (hwf : sec.wf = true) (heh : sec.eh = true) (hle : sec.le = le) (hasz : sec.asz = asz)
    (hc : content "eh_frame_sec" = some (encodeSection sec, sec.address))
    (hsz : (encodeSection sec).length < 2 ^ 63) :
    fileEhCfiEntries Spec.cfiTables P fuel loader bytes relocate followLinks = .ok (modelFrom sec 0 sec.entries) :=
  onFile_of_view (ehCfiEntries Spec.cfiTables P) (.ok (modelFrom sec 0 sec.entries)) hview fun di hv => by
    have := entriesOf_of_view (P := P) hv "eh_frame_sec" hk sec hle hasz hc hDS hwf hsz
    rw [heh] at this; exact this

open PyElf.Model.C11 PyElf.Model.C06 PyElf.Proofs.C11 PyElf.Proofs.CfiFile in
/-- `has_CFI()` / `has_EH_CFI()`: exactly when the content has the section -/
theorem has_cfi_of_view {P : Params} {fuel : Nat} {loader : Option Loader} {bytes : Bytes} {relocate followLinks : Bool}
    {le : Bool} {asz : Nat} {arch : String} {content : Content} {supv : Option View}
    (hview : dwarfView P fuel loader bytes relocate followLinks
      = .ok (.mk le asz arch (contentView P.names content) supv))
    (hk : "debug_frame_sec" ∈ P.names.map (·.1)) (hke : "eh_frame_sec" ∈ P.names.map (·.1)) :
    fileHasCFI P fuel loader bytes relocate followLinks = .ok (content "debug_frame_sec").isSome ∧
    fileHasEHCFI P fuel loader bytes relocate followLinks = .ok (content "eh_frame_sec").isSome :=
  ⟨onFile_of_view (fun di => .ok (hasCFI di)) (.ok _) hview fun di hv => by
      rw [hasCFI, hasCFI_of_view hv "debug_frame_sec" hk],
   onFile_of_view (fun di => .ok (hasEHCFI di)) (.ok _) hview fun di hv => by
      rw [hasEHCFI, hasCFI_of_view hv "eh_frame_sec" hke]⟩

open PyElf.Model.C11 PyElf.Model.C06 PyElf.Proofs.C11 PyElf.Proofs.CfiFile in
/-- on a file without the section the accessors fail as `None.stream` does (AttributeError): callers must ask
    `has_CFI()` / `has_EH_CFI()` first -/
theorem cfi_entries_absent_of_view {P : Params} {fuel : Nat} {loader : Option Loader} {bytes : Bytes}
    {relocate followLinks : Bool} {le : Bool} {asz : Nat} {arch : String} {content : Content} {supv : Option View}
    (T : CfiTables)
    (hview : dwarfView P fuel loader bytes relocate followLinks
      = .ok (.mk le asz arch (contentView P.names content) supv))
    (hk : "debug_frame_sec" ∈ P.names.map (·.1)) (hke : "eh_frame_sec" ∈ P.names.map (·.1)) :
    (content "debug_frame_sec" = none →
      fileCfiEntries T P fuel loader bytes relocate followLinks = .error (.py .attributeError)) ∧
    (content "eh_frame_sec" = none →
      fileEhCfiEntries T P fuel loader bytes relocate followLinks = .error (.py .attributeError)) :=
  ⟨fun hc => onFile_of_view (cfiEntries T P) (.error .attributeError) hview fun _ hv =>
      entriesOf_absent T hv "debug_frame_sec" hk hc false,
   fun hc => onFile_of_view (ehCfiEntries T P) (.error .attributeError) hview fun _ hv =>
      entriesOf_absent T hv "eh_frame_sec" hke hc true⟩

open PyElf.Model.C11 PyElf.Model.C06 PyElf.Proofs.C11 PyElf.Proofs.CfiFile in
/-- WHOLE FILE, `.debug_frame`.  `ELFFile(BytesIO(bytes)).get_dwarf_info(relocate, follow).CFI_entries()` on ANY
    byte string that carries a well-formed container description (`wfZ`: sections stored plainly, gABI-compressed
    or — `.zdebug_frame` in a file with `.zdebug_info` — in the legacy framing, `allowed` unrestricted) whose
    `.debug_frame` content is the Spec encoding of `sec`: exactly the described entries -/
theorem cfi_entries_of_file {P : Params} {deflate : Nat → Bytes → Bytes} (hP : C11.SpecParams P)
    (henv : P.env.enumDecode "ENUM_ELFCOMPRESS_TYPE" 1 = some "ELFCOMPRESS_ZLIB") (hz : ZlibOk P.X deflate)
    (d : Spec.ElfDesc) (bytes : Bytes) (obs : Spec.ElfObs)
    (hwfd : d.wfZ P.env = true) (hl : Spec.Layout d bytes) (ho : d.observe P.env = .ok obs)
    (hph : hasPhantomBytes obs.header = .ok false)
    (fuel : Nat) (loader : Option Loader) (relocate followLinks : Bool) (content : Content) (m : Val)
    (hm : obs.header.getField "e_machine" = .ok m) {allowed : Enc → Prop}
    (hh : HoldsD P.names deflate d obs relocate content allowed)
    (hlink : linkTarget obs.sections loader followLinks = none)
    (hsup : followLinks = false ∨
      ((∃ DS, P.dwarfStructsFor ⟨d.le, 32, d.cls / 8, 2⟩ = some DS) ∧
        content "debug_sup_sec" = none ∧ content "gnu_debugaltlink_sec" = none))
    (hk : "debug_frame_sec" ∈ P.names.map (·.1)) (hDS : StructsOk P d.le (d.cls / 8))
    (sec : Section) (hwf : sec.wf = true) (heh : sec.eh = false) (hle : sec.le = d.le) (hasz : sec.asz = d.cls / 8)
    (hc : content "debug_frame_sec" = some (encodeSection sec, sec.address))
    (hsz : (encodeSection sec).length < 2 ^ 63) :
    fileCfiEntries Spec.cfiTables P (fuel + 1) loader bytes relocate followLinks = .ok (modelFrom sec 0 sec.entries) :=
  cfi_entries_of_view
    (C11.view_of_file_z hP henv hz d bytes obs hwfd hl ho hph fuel loader relocate followLinks content m hm hh hlink hsup)
    hk hDS sec hwf heh hle hasz hc hsz

open PyElf.Model.C11 PyElf.Model.C06 PyElf.Proofs.C11 PyElf.Proofs.CfiFile in
/-- WHOLE FILE, `.eh_frame` (stored plainly or gABI-compressed; the reader never renames it): the section's
    `sh_addr` reaches the pc-relative pointer encodings -/
theorem eh_cfi_entries_of_file {P : Params} {deflate : Nat → Bytes → Bytes} (hP : C11.SpecParams P)
    (henv : P.env.enumDecode "ENUM_ELFCOMPRESS_TYPE" 1 = some "ELFCOMPRESS_ZLIB") (hz : ZlibOk P.X deflate)
    (d : Spec.ElfDesc) (bytes : Bytes) (obs : Spec.ElfObs)
    (hwfd : d.wfZ P.env = true) (hl : Spec.Layout d bytes) (ho : d.observe P.env = .ok obs)
    (hph : hasPhantomBytes obs.header = .ok false)
    (fuel : Nat) (loader : Option Loader) (relocate followLinks : Bool) (content : Content) (m : Val)
    (hm : obs.header.getField "e_machine" = .ok m) {allowed : Enc → Prop}
    (hh : HoldsD P.names deflate d obs relocate content allowed)
    (hlink : linkTarget obs.sections loader followLinks = none)
    (hsup : followLinks = false ∨
      ((∃ DS, P.dwarfStructsFor ⟨d.le, 32, d.cls / 8, 2⟩ = some DS) ∧
        content "debug_sup_sec" = none ∧ content "gnu_debugaltlink_sec" = none))
    (hk : "eh_frame_sec" ∈ P.names.map (·.1)) (hDS : StructsOk P d.le (d.cls / 8))
    (sec : Section) (hwf : sec.wf = true) (heh : sec.eh = true) (hle : sec.le = d.le) (hasz : sec.asz = d.cls / 8)
    (hc : content "eh_frame_sec" = some (encodeSection sec, sec.address))
    (hsz : (encodeSection sec).length < 2 ^ 63) :
    fileEhCfiEntries Spec.cfiTables P (fuel + 1) loader bytes relocate followLinks = .ok (modelFrom sec 0 sec.entries) :=
  eh_cfi_entries_of_view
    (C11.view_of_file_z hP henv hz d bytes obs hwfd hl ho hph fuel loader relocate followLinks content m hm hh hlink hsup)
    hk hDS sec hwf heh hle hasz hc hsz

open PyElf.Model.C11 PyElf.Model.C06 PyElf.Proofs.C11 PyElf.Proofs.CfiFile in
/-- WHOLE FILE: `has_CFI()` / `has_EH_CFI()` say whether the content has the section; without it the accessors
    raise AttributeError -/
theorem has_cfi_of_file {P : Params} {deflate : Nat → Bytes → Bytes} (hP : C11.SpecParams P)
    (henv : P.env.enumDecode "ENUM_ELFCOMPRESS_TYPE" 1 = some "ELFCOMPRESS_ZLIB") (hz : ZlibOk P.X deflate)
    (d : Spec.ElfDesc) (bytes : Bytes) (obs : Spec.ElfObs)
    (hwfd : d.wfZ P.env = true) (hl : Spec.Layout d bytes) (ho : d.observe P.env = .ok obs)
    (hph : hasPhantomBytes obs.header = .ok false)
    (fuel : Nat) (loader : Option Loader) (relocate followLinks : Bool) (content : Content) (m : Val)
    (hm : obs.header.getField "e_machine" = .ok m) {allowed : Enc → Prop}
    (hh : HoldsD P.names deflate d obs relocate content allowed)
    (hlink : linkTarget obs.sections loader followLinks = none)
    (hsup : followLinks = false ∨
      ((∃ DS, P.dwarfStructsFor ⟨d.le, 32, d.cls / 8, 2⟩ = some DS) ∧
        content "debug_sup_sec" = none ∧ content "gnu_debugaltlink_sec" = none))
    (hk : "debug_frame_sec" ∈ P.names.map (·.1)) (hke : "eh_frame_sec" ∈ P.names.map (·.1)) (T : CfiTables) :
    fileHasCFI P (fuel + 1) loader bytes relocate followLinks = .ok (content "debug_frame_sec").isSome ∧
    fileHasEHCFI P (fuel + 1) loader bytes relocate followLinks = .ok (content "eh_frame_sec").isSome ∧
    (content "debug_frame_sec" = none →
      fileCfiEntries T P (fuel + 1) loader bytes relocate followLinks = .error (.py .attributeError)) ∧
    (content "eh_frame_sec" = none →
      fileEhCfiEntries T P (fuel + 1) loader bytes relocate followLinks = .error (.py .attributeError)) := by
  have hv := C11.view_of_file_z hP henv hz d bytes obs hwfd hl ho hph fuel loader relocate followLinks content m hm hh
    hlink hsup
  exact ⟨(has_cfi_of_view hv hk hke).1, (has_cfi_of_view hv hk hke).2,
    (cfi_entries_absent_of_view T hv hk hke).1, (cfi_entries_absent_of_view T hv hk hke).2⟩

open PyElf.Model.C11 PyElf.Model.C06 PyElf.Proofs.C11 PyElf.Proofs.CfiFile in
/-- WHOLE FILE WITH RELOCATIONS (`.rela.debug_frame` / `.rela.eh_frame` of a relocatable object, any container
    encoding of the target section): the entries are those of the RELOCATED content (C11 `view_of_file_relocated`,
    C08's `applyStd`).  `which`: `false` = `.debug_frame` / `CFI_entries()`, `true` = `.eh_frame` / `EH_CFI_entries()`. -/
theorem cfi_entries_of_file_relocated {P : Params} {deflate : Nat → Bytes → Bytes} (hP : C11.SpecParams P)
    (henv : P.env.enumDecode "ENUM_ELFCOMPRESS_TYPE" 1 = some "ELFCOMPRESS_ZLIB") (hz : ZlibOk P.X deflate)
    (d : Spec.ElfDesc) (bytes : Bytes) (obs : Spec.ElfObs)
    (hwfd : d.wfZ P.env = true) (hl : Spec.Layout d bytes) (ho : d.observe P.env = .ok obs)
    (hph : hasPhantomBytes obs.header = .ok false)
    (fuel : Nat) (loader : Option Loader) (relocate followLinks : Bool) (a : Spec.Arch) (cr : ContentR) (m : Val)
    (hm : obs.header.getField "e_machine" = .ok m) (harch : P.machineArchOf m = Proofs.Reloc.archString a)
    (hmips : decide (d.mclass = "EM_MIPS") = decide (a = .mips)) {allowed : Enc → Prop}
    (hh : HoldsRD P.names deflate d obs relocate a cr allowed)
    (hlink : linkTarget obs.sections loader followLinks = none)
    (hsup : followLinks = false ∨
      ((∃ DS, P.dwarfStructsFor ⟨d.le, 32, d.cls / 8, 2⟩ = some DS) ∧
        cr "debug_sup_sec" = none ∧ cr "gnu_debugaltlink_sec" = none))
    (hk : "debug_frame_sec" ∈ P.names.map (·.1)) (hke : "eh_frame_sec" ∈ P.names.map (·.1))
    (hDS : StructsOk P d.le (d.cls / 8))
    (sec : Section) (hwf : sec.wf = true) (hle : sec.le = d.le) (hasz : sec.asz = d.cls / 8)
    (hc : relocatedContent a (Proofs.Reloc.relCfgOf d.cfg) relocate cr (if sec.eh then "eh_frame_sec" else "debug_frame_sec")
      = some (encodeSection sec, sec.address))
    (hsz : (encodeSection sec).length < 2 ^ 63) :
    (if sec.eh then fileEhCfiEntries Spec.cfiTables P (fuel + 1) loader bytes relocate followLinks
     else fileCfiEntries Spec.cfiTables P (fuel + 1) loader bytes relocate followLinks)
      = .ok (modelFrom sec 0 sec.entries) := by
  have hv := C11.view_of_file_relocated hP henv hz d bytes obs hwfd hl ho hph fuel loader relocate followLinks a cr m hm
    harch hmips hh hlink hsup
  cases heh : sec.eh with
  | false =>
    rw [heh] at hc
    simpa using cfi_entries_of_view hv hk hDS sec hwf heh hle hasz (by simpa using hc) hsz
  | true =>
    rw [heh] at hc
    simpa using eh_cfi_entries_of_view hv hke hDS sec hwf heh hle hasz (by simpa using hc) hsz

open PyElf.Model.C11 PyElf.Model.C06 PyElf.Proofs.C11 PyElf.Proofs.CfiFile in
/-- WHOLE FILE, the decoded table: entry `i` of what `CFI_entries()` returns on the file decodes to the table of
    DWARF §6.4 (`stdTableOf`: CIE initial rules, code/data alignment factors, restore, remember/restore state) -/
theorem file_cfi_table {P : Params} {fuel : Nat} {loader : Option Loader} {bytes : Bytes} {relocate followLinks : Bool}
    {sec : Section}
    (hfile : (if sec.eh then fileEhCfiEntries Spec.cfiTables P fuel loader bytes relocate followLinks
              else fileCfiEntries Spec.cfiTables P fuel loader bytes relocate followLinks)
      = .ok (modelFrom sec 0 sec.entries))
    (hwf : sec.wf = true) (i : Nat) (se : Spec.Entry) (hi : sec.entries[i]? = some se)
    (rows : List Row) (hstd : stdTableOf sec (sec.offsetOf i) se = some rows) :
    ∃ es e dt, (if sec.eh then fileEhCfiEntries Spec.cfiTables P fuel loader bytes relocate followLinks
                else fileCfiEntries Spec.cfiTables P fuel loader bytes relocate followLinks) = .ok es ∧
      es.length = sec.entries.length ∧ es[i]? = some e ∧
      decodeTable Spec.cfiTables e = .ok dt ∧ All₂ LineRel dt.table rows ∧ dt.regOrder = regOrderOf sec se := by
  obtain ⟨dt, hdt, hrel⟩ := modelOf_table sec hwf i se hi rows hstd
  exact ⟨_, _, dt, hfile, modelFrom_length sec _ _, modelFrom_get sec i se hi, hdt, hrel, modelOf_order sec hwf i se hi dt hdt⟩

/-- the regenerated DWARF struct factory satisfies `StructsOk` for every file configuration -/
theorem structsOk_generated (X : PyElf.Model.C11.Ext) (le : Bool) (asz : Nat) (h : asz = 4 ∨ asz = 8) :
    PyElf.Proofs.CfiFile.StructsOk
      { env := elfEnv, structsFor := elfStructsFor, machineClassOf := machineClassOf,
        machineArchOf := Reloc.machineArchOf, dwarfStructsFor := dwarfStructsFor,
        names := Gen.c11SectionNames, X := X } le asz := by
  intro fmt hf
  rcases hf with rfl | rfl <;> rcases h with rfl | rfl <;> cases le <;> rfl

/-- the reader's table has both keywords -/
theorem cfi_keywords_generated :
    "debug_frame_sec" ∈ Gen.c11SectionNames.map (·.1) ∧ "eh_frame_sec" ∈ Gen.c11SectionNames.map (·.1) := by
  decide

/-! ### malformed sections: exact behaviour (error class, or where the scan goes on)

  The classes the property names, as the code has them (helper lemmas: Proofs/CfiMalformed.lean — instruction
  level, any struct bundle of the Spec; Proofs/CfiMalformedEntry.lean — entry level via `cie_prologue`: a CIE with
  the header of a description `c`, an ARBITRARY length field `L` and ARBITRARY bytes after the augmentation data, at
  any offset of any data, any cache that misses that offset):

    unknown opcode                       → DWARFError      `bad_unknown_opcode`, `bad_unknown_opcode_cie`
    entry length running past the data   → ELFParseError   `bad_length_past_data`, `bad_length_past_data_cie`
    truncated instruction (the data ends after k bytes of an instruction, ANY 1 ≤ k < its length: inside the first
    or second operand, inside a LEB128, inside a block)
                                         → ELFParseError   `bad_truncated_instr`, `bad_truncated_instr_cie`
                                           (k = 1, data ends after the opcode byte: `bad_truncated_operand`, `…_cie`)
    entry length too short (declared end inside an instruction)
                                         → no error; the instruction is read in full, the scan resumes beyond the
                                           declared end       `bad_length_short`, `bad_length_short_cie`
    CIE pointer out of range             → ELFParseError (`.debug_frame`, at/after the end) / ValueError (`.eh_frame`,
                                           before the start)  `bad_cie_pointer_past_data`, `bad_cie_pointer_before_start`
                                           (`_parse_cie_for_fde`), `bad_cie_pointer_past_data_fde`,
                                           `bad_cie_pointer_before_start_fde` (whole FDE, `_parse_entry_at`)
    CIE pointer to a non-CIE             → accepted: whatever entry is found there becomes `fde.cie`
                                                              `bad_cie_pointer_non_cie` (and `fde_cie_link` above)
    unknown augmentation                 → AssertionError unless it starts with 'z' / 'armcc'; after 'z' the letter
                                           loop breaks at the first unknown letter
                                                              `bad_aug_not_z`, `bad_aug_not_z_cie` (whole CIE),
                                                              `bad_aug_armcc`, `bad_aug_unknown_letter`
    the scan stops at the first entry that fails               `bad_first_entry_stops_scan`, `bad_entry_stops_scan`,
                                                              `good_entry_continues_scan`

  A malformed entry AFTER well-formed ones, at the level of `get_entries()`: section "a malformed entry AFTER
  well-formed ones" below (`bad_*_after_section`).
  Still correspondence-only (harness streams `raw`, `bad`): the instruction classes inside an FDE at entry level (the instruction-level theorems do not depend on
  the entry kind), an FDE designating itself (unbounded recursion: RecursionError / `outOfFuel`). -/

open PyElf.Proofs.CfiBad in
/-- unknown opcode, instruction level: well-formed instructions, then before the declared end a byte outside the
    DW_CFA set (`knownExt`: 0x00–0x16, 0x2d, 0x2e; the three primary opcodes cover 0x40–0xff) -/
theorem bad_unknown_opcode (le : Bool) (fmt asz ver : Nat) (env : Env) (data : Bytes) (endOff : Nat) (is : List Cfa)
    (pos fuel op : Nat) (rest : Bytes)
    (hd : data.drop pos = encInstrs le asz is ++ (byte op ++ rest)) (hw : ∀ i ∈ is, i.wf asz = true)
    (hend : pos + (encInstrs le asz is).length < endOff) (hlt : op < 0x40) (hunk : op ∉ knownExt) :
    parseInstructions Spec.cfiTables (Spec.dwarfStructs ⟨le, fmt, asz, ver⟩) env data endOff (fuel + 1 + is.length) pos
      = .error .dwarfError :=
  parseInstructions_unknown (instrStructs_spec le fmt asz ver) env data endOff is pos fuel op rest hd hw hend hlt hunk

open PyElf.Proofs.CfiBad in
/-- entry length running past the data, instruction level -/
theorem bad_length_past_data (le : Bool) (fmt asz ver : Nat) (env : Env) (data : Bytes) (endOff : Nat) (is : List Cfa)
    (pos fuel : Nat) (hd : data.drop pos = encInstrs le asz is) (hw : ∀ i ∈ is, i.wf asz = true)
    (hend : data.length < endOff) (hpos : pos ≤ data.length) :
    parseInstructions Spec.cfiTables (Spec.dwarfStructs ⟨le, fmt, asz, ver⟩) env data endOff (fuel + 1 + is.length) pos
      = .error .elfParseError :=
  parseInstructions_past_data (instrStructs_spec le fmt asz ver) env data endOff is pos fuel hd hw hend hpos

open PyElf.Proofs.CfiBad in
/-- truncated operand, instruction level: every one of the 22 opcodes that take operands -/
theorem bad_truncated_operand (le : Bool) (fmt asz ver : Nat) (env : Env) (data : Bytes) (endOff : Nat) (is : List Cfa)
    (pos fuel : Nat) (i : Cfa)
    (hd : data.drop pos = encInstrs le asz is ++ byte i.opcode) (hw : ∀ j ∈ is, j.wf asz = true)
    (hwi : i.wf asz = true) (ho : hasOperands i = true) (hasz : 0 < asz) (hop : i.opcode < 256)
    (hend : pos + (encInstrs le asz is).length < endOff) :
    parseInstructions Spec.cfiTables (Spec.dwarfStructs ⟨le, fmt, asz, ver⟩) env data endOff (fuel + 1 + is.length) pos
      = .error .elfParseError :=
  parseInstructions_operand_eof (instrStructs_spec le fmt asz ver) env data endOff is pos fuel i hd hw hwi ho hasz hop hend

open PyElf.Proofs.CfiBad in
/-- truncated instruction, instruction level, in full: after well-formed instructions the data ends `k` bytes into
    instruction `i`, for any `1 ≤ k < length` — all 22 opcodes that take operands, either operand, any LEB128
    padding, blocks of any length -/
theorem bad_truncated_instr (le : Bool) (fmt asz ver : Nat) (env : Env) (data : Bytes) (endOff : Nat) (is : List Cfa)
    (pos fuel : Nat) (i : Cfa) (k : Nat)
    (hd : data.drop pos = encInstrs le asz is ++ (i.enc le asz).take k) (hw : ∀ j ∈ is, j.wf asz = true)
    (hwi : i.wf asz = true) (hk1 : 1 ≤ k) (hk : k < (i.enc le asz).length)
    (hend : pos + (encInstrs le asz is).length < endOff) :
    parseInstructions Spec.cfiTables (Spec.dwarfStructs ⟨le, fmt, asz, ver⟩) env data endOff (fuel + 1 + is.length) pos
      = .error .elfParseError :=
  parseInstructions_cut (instrStructs_spec le fmt asz ver) env data endOff is pos fuel i k hd hw hwi hk1 hk hend

open PyElf.Proofs.CfiBad in
/-- truncated instruction, whole CIE, in full -/
theorem bad_truncated_instr_cie (sec : Section) (env : Env) (data : Bytes) (c : Cie) (L : Nat) (is : List Cfa) (i : Cfa)
    (k : Nat) (off fuel pos : Nat) (cache : Cache)
    (hw : cieHeaderWf sec c = true) (hasz : sec.asz = 4 ∨ sec.asz = 8)
    (hd : data.drop off = encLength sec.le c.fmt64 L ++
      cieHdrBytes sec.le (offSize c.fmt64) (cieIdv sec c) c.version (augString c.aug) c.addrSize c.segSize c.caf c.daf
        c.ra (cieAugPart sec c ++ (encInstrs sec.le sec.asz is ++ (i.enc sec.le sec.asz).take k)))
    (hlen : lenOk c.fmt64 L = true) (hLpos : 0 < L) (hoff : off < 2 ^ 63) (hmiss : cache.get (off : Int) = none)
    (hwi : ∀ j ∈ is, j.wf sec.asz = true) (hi : i.wf sec.asz = true) (hk1 : 1 ≤ k)
    (hk : k < (i.enc sec.le sec.asz).length)
    (hend : cieInstrStart sec c off + (encInstrs sec.le sec.asz is).length < off + L + ilfs c.fmt64) :
    parseEntryAt (cfiOf sec env data) (fuel + 1) off pos cache = .error .elfParseError :=
  cie_instr_cut sec env data c L is i k off fuel pos cache hw hasz hd hlen hLpos hoff hmiss hwi hi hk1 hk hend

open PyElf.Proofs.CfiBad in
/-- entry length too short, instruction level: the scan never stops inside an operand -/
theorem bad_length_short (le : Bool) (fmt asz ver : Nat) (env : Env) (data : Bytes) (endOff : Nat) (is : List Cfa)
    (pos fuel : Nat) (i : Cfa) (rest : Bytes)
    (hd : data.drop pos = encInstrs le asz is ++ (i.enc le asz ++ rest)) (hw : ∀ j ∈ is, j.wf asz = true)
    (hwi : i.wf asz = true) (hstart : pos + (encInstrs le asz is).length < endOff)
    (hend : endOff ≤ pos + (encInstrs le asz is).length + (i.enc le asz).length) :
    parseInstructions Spec.cfiTables (Spec.dwarfStructs ⟨le, fmt, asz, ver⟩) env data endOff (fuel + 2 + is.length) pos
      = .ok (is.map toInstr ++ [toInstr i], pos + (encInstrs le asz is).length + (i.enc le asz).length) :=
  parseInstructions_overrun (instrStructs_spec le fmt asz ver) env data endOff is pos fuel i rest hd hw hwi hstart hend

open PyElf.Proofs.CfiBad in
/-- unknown opcode, whole CIE (`_parse_entry_at`): header of `c`, any length field that puts the declared end after
    the bad byte, at any offset, any cache that misses it -/
theorem bad_unknown_opcode_cie (sec : Section) (env : Env) (data : Bytes) (c : Cie) (L : Nat) (is : List Cfa) (op : Nat)
    (rest : Bytes) (off fuel pos : Nat) (cache : Cache)
    (hw : cieHeaderWf sec c = true) (hasz : sec.asz = 4 ∨ sec.asz = 8)
    (hd : data.drop off = encLength sec.le c.fmt64 L ++
      cieHdrBytes sec.le (offSize c.fmt64) (cieIdv sec c) c.version (augString c.aug) c.addrSize c.segSize c.caf c.daf
        c.ra (cieAugPart sec c ++ (encInstrs sec.le sec.asz is ++ (byte op ++ rest))))
    (hlen : lenOk c.fmt64 L = true) (hLpos : 0 < L) (hoff : off < 2 ^ 63) (hmiss : cache.get (off : Int) = none)
    (hwi : ∀ i ∈ is, i.wf sec.asz = true)
    (hend : cieInstrStart sec c off + (encInstrs sec.le sec.asz is).length < off + L + ilfs c.fmt64)
    (hlt : op < 0x40) (hunk : op ∉ knownExt) :
    parseEntryAt (cfiOf sec env data) (fuel + 1) off pos cache = .error .dwarfError :=
  cie_unknown_opcode sec env data c L is op rest off fuel pos cache hw hasz hd hlen hLpos hoff hmiss hwi hend hlt hunk

open PyElf.Proofs.CfiBad in
/-- entry length running past the section, whole CIE -/
theorem bad_length_past_data_cie (sec : Section) (env : Env) (data : Bytes) (c : Cie) (L : Nat) (is : List Cfa)
    (off fuel pos : Nat) (cache : Cache)
    (hw : cieHeaderWf sec c = true) (hasz : sec.asz = 4 ∨ sec.asz = 8)
    (hd : data.drop off = encLength sec.le c.fmt64 L ++
      cieHdrBytes sec.le (offSize c.fmt64) (cieIdv sec c) c.version (augString c.aug) c.addrSize c.segSize c.caf c.daf
        c.ra (cieAugPart sec c ++ encInstrs sec.le sec.asz is))
    (hlen : lenOk c.fmt64 L = true) (hLpos : 0 < L) (hoff : off < 2 ^ 63) (hmiss : cache.get (off : Int) = none)
    (hwi : ∀ i ∈ is, i.wf sec.asz = true) (hend : data.length < off + L + ilfs c.fmt64) :
    parseEntryAt (cfiOf sec env data) (fuel + 1) off pos cache = .error .elfParseError :=
  cie_length_past_data sec env data c L is off fuel pos cache hw hasz hd hlen hLpos hoff hmiss hwi hend

open PyElf.Proofs.CfiBad in
/-- truncated operand, whole CIE -/
theorem bad_truncated_operand_cie (sec : Section) (env : Env) (data : Bytes) (c : Cie) (L : Nat) (is : List Cfa) (i : Cfa)
    (off fuel pos : Nat) (cache : Cache)
    (hw : cieHeaderWf sec c = true) (hasz : sec.asz = 4 ∨ sec.asz = 8)
    (hd : data.drop off = encLength sec.le c.fmt64 L ++
      cieHdrBytes sec.le (offSize c.fmt64) (cieIdv sec c) c.version (augString c.aug) c.addrSize c.segSize c.caf c.daf
        c.ra (cieAugPart sec c ++ (encInstrs sec.le sec.asz is ++ byte i.opcode)))
    (hlen : lenOk c.fmt64 L = true) (hLpos : 0 < L) (hoff : off < 2 ^ 63) (hmiss : cache.get (off : Int) = none)
    (hwi : ∀ j ∈ is, j.wf sec.asz = true) (hi : i.wf sec.asz = true) (ho : hasOperands i = true) (hop : i.opcode < 256)
    (hend : cieInstrStart sec c off + (encInstrs sec.le sec.asz is).length < off + L + ilfs c.fmt64) :
    parseEntryAt (cfiOf sec env data) (fuel + 1) off pos cache = .error .elfParseError :=
  cie_operand_cut sec env data c L is i off fuel pos cache hw hasz hd hlen hLpos hoff hmiss hwi hi ho hop hend

open PyElf.Proofs.CfiBad in
/-- entry length too short, whole CIE: the CIE object carries the straddling instruction, the stream is left beyond
    the declared end (where `_parse_entries` takes the next entry from) -/
theorem bad_length_short_cie (sec : Section) (env : Env) (data : Bytes) (c : Cie) (L : Nat) (is : List Cfa) (i : Cfa)
    (rest : Bytes) (off fuel pos : Nat) (cache : Cache)
    (hw : cieHeaderWf sec c = true) (hasz : sec.asz = 4 ∨ sec.asz = 8)
    (hd : data.drop off = encLength sec.le c.fmt64 L ++
      cieHdrBytes sec.le (offSize c.fmt64) (cieIdv sec c) c.version (augString c.aug) c.addrSize c.segSize c.caf c.daf
        c.ra (cieAugPart sec c ++ (encInstrs sec.le sec.asz is ++ (i.enc sec.le sec.asz ++ rest))))
    (hlen : lenOk c.fmt64 L = true) (hLpos : 0 < L) (hoff : off < 2 ^ 63) (hmiss : cache.get (off : Int) = none)
    (hwi : ∀ j ∈ is, j.wf sec.asz = true) (hi : i.wf sec.asz = true)
    (hstart : cieInstrStart sec c off + (encInstrs sec.le sec.asz is).length < off + L + ilfs c.fmt64)
    (hend : off + L + ilfs c.fmt64
      ≤ cieInstrStart sec c off + (encInstrs sec.le sec.asz is).length + (i.enc sec.le sec.asz).length) :
    parseEntryAt (cfiOf sec env data) (fuel + 1) off pos cache
      = .ok (cieObj sec c L off (is.map toInstr ++ [toInstr i]),
             cieInstrStart sec c off + (encInstrs sec.le sec.asz is).length + (i.enc sec.le sec.asz).length,
             ((off : Int), cieObj sec c L off (is.map toInstr ++ [toInstr i])) :: cache) :=
  cie_length_short sec env data c L is i rest off fuel pos cache hw hasz hd hlen hLpos hoff hmiss hwi hi hstart hend

/-- the section scan stops at the first entry that fails: `get_entries()` raises what `_parse_entry_at` raised -/
theorem bad_first_entry_stops_scan (C : Cfi) (size : Nat) (e : Err) (hsize : 0 < size)
    (h : parseEntryAt C (size + 2) ((0 : Nat) : Int) 0 [] = .error e) : parseEntries C size = .error e :=
  PyElf.Proofs.CfiBad.parseEntries_first_error C size e hsize h

/-- … anywhere in the scan (`_parse_entries`): an entry that parses is followed by the scan from where it left the
    stream; the first entry that fails ends `get_entries()` with its error -/
theorem bad_entry_stops_scan (C : Cfi) (size depth fuel off : Nat) (cache : Cache) (e : Err) (hoff : off < size)
    (h : parseEntryAt C depth (off : Int) off cache = .error e) :
    parseEntriesLoop C size depth (fuel + 1) off cache = .error e :=
  PyElf.Proofs.CfiBad.parseEntriesLoop_error C size depth fuel off cache e hoff h

theorem good_entry_continues_scan (C : Cfi) (size depth fuel off : Nat) (cache cache' : Cache) (en : Model.Entry) (p : Nat)
    (hoff : off < size) (h : parseEntryAt C depth (off : Int) off cache = .ok (en, p, cache')) :
    parseEntriesLoop C size depth (fuel + 1) off cache
      = (parseEntriesLoop C size depth fuel p cache').map (en :: ·) :=
  PyElf.Proofs.CfiBad.parseEntriesLoop_ok C size depth fuel off cache cache' en p hoff h

/-- CIE pointer out of range, `.debug_frame`: at or beyond the end of the data (also ≥ 2^63) -/
theorem bad_cie_pointer_past_data (C : Cfi) (S32 : DwarfStructs) (le : Bool) (fuel fdeOff fmt pos : Nat) (header : Fields)
    (cache : Cache) (cp : Nat) (heh : C.eh = false) (hS : C.structs 32 = .ok S32)
    (hu32 : S32.the_Dwarf_uint32 = .uint 4 le)
    (hptr : Fields.getR header "CIE_pointer" = .ok (.int cp)) (hpast : C.data.length ≤ cp)
    (hmiss : cache.get (cp : Int) = none) :
    parseCieForFde C (parseEntryAt C (fuel + 1)) fdeOff header fmt pos cache = .error .elfParseError :=
  PyElf.Proofs.CfiBad.ciePtr_past_data C S32 le fuel fdeOff fmt pos header cache cp heh hS hu32 hptr hpast hmiss

/-- CIE pointer out of range, `.eh_frame`: a distance back that reaches before the start of the section -/
theorem bad_cie_pointer_before_start (C : Cfi) (fuel fdeOff fmt pos : Nat) (header : Fields) (cache : Cache) (cp : Nat)
    (heh : C.eh = true) (hptr : Fields.getR header "CIE_pointer" = .ok (.int cp)) (hneg : fdeOff + fmt / 8 < cp)
    (hmiss : cache.get ((fdeOff : Int) + (fmt / 8 : Nat) - cp) = none) :
    parseCieForFde C (parseEntryAt C (fuel + 1)) fdeOff header fmt pos cache = .error .valueError :=
  PyElf.Proofs.CfiBad.ciePtr_before_start C fuel fdeOff fmt pos header cache cp heh hptr hneg hmiss

/-- CIE pointer to a non-CIE: the entry found at the designated offset (here: cached, of ANY kind that has a
    header — e.g. an FDE) is taken as the CIE; no check of its kind -/
theorem bad_cie_pointer_non_cie (C : Cfi) (fuel fdeOff fmt pos : Nat) (header : Fields) (cache : Cache) (cp : Int)
    (e : Model.Entry) (h : Fields) (len il : Nat)
    (hptr : Fields.getR header "CIE_pointer" = .ok (.int cp))
    (hc : cache.get (if C.eh then (fdeOff : Int) + (fmt / 8 : Nat) - cp else cp) = some e)
    (hh : e.header = .ok h) (hl : Fields.getR h "length" = .ok (.int len)) (hi : e.ilfs = .ok il) :
    parseCieForFde C (parseEntryAt C (fuel + 1)) fdeOff header fmt pos cache = .ok (e, cache) :=
  PyElf.Proofs.CfiBad.ciePtr_any_entry C fuel fdeOff fmt pos header cache cp e h len il hptr hc hh hl hi

/-- CIE pointer out of range, whole `.debug_frame` FDE (`_parse_entry_at`): header well formed, pointer `k` (not the
    CIE id) at or beyond the end of the data -/
theorem bad_cie_pointer_past_data_fde (sec : Section) (env : Env) (data : Bytes) (heh : sec.eh = false) (fmt64 : Bool)
    (L k : Nat) (loc range : Int) (tail : Bytes) (off fuel pos : Nat) (cache : Cache)
    (hd : data.drop off = encLength sec.le fmt64 L ++ (encNat sec.le (offSize fmt64) k ++
      (encPtr sec.le sec.asz 0 loc ++ (encPtr sec.le sec.asz 0 range ++ tail))))
    (hlen : lenOk fmt64 L = true) (hLpos : 0 < L) (hk : k < 256 ^ offSize fmt64 - 1)
    (hfl : ptrFits sec.asz 0 loc = true) (hfr : ptrFits sec.asz 0 range = true)
    (hoff : off < 2 ^ 63) (hmiss : cache.get (off : Int) = none)
    (hpast : data.length ≤ k) (hmissk : cache.get (k : Int) = none) :
    parseEntryAt (cfiOf sec env data) (fuel + 2) off pos cache = .error .elfParseError :=
  PyElf.Proofs.CfiBad.fde_ptr_past_data sec env data heh fmt64 L k loc range tail off fuel pos cache hd hlen hLpos hk hfl
    hfr hoff hmiss hpast hmissk

/-- CIE pointer out of range, whole `.eh_frame` FDE: distance back `cp ≠ 0` larger than the offset of the pointer
    field (whatever follows the pointer) -/
theorem bad_cie_pointer_before_start_fde (sec : Section) (env : Env) (data : Bytes) (heh : sec.eh = true) (fmt64 : Bool)
    (L cp : Nat) (rest : Bytes) (off fuel pos : Nat) (cache : Cache)
    (hd : data.drop off = encLength sec.le fmt64 L ++ (encNat sec.le (offSize fmt64) cp ++ rest))
    (hlen : lenOk fmt64 L = true) (hLpos : 0 < L) (hcp : cp < 256 ^ offSize fmt64) (hcp0 : cp ≠ 0)
    (hoff : off < 2 ^ 63) (hmiss : cache.get (off : Int) = none) (hneg : off + offSize fmt64 < cp)
    (hmissk : cache.get ((off : Int) + (offSize fmt64 : Nat) - cp) = none) :
    parseEntryAt (cfiOf sec env data) (fuel + 2) off pos cache = .error .valueError :=
  PyElf.Proofs.CfiBad.fde_ptr_before_start sec env data heh fmt64 L cp rest off fuel pos cache hd hlen hLpos hcp hcp0 hoff
    hmiss hneg hmissk

/-- unknown augmentation, whole CIE of either section kind (`_parse_entry_at`): any header whose augmentation
    string is non-empty and starts neither with 'z' nor with 'armcc' → AssertionError -/
theorem bad_aug_not_z_cie (sec : Section) (env : Env) (data : Bytes) (fmt64 : Bool) (L ver a sg : Nat) (augB : Bytes)
    (caf : ULeb) (daf : SLeb) (ra : ULeb) (tail : Bytes) (off fuel pos : Nat) (cache : Cache)
    (hd : data.drop off = encLength sec.le fmt64 L ++
      cieHdrBytes sec.le (offSize fmt64) (if sec.eh then 0 else 256 ^ offSize fmt64 - 1) ver augB a sg caf daf ra tail)
    (hlen : lenOk fmt64 L = true) (hLpos : 0 < L) (hoff : off < 2 ^ 63) (hmiss : cache.get (off : Int) = none)
    (hver : ver = 1 ∨ ver = 3 ∨ ver = 4) (haug0 : ∀ b ∈ augB, b ≠ 0)
    (ha : 4 ≤ ver → a < 256) (hs : 4 ≤ ver → sg < 256) (hcaf : caf.wf = true) (hdaf : daf.wf = true)
    (hra : if ver = 1 then ra.v < 256 else ra.wf = true)
    (hne : augB ≠ []) (harm : ([0x61, 0x72, 0x6d, 0x63, 0x63] : Bytes).isPrefixOf augB = false)
    (hz : ([0x7a] : Bytes).isPrefixOf augB = false) :
    parseEntryAt (cfiOf sec env data) (fuel + 1) off pos cache = .error .assertion :=
  PyElf.Proofs.CfiBad.cie_bad_aug sec env data fmt64 L ver a sg augB caf daf ra tail off fuel pos cache hd hlen hLpos hoff
    hmiss hver haug0 ha hs hcaf hdaf hra hne harm hz

/-- unknown augmentation: not 'z…', not 'armcc…' → AssertionError -/
theorem bad_aug_not_z (C : Cfi) (S : DwarfStructs) (header : Fields) (pos : Nat) (augB : Bytes)
    (ha : Fields.get? header "augmentation" = some (.bytes augB)) (hne : augB ≠ [])
    (harm : ([0x61, 0x72, 0x6d, 0x63, 0x63] : Bytes).isPrefixOf augB = false)
    (hz : ([0x7a] : Bytes).isPrefixOf augB = false) :
    parseCieAugmentation C S header pos = .error .assertion :=
  PyElf.Proofs.CfiBad.aug_not_z C S header pos augB ha hne harm hz

/-- 'armcc…' is skipped: no augmentation data -/
theorem bad_aug_armcc (C : Cfi) (S : DwarfStructs) (header : Fields) (pos : Nat) (augB : Bytes)
    (ha : Fields.get? header "augmentation" = some (.bytes augB))
    (harm : ([0x61, 0x72, 0x6d, 0x63, 0x63] : Bytes).isPrefixOf augB = true) :
    parseCieAugmentation C S header pos = .ok ([], [], pos) :=
  PyElf.Proofs.CfiBad.aug_armcc C S header pos augB ha harm

/-- unknown letter after 'z': the letters from the first unknown one on are ignored -/
theorem bad_aug_unknown_letter (T : CfiTables) (S : DwarfStructs) (b : UInt8) (pre rest : Bytes)
    (hb : b ≠ 0x7a ∧ b ≠ 0x4c ∧ b ≠ 0x52 ∧ b ≠ 0x53 ∧ b ≠ 0x50) (fields : List (String × Con)) (d : Fields) :
    augFieldsLoop T S (pre ++ b :: rest) fields d = augFieldsLoop T S pre fields d :=
  PyElf.Proofs.CfiBad.aug_unknown_letter T S b rest hb pre fields d

/-! non-vacuity of the malformed-class hypotheses: the version-4 CIE of `exSec` alone in a `.debug_frame`, with
    (1) an unknown opcode 0x3f appended inside its declared length, (2) its length field claiming 4 bytes more than
    the data holds, (3) the data ending after the opcode byte of DW_CFA_def_cfa_offset, (4) a length field that ends
    inside its last instruction (DW_CFA_offset r16, 1) with another entry's bytes following -/

private def badCfg : Section := { eh := false, le := true, asz := 8, address := 0, entries := [] }
private def badCie : Cie :=
  { fmt64 := false, version := 4, aug := none, augLenN := 1, addrSize := 8, segSize := 0,
    caf := ⟨1, 1⟩, daf := ⟨1, -8⟩, ra := ⟨1, 16⟩, instrs := [] }
private def badIs : List Cfa := [.def_cfa ⟨1, 7⟩ ⟨1, 8⟩]
private def badData (L : Nat) (tail : Bytes) : Bytes :=
  encLength true false L ++ cieHdrBytes true 4 (cieIdv badCfg badCie) 4 [] 8 0 ⟨1, 1⟩ ⟨1, -8⟩ ⟨1, 16⟩ tail

example (env : Env) :
    parseEntries (cfiOf badCfg env (badData 16 (encInstrs true 8 badIs ++ (byte 0x3f ++ [0, 0]))))
      (badData 16 (encInstrs true 8 badIs ++ (byte 0x3f ++ [0, 0]))).length = .error .dwarfError :=
  bad_first_entry_stops_scan _ _ _ (by decide +kernel)
    (bad_unknown_opcode_cie badCfg env _ badCie 16 badIs 0x3f [0, 0] 0 _ 0 [] (by decide) (Or.inr rfl) (by decide +kernel)
      (by decide) (by decide) (by decide) rfl (by decide) (by decide +kernel) (by decide) (by decide))

example (env : Env) :
    parseEntries (cfiOf badCfg env (badData 17 (encInstrs true 8 badIs))) (badData 17 (encInstrs true 8 badIs)).length
      = .error .elfParseError :=
  bad_first_entry_stops_scan _ _ _ (by decide +kernel)
    (bad_length_past_data_cie badCfg env _ badCie 17 badIs 0 _ 0 [] (by decide) (Or.inr rfl) (by decide +kernel)
      (by decide) (by decide) (by decide) rfl (by decide) (by decide +kernel))

example (env : Env) :
    parseEntries (cfiOf badCfg env (badData 15 (encInstrs true 8 badIs ++ byte (Cfa.opcode (.def_cfa_offset ⟨1, 16⟩)))))
      (badData 15 (encInstrs true 8 badIs ++ byte (Cfa.opcode (.def_cfa_offset ⟨1, 16⟩)))).length = .error .elfParseError :=
  bad_first_entry_stops_scan _ _ _ (by decide +kernel)
    (bad_truncated_operand_cie badCfg env _ badCie 15 badIs (.def_cfa_offset ⟨1, 16⟩) 0 _ 0 [] (by decide) (Or.inr rfl)
      (by decide +kernel) (by decide) (by decide) (by decide) rfl (by decide) (by decide) (by decide) (by decide)
      (by decide +kernel))

/-- (3') the data ends inside the block of DW_CFA_val_expression r3, [0x77, 0x08, 0x22] (4 of its 6 bytes present) -/
example (env : Env) :
    parseEntries (cfiOf badCfg env (badData 20 (encInstrs true 8 badIs ++ (Cfa.enc true 8 (.val_expression ⟨1, 3⟩ ⟨1, [0x77, 0x08, 0x22]⟩)).take 4)))
      (badData 20 (encInstrs true 8 badIs ++ (Cfa.enc true 8 (.val_expression ⟨1, 3⟩ ⟨1, [0x77, 0x08, 0x22]⟩)).take 4)).length
      = .error .elfParseError :=
  bad_first_entry_stops_scan _ _ _ (by decide +kernel)
    (bad_truncated_instr_cie badCfg env _ badCie 20 badIs (.val_expression ⟨1, 3⟩ ⟨1, [0x77, 0x08, 0x22]⟩) 4 0 _ 0 []
      (by decide) (Or.inr rfl) (by decide +kernel) (by decide) (by decide) (by decide) rfl (by decide) (by decide)
      (by decide) (by decide) (by decide +kernel))

open PyElf.Proofs.CfiBad in
example (env : Env) :
    parseEntryAt (cfiOf badCfg env (badData 15 (encInstrs true 8 badIs ++ (Cfa.enc true 8 (.offset 16 ⟨1, 1⟩) ++ [9, 9])))) 1
        ((0 : Nat) : Int) 0 []
      = .ok (cieObj badCfg badCie 15 0 (badIs.map toInstr ++ [toInstr (.offset 16 ⟨1, 1⟩)]), 20,
             [(((0 : Nat) : Int), cieObj badCfg badCie 15 0 (badIs.map toInstr ++ [toInstr (.offset 16 ⟨1, 1⟩)]))]) :=
  bad_length_short_cie badCfg env _ badCie 15 badIs (.offset 16 ⟨1, 1⟩) [9, 9] 0 0 0 [] (by decide) (Or.inr rfl)
    (by decide +kernel) (by decide) (by decide) (by decide) rfl (by decide) (by decide) (by decide +kernel)
    (by decide +kernel)

/-- (5) a `.debug_frame` FDE alone whose CIE pointer is 0x1000; (6) an `.eh_frame` FDE at offset 0 whose distance
    back is 0x20; (7) a version-1 CIE with augmentation string "eh" -/
example (env : Env) :
    parseEntries (cfiOf badCfg env (encLength true false 20 ++ (encNat true 4 0x1000 ++ (encPtr true 8 0 0x401000 ++ (encPtr true 8 0 0x20 ++ [])))))
      24 = .error .elfParseError :=
  bad_first_entry_stops_scan _ _ _ (by decide)
    (bad_cie_pointer_past_data_fde badCfg env _ rfl false 20 0x1000 0x401000 0x20 [] 0 _ 0 [] (by decide +kernel) (by decide)
      (by decide) (by decide) (by decide) (by decide) (by decide) rfl (by decide +kernel) rfl)

example (env : Env) :
    parseEntries (cfiOf { badCfg with eh := true } env (encLength true false 20 ++ (encNat true 4 0x20 ++ List.replicate 16 0)))
      24 = .error .valueError :=
  bad_first_entry_stops_scan _ _ _ (by decide)
    (bad_cie_pointer_before_start_fde { badCfg with eh := true } env _ rfl false 20 0x20 (List.replicate 16 0) 0 _ 0 []
      (by decide +kernel) (by decide) (by decide) (by decide) (by decide) (by decide) rfl (by decide) rfl)

example (env : Env) :
    parseEntries (cfiOf { badCfg with eh := true } env
        (encLength true false 11 ++ cieHdrBytes true 4 0 1 [0x65, 0x68] 0 0 ⟨1, 1⟩ ⟨1, -8⟩ ⟨1, 16⟩ [0]))
      15 = .error .assertion :=
  bad_first_entry_stops_scan _ _ _ (by decide)
    (bad_aug_not_z_cie { badCfg with eh := true } env _ false 11 1 0 0 [0x65, 0x68] ⟨1, 1⟩ ⟨1, -8⟩ ⟨1, 16⟩ [0] 0 _ 0 []
      (by decide +kernel) (by decide) (by decide) (by decide) rfl (Or.inl rfl) (by decide) (by decide) (by decide)
      (by decide) (by decide) (by decide) (by decide) (by decide) (by decide))

example : (0x58 : UInt8) ≠ 0x7a ∧ (0x58 : UInt8) ≠ 0x4c ∧ (0x58 : UInt8) ≠ 0x52 ∧ (0x58 : UInt8) ≠ 0x53 ∧ (0x58 : UInt8) ≠ 0x50 := by
  decide
example : ([0x61, 0x72, 0x6d, 0x63, 0x63] : Bytes).isPrefixOf [0x65, 0x68] = false ∧ ([0x7a] : Bytes).isPrefixOf [0x65, 0x68] = false := by
  decide

/-! ### a malformed entry AFTER well-formed ones: `get_entries()` on the whole byte string

  Proofs/CfiTail.lean carries the entry theorems over to data that continues after the encoded section
  (`encodeSection sec ++ junk`).  `entries_exact_prefix`: the scan returns the section's entries and goes on with
  whatever follows; `bad_entry_after_section`: if what follows is an entry that fails with `e`, `get_entries()` raises
  `e`; the classes: `bad_*_after_section`. -/

open PyElf.Proofs.CfiTail in
/-- the scan over a well-formed section followed by ANY bytes: exactly the section's entries, then the scan of the
    rest (with a cache that holds entries of the section only) -/
theorem entries_exact_prefix (sec : Section) (env : Env) (hwf : sec.wf = true) (junk : Bytes)
    (hsz : (encodeSection sec ++ junk).length < 2 ^ 63) :
    ∃ cache' fuel, CacheInv sec cache' ∧
      parseEntries (cfiOf sec env (encodeSection sec ++ junk)) (encodeSection sec ++ junk).length
        = (parseEntriesLoop (cfiOf sec env (encodeSection sec ++ junk)) (encodeSection sec ++ junk).length
            ((encodeSection sec ++ junk).length + 2) (fuel + 1) (encodeSection sec).length cache').map
            (modelFrom sec 0 sec.entries ++ ·) :=
  parseEntries_prefix sec env hwf junk hsz

open PyElf.Proofs.CfiTail in
/-- a failing entry after a well-formed section ends `get_entries()` with its error -/
theorem bad_entry_after_section (sec : Section) (env : Env) (hwf : sec.wf = true) (junk : Bytes)
    (hsz : (encodeSection sec ++ junk).length < 2 ^ 63) (hj : junk ≠ []) (e : Err)
    (hbad : ∀ (cache : Cache), CacheInv sec cache →
      parseEntryAt (cfiOf sec env (encodeSection sec ++ junk)) ((encodeSection sec ++ junk).length + 2)
        ((encodeSection sec).length : Int) (encodeSection sec).length cache = .error e) :
    parseEntries (cfiOf sec env (encodeSection sec ++ junk)) (encodeSection sec ++ junk).length = .error e :=
  parseEntries_then_error sec env hwf junk hsz hj e hbad

open PyElf.Proofs.CfiTail PyElf.Proofs.CfiBad in
/-- unknown opcode in a CIE that follows a well-formed section: `get_entries()` raises DWARFError -/
theorem bad_unknown_opcode_after_section (sec : Section) (env : Env) (hwf : sec.wf = true) (junk : Bytes)
    (hsz : (encodeSection sec ++ junk).length < 2 ^ 63) (c : Cie) (L : Nat) (is : List Cfa) (op : Nat) (rest : Bytes)
    (hw : cieHeaderWf sec c = true)
    (hj : junk = encLength sec.le c.fmt64 L ++
      cieHdrBytes sec.le (offSize c.fmt64) (cieIdv sec c) c.version (augString c.aug) c.addrSize c.segSize c.caf c.daf
        c.ra (cieAugPart sec c ++ (encInstrs sec.le sec.asz is ++ (byte op ++ rest))))
    (hlen : lenOk c.fmt64 L = true) (hLpos : 0 < L) (hwi : ∀ i ∈ is, i.wf sec.asz = true)
    (hend : cieInstrStart sec c (encodeSection sec).length + (encInstrs sec.le sec.asz is).length
      < (encodeSection sec).length + L + ilfs c.fmt64)
    (hlt : op < 0x40) (hunk : op ∉ knownExt) :
    parseEntries (cfiOf sec env (encodeSection sec ++ junk)) (encodeSection sec ++ junk).length = .error .dwarfError :=
  tail_unknown_opcode sec env hwf junk hsz c L is op rest hw hj hlen hLpos hwi hend hlt hunk

open PyElf.Proofs.CfiTail PyElf.Proofs.CfiBad in
/-- the data ends inside an instruction of a CIE that follows a well-formed section: ELFParseError -/
theorem bad_truncated_instr_after_section (sec : Section) (env : Env) (hwf : sec.wf = true) (junk : Bytes)
    (hsz : (encodeSection sec ++ junk).length < 2 ^ 63) (c : Cie) (L : Nat) (is : List Cfa) (i : Cfa) (k : Nat)
    (hw : cieHeaderWf sec c = true)
    (hj : junk = encLength sec.le c.fmt64 L ++
      cieHdrBytes sec.le (offSize c.fmt64) (cieIdv sec c) c.version (augString c.aug) c.addrSize c.segSize c.caf c.daf
        c.ra (cieAugPart sec c ++ (encInstrs sec.le sec.asz is ++ (i.enc sec.le sec.asz).take k)))
    (hlen : lenOk c.fmt64 L = true) (hLpos : 0 < L) (hwi : ∀ j ∈ is, j.wf sec.asz = true) (hi : i.wf sec.asz = true)
    (hk1 : 1 ≤ k) (hk : k < (i.enc sec.le sec.asz).length)
    (hend : cieInstrStart sec c (encodeSection sec).length + (encInstrs sec.le sec.asz is).length
      < (encodeSection sec).length + L + ilfs c.fmt64) :
    parseEntries (cfiOf sec env (encodeSection sec ++ junk)) (encodeSection sec ++ junk).length = .error .elfParseError :=
  tail_instr_cut sec env hwf junk hsz c L is i k hw hj hlen hLpos hwi hi hk1 hk hend

open PyElf.Proofs.CfiTail PyElf.Proofs.CfiBad in
/-- the last CIE's length field claims more than the data holds: ELFParseError -/
theorem bad_length_past_data_after_section (sec : Section) (env : Env) (hwf : sec.wf = true) (junk : Bytes)
    (hsz : (encodeSection sec ++ junk).length < 2 ^ 63) (c : Cie) (L : Nat) (is : List Cfa)
    (hw : cieHeaderWf sec c = true)
    (hj : junk = encLength sec.le c.fmt64 L ++
      cieHdrBytes sec.le (offSize c.fmt64) (cieIdv sec c) c.version (augString c.aug) c.addrSize c.segSize c.caf c.daf
        c.ra (cieAugPart sec c ++ encInstrs sec.le sec.asz is))
    (hlen : lenOk c.fmt64 L = true) (hLpos : 0 < L) (hwi : ∀ j ∈ is, j.wf sec.asz = true)
    (hend : (encodeSection sec ++ junk).length < (encodeSection sec).length + L + ilfs c.fmt64) :
    parseEntries (cfiOf sec env (encodeSection sec ++ junk)) (encodeSection sec ++ junk).length = .error .elfParseError :=
  tail_length_past_data sec env hwf junk hsz c L is hw hj hlen hLpos hwi hend

open PyElf.Proofs.CfiTail PyElf.Proofs.CfiBad in
/-- a CIE with an augmentation string outside the 'z' / 'armcc' families after a well-formed section: AssertionError -/
theorem bad_aug_not_z_after_section (sec : Section) (env : Env) (hwf : sec.wf = true) (junk : Bytes)
    (hsz : (encodeSection sec ++ junk).length < 2 ^ 63) (fmt64 : Bool) (L ver a sg : Nat) (augB : Bytes) (caf : ULeb)
    (daf : SLeb) (ra : ULeb) (tail : Bytes)
    (hj : junk = encLength sec.le fmt64 L ++
      cieHdrBytes sec.le (offSize fmt64) (if sec.eh then 0 else 256 ^ offSize fmt64 - 1) ver augB a sg caf daf ra tail)
    (hlen : lenOk fmt64 L = true) (hLpos : 0 < L)
    (hver : ver = 1 ∨ ver = 3 ∨ ver = 4) (haug0 : ∀ b ∈ augB, b ≠ 0)
    (ha : 4 ≤ ver → a < 256) (hs : 4 ≤ ver → sg < 256) (hcaf : caf.wf = true) (hdaf : daf.wf = true)
    (hra : if ver = 1 then ra.v < 256 else ra.wf = true)
    (hne : augB ≠ []) (harm : ([0x61, 0x72, 0x6d, 0x63, 0x63] : Bytes).isPrefixOf augB = false)
    (hz : ([0x7a] : Bytes).isPrefixOf augB = false) :
    parseEntries (cfiOf sec env (encodeSection sec ++ junk)) (encodeSection sec ++ junk).length = .error .assertion :=
  tail_bad_aug sec env hwf junk hsz fmt64 L ver a sg augB caf daf ra tail hj hlen hLpos hver haug0 ha hs hcaf hdaf hra hne
    harm hz

open PyElf.Proofs.CfiTail PyElf.Proofs.CfiBad in
/-- a `.debug_frame` FDE after a well-formed section whose CIE pointer designates an offset at or beyond the end of
    the data: ELFParseError -/
theorem bad_cie_pointer_past_data_after_section (sec : Section) (env : Env) (hwf : sec.wf = true) (junk : Bytes)
    (hsz : (encodeSection sec ++ junk).length < 2 ^ 63) (heh : sec.eh = false) (fmt64 : Bool) (L k : Nat)
    (loc range : Int) (tail : Bytes)
    (hj : junk = encLength sec.le fmt64 L ++ (encNat sec.le (offSize fmt64) k ++
      (encPtr sec.le sec.asz 0 loc ++ (encPtr sec.le sec.asz 0 range ++ tail))))
    (hlen : lenOk fmt64 L = true) (hLpos : 0 < L) (hk : k < 256 ^ offSize fmt64 - 1)
    (hfl : ptrFits sec.asz 0 loc = true) (hfr : ptrFits sec.asz 0 range = true)
    (hpast : (encodeSection sec ++ junk).length ≤ k) :
    parseEntries (cfiOf sec env (encodeSection sec ++ junk)) (encodeSection sec ++ junk).length = .error .elfParseError :=
  tail_fde_ptr_past_data sec env hwf junk hsz heh fmt64 L k loc range tail hj hlen hLpos hk hfl hfr hpast

open PyElf.Proofs.CfiTail PyElf.Proofs.CfiBad in
/-- an `.eh_frame` FDE after a well-formed section whose distance back reaches before the start: ValueError -/
theorem bad_cie_pointer_before_start_after_section (sec : Section) (env : Env) (hwf : sec.wf = true) (junk : Bytes)
    (hsz : (encodeSection sec ++ junk).length < 2 ^ 63) (heh : sec.eh = true) (fmt64 : Bool) (L cp : Nat) (rest : Bytes)
    (hj : junk = encLength sec.le fmt64 L ++ (encNat sec.le (offSize fmt64) cp ++ rest))
    (hlen : lenOk fmt64 L = true) (hLpos : 0 < L) (hcp : cp < 256 ^ offSize fmt64) (hcp0 : cp ≠ 0)
    (hneg : (encodeSection sec).length + offSize fmt64 < cp) :
    parseEntries (cfiOf sec env (encodeSection sec ++ junk)) (encodeSection sec ++ junk).length = .error .valueError :=
  tail_fde_ptr_before_start sec env hwf junk hsz heh fmt64 L cp rest hj hlen hLpos hcp hcp0 hneg

/-- non-vacuity: `exSec` (FDE before its CIE) followed by the CIE with the unknown opcode 0x3f; `exEh` followed by an
    FDE whose distance back is 0x1000 -/
example (env : Env) :
    parseEntries (cfiOf exSec env (encodeSection exSec ++ badData 16 (encInstrs true 8 badIs ++ (byte 0x3f ++ [0, 0]))))
      (encodeSection exSec ++ badData 16 (encInstrs true 8 badIs ++ (byte 0x3f ++ [0, 0]))).length = .error .dwarfError :=
  bad_unknown_opcode_after_section exSec env (by decide) _ (by decide +kernel) badCie 16 badIs 0x3f [0, 0] (by decide)
    (by decide +kernel) (by decide) (by decide) (by decide) (by decide +kernel) (by decide) (by decide)

example (env : Env) :
    parseEntries (cfiOf exEh env (encodeSection exEh ++ (encLength true false 20 ++ (encNat true 4 0x1000 ++ List.replicate 16 0))))
      (encodeSection exEh ++ (encLength true false 20 ++ (encNat true 4 0x1000 ++ List.replicate 16 0))).length
      = .error .valueError :=
  bad_cie_pointer_before_start_after_section exEh env (by decide +kernel) _ (by decide +kernel) rfl false 20 0x1000
    (List.replicate 16 0) rfl (by decide) (by decide) (by decide) (by decide) (by decide +kernel)

/-! ### the boundary `eh-set-loc-encoding` (known finding; outside `Section.wf`)

  LSB / GNU unwinder: in `.eh_frame` the operand of DW_CFA_set_loc is a pointer encoded with the CIE's FDE pointer
  encoding (Spec/CFIEhSetLoc.lean: `encInstrEh`, `setLocTarget`).  pyelftools reads `the_Dwarf_target_addr`:
  `asz` unsigned bytes, no pc-relative base — whatever the encoding (`set_loc_reads_target_addr`).  The two agree
  exactly under plain absptr (`set_loc_eh_absptr`); `Section.wf` admits DW_CFA_set_loc in `.eh_frame` only there, and
  `set_loc_class_iff_excluded` says the excluded class is precisely "`.eh_frame`, FDE encoding ≠ absptr, a set_loc
  in the entry".  Inside the class: when the encoded pointer is shorter than an address the reader takes the
  following bytes — the next instructions — as the rest of the address (`set_loc_eh_swallows`), which mis-splits the
  stream: `set_loc_eh_missplit` is a proved counterexample under the encoding real `.eh_frame`s use
  (0x1b = pcrel|sdata4): LSB prescribes four instructions, the reader returns one. -/

open PyElf.Spec.C06 PyElf.Proofs.CfiSetLoc in
/-- WHAT THE READER DOES with opcode 0x01, under every FDE pointer encoding: the next `asz` bytes, unsigned, as they
    are (no pc-relative base added) -/
theorem set_loc_reads_target_addr (le : Bool) (fmt asz ver : Nat) (env : Env) (pre bs rest : Bytes) (hn : bs.length = asz) :
    parseInstr Spec.cfiTables (Spec.dwarfStructs ⟨le, fmt, asz, ver⟩) env (pre ++ (byte 1 ++ (bs ++ rest))) pre.length
      = .ok (⟨1, [.int (decNat le bs)]⟩, pre.length + 1 + asz) :=
  parseInstr_set_loc (instrStructs_spec le fmt asz ver) env _ _ bs rest (List.drop_left' rfl) hn

open PyElf.Spec.C06 PyElf.Proofs.CfiSetLoc in
/-- WHAT THE LSB PRESCRIBES coincides with DWARF (hence with the reader) exactly under plain absptr -/
theorem set_loc_eh_absptr (le : Bool) (asz : Nat) (is : List Cfa) : encInstrsEh le asz 0 is = encInstrs le asz is := by
  unfold encInstrsEh encInstrs
  congr 1
  funext i
  cases i <;> simp [encInstrEh, Cfa.enc, encPtr]

open PyElf.Spec.C06 PyElf.Proofs.CfiSetLoc in
/-- inside the class, an encoded pointer shorter than an address (udata2/4, sdata2/4, short LEB128 on a 64-bit
    target, …): the reader takes the `x` that follows — the next instructions — as the rest of the address -/
theorem set_loc_eh_swallows (le : Bool) (fmt asz ver enc : Nat) (env : Env) (pre x rest : Bytes) (stored : Nat)
    (hx : (encPtr le asz (enc % 16) (stored : Int)).length + x.length = asz) :
    parseInstr Spec.cfiTables (Spec.dwarfStructs ⟨le, fmt, asz, ver⟩) env
        (pre ++ (encInstrEh le asz enc (.set_loc stored) ++ (x ++ rest))) pre.length
      = .ok (⟨1, [.int (decNat le (encPtr le asz (enc % 16) (stored : Int) ++ x))]⟩, pre.length + 1 + asz) := by
  have := set_loc_reads_target_addr le fmt asz ver env pre (encPtr le asz (enc % 16) (stored : Int) ++ x) rest
    (by simpa using hx)
  simpa [encInstrEh, List.append_assoc] using this

open PyElf.Spec.C06 PyElf.Proofs.CfiSetLoc in
/-- THE BOUNDARY: `Section.wf` (through `setLocOk`) excludes exactly the class -/
theorem set_loc_class_iff_excluded (eh : Bool) (fdeEnc : Nat) (is : List Cfa) :
    setLocOk eh fdeEnc is = false ↔ ehSetLocClass eh fdeEnc is :=
  setLocOk_false_iff eh fdeEnc is

open PyElf.Spec.C06 PyElf.Proofs.CfiSetLoc in
/-- COUNTEREXAMPLE (the mis-split).  FDE encoding 0x1b (pcrel|sdata4), 64-bit little-endian target, the
    LSB-conformant instruction stream of `set_loc +0x10; advance_loc 4; def_cfa_offset 16; nop` (9 bytes):
    every instruction is well formed, the list is in the excluded class, LSB prescribes FOUR instructions the first
    of which designates `address + field offset + 0x10` — the reader returns ONE instruction, a set_loc to
    0x00100e4400000010 made of the operand and the three instructions after it. -/
theorem set_loc_eh_missplit (env : Env) :
    let is : List Cfa := [.set_loc 0x10, .advance_loc 4, .def_cfa_offset ⟨1, 16⟩, .nop]
    let lsb := encInstrsEh true 8 0x1b is
    parseInstructions Spec.cfiTables (Spec.dwarfStructs ⟨true, 32, 8, 2⟩) env lsb lsb.length (lsb.length + 1) 0
        = .ok ([toInstr (.set_loc 0x00100e4400000010)], 9)
      ∧ is.length = 4 ∧ (∀ i ∈ is, i.wf 8 = true) ∧ ehSetLocClass true 0x1b is
      ∧ setLocTarget 0x1b 0x400000 0x31 0x10 = 0x400041 := by
  intro is lsb
  have hb : lsb = [] ++ encInstrs true 8 [.set_loc 0x00100e4400000010] ++ [] := by decide
  have hl : lsb.length = ([] : Bytes).length + (encInstrs true 8 [.set_loc 0x00100e4400000010]).length := by decide
  refine ⟨?_, rfl, by decide, ⟨rfl, by decide, 0x10, by decide⟩, by decide⟩
  have := cfa_instrs_roundtrip true 32 8 2 env [] [] [.set_loc 0x00100e4400000010] (by decide) (lsb.length + 1) (by decide)
  rw [← hb, ← hl] at this
  exact this

/-- such an entry makes the section ill-formed: `exEh` with a set_loc in the FDE of its `zPLR` CIE (FDE encoding 0x1b) -/
example : ({ exEh with entries := exEh.entries.set 1 (Spec.Entry.fde ⟨false, 0, -0x200, 0x40, 0x3000, 2, [.set_loc 0x10, .nop]⟩) } :
    Section).wf = false := by decide +kernel

/-! non-vacuity of the whole-file hypotheses: an ELF64 little-endian description carrying BOTH example sections —
    `.debug_frame` = `exSec` (FDE before its CIE) at 0x200, `.eh_frame` = `exEh` (zPLR, pc-relative pointers) at 0x300
    with `sh_addr = 0x400000` — plainly, and with `.debug_frame` gABI-compressed behind an `Elf64_Chdr`.
    (`ElfDesc.wfZ`, `observe`, `assemble` evaluate `Con.encodeRaw`/`decodeRaw`, which do not reduce in the kernel:
    checked by the build-time `#guard`s, which also RUN the model end to end on the assembled bytes and compare
    with `modelFrom`, i.e. evaluate the conclusion of `cfi_entries_of_file` / `eh_cfi_entries_of_file`.) -/

private def nDebugFrame : Bytes := [0x2e, 0x64, 0x65, 0x62, 0x75, 0x67, 0x5f, 0x66, 0x72, 0x61, 0x6d, 0x65]
private def nShstrtab : Bytes := [0x2e, 0x73, 0x68, 0x73, 0x74, 0x72, 0x74, 0x61, 0x62]

private def exShdr (ty flags addr off size : Nat) : Fields :=
  [("sh_type", .int ty), ("sh_flags", .int flags), ("sh_addr", .int addr), ("sh_offset", .int off), ("sh_size", .int size),
   ("sh_link", .int 0), ("sh_info", .int 0), ("sh_addralign", .int 1), ("sh_entsize", .int 0)]

private def exObsHdr (nm : Nat) (tyName : String) (flags addr off size : Nat) : Val :=
  .record [("sh_name", .int nm), ("sh_type", .str tyName), ("sh_flags", .int flags), ("sh_addr", .int addr),
    ("sh_offset", .int off), ("sh_size", .int size), ("sh_link", .int 0), ("sh_info", .int 0),
    ("sh_addralign", .int 1), ("sh_entsize", .int 0)]

/-- null, `.shstrtab` at 0x100, `.debug_frame` (body `dbg`, flags `flags`) at 0x200, `.eh_frame` (SHF_ALLOC,
    `sh_addr = 0x400000`) at 0x300; section headers at 0x400 -/
private def exFile (dbg : Bytes) (flags : Nat) : Spec.ElfDesc :=
  { cls := 64, le := true, mclass := "EM_X86_64", solaris := false, core := false,
    ehdr := [("EI_VERSION", .int 1), ("e_type", .int 1), ("e_machine", .int 62), ("e_version", .int 1), ("e_ehsize", .int 64)],
    shoff := 0x400, phoff := 0, shentsize := 64, phentsize := 0,
    sections := [⟨[], exShdr 0 0 0 0 0, none, 0⟩,
                 ⟨nShstrtab, exShdr 3 0 0 0x100 34,
                   some ([0] ++ nShstrtab ++ [0] ++ nDebugFrame ++ [0] ++ PyElf.Model.C11.nEhFrame ++ [0]), 1⟩,
                 ⟨nDebugFrame, exShdr 1 flags 0 0x200 dbg.length, some dbg, 11⟩,
                 ⟨PyElf.Model.C11.nEhFrame, exShdr 1 2 0x400000 0x300 126, some (encodeSection exEh), 24⟩],
    segments := [], shstrndx := 1 }

private def exFileObs (dbgLen flags : Nat) : Spec.ElfObs :=
  ⟨.none, [("NullSection", [], exObsHdr 0 "SHT_NULL" 0 0 0 0),
           ("StringTableSection", nShstrtab, exObsHdr 1 "SHT_STRTAB" 0 0 0x100 34),
           ("Section", nDebugFrame, exObsHdr 11 "SHT_PROGBITS" flags 0 0x200 dbgLen),
           ("Section", PyElf.Model.C11.nEhFrame, exObsHdr 24 "SHT_PROGBITS" 2 0x400000 0x300 126)], []⟩

private def exFileContent : PyElf.Proofs.C11.Content := fun k =>
  if k = "debug_frame_sec" then some (encodeSection exSec, exSec.address)
  else if k = "eh_frame_sec" then some (encodeSection exEh, exEh.address) else none

theorem exSec_len : (encodeSection exSec).length = 59 := by decide +kernel
theorem exEh_len : (encodeSection exEh).length = 126 := by decide +kernel

open PyElf.Model.C11 PyElf.Proofs.C11 PyElf.Spec.C11 in
/-- both sections stored plainly -/
example : HoldsD sectionNames (fun _ x => x) (exFile (encodeSection exSec) 0) (exFileObs 59 0) false exFileContent
    Enc.isPlain := by
  intro kn hk
  simp only [sectionNames, List.mem_cons, List.not_mem_nil, or_false] at hk
  rcases hk with rfl | rfl | rfl | rfl | rfl | rfl | rfl | rfl | rfl | rfl | rfl | rfl | rfl | rfl | rfl | rfl | rfl | rfl | rfl
  case inr.inr.inr.inr.inr.inl =>
    refine ⟨2, _, _, .plain, 0x200, by decide +kernel, rfl, rfl, Or.inl rfl, ?_, by decide +kernel, trivial⟩
    refine ⟨.str "SHT_PROGBITS", 0, rfl, rfl, rfl, rfl, ?_, rfl, rfl, ?_, by simp [Enc.ok]⟩
    · show Val.getNat _ "sh_size" = .ok (encodeSection exSec).length
      rw [exSec_len]; rfl
    · show 0x200 + (encodeSection exSec).length < 2 ^ 63
      rw [exSec_len]; decide
  case inr.inr.inr.inr.inr.inr.inr.inr.inr.inr.inr.inr.inr.inr.inr.inr.inr.inr =>
    refine ⟨3, _, _, .plain, 0x300, by decide +kernel, rfl, rfl, Or.inl rfl, ?_, by decide +kernel, trivial⟩
    refine ⟨.str "SHT_PROGBITS", 2, rfl, rfl, rfl, rfl, ?_, rfl, rfl, ?_, by simp [Enc.ok]⟩
    · show Val.getNat _ "sh_size" = .ok (encodeSection exEh).length
      rw [exEh_len]; rfl
    · show 0x300 + (encodeSection exEh).length < 2 ^ 63
      rw [exEh_len]; decide
  all_goals (simp only [exFileContent, String.reduceEq, if_false]; decide +kernel)

theorem exSec_gabi_len : (PyElf.Spec.C11.gabiBody 64 true 59 1 (encodeSection exSec)).length = 83 := by decide +kernel

open PyElf.Model.C11 PyElf.Proofs.C11 PyElf.Spec.C11 in
/-- `.debug_frame` SHF_COMPRESSED behind an `Elf64_Chdr`, `.eh_frame` plain -/
example : HoldsD sectionNames (fun _ x => x) (exFile (gabiBody 64 true 59 1 (encodeSection exSec)) 0x800)
    (exFileObs 83 0x800) false exFileContent Enc.isPlainOrGabi := by
  intro kn hk
  simp only [sectionNames, List.mem_cons, List.not_mem_nil, or_false] at hk
  rcases hk with rfl | rfl | rfl | rfl | rfl | rfl | rfl | rfl | rfl | rfl | rfl | rfl | rfl | rfl | rfl | rfl | rfl | rfl | rfl
  case inr.inr.inr.inr.inr.inl =>
    refine ⟨2, _, _, .gabi 6 1, 0x200, by decide +kernel, rfl, rfl, Or.inl rfl, ?_, by decide +kernel, trivial⟩
    have hb : ∀ b fl, Enc.body (fun _ x => x) (exFile b fl).cls (exFile b fl).le (encodeSection exSec) (.gabi 6 1)
        = gabiBody 64 true 59 1 (encodeSection exSec) := by
      intro b fl; simp only [Enc.body, exSec_len, exFile]
    refine ⟨.str "SHT_PROGBITS", 0x800, rfl, rfl, rfl, rfl, ?_, rfl, ?_, ?_, ?_⟩
    · rw [hb, exSec_gabi_len]; rfl
    · rw [hb]
    · rw [hb, exSec_gabi_len]; decide
    · simp [Enc.ok, exSec_len, exFile]
  case inr.inr.inr.inr.inr.inr.inr.inr.inr.inr.inr.inr.inr.inr.inr.inr.inr.inr =>
    refine ⟨3, _, _, .plain, 0x300, by decide +kernel, rfl, rfl, Or.inl rfl, ?_, by decide +kernel, trivial⟩
    refine ⟨.str "SHT_PROGBITS", 2, rfl, rfl, rfl, rfl, ?_, rfl, rfl, ?_, by simp [Enc.ok]⟩
    · show Val.getNat _ "sh_size" = .ok (encodeSection exEh).length
      rw [exEh_len]; rfl
    · show 0x300 + (encodeSection exEh).length < 2 ^ 63
      rw [exEh_len]; decide
  all_goals (simp only [exFileContent, String.reduceEq, if_false]; decide +kernel)

/-- the standards-side parameters (the "stored" coder as zlib): `SpecParams`, `ZlibOk`, `StructsOk`, keywords -/
private def exP : PyElf.Model.C11.Params :=
  ⟨elfEnv, C01.specStructs, C01.specMachineClass, Reloc.machineArchOf, fun c => some (Spec.dwarfStructs c),
   PyElf.Spec.C11.sectionNames, ⟨fun d k => some (if k = 0 then d else d.take k), fun _ => 0⟩⟩

example : C11.SpecParams exP ∧ PyElf.Proofs.C11.ZlibOk exP.X (fun _ x => x) ∧ PyElf.Proofs.CfiFile.StructsOk exP true 8 ∧
    "debug_frame_sec" ∈ exP.names.map (·.1) ∧ "eh_frame_sec" ∈ exP.names.map (·.1) ∧
    exSec.le = (exFile [] 0).le ∧ exSec.asz = (exFile [] 0).cls / 8 ∧ exEh.le = (exFile [] 0).le ∧
    exEh.asz = (exFile [] 0).cls / 8 :=
  ⟨⟨rfl, rfl⟩, ⟨fun _ _ _ => rfl⟩, fun _ _ => rfl, by decide, by decide, rfl, rfl, rfl, rfl⟩

private def sameEntries (a b : List Model.Entry) : Bool :=
  toString (repr (a.map (Model.Entry.toVal Spec.cfiTables))) == toString (repr (b.map (Model.Entry.toVal Spec.cfiTables)))

/-- the description is well formed, assembles, is observed as `exFileObs` says, and the accessors on the
    assembled bytes yield `modelFrom` of the two CFI descriptions -/
private def exFileOk (dbg : Bytes) (flags : Nat) : Bool :=
  let d := exFile dbg flags
  match d.assemble 0 with
  | none => false
  | some bytes =>
    d.wfZ elfEnv &&
    (match d.observe elfEnv with
     | .ok o => o.sections.length == 4 &&
         (o.sections.zip (exFileObs dbg.length flags).sections).all fun (x, y) =>
           x.1 == y.1 && x.2.1 == y.2.1 && toString (repr x.2.2) == toString (repr y.2.2)
     | .error _ => false) &&
    (match PyElf.Model.C06.fileCfiEntries Spec.cfiTables exP 1 none bytes true true,
           PyElf.Model.C06.fileEhCfiEntries Spec.cfiTables exP 1 none bytes true true,
           PyElf.Model.C06.fileHasCFI exP 1 none bytes true true with
     | .ok a, .ok b, .ok true =>
       sameEntries a (modelFrom exSec 0 exSec.entries) && sameEntries b (modelFrom exEh 0 exEh.entries) && a.length == 2
         && b.length == 6
     | _, _, _ => false)
#guard exFileOk (encodeSection exSec) 0
#guard exFileOk (PyElf.Spec.C11.gabiBody 64 true 59 1 (encodeSection exSec)) 0x800

/-! the legacy framing: a file with `.zdebug_info`, whose `.debug_frame` content is stored as `.zdebug_frame`
    (`"ZLIB"` + 8-byte big-endian size + deflate stream), `.eh_frame` plain -/

private def nZdebugFrame : Bytes := PyElf.Model.C11.zName nDebugFrame

private def exFileZ : Spec.ElfDesc :=
  { cls := 64, le := true, mclass := "EM_X86_64", solaris := false, core := false,
    ehdr := [("EI_VERSION", .int 1), ("e_type", .int 1), ("e_machine", .int 62), ("e_version", .int 1), ("e_ehsize", .int 64)],
    shoff := 0x400, phoff := 0, shentsize := 64, phentsize := 0,
    sections := [⟨[], exShdr 0 0 0 0 0, none, 0⟩,
                 ⟨nShstrtab, exShdr 3 0 0 0x100 48,
                   some ([0] ++ nShstrtab ++ [0] ++ PyElf.Model.C11.nZdebugInfo ++ [0] ++ nZdebugFrame ++ [0]
                     ++ PyElf.Model.C11.nEhFrame ++ [0]), 1⟩,
                 ⟨PyElf.Model.C11.nZdebugInfo, exShdr 1 0 0 0x140 15, some (PyElf.Spec.C11.zdebugBody 3 [1, 2, 3]), 11⟩,
                 ⟨nZdebugFrame, exShdr 1 0 0 0x200 71, some (PyElf.Spec.C11.zdebugBody 59 (encodeSection exSec)), 24⟩,
                 ⟨PyElf.Model.C11.nEhFrame, exShdr 1 2 0x400000 0x300 126, some (encodeSection exEh), 38⟩],
    segments := [], shstrndx := 1 }

private def exFileZObs : Spec.ElfObs :=
  ⟨.none, [("NullSection", [], exObsHdr 0 "SHT_NULL" 0 0 0 0),
           ("StringTableSection", nShstrtab, exObsHdr 1 "SHT_STRTAB" 0 0 0x100 48),
           ("Section", PyElf.Model.C11.nZdebugInfo, exObsHdr 11 "SHT_PROGBITS" 0 0 0x140 15),
           ("Section", nZdebugFrame, exObsHdr 24 "SHT_PROGBITS" 0 0 0x200 71),
           ("Section", PyElf.Model.C11.nEhFrame, exObsHdr 38 "SHT_PROGBITS" 2 0x400000 0x300 126)], []⟩

private def exFileZContent : PyElf.Proofs.C11.Content := fun k =>
  if k = "debug_info_sec" then some ([1, 2, 3], 0)
  else if k = "debug_frame_sec" then some (encodeSection exSec, exSec.address)
  else if k = "eh_frame_sec" then some (encodeSection exEh, exEh.address) else none

theorem exSec_z_len : (PyElf.Spec.C11.zdebugBody 59 (encodeSection exSec)).length = 71 := by decide +kernel

open PyElf.Model.C11 PyElf.Proofs.C11 PyElf.Spec.C11 in
example : HoldsD sectionNames (fun _ x => x) exFileZ exFileZObs false exFileZContent Enc.isPlainOrZdebug := by
  intro kn hk
  simp only [sectionNames, List.mem_cons, List.not_mem_nil, or_false] at hk
  rcases hk with rfl | rfl | rfl | rfl | rfl | rfl | rfl | rfl | rfl | rfl | rfl | rfl | rfl | rfl | rfl | rfl | rfl | rfl | rfl
  case inl =>
    refine ⟨2, _, _, .zdebug 6, 0x140, by decide +kernel, rfl, rfl, Or.inl rfl, ?_, by decide +kernel, trivial⟩
    exact ⟨.str "SHT_PROGBITS", 0, rfl, rfl, rfl, rfl, rfl, rfl, rfl, by decide, by simp [Enc.ok]⟩
  case inr.inr.inr.inr.inr.inl =>
    refine ⟨3, _, _, .zdebug 6, 0x200, by decide +kernel, rfl, rfl, Or.inl rfl, ?_, by decide +kernel, trivial⟩
    have hb : Enc.body (fun _ x => x) exFileZ.cls exFileZ.le (encodeSection exSec) (.zdebug 6)
        = zdebugBody 59 (encodeSection exSec) := by
      simp only [Enc.body, exSec_len]
    refine ⟨.str "SHT_PROGBITS", 0, rfl, rfl, rfl, rfl, ?_, rfl, ?_, ?_, ?_⟩
    · rw [hb, exSec_z_len]; rfl
    · rw [hb]
    · rw [hb, exSec_z_len]; decide
    · simp [Enc.ok, exSec_len]
  case inr.inr.inr.inr.inr.inr.inr.inr.inr.inr.inr.inr.inr.inr.inr.inr.inr.inr =>
    refine ⟨4, _, _, .plain, 0x300, by decide +kernel, rfl, rfl, Or.inl rfl, ?_, by decide +kernel, trivial⟩
    refine ⟨.str "SHT_PROGBITS", 2, rfl, rfl, rfl, rfl, ?_, rfl, rfl, ?_, by simp [Enc.ok]⟩
    · show Val.getNat _ "sh_size" = .ok (encodeSection exEh).length
      rw [exEh_len]; rfl
    · show 0x300 + (encodeSection exEh).length < 2 ^ 63
      rw [exEh_len]; decide
  all_goals (simp only [exFileZContent, String.reduceEq, if_false]; decide +kernel)

private def exFileZOk : Bool :=
  match exFileZ.assemble 0 with
  | none => false
  | some bytes =>
    exFileZ.wfZ elfEnv &&
    (match exFileZ.observe elfEnv with
     | .ok o => o.sections.length == 5 &&
         (o.sections.zip exFileZObs.sections).all fun (x, y) =>
           x.1 == y.1 && x.2.1 == y.2.1 && toString (repr x.2.2) == toString (repr y.2.2)
     | .error _ => false) &&
    (match PyElf.Model.C06.fileCfiEntries Spec.cfiTables exP 1 none bytes true true,
           PyElf.Model.C06.fileEhCfiEntries Spec.cfiTables exP 1 none bytes true true,
           PyElf.Model.C06.fileHasCFI exP 1 none bytes true true with
     | .ok a, .ok b, .ok true =>
       sameEntries a (modelFrom exSec 0 exSec.entries) && sameEntries b (modelFrom exEh 0 exEh.entries) && a.length == 2
         && b.length == 6
     | _, _, _ => false)
#guard exFileZOk

end PyElf.Props.C06
