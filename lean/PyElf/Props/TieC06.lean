/-
  C06 tie: the constant tables and the struct fields callframe.py relies on are the Spec's.
-/
import PyElf.Gen.Structs
import PyElf.Gen.Extra_C06
import PyElf.Spec.DwarfStructs
import PyElf.Spec.CFI
namespace PyElf.Props.TieC06
open PyElf

/-- DW_CFA_* values, `_OPCODE_NAME_MAP`, `DW_EH_encoding_flags`, `_eh_encoding_to_field`, the opcode masks:
    the regenerated record is the one written from DWARF 5 table 7.29 and the LSB pointer-encoding table -/
theorem cfi_tables : Gen.cfiTables = Spec.cfiTables := by decide

/-- the translator recognised every DW_CFA_* / DW_EH_PE_* name and every encoding's field factory -/
theorem cfi_tables_not_refused : Gen.cfiTablesRefused = false := by decide

theorem dwarf_Dwarf_CIE_header : Gen.dwarfBundles.map (fun b => (b.1, b.2.Dwarf_CIE_header)) = Spec.allDwarfCfgs.map (fun c => (c, (Spec.dwarfStructs c).Dwarf_CIE_header)) := by rfl
theorem dwarf_EH_CIE_header : Gen.dwarfBundles.map (fun b => (b.1, b.2.EH_CIE_header)) = Spec.allDwarfCfgs.map (fun c => (c, (Spec.dwarfStructs c).EH_CIE_header)) := by rfl
theorem dwarf_Dwarf_FDE_header : Gen.dwarfBundles.map (fun b => (b.1, b.2.Dwarf_FDE_header)) = Spec.allDwarfCfgs.map (fun c => (c, (Spec.dwarfStructs c).Dwarf_FDE_header)) := by rfl
theorem dwarf_Dwarf_initial_length : Gen.dwarfBundles.map (fun b => (b.1, b.2.Dwarf_initial_length)) = Spec.allDwarfCfgs.map (fun c => (c, (Spec.dwarfStructs c).Dwarf_initial_length)) := by rfl
theorem dwarf_Dwarf_offset : Gen.dwarfBundles.map (fun b => (b.1, b.2.Dwarf_offset)) = Spec.allDwarfCfgs.map (fun c => (c, (Spec.dwarfStructs c).Dwarf_offset)) := by rfl
theorem dwarf_Dwarf_target_addr : Gen.dwarfBundles.map (fun b => (b.1, b.2.Dwarf_target_addr)) = Spec.allDwarfCfgs.map (fun c => (c, (Spec.dwarfStructs c).Dwarf_target_addr)) := by rfl
theorem dwarf_Dwarf_uint8 : Gen.dwarfBundles.map (fun b => (b.1, b.2.Dwarf_uint8)) = Spec.allDwarfCfgs.map (fun c => (c, (Spec.dwarfStructs c).Dwarf_uint8)) := by rfl
theorem dwarf_Dwarf_uint16 : Gen.dwarfBundles.map (fun b => (b.1, b.2.Dwarf_uint16)) = Spec.allDwarfCfgs.map (fun c => (c, (Spec.dwarfStructs c).Dwarf_uint16)) := by rfl
theorem dwarf_Dwarf_uint32 : Gen.dwarfBundles.map (fun b => (b.1, b.2.Dwarf_uint32)) = Spec.allDwarfCfgs.map (fun c => (c, (Spec.dwarfStructs c).Dwarf_uint32)) := by rfl
theorem dwarf_Dwarf_uint64 : Gen.dwarfBundles.map (fun b => (b.1, b.2.Dwarf_uint64)) = Spec.allDwarfCfgs.map (fun c => (c, (Spec.dwarfStructs c).Dwarf_uint64)) := by rfl
theorem dwarf_Dwarf_int16 : Gen.dwarfBundles.map (fun b => (b.1, b.2.Dwarf_int16)) = Spec.allDwarfCfgs.map (fun c => (c, (Spec.dwarfStructs c).Dwarf_int16)) := by rfl
theorem dwarf_Dwarf_int32 : Gen.dwarfBundles.map (fun b => (b.1, b.2.Dwarf_int32)) = Spec.allDwarfCfgs.map (fun c => (c, (Spec.dwarfStructs c).Dwarf_int32)) := by rfl
theorem dwarf_Dwarf_int64 : Gen.dwarfBundles.map (fun b => (b.1, b.2.Dwarf_int64)) = Spec.allDwarfCfgs.map (fun c => (c, (Spec.dwarfStructs c).Dwarf_int64)) := by rfl
theorem dwarf_Dwarf_uleb128 : Gen.dwarfBundles.map (fun b => (b.1, b.2.Dwarf_uleb128)) = Spec.allDwarfCfgs.map (fun c => (c, (Spec.dwarfStructs c).Dwarf_uleb128)) := by rfl
theorem dwarf_Dwarf_sleb128 : Gen.dwarfBundles.map (fun b => (b.1, b.2.Dwarf_sleb128)) = Spec.allDwarfCfgs.map (fun c => (c, (Spec.dwarfStructs c).Dwarf_sleb128)) := by rfl
theorem dwarf_the_Dwarf_uint8 : Gen.dwarfBundles.map (fun b => (b.1, b.2.the_Dwarf_uint8)) = Spec.allDwarfCfgs.map (fun c => (c, (Spec.dwarfStructs c).the_Dwarf_uint8)) := by rfl
theorem dwarf_the_Dwarf_uint16 : Gen.dwarfBundles.map (fun b => (b.1, b.2.the_Dwarf_uint16)) = Spec.allDwarfCfgs.map (fun c => (c, (Spec.dwarfStructs c).the_Dwarf_uint16)) := by rfl
theorem dwarf_the_Dwarf_uint32 : Gen.dwarfBundles.map (fun b => (b.1, b.2.the_Dwarf_uint32)) = Spec.allDwarfCfgs.map (fun c => (c, (Spec.dwarfStructs c).the_Dwarf_uint32)) := by rfl
theorem dwarf_the_Dwarf_offset : Gen.dwarfBundles.map (fun b => (b.1, b.2.the_Dwarf_offset)) = Spec.allDwarfCfgs.map (fun c => (c, (Spec.dwarfStructs c).the_Dwarf_offset)) := by rfl
theorem dwarf_the_Dwarf_target_addr : Gen.dwarfBundles.map (fun b => (b.1, b.2.the_Dwarf_target_addr)) = Spec.allDwarfCfgs.map (fun c => (c, (Spec.dwarfStructs c).the_Dwarf_target_addr)) := by rfl
theorem dwarf_the_Dwarf_uleb128 : Gen.dwarfBundles.map (fun b => (b.1, b.2.the_Dwarf_uleb128)) = Spec.allDwarfCfgs.map (fun c => (c, (Spec.dwarfStructs c).the_Dwarf_uleb128)) := by rfl
theorem dwarf_the_Dwarf_sleb128 : Gen.dwarfBundles.map (fun b => (b.1, b.2.the_Dwarf_sleb128)) = Spec.allDwarfCfgs.map (fun c => (c, (Spec.dwarfStructs c).the_Dwarf_sleb128)) := by rfl
theorem dwarf_forms : Gen.dwarfBundles.map (fun b => (b.1, b.2.forms)) = Spec.allDwarfCfgs.map (fun c => (c, (Spec.dwarfStructs c).forms)) := by rfl

end PyElf.Props.TieC06
