/-
  C04 tie theorems: the regenerated struct fields and tables this property relies on are the Spec's.
-/
import PyElf.Gen.Structs
import PyElf.Gen.Tables
import PyElf.Spec.DwarfStructs
import PyElf.Spec.DieTree
import PyElf.Model.Die
import PyElf.Model.Env
import PyElf.Proofs.DieForms
namespace PyElf.Props.TieC04
open PyElf PyElf.Spec.C04

/-- for all 32 configurations: the form → parser table, the abbreviation declaration, both unit
    headers and the scalar readers the DIE code uses are the ones written from the standard -/
theorem dwarf_fields :
    Gen.dwarfBundles.map (fun b => (b.1, b.2.forms, b.2.Dwarf_abbrev_declaration, b.2.Dwarf_CU_header,
        b.2.Dwarf_TU_header, b.2.the_Dwarf_uleb128, b.2.the_Dwarf_offset, b.2.the_Dwarf_target_addr, b.2.the_Dwarf_uint32))
      = Spec.allDwarfCfgs.map (fun c => (c, (Spec.dwarfStructs c).forms, (Spec.dwarfStructs c).Dwarf_abbrev_declaration,
        (Spec.dwarfStructs c).Dwarf_CU_header, (Spec.dwarfStructs c).Dwarf_TU_header, (Spec.dwarfStructs c).the_Dwarf_uleb128,
        (Spec.dwarfStructs c).the_Dwarf_offset, (Spec.dwarfStructs c).the_Dwarf_target_addr,
        (Spec.dwarfStructs c).the_Dwarf_uint32)) := by rfl

/-- `DW_FORM_raw2name` (used by `_resolve_indirect`) names every standard form code as the standard does -/
theorem raw2name_forms : formCodes.all (fun k => Model.C04.genRaw2name k == formName k) = true := by decide +kernel

/-- `ENUM_DW_FORM` (used by the abbreviation declaration) decodes every standard form code to the standard's name -/
theorem enum_forms : formCodes.all (fun k => Model.genEnumDecode "ENUM_DW_FORM" k == formName k) = true := by
  decide +kernel

/-- `ENUM_DW_CHILDREN`: 0 / 1 -/
theorem enum_children : Model.genEnumDecode "ENUM_DW_CHILDREN" 0 = some "DW_CHILDREN_no"
    ∧ Model.genEnumDecode "ENUM_DW_CHILDREN" 1 = some "DW_CHILDREN_yes" := by decide +kernel

/-- the parser registered under a form's name reads the operand encoding of the form's code — for every
    configuration at once (DW_FORM_strx present, DW_FORM_strx4 = 4 bytes, DW_FORM_ref_addr = address in v2 and
    offset later, DW_FORM_strp & co. = 4/8 bytes by DWARF format are instances) -/
theorem form_table (c : DwarfCfg) (k : Nat) (hk : k ∈ formCodes) :
    (Spec.dwarfStructs c).form ((formName k).getD "") = (formClass c k).map (Proofs.C04.clsCon c.le) :=
  Proofs.C04.form_lookup c k hk

end PyElf.Props.TieC04
