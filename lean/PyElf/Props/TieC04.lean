/-
  C04 tie theorems: the regenerated struct fields and tables this property relies on are the Spec's.
-/
import PyElf.Gen.Structs
import PyElf.Gen.Tables
import PyElf.Gen.Extra_C04
import PyElf.Spec.DwarfStructs
import PyElf.Spec.DieTree
import PyElf.Model.Die
import PyElf.Model.Env
import PyElf.Proofs.DieForms
import PyElf.Proofs.DieAbbrev
import PyElf.Proofs.DieTop
import PyElf.Proofs.DieBundle
import PyElf.Spec.DwarfLookup
namespace PyElf.Props.TieC04
open PyElf PyElf.Spec.C04

/-- for all 32 configurations: the form → parser table, the abbreviation declaration, both unit
    headers and the scalar readers the DIE code uses are the ones written from the standard -/
theorem dwarf_fields :
    Gen.dwarfBundles.map (fun b => (b.1, b.2.forms, b.2.Dwarf_abbrev_declaration, b.2.Dwarf_CU_header,
        b.2.Dwarf_TU_header, b.2.the_Dwarf_uleb128, b.2.the_Dwarf_offset, b.2.the_Dwarf_target_addr, b.2.the_Dwarf_uint32))
      = Spec.allDwarfCfgs.map (fun c => (c, (Spec.dwarfStructs c).forms, (Spec.dwarfStructs c).Dwarf_abbrev_declaration,
        (Spec.dwarfStructs c).Dwarf_CU_header, (Spec.dwarfStructs c).Dwarf_TU_header, (Spec.dwarfStructs c).the_Dwarf_uleb128,
        (Spec.dwarfStructs c).the_Dwarf_offset, (Spec.dwarfStructs c).the_Dwarf_target_addr,
        (Spec.dwarfStructs c).the_Dwarf_uint32)) := by rfl

/-- the same through the look-up the model (and the driver) uses, `Model.dwarfStructsFor`: for each of the 32
    configurations it answers with a bundle whose fields read by the DIE code are the standard's -/
theorem dwarf_fields_for :
    Spec.allDwarfCfgs.map (fun c => (Model.dwarfStructsFor c).map fun S => (S.forms, S.Dwarf_abbrev_declaration,
        S.Dwarf_CU_header, S.Dwarf_TU_header, S.the_Dwarf_uleb128, S.the_Dwarf_offset, S.the_Dwarf_target_addr,
        S.the_Dwarf_uint32))
      = Spec.allDwarfCfgs.map (fun c => some ((Spec.dwarfStructs c).forms, (Spec.dwarfStructs c).Dwarf_abbrev_declaration,
        (Spec.dwarfStructs c).Dwarf_CU_header, (Spec.dwarfStructs c).Dwarf_TU_header, (Spec.dwarfStructs c).the_Dwarf_uleb128,
        (Spec.dwarfStructs c).the_Dwarf_offset, (Spec.dwarfStructs c).the_Dwarf_target_addr,
        (Spec.dwarfStructs c).the_Dwarf_uint32)) := by rfl

/-- … as the agreement `Proofs.C04.BundleEq` the theorems of the entry / unit / section layers ask of a bundle -/
theorem gen_bundles (c : DwarfCfg) (hc : c ∈ Spec.allDwarfCfgs) :
    ∃ S, Model.dwarfStructsFor c = some S ∧ Proofs.C04.BundleEq S (Spec.dwarfStructs c) := by
  have h := (List.map_inj_left.1 dwarf_fields_for) c hc
  cases hS : Model.dwarfStructsFor c with
  | none => rw [hS] at h; cases h
  | some S =>
    rw [hS] at h
    simp only [Option.map_some, Option.some.injEq, Prod.mk.injEq] at h
    obtain ⟨h1, h2, h3, h4, h5, h6, h7, h8⟩ := h
    exact ⟨S, rfl, ⟨h1, h2, h3, h4, h5, h6, h7, h8⟩⟩

/-- `DW_FORM_raw2name` (used by `_resolve_indirect`) names every standard form code as the standard does -/
theorem raw2name_forms : formCodes.all (fun k => Model.C04.genRaw2name k == formName k) = true := by decide +kernel

/-- `ENUM_DW_FORM` (used by the abbreviation declaration) decodes every standard form code to the standard's name -/
theorem enum_forms : formCodes.all (fun k => Model.genEnumDecode "ENUM_DW_FORM" k == formName k) = true := by
  decide +kernel

/-- `ENUM_DW_CHILDREN`: 0 / 1 -/
theorem enum_children : Model.genEnumDecode "ENUM_DW_CHILDREN" 0 = some "DW_CHILDREN_no"
    ∧ Model.genEnumDecode "ENUM_DW_CHILDREN" 1 = some "DW_CHILDREN_yes" := by decide +kernel

/-- the parser registered under a form's name reads the operand encoding of the form's code — for every
    configuration at once (DW_FORM_strx present, DW_FORM_strx4 = 4 bytes, DW_FORM_ref_addr = address in v2 and
    offset later, DW_FORM_strp & co. = 4/8 bytes by DWARF format are instances) -/
theorem form_table (c : DwarfCfg) (k : Nat) (hk : k ∈ stdFormCodes) :
    (Spec.dwarfStructs c).form ((formName k).getD "") = (formClass c k).map (Proofs.C04.clsCon c.le) :=
  Proofs.C04.form_lookup c k hk

/-! ### the legacy DW_FORM_ref (code 0x02) -/

/-- `Dwarf_dw_form` has, outside the form list of the bundles (`DwarfStructs.formNames`), exactly one key that is the
    name of a form: DW_FORM_ref (the other stray key is an attribute name, which neither `ENUM_DW_FORM` nor
    `DW_FORM_raw2name` can produce) -/
theorem form_extra_keys :
    Gen.dieExtraFormKeys.filter (fun k => k.toList.take 8 == "DW_FORM_".toList) = ["DW_FORM_ref"] := by decide +kernel

/-- … and for all 32 configurations the regenerated `Dwarf_dw_form['DW_FORM_ref']` is the configuration's
    `the_Dwarf_uint32` — the bundle field `Model.C04.formParser` answers with for that name (`formParser_ref`),
    which `dwarf_fields` ties to the standard's 4-byte unsigned reader.  Tie of the model's special case. -/
theorem form_ref_entry :
    Gen.dieExtraForms.map (fun r => (r.1, (r.2.find? (·.1 == "DW_FORM_ref")).map (·.2)))
      = Gen.dwarfBundles.map (fun b => (b.1, some b.2.the_Dwarf_uint32)) := by rfl

theorem formParser_ref (S : DwarfStructs) : Model.C04.formParser S (.str "DW_FORM_ref") = .ok S.the_Dwarf_uint32 := rfl

/-- the operand encoding the Spec gives code 0x02 (four bytes) is what that parser reads -/
theorem form_ref_class (c : DwarfCfg) :
    (Spec.dwarfStructs c).the_Dwarf_uint32 = Proofs.C04.clsCon c.le ((formClass c 0x02).getD .present) := rfl

/-! ### the names the abbreviation struct's lambdas compare against -/

theorem decodeIn_mem (t : List (String × Int)) (v : Int) (k : String) :
    ∀ acc : Option String, t.foldl (fun acc (p : String × Int) => if p.2 = v then some p.1 else acc) acc = some k →
      (k, v) ∈ t ∨ acc = some k := by
  induction t with
  | nil => intro acc h; exact Or.inr h
  | cons p t ih =>
    intro acc h
    rw [List.foldl_cons] at h
    rcases ih _ h with h' | h'
    · exact Or.inl (List.mem_cons_of_mem _ h')
    · by_cases e : p.2 = v
      · rw [if_pos e] at h'
        injection h' with h'
        exact Or.inl (by rw [← h', ← e]; exact List.mem_cons_self)
      · rw [if_neg e] at h'; exact Or.inr h'

/-- in the regenerated table `tid`, the name `name` belongs to the value `v` only -/
def onlyAt (tid name : String) (v : Int) : Bool :=
  match Gen.tables.find? (·.1 == tid) with
  | some (_, t, _) => t.all fun p => p.1 != name || p.2 == v
  | none => true

theorem genEnumDecode_only {tid name : String} {v : Int} (h : onlyAt tid name v = true) (n : Int)
    (hn : Model.genEnumDecode tid n = some name) : n = v := by
  unfold onlyAt at h
  unfold Model.genEnumDecode at hn
  cases hf : Gen.tables.find? (·.1 == tid) with
  | none => rw [hf] at hn; cases hn
  | some e =>
    obtain ⟨a, t, b⟩ := e
    rw [hf] at h hn
    simp only [List.all_eq_true, Bool.or_eq_true, bne_iff_ne, ne_eq, beq_iff_eq] at h
    rcases decodeIn_mem t n name none hn with hm | hm
    · rcases h _ hm with h' | h'
      · exact absurd rfl h'
      · exact h'
    · cases hm

/-- the regenerated registry has what `_parse_abbrev_table` relies on (ENUM_DW_CHILDREN = {0, 1};
    DW_AT_null / DW_FORM_null are 0 and nothing else is; DW_FORM_implicit_const is 0x21 and nothing else is) -/
theorem enum_ok : Proofs.C04.EnumOK Model.genEnumDecode where
  children0 := enum_children.1
  children1 := enum_children.2
  at_null := fun n => ⟨fun h => by
      have := genEnumDecode_only (tid := "ENUM_DW_AT") (name := "DW_AT_null") (v := 0) (by decide +kernel) n h
      omega,
    fun h => by subst h; decide +kernel⟩
  form_null := fun n => ⟨fun h => by
      have := genEnumDecode_only (tid := "ENUM_DW_FORM") (name := "DW_FORM_null") (v := 0) (by decide +kernel) n h
      omega,
    fun h => by subst h; decide +kernel⟩
  form_implicit := fun n => ⟨fun h => by
      have := genEnumDecode_only (tid := "ENUM_DW_FORM") (name := "DW_FORM_implicit_const") (v := 0x21) (by decide +kernel) n h
      omega,
    fun h => by subst h; decide +kernel⟩

/-- `ENUM_DW_UT` (the DWARF 5 unit header's switch key) names the six unit types as the standard does -/
theorem enum_ut : ∀ k : Nat, 1 ≤ k → k ≤ 6 → Model.genEnumDecode "ENUM_DW_UT" k = Spec.Lookup.utName k := by
  intro k h1 h6
  have : k = 1 ∨ k = 2 ∨ k = 3 ∨ k = 4 ∨ k = 5 ∨ k = 6 := by omega
  rcases this with rfl | rfl | rfl | rfl | rfl | rfl <;> decide +kernel

theorem gen_at_iff {name : String} {v : Nat} (h1 : onlyAt "ENUM_DW_AT" name v = true)
    (h2 : Model.genEnumDecode "ENUM_DW_AT" v = some name) (k : Nat) :
    ((Proofs.C04.namesOf Model.genEnumDecode).at_ k == Val.str name) = (k == v) := by
  show (Proofs.Engine.enumVal Model.genEnumDecode "ENUM_DW_AT" k == Val.str name) = _
  rw [Proofs.C04.enumVal_beq_str]
  by_cases hk : k = v
  · subst hk; simp [h2]
  · have : ¬ Model.genEnumDecode "ENUM_DW_AT" k = some name := fun h => by
      have := genEnumDecode_only h1 k h; omega
    simp [this, hk]

/-- the regenerated `ENUM_DW_AT` presents DW_AT_str_offsets_base / addr_base / rnglists_base / loclists_base
    (0x72, 0x73, 0x74, 0x8c) under these names and nothing else under them -/
theorem base_names : Proofs.C04.BaseNames (Proofs.C04.namesOf Model.genEnumDecode) where
  strOffsets := gen_at_iff (v := 0x72) (by decide +kernel) (by decide +kernel)
  addr := gen_at_iff (v := 0x73) (by decide +kernel) (by decide +kernel)
  rnglists := gen_at_iff (v := 0x74) (by decide +kernel) (by decide +kernel)
  loclists := gen_at_iff (v := 0x8c) (by decide +kernel) (by decide +kernel)

/-- any registry: names are strings or numbers, hence equal to themselves and never `None` -/
theorem names_refl (ed : String → Int → Option String) (k : Nat) :
    ((Proofs.C04.namesOf ed).at_ k == (Proofs.C04.namesOf ed).at_ k) = true := by
  show (Proofs.Engine.enumVal ed "ENUM_DW_AT" k == Proofs.Engine.enumVal ed "ENUM_DW_AT" k) = true
  unfold Proofs.Engine.enumVal
  cases ed "ENUM_DW_AT" k <;> simp [BEq.beq, Val.beq]

theorem names_tag (ed : String → Int → Option String) (x : Nat) : (Proofs.C04.namesOf ed).tag x ≠ Val.none := by
  show Proofs.Engine.enumVal ed "ENUM_DW_TAG" x ≠ Val.none
  unfold Proofs.Engine.enumVal
  cases ed "ENUM_DW_TAG" x <;> simp

end PyElf.Props.TieC04
