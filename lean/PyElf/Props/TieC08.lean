/-
  C08 tie: the structs and tables the relocation code relies on, as regenerated
  from /repo, are the ones the C08 theorems are about.
-/
import PyElf.Gen.Structs
import PyElf.Gen.Extra_C08
import PyElf.Spec.ElfStructs
import PyElf.Spec.Reloc
import PyElf.Model.Relocation
import PyElf.Proofs.RelocDyn
namespace PyElf.Props.TieC08
open PyElf

theorem elf_Elf_Rel : Gen.elfBundles.map (fun b => (b.1, b.2.Elf_Rel)) = Spec.allElfCfgs.map (fun c => (c, (Spec.elfStructs c).Elf_Rel)) := by rfl
theorem elf_Elf_Rela : Gen.elfBundles.map (fun b => (b.1, b.2.Elf_Rela)) = Spec.allElfCfgs.map (fun c => (c, (Spec.elfStructs c).Elf_Rela)) := by rfl
theorem elf_Elf_Relr : Gen.elfBundles.map (fun b => (b.1, b.2.Elf_Relr)) = Spec.allElfCfgs.map (fun c => (c, (Spec.elfStructs c).Elf_Relr)) := by rfl
theorem elf_Elf_Sym : Gen.elfBundles.map (fun b => (b.1, b.2.Elf_Sym)) = Spec.allElfCfgs.map (fun c => (c, (Spec.elfStructs c).Elf_Sym)) := by rfl
theorem elf_Elf_Dyn : Gen.elfBundles.map (fun b => (b.1, b.2.Elf_Dyn)) = Spec.allElfCfgs.map (fun c => (c, (Spec.elfStructs c).Elf_Dyn)) := by rfl
theorem elf_Elf_addr : Gen.elfBundles.map (fun b => (b.1, b.2.Elf_addr)) = Spec.allElfCfgs.map (fun c => (c, (Spec.elfStructs c).Elf_addr)) := by rfl
/-- the field structs `_do_apply_relocation` reads and writes with are the unsigned 1/2/4/8-byte integers in the
    file's byte order (what `Model.Reloc.applyRecipe` uses directly) -/
theorem elf_value_structs :
    Gen.elfBundles.map (fun b => (b.2.Elf_byte, b.2.Elf_half, b.2.Elf_word, b.2.Elf_word64))
      = Gen.elfBundles.map (fun b => (Con.uint 1 b.1.le, Con.uint 2 b.1.le, Con.uint 4 b.1.le, Con.uint 8 b.1.le)) := by rfl

/-- the regenerated dynamic-tag tables (common set and the three machine/OS extensions `Elf_Dyn` can be built over)
    name the relocation-related tags DT_NULL, DT_REL*, DT_RELA*, DT_RELR*, DT_JMPREL, DT_PLTREL* with the gABI's
    numbers, and give those names to no other number: the hypothesis `DTagEnv` of `C08.dyn_reloc_tables_exact`
    holds of the library's environment for every configuration -/
theorem dtag_env_common : Proofs.RelocDyn.DTagEnv Model.elfEnv "ENUM_D_TAG_COMMON" :=
  Proofs.RelocDyn.dtagEnv_of_check (by decide +kernel)
theorem dtag_env_solaris : Proofs.RelocDyn.DTagEnv Model.elfEnv "ENUM_D_TAG_COMMON+ENUM_D_TAG_SOLARIS" :=
  Proofs.RelocDyn.dtagEnv_of_check (by decide +kernel)
theorem dtag_env_mips : Proofs.RelocDyn.DTagEnv Model.elfEnv "ENUM_D_TAG_COMMON+ENUM_D_TAG_MIPS" :=
  Proofs.RelocDyn.dtagEnv_of_check (by decide +kernel)
theorem dtag_env_aarch64 : Proofs.RelocDyn.DTagEnv Model.elfEnv "ENUM_D_TAG_COMMON+ENUM_D_TAG_AARCH64" :=
  Proofs.RelocDyn.dtagEnv_of_check (by decide +kernel)

theorem dtag_env (mclass : String) (solaris : Bool) :
    Proofs.RelocDyn.DTagEnv Model.elfEnv (Spec.dTagTable mclass solaris) := by
  unfold Spec.dTagTable
  split
  · exact dtag_env_mips
  · exact dtag_env_mips
  · exact dtag_env_aarch64
  · split
    · exact dtag_env_solaris
    · exact dtag_env_common

end PyElf.Props.TieC08
