/-
  C20 — ARM/RISC-V build attributes and ARM unwind tables are decoded exactly.

  Property theorems only (proofs in Proofs/Attrs*.lean, Proofs/AttrTie.lean, Proofs/EhabiEntry.lean,
  Proofs/EhabiImage.lean, Proofs/EhabiBytecode.lean; fifth wave: Proofs/AttrFile.lean,
  Proofs/EhabiFile.lean, Proofs/AttrHistory.lean, Proofs/AttrErrors.lean).  `pre`/`gap`/`rest` are
  arbitrary surrounding bytes; the models are the mirrors of the (fixed) Python in
  Model/Attributes.lean, Model/Ehabi.lean, Model/AttrFile.lean, Model/AttrHistory.lean; `Gen.*` is
  regenerated from the tree on every run.

  What is proved (no `sorry`):
    sections   `attrs_roundtrip(_gen)`, `prel31_eq_std`, `entry_classification_exact`,
               `reference_decoder_inverts_encoding`, `exidx_roundtrip`, `bytecode_eq_std`;
               `exidx_roundtrip_anywhere`: the handler table anywhere in the file (before / after the
               index table, in another section).
    whole files (fifth wave, composition with C01: `d` an abstract ELF description, `bytes` ANY byte
               string with `Layout d bytes`, `d.wfZ env`):
               `file_attributes_exact`, `file_attributes_by_name_exact`, `file_attributes_by_name_eq`,
               `file_attributes_reduce` — `ELFFile(BytesIO(bytes)).get_section(i)` /
               `.get_section_by_name(name)` is the attributes class of the machine and iterates to
               exactly the description; `file_ehabi_exact`, `file_ehabi_reduce`,
               `file_entry_classification_exact`, `file_ehabi_out_of_range`, `file_ehabi_infos_eq` —
               `EHABIInfo(get_section(i), little_endian)` and `get_ehabi_infos()[k]`: `num_entry()`,
               `get_entry(n)` for all n, table references resolved by file offset; the `_generated`
               forms are about the very functions the driver runs (Props/TieC20File.lean).
    order      `generator_resume_independent_of_stream`, `interleaving_irrelevant`,
               `answers_independent_of_history`, `generator_enumerates_list`, `section_generators_exact`,
               `generator_answers_under_any_interleaving`, `levelwise_eq_nested`, `levelwise_roundtrip`: the answers of the generator API do not depend on where the shared
               stream stands nor on what was called in between; listing first and reading later gives
               the tree the nested observation gives.
    malformed  `attrs_unknown_tag`, `file_attributes_unknown_tag` (ELFParseError at the first unknown
               tag), `attrs_size_overrun` / `file_attributes_size_overrun` (`sh_size` beyond the end of
               the file: ELFParseError after the last subsection), `attrs_truncated` /
               `file_attributes_truncated` (the file ends after ANY byte of the section: ELFParseError),
               `wellformed_prefix_walked`, `bytecode_eq_std` (truncated operands: IndexError),
               `entry_classification_exact` / `file_entry_classification_exact` (references outside the
               file: ELFParseError), `file_ehabi_out_of_range` (IndexError).
  Correspondence-only: sections cut short while the FILE goes on, or with length fields that point into
  the middle of a structure (the walk then reads whatever bytes follow: no closed form; `attr_raw`,
  `hist` streams), zero length fields (the Python loops for ever: model `outOfFuel`), compressed attribute
  sections, `iter_*` with a filter argument, files C01 does not call well-formed, and the tie of the
  hand-written mirrors to the Python text (every stream compares impl == model).
-/
import PyElf.Spec.Attributes
import PyElf.Spec.Ehabi
import PyElf.Model.Env
import PyElf.Model.Attributes
import PyElf.Model.Ehabi
import PyElf.Proofs.Attrs
import PyElf.Proofs.AttrTie
import PyElf.Proofs.EhabiEntry
import PyElf.Proofs.EhabiImage
import PyElf.Proofs.EhabiBytecode
import PyElf.Props.TieC20
import PyElf.Props.TieC20File
import PyElf.Proofs.AttrFile
import PyElf.Proofs.EhabiFile
import PyElf.Proofs.AttrHistory
import PyElf.Proofs.AttrGenerators
import PyElf.Proofs.AttrErrors
import PyElf.Proofs.AttrTrunc
import PyElf.Proofs.C20Examples
namespace PyElf.Props.C20
open PyElf PyElf.Spec

/-! ### build attributes -/

/-- Any well-formed attributes section — any number of vendor subsections, of file / section / symbol
    sub-subsections, of attributes over the ARM or RISC-V tag table (ULEB128, NTBS, compatibility,
    nested also-compatible-with), every ULEB128 with any padding, either byte order, any struct
    configuration, anywhere in a file — is observed through
    iter_subsections → iter_subsubsections → iter_attributes as exactly its subsections,
    sub-subsections and attributes, in order, with the values its tags' kinds prescribe. -/
theorem attrs_roundtrip (arch : Attr.Arch) (env : Env) (cfg : ElfCfg) (sec : Attr.Section) (pre rest : Bytes)
    (henv : ∀ t : Nat, env.enumDecode (Proofs.tagTableId arch) (t : Int) = Attr.tagName arch t)
    (hwf : Attr.sectionWf arch cfg.le sec = true) :
    Model.Attr.attributesSection arch env (Spec.elfStructs cfg)
        (pre ++ Attr.encSection cfg.le sec ++ rest) pre.length (Attr.encSection cfg.le sec).length
      = .ok (Attr.obsSection arch cfg.le sec) :=
  Proofs.attrs_roundtrip arch env cfg sec pre rest henv hwf

/-- the same with the enum tables regenerated from the tree (`Model.elfEnv`): its ARM / RISC-V tag
    tables are the ABI's (`TieC20.arm_tag_table`, `riscv_tag_table`) -/
theorem attrs_roundtrip_gen (arch : Attr.Arch) (cfg : ElfCfg) (sec : Attr.Section) (pre rest : Bytes)
    (hwf : Attr.sectionWf arch cfg.le sec = true) :
    Model.Attr.attributesSection arch Model.elfEnv (Spec.elfStructs cfg)
        (pre ++ Attr.encSection cfg.le sec ++ rest) pre.length (Attr.encSection cfg.le sec).length
      = .ok (Attr.obsSection arch cfg.le sec) :=
  Proofs.attrs_roundtrip arch Model.elfEnv cfg sec pre rest
    (by cases arch
        · exact Proofs.genEnumDecode_arm
        · exact Proofs.genEnumDecode_riscv) hwf

/-- non-vacuity: two vendor subsections of EQUAL length (the input on which the unfixed walk never
    terminated), the second with two sub-subsections, padded ULEB128s, an NTBS, a nested tag -/
example : Attr.sectionWf .arm true
    [⟨[0x61], [⟨⟨1, 1⟩, [], [⟨⟨6, 1⟩, .simple (.int ⟨10, 2⟩)⟩]⟩]⟩,
     ⟨[0x62], [⟨⟨1, 1⟩, [], [⟨⟨6, 1⟩, .simple (.int ⟨11, 2⟩)⟩]⟩]⟩,
     ⟨[0x63], [⟨⟨2, 1⟩, [⟨1, 1⟩, ⟨300, 3⟩], [⟨⟨5, 1⟩, .simple (.str [0x41, 0x39])⟩]⟩,
               ⟨⟨3, 2⟩, [], [⟨⟨65, 1⟩, .also ⟨6, 1⟩ (.int ⟨3, 1⟩)⟩, ⟨⟨32, 1⟩, .compat ⟨1, 1⟩ [0x67]⟩]⟩]⟩] = true := by
  decide

example : Attr.sectionWf .riscv false
    [⟨[0x72], [⟨⟨1, 1⟩, [], [⟨⟨5, 1⟩, .simple (.str [0x72, 0x76])⟩, ⟨⟨4, 1⟩, .simple (.int ⟨16, 1⟩)⟩]⟩]⟩] = true := by
  decide

/-! ### prel31 -/

/-- `arm_expand_prel31` (the T3 translation of the Python) is the EHABI's place-relative 31-bit
    offset, sign-extended from bit 30, modulo 2^64 — for every word and every place -/
theorem prel31_eq_std (w place : Nat) :
    Gen.Pure.arm_expand_prel31 (w : Int) (place : Int) = ((Ehabi.expand w place : Nat) : Int) :=
  Proofs.prel31_eq_std w place

/-- bit 30 set, bit 26 clear (negative): 0x40000000 − 0x30000000; bit 26 set, bit 30 clear (positive) -/
example : Gen.Pure.arm_expand_prel31 0x50000000 0x40000000 = 0x10000000 := by decide
example : Gen.Pure.arm_expand_prel31 0x04000000 0x100 = 0x04000100 := by decide

/-! ### index table entries -/

/-- On EVERY file image and every entry index in range, `get_entry` classifies the entry
    (corrupt / cannot-unwind / inline compact / table-based compact 0-2 / generic) and unpacks
    function address, personality and byte-code exactly as the EHABI reference decoder reads them
    off the words; a reference outside the file is the library's parse error.
    (`htab` only excludes table references that wrap to ≥ 2^63, where CPython's `seek` overflows.) -/
theorem entry_classification_exact (env : Env) (le : Bool) (data : Bytes) (shOffset shSize n : Nat)
    (hn : n < shSize / 8) (hplace : shOffset + 8 * n + 8 < 2 ^ 63)
    (htab : ∀ w1, Ehabi.wordAt le data (shOffset + 8 * n + 4) = some w1 →
              Ehabi.expand w1 (shOffset + 8 * n + 4) < 2 ^ 63) :
    Model.Ehabi.getEntry env (Spec.ehabiStructs le) data shOffset shSize n
      = (match Ehabi.decodeEntry (Ehabi.wordAt le data) (shOffset + 8 * n) with
         | some d => .ok (Ehabi.obsDecoded d)
         | none => .error .elfParseError) :=
  Proofs.getEntry_eq_std env le data shOffset shSize n hn hplace htab

/-- the reference decoder inverts the abstract entries' encoding (Spec-internal consistency) -/
theorem reference_decoder_inverts_encoding (mem : Nat → Option Nat) (e : Ehabi.Entry) (place tab : Nat)
    (hwf : Ehabi.entryWf e = true) (hd : Ehabi.dispOk ((tab : Int) - ((place : Int) + 4)) = true)
    (hne : tab ≠ place + 5) (ht : tab < 2 ^ 62)
    (h0 : mem place = (Ehabi.encIndex e place tab)[0]?) (h1 : mem (place + 4) = (Ehabi.encIndex e place tab)[1]?)
    (hT : ∀ i, i < e.tableWords.length → mem (tab + 4 * i) = e.tableWords[i]?) :
    (Ehabi.decodeEntry mem place).map Ehabi.obsDecoded = some (Ehabi.obsEntry e place tab) :=
  Proofs.decodeEntry_enc mem e place tab hwf hd hne ht h0 h1 hT

/-- Whole tables: for an index table of any number of entries of any kind (prel31 displacements of
    either sign and any size in range), with the handler-table entries laid out after it, anywhere
    in a file image of either byte order, `get_entry(i)` is exactly entry `i`: its function address,
    kind, personality, byte-code and (long forms) table offset. -/
theorem exidx_roundtrip (env : Env) (le : Bool) (pre gap rest : Bytes) (es : List Ehabi.Entry) (i : Nat)
    (hi : i < es.length) (hwf : es.all Ehabi.entryWf = true)
    (hsize : (Ehabi.encImage le pre gap rest es).length < 2 ^ 30) :
    Model.Ehabi.getEntry env (Spec.ehabiStructs le) (Ehabi.encImage le pre gap rest es) pre.length (8 * es.length) i
      = .ok (Ehabi.obsEntry es[i] (pre.length + 8 * i)
              (Proofs.tabOf (pre.length + 8 * es.length + gap.length) es i)) :=
  Proofs.exidx_roundtrip env le pre gap rest es i hi hwf hsize

example : [Ehabi.Entry.cantUnwind (-0x30000000), .inline 0x04000000 0x97 0x84 0x08,
           .table (-4) (.long 1 0xb2 0x81 [[0x01, 0xb0, 0xb0, 0xb0]]), .table 8 (.generic (-0x40000000))].all
          Ehabi.entryWf = true := by decide

/-! ### unwinding byte-code -/

/-- For EVERY byte-code array (any length, the whole opcode space, ULEB128 operands of any length)
    the decoder — the regenerated `ring` dispatch table and the handlers — produces exactly the
    EHABI table-4 disassembly, instruction bytes and mnemonics; an array that ends inside an
    instruction is Python's IndexError. -/
theorem bytecode_eq_std (arr : Bytes) :
    Model.Ehabi.decode Gen.ehabiRing arr
      = (match Ehabi.ehabiStd arr with
         | some l => .ok l
         | none => .error .indexError) :=
  Proofs.decode_eq_std arr

/-- multi-byte ULEB128 operand followed by an opcode < 0x80 (both mishandled before the fix) -/
example : Ehabi.ehabiStd [0xb2, 0x81, 0x82, 0x01, 0x00, 0xb0]
    = some [([0xb2, 0x81, 0x82, 0x01], "vsp = vsp + 67080"), ([0x00], "vsp = vsp + 4"), ([0xb0], "finish")] := by
  decide

/-! ## Fifth wave

  ### exception tables whose handler table lies anywhere -/

/-- `exidx_roundtrip` freed from the image shape `encImage`: for ANY byte string in which the index
    table of `es` sits at `shOffset` and the handler-table entries sit consecutively at `tab0` —
    before the index table, after it, in another section — with every reference expressible as a
    prel31 offset (`refsOk`), `get_entry(i)` is exactly entry `i`. -/
theorem exidx_roundtrip_anywhere (env : Env) (le : Bool) (data irest trest : Bytes) (shOffset tab0 : Nat)
    (es : List Ehabi.Entry) (i : Nat) (hi : i < es.length) (hwf : es.all Ehabi.entryWf = true)
    (hidx : data.drop shOffset = Ehabi.encExidxFrom le shOffset es (Ehabi.tableOffsets tab0 es) ++ irest)
    (htab : data.drop tab0 = Ehabi.encWords le (C20.tableWordsOf es) ++ trest)
    (hrefs : C20.refsOk shOffset es (Ehabi.tableOffsets tab0 es) = true)
    (hsize : shOffset + 8 * es.length < 2 ^ 62) :
    Model.Ehabi.getEntry env (Spec.ehabiStructs le) data shOffset (8 * es.length) i
      = .ok (Ehabi.obsEntry es[i] (shOffset + 8 * i) (Proofs.tabOf tab0 es i)) :=
  Proofs.C20.getEntry_tables env le data irest trest shOffset tab0 es i hi hwf hidx htab hrefs hsize

/-- the handler table 4 bytes into a region BEFORE the index table (negative references) -/
example : C20.refsOk 400 Proofs.C20.exEntries (Ehabi.tableOffsets 100 Proofs.C20.exEntries) = true := by decide

/-! ### whole files (composition with C01)

  `d` is an abstract ELF description (Spec/ElfImage.lean), `bytes` ANY byte string that carries it
  (`Layout d bytes`: header, tables and section bodies sit where the description puts them, nothing
  else is constrained), `d.wfZ env` C01's well-formedness (compressed sections admitted), `obs` what
  C01 says must be reported.  The struct factory and machine classification `Proofs.specSF` /
  `Proofs.specMC` are C01's `specStructs` / `specMachineClass` (`C01.specStructs_eq`); the `_generated`
  forms replace them by the regenerated ones the driver runs.  The model functions
  (Model/AttrFile.lean) are C01's mirror of elffile.py followed by the attribute / EHABI mirrors on the
  header the file object decoded.  `C20.attrSecAt arch d i sec`: the machine is `arch`'s, section `i`
  has raw type 0x70000003, is not flagged SHF_COMPRESSED, its body is the Spec encoding of the
  well-formed `sec` and `sh_size` the encoding's length (decidable; Spec/C20File.lean). -/

open PyElf.Model PyElf.Model.C20 PyElf.Proofs PyElf.Proofs.C20 in
/-- `ELFFile(BytesIO(bytes)).get_section(i)` is an `ARMAttributesSection` / `RISCVAttributesSection`
    and `iter_subsections() → iter_subsubsections() → iter_attributes()` yield exactly the description. -/
theorem file_attributes_exact (env : Env) (he : EnvC20 env) (arch : Attr.Arch)
    (htags : ∀ t : Nat, env.enumDecode (Proofs.tagTableId arch) (t : Int) = Attr.tagName arch t)
    (d : ElfDesc) (bytes : Bytes) (obs : ElfObs)
    (hwf : d.wfZ env = true) (hl : Layout d bytes) (ho : d.observe env = .ok obs)
    (i : Nat) (sec : Attr.Section) (hsec : C20.attrSecAt arch d i sec = true) :
    fileAttrSection env specSF specMC bytes i = .ok (C20.attrKindName arch, Attr.obsSection arch d.le sec) := by
  obtain ⟨sd, hsd, F⟩ := attrSecAt_unpack hsec
  exact fileAttrSection_ok he htags hwf hl ho hsd F

open PyElf.Model PyElf.Model.C20 PyElf.Proofs PyElf.Proofs.C20 in
/-- the same through `get_section_by_name(name)`, `i` being the section the name designates (the last
    one bearing it) -/
theorem file_attributes_by_name_exact (env : Env) (he : EnvC20 env) (arch : Attr.Arch)
    (htags : ∀ t : Nat, env.enumDecode (Proofs.tagTableId arch) (t : Int) = Attr.tagName arch t)
    (d : ElfDesc) (bytes : Bytes) (obs : ElfObs)
    (hwf : d.wfZ env = true) (hl : Layout d bytes) (ho : d.observe env = .ok obs)
    (name : Bytes) (i : Nat) (hname : d.indexOfName name = some i)
    (sec : Attr.Section) (hsec : C20.attrSecAt arch d i sec = true) :
    fileAttrSectionByName env specSF specMC bytes name
      = .ok (some (C20.attrKindName arch, Attr.obsSection arch d.le sec)) := by
  obtain ⟨sd, hsd, F⟩ := attrSecAt_unpack hsec
  exact fileAttrSectionByName_ok he htags hwf hl ho hname hsd F

open PyElf.Model PyElf.Model.C20 PyElf.Proofs PyElf.Proofs.C20 in
/-- for EVERY name and whatever the sections contain: `get_section_by_name(name)` is `None` when no
    section bears the name and `get_section(i)` for the last section `i` that does -/
theorem file_attributes_by_name_eq (env : Env) (d : ElfDesc) (bytes : Bytes) (obs : ElfObs)
    (hwf : d.wfZ env = true) (hl : Layout d bytes) (ho : d.observe env = .ok obs) (name : Bytes) :
    fileAttrSectionByName env specSF specMC bytes name =
      match d.indexOfName name with
      | none => .ok none
      | some i => (fileAttrSection env specSF specMC bytes i).map some :=
  fileAttrSectionByName_eq hwf hl ho name

open PyElf.Model PyElf.Model.C20 PyElf.Proofs PyElf.Proofs.C20 in
/-- Reduction, with no hypothesis on the contents: `get_section(i)` of an uncompressed section of the
    machine's attributes type is the attributes class, and its iteration IS the attribute walk at
    (`sh_offset`, `sh_size`) of the description's header with the description's bundle.  Every
    section-level theorem of this file (round trip, malformed input) thereby speaks about whole files. -/
theorem file_attributes_reduce (env : Env) (he : EnvC20 env) (arch : Attr.Arch)
    (d : ElfDesc) (bytes : Bytes) (obs : ElfObs)
    (hwf : d.wfZ env = true) (hl : Layout d bytes) (ho : d.observe env = .ok obs)
    (i : Nat) (sd : SecDesc) (hsd : d.sections[i]? = some sd)
    (hm : d.mclass = C20.mclassOf arch) (hty : Fields.get? sd.hdr "sh_type" = some (.int 0x70000003))
    (hplain : getNatD sd.hdr "sh_flags" &&& 0x800 = 0) :
    fileAttrSection env specSF specMC bytes i
      = (Model.Attr.attributesSection arch env (elfStructs d.cfg) bytes (getNatD sd.hdr "sh_offset")
          (getNatD sd.hdr "sh_size")).map fun t => (C20.attrKindName arch, t) :=
  fileAttrSection_reduce he hwf hl ho hsd hm hty hplain

open PyElf.Model PyElf.Model.C20 PyElf.Proofs PyElf.Proofs.C20 in
/-- closed over the whole tie: the functions the driver runs on every generated file — regenerated
    enum tables, struct factory and machine classification -/
theorem file_attributes_exact_generated (arch : Attr.Arch) (d : ElfDesc) (bytes : Bytes) (obs : ElfObs)
    (hwf : d.wfZ Model.elfEnv = true) (hl : Layout d bytes) (ho : d.observe Model.elfEnv = .ok obs)
    (i : Nat) (sec : Attr.Section) (hsec : C20.attrSecAt arch d i sec = true) :
    fileAttrSection Model.elfEnv Model.elfStructsFor Model.machineClassOf bytes i
      = .ok (C20.attrKindName arch, Attr.obsSection arch d.le sec) := by
  rw [TieC20File.fileAttrSection_generated]
  exact file_attributes_exact _ TieC20File.elfEnv_c20 arch
    (by cases arch
        · exact Proofs.genEnumDecode_arm
        · exact Proofs.genEnumDecode_riscv) d bytes obs hwf hl ho i sec hsec

open PyElf.Model PyElf.Model.C20 PyElf.Proofs PyElf.Proofs.C20 in
theorem file_attributes_by_name_exact_generated (arch : Attr.Arch) (d : ElfDesc) (bytes : Bytes) (obs : ElfObs)
    (hwf : d.wfZ Model.elfEnv = true) (hl : Layout d bytes) (ho : d.observe Model.elfEnv = .ok obs)
    (name : Bytes) (i : Nat) (hname : d.indexOfName name = some i)
    (sec : Attr.Section) (hsec : C20.attrSecAt arch d i sec = true) :
    fileAttrSectionByName Model.elfEnv Model.elfStructsFor Model.machineClassOf bytes name
      = .ok (some (C20.attrKindName arch, Attr.obsSection arch d.le sec)) := by
  rw [TieC20File.fileAttrSectionByName_generated]
  exact file_attributes_by_name_exact _ TieC20File.elfEnv_c20 arch
    (by cases arch
        · exact Proofs.genEnumDecode_arm
        · exact Proofs.genEnumDecode_riscv) d bytes obs hwf hl ho name i hname sec hsec

/-! non-vacuity.  `attrSecAt` / `exidxAt` / `indexOfName` are kernel-checked on the concrete
    descriptions of Proofs/C20Examples.lean (an ARM shared object with two sections named
    `.ARM.attributes`, `.ARM.extab`, `.ARM.exidx`; a big-endian RISC-V executable).  `ElfDesc.wfZ` and
    `observe` go through `Con.encodeRaw` / `Con.decodeRaw`, which are compiled by well-founded recursion
    and do not reduce in the kernel (as in C01 / C14 / C15): they are evaluated at build time by
    `#guard`, and by the driver on every description of the `file_attr` / `file_ehabi` streams (the
    harness counts the cases inside the theorems' domain as `file_*:theorem-domain`).
    `C01.assemble_layout_z` produces layouts. -/

example : C20.attrSecAt .arm Proofs.C20.exArmFile 1 Proofs.C20.exArmSec = true := by decide
example : C20.attrSecAt .arm Proofs.C20.exArmFile 4 Proofs.C20.exArmSec2 = true := by decide
/-- by name: the LATER of the two sections called `.ARM.attributes` -/
example : Proofs.C20.exArmFile.indexOfName Proofs.C20.nAttr = some 4 := by decide
example : C20.attrSecAt .riscv Proofs.C20.exRiscvFile 2 Proofs.C20.exRiscvSec = true := by decide
#guard Proofs.C20.exArmFile.wfZ Model.elfEnv && (Proofs.C20.exArmFile.observe Model.elfEnv).toOption.isSome &&
  (Proofs.C20.exArmFile.assemble 3).isSome
#guard Proofs.C20.exRiscvFile.wfZ Model.elfEnv && (Proofs.C20.exRiscvFile.observe Model.elfEnv).toOption.isSome &&
  (Proofs.C20.exRiscvFile.assemble 0).isSome

/-! ### exception tables in whole files

  `C20.exidxAt d i x xpre es`: an ARM file whose section `i` has raw type 0x70000001, body the index
  table of the well-formed `es` and `sh_size = 8 * |es|`; the handler-table entries lie consecutively
  in the body of section `x`, `xpre` bytes in; every reference is expressible (`refsOk`); the index
  table lies below 2^62.  `EHABIInfo` never consults `sh_link`: the table words are read through the
  file's stream at the offsets the index words encode. -/

open PyElf.Model PyElf.Model.C20 PyElf.Proofs PyElf.Proofs.C20 in
/-- `EHABIInfo(ELFFile(BytesIO(bytes)).get_section(i), elffile.little_endian)`: `num_entry()` is the
    number of entries and `get_entry(n)`, for every `n`, is exactly entry `n` — function address, kind,
    personality, byte-code and (long forms) the file offset of its `.ARM.extab` entry. -/
theorem file_ehabi_exact (env : Env) (he : EnvC20 env) (d : ElfDesc) (bytes : Bytes) (obs : ElfObs)
    (hwf : d.wfZ env = true) (hl : Layout d bytes) (ho : d.observe env = .ok obs)
    (i x xpre : Nat) (es : List Ehabi.Entry) (hex : C20.exidxAt d i x xpre es = true) :
    fileEhabiNumEntry env specSF specMC specEH bytes i = .ok es.length ∧
    ∀ n (hn : n < es.length), fileEhabiEntry env specSF specMC specEH bytes i n
      = .ok (Ehabi.obsEntry es[n] (C20.secOffset d i + 8 * n) (Proofs.tabOf (C20.secOffset d x + xpre) es n)) := by
  obtain ⟨sd, sx, hsd, hsx, F⟩ := exidxAt_unpack hex
  have e1 : C20.secOffset d i = getNatD sd.hdr "sh_offset" := by simp [C20.secOffset, hsd]
  have e2 : C20.secOffset d x = getNatD sx.hdr "sh_offset" := by simp [C20.secOffset, hsx]
  rw [e1, e2]
  exact fileEhabi_ok he hwf hl ho hsd hsx F

open PyElf.Model PyElf.Model.C20 PyElf.Proofs PyElf.Proofs.C20 in
theorem file_ehabi_exact_generated (d : ElfDesc) (bytes : Bytes) (obs : ElfObs)
    (hwf : d.wfZ Model.elfEnv = true) (hl : Layout d bytes) (ho : d.observe Model.elfEnv = .ok obs)
    (i x xpre : Nat) (es : List Ehabi.Entry) (hex : C20.exidxAt d i x xpre es = true) :
    fileEhabiNumEntry Model.elfEnv Model.elfStructsFor Model.machineClassOf Model.ehabiStructsFor bytes i = .ok es.length ∧
    ∀ n (hn : n < es.length),
      fileEhabiEntry Model.elfEnv Model.elfStructsFor Model.machineClassOf Model.ehabiStructsFor bytes i n
        = .ok (Ehabi.obsEntry es[n] (C20.secOffset d i + 8 * n) (Proofs.tabOf (C20.secOffset d x + xpre) es n)) := by
  rw [TieC20File.fileEhabiNumEntry_generated]
  simp only [TieC20File.fileEhabiEntry_generated]
  exact file_ehabi_exact _ TieC20File.elfEnv_c20 d bytes obs hwf hl ho i x xpre es hex

open PyElf.Model PyElf.Model.C20 PyElf.Proofs PyElf.Proofs.C20 in
/-- Reduction, for ANY contents of an SHT_ARM_EXIDX section of an ARM file: `get_entry(n)` and
    `num_entry()` of the `EHABIInfo` over `get_section(i)` are the section-level functions at
    (`sh_offset`, `sh_size`) of the description's header, on the whole byte string. -/
theorem file_ehabi_reduce (env : Env) (he : EnvC20 env) (d : ElfDesc) (bytes : Bytes) (obs : ElfObs)
    (hwf : d.wfZ env = true) (hl : Layout d bytes) (ho : d.observe env = .ok obs)
    (i : Nat) (sd : SecDesc) (hsd : d.sections[i]? = some sd)
    (hm : d.mclass = "EM_ARM") (hty : Fields.get? sd.hdr "sh_type" = some (.int 0x70000001)) (n : Nat) :
    fileEhabiEntry env specSF specMC specEH bytes i n
      = Model.Ehabi.getEntry env (Spec.ehabiStructs d.le) bytes (getNatD sd.hdr "sh_offset") (getNatD sd.hdr "sh_size") n ∧
    fileEhabiNumEntry env specSF specMC specEH bytes i = .ok (getNatD sd.hdr "sh_size" / 8) :=
  fileEhabiEntry_reduce he hwf hl ho hsd hm hty n

open PyElf.Model PyElf.Model.C20 PyElf.Proofs PyElf.Proofs.C20 in
/-- `entry_classification_exact` for whole files: whatever the index section and the rest of the file
    contain, `get_entry(n)` (n in range) classifies and unpacks the entry exactly as the EHABI reference
    decoder reads it off the words of the FILE; a reference outside the file is ELFParseError. -/
theorem file_entry_classification_exact (env : Env) (he : EnvC20 env) (d : ElfDesc) (bytes : Bytes) (obs : ElfObs)
    (hwf : d.wfZ env = true) (hl : Layout d bytes) (ho : d.observe env = .ok obs)
    (i : Nat) (sd : SecDesc) (hsd : d.sections[i]? = some sd)
    (hm : d.mclass = "EM_ARM") (hty : Fields.get? sd.hdr "sh_type" = some (.int 0x70000001)) (n : Nat)
    (hn : n < getNatD sd.hdr "sh_size" / 8) (hplace : getNatD sd.hdr "sh_offset" + 8 * n + 8 < 2 ^ 63)
    (htab : ∀ w1, Ehabi.wordAt d.le bytes (getNatD sd.hdr "sh_offset" + 8 * n + 4) = some w1 →
              Ehabi.expand w1 (getNatD sd.hdr "sh_offset" + 8 * n + 4) < 2 ^ 63) :
    fileEhabiEntry env specSF specMC specEH bytes i n
      = (match Ehabi.decodeEntry (Ehabi.wordAt d.le bytes) (getNatD sd.hdr "sh_offset" + 8 * n) with
         | some dd => .ok (Ehabi.obsDecoded dd)
         | none => .error .elfParseError) := by
  rw [(fileEhabiEntry_reduce he hwf hl ho hsd hm hty n).1]
  exact Proofs.getEntry_eq_std env d.le bytes _ _ n hn hplace htab

open PyElf.Model PyElf.Model.C20 PyElf.Proofs PyElf.Proofs.C20 in
/-- an index at or beyond `num_entry()`: IndexError -/
theorem file_ehabi_out_of_range (env : Env) (he : EnvC20 env) (d : ElfDesc) (bytes : Bytes) (obs : ElfObs)
    (hwf : d.wfZ env = true) (hl : Layout d bytes) (ho : d.observe env = .ok obs)
    (i : Nat) (sd : SecDesc) (hsd : d.sections[i]? = some sd)
    (hm : d.mclass = "EM_ARM") (hty : Fields.get? sd.hdr "sh_type" = some (.int 0x70000001))
    (n : Nat) (hn : getNatD sd.hdr "sh_size" / 8 ≤ n) :
    fileEhabiEntry env specSF specMC specEH bytes i n = .error .indexError :=
  fileEhabi_out_of_range he hwf hl ho hsd hm hty hn

open PyElf.Model PyElf.Model.C20 PyElf.Proofs PyElf.Proofs.C20 in
/-- `ELFFile.get_ehabi_infos()` of a file that is not relocatable (`notRel`; ET_REL is an
    `assert False` in the library): `get_ehabi_infos()[k].get_entry(n)` is
    `EHABIInfo(get_section(i), little_endian).get_entry(n)` for the `k`-th section `i` (in file order)
    that a reader reports with type SHT_ARM_EXIDX (`exidxIndices obs`); when there is none the result is
    `None` (subscripting it: TypeError), `k` beyond the list is IndexError.  Together with
    `file_ehabi_exact` / `file_entry_classification_exact`: every entry of every info. -/
theorem file_ehabi_infos_eq (env : Env) (d : ElfDesc) (bytes : Bytes) (obs : ElfObs)
    (hwf : d.wfZ env = true) (hl : Layout d bytes) (ho : d.observe env = .ok obs) (hnr : C20.notRel obs = true)
    (k n : Nat) :
    fileEhabiInfosEntry env specSF specMC specEH bytes k n
      = (if C20.exidxIndices obs = [] then .error .typeError
         else match (C20.exidxIndices obs)[k]? with
           | none => .error .indexError
           | some i => fileEhabiEntry env specSF specMC specEH bytes i n) :=
  fileEhabiInfosEntry_eq hwf hl ho hnr k n

open PyElf.Model PyElf.Model.C20 PyElf.Proofs PyElf.Proofs.C20 in
theorem file_ehabi_infos_eq_generated (d : ElfDesc) (bytes : Bytes) (obs : ElfObs)
    (hwf : d.wfZ Model.elfEnv = true) (hl : Layout d bytes) (ho : d.observe Model.elfEnv = .ok obs)
    (hnr : C20.notRel obs = true) (k n : Nat) :
    fileEhabiInfosEntry Model.elfEnv Model.elfStructsFor Model.machineClassOf Model.ehabiStructsFor bytes k n
      = (if C20.exidxIndices obs = [] then .error .typeError
         else match (C20.exidxIndices obs)[k]? with
           | none => .error .indexError
           | some i => fileEhabiEntry Model.elfEnv Model.elfStructsFor Model.machineClassOf Model.ehabiStructsFor bytes i n) := by
  rw [TieC20File.fileEhabiInfosEntry_generated]
  simp only [TieC20File.fileEhabiEntry_generated]
  exact file_ehabi_infos_eq _ d bytes obs hwf hl ho hnr k n

/-- the index table of Proofs/C20Examples.lean: section 3, AFTER `.ARM.extab` (section 2, table 4 bytes
    in): a cannot-unwind, an inline, a long compact and a generic entry, negative table references -/
example : C20.exidxAt Proofs.C20.exArmFile 3 2 4 Proofs.C20.exEntries = true := by decide
#guard (match Proofs.C20.exArmFile.observe Model.elfEnv with
        | .ok o => C20.notRel o && C20.exidxIndices o == [3]
        | .error _ => false)

/-! ### order-independence of the attribute API

  Model/AttrHistory.lean: objects are immutable, a suspended generator keeps its own `offset`, the only
  shared mutable state is the position of the file's stream (`HState.pos`), which every resumption
  receives and returns (`Gen.resume`).  `Op.seek` stands for ANY other reader of the stream between two
  calls.  (The harness stream `hist` runs the same histories through the library and compares every
  answer and the stream position after every call.) -/

open PyElf.Model.C20 in
/-- a resumed generator — `next()` on the result of `iter_subsections()`, `iter_subsubsections()`,
    `iter_attributes()` — goes one of three ways, each UNIFORMLY in where the shared stream stands:
    StopIteration (the stream is left where it was), an item and a stream position that depend on the
    generator alone, or an exception -/
theorem generator_resume_independent_of_stream (env : Env) (S : ElfStructs) (data : Bytes) (g : Gen) :
    (∀ q, Gen.resume env S data g q = .ok (none, q)) ∨
    (∃ x q, ∀ q', Gen.resume env S data g q' = .ok (some x, q)) ∨
    (∃ e, ∀ q', Gen.resume env S data g q' = .error e) :=
  Proofs.C20.resume_cases g

open PyElf.Model.C20 in
/-- In any state in which handle `g` holds the generator `gen`, and for ANY history `ops` —
    repositioning of the shared stream, creating / advancing / draining / abandoning other generators
    of this or ANOTHER section of the file, section constructors, list-style properties — the answers to
    the `next(g)` calls are exactly what `gen` answers when it is advanced alone. -/
theorem interleaving_irrelevant (env : Env) (S : ElfStructs) (data : Bytes) (fuel g : Nat) (ops : List Op)
    (st : HState) (gen : Gen) (hg : st.gens[g]? = some gen) :
    Proofs.C20.nextAnswers env S data g fuel st ops
      = Proofs.C20.soloAnswers env S data gen (ops.countP (Op.isNext g)) :=
  Proofs.C20.interleaving_irrelevant fuel g ops st gen hg

open PyElf.Model.C20 in
/-- … hence two histories that advance the generator equally often get the same answers from it,
    whatever else they do -/
theorem answers_independent_of_history (env : Env) (S : ElfStructs) (data : Bytes) (fuel g : Nat)
    (st st' : HState) (gen : Gen) (hg : st.gens[g]? = some gen) (hg' : st'.gens[g]? = some gen)
    (ops ops' : List Op) (hc : ops.countP (Op.isNext g) = ops'.countP (Op.isNext g)) :
    Proofs.C20.nextAnswers env S data g fuel st ops = Proofs.C20.nextAnswers env S data g fuel st' ops' :=
  Proofs.C20.answers_independent_of_history fuel g st st' gen hg hg' ops ops' hc

/-- a fresh attribute generator in a state whose stream stands anywhere, advanced twice with a seek, a
    second generator and a list-style call in between: 2 of the 6 calls are `next(0)` -/
example : ([Model.C20.Op.next 0, .seek 7, .iterAttrs ⟨.arm, 0, ⟨.none, .none, .none, false⟩, 0⟩, .next 1,
            .listAttrs ⟨.arm, 0, ⟨.none, .none, .none, false⟩, 0⟩, .next 0].countP (Model.C20.Op.isNext 0)) = 2 := by
  decide

open PyElf.Model.C20 in
/-- `list(generator)` and stepping agree: if draining `gen` gives `xs`, advancing it alone answers the
    items of `xs` in order, then StopIteration for ever -/
theorem generator_enumerates_list (env : Env) (S : ElfStructs) (data : Bytes) (fuel : Nat) (gen : Gen)
    (pos : Nat) (xs : List Item) (q : Nat) (h : Gen.collect env S data fuel gen pos [] = .ok (xs, q)) (k : Nat) :
    Proofs.C20.soloAnswers env S data gen (xs.length + k) = xs.map .item ++ List.replicate k .stop := by
  obtain ⟨ys, hxs, hsolo⟩ := Proofs.C20.solo_of_collect fuel gen pos [] xs q h
  simp only [List.reverse_nil, List.nil_append] at hxs
  subst hxs
  exact hsolo k

open PyElf.Model.C20 PyElf.Proofs.C20 in
/-- THE GENERATOR API ON A WELL-FORMED SECTION.  For every well-formed section anywhere in a file: the
    constructor succeeds, and from ANY position of the shared stream `list(sec.iter_subsections())` is
    one object per subsection of the description (`SubsecMatch`: its length and vendor name),
    `list(iter_subsubsections())` of each such object one object per sub-subsection (`SubsubMatch`: its
    header), and `list(iter_attributes())` of each of those the attribute list of the description
    (`AttrsExact`) — every one of these generators from any stream position. -/
theorem section_generators_exact (arch : Attr.Arch) (cfg : ElfCfg) (sec : Attr.Section) (pre rest : Bytes)
    (hwf : Attr.sectionWf arch cfg.le sec = true) :
    ∃ o, (∀ p, openSec Model.elfEnv (Spec.elfStructs cfg) (pre ++ Attr.encSection cfg.le sec ++ rest) arch pre.length
              (Attr.encSection cfg.le sec).length p = .ok (o, pre.length + 1)) ∧
      ∀ pos, ∃ xs q, Gen.collect Model.elfEnv (Spec.elfStructs cfg) (pre ++ Attr.encSection cfg.le sec ++ rest)
            ((pre ++ Attr.encSection cfg.le sec ++ rest).length + 3) (.subsecs o o.subsecStart) pos [] = .ok (xs, q) ∧
          AllMatch (SubsecMatch arch Model.elfEnv cfg (pre ++ Attr.encSection cfg.le sec ++ rest)) xs sec :=
  Proofs.C20.section_generators_exact (env := Model.elfEnv) (cfg := cfg) (data := pre ++ Attr.encSection cfg.le sec ++ rest)
    (by cases arch
        · exact Proofs.genEnumDecode_arm
        · exact Proofs.genEnumDecode_riscv) sec rest pre.length hwf (Proofs.drop_pre _ _ _)

open PyElf.Model.C20 PyElf.Proofs.C20 in
/-- … and therefore under ANY interleaving: when `list(gen)` is `zs` (as `section_generators_exact` says
    of every generator of a well-formed section), then in any state in which handle `g` holds `gen` and
    for any history `ops`, the answers to the `c` calls `next(g)` are the first `c` of: the items of `zs`
    in order, then StopIteration for ever — whatever else the history does to the shared stream. -/
theorem generator_answers_under_any_interleaving (env : Env) (S : ElfStructs) (data : Bytes) (fuel' : Nat) (gen : Gen)
    (pos : Nat) (zs : List Item) (q : Nat) (hc : Gen.collect env S data fuel' gen pos [] = .ok (zs, q))
    (fuel g : Nat) (st : HState) (hg : st.gens[g]? = some gen) (ops : List Op) :
    nextAnswers env S data g fuel st ops
      = (zs.map Ans.item ++ List.replicate (ops.countP (Op.isNext g)) Ans.stop).take (ops.countP (Op.isNext g)) :=
  answers_of_collect hc fuel g st hg ops

/-- LEVELWISE = NESTED: whenever the nested observation of a section (every generator drained before
    the next one is advanced — the subject of `attrs_roundtrip`) returns a tree, listing all subsections
    first, then the sub-subsections of each, then the attributes of each — all through the one shared
    stream — returns the same tree.  On every byte string, well formed or not. -/
theorem levelwise_eq_nested (env : Env) (S : ElfStructs) (data : Bytes) (arch : Attr.Arch) (shOffset shSize : Nat)
    (v : Val) (h : Model.Attr.attributesSection arch env S data shOffset shSize = .ok v) :
    Model.C20.levelwise env S data arch shOffset shSize = .ok v :=
  Proofs.C20.levelwise_of_nested arch shOffset shSize v h

/-- … in particular for every well-formed section: the levelwise observation is the description -/
theorem levelwise_roundtrip (arch : Attr.Arch) (cfg : ElfCfg) (sec : Attr.Section) (pre rest : Bytes)
    (hwf : Attr.sectionWf arch cfg.le sec = true) :
    Model.C20.levelwise Model.elfEnv (Spec.elfStructs cfg) (pre ++ Attr.encSection cfg.le sec ++ rest) arch
        pre.length (Attr.encSection cfg.le sec).length
      = .ok (Attr.obsSection arch cfg.le sec) :=
  levelwise_eq_nested _ _ _ arch _ _ _ (attrs_roundtrip_gen arch cfg sec pre rest hwf)

/-! ### malformed sections -/

/-- UNKNOWN TAG.  When the first malformation of a section in document order is an attribute whose tag
    number is not in the architecture's public table (`sectionUnknownTag`: every subsection,
    sub-subsection and attribute before it is well formed, its own sub-subsection and subsection
    headers are well formed, nothing is asked of what follows), the nested observation raises
    ELFParseError (the library's `Enum` has no default) — wherever the section sits, whatever follows. -/
theorem attrs_unknown_tag (arch : Attr.Arch) (cfg : ElfCfg) (sec : Attr.Section) (pre rest : Bytes)
    (hbad : C20.sectionUnknownTag arch cfg.le sec = true) :
    Model.Attr.attributesSection arch Model.elfEnv (Spec.elfStructs cfg)
        (pre ++ Attr.encSection cfg.le sec ++ rest) pre.length (Attr.encSection cfg.le sec).length
      = .error .elfParseError :=
  Proofs.C20.attrs_unknown_tag_at (env := Model.elfEnv) (cfg := cfg) (data := pre ++ Attr.encSection cfg.le sec ++ rest)
    (by cases arch
        · exact Proofs.genEnumDecode_arm
        · exact Proofs.genEnumDecode_riscv) sec rest pre.length hbad (Proofs.drop_pre _ _ _)

/-- tag 33 after a well-formed attribute, in the second sub-subsection of the second subsection, with
    more attributes and a further subsection after it -/
example : C20.sectionUnknownTag .arm true Proofs.C20.exUnknownTagSec = true := by decide

open PyElf.Model PyElf.Model.C20 PyElf.Proofs PyElf.Proofs.C20 in
/-- the same for whole files: `get_section(i)` succeeds (the constructor reads the format byte only),
    the iteration raises ELFParseError -/
theorem file_attributes_unknown_tag (arch : Attr.Arch) (d : ElfDesc) (bytes : Bytes) (obs : ElfObs)
    (hwf : d.wfZ Model.elfEnv = true) (hl : Layout d bytes) (ho : d.observe Model.elfEnv = .ok obs)
    (i : Nat) (sd : SecDesc) (hsd : d.sections[i]? = some sd)
    (hm : d.mclass = C20.mclassOf arch) (hty : Fields.get? sd.hdr "sh_type" = some (.int 0x70000003))
    (hplain : getNatD sd.hdr "sh_flags" &&& 0x800 = 0)
    (sec : Attr.Section) (hbad : C20.sectionUnknownTag arch d.le sec = true)
    (hbody : sd.body = some (Attr.encSection d.le sec))
    (hsize : getNatD sd.hdr "sh_size" = (Attr.encSection d.le sec).length) :
    fileAttrSection Model.elfEnv specSF specMC bytes i = .error .elfParseError := by
  rw [fileAttrSection_reduce TieC20File.elfEnv_c20 hwf hl ho hsd hm hty hplain, hsize]
  have hdrop := Proofs.C20.body_drop (layout_facts hl) (List.mem_of_getElem? hsd) hbody
  have := Proofs.C20.attrs_unknown_tag_at (env := Model.elfEnv) (cfg := d.cfg) (data := bytes)
    (by cases arch
        · exact Proofs.genEnumDecode_arm
        · exact Proofs.genEnumDecode_riscv) sec _ _ hbad hdrop
  have e : d.cfg.le = d.le := rfl
  rw [e] at this
  rw [this]
  rfl

/-- SIZE RUNNING PAST THE FILE.  A well-formed section with which the file ENDS, under a section header
    whose `sh_size` claims more than the encoding's length: every subsection is walked (through the
    generator API: yielded), then the walk looks for another subsection header at the end of the file:
    ELFParseError. -/
theorem attrs_size_overrun (arch : Attr.Arch) (cfg : ElfCfg) (sec : Attr.Section) (pre : Bytes) (shSize : Nat)
    (hwf : Attr.sectionWf arch cfg.le sec = true) (hsize : (Attr.encSection cfg.le sec).length < shSize) :
    Model.Attr.attributesSection arch Model.elfEnv (Spec.elfStructs cfg)
        (pre ++ Attr.encSection cfg.le sec) pre.length shSize = .error .elfParseError :=
  Proofs.C20.attrs_size_overrun_at (env := Model.elfEnv) (cfg := cfg) (data := pre ++ Attr.encSection cfg.le sec)
    (by cases arch
        · exact Proofs.genEnumDecode_arm
        · exact Proofs.genEnumDecode_riscv) sec pre.length shSize hwf (Proofs.drop_pre' _ _) hsize

/-- TRUNCATED FILE.  The file ends inside a well-formed attributes section — after ANY `k` of its bytes
    (`k` less than its length: inside the format byte, a subsection length, a vendor name, a scope tag, a
    size field, a section-number list, a tag, a ULEB128 / NTBS / compatibility / nested value) — while
    the section header still claims the full size: the nested observation raises ELFParseError. -/
theorem attrs_truncated (arch : Attr.Arch) (cfg : ElfCfg) (sec : Attr.Section) (pre : Bytes) (k : Nat)
    (hwf : Attr.sectionWf arch cfg.le sec = true) (hk : k < (Attr.encSection cfg.le sec).length) :
    Model.Attr.attributesSection arch Model.elfEnv (Spec.elfStructs cfg)
        (pre ++ (Attr.encSection cfg.le sec).take k) pre.length (Attr.encSection cfg.le sec).length
      = .error .elfParseError :=
  Proofs.C20.attrs_truncated_at (env := Model.elfEnv) (cfg := cfg) (data := pre ++ (Attr.encSection cfg.le sec).take k)
    (by cases arch
        · exact Proofs.genEnumDecode_arm
        · exact Proofs.genEnumDecode_riscv) sec pre.length k hwf (Proofs.drop_pre' _ _) hk

/-- a cut after 23 of the 61 bytes of the section of Proofs/C20Examples.lean (inside an NTBS) -/
example : (23 : Nat) < (Attr.encSection true Proofs.C20.exArmSec).length := by decide

open PyElf.Model PyElf.Model.C20 PyElf.Proofs PyElf.Proofs.C20 in
/-- … for whole files: a description whose attributes section claims (`sh_size`) the length of the
    encoding of a well-formed `sec`, in a byte string that ENDS `k` bytes into it (`hfile`; the
    description's body is what the file holds): `get_section(i)` succeeds for `k ≥ 1` and the
    iteration raises ELFParseError. -/
theorem file_attributes_truncated (arch : Attr.Arch) (d : ElfDesc) (bytes : Bytes) (obs : ElfObs)
    (hwf : d.wfZ Model.elfEnv = true) (hl : Layout d bytes) (ho : d.observe Model.elfEnv = .ok obs)
    (i : Nat) (sd : SecDesc) (hsd : d.sections[i]? = some sd)
    (hm : d.mclass = C20.mclassOf arch) (hty : Fields.get? sd.hdr "sh_type" = some (.int 0x70000003))
    (hplain : getNatD sd.hdr "sh_flags" &&& 0x800 = 0)
    (sec : Attr.Section) (hsec : Attr.sectionWf arch d.le sec = true) (k : Nat)
    (hk : k < (Attr.encSection d.le sec).length)
    (hsize : getNatD sd.hdr "sh_size" = (Attr.encSection d.le sec).length)
    (hfile : bytes.drop (getNatD sd.hdr "sh_offset") = (Attr.encSection d.le sec).take k) :
    fileAttrSection Model.elfEnv specSF specMC bytes i = .error .elfParseError := by
  rw [fileAttrSection_reduce TieC20File.elfEnv_c20 hwf hl ho hsd hm hty hplain, hsize]
  have := Proofs.C20.attrs_truncated_at (env := Model.elfEnv) (cfg := d.cfg) (data := bytes)
    (by cases arch
        · exact Proofs.genEnumDecode_arm
        · exact Proofs.genEnumDecode_riscv) sec _ k hsec hfile hk
  have e : d.cfg.le = d.le := rfl
  rw [e] at this
  rw [this]
  rfl

open PyElf.Model PyElf.Model.C20 PyElf.Proofs PyElf.Proofs.C20 in
/-- … and `attrs_size_overrun` for whole files: the file ends with the (complete, well-formed) section,
    `sh_size` claims more -/
theorem file_attributes_size_overrun (arch : Attr.Arch) (d : ElfDesc) (bytes : Bytes) (obs : ElfObs)
    (hwf : d.wfZ Model.elfEnv = true) (hl : Layout d bytes) (ho : d.observe Model.elfEnv = .ok obs)
    (i : Nat) (sd : SecDesc) (hsd : d.sections[i]? = some sd)
    (hm : d.mclass = C20.mclassOf arch) (hty : Fields.get? sd.hdr "sh_type" = some (.int 0x70000003))
    (hplain : getNatD sd.hdr "sh_flags" &&& 0x800 = 0)
    (sec : Attr.Section) (hsec : Attr.sectionWf arch d.le sec = true)
    (hsize : (Attr.encSection d.le sec).length < getNatD sd.hdr "sh_size")
    (hfile : bytes.drop (getNatD sd.hdr "sh_offset") = Attr.encSection d.le sec) :
    fileAttrSection Model.elfEnv specSF specMC bytes i = .error .elfParseError := by
  rw [fileAttrSection_reduce TieC20File.elfEnv_c20 hwf hl ho hsd hm hty hplain]
  have := Proofs.C20.attrs_size_overrun_at (env := Model.elfEnv) (cfg := d.cfg) (data := bytes)
    (by cases arch
        · exact Proofs.genEnumDecode_arm
        · exact Proofs.genEnumDecode_riscv) sec _ _ hsec hfile hsize
  rw [this]
  rfl

/-- A well-formed PREFIX is walked exactly, whatever the loop is heading for and whatever follows: the
    subsection walk over `sec ++ …` towards any end at or beyond the prefix continues, after `sec`, at
    the end of `sec` with the observations of `sec` accumulated.  (The stepping lemma behind both
    malformed-input theorems; `Proofs.C20.subsubLoop_step` / `attributesLoop_step` are its analogues
    one and two levels down.) -/
theorem wellformed_prefix_walked (arch : Attr.Arch) (cfg : ElfCfg) (data : Bytes) (sec : List Attr.SubSection)
    (fuel offset : Nat) (acc : List Val) (rest : Bytes) (end_ : Nat)
    (hwf : ∀ s ∈ sec, Attr.subSectionWf arch cfg.le s = true)
    (hd : data.drop offset = Attr.encSubSections cfg.le sec ++ rest)
    (hle : offset + (Attr.encSubSections cfg.le sec).length ≤ end_) :
    Model.Attr.subsecLoop arch Model.elfEnv (Spec.elfStructs cfg) data end_ (fuel + sec.length) offset acc
      = Model.Attr.subsecLoop arch Model.elfEnv (Spec.elfStructs cfg) data end_ fuel
          (offset + (Attr.encSubSections cfg.le sec).length) ((sec.map (Attr.obsSubSection arch cfg.le)).reverse ++ acc) :=
  Proofs.C20.subsecLoop_step (env := Model.elfEnv)
    (by cases arch
        · exact Proofs.genEnumDecode_arm
        · exact Proofs.genEnumDecode_riscv) sec fuel offset acc rest end_ hwf hd hle


end PyElf.Props.C20
