/-
  C20 — ARM/RISC-V build attributes and ARM unwind tables are decoded exactly.

  Property theorems only (proofs in Proofs/Attrs*.lean, Proofs/AttrTie.lean, Proofs/EhabiEntry.lean,
  Proofs/EhabiImage.lean, Proofs/EhabiBytecode.lean).  `pre`/`gap`/`rest` are arbitrary surrounding
  bytes; the models are the mirrors of the (fixed) Python in Model/Attributes.lean, Model/Ehabi.lean;
  `Gen.*` is regenerated from the tree on every run.
-/
import PyElf.Spec.Attributes
import PyElf.Spec.Ehabi
import PyElf.Model.Env
import PyElf.Model.Attributes
import PyElf.Model.Ehabi
import PyElf.Proofs.Attrs
import PyElf.Proofs.AttrTie
import PyElf.Proofs.EhabiEntry
import PyElf.Proofs.EhabiImage
import PyElf.Proofs.EhabiBytecode
import PyElf.Props.TieC20
namespace PyElf.Props.C20
open PyElf PyElf.Spec

/-! ### build attributes -/

/-- Any well-formed attributes section — any number of vendor subsections, of file / section / symbol
    sub-subsections, of attributes over the ARM or RISC-V tag table (ULEB128, NTBS, compatibility,
    nested also-compatible-with), every ULEB128 with any padding, either byte order, any struct
    configuration, anywhere in a file — is observed through
    iter_subsections → iter_subsubsections → iter_attributes as exactly its subsections,
    sub-subsections and attributes, in order, with the values its tags' kinds prescribe. -/
theorem attrs_roundtrip (arch : Attr.Arch) (env : Env) (cfg : ElfCfg) (sec : Attr.Section) (pre rest : Bytes)
    (henv : ∀ t : Nat, env.enumDecode (Proofs.tagTableId arch) (t : Int) = Attr.tagName arch t)
    (hwf : Attr.sectionWf arch cfg.le sec = true) :
    Model.Attr.attributesSection arch env (Spec.elfStructs cfg)
        (pre ++ Attr.encSection cfg.le sec ++ rest) pre.length (Attr.encSection cfg.le sec).length
      = .ok (Attr.obsSection arch cfg.le sec) :=
  Proofs.attrs_roundtrip arch env cfg sec pre rest henv hwf

/-- the same with the enum tables regenerated from the tree (`Model.elfEnv`): its ARM / RISC-V tag
    tables are the ABI's (`TieC20.arm_tag_table`, `riscv_tag_table`) -/
theorem attrs_roundtrip_gen (arch : Attr.Arch) (cfg : ElfCfg) (sec : Attr.Section) (pre rest : Bytes)
    (hwf : Attr.sectionWf arch cfg.le sec = true) :
    Model.Attr.attributesSection arch Model.elfEnv (Spec.elfStructs cfg)
        (pre ++ Attr.encSection cfg.le sec ++ rest) pre.length (Attr.encSection cfg.le sec).length
      = .ok (Attr.obsSection arch cfg.le sec) :=
  Proofs.attrs_roundtrip arch Model.elfEnv cfg sec pre rest
    (by cases arch
        · exact Proofs.genEnumDecode_arm
        · exact Proofs.genEnumDecode_riscv) hwf

/-- non-vacuity: two vendor subsections of EQUAL length (the input on which the unfixed walk never
    terminated), the second with two sub-subsections, padded ULEB128s, an NTBS, a nested tag -/
example : Attr.sectionWf .arm true
    [⟨[0x61], [⟨⟨1, 1⟩, [], [⟨⟨6, 1⟩, .simple (.int ⟨10, 2⟩)⟩]⟩]⟩,
     ⟨[0x62], [⟨⟨1, 1⟩, [], [⟨⟨6, 1⟩, .simple (.int ⟨11, 2⟩)⟩]⟩]⟩,
     ⟨[0x63], [⟨⟨2, 1⟩, [⟨1, 1⟩, ⟨300, 3⟩], [⟨⟨5, 1⟩, .simple (.str [0x41, 0x39])⟩]⟩,
               ⟨⟨3, 2⟩, [], [⟨⟨65, 1⟩, .also ⟨6, 1⟩ (.int ⟨3, 1⟩)⟩, ⟨⟨32, 1⟩, .compat ⟨1, 1⟩ [0x67]⟩]⟩]⟩] = true := by
  decide

example : Attr.sectionWf .riscv false
    [⟨[0x72], [⟨⟨1, 1⟩, [], [⟨⟨5, 1⟩, .simple (.str [0x72, 0x76])⟩, ⟨⟨4, 1⟩, .simple (.int ⟨16, 1⟩)⟩]⟩]⟩] = true := by
  decide

/-! ### prel31 -/

/-- `arm_expand_prel31` (the T3 translation of the Python) is the EHABI's place-relative 31-bit
    offset, sign-extended from bit 30, modulo 2^64 — for every word and every place -/
theorem prel31_eq_std (w place : Nat) :
    Gen.Pure.arm_expand_prel31 (w : Int) (place : Int) = ((Ehabi.expand w place : Nat) : Int) :=
  Proofs.prel31_eq_std w place

/-- bit 30 set, bit 26 clear (negative): 0x40000000 − 0x30000000; bit 26 set, bit 30 clear (positive) -/
example : Gen.Pure.arm_expand_prel31 0x50000000 0x40000000 = 0x10000000 := by decide
example : Gen.Pure.arm_expand_prel31 0x04000000 0x100 = 0x04000100 := by decide

/-! ### index table entries -/

/-- On EVERY file image and every entry index in range, `get_entry` classifies the entry
    (corrupt / cannot-unwind / inline compact / table-based compact 0-2 / generic) and unpacks
    function address, personality and byte-code exactly as the EHABI reference decoder reads them
    off the words; a reference outside the file is the library's parse error.
    (`htab` only excludes table references that wrap to ≥ 2^63, where CPython's `seek` overflows.) -/
theorem entry_classification_exact (env : Env) (le : Bool) (data : Bytes) (shOffset shSize n : Nat)
    (hn : n < shSize / 8) (hplace : shOffset + 8 * n + 8 < 2 ^ 63)
    (htab : ∀ w1, Ehabi.wordAt le data (shOffset + 8 * n + 4) = some w1 →
              Ehabi.expand w1 (shOffset + 8 * n + 4) < 2 ^ 63) :
    Model.Ehabi.getEntry env (Spec.ehabiStructs le) data shOffset shSize n
      = (match Ehabi.decodeEntry (Ehabi.wordAt le data) (shOffset + 8 * n) with
         | some d => .ok (Ehabi.obsDecoded d)
         | none => .error .elfParseError) :=
  Proofs.getEntry_eq_std env le data shOffset shSize n hn hplace htab

/-- the reference decoder inverts the abstract entries' encoding (Spec-internal consistency) -/
theorem reference_decoder_inverts_encoding (mem : Nat → Option Nat) (e : Ehabi.Entry) (place tab : Nat)
    (hwf : Ehabi.entryWf e = true) (hd : Ehabi.dispOk ((tab : Int) - ((place : Int) + 4)) = true)
    (hne : tab ≠ place + 5) (ht : tab < 2 ^ 62)
    (h0 : mem place = (Ehabi.encIndex e place tab)[0]?) (h1 : mem (place + 4) = (Ehabi.encIndex e place tab)[1]?)
    (hT : ∀ i, i < e.tableWords.length → mem (tab + 4 * i) = e.tableWords[i]?) :
    (Ehabi.decodeEntry mem place).map Ehabi.obsDecoded = some (Ehabi.obsEntry e place tab) :=
  Proofs.decodeEntry_enc mem e place tab hwf hd hne ht h0 h1 hT

/-- Whole tables: for an index table of any number of entries of any kind (prel31 displacements of
    either sign and any size in range), with the handler-table entries laid out after it, anywhere
    in a file image of either byte order, `get_entry(i)` is exactly entry `i`: its function address,
    kind, personality, byte-code and (long forms) table offset. -/
theorem exidx_roundtrip (env : Env) (le : Bool) (pre gap rest : Bytes) (es : List Ehabi.Entry) (i : Nat)
    (hi : i < es.length) (hwf : es.all Ehabi.entryWf = true)
    (hsize : (Ehabi.encImage le pre gap rest es).length < 2 ^ 30) :
    Model.Ehabi.getEntry env (Spec.ehabiStructs le) (Ehabi.encImage le pre gap rest es) pre.length (8 * es.length) i
      = .ok (Ehabi.obsEntry es[i] (pre.length + 8 * i)
              (Proofs.tabOf (pre.length + 8 * es.length + gap.length) es i)) :=
  Proofs.exidx_roundtrip env le pre gap rest es i hi hwf hsize

example : [Ehabi.Entry.cantUnwind (-0x30000000), .inline 0x04000000 0x97 0x84 0x08,
           .table (-4) (.long 1 0xb2 0x81 [[0x01, 0xb0, 0xb0, 0xb0]]), .table 8 (.generic (-0x40000000))].all
          Ehabi.entryWf = true := by decide

/-! ### unwinding byte-code -/

/-- For EVERY byte-code array (any length, the whole opcode space, ULEB128 operands of any length)
    the decoder — the regenerated `ring` dispatch table and the handlers — produces exactly the
    EHABI table-4 disassembly, instruction bytes and mnemonics; an array that ends inside an
    instruction is Python's IndexError. -/
theorem bytecode_eq_std (arr : Bytes) :
    Model.Ehabi.decode Gen.ehabiRing arr
      = (match Ehabi.ehabiStd arr with
         | some l => .ok l
         | none => .error .indexError) :=
  Proofs.decode_eq_std arr

/-- multi-byte ULEB128 operand followed by an opcode < 0x80 (both mishandled before the fix) -/
example : Ehabi.ehabiStd [0xb2, 0x81, 0x82, 0x01, 0x00, 0xb0]
    = some [([0xb2, 0x81, 0x82, 0x01], "vsp = vsp + 67080"), ([0x00], "vsp = vsp + 4"), ([0xb0], "finish")] := by
  decide

end PyElf.Props.C20
