/-
  Tie theorems (T2 ↔ Spec), ELF side: the struct bundles regenerated from /repo
  on this run are, for every configuration (byte order × class × machine class ×
  Solaris × core), exactly the structures the standards prescribe.
-/
import PyElf.Gen.Structs
import PyElf.Spec.ElfStructs
namespace PyElf.Props.TieElf
open PyElf

/-- every e_machine name the library distinguishes falls in the class the Spec assigns -/
theorem machine_class_eq_spec : Gen.machineClass = Spec.machineClass := by rfl

/-- the configurations enumerated by the translator are exactly the Spec's -/
theorem elf_cfgs_eq_spec : Gen.elfBundles.map (·.1) = Spec.allElfCfgs := by rfl

/-- for every configuration the library builds the structures of the standard -/
theorem elf_bundles_eq_spec : Gen.elfBundles.map (·.2) = Spec.allElfCfgs.map Spec.elfStructs := by rfl

end PyElf.Props.TieElf
