/-
  C11 — the DWARF view is invariant under the container encoding of the same debug data.

  Property theorems only.  The subject is the mirror of the container side of the reader
  (Model/DwarfView.lean): `getDwarfInfoCore` is `ELFFile.get_dwarf_info` on an opened file whose
  section table is `secs` (what `iter_sections()` yields: the C01 model's validated output), `again`
  stands for the recursive uses on linked files, and `DwarfInfo.view` keeps of the result what the
  DWARF layers consume (per section: bytes, logical size, address; the configuration; the
  supplementary file's view).  Units, DIEs, line and frame tables are functions of that view.

  `Holds P deflate f secs relocate content` (Proofs/Container.lean) says the file stores the logical
  content `content` (keyword ↦ payload bytes and address): every name of the reader's table is absent
  where the content has nothing, and otherwise found by `get_section_by_name` in a section whose
  bytes at `sh_offset` are the Spec encoding of the payload — plain, gABI (`Elf_Chdr` + deflate, any
  level, per section), or legacy GNU (`"ZLIB"` + 8-byte big-endian size + deflate, under the `.z` name).

  zlib and CRC-32 are parameters.  The ONLY assumption on them is `ZlibOk`:
  `decompress (deflate lvl x) k = x` (`x.take k` under the `max_length = k > 0` of the API).

  Hypotheses common to the view theorems: `FileOk` (class 32/64, the Spec's compression header,
  ELFCOMPRESS_ZLIB named, no phantom bytes), sizes fit their header fields.  The first group of
  theorems (`view_of_content` … `view_with_sup_file`) is about files in which no relocation section
  applies to a debug section (`NoReloc`, part of `Holds`).  The group "relocations on debug sections"
  lifts that restriction (`view_of_content_relocated`, `view_relocated_invariant`, `view_unrelocated`,
  `view_no_reloc_section`, `reloc_rejected_rejects_file`, whole-file `view_of_file_relocated`,
  `view_relocated_invariant_file`, `view_of_file_unrelocated`): `HoldsR`/`HoldsRD` describe the
  relocation section and the symbol table it links to with C08's Spec (`RelEntry`, `applyStd`), and
  the view is the RELOCATED logical content, identically for plain / gABI / `.zdebug` storage
  (for `.zdebug` since fixes/C11-zdebug-relocate-after-decompress.patch).  `HoldsD` is the special case
  `liftContent` (`holdsD_is_special_case`).

  LINKS COMPOSED: `view_composed_links` (debug link → debug file in any encodings → its
  `.gnu_debugaltlink`/`.debug_sup` → supplementary file in any encodings), with
  `view_debuglink_ok_desc`, `debuglink_bad_crc_rejected_desc`, `view_with_sup_file_relocated`.

  THE CHECKSUM: `_file_crc32` folds `binascii.crc32(chunk, running)` over 4096-byte reads
  (Model/DwarfViewCrc.lean).  `file_crc32_chunked`: under the streaming law `CrcStreaming` alone the
  fold is the one-shot CRC for every chunk size; `debuglink_check_is_oneshot_crc` ties it to the
  `hsum` hypothesis of the debug-link theorems; `file_crc32_spec`: for the CRC-32 of the GDB manual
  (Spec/ContainerCrc.lean) the law holds.

  Still correspondence-only: at the level of whole files, symbol tables whose entries carry more
  than `st_value` (`HoldsRD` uses C08's value-only symbol table encoder; the section-table theorems
  ask only `SymValues`: symbol `i` parses with `st_value = syms[i]`; real objects are covered by the
  `reloc`/`relobj` harness streams), a `sh_link` that does not designate a symbol table, relocations
  on phantom-byte files, relocation entries outside `WFApply`, malformed containers other than wrong
  sizes / CRC.

  WHOLE FILES.  The section-table theorems are composed with C01 (`open_exact`, `sections_exact` and
  their `wfZ` variants for SHF_COMPRESSED sections) in the second half of the file: `view_of_file`,
  `view_of_file_z`, `view_plain_eq_zdebug_file`, `view_plain_eq_gabi_file`, `view_with_sup_file` take
  an abstract ELF description `d : Spec.ElfDesc`, ANY byte string with `Spec.Layout d bytes`, and a
  description-level hypothesis `HoldsD` (bodies in the description, names by `d.indexOfName`), and
  conclude about `dwarfView P fuel loader bytes …` — `ELFFile(BytesIO(bytes)).get_dwarf_info()`.
-/
import PyElf.Model.DwarfView
import PyElf.Spec.Container
import PyElf.Proofs.Container
import PyElf.Proofs.ContainerFile
import PyElf.Proofs.ContainerReads
import PyElf.Proofs.ContainerReloc
import PyElf.Proofs.ContainerRelocFile
import PyElf.Proofs.ContainerLinks
import PyElf.Proofs.ContainerCrc
import PyElf.Props.TieC11
import PyElf.Props.C01
import PyElf.Props.C08
namespace PyElf.Props.C11
open PyElf PyElf.Model PyElf.Model.C11 PyElf.Spec.C11 PyElf.Proofs.C11

/-! ### presence of debugging information -/

/-- reported exactly when a debug-info section in either naming exists, or — non-strictly — an
    exception-frame section -/
theorem has_dwarf_iff (secs : List Sec) (strict : Bool) :
    hasDwarfInfo secs strict = true ↔
      (∃ s ∈ secs, s.name = nDebugInfo) ∨ (∃ s ∈ secs, s.name = nZdebugInfo) ∨
        (strict = false ∧ ∃ s ∈ secs, s.name = nEhFrame) := by
  simp only [hasDwarfInfo, Bool.or_eq_true, Bool.and_eq_true, hasSection_iff, Bool.not_eq_true', or_assoc]

/-- `has_dwarf_link` -/
theorem has_link_iff (secs : List Sec) : hasDwarfLink secs = true ↔ ∃ s ∈ secs, s.name = nGnuDebuglink :=
  hasSection_iff secs nGnuDebuglink

/-- name lookups find the last section bearing the name (so the hypotheses of `Holds` are about
    that section) and nothing for an unused name -/
theorem lookup_last (pre post : List Sec) (s : Sec) (h : ∀ t ∈ post, t.name ≠ s.name) :
    getSectionByName (pre ++ s :: post) s.name = some s :=
  getSectionByName_last pre post s h

theorem lookup_absent (secs : List Sec) (n : Bytes) (h : ∀ s ∈ secs, s.name ≠ n) : getSectionByName secs n = none :=
  getSectionByName_none secs n h

/-! ### the view of a file is its logical content -/

/-- MAIN THEOREM.  Whatever mix of encodings stores it, a file's view is its content: for every
    keyword the payload bytes, their length and the address; configuration from the header.
    (`hsup`: links are off, or the content names no supplementary file — the link theorems below
    cover the rest.) -/
theorem view_of_content {P : Params} {deflate : Nat → Bytes → Bytes} {f : ElfFile} (hf : FileOk P deflate f)
    (again : Option Loader → Bytes → Bool → Bool → V DwarfInfo) (loader : Option Loader)
    (secs : List Sec) (relocate followLinks : Bool) (content : Content) (m : Val)
    (hm : f.header.getField "e_machine" = .ok m)
    (hh : Holds P deflate f secs relocate content)
    (hlink : linkTarget secs loader followLinks = none)
    (hsup : followLinks = false ∨
      ((∃ DS, P.dwarfStructsFor ⟨f.le, 32, f.cls / 8, 2⟩ = some DS) ∧
        content "debug_sup_sec" = none ∧ content "gnu_debugaltlink_sec" = none)) :
    (getDwarfInfoCore P again loader f secs relocate followLinks).map DwarfInfo.view
      = .ok (.mk f.le (f.cls / 8) (P.machineArchOf m) (contentView P.names content) none) := by
  rw [core_unlinked P again loader f secs relocate followLinks hlink]
  exact ownInfo_holds hf again loader secs relocate followLinks content m hm hh hsup

/-- invariance: two files of the same class, byte order and machine that store the same content
    have the same view, whatever their encodings -/
theorem view_invariant {P : Params} {deflate : Nat → Bytes → Bytes} {f₁ f₂ : ElfFile}
    (hf₁ : FileOk P deflate f₁) (hf₂ : FileOk P deflate f₂)
    (again₁ again₂ : Option Loader → Bytes → Bool → Bool → V DwarfInfo) (loader₁ loader₂ : Option Loader)
    (secs₁ secs₂ : List Sec) (relocate followLinks : Bool) (content : Content) (m : Val)
    (hle : f₁.le = f₂.le) (hcls : f₁.cls = f₂.cls)
    (hm₁ : f₁.header.getField "e_machine" = .ok m) (hm₂ : f₂.header.getField "e_machine" = .ok m)
    (hh₁ : Holds P deflate f₁ secs₁ relocate content) (hh₂ : Holds P deflate f₂ secs₂ relocate content)
    (hl₁ : linkTarget secs₁ loader₁ followLinks = none) (hl₂ : linkTarget secs₂ loader₂ followLinks = none)
    (hsup : followLinks = false ∨
      ((∃ DS, P.dwarfStructsFor ⟨f₁.le, 32, f₁.cls / 8, 2⟩ = some DS) ∧
        content "debug_sup_sec" = none ∧ content "gnu_debugaltlink_sec" = none)) :
    (getDwarfInfoCore P again₁ loader₁ f₁ secs₁ relocate followLinks).map DwarfInfo.view
      = (getDwarfInfoCore P again₂ loader₂ f₂ secs₂ relocate followLinks).map DwarfInfo.view := by
  rw [view_of_content hf₁ again₁ loader₁ secs₁ relocate followLinks content m hm₁ hh₁ hl₁ hsup,
      view_of_content hf₂ again₂ loader₂ secs₂ relocate followLinks content m hm₂ hh₂ hl₂ (by rw [← hle, ← hcls]; exact hsup),
      hle, hcls]

/-- a plainly stored file and one whose sections are (all, or any subset of them) gABI-compressed
    at any levels give the same view -/
theorem view_plain_eq_gabi {P : Params} {deflate : Nat → Bytes → Bytes} {f₁ f₂ : ElfFile}
    (hf₁ : FileOk P deflate f₁) (hf₂ : FileOk P deflate f₂)
    (again₁ again₂ : Option Loader → Bytes → Bool → Bool → V DwarfInfo) (loader₁ loader₂ : Option Loader)
    (secs₁ secs₂ : List Sec) (relocate followLinks : Bool) (content : Content) (m : Val)
    (hle : f₁.le = f₂.le) (hcls : f₁.cls = f₂.cls)
    (hm₁ : f₁.header.getField "e_machine" = .ok m) (hm₂ : f₂.header.getField "e_machine" = .ok m)
    (hplain : HoldsEnc P deflate f₁ secs₁ relocate content Enc.isPlain)
    (hgabi : HoldsEnc P deflate f₂ secs₂ relocate content Enc.isPlainOrGabi)
    (hl₁ : linkTarget secs₁ loader₁ followLinks = none) (hl₂ : linkTarget secs₂ loader₂ followLinks = none)
    (hsup : followLinks = false ∨
      ((∃ DS, P.dwarfStructsFor ⟨f₁.le, 32, f₁.cls / 8, 2⟩ = some DS) ∧
        content "debug_sup_sec" = none ∧ content "gnu_debugaltlink_sec" = none)) :
    (getDwarfInfoCore P again₁ loader₁ f₁ secs₁ relocate followLinks).map DwarfInfo.view
      = (getDwarfInfoCore P again₂ loader₂ f₂ secs₂ relocate followLinks).map DwarfInfo.view :=
  view_invariant hf₁ hf₂ again₁ again₂ loader₁ loader₂ secs₁ secs₂ relocate followLinks content m hle hcls hm₁ hm₂
    hplain.holds hgabi.holds hl₁ hl₂ hsup

/-- a plainly stored file and its legacy `.zdebug` re-encoding (every renamed section framed
    `"ZLIB"` + size + deflate at any level, `.eh_frame` untouched) give the same view -/
theorem view_plain_eq_zdebug {P : Params} {deflate : Nat → Bytes → Bytes} {f₁ f₂ : ElfFile}
    (hf₁ : FileOk P deflate f₁) (hf₂ : FileOk P deflate f₂)
    (again₁ again₂ : Option Loader → Bytes → Bool → Bool → V DwarfInfo) (loader₁ loader₂ : Option Loader)
    (secs₁ secs₂ : List Sec) (relocate followLinks : Bool) (content : Content) (m : Val)
    (hle : f₁.le = f₂.le) (hcls : f₁.cls = f₂.cls)
    (hm₁ : f₁.header.getField "e_machine" = .ok m) (hm₂ : f₂.header.getField "e_machine" = .ok m)
    (hplain : HoldsEnc P deflate f₁ secs₁ relocate content Enc.isPlain)
    (hz : HoldsEnc P deflate f₂ secs₂ relocate content Enc.isPlainOrZdebug)
    (hl₁ : linkTarget secs₁ loader₁ followLinks = none) (hl₂ : linkTarget secs₂ loader₂ followLinks = none)
    (hsup : followLinks = false ∨
      ((∃ DS, P.dwarfStructsFor ⟨f₁.le, 32, f₁.cls / 8, 2⟩ = some DS) ∧
        content "debug_sup_sec" = none ∧ content "gnu_debugaltlink_sec" = none)) :
    (getDwarfInfoCore P again₁ loader₁ f₁ secs₁ relocate followLinks).map DwarfInfo.view
      = (getDwarfInfoCore P again₂ loader₂ f₂ secs₂ relocate followLinks).map DwarfInfo.view :=
  view_invariant hf₁ hf₂ again₁ again₂ loader₁ loader₂ secs₁ secs₂ relocate followLinks content m hle hcls hm₁ hm₂
    hplain.holds hz.holds hl₁ hl₂ hsup

/-- when the reader expects the legacy format it is because the name begins with `.z`; the renamed
    names always do (so `Holds` can be satisfied by a `.zdebug` file) -/
theorem legacy_of_renamed (kn : String × Bytes × Bool) (h : kn.2.2 = true) : legacyOf true kn = true := by
  simp [legacyOf, secNameOf, h, zName_startsWithDotZ]

/-! ### separate debug file behind a checksum-verified link -/

/-- a stripped file (no debug-info section in either naming) with a `.gnu_debuglink` section holding
    the Spec encoding of (file name, crc), opened with a loader that has that file, links on:
    when the CRC-32 of the target equals the recorded one the result is the TARGET's
    `get_dwarf_info` (same loader, links on) — hence the target's view, in whatever encoding it is -/
theorem view_debuglink_ok (P : Params) (again : Option Loader → Bytes → Bool → Bool → V DwarfInfo)
    (ld : Loader) (f : ElfFile) (secs : List Sec) (relocate : Bool) (sec : Sec)
    (off : Nat) (filename ext rest : Bytes) (crc : Nat)
    (hS : f.S.Gnu_debuglink = debuglinkCon f.le)
    (hget : getSectionByName secs nGnuDebuglink = some sec) (hno : hasDwarfInfo secs true = false)
    (hoff : sec.hdr.getNat "sh_offset" = .ok off) (hlt : off < 2 ^ 63)
    (hnul : ∀ b ∈ filename, b ≠ 0) (hcrc : crc < 2 ^ 32)
    (hd : f.data.drop off = encDebuglink f.le filename crc ++ rest)
    (hfile : ld filename = some ext) (hsum : P.X.crc32 ext = crc) :
    getDwarfInfoCore P again (some ld) f secs relocate true = again (some ld) ext relocate true := by
  rw [core_linked P again ld f secs relocate sec filename crc (linkTarget_some secs sec ld hget hno)
        (parse_debuglink P.env f.S f.le hS f.data sec off filename crc rest hoff hlt hnul hcrc hd)]
  simp [hfile, hsum]

/-- the same at the level of whole files: one level of `get_dwarf_info` recursion -/
theorem view_debuglink_ok_file (P : Params) (fuel : Nat) (ld : Loader) (data : Bytes) (f : ElfFile) (secs : List Sec)
    (relocate : Bool) (sec : Sec) (off : Nat) (filename ext rest : Bytes) (crc : Nat)
    (hload : load P data = .ok (f, secs))
    (hS : f.S.Gnu_debuglink = debuglinkCon f.le)
    (hget : getSectionByName secs nGnuDebuglink = some sec) (hno : hasDwarfInfo secs true = false)
    (hoff : sec.hdr.getNat "sh_offset" = .ok off) (hlt : off < 2 ^ 63)
    (hnul : ∀ b ∈ filename, b ≠ 0) (hcrc : crc < 2 ^ 32)
    (hd : f.data.drop off = encDebuglink f.le filename crc ++ rest)
    (hfile : ld filename = some ext) (hsum : P.X.crc32 ext = crc) :
    dwarfView P (fuel + 1) (some ld) data relocate true = dwarfView P fuel (some ld) ext relocate true := by
  simp only [dwarfView, getDwarfInfo, hload, liftR, bind, Except.bind]
  rw [view_debuglink_ok P (getDwarfInfo P fuel) ld f secs relocate sec off filename ext rest crc hS hget hno hoff hlt
        hnul hcrc hd hfile hsum]

/-- a debug link whose checksum does not match its target is rejected (ELFError) -/
theorem debuglink_bad_crc_rejected (P : Params) (again : Option Loader → Bytes → Bool → Bool → V DwarfInfo)
    (ld : Loader) (f : ElfFile) (secs : List Sec) (relocate : Bool) (sec : Sec)
    (off : Nat) (filename ext rest : Bytes) (crc : Nat)
    (hS : f.S.Gnu_debuglink = debuglinkCon f.le)
    (hget : getSectionByName secs nGnuDebuglink = some sec) (hno : hasDwarfInfo secs true = false)
    (hoff : sec.hdr.getNat "sh_offset" = .ok off) (hlt : off < 2 ^ 63)
    (hnul : ∀ b ∈ filename, b ≠ 0) (hcrc : crc < 2 ^ 32)
    (hd : f.data.drop off = encDebuglink f.le filename crc ++ rest)
    (hfile : ld filename = some ext) (hsum : P.X.crc32 ext ≠ crc) :
    getDwarfInfoCore P again (some ld) f secs relocate true = .error (.py .elfError) := by
  rw [core_linked P again ld f secs relocate sec filename crc (linkTarget_some secs sec ld hget hno)
        (parse_debuglink P.env f.S f.le hS f.data sec off filename crc rest hoff hlt hnul hcrc hd)]
  simp [hfile, hsum, fail]

/-- without a loader, with links off, or when the file has debug info of its own, the link is not
    followed: the file's own view -/
theorem debuglink_not_followed (P : Params) (again : Option Loader → Bytes → Bool → Bool → V DwarfInfo)
    (loader : Option Loader) (f : ElfFile) (secs : List Sec) (relocate followLinks : Bool)
    (h : loader = none ∨ hasDwarfInfo secs true = true ∨ followLinks = false) :
    getDwarfInfoCore P again loader f secs relocate followLinks = ownInfo P again loader f secs relocate followLinks :=
  core_unlinked P again loader f secs relocate followLinks
    (linkTarget_none_of secs loader followLinks (Or.inr h))

/-! ### declared size ≠ inflated size is rejected, in both compression formats -/

/-- `Section.data()` on a gABI-compressed section whose header declares a size other than the
    length of the deflated payload: rejected whatever the declared size … -/
theorem bad_size_rejected_gabi {data : Bytes} {sh ty : Val} {off : Nat} {rest : Bytes} {flags addr : Nat}
    {cls : Nat} {le : Bool} {declared align : Nat}
    (X : Ext) (deflate : Nat → Bytes → Bytes) (hz : ZlibOk X deflate) (env : Env) (S : ElfStructs)
    (hS : S.Elf_Chdr = chdrCon cls le) (hcls : cls = 32 ∨ cls = 64) (lvl : Nat) (payload : Bytes)
    (h : Placed data sh ty off (gabiBody cls le declared align (deflate lvl payload)) rest flags addr)
    (hf : flags &&& 0x800 ≠ 0) (hs : declared < 2 ^ cls) (ha : align < 2 ^ cls)
    (henv : env.enumDecode "ENUM_ELFCOMPRESS_TYPE" 1 = some "ELFCOMPRESS_ZLIB")
    (hne : declared ≠ payload.length) :
    ∃ e, sectionData X env S data sh = .error e := by
  obtain ⟨e, he⟩ := gabiStep_bad_any hz lvl payload declared hne
  refine ⟨e, ?_⟩
  simp only [sectionData, sectionInfo_gabi env S hS hcls h hf hs ha henv, liftR, bind, Except.bind,
    sectionData_gabi X S hS hcls h, he]

/-- … and with ELFCompressionError for every declared size a `Py_ssize_t` can hold -/
theorem bad_size_rejected_gabi_class {data : Bytes} {sh ty : Val} {off : Nat} {rest : Bytes} {flags addr : Nat}
    {cls : Nat} {le : Bool} {declared align : Nat}
    (X : Ext) (deflate : Nat → Bytes → Bytes) (hz : ZlibOk X deflate) (env : Env) (S : ElfStructs)
    (hS : S.Elf_Chdr = chdrCon cls le) (hcls : cls = 32 ∨ cls = 64) (lvl : Nat) (payload : Bytes)
    (h : Placed data sh ty off (gabiBody cls le declared align (deflate lvl payload)) rest flags addr)
    (hf : flags &&& 0x800 ≠ 0) (hs : declared < 2 ^ cls) (ha : align < 2 ^ cls)
    (henv : env.enumDecode "ENUM_ELFCOMPRESS_TYPE" 1 = some "ELFCOMPRESS_ZLIB")
    (hne : declared ≠ payload.length) (hb : declared + 1 < 2 ^ 63) :
    sectionData X env S data sh = .error (.py .elfCompressionError) := by
  simp only [sectionData, sectionInfo_gabi env S hS hcls h hf hs ha henv, liftR, bind, Except.bind,
    sectionData_gabi X S hS hcls h, gabiStep_bad hz lvl payload declared hne hb]

/-- `_decompress_dwarf_section` on a legacy section declaring a size other than the length of the
    deflated payload: AssertionError -/
theorem bad_size_rejected_zdebug (X : Ext) (deflate : Nat → Bytes → Bytes) (hz : ZlibOk X deflate)
    (d : Descr) (declared lvl : Nat) (payload : Bytes)
    (hd : d.stream = zdebugBody declared (deflate lvl payload)) (hsz : d.size > 12) (hdecl : declared < 2 ^ 64)
    (hne : declared ≠ payload.length) :
    decompressZdebug X d = .error (.py .assertion) := by
  rw [decompressZdebug_framed X d declared (deflate lvl payload) hd hsz hdecl, zdebugStep_bad hz lvl payload declared hne]
  rfl

/-- a section that is rejected makes `get_dwarf_info` fail: no view is produced from a file one of
    whose looked-up sections fails to read -/
theorem rejected_section_rejects_file (P : Params) (again : Option Loader → Bytes → Bool → Bool → V DwarfInfo)
    (loader : Option Loader) (f : ElfFile) (secs : List Sec) (relocate followLinks : Bool)
    (kn : String × Bytes × Bool) (hk : kn ∈ P.names)
    (hlink : linkTarget secs loader followLinks = none)
    (hbad : ∃ e, readOne P f secs relocate (hasSection secs nZdebugInfo) kn = .error e) :
    ∃ e, getDwarfInfoCore P again loader f secs relocate followLinks = .error e := by
  obtain ⟨e, he⟩ := readAll_error P f secs relocate _ P.names kn hk hbad
  exact ⟨e, by rw [core_unlinked P again loader f secs relocate followLinks hlink]; simp [ownInfo, he, bind, Except.bind]⟩

/-! ### supplementary file behind `.gnu_debugaltlink` / `.debug_sup` -/

/-- `.gnu_debugaltlink` holding the Spec encoding of (path, build id): the path is the link -/
theorem altlink_path (env : Env) (DS : DwarfStructs) (hDS : DS.Dwarf_debugaltlink = altlinkCon)
    (ds : List (String × Option Descr)) (d : Descr) (path buildId junk : Bytes)
    (h1 : descrOf ds "debug_sup_sec" = none) (h2 : descrOf ds "gnu_debugaltlink_sec" = some d)
    (hd : d.stream = encAltlink path buildId ++ junk) (hnul : ∀ b ∈ path, b ≠ 0) (hid : buildId.length = 20) :
    parseDebugSupInfo env DS ds = .ok (some path) :=
  parseDebugSupInfo_altlink env DS hDS ds d path buildId junk h1 h2 hd hnul hid

/-- `.debug_sup` (DWARF 5) with `is_supplementary = 0`: the path is the link -/
theorem debugsup_path (env : Env) (DS : DwarfStructs) (le : Bool) (hDS : DS.Dwarf_debugsup = debugsupCon le)
    (ds : List (String × Option Descr)) (d : Descr) (version : Nat) (path checksum junk : Bytes)
    (h1 : descrOf ds "debug_sup_sec" = some d)
    (hd : d.stream = encDebugSup le version 0 path checksum ++ junk) (hnul : ∀ b ∈ path, b ≠ 0) :
    parseDebugSupInfo env DS ds = .ok (some path) :=
  parseDebugSupInfo_debugsup env DS le hDS ds d version path checksum junk h1 hd hnul

/-- with a loader that has the named file, `supplementary_dwarfinfo` is that file's own
    `get_dwarf_info` (opened without a loader) — hence, by `view_of_content`, its content in
    whatever encoding it is stored -/
theorem sup_followed (P : Params) (again : Option Loader → Bytes → Bool → Bool → V DwarfInfo)
    (ld : Loader) (f : ElfFile) (ds : List (String × Option Descr)) (DS : DwarfStructs) (path supData : Bytes)
    (hDS : P.dwarfStructsFor ⟨f.le, 32, f.cls / 8, 2⟩ = some DS)
    (hp : parseDebugSupInfo P.env DS ds = .ok (some path)) (hl : ld path = some supData) :
    supplementary P again (some ld) f ds = (again none supData true true).map some :=
  supplementary_followed P again ld f ds DS path supData hDS hp hl

/-- without a stream loader no supplementary file is attached -/
theorem sup_without_loader (P : Params) (again : Option Loader → Bytes → Bool → Bool → V DwarfInfo)
    (f : ElfFile) (ds : List (String × Option Descr)) (DS : DwarfStructs) (path : Option Bytes)
    (hDS : P.dwarfStructsFor ⟨f.le, 32, f.cls / 8, 2⟩ = some DS)
    (hp : parseDebugSupInfo P.env DS ds = .ok path) :
    supplementary P again none f ds = .ok none :=
  supplementary_no_loader P again f ds DS path hDS hp

/-- THE SUPPLEMENTARY FILE, END TO END (`sup_followed` composed with `view_of_content`).  A file
    storing `content`, whose content names a supplementary file (`SupLink … (some path)`: `.debug_sup`
    with `is_supplementary = 0`, or `.gnu_debugaltlink`), read with links on and a loader that has
    `path ↦ supData`, where `supData` opens as a file storing `contentS` in whatever encodings:
    the view is the file's content with the supplementary file's content attached.  The
    supplementary file is opened without a loader, so whatever ITS content says about further files
    (`pS`; a real one says `is_supplementary = 1`) nothing more is attached. -/
theorem view_with_sup {P : Params} {deflate : Nat → Bytes → Bytes} {f fs : ElfFile}
    (hf : FileOk P deflate f) (hfs : FileOk P deflate fs) (hs : SupOk P f) (hss : SupOk P fs)
    (fuel : Nat) (ld : Loader) (secs secsS : List Sec) (relocate : Bool) (content contentS : Content) (m mS : Val)
    (hm : f.header.getField "e_machine" = .ok m) (hmS : fs.header.getField "e_machine" = .ok mS)
    (hh : Holds P deflate f secs relocate content)
    (hlink : linkTarget secs (some ld) true = none)
    (path supData : Bytes) (hsl : SupLink f.le content (some path)) (hld : ld path = some supData)
    (hloadS : load P supData = .ok (fs, secsS))
    (hhS : Holds P deflate fs secsS true contentS)
    (pS : Option Bytes) (hslS : SupLink fs.le contentS pS) :
    (getDwarfInfoCore P (getDwarfInfo P (fuel + 1)) (some ld) f secs relocate true).map DwarfInfo.view
      = .ok (.mk f.le (f.cls / 8) (P.machineArchOf m) (contentView P.names content)
          (some (.mk fs.le (fs.cls / 8) (P.machineArchOf mS) (contentView P.names contentS) none))) := by
  rw [core_unlinked P _ (some ld) f secs relocate true hlink]
  refine ownInfo_with_sup hf hs _ ld secs relocate content m hm hh path supData hsl hld _ ?_
  have := dwarfView_loaded P fuel none supData true true fs secsS hloadS
  unfold dwarfView at this
  rw [this, core_unlinked P _ none fs secsS true true (linkTarget_none_of secsS none true (Or.inr (Or.inl rfl)))]
  exact ownInfo_no_loader hfs hss _ secsS true true contentS mS hmS hhS pS hslS

/-! ### whole files: composition with C01 (header, section table and bodies decoded from the bytes)

  `d : Spec.ElfDesc` is an abstract ELF description, `Spec.Layout d bytes` says the byte string carries
  it (C01), `obs = d.observe` is what C01 proves the reader reports for it.  `HoldsD names deflate d obs
  relocate content allowed` (Proofs/ContainerFile.lean) is `HoldsEnc` at the level of the description:
  every name of the reader's table resolves — by the description's own `indexOfName` — to nothing
  where the content has nothing, and otherwise to a section whose BODY IN THE DESCRIPTION is the Spec
  encoding of the payload.  No hypothesis mentions the model's section table or the file's bytes
  other than `Layout`.  The struct factory and machine classification are the standards-side ones
  (`SpecParams`), which TieC01 proves equal to what /repo builds. -/

/-- the parameters the whole-file theorems are stated for -/
structure SpecParams (P : Params) : Prop where
  structs : P.structsFor = C01.specStructs
  mclass : P.machineClassOf = C01.specMachineClass

/-- C01, packaged: a byte string that carries a well-formed description opens, with the
    description's class, byte order, bundle and header, and enumerates the description's sections -/
theorem opened_of_wf {P : Params} (hP : SpecParams P) (d : Spec.ElfDesc) (bytes : Bytes) (obs : Spec.ElfObs)
    (hwf : d.wf P.env = true) (hl : Spec.Layout d bytes) (ho : d.observe P.env = .ok obs) :
    ∃ f, Opened P d bytes obs f := by
  obtain ⟨f, hopen, hdata, hcls, hle, hS, hh⟩ := C01.open_exact P.env d bytes obs hwf hl ho
  have hsecs := C01.sections_exact P.env d bytes obs f hwf hl ho hopen
  exact ⟨f, by rw [hP.structs, hP.mclass]; exact hopen, hdata, hcls, hle, hS, hh, hsecs⟩

/-- MAIN THEOREM, whole-file form.  `ELFFile(BytesIO(bytes)).get_dwarf_info()` on any byte string
    that carries a well-formed description storing `content` — plainly or in the legacy `.zdebug`
    framing, in any mix (`ElfDesc.wf` admits no SHF_COMPRESSED section: `view_of_file_z` below) —
    yields exactly the content: payload bytes, their length and the address per keyword, the
    configuration from the file header. -/
theorem view_of_file {P : Params} {deflate : Nat → Bytes → Bytes} (hP : SpecParams P)
    (henv : P.env.enumDecode "ENUM_ELFCOMPRESS_TYPE" 1 = some "ELFCOMPRESS_ZLIB") (hz : ZlibOk P.X deflate)
    (d : Spec.ElfDesc) (bytes : Bytes) (obs : Spec.ElfObs)
    (hwf : d.wf P.env = true) (hl : Spec.Layout d bytes) (ho : d.observe P.env = .ok obs)
    (hph : hasPhantomBytes obs.header = .ok false)
    (fuel : Nat) (loader : Option Loader) (relocate followLinks : Bool) (content : Content) (m : Val)
    (hm : obs.header.getField "e_machine" = .ok m) {allowed : Enc → Prop}
    (hh : HoldsD P.names deflate d obs relocate content allowed)
    (hlink : linkTarget obs.sections loader followLinks = none)
    (hsup : followLinks = false ∨
      ((∃ DS, P.dwarfStructsFor ⟨d.le, 32, d.cls / 8, 2⟩ = some DS) ∧
        content "debug_sup_sec" = none ∧ content "gnu_debugaltlink_sec" = none)) :
    dwarfView P (fuel + 1) loader bytes relocate followLinks
      = .ok (.mk d.le (d.cls / 8) (P.machineArchOf m) (contentView P.names content) none) := by
  obtain ⟨f, hop⟩ := opened_of_wf hP d bytes obs hwf hl ho
  exact view_of_opened hop (Proofs.layout_facts hl) ho (Proofs.wf_facts hwf).cls henv hz hph fuel loader relocate
    followLinks content m hm hh hlink hsup

/-- invariance at the level of bytes: two byte strings carrying descriptions of the same class, byte
    order and machine that store the same content have the same view -/
theorem view_invariant_file {P : Params} {deflate : Nat → Bytes → Bytes} (hP : SpecParams P)
    (henv : P.env.enumDecode "ENUM_ELFCOMPRESS_TYPE" 1 = some "ELFCOMPRESS_ZLIB") (hz : ZlibOk P.X deflate)
    (d₁ d₂ : Spec.ElfDesc) (bytes₁ bytes₂ : Bytes) (obs₁ obs₂ : Spec.ElfObs)
    (hwf₁ : d₁.wf P.env = true) (hl₁ : Spec.Layout d₁ bytes₁) (ho₁ : d₁.observe P.env = .ok obs₁)
    (hwf₂ : d₂.wf P.env = true) (hl₂ : Spec.Layout d₂ bytes₂) (ho₂ : d₂.observe P.env = .ok obs₂)
    (hph₁ : hasPhantomBytes obs₁.header = .ok false) (hph₂ : hasPhantomBytes obs₂.header = .ok false)
    (hle : d₁.le = d₂.le) (hcls : d₁.cls = d₂.cls) (m : Val)
    (hm₁ : obs₁.header.getField "e_machine" = .ok m) (hm₂ : obs₂.header.getField "e_machine" = .ok m)
    (fuel₁ fuel₂ : Nat) (loader₁ loader₂ : Option Loader) (relocate followLinks : Bool) (content : Content)
    {allowed₁ allowed₂ : Enc → Prop}
    (hh₁ : HoldsD P.names deflate d₁ obs₁ relocate content allowed₁)
    (hh₂ : HoldsD P.names deflate d₂ obs₂ relocate content allowed₂)
    (hk₁ : linkTarget obs₁.sections loader₁ followLinks = none)
    (hk₂ : linkTarget obs₂.sections loader₂ followLinks = none)
    (hsup : followLinks = false ∨
      ((∃ DS, P.dwarfStructsFor ⟨d₁.le, 32, d₁.cls / 8, 2⟩ = some DS) ∧
        content "debug_sup_sec" = none ∧ content "gnu_debugaltlink_sec" = none)) :
    dwarfView P (fuel₁ + 1) loader₁ bytes₁ relocate followLinks
      = dwarfView P (fuel₂ + 1) loader₂ bytes₂ relocate followLinks := by
  rw [view_of_file hP henv hz d₁ bytes₁ obs₁ hwf₁ hl₁ ho₁ hph₁ fuel₁ loader₁ relocate followLinks content m hm₁ hh₁ hk₁ hsup,
      view_of_file hP henv hz d₂ bytes₂ obs₂ hwf₂ hl₂ ho₂ hph₂ fuel₂ loader₂ relocate followLinks content m hm₂ hh₂ hk₂
        (by rw [← hle, ← hcls]; exact hsup),
      hle, hcls]

/-- a file whose debug sections are stored plainly and one holding the same content re-encoded in
    the legacy `.zdebug` framing (any subset of the renamed sections, any deflate levels) have the
    same view — as byte strings, through header, section-table and name decoding -/
theorem view_plain_eq_zdebug_file {P : Params} {deflate : Nat → Bytes → Bytes} (hP : SpecParams P)
    (henv : P.env.enumDecode "ENUM_ELFCOMPRESS_TYPE" 1 = some "ELFCOMPRESS_ZLIB") (hz : ZlibOk P.X deflate)
    (d₁ d₂ : Spec.ElfDesc) (bytes₁ bytes₂ : Bytes) (obs₁ obs₂ : Spec.ElfObs)
    (hwf₁ : d₁.wf P.env = true) (hl₁ : Spec.Layout d₁ bytes₁) (ho₁ : d₁.observe P.env = .ok obs₁)
    (hwf₂ : d₂.wf P.env = true) (hl₂ : Spec.Layout d₂ bytes₂) (ho₂ : d₂.observe P.env = .ok obs₂)
    (hph₁ : hasPhantomBytes obs₁.header = .ok false) (hph₂ : hasPhantomBytes obs₂.header = .ok false)
    (hle : d₁.le = d₂.le) (hcls : d₁.cls = d₂.cls) (m : Val)
    (hm₁ : obs₁.header.getField "e_machine" = .ok m) (hm₂ : obs₂.header.getField "e_machine" = .ok m)
    (fuel₁ fuel₂ : Nat) (loader₁ loader₂ : Option Loader) (relocate followLinks : Bool) (content : Content)
    (hplain : HoldsD P.names deflate d₁ obs₁ relocate content Enc.isPlain)
    (hzd : HoldsD P.names deflate d₂ obs₂ relocate content Enc.isPlainOrZdebug)
    (hk₁ : linkTarget obs₁.sections loader₁ followLinks = none)
    (hk₂ : linkTarget obs₂.sections loader₂ followLinks = none)
    (hsup : followLinks = false ∨
      ((∃ DS, P.dwarfStructsFor ⟨d₁.le, 32, d₁.cls / 8, 2⟩ = some DS) ∧
        content "debug_sup_sec" = none ∧ content "gnu_debugaltlink_sec" = none)) :
    dwarfView P (fuel₁ + 1) loader₁ bytes₁ relocate followLinks
      = dwarfView P (fuel₂ + 1) loader₂ bytes₂ relocate followLinks :=
  view_invariant_file hP henv hz d₁ d₂ bytes₁ bytes₂ obs₁ obs₂ hwf₁ hl₁ ho₁ hwf₂ hl₂ ho₂ hph₁ hph₂ hle hcls m hm₁ hm₂
    fuel₁ fuel₂ loader₁ loader₂ relocate followLinks content hplain hzd hk₁ hk₂ hsup

/-! ### whole files with gABI-compressed sections (`ElfDesc.wfZ`: C01 extended to SHF_COMPRESSED sections) -/

/-- C01 for `wfZ`, packaged -/
theorem opened_of_wfZ {P : Params} (hP : SpecParams P) (d : Spec.ElfDesc) (bytes : Bytes) (obs : Spec.ElfObs)
    (hwf : d.wfZ P.env = true) (hl : Spec.Layout d bytes) (ho : d.observe P.env = .ok obs) :
    ∃ f, Opened P d bytes obs f := by
  obtain ⟨f, hopen, hdata, hcls, hle, hS, hh⟩ := C01.open_exact_z P.env d bytes obs hwf hl ho
  have hsecs := C01.sections_exact_z P.env d bytes obs f hwf hl ho hopen
  exact ⟨f, by rw [hP.structs, hP.mclass]; exact hopen, hdata, hcls, hle, hS, hh, hsecs⟩

/-- MAIN THEOREM, whole-file form, every encoding: the sections of the description may be stored
    plainly, gABI-compressed (SHF_COMPRESSED, `Elf_Chdr` + deflate) or in the legacy `.zdebug`
    framing, in any mix and at any levels; the view of any byte string carrying the description is
    the content. -/
theorem view_of_file_z {P : Params} {deflate : Nat → Bytes → Bytes} (hP : SpecParams P)
    (henv : P.env.enumDecode "ENUM_ELFCOMPRESS_TYPE" 1 = some "ELFCOMPRESS_ZLIB") (hz : ZlibOk P.X deflate)
    (d : Spec.ElfDesc) (bytes : Bytes) (obs : Spec.ElfObs)
    (hwf : d.wfZ P.env = true) (hl : Spec.Layout d bytes) (ho : d.observe P.env = .ok obs)
    (hph : hasPhantomBytes obs.header = .ok false)
    (fuel : Nat) (loader : Option Loader) (relocate followLinks : Bool) (content : Content) (m : Val)
    (hm : obs.header.getField "e_machine" = .ok m) {allowed : Enc → Prop}
    (hh : HoldsD P.names deflate d obs relocate content allowed)
    (hlink : linkTarget obs.sections loader followLinks = none)
    (hsup : followLinks = false ∨
      ((∃ DS, P.dwarfStructsFor ⟨d.le, 32, d.cls / 8, 2⟩ = some DS) ∧
        content "debug_sup_sec" = none ∧ content "gnu_debugaltlink_sec" = none)) :
    dwarfView P (fuel + 1) loader bytes relocate followLinks
      = .ok (.mk d.le (d.cls / 8) (P.machineArchOf m) (contentView P.names content) none) := by
  obtain ⟨f, hop⟩ := opened_of_wfZ hP d bytes obs hwf hl ho
  exact view_of_opened hop (Proofs.layout_facts hl) ho (Proofs.wfZ_facts hwf).cls henv hz hph fuel loader relocate
    followLinks content m hm hh hlink hsup

/-- invariance at the level of bytes, every encoding -/
theorem view_invariant_file_z {P : Params} {deflate : Nat → Bytes → Bytes} (hP : SpecParams P)
    (henv : P.env.enumDecode "ENUM_ELFCOMPRESS_TYPE" 1 = some "ELFCOMPRESS_ZLIB") (hz : ZlibOk P.X deflate)
    (d₁ d₂ : Spec.ElfDesc) (bytes₁ bytes₂ : Bytes) (obs₁ obs₂ : Spec.ElfObs)
    (hwf₁ : d₁.wfZ P.env = true) (hl₁ : Spec.Layout d₁ bytes₁) (ho₁ : d₁.observe P.env = .ok obs₁)
    (hwf₂ : d₂.wfZ P.env = true) (hl₂ : Spec.Layout d₂ bytes₂) (ho₂ : d₂.observe P.env = .ok obs₂)
    (hph₁ : hasPhantomBytes obs₁.header = .ok false) (hph₂ : hasPhantomBytes obs₂.header = .ok false)
    (hle : d₁.le = d₂.le) (hcls : d₁.cls = d₂.cls) (m : Val)
    (hm₁ : obs₁.header.getField "e_machine" = .ok m) (hm₂ : obs₂.header.getField "e_machine" = .ok m)
    (fuel₁ fuel₂ : Nat) (loader₁ loader₂ : Option Loader) (relocate followLinks : Bool) (content : Content)
    {allowed₁ allowed₂ : Enc → Prop}
    (hh₁ : HoldsD P.names deflate d₁ obs₁ relocate content allowed₁)
    (hh₂ : HoldsD P.names deflate d₂ obs₂ relocate content allowed₂)
    (hk₁ : linkTarget obs₁.sections loader₁ followLinks = none)
    (hk₂ : linkTarget obs₂.sections loader₂ followLinks = none)
    (hsup : followLinks = false ∨
      ((∃ DS, P.dwarfStructsFor ⟨d₁.le, 32, d₁.cls / 8, 2⟩ = some DS) ∧
        content "debug_sup_sec" = none ∧ content "gnu_debugaltlink_sec" = none)) :
    dwarfView P (fuel₁ + 1) loader₁ bytes₁ relocate followLinks
      = dwarfView P (fuel₂ + 1) loader₂ bytes₂ relocate followLinks := by
  rw [view_of_file_z hP henv hz d₁ bytes₁ obs₁ hwf₁ hl₁ ho₁ hph₁ fuel₁ loader₁ relocate followLinks content m hm₁ hh₁ hk₁ hsup,
      view_of_file_z hP henv hz d₂ bytes₂ obs₂ hwf₂ hl₂ ho₂ hph₂ fuel₂ loader₂ relocate followLinks content m hm₂ hh₂ hk₂
        (by rw [← hle, ← hcls]; exact hsup),
      hle, hcls]

/-- `view_plain_eq_gabi` at the level of bytes: a file whose debug sections are stored plainly (`wf`:
    no SHF_COMPRESSED section at all) and a file holding the same content with any subset of its
    sections gABI-compressed at any levels have the same view — both decoded from their bytes
    through header, section table, names, compression headers and deflate streams -/
theorem view_plain_eq_gabi_file {P : Params} {deflate : Nat → Bytes → Bytes} (hP : SpecParams P)
    (henv : P.env.enumDecode "ENUM_ELFCOMPRESS_TYPE" 1 = some "ELFCOMPRESS_ZLIB") (hz : ZlibOk P.X deflate)
    (d₁ d₂ : Spec.ElfDesc) (bytes₁ bytes₂ : Bytes) (obs₁ obs₂ : Spec.ElfObs)
    (hwf₁ : d₁.wf P.env = true) (hl₁ : Spec.Layout d₁ bytes₁) (ho₁ : d₁.observe P.env = .ok obs₁)
    (hwf₂ : d₂.wfZ P.env = true) (hl₂ : Spec.Layout d₂ bytes₂) (ho₂ : d₂.observe P.env = .ok obs₂)
    (hph₁ : hasPhantomBytes obs₁.header = .ok false) (hph₂ : hasPhantomBytes obs₂.header = .ok false)
    (hle : d₁.le = d₂.le) (hcls : d₁.cls = d₂.cls) (m : Val)
    (hm₁ : obs₁.header.getField "e_machine" = .ok m) (hm₂ : obs₂.header.getField "e_machine" = .ok m)
    (fuel₁ fuel₂ : Nat) (loader₁ loader₂ : Option Loader) (relocate followLinks : Bool) (content : Content)
    (hplain : HoldsD P.names deflate d₁ obs₁ relocate content Enc.isPlain)
    (hgabi : HoldsD P.names deflate d₂ obs₂ relocate content Enc.isPlainOrGabi)
    (hk₁ : linkTarget obs₁.sections loader₁ followLinks = none)
    (hk₂ : linkTarget obs₂.sections loader₂ followLinks = none)
    (hsup : followLinks = false ∨
      ((∃ DS, P.dwarfStructsFor ⟨d₁.le, 32, d₁.cls / 8, 2⟩ = some DS) ∧
        content "debug_sup_sec" = none ∧ content "gnu_debugaltlink_sec" = none)) :
    dwarfView P (fuel₁ + 1) loader₁ bytes₁ relocate followLinks
      = dwarfView P (fuel₂ + 1) loader₂ bytes₂ relocate followLinks :=
  view_invariant_file_z hP henv hz d₁ d₂ bytes₁ bytes₂ obs₁ obs₂ (C01.wf_imp_wfZ P.env d₁ hwf₁) hl₁ ho₁ hwf₂ hl₂ ho₂
    hph₁ hph₂ hle hcls m hm₁ hm₂ fuel₁ fuel₂ loader₁ loader₂ relocate followLinks content hplain hgabi hk₁ hk₂ hsup

/-- the supplementary file, end to end, at the level of bytes: `bytes` carries a description storing
    `content` that names `path`; the loader maps `path` to `bytesS`, which carries a description
    storing `contentS`.  `ELFFile(BytesIO(bytes), stream_loader).get_dwarf_info()` yields the content
    with the supplementary content attached.  (Stated for `wfZ`, which `wf` implies — `C01.wf_imp_wfZ`:
    either file may store its sections in any mix of the three encodings.) -/
theorem view_with_sup_file {P : Params} {deflate : Nat → Bytes → Bytes} (hP : SpecParams P)
    (henv : P.env.enumDecode "ENUM_ELFCOMPRESS_TYPE" 1 = some "ELFCOMPRESS_ZLIB") (hz : ZlibOk P.X deflate)
    (d dS : Spec.ElfDesc) (bytes bytesS : Bytes) (obs obsS : Spec.ElfObs)
    (hwf : d.wfZ P.env = true) (hl : Spec.Layout d bytes) (ho : d.observe P.env = .ok obs)
    (hwfS : dS.wfZ P.env = true) (hlS : Spec.Layout dS bytesS) (hoS : dS.observe P.env = .ok obsS)
    (hph : hasPhantomBytes obs.header = .ok false) (hphS : hasPhantomBytes obsS.header = .ok false)
    (hk1 : "debug_sup_sec" ∈ P.names.map (·.1)) (hk2 : "gnu_debugaltlink_sec" ∈ P.names.map (·.1))
    (hDS : ∃ DS, P.dwarfStructsFor ⟨d.le, 32, d.cls / 8, 2⟩ = some DS ∧
      DS.Dwarf_debugaltlink = altlinkCon ∧ DS.Dwarf_debugsup = debugsupCon d.le)
    (hDSS : ∃ DS, P.dwarfStructsFor ⟨dS.le, 32, dS.cls / 8, 2⟩ = some DS ∧
      DS.Dwarf_debugaltlink = altlinkCon ∧ DS.Dwarf_debugsup = debugsupCon dS.le)
    (fuel : Nat) (ld : Loader) (relocate : Bool) (content contentS : Content) (m mS : Val)
    (hm : obs.header.getField "e_machine" = .ok m) (hmS : obsS.header.getField "e_machine" = .ok mS)
    {allowed allowedS : Enc → Prop}
    (hh : HoldsD P.names deflate d obs relocate content allowed)
    (hhS : HoldsD P.names deflate dS obsS true contentS allowedS)
    (hlink : linkTarget obs.sections (some ld) true = none)
    (path : Bytes) (hsl : SupLink d.le content (some path)) (hld : ld path = some bytesS)
    (pS : Option Bytes) (hslS : SupLink dS.le contentS pS) :
    dwarfView P (fuel + 2) (some ld) bytes relocate true
      = .ok (.mk d.le (d.cls / 8) (P.machineArchOf m) (contentView P.names content)
          (some (.mk dS.le (dS.cls / 8) (P.machineArchOf mS) (contentView P.names contentS) none))) := by
  obtain ⟨f, hop⟩ := opened_of_wfZ hP d bytes obs hwf hl ho
  obtain ⟨fs, hopS⟩ := opened_of_wfZ hP dS bytesS obsS hwfS hlS hoS
  have hL := Proofs.layout_facts hl
  have hLS := Proofs.layout_facts hlS
  have hf : FileOk P deflate f := hop.fileOk (Proofs.wfZ_facts hwf).cls henv hz hph
  have hfs : FileOk P deflate fs := hopS.fileOk (Proofs.wfZ_facts hwfS).cls henv hz hphS
  have hs : SupOk P f := ⟨hk1, hk2, by rw [hop.hle, hop.hcls]; exact hDS⟩
  have hss : SupOk P fs := ⟨hk1, hk2, by rw [hopS.hle, hopS.hcls]; exact hDSS⟩
  rw [dwarfView_loaded P (fuel + 1) (some ld) bytes relocate true f obs.sections hop.load,
    view_with_sup hf hfs hs hss fuel ld obs.sections obsS.sections relocate content contentS m mS
      (by rw [hop.hheader]; exact hm) (by rw [hopS.hheader]; exact hmS)
      (holdsEnc_of_desc hL ho hop.hdata hop.hcls hop.hle hh).holds hlink path bytesS
      (by rw [hop.hle]; exact hsl) hld hopS.load
      (holdsEnc_of_desc hLS hoS hopS.hdata hopS.hcls hopS.hle hhS).holds pS (by rw [hopS.hle]; exact hslS),
    hop.hle, hop.hcls, hopS.hle, hopS.hcls]


/-! ## relocations on debug sections, in every container encoding

  `ContentR` (Proofs/ContainerReloc.lean) is the logical content WITH relocations: per keyword the
  bytes the producer wrote, the address, and — when a relocation section targets the section — its
  flavour, entries and the values of the symbols it refers to (C08's `RelEntry`, `Spec.applyStd`).
  `relocatedContent a c relocate cr` is what the standards say a consumer must see: the psABI
  formulas folded over the entries when relocation is asked for, the bytes as written otherwise.

  `HoldsR P deflate f secs relocate cfg a cr allowed` is `HoldsEnc` with `NoReloc` replaced by the
  description of the relocation section: the first RelocationSection named `.rel<name>`/`.rela<name>`
  holds the Spec encoding of the entries and links to a symbol table section holding the symbol
  values (`RelocStored`), the entries are in the domain of C08's theorems (`WFApply`) and none is
  rejected.  `RelocEnv` says the file's struct bundle is the Spec's and names the machine.

  The relocations are applied to the LOGICAL content whatever the storage: for the legacy `.zdebug`
  format this holds since the fix `fixes/C11-zdebug-relocate-after-decompress.patch` (the code used
  to relocate the still-compressed bytes). -/

/-- MAIN THEOREM WITH RELOCATIONS.  Whatever mix of encodings stores it, the view of a file is its
    content with the relocations applied as the psABI prescribes (`relocate_dwarf_sections=True`),
    or as written (`False`): bytes, their length, the address per keyword. -/
theorem view_of_content_relocated {P : Params} {deflate : Nat → Bytes → Bytes} {f : ElfFile} (hf : FileOk P deflate f)
    {cfg : ElfCfg} {a : Spec.Arch} (hr : RelocEnv P f cfg a)
    (again : Option Loader → Bytes → Bool → Bool → V DwarfInfo) (loader : Option Loader)
    (secs : List Sec) (relocate followLinks : Bool) (cr : ContentR) (m : Val) {allowed : Enc → Prop}
    (hm : f.header.getField "e_machine" = .ok m)
    (hh : HoldsR P deflate f secs relocate cfg a cr allowed)
    (hlink : linkTarget secs loader followLinks = none)
    (hsup : followLinks = false ∨
      ((∃ DS, P.dwarfStructsFor ⟨f.le, 32, f.cls / 8, 2⟩ = some DS) ∧
        cr "debug_sup_sec" = none ∧ cr "gnu_debugaltlink_sec" = none)) :
    (getDwarfInfoCore P again loader f secs relocate followLinks).map DwarfInfo.view
      = .ok (.mk f.le (f.cls / 8) (P.machineArchOf m)
          (contentView P.names (relocatedContent a (Proofs.Reloc.relCfgOf cfg) relocate cr)) none) := by
  rw [core_unlinked P again loader f secs relocate followLinks hlink]
  refine ownInfo_reads again loader secs relocate followLinks _ m hm (hh.reads hf hr) ?_
  rcases hsup with h | ⟨h0, h1, h2⟩
  · exact Or.inl h
  · exact Or.inr ⟨h0, by simp [relocatedContent, h1], by simp [relocatedContent, h2]⟩

/-- identical for plain / gABI / `.zdebug` storage: two files of the same configuration and machine
    that store the same content-with-relocations have the same view, whatever their encodings
    (`allowed₁`, `allowed₂` arbitrary: e.g. `Enc.isPlain` against `Enc.isPlainOrZdebug`) -/
theorem view_relocated_invariant {P : Params} {deflate : Nat → Bytes → Bytes} {f₁ f₂ : ElfFile}
    (hf₁ : FileOk P deflate f₁) (hf₂ : FileOk P deflate f₂)
    {cfg₁ cfg₂ : ElfCfg} {a : Spec.Arch} (hr₁ : RelocEnv P f₁ cfg₁ a) (hr₂ : RelocEnv P f₂ cfg₂ a)
    (again₁ again₂ : Option Loader → Bytes → Bool → Bool → V DwarfInfo) (loader₁ loader₂ : Option Loader)
    (secs₁ secs₂ : List Sec) (relocate followLinks : Bool) (cr : ContentR) (m : Val)
    (hle : f₁.le = f₂.le) (hcls : f₁.cls = f₂.cls) (hmc : cfg₁.mclass = cfg₂.mclass)
    (hm₁ : f₁.header.getField "e_machine" = .ok m) (hm₂ : f₂.header.getField "e_machine" = .ok m)
    {allowed₁ allowed₂ : Enc → Prop}
    (hh₁ : HoldsR P deflate f₁ secs₁ relocate cfg₁ a cr allowed₁)
    (hh₂ : HoldsR P deflate f₂ secs₂ relocate cfg₂ a cr allowed₂)
    (hl₁ : linkTarget secs₁ loader₁ followLinks = none) (hl₂ : linkTarget secs₂ loader₂ followLinks = none)
    (hsup : followLinks = false ∨
      ((∃ DS, P.dwarfStructsFor ⟨f₁.le, 32, f₁.cls / 8, 2⟩ = some DS) ∧
        cr "debug_sup_sec" = none ∧ cr "gnu_debugaltlink_sec" = none)) :
    (getDwarfInfoCore P again₁ loader₁ f₁ secs₁ relocate followLinks).map DwarfInfo.view
      = (getDwarfInfoCore P again₂ loader₂ f₂ secs₂ relocate followLinks).map DwarfInfo.view := by
  have hc : Proofs.Reloc.relCfgOf cfg₁ = Proofs.Reloc.relCfgOf cfg₂ :=
    relCfgOf_congr cfg₁ cfg₂ (by rw [← hr₁.hfle, ← hr₂.hfle, hle]) (by rw [← hr₁.hfcls, ← hr₂.hfcls, hcls]) hmc
  rw [view_of_content_relocated hf₁ hr₁ again₁ loader₁ secs₁ relocate followLinks cr m hm₁ hh₁ hl₁ hsup,
      view_of_content_relocated hf₂ hr₂ again₂ loader₂ secs₂ relocate followLinks cr m hm₂ hh₂ hl₂
        (by rw [← hle, ← hcls]; exact hsup),
      hle, hcls, hc]

/-- `relocate_dwarf_sections=False`: the view is the content as written, whatever relocation
    sections the file has (nothing is asked about them) -/
theorem view_unrelocated {P : Params} {deflate : Nat → Bytes → Bytes} {f : ElfFile} (hf : FileOk P deflate f)
    {cfg : ElfCfg} {a : Spec.Arch} (hr : RelocEnv P f cfg a)
    (again : Option Loader → Bytes → Bool → Bool → V DwarfInfo) (loader : Option Loader)
    (secs : List Sec) (followLinks : Bool) (cr : ContentR) (m : Val) {allowed : Enc → Prop}
    (hm : f.header.getField "e_machine" = .ok m)
    (hh : HoldsR P deflate f secs false cfg a cr allowed)
    (hlink : linkTarget secs loader followLinks = none)
    (hsup : followLinks = false ∨
      ((∃ DS, P.dwarfStructsFor ⟨f.le, 32, f.cls / 8, 2⟩ = some DS) ∧
        cr "debug_sup_sec" = none ∧ cr "gnu_debugaltlink_sec" = none)) :
    (getDwarfInfoCore P again loader f secs false followLinks).map DwarfInfo.view
      = .ok (.mk f.le (f.cls / 8) (P.machineArchOf m) (contentView P.names (unrelocated cr)) none) := by
  rw [view_of_content_relocated hf hr again loader secs false followLinks cr m hm hh hlink hsup, relocatedContent_false]

/-- no relocation section targets any debug section: the view is the content as written, with
    `relocate_dwarf_sections` on or off -/
theorem view_no_reloc_section {P : Params} {deflate : Nat → Bytes → Bytes} {f : ElfFile} (hf : FileOk P deflate f)
    {cfg : ElfCfg} {a : Spec.Arch} (hr : RelocEnv P f cfg a)
    (again : Option Loader → Bytes → Bool → Bool → V DwarfInfo) (loader : Option Loader)
    (secs : List Sec) (relocate followLinks : Bool) (cr : ContentR) (m : Val) {allowed : Enc → Prop}
    (hnone : ∀ k p addr r, cr k = some (p, addr, r) → r = none)
    (hm : f.header.getField "e_machine" = .ok m)
    (hh : HoldsR P deflate f secs relocate cfg a cr allowed)
    (hlink : linkTarget secs loader followLinks = none)
    (hsup : followLinks = false ∨
      ((∃ DS, P.dwarfStructsFor ⟨f.le, 32, f.cls / 8, 2⟩ = some DS) ∧
        cr "debug_sup_sec" = none ∧ cr "gnu_debugaltlink_sec" = none)) :
    (getDwarfInfoCore P again loader f secs relocate followLinks).map DwarfInfo.view
      = .ok (.mk f.le (f.cls / 8) (P.machineArchOf m) (contentView P.names (unrelocated cr)) none) := by
  rw [view_of_content_relocated hf hr again loader secs relocate followLinks cr m hm hh hlink hsup,
    relocatedContent_noReloc _ _ _ _ hnone]

/-- a relocation the standard rejects (symbol index outside the symbol table, wrong REL/RELA flavour
    for the machine, a type the psABI table does not list, a MIPS64 composite R_MIPS_64) against a
    debug section — stored in any encoding — makes `get_dwarf_info` fail: no view is produced from
    half-relocated bytes -/
theorem reloc_rejected_rejects_file {P : Params} {deflate : Nat → Bytes → Bytes} {f : ElfFile} (hf : FileOk P deflate f)
    {cfg : ElfCfg} {a : Spec.Arch} (hr : RelocEnv P f cfg a)
    (again : Option Loader → Bytes → Bool → Bool → V DwarfInfo) (loader : Option Loader)
    (secs : List Sec) (followLinks : Bool) (kn : String × Bytes × Bool) (hk : kn ∈ P.names) (sec rsec : Sec)
    (hlink : linkTarget secs loader followLinks = none)
    (hget : getSectionByName secs (secNameOf (hasSection secs nZdebugInfo) kn) = some sec)
    (e : Enc) (payload : Bytes) (addr off : Nat)
    (hst : Stores deflate f.data f.cls f.le sec e payload addr off)
    (hleg : e.legacy = legacyOf (hasSection secs nZdebugInfo) kn)
    (r : RelocDesc) (hfind : findRelocations secs sec.name = some rsec)
    (hrs : RelocStored P deflate f (Proofs.Reloc.relCfgOf cfg) rsec r)
    (hwf : Spec.WFApply a (Proofs.Reloc.relCfgOf cfg) r.rela r.syms payload.length r.es = true)
    (hrej : Spec.applyStd a (Proofs.Reloc.relCfgOf cfg) r.rela r.syms payload r.es = none) :
    ∃ err, getDwarfInfoCore P again loader f secs true followLinks = .error err :=
  rejected_section_rejects_file P again loader f secs true followLinks kn hk hlink
    ⟨_, readOne_reloc_rejected hf hr secs _ kn sec rsec hget e payload addr off hst hleg r hfind hrs hwf hrej⟩

/-! ### … whole files (through C01) -/

/-- C01 for `wfZ`, packaged with the by-index lookup `apply_section_relocations` uses for the
    symbol table (`get_section_exact_z`) -/
theorem opened_secs_of_wfZ {P : Params} (hP : SpecParams P) (d : Spec.ElfDesc) (bytes : Bytes) (obs : Spec.ElfObs)
    (hwf : d.wfZ P.env = true) (hl : Spec.Layout d bytes) (ho : d.observe P.env = .ok obs) :
    ∃ f, Opened P d bytes obs f ∧ OpenedSecs P d bytes obs f := by
  obtain ⟨f, hopen, hdata, hcls, hle, hS, hh⟩ := C01.open_exact_z P.env d bytes obs hwf hl ho
  have hsecs := C01.sections_exact_z P.env d bytes obs f hwf hl ho hopen
  exact ⟨f, ⟨by rw [hP.structs, hP.mclass]; exact hopen, hdata, hcls, hle, hS, hh, hsecs⟩,
    ⟨hdata, hcls, hle, hS, hh, fun i hi => C01.get_section_exact_z P.env d bytes obs f hwf hl ho hopen i hi⟩⟩

/-- MAIN THEOREM WITH RELOCATIONS, whole-file form, every encoding.
    `ELFFile(BytesIO(bytes)).get_dwarf_info(relocate_dwarf_sections=relocate)` on ANY byte string that
    carries a well-formed description storing the content `cr` — debug sections plain, gABI-compressed
    or `.zdebug`-framed in any mix; relocation and symbol table sections as the description has them
    (`HoldsRD`: bodies in the description, names by `indexOfName`, the symbol table by `sh_link`) —
    yields the content with the relocations applied as the psABI of machine `a` prescribes. -/
theorem view_of_file_relocated {P : Params} {deflate : Nat → Bytes → Bytes} (hP : SpecParams P)
    (henv : P.env.enumDecode "ENUM_ELFCOMPRESS_TYPE" 1 = some "ELFCOMPRESS_ZLIB") (hz : ZlibOk P.X deflate)
    (d : Spec.ElfDesc) (bytes : Bytes) (obs : Spec.ElfObs)
    (hwf : d.wfZ P.env = true) (hl : Spec.Layout d bytes) (ho : d.observe P.env = .ok obs)
    (hph : hasPhantomBytes obs.header = .ok false)
    (fuel : Nat) (loader : Option Loader) (relocate followLinks : Bool) (a : Spec.Arch) (cr : ContentR) (m : Val)
    (hm : obs.header.getField "e_machine" = .ok m) (harch : P.machineArchOf m = Proofs.Reloc.archString a)
    (hmips : decide (d.mclass = "EM_MIPS") = decide (a = .mips)) {allowed : Enc → Prop}
    (hh : HoldsRD P.names deflate d obs relocate a cr allowed)
    (hlink : linkTarget obs.sections loader followLinks = none)
    (hsup : followLinks = false ∨
      ((∃ DS, P.dwarfStructsFor ⟨d.le, 32, d.cls / 8, 2⟩ = some DS) ∧
        cr "debug_sup_sec" = none ∧ cr "gnu_debugaltlink_sec" = none)) :
    dwarfView P (fuel + 1) loader bytes relocate followLinks
      = .ok (.mk d.le (d.cls / 8) (P.machineArchOf m)
          (contentView P.names (relocatedContent a (Proofs.Reloc.relCfgOf d.cfg) relocate cr)) none) := by
  obtain ⟨f, hop, hops⟩ := opened_secs_of_wfZ hP d bytes obs hwf hl ho
  exact view_of_opened_relocated hop hops (Proofs.layout_facts hl) ho (Proofs.wfZ_facts hwf).cls henv hz hph fuel loader
    relocate followLinks a cr m hm harch hmips hh hlink hsup

/-- identical for plain / gABI / `.zdebug` storage, at the level of bytes: two byte strings carrying
    descriptions of the same class, byte order and machine that store the same content-with-relocations
    — one, say, plainly (`allowed₁ = Enc.isPlain`), the other with any subset of its debug sections
    gABI-compressed or `.zdebug`-framed — have the same view, relocations applied -/
theorem view_relocated_invariant_file {P : Params} {deflate : Nat → Bytes → Bytes} (hP : SpecParams P)
    (henv : P.env.enumDecode "ENUM_ELFCOMPRESS_TYPE" 1 = some "ELFCOMPRESS_ZLIB") (hz : ZlibOk P.X deflate)
    (d₁ d₂ : Spec.ElfDesc) (bytes₁ bytes₂ : Bytes) (obs₁ obs₂ : Spec.ElfObs)
    (hwf₁ : d₁.wfZ P.env = true) (hl₁ : Spec.Layout d₁ bytes₁) (ho₁ : d₁.observe P.env = .ok obs₁)
    (hwf₂ : d₂.wfZ P.env = true) (hl₂ : Spec.Layout d₂ bytes₂) (ho₂ : d₂.observe P.env = .ok obs₂)
    (hph₁ : hasPhantomBytes obs₁.header = .ok false) (hph₂ : hasPhantomBytes obs₂.header = .ok false)
    (hle : d₁.le = d₂.le) (hcls : d₁.cls = d₂.cls) (hmc : d₁.mclass = d₂.mclass) (m : Val)
    (hm₁ : obs₁.header.getField "e_machine" = .ok m) (hm₂ : obs₂.header.getField "e_machine" = .ok m)
    (a : Spec.Arch) (harch : P.machineArchOf m = Proofs.Reloc.archString a)
    (hmips : decide (d₁.mclass = "EM_MIPS") = decide (a = .mips))
    (fuel₁ fuel₂ : Nat) (loader₁ loader₂ : Option Loader) (relocate followLinks : Bool) (cr : ContentR)
    {allowed₁ allowed₂ : Enc → Prop}
    (hh₁ : HoldsRD P.names deflate d₁ obs₁ relocate a cr allowed₁)
    (hh₂ : HoldsRD P.names deflate d₂ obs₂ relocate a cr allowed₂)
    (hk₁ : linkTarget obs₁.sections loader₁ followLinks = none)
    (hk₂ : linkTarget obs₂.sections loader₂ followLinks = none)
    (hsup : followLinks = false ∨
      ((∃ DS, P.dwarfStructsFor ⟨d₁.le, 32, d₁.cls / 8, 2⟩ = some DS) ∧
        cr "debug_sup_sec" = none ∧ cr "gnu_debugaltlink_sec" = none)) :
    dwarfView P (fuel₁ + 1) loader₁ bytes₁ relocate followLinks
      = dwarfView P (fuel₂ + 1) loader₂ bytes₂ relocate followLinks := by
  have hc : Proofs.Reloc.relCfgOf d₁.cfg = Proofs.Reloc.relCfgOf d₂.cfg := relCfgOf_congr d₁.cfg d₂.cfg hle hcls hmc
  rw [view_of_file_relocated hP henv hz d₁ bytes₁ obs₁ hwf₁ hl₁ ho₁ hph₁ fuel₁ loader₁ relocate followLinks a cr m hm₁ harch
        hmips hh₁ hk₁ hsup,
      view_of_file_relocated hP henv hz d₂ bytes₂ obs₂ hwf₂ hl₂ ho₂ hph₂ fuel₂ loader₂ relocate followLinks a cr m hm₂ harch
        (by rw [← hmc]; exact hmips) hh₂ hk₂ (by rw [← hle, ← hcls]; exact hsup),
      hle, hcls, hc]

/-- whole-file form of `view_unrelocated` / `view_no_reloc_section`: with `relocate_dwarf_sections=False`,
    or when no relocation section targets a debug section, the view is the content as written -/
theorem view_of_file_unrelocated {P : Params} {deflate : Nat → Bytes → Bytes} (hP : SpecParams P)
    (henv : P.env.enumDecode "ENUM_ELFCOMPRESS_TYPE" 1 = some "ELFCOMPRESS_ZLIB") (hz : ZlibOk P.X deflate)
    (d : Spec.ElfDesc) (bytes : Bytes) (obs : Spec.ElfObs)
    (hwf : d.wfZ P.env = true) (hl : Spec.Layout d bytes) (ho : d.observe P.env = .ok obs)
    (hph : hasPhantomBytes obs.header = .ok false)
    (fuel : Nat) (loader : Option Loader) (relocate followLinks : Bool) (a : Spec.Arch) (cr : ContentR) (m : Val)
    (hm : obs.header.getField "e_machine" = .ok m) (harch : P.machineArchOf m = Proofs.Reloc.archString a)
    (hmips : decide (d.mclass = "EM_MIPS") = decide (a = .mips)) {allowed : Enc → Prop}
    (hun : relocate = false ∨ ∀ k p addr r, cr k = some (p, addr, r) → r = none)
    (hh : HoldsRD P.names deflate d obs relocate a cr allowed)
    (hlink : linkTarget obs.sections loader followLinks = none)
    (hsup : followLinks = false ∨
      ((∃ DS, P.dwarfStructsFor ⟨d.le, 32, d.cls / 8, 2⟩ = some DS) ∧
        cr "debug_sup_sec" = none ∧ cr "gnu_debugaltlink_sec" = none)) :
    dwarfView P (fuel + 1) loader bytes relocate followLinks
      = .ok (.mk d.le (d.cls / 8) (P.machineArchOf m) (contentView P.names (unrelocated cr)) none) := by
  rw [view_of_file_relocated hP henv hz d bytes obs hwf hl ho hph fuel loader relocate followLinks a cr m hm harch hmips hh
    hlink hsup]
  rcases hun with h | h
  · rw [h, relocatedContent_false]
  · rw [relocatedContent_noReloc _ _ _ _ h]

/-- the relocation-free theorems are the special case `liftContent` (a content without relocations):
    `HoldsD` gives `HoldsRD`, and the relocated content of a lifted content is the content -/
theorem holdsD_is_special_case {names : List (String × Bytes × Bool)} {deflate : Nat → Bytes → Bytes} {d : Spec.ElfDesc}
    {obs : Spec.ElfObs} {relocate : Bool} {content : Content} {allowed : Enc → Prop} (a : Spec.Arch) (c : Spec.RelCfg)
    (h : HoldsD names deflate d obs relocate content allowed) :
    HoldsRD names deflate d obs relocate a (liftContent content) allowed ∧
      relocatedContent a c relocate (liftContent content) = content :=
  ⟨h.toR a, relocatedContent_liftContent a c relocate content⟩

/-! ## links composed: debug link → compressed debug file → supplementary link → compressed supplementary file -/

/-- the debug link at the level of bytes (through C01): a stripped file whose description has a
    `.gnu_debuglink` section holding the Spec encoding of (name, crc), a loader with the target,
    links on — when the target's CRC-32 matches, the result is the target's own view -/
theorem view_debuglink_ok_desc {P : Params} {deflate : Nat → Bytes → Bytes} (hP : SpecParams P)
    (d : Spec.ElfDesc) (bytes : Bytes) (obs : Spec.ElfObs)
    (hwf : d.wfZ P.env = true) (hl : Spec.Layout d bytes) (ho : d.observe P.env = .ok obs)
    (fuel : Nat) (ld : Loader) (relocate : Bool) (filename ext : Bytes) (crc : Nat)
    (hdl : DebuglinkD deflate d obs filename crc) (hno : hasDwarfInfo obs.sections true = false)
    (hfile : ld filename = some ext) (hsum : P.X.crc32 ext = crc) :
    dwarfView P (fuel + 1) (some ld) bytes relocate true = dwarfView P fuel (some ld) ext relocate true := by
  obtain ⟨f, hop⟩ := opened_of_wfZ hP d bytes obs hwf hl ho
  rw [dwarfView_debuglink_desc hop (Proofs.layout_facts hl) ho fuel ld relocate filename ext crc hdl hno hfile]
  simp [hsum]

/-- … and when it does not match, ELFError -/
theorem debuglink_bad_crc_rejected_desc {P : Params} {deflate : Nat → Bytes → Bytes} (hP : SpecParams P)
    (d : Spec.ElfDesc) (bytes : Bytes) (obs : Spec.ElfObs)
    (hwf : d.wfZ P.env = true) (hl : Spec.Layout d bytes) (ho : d.observe P.env = .ok obs)
    (fuel : Nat) (ld : Loader) (relocate : Bool) (filename ext : Bytes) (crc : Nat)
    (hdl : DebuglinkD deflate d obs filename crc) (hno : hasDwarfInfo obs.sections true = false)
    (hfile : ld filename = some ext) (hsum : P.X.crc32 ext ≠ crc) :
    dwarfView P (fuel + 1) (some ld) bytes relocate true = .error (.py .elfError) := by
  obtain ⟨f, hop⟩ := opened_of_wfZ hP d bytes obs hwf hl ho
  rw [dwarfView_debuglink_desc hop (Proofs.layout_facts hl) ho fuel ld relocate filename ext crc hdl hno hfile]
  simp [hsum]

/-- the supplementary file end to end at the level of bytes, contents with relocations
    (generalises `view_with_sup_file`) -/
theorem view_with_sup_file_relocated {P : Params} {deflate : Nat → Bytes → Bytes} (hP : SpecParams P)
    (henv : P.env.enumDecode "ENUM_ELFCOMPRESS_TYPE" 1 = some "ELFCOMPRESS_ZLIB") (hz : ZlibOk P.X deflate)
    (d dS : Spec.ElfDesc) (bytes bytesS : Bytes) (obs obsS : Spec.ElfObs)
    (hwf : d.wfZ P.env = true) (hl : Spec.Layout d bytes) (ho : d.observe P.env = .ok obs)
    (hwfS : dS.wfZ P.env = true) (hlS : Spec.Layout dS bytesS) (hoS : dS.observe P.env = .ok obsS)
    (hph : hasPhantomBytes obs.header = .ok false) (hphS : hasPhantomBytes obsS.header = .ok false)
    (hk1 : "debug_sup_sec" ∈ P.names.map (·.1)) (hk2 : "gnu_debugaltlink_sec" ∈ P.names.map (·.1))
    (hDS : ∃ DS, P.dwarfStructsFor ⟨d.le, 32, d.cls / 8, 2⟩ = some DS ∧
      DS.Dwarf_debugaltlink = altlinkCon ∧ DS.Dwarf_debugsup = debugsupCon d.le)
    (hDSS : ∃ DS, P.dwarfStructsFor ⟨dS.le, 32, dS.cls / 8, 2⟩ = some DS ∧
      DS.Dwarf_debugaltlink = altlinkCon ∧ DS.Dwarf_debugsup = debugsupCon dS.le)
    (fuel : Nat) (ld : Loader) (relocate : Bool) (a aS : Spec.Arch) (cr crS : ContentR) (m mS : Val)
    (hm : obs.header.getField "e_machine" = .ok m) (hmS : obsS.header.getField "e_machine" = .ok mS)
    (harch : P.machineArchOf m = Proofs.Reloc.archString a) (harchS : P.machineArchOf mS = Proofs.Reloc.archString aS)
    (hmips : decide (d.mclass = "EM_MIPS") = decide (a = .mips))
    (hmipsS : decide (dS.mclass = "EM_MIPS") = decide (aS = .mips))
    {allowed allowedS : Enc → Prop}
    (hh : HoldsRD P.names deflate d obs relocate a cr allowed)
    (hhS : HoldsRD P.names deflate dS obsS true aS crS allowedS)
    (hlink : linkTarget obs.sections (some ld) true = none)
    (path : Bytes) (hsl : SupLink d.le (relocatedContent a (Proofs.Reloc.relCfgOf d.cfg) relocate cr) (some path))
    (hld : ld path = some bytesS)
    (pS : Option Bytes) (hslS : SupLink dS.le (relocatedContent aS (Proofs.Reloc.relCfgOf dS.cfg) true crS) pS) :
    dwarfView P (fuel + 2) (some ld) bytes relocate true
      = .ok (.mk d.le (d.cls / 8) (P.machineArchOf m)
          (contentView P.names (relocatedContent a (Proofs.Reloc.relCfgOf d.cfg) relocate cr))
          (some (.mk dS.le (dS.cls / 8) (P.machineArchOf mS)
            (contentView P.names (relocatedContent aS (Proofs.Reloc.relCfgOf dS.cfg) true crS)) none))) := by
  obtain ⟨f, hop, hops⟩ := opened_secs_of_wfZ hP d bytes obs hwf hl ho
  obtain ⟨fs, hopS, hopsS⟩ := opened_secs_of_wfZ hP dS bytesS obsS hwfS hlS hoS
  exact view_with_sup_opened_relocated hop hops hopS hopsS (Proofs.layout_facts hl) ho (Proofs.layout_facts hlS) hoS
    (Proofs.wfZ_facts hwf).cls (Proofs.wfZ_facts hwfS).cls henv hz hph hphS hk1 hk2 hDS hDSS fuel ld relocate a aS cr crS
    m mS hm hmS harch harchS hmips hmipsS hh hhS hlink path hsl hld pS hslS

/-- THE LINKS COMPOSED.  Three byte strings:
      `bytes₀`  carries a stripped description (no debug-info section in either naming) with a
                `.gnu_debuglink` holding the Spec encoding of (`lname`, `crc`);
      `bytesD`  — what the loader has under `lname`, with CRC-32 `crc` — carries a description storing
                the content `crD` in ANY mix of encodings (plain, gABI-compressed, `.zdebug`), which
                names a supplementary file `path` (`.gnu_debugaltlink`, or `.debug_sup` with
                `is_supplementary = 0`);
      `bytesS`  — what the loader has under `path` — carries a description storing `crS`, again in any
                mix of encodings.
    `ELFFile(BytesIO(bytes₀), loader).get_dwarf_info(relocate_dwarf_sections=relocate)` yields the view
    of the DEBUG file: its content (relocated as asked) with the supplementary file's content
    (relocated: the supplementary file is opened with the defaults) attached — the same view
    `view_with_sup_file_relocated` gives for opening `bytesD` directly.  (`hlinkD`: the debug file has
    debug info of its own or no further debug link, so the chain ends there.) -/
theorem view_composed_links {P : Params} {deflate : Nat → Bytes → Bytes} (hP : SpecParams P)
    (henv : P.env.enumDecode "ENUM_ELFCOMPRESS_TYPE" 1 = some "ELFCOMPRESS_ZLIB") (hz : ZlibOk P.X deflate)
    (d₀ dD dS : Spec.ElfDesc) (bytes₀ bytesD bytesS : Bytes) (obs₀ obsD obsS : Spec.ElfObs)
    (hwf₀ : d₀.wfZ P.env = true) (hl₀ : Spec.Layout d₀ bytes₀) (ho₀ : d₀.observe P.env = .ok obs₀)
    (hwfD : dD.wfZ P.env = true) (hlD : Spec.Layout dD bytesD) (hoD : dD.observe P.env = .ok obsD)
    (hwfS : dS.wfZ P.env = true) (hlS : Spec.Layout dS bytesS) (hoS : dS.observe P.env = .ok obsS)
    (hphD : hasPhantomBytes obsD.header = .ok false) (hphS : hasPhantomBytes obsS.header = .ok false)
    (hk1 : "debug_sup_sec" ∈ P.names.map (·.1)) (hk2 : "gnu_debugaltlink_sec" ∈ P.names.map (·.1))
    (hDSD : ∃ DS, P.dwarfStructsFor ⟨dD.le, 32, dD.cls / 8, 2⟩ = some DS ∧
      DS.Dwarf_debugaltlink = altlinkCon ∧ DS.Dwarf_debugsup = debugsupCon dD.le)
    (hDSS : ∃ DS, P.dwarfStructsFor ⟨dS.le, 32, dS.cls / 8, 2⟩ = some DS ∧
      DS.Dwarf_debugaltlink = altlinkCon ∧ DS.Dwarf_debugsup = debugsupCon dS.le)
    (fuel : Nat) (ld : Loader) (relocate : Bool)
    -- the debug link of the stripped file
    (lname : Bytes) (crc : Nat) (hdl : DebuglinkD deflate d₀ obs₀ lname crc)
    (hno : hasDwarfInfo obs₀.sections true = false)
    (hldD : ld lname = some bytesD) (hsum : P.X.crc32 bytesD = crc)
    -- the debug file and the supplementary file
    (aD aS : Spec.Arch) (crD crS : ContentR) (mD mS : Val)
    (hmD : obsD.header.getField "e_machine" = .ok mD) (hmS : obsS.header.getField "e_machine" = .ok mS)
    (harchD : P.machineArchOf mD = Proofs.Reloc.archString aD) (harchS : P.machineArchOf mS = Proofs.Reloc.archString aS)
    (hmipsD : decide (dD.mclass = "EM_MIPS") = decide (aD = .mips))
    (hmipsS : decide (dS.mclass = "EM_MIPS") = decide (aS = .mips))
    {allowedD allowedS : Enc → Prop}
    (hhD : HoldsRD P.names deflate dD obsD relocate aD crD allowedD)
    (hhS : HoldsRD P.names deflate dS obsS true aS crS allowedS)
    (hlinkD : linkTarget obsD.sections (some ld) true = none)
    (path : Bytes) (hsl : SupLink dD.le (relocatedContent aD (Proofs.Reloc.relCfgOf dD.cfg) relocate crD) (some path))
    (hldS : ld path = some bytesS)
    (pS : Option Bytes) (hslS : SupLink dS.le (relocatedContent aS (Proofs.Reloc.relCfgOf dS.cfg) true crS) pS) :
    dwarfView P (fuel + 3) (some ld) bytes₀ relocate true
      = .ok (.mk dD.le (dD.cls / 8) (P.machineArchOf mD)
          (contentView P.names (relocatedContent aD (Proofs.Reloc.relCfgOf dD.cfg) relocate crD))
          (some (.mk dS.le (dS.cls / 8) (P.machineArchOf mS)
            (contentView P.names (relocatedContent aS (Proofs.Reloc.relCfgOf dS.cfg) true crS)) none))) := by
  rw [view_debuglink_ok_desc hP d₀ bytes₀ obs₀ hwf₀ hl₀ ho₀ (fuel + 2) ld relocate lname bytesD crc hdl hno hldD hsum]
  exact view_with_sup_file_relocated hP henv hz dD dS bytesD bytesS obsD obsS hwfD hlD hoD hwfS hlS hoS hphD hphS hk1 hk2
    hDSD hDSS fuel ld relocate aD aS crD crS mD mS hmD hmS harchD harchS hmipsD hmipsS hhD hhS hlinkD path hsl hldS pS hslS

/-- the composed chain does not depend on how the two files are stored: any two debug files (and any
    two supplementary files) of the same configuration storing the same contents give the same view
    through the link (corollary of `view_composed_links`, both sides rewritten) — stated here for
    the debug file -/
theorem view_composed_links_invariant {P : Params} {deflate : Nat → Bytes → Bytes} (hP : SpecParams P)
    (henv : P.env.enumDecode "ENUM_ELFCOMPRESS_TYPE" 1 = some "ELFCOMPRESS_ZLIB") (hz : ZlibOk P.X deflate)
    (d₀ d₀' dD dD' dS : Spec.ElfDesc) (bytes₀ bytes₀' bytesD bytesD' bytesS : Bytes) (obs₀ obs₀' obsD obsD' obsS : Spec.ElfObs)
    (hwf₀ : d₀.wfZ P.env = true) (hl₀ : Spec.Layout d₀ bytes₀) (ho₀ : d₀.observe P.env = .ok obs₀)
    (hwf₀' : d₀'.wfZ P.env = true) (hl₀' : Spec.Layout d₀' bytes₀') (ho₀' : d₀'.observe P.env = .ok obs₀')
    (hwfD : dD.wfZ P.env = true) (hlD : Spec.Layout dD bytesD) (hoD : dD.observe P.env = .ok obsD)
    (hwfD' : dD'.wfZ P.env = true) (hlD' : Spec.Layout dD' bytesD') (hoD' : dD'.observe P.env = .ok obsD')
    (hwfS : dS.wfZ P.env = true) (hlS : Spec.Layout dS bytesS) (hoS : dS.observe P.env = .ok obsS)
    (hphD : hasPhantomBytes obsD.header = .ok false) (hphD' : hasPhantomBytes obsD'.header = .ok false)
    (hphS : hasPhantomBytes obsS.header = .ok false)
    (hk1 : "debug_sup_sec" ∈ P.names.map (·.1)) (hk2 : "gnu_debugaltlink_sec" ∈ P.names.map (·.1))
    (hDSD : ∃ DS, P.dwarfStructsFor ⟨dD.le, 32, dD.cls / 8, 2⟩ = some DS ∧
      DS.Dwarf_debugaltlink = altlinkCon ∧ DS.Dwarf_debugsup = debugsupCon dD.le)
    (hDSS : ∃ DS, P.dwarfStructsFor ⟨dS.le, 32, dS.cls / 8, 2⟩ = some DS ∧
      DS.Dwarf_debugaltlink = altlinkCon ∧ DS.Dwarf_debugsup = debugsupCon dS.le)
    (hle : dD.le = dD'.le) (hcls : dD.cls = dD'.cls) (hmc : dD.mclass = dD'.mclass)
    (fuel fuel' : Nat) (ld ld' : Loader) (relocate : Bool)
    (lname lname' : Bytes) (crc crc' : Nat) (hdl : DebuglinkD deflate d₀ obs₀ lname crc)
    (hdl' : DebuglinkD deflate d₀' obs₀' lname' crc')
    (hno : hasDwarfInfo obs₀.sections true = false) (hno' : hasDwarfInfo obs₀'.sections true = false)
    (hldD : ld lname = some bytesD) (hsum : P.X.crc32 bytesD = crc)
    (hldD' : ld' lname' = some bytesD') (hsum' : P.X.crc32 bytesD' = crc')
    (aD aS : Spec.Arch) (crD crS : ContentR) (mD mS : Val)
    (hmD : obsD.header.getField "e_machine" = .ok mD) (hmD' : obsD'.header.getField "e_machine" = .ok mD)
    (hmS : obsS.header.getField "e_machine" = .ok mS)
    (harchD : P.machineArchOf mD = Proofs.Reloc.archString aD) (harchS : P.machineArchOf mS = Proofs.Reloc.archString aS)
    (hmipsD : decide (dD.mclass = "EM_MIPS") = decide (aD = .mips))
    (hmipsS : decide (dS.mclass = "EM_MIPS") = decide (aS = .mips))
    {allowedD allowedD' allowedS : Enc → Prop}
    (hhD : HoldsRD P.names deflate dD obsD relocate aD crD allowedD)
    (hhD' : HoldsRD P.names deflate dD' obsD' relocate aD crD allowedD')
    (hhS : HoldsRD P.names deflate dS obsS true aS crS allowedS)
    (hlinkD : linkTarget obsD.sections (some ld) true = none) (hlinkD' : linkTarget obsD'.sections (some ld') true = none)
    (path : Bytes) (hsl : SupLink dD.le (relocatedContent aD (Proofs.Reloc.relCfgOf dD.cfg) relocate crD) (some path))
    (hldS : ld path = some bytesS) (hldS' : ld' path = some bytesS)
    (pS : Option Bytes) (hslS : SupLink dS.le (relocatedContent aS (Proofs.Reloc.relCfgOf dS.cfg) true crS) pS) :
    dwarfView P (fuel + 3) (some ld) bytes₀ relocate true = dwarfView P (fuel' + 3) (some ld') bytes₀' relocate true := by
  have hc : Proofs.Reloc.relCfgOf dD.cfg = Proofs.Reloc.relCfgOf dD'.cfg := relCfgOf_congr dD.cfg dD'.cfg hle hcls hmc
  rw [view_composed_links hP henv hz d₀ dD dS bytes₀ bytesD bytesS obs₀ obsD obsS hwf₀ hl₀ ho₀ hwfD hlD hoD hwfS hlS hoS
        hphD hphS hk1 hk2 hDSD hDSS fuel ld relocate lname crc hdl hno hldD hsum aD aS crD crS mD mS hmD hmS harchD harchS
        hmipsD hmipsS hhD hhS hlinkD path hsl hldS pS hslS,
      view_composed_links hP henv hz d₀' dD' dS bytes₀' bytesD' bytesS obs₀' obsD' obsS hwf₀' hl₀' ho₀' hwfD' hlD' hoD' hwfS
        hlS hoS hphD' hphS hk1 hk2 (by rw [← hle, ← hcls]; exact hDSD) hDSS fuel' ld' relocate lname' crc' hdl' hno' hldD'
        hsum' aD aS crD crS mD mS hmD' hmS harchD harchS (by rw [← hmc]; exact hmipsD) hmipsS hhD' hhS hlinkD' path
        (by rw [← hle, ← hc]; exact hsl) hldS' pS hslS,
      hle, hcls, hc]

/-! ## the checksum of the debug link is computed in chunks

  `_file_crc32` reads the linked file 4096 bytes at a time and folds `binascii.crc32(chunk, running)`
  (Model/DwarfViewCrc.lean).  The ONLY assumption on CRC-32 is the streaming law `CrcStreaming`:
  `crc (a ++ b) init = crc b (crc a init)`. -/

/-- the chunked fold equals the one-shot CRC of the whole file, for every chunk size `n > 0`
    (an empty file is never fed to `crc`: its checksum is the preset 0) -/
theorem file_crc32_chunked {crc : Bytes → Nat → Nat} (h : CrcStreaming crc) (n : Nat) (hn : 0 < n) (data : Bytes) :
    fileCrc32 crc n data = if data = [] then 0 else crc data 0 :=
  fileCrc32_eq_oneshot h n hn data

/-- … so the chunk size is immaterial (4096 in the source) -/
theorem file_crc32_chunk_size_irrelevant {crc : Bytes → Nat → Nat} (h : CrcStreaming crc) (n₁ n₂ : Nat)
    (h₁ : 0 < n₁) (h₂ : 0 < n₂) (data : Bytes) : fileCrc32 crc n₁ data = fileCrc32 crc n₂ data :=
  fileCrc32_chunk_irrelevant h n₁ n₂ h₁ h₂ data

/-- with the externals built from the streaming primitive (`extOfStreaming`: what the code does),
    the debug link is accepted exactly when the ONE-SHOT CRC-32 of the target is the recorded one —
    the hypothesis `hsum` of `view_debuglink_ok` / `debuglink_bad_crc_rejected` and their `_desc` forms -/
theorem debuglink_check_is_oneshot_crc {crc : Bytes → Nat → Nat} (h : CrcStreaming crc)
    (decompress : Bytes → Nat → Option Bytes) (ext : Bytes) (recorded : Nat) :
    (extOfStreaming decompress crc).crc32 ext = recorded ↔ (if ext = [] then 0 else crc ext 0) = recorded := by
  show fileCrc32 crc 4096 ext = recorded ↔ _
  rw [fileCrc32_eq_oneshot h 4096 (by decide)]

/-- the CRC-32 of the GDB manual (Spec/ContainerCrc.lean) satisfies the law and maps nothing to 0:
    with it, `_file_crc32` IS that CRC-32 of the file, for every chunk size -/
theorem file_crc32_spec (n : Nat) (hn : 0 < n) (data : Bytes) :
    fileCrc32 (fun d init => Spec.C11.crc32 d init) n data = Spec.C11.crc32 data :=
  fileCrc32_eq_oneshot' spec_crc32_streaming spec_crc32_nil n hn data

/-! ### the Spec bundles satisfy the structural hypotheses -/

theorem spec_structs_ok (c : ElfCfg) :
    (Spec.elfStructs c).Elf_Chdr = chdrCon c.cls c.le ∧ (Spec.elfStructs c).Gnu_debuglink = debuglinkCon c.le :=
  ⟨spec_chdr c, spec_debuglink c⟩

theorem spec_dwarf_structs_ok (c : DwarfCfg) :
    (Spec.dwarfStructs c).Dwarf_debugaltlink = altlinkCon ∧ (Spec.dwarfStructs c).Dwarf_debugsup = debugsupCon c.le :=
  ⟨spec_altlink c, spec_debugsup c⟩

/-! ### non-vacuity -/

/-- a zlib satisfying the assumption exists (the "stored" coder), so no theorem above is vacuous in `ZlibOk` -/
example : ZlibOk ⟨fun d k => some (if k = 0 then d else d.take k), fun _ => 0⟩ (fun _ x => x) :=
  ⟨fun _ _ _ => rfl⟩

/-- a concrete header placing a 3-byte body at offset 4 -/
example : Placed [9, 9, 9, 9, 1, 2, 3, 7]
    (.record [("sh_type", .str "SHT_PROGBITS"), ("sh_flags", .int 0), ("sh_addr", .int 0), ("sh_offset", .int 4),
              ("sh_size", .int 3)])
    (.str "SHT_PROGBITS") 4 [1, 2, 3] [7] 0 0 := by
  constructor <;> first | rfl | decide

/-- `Stores` is satisfiable in each encoding (with the "stored" coder as `deflate`): a 3-byte payload
    at offset 4, plainly; framed as a legacy section; behind a 32-bit little-endian `Elf32_Chdr` -/
example : Stores (fun _ x => x) [9, 9, 9, 9, 1, 2, 3, 7] 32 true
    ("Section", nDebugInfo, .record [("sh_type", .str "SHT_PROGBITS"), ("sh_flags", .int 0), ("sh_addr", .int 0),
      ("sh_offset", .int 4), ("sh_size", .int 3)]) .plain [1, 2, 3] 0 4 :=
  ⟨.str "SHT_PROGBITS", [7], 0, by constructor <;> first | rfl | decide, by simp [Enc.ok]⟩

example : Stores (fun _ x => x) ([9, 9, 9, 9] ++ zdebugBody 3 [1, 2, 3]) 32 true
    ("Section", nZdebugInfo, .record [("sh_type", .str "SHT_PROGBITS"), ("sh_flags", .int 0), ("sh_addr", .int 0),
      ("sh_offset", .int 4), ("sh_size", .int 15)]) (.zdebug 6) [1, 2, 3] 0 4 :=
  ⟨.str "SHT_PROGBITS", [], 0, by constructor <;> first | rfl | decide, by simp [Enc.ok]⟩

example : Stores (fun _ x => x) ([9, 9, 9, 9] ++ gabiBody 32 true 3 1 [1, 2, 3] ++ [5]) 32 true
    ("Section", nDebugInfo, .record [("sh_type", .str "SHT_PROGBITS"), ("sh_flags", .int 0x800), ("sh_addr", .int 0),
      ("sh_offset", .int 4), ("sh_size", .int 15)]) (.gabi 6 1) [1, 2, 3] 0 4 :=
  ⟨.str "SHT_PROGBITS", [5], 0x800, by constructor <;> first | rfl | decide, by simp [Enc.ok]⟩

example : encDebuglink true [0x61, 0x62] 0x01020304 = [0x61, 0x62, 0, 0, 4, 3, 2, 1] := by decide
example : zdebugBody 3 [0xAA] = [0x5a, 0x4c, 0x49, 0x42, 0, 0, 0, 0, 0, 0, 0, 3, 0xAA] := by decide
example : gabiBody 32 true 3 1 [0xAA] = [1, 0, 0, 0, 3, 0, 0, 0, 1, 0, 0, 0, 0xAA] := by decide
example : (Enc.zdebug 6).legacy = legacyOf true ("debug_info_sec", nDebugInfo, true) := by decide

/-! non-vacuity of the whole-file hypotheses.  (`ElfDesc.wf`/`wfZ`, `Layout` and `observe` are C01's:
    `C01.assemble_layout`/`assemble_layout_z` produce layouts; the correspondence check evaluates them
    on every generated file.  Here: descriptions that store a content in each encoding.) -/

/-- the standards-side parameters exist -/
example (env : Env) (X : Ext) : SpecParams ⟨env, C01.specStructs, C01.specMachineClass, fun _ => "", fun c => some (Spec.dwarfStructs c),
    sectionNames, X⟩ := ⟨rfl, rfl⟩

/-- with the Spec's DWARF structs and section-name table, `SupOk` holds for every file -/
theorem spec_sup_ok (P : Params) (f : ElfFile) (hn : P.names = sectionNames)
    (hD : P.dwarfStructsFor = fun c => some (Spec.dwarfStructs c)) : SupOk P f := by
  refine ⟨by rw [hn]; decide, by rw [hn]; decide, ⟨_, by rw [hD], rfl, rfl⟩⟩

private def exShdr (ty flags off size : Nat) : Fields :=
  [("sh_type", .int ty), ("sh_flags", .int flags), ("sh_addr", .int 0), ("sh_offset", .int off), ("sh_size", .int size),
   ("sh_link", .int 0), ("sh_info", .int 0), ("sh_addralign", .int 1), ("sh_entsize", .int 0)]

private def exObsHdr (nm flags off size : Nat) (tyName : String) : Val :=
  .record [("sh_name", .int nm), ("sh_type", .str tyName), ("sh_flags", .int flags), ("sh_addr", .int 0),
    ("sh_offset", .int off), ("sh_size", .int size), ("sh_link", .int 0), ("sh_info", .int 0),
    ("sh_addralign", .int 1), ("sh_entsize", .int 0)]

private def exShstrtab : Bytes := [0x2e, 0x73, 0x68, 0x73, 0x74, 0x72, 0x74, 0x61, 0x62]

/-- a 32-bit little-endian description: null section, `.shstrtab`, one debug section `name` with
    body `body` and flags `flags` at offset 96 -/
private def exDesc (name body : Bytes) (flags : Nat) : Spec.ElfDesc :=
  { cls := 32, le := true, mclass := "default", solaris := false, core := false,
    ehdr := [("EI_VERSION", .int 1), ("e_type", .int 1), ("e_machine", .int 3), ("e_version", .int 1), ("e_ehsize", .int 52)],
    shoff := 128, phoff := 0, shentsize := 40, phentsize := 0,
    sections := [⟨[], exShdr 0 0 0 0, none, 0⟩,
                 ⟨exShstrtab, exShdr 3 0 64 (12 + name.length), some ([0] ++ exShstrtab ++ [0] ++ name ++ [0]), 1⟩,
                 ⟨name, exShdr 1 flags 96 body.length, some body, 11⟩],
    segments := [], shstrndx := 1 }

/-- what `observe` reports for its sections (with the standard type names) -/
private def exObs (name body : Bytes) (flags : Nat) : Spec.ElfObs :=
  ⟨.none, [("NullSection", [], exObsHdr 0 0 0 0 "SHT_NULL"),
           ("StringTableSection", exShstrtab, exObsHdr 1 0 64 (12 + name.length) "SHT_STRTAB"),
           ("Section", name, exObsHdr 11 flags 96 body.length "SHT_PROGBITS")], []⟩

private def exContent : Content := fun k => if k = "debug_info_sec" then some ([1, 2, 3], 0) else none

/-- `.debug_info` stored plainly -/
example : HoldsD sectionNames (fun _ x => x) (exDesc nDebugInfo [1, 2, 3] 0) (exObs nDebugInfo [1, 2, 3] 0) false
    exContent Enc.isPlain := by
  intro kn hk
  simp only [sectionNames, List.mem_cons, List.not_mem_nil, or_false] at hk
  rcases hk with rfl | rfl | rfl | rfl | rfl | rfl | rfl | rfl | rfl | rfl | rfl | rfl | rfl | rfl | rfl | rfl | rfl | rfl | rfl
  · refine ⟨2, _, _, .plain, 96, by decide +kernel, rfl, rfl, Or.inl rfl, ?_, by decide +kernel, trivial⟩
    exact ⟨.str "SHT_PROGBITS", 0, rfl, rfl, rfl, rfl, rfl, rfl, rfl, by decide, by simp [Enc.ok]⟩
  all_goals (simp only [exContent, String.reduceEq, if_false]; decide +kernel)

/-- the same content as `.zdebug_info` in the legacy framing -/
example : HoldsD sectionNames (fun _ x => x) (exDesc nZdebugInfo (zdebugBody 3 [1, 2, 3]) 0)
    (exObs nZdebugInfo (zdebugBody 3 [1, 2, 3]) 0) false exContent Enc.isPlainOrZdebug := by
  intro kn hk
  simp only [sectionNames, List.mem_cons, List.not_mem_nil, or_false] at hk
  rcases hk with rfl | rfl | rfl | rfl | rfl | rfl | rfl | rfl | rfl | rfl | rfl | rfl | rfl | rfl | rfl | rfl | rfl | rfl | rfl
  · refine ⟨2, _, _, .zdebug 6, 96, by decide +kernel, rfl, rfl, Or.inl rfl, ?_, by decide +kernel, trivial⟩
    exact ⟨.str "SHT_PROGBITS", 0, rfl, rfl, rfl, rfl, rfl, rfl, rfl, by decide, by simp [Enc.ok]⟩
  all_goals (simp only [exContent, String.reduceEq, if_false]; decide +kernel)

/-- the same content as a SHF_COMPRESSED `.debug_info` behind an `Elf32_Chdr` -/
example : HoldsD sectionNames (fun _ x => x) (exDesc nDebugInfo (gabiBody 32 true 3 1 [1, 2, 3]) 0x800)
    (exObs nDebugInfo (gabiBody 32 true 3 1 [1, 2, 3]) 0x800) false exContent Enc.isPlainOrGabi := by
  intro kn hk
  simp only [sectionNames, List.mem_cons, List.not_mem_nil, or_false] at hk
  rcases hk with rfl | rfl | rfl | rfl | rfl | rfl | rfl | rfl | rfl | rfl | rfl | rfl | rfl | rfl | rfl | rfl | rfl | rfl | rfl
  · refine ⟨2, _, _, .gabi 6 1, 96, by decide +kernel, rfl, rfl, Or.inl rfl, ?_, by decide +kernel, trivial⟩
    exact ⟨.str "SHT_PROGBITS", 0x800, rfl, rfl, rfl, rfl, rfl, rfl, rfl, by decide, by simp [Enc.ok, exDesc]⟩
  all_goals (simp only [exContent, String.reduceEq, if_false]; decide +kernel)

/-- a content naming a supplementary file through `.gnu_debugaltlink` -/
example : SupLink true (fun k => if k = "gnu_debugaltlink_sec" then some (encAltlink [0x61] (List.replicate 20 7) ++ [], 0) else none)
    (some [0x61]) :=
  .altlink [0x61] (List.replicate 20 7) [] 0 (by simp) (by simp) (by simp) (by simp)


/-! non-vacuity of the relocation-aware hypotheses: an x86-64 description whose debug section
    (12 bytes) is targeted by a RELA section with one R_X86_64_PC32 entry against symbol 1 of a
    two-entry symbol table — stored plainly, gABI-compressed and `.zdebug`-framed -/

private def exShdr64 (ty flags off size link entsize : Nat) : Fields :=
  [("sh_type", .int ty), ("sh_flags", .int flags), ("sh_addr", .int 0), ("sh_offset", .int off), ("sh_size", .int size),
   ("sh_link", .int link), ("sh_info", .int 0), ("sh_addralign", .int 1), ("sh_entsize", .int entsize)]

private def exObsHdr64 (nm : Nat) (tyName : String) (flags off size link entsize : Nat) : Val :=
  .record [("sh_name", .int nm), ("sh_type", .str tyName), ("sh_flags", .int flags), ("sh_addr", .int 0),
    ("sh_offset", .int off), ("sh_size", .int size), ("sh_link", .int link), ("sh_info", .int 0),
    ("sh_addralign", .int 1), ("sh_entsize", .int entsize)]

private def exRelCfg : Spec.RelCfg := ⟨true, 64, false⟩
private def exRel : RelocDesc := ⟨true, [{ offset := 8, sym := 1, type := 2, addend := -4 }], [0, 0x1000]⟩
private def exPayload : Bytes := [0, 0, 0, 0, 0xaa, 0xaa, 0xaa, 0xaa, 1, 2, 3, 4]
private def exRelBody : Bytes := Spec.encRelTable exRelCfg exRel.rela exRel.es
private def exSymBody : Bytes := Proofs.Reloc.encSymTable true 64 exRel.syms
private def nStrtab : Bytes := [0x2e, 0x73, 0x74, 0x72, 0x74, 0x61, 0x62]
private def nSymtab : Bytes := [0x2e, 0x73, 0x79, 0x6d, 0x74, 0x61, 0x62]

/-- null, `.shstrtab`, the debug section `name` (body `body`, flags `flags`) at 0x200, `.strtab`,
    `.symtab` (→ `.strtab`) at 0x340, `.rela<name>` (→ `.symtab`) at 0x380; section headers at 0x400 -/
private def exDescR (name body : Bytes) (flags : Nat) : Spec.ElfDesc :=
  { cls := 64, le := true, mclass := "EM_X86_64", solaris := false, core := false,
    ehdr := [("EI_VERSION", .int 1), ("e_type", .int 1), ("e_machine", .int 62), ("e_version", .int 1), ("e_ehsize", .int 64)],
    shoff := 0x400, phoff := 0, shentsize := 64, phentsize := 0,
    sections := [⟨[], exShdr64 0 0 0 0 0 0, none, 0⟩,
                 ⟨exShstrtab, exShdr64 3 0 0x100 (33 + 2 * name.length) 0 0,
                   some ([0] ++ exShstrtab ++ [0] ++ name ++ [0] ++ nStrtab ++ [0] ++ nSymtab ++ [0] ++ (nRela ++ name) ++ [0]), 1⟩,
                 ⟨name, exShdr64 1 flags 0x200 body.length 0 0, some body, 11⟩,
                 ⟨nStrtab, exShdr64 3 0 0x300 1 0 0, some [0], 12 + name.length⟩,
                 ⟨nSymtab, exShdr64 2 0 0x340 48 3 24, some exSymBody, 20 + name.length⟩,
                 ⟨nRela ++ name, exShdr64 4 0 0x380 24 4 24, some exRelBody, 28 + name.length⟩],
    segments := [], shstrndx := 1 }

/-- what `observe` reports for its sections (checked by the `#guard` below) -/
private def exObsR (name : Bytes) (bodyLen flags : Nat) : Spec.ElfObs :=
  ⟨.none, [("NullSection", [], exObsHdr64 0 "SHT_NULL" 0 0 0 0 0),
           ("StringTableSection", exShstrtab, exObsHdr64 1 "SHT_STRTAB" 0 0x100 (33 + 2 * name.length) 0 0),
           ("Section", name, exObsHdr64 11 "SHT_PROGBITS" flags 0x200 bodyLen 0 0),
           ("StringTableSection", nStrtab, exObsHdr64 (12 + name.length) "SHT_STRTAB" 0 0x300 1 0 0),
           ("SymbolTableSection", nSymtab, exObsHdr64 (20 + name.length) "SHT_SYMTAB" 0 0x340 48 3 24),
           ("RelocationSection", nRela ++ name, exObsHdr64 (28 + name.length) "SHT_RELA" 0 0x380 24 4 24)], []⟩

private def exCR : ContentR := fun k => if k = "debug_info_sec" then some (exPayload, 0, some exRel) else none

/-- the relocation is in C08's domain and is not rejected; the relocated bytes -/
example : Spec.WFApply .x64 exRelCfg exRel.rela exRel.syms exPayload.length exRel.es = true := by decide
example : relocatedContent .x64 exRelCfg true exCR "debug_info_sec"
    = some ([0, 0, 0, 0, 0xaa, 0xaa, 0xaa, 0xaa, 0xf4, 0x0f, 0, 0], 0) := by decide
example : relocatedContent .x64 exRelCfg false exCR "debug_info_sec" = some (exPayload, 0) := by decide

/-- the descriptions are well formed (`wfZ`), assemble, and are observed as `exObsR` says: plain,
    gABI-compressed, `.zdebug` (evaluated at build time: `Con.encodeRaw`/`decodeRaw` do not reduce in the kernel) -/
private def exOk (name body : Bytes) (flags : Nat) : Bool :=
  let d := exDescR name body flags
  d.wfZ elfEnv && (d.assemble 0).isSome &&
    (match d.observe elfEnv with
     | .ok o => o.sections.length == 6 &&
         (o.sections.zip (exObsR name body.length flags).sections).all fun (x, y) =>
           x.1 == y.1 && x.2.1 == y.2.1 && toString (repr x.2.2) == toString (repr y.2.2)
     | .error _ => false)
#guard exOk nDebugInfo exPayload 0
#guard exOk nDebugInfo (gabiBody 64 true 12 1 exPayload) 0x800
#guard exOk nZdebugInfo (zdebugBody 12 exPayload) 0

theorem exRelLen :
    (Spec.encRelTable (Proofs.Reloc.relCfgOf ⟨true, 64, "EM_X86_64", false, false⟩) exRel.rela exRel.es).length = 24 := by
  decide +kernel

theorem exRelocStoredD (name : Bytes) (bodyLen flags : Nat) (body : Bytes) :
    RelocStoredD (fun _ x => x) (exDescR name body flags) (exObsR name bodyLen flags)
      ("RelocationSection", nRela ++ name, exObsHdr64 (28 + name.length) "SHT_RELA" 0 0x380 24 4 24) exRel := by
  refine ⟨5, 4, _, _, _, 0, 0x380, 0, 0x340, rfl, rfl, rfl, rfl, ?_, rfl, rfl, rfl, rfl,
    (by show ∀ s ∈ [0, 0x1000], s < 2 ^ 64; decide), ?_⟩
  · refine ⟨.str "SHT_RELA", 0, rfl, rfl, rfl, rfl, ?_, rfl, rfl, ?_, by simp [Enc.ok]⟩
    · show Val.getNat _ "sh_size" = .ok (Spec.encRelTable (Proofs.Reloc.relCfgOf ⟨true, 64, "EM_X86_64", false, false⟩)
        exRel.rela exRel.es).length
      rw [exRelLen]; rfl
    · show 896 + (Spec.encRelTable (Proofs.Reloc.relCfgOf ⟨true, 64, "EM_X86_64", false, false⟩)
        exRel.rela exRel.es).length < 2 ^ 63
      rw [exRelLen]; decide
  · exact ⟨.str "SHT_SYMTAB", 0, rfl, rfl, rfl, rfl, rfl, rfl, rfl, by show 832 + 48 < 2 ^ 63; decide, by simp [Enc.ok]⟩

/-- `.debug_info` stored plainly, with its `.rela.debug_info` -/
example : HoldsRD sectionNames (fun _ x => x) (exDescR nDebugInfo exPayload 0) (exObsR nDebugInfo 12 0) true .x64
    exCR Enc.isPlain := by
  intro kn hk
  simp only [sectionNames, List.mem_cons, List.not_mem_nil, or_false] at hk
  rcases hk with rfl | rfl | rfl | rfl | rfl | rfl | rfl | rfl | rfl | rfl | rfl | rfl | rfl | rfl | rfl | rfl | rfl | rfl | rfl
  · refine ⟨2, _, _, .plain, 0x200, by decide +kernel, rfl, rfl, ?_, by decide +kernel, trivial, Or.inr ?_⟩
    · exact ⟨.str "SHT_PROGBITS", 0, rfl, rfl, rfl, rfl, rfl, rfl, rfl, by decide, by simp [Enc.ok]⟩
    · exact ⟨_, rfl, exRelocStoredD nDebugInfo 12 0 exPayload, by decide +kernel, by decide +kernel⟩
  all_goals (simp only [exCR, String.reduceEq, if_false]; decide +kernel)

/-- the same content as a SHF_COMPRESSED `.debug_info` behind an `Elf64_Chdr`, same `.rela.debug_info` -/
example : HoldsRD sectionNames (fun _ x => x) (exDescR nDebugInfo (gabiBody 64 true 12 1 exPayload) 0x800)
    (exObsR nDebugInfo 36 0x800) true .x64 exCR Enc.isPlainOrGabi := by
  intro kn hk
  simp only [sectionNames, List.mem_cons, List.not_mem_nil, or_false] at hk
  rcases hk with rfl | rfl | rfl | rfl | rfl | rfl | rfl | rfl | rfl | rfl | rfl | rfl | rfl | rfl | rfl | rfl | rfl | rfl | rfl
  · refine ⟨2, _, _, .gabi 6 1, 0x200, by decide +kernel, rfl, rfl, ?_, by decide +kernel, trivial, Or.inr ?_⟩
    · exact ⟨.str "SHT_PROGBITS", 0x800, rfl, rfl, rfl, rfl, rfl, rfl, rfl, by decide, by simp [Enc.ok, exDescR, exPayload]⟩
    · exact ⟨_, rfl, exRelocStoredD nDebugInfo 36 0x800 _, by decide +kernel, by decide +kernel⟩
  all_goals (simp only [exCR, String.reduceEq, if_false]; decide +kernel)

/-- the same content as `.zdebug_info` in the legacy framing, with `.rela.zdebug_info` (what
    binutils' `--compress-debug-sections=zlib-gnu` leaves in a relocatable object) -/
example : HoldsRD sectionNames (fun _ x => x) (exDescR nZdebugInfo (zdebugBody 12 exPayload) 0)
    (exObsR nZdebugInfo 24 0) true .x64 exCR Enc.isPlainOrZdebug := by
  intro kn hk
  simp only [sectionNames, List.mem_cons, List.not_mem_nil, or_false] at hk
  rcases hk with rfl | rfl | rfl | rfl | rfl | rfl | rfl | rfl | rfl | rfl | rfl | rfl | rfl | rfl | rfl | rfl | rfl | rfl | rfl
  · refine ⟨2, _, _, .zdebug 6, 0x200, by decide +kernel, rfl, rfl, ?_, by decide +kernel, trivial, Or.inr ?_⟩
    · exact ⟨.str "SHT_PROGBITS", 0, rfl, rfl, rfl, rfl, rfl, rfl, rfl, by decide, by simp [Enc.ok, exPayload]⟩
    · exact ⟨_, rfl, exRelocStoredD nZdebugInfo 24 0 _, by decide +kernel, by decide +kernel⟩
  all_goals (simp only [exCR, String.reduceEq, if_false]; decide +kernel)

/-- the machine hypotheses: with the reader's own architecture map, EM_X86_64 is `x64` -/
example : Reloc.machineArchOf (.str "EM_X86_64") = Proofs.Reloc.archString .x64 := by decide
example : decide ((exDescR nDebugInfo exPayload 0).mclass = "EM_MIPS") = decide (Spec.Arch.x64 = .mips) := by decide

/-- a stripped description with a `.gnu_debuglink` naming `ab` with CRC 0x01020304 -/
example : DebuglinkD (fun _ x => x) (exDesc nGnuDebuglink (encDebuglink true [0x61, 0x62] 0x01020304) 0)
    (exObs nGnuDebuglink (encDebuglink true [0x61, 0x62] 0x01020304) 0) [0x61, 0x62] 0x01020304 := by
  refine ⟨2, _, _, 0, 96, [], by decide +kernel, rfl, rfl, ?_, by decide, by decide⟩
  exact ⟨.str "SHT_PROGBITS", 0, rfl, rfl, rfl, rfl, rfl, rfl, rfl, by decide, by simp [Enc.ok]⟩
example : hasDwarfInfo (exObs nGnuDebuglink (encDebuglink true [0x61, 0x62] 0x01020304) 0).sections true = false := by
  decide +kernel

/-- a content with relocations naming a supplementary file: the link sections carry no relocations -/
example : SupLink true (relocatedContent .x64 exRelCfg true
      (fun k => if k = "gnu_debugaltlink_sec" then some (encAltlink [0x61] (List.replicate 20 7) ++ [], 0, none) else exCR k))
    (some [0x61]) :=
  .altlink [0x61] (List.replicate 20 7) [] 0 (by decide) (by decide) (by simp) (by simp)

/-- the streaming law is satisfiable: the CRC-32 of the GDB manual (`spec_crc32_streaming`) -/
example : CrcStreaming (fun d init => Spec.C11.crc32 d init) := spec_crc32_streaming
example : fileCrc32 (fun d init => Spec.C11.crc32 d init) 4 [0x31, 0x32, 0x33, 0x34, 0x35, 0x36, 0x37, 0x38, 0x39] = 0xCBF43926 := by
  rw [file_crc32_spec 4 (by decide)]; decide +kernel

end PyElf.Props.C11
