/-
  C11 — the DWARF view is invariant under the container encoding of the same debug data.

  Property theorems only.  The subject is the mirror of the container side of the reader
  (Model/DwarfView.lean): `getDwarfInfoCore` is `ELFFile.get_dwarf_info` on an opened file whose
  section table is `secs` (what `iter_sections()` yields: the C01 model's validated output), `again`
  stands for the recursive uses on linked files, and `DwarfInfo.view` keeps of the result what the
  DWARF layers consume (per section: bytes, logical size, address; the configuration; the
  supplementary file's view).  Units, DIEs, line and frame tables are functions of that view.

  `Holds P deflate f secs relocate content` (Proofs/Container.lean) says the file stores the logical
  content `content` (keyword ↦ payload bytes and address): every name of the reader's table is absent
  where the content has nothing, and otherwise found by `get_section_by_name` in a section whose
  bytes at `sh_offset` are the Spec encoding of the payload — plain, gABI (`Elf_Chdr` + deflate, any
  level, per section), or legacy GNU (`"ZLIB"` + 8-byte big-endian size + deflate, under the `.z` name).

  zlib and CRC-32 are parameters.  The ONLY assumption on them is `ZlibOk`:
  `decompress (deflate lvl x) k = x` (`x.take k` under the `max_length = k > 0` of the API).

  Hypotheses common to the view theorems: `FileOk` (class 32/64, the Spec's compression header,
  ELFCOMPRESS_ZLIB named, no phantom bytes), no relocation section applies to a debug section
  (`NoReloc`, part of `Holds`; relocation is C08's subject), sizes fit their header fields.
-/
import PyElf.Model.DwarfView
import PyElf.Spec.Container
import PyElf.Proofs.Container
import PyElf.Props.TieC11
namespace PyElf.Props.C11
open PyElf PyElf.Model PyElf.Model.C11 PyElf.Spec.C11 PyElf.Proofs.C11

/-! ### presence of debugging information -/

/-- reported exactly when a debug-info section in either naming exists, or — non-strictly — an
    exception-frame section -/
theorem has_dwarf_iff (secs : List Sec) (strict : Bool) :
    hasDwarfInfo secs strict = true ↔
      (∃ s ∈ secs, s.name = nDebugInfo) ∨ (∃ s ∈ secs, s.name = nZdebugInfo) ∨
        (strict = false ∧ ∃ s ∈ secs, s.name = nEhFrame) := by
  simp only [hasDwarfInfo, Bool.or_eq_true, Bool.and_eq_true, hasSection_iff, Bool.not_eq_true', or_assoc]

/-- `has_dwarf_link` -/
theorem has_link_iff (secs : List Sec) : hasDwarfLink secs = true ↔ ∃ s ∈ secs, s.name = nGnuDebuglink :=
  hasSection_iff secs nGnuDebuglink

/-- name lookups find the last section bearing the name (so the hypotheses of `Holds` are about
    that section) and nothing for an unused name -/
theorem lookup_last (pre post : List Sec) (s : Sec) (h : ∀ t ∈ post, t.name ≠ s.name) :
    getSectionByName (pre ++ s :: post) s.name = some s :=
  getSectionByName_last pre post s h

theorem lookup_absent (secs : List Sec) (n : Bytes) (h : ∀ s ∈ secs, s.name ≠ n) : getSectionByName secs n = none :=
  getSectionByName_none secs n h

/-! ### the view of a file is its logical content -/

/-- MAIN THEOREM.  Whatever mix of encodings stores it, a file's view is its content: for every
    keyword the payload bytes, their length and the address; configuration from the header.
    (`hsup`: links are off, or the content names no supplementary file — the link theorems below
    cover the rest.) -/
theorem view_of_content {P : Params} {deflate : Nat → Bytes → Bytes} {f : ElfFile} (hf : FileOk P deflate f)
    (again : Option Loader → Bytes → Bool → Bool → V DwarfInfo) (loader : Option Loader)
    (secs : List Sec) (relocate followLinks : Bool) (content : Content) (m : Val)
    (hm : f.header.getField "e_machine" = .ok m)
    (hh : Holds P deflate f secs relocate content)
    (hlink : linkTarget secs loader followLinks = none)
    (hsup : followLinks = false ∨
      ((∃ DS, P.dwarfStructsFor ⟨f.le, 32, f.cls / 8, 2⟩ = some DS) ∧
        content "debug_sup_sec" = none ∧ content "gnu_debugaltlink_sec" = none)) :
    (getDwarfInfoCore P again loader f secs relocate followLinks).map DwarfInfo.view
      = .ok (.mk f.le (f.cls / 8) (P.machineArchOf m) (contentView P.names content) none) := by
  rw [core_unlinked P again loader f secs relocate followLinks hlink]
  exact ownInfo_holds hf again loader secs relocate followLinks content m hm hh hsup

/-- invariance: two files of the same class, byte order and machine that store the same content
    have the same view, whatever their encodings -/
theorem view_invariant {P : Params} {deflate : Nat → Bytes → Bytes} {f₁ f₂ : ElfFile}
    (hf₁ : FileOk P deflate f₁) (hf₂ : FileOk P deflate f₂)
    (again₁ again₂ : Option Loader → Bytes → Bool → Bool → V DwarfInfo) (loader₁ loader₂ : Option Loader)
    (secs₁ secs₂ : List Sec) (relocate followLinks : Bool) (content : Content) (m : Val)
    (hle : f₁.le = f₂.le) (hcls : f₁.cls = f₂.cls)
    (hm₁ : f₁.header.getField "e_machine" = .ok m) (hm₂ : f₂.header.getField "e_machine" = .ok m)
    (hh₁ : Holds P deflate f₁ secs₁ relocate content) (hh₂ : Holds P deflate f₂ secs₂ relocate content)
    (hl₁ : linkTarget secs₁ loader₁ followLinks = none) (hl₂ : linkTarget secs₂ loader₂ followLinks = none)
    (hsup : followLinks = false ∨
      ((∃ DS, P.dwarfStructsFor ⟨f₁.le, 32, f₁.cls / 8, 2⟩ = some DS) ∧
        content "debug_sup_sec" = none ∧ content "gnu_debugaltlink_sec" = none)) :
    (getDwarfInfoCore P again₁ loader₁ f₁ secs₁ relocate followLinks).map DwarfInfo.view
      = (getDwarfInfoCore P again₂ loader₂ f₂ secs₂ relocate followLinks).map DwarfInfo.view := by
  rw [view_of_content hf₁ again₁ loader₁ secs₁ relocate followLinks content m hm₁ hh₁ hl₁ hsup,
      view_of_content hf₂ again₂ loader₂ secs₂ relocate followLinks content m hm₂ hh₂ hl₂ (by rw [← hle, ← hcls]; exact hsup),
      hle, hcls]

/-- a plainly stored file and one whose sections are (all, or any subset of them) gABI-compressed
    at any levels give the same view -/
theorem view_plain_eq_gabi {P : Params} {deflate : Nat → Bytes → Bytes} {f₁ f₂ : ElfFile}
    (hf₁ : FileOk P deflate f₁) (hf₂ : FileOk P deflate f₂)
    (again₁ again₂ : Option Loader → Bytes → Bool → Bool → V DwarfInfo) (loader₁ loader₂ : Option Loader)
    (secs₁ secs₂ : List Sec) (relocate followLinks : Bool) (content : Content) (m : Val)
    (hle : f₁.le = f₂.le) (hcls : f₁.cls = f₂.cls)
    (hm₁ : f₁.header.getField "e_machine" = .ok m) (hm₂ : f₂.header.getField "e_machine" = .ok m)
    (hplain : HoldsEnc P deflate f₁ secs₁ relocate content Enc.isPlain)
    (hgabi : HoldsEnc P deflate f₂ secs₂ relocate content Enc.isPlainOrGabi)
    (hl₁ : linkTarget secs₁ loader₁ followLinks = none) (hl₂ : linkTarget secs₂ loader₂ followLinks = none)
    (hsup : followLinks = false ∨
      ((∃ DS, P.dwarfStructsFor ⟨f₁.le, 32, f₁.cls / 8, 2⟩ = some DS) ∧
        content "debug_sup_sec" = none ∧ content "gnu_debugaltlink_sec" = none)) :
    (getDwarfInfoCore P again₁ loader₁ f₁ secs₁ relocate followLinks).map DwarfInfo.view
      = (getDwarfInfoCore P again₂ loader₂ f₂ secs₂ relocate followLinks).map DwarfInfo.view :=
  view_invariant hf₁ hf₂ again₁ again₂ loader₁ loader₂ secs₁ secs₂ relocate followLinks content m hle hcls hm₁ hm₂
    hplain.holds hgabi.holds hl₁ hl₂ hsup

/-- a plainly stored file and its legacy `.zdebug` re-encoding (every renamed section framed
    `"ZLIB"` + size + deflate at any level, `.eh_frame` untouched) give the same view -/
theorem view_plain_eq_zdebug {P : Params} {deflate : Nat → Bytes → Bytes} {f₁ f₂ : ElfFile}
    (hf₁ : FileOk P deflate f₁) (hf₂ : FileOk P deflate f₂)
    (again₁ again₂ : Option Loader → Bytes → Bool → Bool → V DwarfInfo) (loader₁ loader₂ : Option Loader)
    (secs₁ secs₂ : List Sec) (relocate followLinks : Bool) (content : Content) (m : Val)
    (hle : f₁.le = f₂.le) (hcls : f₁.cls = f₂.cls)
    (hm₁ : f₁.header.getField "e_machine" = .ok m) (hm₂ : f₂.header.getField "e_machine" = .ok m)
    (hplain : HoldsEnc P deflate f₁ secs₁ relocate content Enc.isPlain)
    (hz : HoldsEnc P deflate f₂ secs₂ relocate content Enc.isPlainOrZdebug)
    (hl₁ : linkTarget secs₁ loader₁ followLinks = none) (hl₂ : linkTarget secs₂ loader₂ followLinks = none)
    (hsup : followLinks = false ∨
      ((∃ DS, P.dwarfStructsFor ⟨f₁.le, 32, f₁.cls / 8, 2⟩ = some DS) ∧
        content "debug_sup_sec" = none ∧ content "gnu_debugaltlink_sec" = none)) :
    (getDwarfInfoCore P again₁ loader₁ f₁ secs₁ relocate followLinks).map DwarfInfo.view
      = (getDwarfInfoCore P again₂ loader₂ f₂ secs₂ relocate followLinks).map DwarfInfo.view :=
  view_invariant hf₁ hf₂ again₁ again₂ loader₁ loader₂ secs₁ secs₂ relocate followLinks content m hle hcls hm₁ hm₂
    hplain.holds hz.holds hl₁ hl₂ hsup

/-- when the reader expects the legacy format it is because the name begins with `.z`; the renamed
    names always do (so `Holds` can be satisfied by a `.zdebug` file) -/
theorem legacy_of_renamed (kn : String × Bytes × Bool) (h : kn.2.2 = true) : legacyOf true kn = true := by
  simp [legacyOf, secNameOf, h, zName_startsWithDotZ]

/-! ### separate debug file behind a checksum-verified link -/

/-- a stripped file (no debug-info section in either naming) with a `.gnu_debuglink` section holding
    the Spec encoding of (file name, crc), opened with a loader that has that file, links on:
    when the CRC-32 of the target equals the recorded one the result is the TARGET's
    `get_dwarf_info` (same loader, links on) — hence the target's view, in whatever encoding it is -/
theorem view_debuglink_ok (P : Params) (again : Option Loader → Bytes → Bool → Bool → V DwarfInfo)
    (ld : Loader) (f : ElfFile) (secs : List Sec) (relocate : Bool) (sec : Sec)
    (off : Nat) (filename ext rest : Bytes) (crc : Nat)
    (hS : f.S.Gnu_debuglink = debuglinkCon f.le)
    (hget : getSectionByName secs nGnuDebuglink = some sec) (hno : hasDwarfInfo secs true = false)
    (hoff : sec.hdr.getNat "sh_offset" = .ok off) (hlt : off < 2 ^ 63)
    (hnul : ∀ b ∈ filename, b ≠ 0) (hcrc : crc < 2 ^ 32)
    (hd : f.data.drop off = encDebuglink f.le filename crc ++ rest)
    (hfile : ld filename = some ext) (hsum : P.X.crc32 ext = crc) :
    getDwarfInfoCore P again (some ld) f secs relocate true = again (some ld) ext relocate true := by
  rw [core_linked P again ld f secs relocate sec filename crc (linkTarget_some secs sec ld hget hno)
        (parse_debuglink P.env f.S f.le hS f.data sec off filename crc rest hoff hlt hnul hcrc hd)]
  simp [hfile, hsum]

/-- the same at the level of whole files: one level of `get_dwarf_info` recursion -/
theorem view_debuglink_ok_file (P : Params) (fuel : Nat) (ld : Loader) (data : Bytes) (f : ElfFile) (secs : List Sec)
    (relocate : Bool) (sec : Sec) (off : Nat) (filename ext rest : Bytes) (crc : Nat)
    (hload : load P data = .ok (f, secs))
    (hS : f.S.Gnu_debuglink = debuglinkCon f.le)
    (hget : getSectionByName secs nGnuDebuglink = some sec) (hno : hasDwarfInfo secs true = false)
    (hoff : sec.hdr.getNat "sh_offset" = .ok off) (hlt : off < 2 ^ 63)
    (hnul : ∀ b ∈ filename, b ≠ 0) (hcrc : crc < 2 ^ 32)
    (hd : f.data.drop off = encDebuglink f.le filename crc ++ rest)
    (hfile : ld filename = some ext) (hsum : P.X.crc32 ext = crc) :
    dwarfView P (fuel + 1) (some ld) data relocate true = dwarfView P fuel (some ld) ext relocate true := by
  simp only [dwarfView, getDwarfInfo, hload, liftR, bind, Except.bind]
  rw [view_debuglink_ok P (getDwarfInfo P fuel) ld f secs relocate sec off filename ext rest crc hS hget hno hoff hlt
        hnul hcrc hd hfile hsum]

/-- a debug link whose checksum does not match its target is rejected (ELFError) -/
theorem debuglink_bad_crc_rejected (P : Params) (again : Option Loader → Bytes → Bool → Bool → V DwarfInfo)
    (ld : Loader) (f : ElfFile) (secs : List Sec) (relocate : Bool) (sec : Sec)
    (off : Nat) (filename ext rest : Bytes) (crc : Nat)
    (hS : f.S.Gnu_debuglink = debuglinkCon f.le)
    (hget : getSectionByName secs nGnuDebuglink = some sec) (hno : hasDwarfInfo secs true = false)
    (hoff : sec.hdr.getNat "sh_offset" = .ok off) (hlt : off < 2 ^ 63)
    (hnul : ∀ b ∈ filename, b ≠ 0) (hcrc : crc < 2 ^ 32)
    (hd : f.data.drop off = encDebuglink f.le filename crc ++ rest)
    (hfile : ld filename = some ext) (hsum : P.X.crc32 ext ≠ crc) :
    getDwarfInfoCore P again (some ld) f secs relocate true = .error (.py .elfError) := by
  rw [core_linked P again ld f secs relocate sec filename crc (linkTarget_some secs sec ld hget hno)
        (parse_debuglink P.env f.S f.le hS f.data sec off filename crc rest hoff hlt hnul hcrc hd)]
  simp [hfile, hsum, fail]

/-- without a loader, with links off, or when the file has debug info of its own, the link is not
    followed: the file's own view -/
theorem debuglink_not_followed (P : Params) (again : Option Loader → Bytes → Bool → Bool → V DwarfInfo)
    (loader : Option Loader) (f : ElfFile) (secs : List Sec) (relocate followLinks : Bool)
    (h : loader = none ∨ hasDwarfInfo secs true = true ∨ followLinks = false) :
    getDwarfInfoCore P again loader f secs relocate followLinks = ownInfo P again loader f secs relocate followLinks :=
  core_unlinked P again loader f secs relocate followLinks
    (linkTarget_none_of secs loader followLinks (Or.inr h))

/-! ### declared size ≠ inflated size is rejected, in both compression formats -/

/-- `Section.data()` on a gABI-compressed section whose header declares a size other than the
    length of the deflated payload: rejected whatever the declared size … -/
theorem bad_size_rejected_gabi {data : Bytes} {sh ty : Val} {off : Nat} {rest : Bytes} {flags addr : Nat}
    {cls : Nat} {le : Bool} {declared align : Nat}
    (X : Ext) (deflate : Nat → Bytes → Bytes) (hz : ZlibOk X deflate) (env : Env) (S : ElfStructs)
    (hS : S.Elf_Chdr = chdrCon cls le) (hcls : cls = 32 ∨ cls = 64) (lvl : Nat) (payload : Bytes)
    (h : Placed data sh ty off (gabiBody cls le declared align (deflate lvl payload)) rest flags addr)
    (hf : flags &&& 0x800 ≠ 0) (hs : declared < 2 ^ cls) (ha : align < 2 ^ cls)
    (henv : env.enumDecode "ENUM_ELFCOMPRESS_TYPE" 1 = some "ELFCOMPRESS_ZLIB")
    (hne : declared ≠ payload.length) :
    ∃ e, sectionData X env S data sh = .error e := by
  obtain ⟨e, he⟩ := gabiStep_bad_any hz lvl payload declared hne
  refine ⟨e, ?_⟩
  simp only [sectionData, sectionInfo_gabi env S hS hcls h hf hs ha henv, liftR, bind, Except.bind,
    sectionData_gabi X S hS hcls h, he]

/-- … and with ELFCompressionError for every declared size a `Py_ssize_t` can hold -/
theorem bad_size_rejected_gabi_class {data : Bytes} {sh ty : Val} {off : Nat} {rest : Bytes} {flags addr : Nat}
    {cls : Nat} {le : Bool} {declared align : Nat}
    (X : Ext) (deflate : Nat → Bytes → Bytes) (hz : ZlibOk X deflate) (env : Env) (S : ElfStructs)
    (hS : S.Elf_Chdr = chdrCon cls le) (hcls : cls = 32 ∨ cls = 64) (lvl : Nat) (payload : Bytes)
    (h : Placed data sh ty off (gabiBody cls le declared align (deflate lvl payload)) rest flags addr)
    (hf : flags &&& 0x800 ≠ 0) (hs : declared < 2 ^ cls) (ha : align < 2 ^ cls)
    (henv : env.enumDecode "ENUM_ELFCOMPRESS_TYPE" 1 = some "ELFCOMPRESS_ZLIB")
    (hne : declared ≠ payload.length) (hb : declared + 1 < 2 ^ 63) :
    sectionData X env S data sh = .error (.py .elfCompressionError) := by
  simp only [sectionData, sectionInfo_gabi env S hS hcls h hf hs ha henv, liftR, bind, Except.bind,
    sectionData_gabi X S hS hcls h, gabiStep_bad hz lvl payload declared hne hb]

/-- `_decompress_dwarf_section` on a legacy section declaring a size other than the length of the
    deflated payload: AssertionError -/
theorem bad_size_rejected_zdebug (X : Ext) (deflate : Nat → Bytes → Bytes) (hz : ZlibOk X deflate)
    (d : Descr) (declared lvl : Nat) (payload : Bytes)
    (hd : d.stream = zdebugBody declared (deflate lvl payload)) (hsz : d.size > 12) (hdecl : declared < 2 ^ 64)
    (hne : declared ≠ payload.length) :
    decompressZdebug X d = .error (.py .assertion) := by
  rw [decompressZdebug_framed X d declared (deflate lvl payload) hd hsz hdecl, zdebugStep_bad hz lvl payload declared hne]
  rfl

/-- a section that is rejected makes `get_dwarf_info` fail: no view is produced from a file one of
    whose looked-up sections fails to read -/
theorem rejected_section_rejects_file (P : Params) (again : Option Loader → Bytes → Bool → Bool → V DwarfInfo)
    (loader : Option Loader) (f : ElfFile) (secs : List Sec) (relocate followLinks : Bool)
    (kn : String × Bytes × Bool) (hk : kn ∈ P.names)
    (hlink : linkTarget secs loader followLinks = none)
    (hbad : ∃ e, readOne P f secs relocate (hasSection secs nZdebugInfo) kn = .error e) :
    ∃ e, getDwarfInfoCore P again loader f secs relocate followLinks = .error e := by
  obtain ⟨e, he⟩ := readAll_error P f secs relocate _ P.names kn hk hbad
  exact ⟨e, by rw [core_unlinked P again loader f secs relocate followLinks hlink]; simp [ownInfo, he, bind, Except.bind]⟩

/-! ### supplementary file behind `.gnu_debugaltlink` / `.debug_sup` -/

/-- `.gnu_debugaltlink` holding the Spec encoding of (path, build id): the path is the link -/
theorem altlink_path (env : Env) (DS : DwarfStructs) (hDS : DS.Dwarf_debugaltlink = altlinkCon)
    (ds : List (String × Option Descr)) (d : Descr) (path buildId junk : Bytes)
    (h1 : descrOf ds "debug_sup_sec" = none) (h2 : descrOf ds "gnu_debugaltlink_sec" = some d)
    (hd : d.stream = encAltlink path buildId ++ junk) (hnul : ∀ b ∈ path, b ≠ 0) (hid : buildId.length = 20) :
    parseDebugSupInfo env DS ds = .ok (some path) :=
  parseDebugSupInfo_altlink env DS hDS ds d path buildId junk h1 h2 hd hnul hid

/-- `.debug_sup` (DWARF 5) with `is_supplementary = 0`: the path is the link -/
theorem debugsup_path (env : Env) (DS : DwarfStructs) (le : Bool) (hDS : DS.Dwarf_debugsup = debugsupCon le)
    (ds : List (String × Option Descr)) (d : Descr) (version : Nat) (path checksum junk : Bytes)
    (h1 : descrOf ds "debug_sup_sec" = some d)
    (hd : d.stream = encDebugSup le version 0 path checksum ++ junk) (hnul : ∀ b ∈ path, b ≠ 0) :
    parseDebugSupInfo env DS ds = .ok (some path) :=
  parseDebugSupInfo_debugsup env DS le hDS ds d version path checksum junk h1 hd hnul

/-- with a loader that has the named file, `supplementary_dwarfinfo` is that file's own
    `get_dwarf_info` (opened without a loader) — hence, by `view_of_content`, its content in
    whatever encoding it is stored -/
theorem sup_followed (P : Params) (again : Option Loader → Bytes → Bool → Bool → V DwarfInfo)
    (ld : Loader) (f : ElfFile) (ds : List (String × Option Descr)) (DS : DwarfStructs) (path supData : Bytes)
    (hDS : P.dwarfStructsFor ⟨f.le, 32, f.cls / 8, 2⟩ = some DS)
    (hp : parseDebugSupInfo P.env DS ds = .ok (some path)) (hl : ld path = some supData) :
    supplementary P again (some ld) f ds = (again none supData true true).map some :=
  supplementary_followed P again ld f ds DS path supData hDS hp hl

/-- without a stream loader no supplementary file is attached -/
theorem sup_without_loader (P : Params) (again : Option Loader → Bytes → Bool → Bool → V DwarfInfo)
    (f : ElfFile) (ds : List (String × Option Descr)) (DS : DwarfStructs) (path : Option Bytes)
    (hDS : P.dwarfStructsFor ⟨f.le, 32, f.cls / 8, 2⟩ = some DS)
    (hp : parseDebugSupInfo P.env DS ds = .ok path) :
    supplementary P again none f ds = .ok none :=
  supplementary_no_loader P again f ds DS path hDS hp

/-! ### the Spec bundles satisfy the structural hypotheses -/

theorem spec_structs_ok (c : ElfCfg) :
    (Spec.elfStructs c).Elf_Chdr = chdrCon c.cls c.le ∧ (Spec.elfStructs c).Gnu_debuglink = debuglinkCon c.le :=
  ⟨spec_chdr c, spec_debuglink c⟩

theorem spec_dwarf_structs_ok (c : DwarfCfg) :
    (Spec.dwarfStructs c).Dwarf_debugaltlink = altlinkCon ∧ (Spec.dwarfStructs c).Dwarf_debugsup = debugsupCon c.le :=
  ⟨spec_altlink c, spec_debugsup c⟩

/-! ### non-vacuity -/

/-- a zlib satisfying the assumption exists (the "stored" coder), so no theorem above is vacuous in `ZlibOk` -/
example : ZlibOk ⟨fun d k => some (if k = 0 then d else d.take k), fun _ => 0⟩ (fun _ x => x) :=
  ⟨fun _ _ _ => rfl⟩

/-- a concrete header placing a 3-byte body at offset 4 -/
example : Placed [9, 9, 9, 9, 1, 2, 3, 7]
    (.record [("sh_type", .str "SHT_PROGBITS"), ("sh_flags", .int 0), ("sh_addr", .int 0), ("sh_offset", .int 4),
              ("sh_size", .int 3)])
    (.str "SHT_PROGBITS") 4 [1, 2, 3] [7] 0 0 := by
  constructor <;> first | rfl | decide

/-- `Stores` is satisfiable in each encoding (with the "stored" coder as `deflate`): a 3-byte payload
    at offset 4, plainly; framed as a legacy section; behind a 32-bit little-endian `Elf32_Chdr` -/
example : Stores (fun _ x => x) [9, 9, 9, 9, 1, 2, 3, 7] 32 true
    ("Section", nDebugInfo, .record [("sh_type", .str "SHT_PROGBITS"), ("sh_flags", .int 0), ("sh_addr", .int 0),
      ("sh_offset", .int 4), ("sh_size", .int 3)]) .plain [1, 2, 3] 0 4 :=
  ⟨.str "SHT_PROGBITS", [7], 0, by constructor <;> first | rfl | decide, by simp [Enc.ok]⟩

example : Stores (fun _ x => x) ([9, 9, 9, 9] ++ zdebugBody 3 [1, 2, 3]) 32 true
    ("Section", nZdebugInfo, .record [("sh_type", .str "SHT_PROGBITS"), ("sh_flags", .int 0), ("sh_addr", .int 0),
      ("sh_offset", .int 4), ("sh_size", .int 15)]) (.zdebug 6) [1, 2, 3] 0 4 :=
  ⟨.str "SHT_PROGBITS", [], 0, by constructor <;> first | rfl | decide, by simp [Enc.ok]⟩

example : Stores (fun _ x => x) ([9, 9, 9, 9] ++ gabiBody 32 true 3 1 [1, 2, 3] ++ [5]) 32 true
    ("Section", nDebugInfo, .record [("sh_type", .str "SHT_PROGBITS"), ("sh_flags", .int 0x800), ("sh_addr", .int 0),
      ("sh_offset", .int 4), ("sh_size", .int 15)]) (.gabi 6 1) [1, 2, 3] 0 4 :=
  ⟨.str "SHT_PROGBITS", [5], 0x800, by constructor <;> first | rfl | decide, by simp [Enc.ok]⟩

example : encDebuglink true [0x61, 0x62] 0x01020304 = [0x61, 0x62, 0, 0, 4, 3, 2, 1] := by decide
example : zdebugBody 3 [0xAA] = [0x5a, 0x4c, 0x49, 0x42, 0, 0, 0, 0, 0, 0, 0, 3, 0xAA] := by decide
example : gabiBody 32 true 3 1 [0xAA] = [1, 0, 0, 0, 3, 0, 0, 0, 1, 0, 0, 0, 0xAA] := by decide
example : (Enc.zdebug 6).legacy = legacyOf true ("debug_info_sec", nDebugInfo, true) := by decide

end PyElf.Props.C11
