/-
  C03 — symbol tables enumerate exactly; name and hash lookups are complete and sound.

  Property theorems only.  Layers:
    * hash functions: the regenerated (T3) `elf_hash` / `gnu_hash` are the standard's 32-bit functions;
    * lookups over a parsed table: `params` is the Container the `Elf_Hash` / `Gnu_Hash` parse yields for
      a table `t` (`sysvParams t` / `gnuParams t`), the symbol table is anything offering `get_symbol`
      that returns symbol `j` for `j < n` (exactly how the Python classes are parameterised);
    * the table predicates `WFSysV` / `WFGnu` are decidable and evaluated by the driver on every
      generated table (`wf`); that they hold of the BUILDERS' output (`buildSysV`, `buildGnu` ∘ `gnuOrder`)
      is proved for every symbol list (`buildSysV_wf`, `buildGnu_wf`, `buildGnu_perturbed_wf`), so the
      lookup theorems are closed end to end over built tables (`sysv_lookup_built`, `gnu_lookup_built`,
      their `_file` and `_generated` forms);
    * whole-table forms: syminfo iteration (`syminfo_iter_exact`), the SHNDX companion table
      (`shndx_table_exact`), and every table theorem over the regenerated bundles (`…_generated`).
    * FIFTH WAVE — whole files, composed with C01 (`Spec.ElfDesc`, `Layout`, `wfZ`): every table theorem through
      `ELFFile(BytesIO(bytes)).get_section(i)` and `get_section_by_name(name)` for ANY byte string carrying a
      well-formed description one of whose sections is the table (`symtab_file_exact`, `sysv_file_exact`,
      `sysv_file_built_exact`, `gnu_file_exact`, `syminfo_file_exact`, `shndx_file_exact`, `by_name_section_exact`,
      `symtab_file_by_name_exact`, `shndx_companion_exact`/`_reads`, their `_generated` forms, `built_symtab_at`):
      tables and the tables they link to anywhere in the file, in any order.
    * FIFTH WAVE — the link guards of the constructors (`_get_linked_strtab_section`,
      `_get_linked_symtab_section`): which error `get_section` raises for a link of the wrong type / out of range
      / nested, in the relaxed domain `wfZCore` (`link_wrong_type_error`, `link_beyond_file_error`,
      `link_truncated_header_error`, `link_stray_header_wrong_type_error`, `link_nested_wrong_type_error`,
      `link_nested_beyond_file_error`, `wfZ_link_verdict`); index tables accept any link (`shndx_file_exact`).
    * FIFTH WAVE — names that are not valid UTF-8: the decoding model (`getSymbolD` …) reports
      `utf8Replace` of the name bytes (`get_symbol_decoded_exact`, `iter_symbols_decoded_exact`,
      `by_name_decoded_exact`, `sysv_lookup_decoded`, `symtab_file_decoded_exact_generated`); it is the raw model
      on valid UTF-8 (`utf8_valid_unchanged`, `get_symbol_decoded_valid`).

  Correspondence-only (no theorem; the model is compared with the library on every run):
    * malformed contents (stream `raw`): truncated tables, `sh_entsize` 0 / not dividing `sh_size`, flipped bytes in
      hash tables (cyclic chains, out-of-range buckets), unterminated names; `get_symbol(n)` beyond the table;
    * GNU hash lookups when name bytes are NOT valid UTF-8 (soundness with respect to the reported name holds by
      construction of the loop, but is not stated; the exact theorems `gnu_lookup_exact` … are over names that are
      strings); a stray in-file header reached through an out-of-range link that happens to have an accepted type;
      a nested link that straddles the end of the file;
    * offsets ≥ 2^63 (`Model/Symbols.lean` does not model the seek overflow; no byte string Python can hold reaches it).
-/
import PyElf.Spec.Symbols
import PyElf.Model.Symbols
import PyElf.Model.Env
import PyElf.Proofs.HashFns
import PyElf.Proofs.SysVLookup
import PyElf.Proofs.GnuLookup
import PyElf.Proofs.SymTable
import PyElf.Proofs.HashParse
import PyElf.Proofs.SymBuilt
import PyElf.Proofs.SymImage
import PyElf.Proofs.SymFile
import PyElf.Proofs.SymLink
import PyElf.Proofs.SymDecoded
import PyElf.Proofs.GnuExamples
import PyElf.Props.C01
import PyElf.Props.TieC14File
import PyElf.Props.TieC03
import PyElf.Model.SymCache
import PyElf.Proofs.SigCache
namespace PyElf.Props.C03
open PyElf PyElf.Spec PyElf.Model PyElf.Proofs

/-! ### the hash functions -/

/-- `GNUHashTable.gnu_hash`: unbounded `h*33+c` and one final mask ≡ `uint32_t` wrap at every step -/
theorem gnu_hash_eq (bs : Bytes) : Gen.Pure.gnu_hash bs = ((gnuHash32 bs).toNat : Int) :=
  Proofs.gnu_hash_eq bs

/-- `ELFHashTable.elf_hash` (after `fix: elf_hash must stay within 32 bits`) is the gABI function.
    Before the fix the statement was false: see `elf_hash_old_counterexample`. -/
theorem elf_hash_eq (bs : Bytes) : Gen.Pure.elf_hash bs = ((elfHash32 bs).toNat : Int) :=
  Proofs.elf_hash_eq bs

/-- the loop body of `elf_hash` as it was before the fix (no 32-bit truncation of `(h << 4) + c`) -/
def elfHashOld (name : Bytes) : Int :=
  (name.foldl (fun (st : Int × Int) (b8 : UInt8) =>
    let h : Int := PyInt.shl st.1 4 + (b8.toNat : Int)
    let x : Int := PyInt.land h 4026531840
    let h : Int := if x != 0 then PyInt.xor h (PyInt.shr x 24) else h
    (PyInt.land h (PyInt.inv x), x)) (0, 0)).1

/-- the defect: on `0x0f`×7 ++ "A" the old code returned a 33-bit value, the standard hash is 0x31 -/
theorem elf_hash_old_counterexample :
    elfHashOld [0x0f, 0x0f, 0x0f, 0x0f, 0x0f, 0x0f, 0x0f, 0x41] = 0x100000031
      ∧ (elfHash32 [0x0f, 0x0f, 0x0f, 0x0f, 0x0f, 0x0f, 0x0f, 0x41]).toNat = 0x31 := by
  constructor <;> decide

/-! ### symbol table entries, enumeration, lookup by name -/

/-- Elf32_Sym: every field of every entry is read back (name index, value, size, binding and type from
    `st_info`, the `st_other` bit fields, section index), at any position, whatever follows -/
theorem sym_roundtrip32 (env : Env) (le : Bool) (m : String) (sol core : Bool) (e : SymE) (hwf : e.WF 32 = true)
    (pre rest : Bytes) :
    structParse env (Spec.elfStructs ⟨le, 32, m, sol, core⟩).Elf_Sym (pre ++ encSym le 32 e ++ rest) pre.length
      = .ok (obsEntry env.enumDecode 32 e, pre.length + 16) :=
  Proofs.sym_roundtrip32 env le m sol core e hwf _ _ rest (drop_pre pre _ rest)

/-- Elf64_Sym (different field order and widths) -/
theorem sym_roundtrip64 (env : Env) (le : Bool) (m : String) (sol core : Bool) (e : SymE) (hwf : e.WF 64 = true)
    (pre rest : Bytes) :
    structParse env (Spec.elfStructs ⟨le, 64, m, sol, core⟩).Elf_Sym (pre ++ encSym le 64 e ++ rest) pre.length
      = .ok (obsEntry env.enumDecode 64 e, pre.length + 24) :=
  Proofs.sym_roundtrip64 env le m sol core e hwf _ _ rest (drop_pre pre _ rest)

section table
variable {le : Bool} {cls : Nat} {data : Bytes} {h : SecHdr} {strOff : Nat} {es : List SymE} {names : List Bytes}
variable (env : Env) (m : String) (sol core : Bool)

/-- the constructor's guards pass and `num_symbols` is the number of entries -/
theorem num_symbols_exact (L : SymtabLayout le cls data h strOff es names) :
    symtabInit h = .ok () ∧ numSymbols h = .ok es.length :=
  ⟨layout_init L, layout_numSymbols L⟩

/-- `get_symbol(i)`: entry addressed by `sh_entsize`, name from the linked string table -/
theorem get_symbol_exact (L : SymtabLayout le cls data h strOff es names) (i : Nat) (hi : i < es.length) :
    getSymbol (Spec.elfStructs ⟨le, cls, m, sol, core⟩) env data h strOff i
      = .ok (symObs env.enumDecode cls es names i) :=
  layout_getSymbol env m sol core L i hi

/-- `iter_symbols` yields exactly the encoded entries, in index order -/
theorem iter_symbols_exact (L : SymtabLayout le cls data h strOff es names) :
    iterSymbols (Spec.elfStructs ⟨le, cls, m, sol, core⟩) env data h strOff
      = .ok ((List.range es.length).map (symObs env.enumDecode cls es names)) :=
  layout_iterSymbols env m sol core L

/-- `get_symbol_by_name(n)` is `None` iff no symbol bears the name, else exactly the symbols bearing it,
    in index order (duplicates, empty names included) -/
theorem by_name_exact (L : SymtabLayout le cls data h strOff es names) (name : Bytes) :
    getSymbolByName (Spec.elfStructs ⟨le, cls, m, sol, core⟩) env data h strOff name
      = .ok (if byName names name = [] then none
             else some ((byName names name).map (symObs env.enumDecode cls es names))) :=
  layout_byName env m sol core L name

end table

/-- SHT_SYMTAB_SHNDX: the extended section index of symbol `n` is the `n`-th word of the companion table -/
theorem shndx_exact (env : Env) (c : ElfCfg) (data : Bytes) (h : SecHdr) (n w : Nat) (rest : Bytes)
    (hw : w < 2 ^ 32) (hd : data.drop (h.off + n * h.entsize) = encNat c.le 4 w ++ rest) :
    getSectionIndex (Spec.elfStructs c) env data h n = .ok (.int w) :=
  getSectionIndex_ok env c data h n w rest hw hd

/-- one SUNW syminfo entry -/
theorem syminfo_entry_exact (env : Env) (c : ElfCfg) (b fl : Nat) (hb : b < 65536) (hf : fl < 65536) (pre rest : Bytes) :
    structParse env (Spec.elfStructs c).Elf_Sunw_Syminfo (pre ++ encSyminfo c.le [(b, fl)] ++ rest) pre.length
      = .ok (obsSyminfo env.enumDecode (b, fl), pre.length + 4) :=
  syminfo_entry_ok env c _ _ b fl rest hb hf (drop_pre pre _ rest)

def exE0 : SymE := ⟨0, 0, 0, 0, 0, 0⟩
def exE1 : SymE := ⟨1, 0x1000, 4, 0x12, 3, 0xfff1⟩
def exData : Bytes := encSymtab true 32 0 [exE0, exE1] ++ [0, 0x61, 0]

/-- non-vacuity: a two-entry ELF32 table followed by its string table satisfies `SymtabLayout` -/
example : SymtabLayout true 32 exData ⟨0, 32, 16⟩ 32 [exE0, exE1] [[], [0x61]] where
  hcls := Or.inl rfl
  entpos := by decide
  size := by decide
  nlen := rfl
  wf := by
    intro i hi
    match i, hi with
    | 0, _ => show exE0.WF 32 = true; decide
    | 1, _ => show exE1.WF 32 = true; decide
  entry := by
    intro i hi
    match i, hi with
    | 0, _ => exact ⟨encSym true 32 exE1 ++ [0, 0x61, 0], by show List.drop 0 exData = encSym true 32 exE0 ++ _; decide⟩
    | 1, _ => exact ⟨[0, 0x61, 0], by show List.drop 16 exData = encSym true 32 exE1 ++ _; decide⟩
  name := by
    intro i hi
    match i, hi with
    | 0, _ => show strAt (List.drop 32 exData) 0 = some []; decide
    | 1, _ => show strAt (List.drop 32 exData) 1 = some [0x61]; decide

/-! ### System V hash table lookups -/

section sysv
variable (names : List Bytes) (t : SysVTable) (getSym : Nat → R Symbol) (sym : Nat → Symbol) (name : Bytes)

/-- exact result: the first symbol bearing the name on the chain of the name's bucket; the walk
    terminates (no `outOfFuel`) and raises nothing -/
theorem sysv_lookup_exact (hwf : WFSysV names t = true)
    (hget : ∀ j, j < names.length → getSym j = .ok (sym j)) :
    ∃ l, sysvBucketChain t name = some l ∧
      elfHashGetSymbol (sysvParams t) getSym name = .ok ((l.find? fun j => decide ((sym j).2 = name)).map sym) :=
  elfHashGetSymbol_eq names t getSym sym name hwf hget

theorem sysv_lookup_sound (hwf : WFSysV names t = true)
    (hget : ∀ j, j < names.length → getSym j = .ok (sym j))
    (hname : ∀ j, j < names.length → (sym j).2 = names.getD j []) :
    ∃ r, elfHashGetSymbol (sysvParams t) getSym name = .ok r ∧
      ∀ s, r = some s → ∃ j, 1 ≤ j ∧ j < names.length ∧ names.getD j [] = name ∧ s = sym j :=
  sysv_sound names t getSym sym name hwf hget hname

theorem sysv_lookup_complete (hwf : WFSysV names t = true)
    (hget : ∀ j, j < names.length → getSym j = .ok (sym j))
    (hname : ∀ j, j < names.length → (sym j).2 = names.getD j [])
    (i : Nat) (hi1 : 1 ≤ i) (hin : i < names.length) (hnm : names.getD i [] = name) :
    ∃ j, 1 ≤ j ∧ j < names.length ∧ names.getD j [] = name ∧
      elfHashGetSymbol (sysvParams t) getSym name = .ok (some (sym j)) :=
  sysv_complete names t getSym sym name hwf hget hname i hi1 hin hnm

theorem sysv_lookup_absent (hwf : WFSysV names t = true)
    (hget : ∀ j, j < names.length → getSym j = .ok (sym j))
    (hname : ∀ j, j < names.length → (sym j).2 = names.getD j [])
    (habs : ∀ i, 1 ≤ i → i < names.length → names.getD i [] ≠ name) :
    elfHashGetSymbol (sysvParams t) getSym name = .ok none :=
  sysv_absent_none names t getSym sym name hwf hget hname habs

/-- the count recovered from the table is the symbol table's length -/
theorem sysv_count (hwf : WFSysV names t = true) : elfHashCount (sysvParams t) = .ok (.int names.length) :=
  sysv_count_eq names t hwf

/-- an empty table (`nbucket = 0`) finds nothing and does not divide by zero -/
theorem sysv_empty_none (hnb : t.nbucket = 0) : elfHashGetSymbol (sysvParams t) getSym name = .ok none :=
  sysv_empty t getSym name hnb

end sysv

/-! ### GNU hash table lookups -/

section gnu
variable (cls : Nat) (names : List Bytes) (t : GnuTable) (le : Bool) (data : Bytes) (g : GnuHash)
variable (getSym : Nat → R Symbol) (sym : Nat → Symbol) (name : Bytes)

/-- exact result: the first hashed symbol (`symoffset ≤ i < n`) bearing the name, or `None`.
    `hread` says the chain words of `t` lie at `_chain_pos` in the file. Covers Bloom-filter
    false positives, bucket collisions and `hash|1` collisions (the name compare decides). -/
theorem gnu_lookup_exact (hwf : WFGnu cls names t = true) (hg : g.params = gnuParams t) (hws : g.wordsize = 4)
    (hread : ∀ k (hk : k < t.chain.length), readHashWord le data (g.chainPos + k * 4) = .ok t.chain[k])
    (hget : ∀ j, j < names.length → getSym j = .ok (sym j))
    (hname : ∀ j, j < names.length → (sym j).2 = names.getD j []) :
    gnuHashGetSymbol le cls data g getSym name = .ok ((gnuFirstNamed names t.symoffset name).map sym) :=
  gnuHashGetSymbol_eq cls names t le data g getSym sym name hwf hg hws hread hget hname

theorem gnu_lookup_sound (hwf : WFGnu cls names t = true) (hg : g.params = gnuParams t) (hws : g.wordsize = 4)
    (hread : ∀ k (hk : k < t.chain.length), readHashWord le data (g.chainPos + k * 4) = .ok t.chain[k])
    (hget : ∀ j, j < names.length → getSym j = .ok (sym j))
    (hname : ∀ j, j < names.length → (sym j).2 = names.getD j []) :
    ∃ r, gnuHashGetSymbol le cls data g getSym name = .ok r ∧
      ∀ s, r = some s → ∃ j, t.symoffset ≤ j ∧ j < names.length ∧ names.getD j [] = name ∧ s = sym j := by
  refine ⟨_, gnu_lookup_exact cls names t le data g getSym sym name hwf hg hws hread hget hname, ?_⟩
  intro s hs
  obtain ⟨j, hj, rfl⟩ := Option.map_eq_some_iff.mp hs
  obtain ⟨h1, h2, h3, _⟩ := firstFrom_spec _ _ _ _ hj
  have F : GnuFacts cls names.length (gnuHashes names t.symoffset) t := WFGnuH_facts hwf
  exact ⟨j, h1, by have := F.son; omega, by simpa using h3, rfl⟩

/-- completeness: the Bloom filter never rejects a present name, and hash collisions fall through -/
theorem gnu_lookup_complete (hwf : WFGnu cls names t = true) (hg : g.params = gnuParams t) (hws : g.wordsize = 4)
    (hread : ∀ k (hk : k < t.chain.length), readHashWord le data (g.chainPos + k * 4) = .ok t.chain[k])
    (hget : ∀ j, j < names.length → getSym j = .ok (sym j))
    (hname : ∀ j, j < names.length → (sym j).2 = names.getD j [])
    (i : Nat) (hi1 : t.symoffset ≤ i) (hin : i < names.length) (hnm : names.getD i [] = name) :
    ∃ j, t.symoffset ≤ j ∧ j < names.length ∧ names.getD j [] = name ∧
      gnuHashGetSymbol le cls data g getSym name = .ok (some (sym j)) := by
  have hex := gnu_lookup_exact cls names t le data g getSym sym name hwf hg hws hread hget hname
  cases hf : gnuFirstNamed names t.symoffset name with
  | none =>
    -- impossible: `i` is a hashed symbol bearing the name
    exfalso
    refine firstFrom_ne_none (fun i => names.getD i [] == name) (names.length - t.symoffset) t.symoffset
      (i - t.symoffset) (by omega) ?_ hf
    rw [show t.symoffset + (i - t.symoffset) = i by omega]; simpa using hnm
  | some j =>
    obtain ⟨h1, h2, h3, _⟩ := firstFrom_spec _ _ _ _ hf
    have F : GnuFacts cls names.length (gnuHashes names t.symoffset) t := WFGnuH_facts hwf
    exact ⟨j, h1, by have := F.son; omega, by simpa using h3, by rw [hex, hf]; rfl⟩

theorem gnu_lookup_absent (hwf : WFGnu cls names t = true) (hg : g.params = gnuParams t) (hws : g.wordsize = 4)
    (hread : ∀ k (hk : k < t.chain.length), readHashWord le data (g.chainPos + k * 4) = .ok t.chain[k])
    (hget : ∀ j, j < names.length → getSym j = .ok (sym j))
    (hname : ∀ j, j < names.length → (sym j).2 = names.getD j [])
    (habs : ∀ i, t.symoffset ≤ i → i < names.length → names.getD i [] ≠ name) :
    gnuHashGetSymbol le cls data g getSym name = .ok none := by
  obtain ⟨r, hr, hsound⟩ := gnu_lookup_sound cls names t le data g getSym sym name hwf hg hws hread hget hname
  cases r with
  | none => exact hr
  | some s =>
    obtain ⟨j, h1, h2, h3, _⟩ := hsound s rfl
    exact absurd h3 (habs j h1 h2)

/-- the count recovered from the buckets and the last chain is the symbol table's true length -/
theorem gnu_count_exact (hwf : WFGnu cls names t = true) (hg : g.params = gnuParams t) (hws : g.wordsize = 4)
    (hread : ∀ k (hk : k < t.chain.length), readHashWord le data (g.chainPos + k * 4) = .ok t.chain[k]) :
    gnuHashCount le data g = .ok names.length :=
  gnuHashCount_eq cls names t le data g hwf hg hws hread

end gnu

/-! ### from bytes: the encoded tables parse to the params the lookup theorems speak about -/

/-- `ELFHashTable.__init__` on an encoded well-formed SysV table yields exactly `sysvParams t` -/
theorem sysv_init_exact (env : Env) (c : ElfCfg) (names : List Bytes) (t : SysVTable)
    (pre rest : Bytes) (hwf : WFSysV names t = true) :
    elfHashInit (Spec.elfStructs c) env (pre ++ encSysV c.le t ++ rest) pre.length = .ok (sysvParams t) :=
  sysv_init_of_wf env c names t _ _ rest hwf (drop_pre pre _ rest)

/-- `GNUHashTable.__init__` on an encoded well-formed GNU table: the params, the word size and the
    chain words at `_chain_pos` — the hypotheses `hg`, `hws`, `hread` of the GNU theorems above -/
theorem gnu_init_exact (env : Env) (c : ElfCfg) (hcls : c.cls = 32 ∨ c.cls = 64) (names : List Bytes) (t : GnuTable)
    (pre rest : Bytes) (hwf : WFGnu c.cls names t = true) :
    ∃ g, gnuHashInit (Spec.elfStructs c) env c.cls (pre ++ encGnu c.le c.cls t ++ rest) pre.length = .ok g
      ∧ g.params = gnuParams t ∧ g.wordsize = 4
      ∧ ∀ k (hk : k < t.chain.length),
          readHashWord c.le (pre ++ encGnu c.le c.cls t ++ rest) (g.chainPos + k * 4) = .ok t.chain[k] :=
  gnu_init_of_wf env c hcls names t _ _ rest hwf (drop_pre pre _ rest)

/-- end to end for the GNU table: from the encoded bytes to the lookup result and the count -/
theorem gnu_bytes_exact (env : Env) (c : ElfCfg) (hcls : c.cls = 32 ∨ c.cls = 64) (names : List Bytes) (t : GnuTable)
    (pre rest : Bytes) (hwf : WFGnu c.cls names t = true)
    (getSym : Nat → R Symbol) (sym : Nat → Symbol)
    (hget : ∀ j, j < names.length → getSym j = .ok (sym j))
    (hname : ∀ j, j < names.length → (sym j).2 = names.getD j []) :
    ∃ g, gnuHashInit (Spec.elfStructs c) env c.cls (pre ++ encGnu c.le c.cls t ++ rest) pre.length = .ok g
      ∧ gnuHashCount c.le (pre ++ encGnu c.le c.cls t ++ rest) g = .ok names.length
      ∧ ∀ name, gnuHashGetSymbol c.le c.cls (pre ++ encGnu c.le c.cls t ++ rest) g getSym name
          = .ok ((gnuFirstNamed names t.symoffset name).map sym) := by
  obtain ⟨g, h1, h2, h3, h4⟩ := gnu_init_exact env c hcls names t pre rest hwf
  exact ⟨g, h1, gnu_count_exact c.cls names t c.le _ g hwf h2 h3 h4,
    fun name => gnu_lookup_exact c.cls names t c.le _ g getSym sym name hwf h2 h3 h4 hget hname⟩

/-! ### non-vacuity: concrete tables satisfy the hypotheses (with hash and bucket collisions) -/

/-- "bB" and "c!" have the same GNU hash (33·a + b) -/
example : gnuHash32 [0x62, 0x42] = gnuHash32 [0x63, 0x21] := by decide

def exNames : List Bytes := [[], [0x62, 0x42], [0x63, 0x21], [0x70], [0x70], [0xc3, 0xa9]]

example : WFSysV exNames (buildSysV exNames 2) = true := by decide
example : WFSysV exNames (buildSysV exNames 1) = true := by decide
example : WFGnu 64 exNames (buildGnu 64 exNames 1 1 1 6) = true := by decide
example : WFGnu 32 exNames (buildGnu 32 exNames 1 3 2 5) = true := by decide

/-! ## the table BUILDERS: every symbol list yields a well-formed table

  `buildSysV` / `buildGnu` (with `gnuOrder`) are the constructions the run's inputs come from.  The
  theorems below discharge the hypothesis `WFSysV … = true` / `WFGnu … = true` of the lookup theorems
  for EVERY list of names (any size, duplicate and empty names, any number of buckets ≥ 1, any
  `symoffset` with `1 ≤ symoffset ≤ n`, any Bloom size ≥ 1 and shift): the lookup theorems are not
  vacuous on any input the builders accept, and the driver's run-time evaluation of the predicates on
  built tables can only answer `true`.  Preconditions (all decidable, all necessary for the
  predicates): entry 0 exists (`1 ≤ n`; it is the null symbol and is never hashed), every count fits
  the 32-bit header words, and for GNU `1 ≤ symoffset` (index 0 means "empty bucket"). -/

open PyElf.Proofs.C03 (sysvLastNamed SyminfoLayout syminfoObs GnuSorted builtEntries)

/-- `buildSysV` (push-front, in index order) satisfies the gABI conditions, for every list of names -/
theorem buildSysV_wf (names : List Bytes) (nb : Nat) (hn : 1 ≤ names.length) (hn32 : names.length < 2 ^ 32)
    (hnb : 1 ≤ nb) (hnb32 : nb < 2 ^ 32) : WFSysV names (buildSysV names nb) = true :=
  Proofs.C03.buildSysV_wf names nb hn hn32 hnb hnb32

/-- `gnuOrder` permutes the symbols, -/
theorem gnuOrder_perm {β : Type} (nb so : Nat) (syms : List (Bytes × β)) : (gnuOrder nb so syms).Perm syms :=
  Proofs.C03.gnuOrder_perm nb so syms

/-- leaves the unhashed symbols `i < symoffset` in place, -/
theorem gnuOrder_take {β : Type} (nb so : Nat) (syms : List (Bytes × β)) :
    (gnuOrder nb so syms).take so = syms.take so :=
  Proofs.C03.gnuOrder_take nb so syms

/-- permutes the hashed part within itself, -/
theorem gnuOrder_hashed_perm {β : Type} (nb so : Nat) (syms : List (Bytes × β)) :
    ((gnuOrder nb so syms).drop so).Perm (syms.drop so) :=
  Proofs.C03.gnuOrder_drop_perm nb so syms

/-- and sorts the hashed part by bucket -/
theorem gnuOrder_sorted {β : Type} (nb so : Nat) (syms : List (Bytes × β)) :
    GnuSorted nb (gnuHashes ((gnuOrder nb so syms).map (·.1)) so) :=
  Proofs.C03.gnuOrder_sorted nb so syms

/-- `buildGnu` over names whose hashed part is sorted by bucket satisfies the GNU-hash conditions
    (Bloom bits of every hashed symbol set, words within the class, buckets = first symbol of each
    bucket, chain words = hash with the end-of-bucket bit) -/
theorem buildGnu_wf_sorted (cls : Nat) (names : List Bytes) (nb so bs sh : Nat) (hcls : 0 < cls)
    (hnb : 1 ≤ nb) (hnb32 : nb < 2 ^ 32) (hbs : 1 ≤ bs) (hbs32 : bs < 2 ^ 32) (hsh32 : sh < 2 ^ 32)
    (hso1 : 1 ≤ so) (hson : so ≤ names.length) (hn32 : names.length < 2 ^ 32)
    (hsorted : GnuSorted nb (gnuHashes names so)) :
    WFGnu cls names (buildGnu cls names nb so bs sh) = true :=
  Proofs.C03.buildGnu_wf_sorted cls names nb so bs sh hcls hnb hnb32 hbs hbs32 hsh32 hso1 hson hn32 hsorted

/-- for EVERY symbol list, ordered as the linker orders it -/
theorem buildGnu_wf {β : Type} (cls : Nat) (syms : List (Bytes × β)) (nb so bs sh : Nat) (hcls : 0 < cls)
    (hnb : 1 ≤ nb) (hnb32 : nb < 2 ^ 32) (hbs : 1 ≤ bs) (hbs32 : bs < 2 ^ 32) (hsh32 : sh < 2 ^ 32)
    (hso1 : 1 ≤ so) (hson : so ≤ syms.length) (hn32 : syms.length < 2 ^ 32) :
    WFGnu cls ((gnuOrder nb so syms).map (·.1)) (buildGnu cls ((gnuOrder nb so syms).map (·.1)) nb so bs sh) = true :=
  Proofs.C03.buildGnu_wf cls syms nb so bs sh hcls hnb hnb32 hbs hbs32 hsh32 hso1 hson hn32

/-- with extra Bloom bits (false positives; what the run's `bloom_or` perturbation produces) the table
    stays well-formed -/
theorem WFGnu_bloom_super (cls : Nat) (names : List Bytes) (t : GnuTable) (bloom' : List Nat)
    (hwf : WFGnu cls names t = true) (hlen : bloom'.length = t.bloom.length) (hb : ∀ w ∈ bloom', w < 2 ^ cls)
    (hsup : ∀ (i w : Nat), t.bloom[i]? = some w → ∃ w' : Nat, bloom'[i]? = some w' ∧ w' &&& w = w) :
    WFGnu cls names { t with bloom := bloom' } = true :=
  Proofs.C03.WFGnu_bloom_super cls names t bloom' hwf hlen hb hsup

/-- exactly the table the run builds: `buildGnu` over the ordered names with the words `orW` ORed into
    the Bloom filter (to provoke false positives) is well-formed, for every symbol list -/
theorem buildGnu_perturbed_wf {β : Type} (cls : Nat) (syms : List (Bytes × β)) (nb so bs sh : Nat) (hcls : 0 < cls)
    (hnb : 1 ≤ nb) (hnb32 : nb < 2 ^ 32) (hbs : 1 ≤ bs) (hbs32 : bs < 2 ^ 32) (hsh32 : sh < 2 ^ 32)
    (hso1 : 1 ≤ so) (hson : so ≤ syms.length) (hn32 : syms.length < 2 ^ 32)
    (orW : List Nat) (hor : ∀ w ∈ orW, w < 2 ^ cls) :
    WFGnu cls ((gnuOrder nb so syms).map (·.1))
      { buildGnu cls ((gnuOrder nb so syms).map (·.1)) nb so bs sh with
        bloom := ((buildGnu cls ((gnuOrder nb so syms).map (·.1)) nb so bs sh).bloom.zipIdx).map
                    fun (w, i) => w ||| orW.getD i 0 } = true :=
  Proofs.C03.WFGnu_bloomOr cls _ _ orW
    (Proofs.C03.buildGnu_wf cls syms nb so bs sh hcls hnb hnb32 hbs hbs32 hsh32 hso1 hson hn32) hor

/-- non-vacuity of the builder theorems: their hypotheses are plain range conditions -/
example : WFSysV exNames (buildSysV exNames 3) = true :=
  buildSysV_wf exNames 3 (by decide) (by decide) (by decide) (by decide)
example : WFGnu 64 ((gnuOrder 5 2 (exNames.map fun n => (n, ()))).map (·.1))
    (buildGnu 64 ((gnuOrder 5 2 (exNames.map fun n => (n, ()))).map (·.1)) 5 2 2 6) = true :=
  buildGnu_wf 64 _ 5 2 2 6 (by decide) (by decide) (by decide) (by decide) (by decide) (by decide) (by decide)
    (by decide) (by decide)
/-- the ordering really moves symbols: with 5 buckets the hashed part of `exNames` is rearranged -/
example : (gnuOrder 5 2 (exNames.map fun n => (n, ()))).map (·.1) ≠ exNames := by decide

/-! ### end to end over built tables -/

/-- SysV, exact: on the bytes of the table built for ANY list of names, `__init__` succeeds, the count
    is the table length, and the lookup of any name returns the highest-indexed symbol `1 ≤ i < n`
    bearing it (`None` if there is none) -/
theorem sysv_lookup_built_exact (env : Env) (c : ElfCfg) (names : List Bytes) (nb : Nat)
    (hn : 1 ≤ names.length) (hn32 : names.length < 2 ^ 32) (hnb : 1 ≤ nb) (hnb32 : nb < 2 ^ 32)
    (pre rest : Bytes) (getSym : Nat → R Symbol) (sym : Nat → Symbol)
    (hget : ∀ j, j < names.length → getSym j = .ok (sym j))
    (hname : ∀ j, j < names.length → (sym j).2 = names.getD j []) :
    ∃ params, elfHashInit (Spec.elfStructs c) env (pre ++ encSysV c.le (buildSysV names nb) ++ rest) pre.length = .ok params
      ∧ elfHashCount params = .ok (.int names.length)
      ∧ ∀ name, elfHashGetSymbol params getSym name = .ok ((sysvLastNamed names name).map sym) :=
  Proofs.C03.sysv_built_bytes env c names nb hn hn32 hnb hnb32 _ _ rest (drop_pre pre _ rest) getSym sym hget hname

/-- what `sysvLastNamed` denotes -/
theorem sysvLastNamed_spec (names : List Bytes) (name : Bytes) :
    (∀ j, sysvLastNamed names name = some j →
        1 ≤ j ∧ j < names.length ∧ names.getD j [] = name ∧ ∀ i, j < i → i < names.length → names.getD i [] ≠ name)
      ∧ (sysvLastNamed names name = none → ∀ i, 1 ≤ i → i < names.length → names.getD i [] ≠ name) :=
  ⟨fun _ h => ⟨(Proofs.C03.sysvLastNamed_some h).1, (Proofs.C03.sysvLastNamed_some h).2.1,
      (Proofs.C03.sysvLastNamed_some h).2.2, Proofs.C03.sysvLastNamed_last h⟩,
   Proofs.C03.sysvLastNamed_none⟩

/-- SysV: every name present among the symbols `1 ≤ i < n` is found, every absent name is not, and
    the recovered count is the table length — for every list of names and every bucket count -/
theorem sysv_lookup_built (env : Env) (c : ElfCfg) (names : List Bytes) (nb : Nat)
    (hn : 1 ≤ names.length) (hn32 : names.length < 2 ^ 32) (hnb : 1 ≤ nb) (hnb32 : nb < 2 ^ 32)
    (pre rest : Bytes) (getSym : Nat → R Symbol) (sym : Nat → Symbol)
    (hget : ∀ j, j < names.length → getSym j = .ok (sym j))
    (hname : ∀ j, j < names.length → (sym j).2 = names.getD j []) :
    ∃ params, elfHashInit (Spec.elfStructs c) env (pre ++ encSysV c.le (buildSysV names nb) ++ rest) pre.length = .ok params
      ∧ elfHashCount params = .ok (.int names.length)
      ∧ (∀ i, 1 ≤ i → i < names.length → ∃ j, 1 ≤ j ∧ j < names.length ∧ names.getD j [] = names.getD i [] ∧
            elfHashGetSymbol params getSym (names.getD i []) = .ok (some (sym j)))
      ∧ (∀ name, (∀ i, 1 ≤ i → i < names.length → names.getD i [] ≠ name) →
            elfHashGetSymbol params getSym name = .ok none) := by
  obtain ⟨params, h1, h2, h3⟩ :=
    sysv_lookup_built_exact env c names nb hn hn32 hnb hnb32 pre rest getSym sym hget hname
  refine ⟨params, h1, h2, ?_, ?_⟩
  · intro i hi1 hin
    cases hl : sysvLastNamed names (names.getD i []) with
    | none => exact absurd rfl (Proofs.C03.sysvLastNamed_none hl i hi1 hin)
    | some j =>
      obtain ⟨a, b, c'⟩ := Proofs.C03.sysvLastNamed_some hl
      exact ⟨j, a, b, c', by rw [h3, hl]; rfl⟩
  · intro name habs
    cases hl : sysvLastNamed names name with
    | none => rw [h3, hl]; rfl
    | some j =>
      obtain ⟨a, b, c'⟩ := Proofs.C03.sysvLastNamed_some hl
      exact absurd c' (habs j a b)

/-- SysV, whole file: the symbol table of the lookups is the real `get_symbol` over a laid-out symbol
    table in the same file, the hash table the one built for its names -/
theorem sysv_lookup_built_file {le : Bool} {cls : Nat} {data : Bytes} {h : SecHdr} {strOff : Nat} {es : List SymE}
    {names : List Bytes} (env : Env) (m : String) (sol core : Bool)
    (L : SymtabLayout le cls data h strOff es names) (nb : Nat)
    (hn : 1 ≤ es.length) (hn32 : es.length < 2 ^ 32) (hnb : 1 ≤ nb) (hnb32 : nb < 2 ^ 32)
    (off : Nat) (rest : Bytes) (hd : data.drop off = encSysV le (buildSysV names nb) ++ rest) :
    ∃ params, elfHashInit (Spec.elfStructs ⟨le, cls, m, sol, core⟩) env data off = .ok params
      ∧ elfHashCount params = .ok (.int es.length)
      ∧ ∀ name, elfHashGetSymbol params (getSymbol (Spec.elfStructs ⟨le, cls, m, sol, core⟩) env data h strOff) name
          = .ok ((sysvLastNamed names name).map (symObs env.enumDecode cls es names)) := by
  have hl := L.nlen
  have := Proofs.C03.sysv_built_bytes env ⟨le, cls, m, sol, core⟩ names nb (by omega) (by omega) hnb hnb32 data off rest hd
    (getSymbol (Spec.elfStructs ⟨le, cls, m, sol, core⟩) env data h strOff) (symObs env.enumDecode cls es names)
    (fun j hj => layout_getSymbol env m sol core L j (by omega)) (fun _ _ => rfl)
  rwa [hl] at this

/-- GNU, exact: on the bytes of the table built for ANY symbol list (ordered by `gnuOrder`), `__init__`
    succeeds, the recovered count is the number of symbols, and the lookup of any name returns the
    first hashed symbol bearing it (`None` if there is none) -/
theorem gnu_lookup_built_exact {β : Type} (env : Env) (c : ElfCfg) (hcls : c.cls = 32 ∨ c.cls = 64)
    (syms : List (Bytes × β)) (nb so bs sh : Nat)
    (hnb : 1 ≤ nb) (hnb32 : nb < 2 ^ 32) (hbs : 1 ≤ bs) (hbs32 : bs < 2 ^ 32) (hsh32 : sh < 2 ^ 32)
    (hso1 : 1 ≤ so) (hson : so ≤ syms.length) (hn32 : syms.length < 2 ^ 32)
    (pre rest : Bytes) (getSym : Nat → R Symbol) (sym : Nat → Symbol)
    (hget : ∀ j, j < ((gnuOrder nb so syms).map (·.1)).length → getSym j = .ok (sym j))
    (hname : ∀ j, j < ((gnuOrder nb so syms).map (·.1)).length → (sym j).2 = ((gnuOrder nb so syms).map (·.1)).getD j []) :
    ∃ g, gnuHashInit (Spec.elfStructs c) env c.cls
          (pre ++ encGnu c.le c.cls (buildGnu c.cls ((gnuOrder nb so syms).map (·.1)) nb so bs sh) ++ rest) pre.length = .ok g
      ∧ gnuHashCount c.le (pre ++ encGnu c.le c.cls (buildGnu c.cls ((gnuOrder nb so syms).map (·.1)) nb so bs sh) ++ rest) g
          = .ok syms.length
      ∧ ∀ name, gnuHashGetSymbol c.le c.cls
            (pre ++ encGnu c.le c.cls (buildGnu c.cls ((gnuOrder nb so syms).map (·.1)) nb so bs sh) ++ rest) g getSym name
          = .ok ((gnuFirstNamed ((gnuOrder nb so syms).map (·.1)) so name).map sym) :=
  Proofs.C03.gnu_built_bytes env c hcls syms nb so bs sh hnb hnb32 hbs hbs32 hsh32 hso1 hson hn32 _ _ rest
    (drop_pre pre _ rest) getSym sym hget hname

/-- GNU: every name borne by a symbol of the hashed part `syms.drop symoffset` of the ORIGINAL list is
    found (a symbol with that name, at a hashed index of the ordered table, is returned), every name
    not borne by one is not found — Bloom false positives, bucket and hash collisions included —, and
    the recovered count is the number of symbols; for every symbol list and all table parameters -/
theorem gnu_lookup_built {β : Type} (env : Env) (c : ElfCfg) (hcls : c.cls = 32 ∨ c.cls = 64)
    (syms : List (Bytes × β)) (nb so bs sh : Nat)
    (hnb : 1 ≤ nb) (hnb32 : nb < 2 ^ 32) (hbs : 1 ≤ bs) (hbs32 : bs < 2 ^ 32) (hsh32 : sh < 2 ^ 32)
    (hso1 : 1 ≤ so) (hson : so ≤ syms.length) (hn32 : syms.length < 2 ^ 32)
    (pre rest : Bytes) (getSym : Nat → R Symbol) (sym : Nat → Symbol)
    (hget : ∀ j, j < ((gnuOrder nb so syms).map (·.1)).length → getSym j = .ok (sym j))
    (hname : ∀ j, j < ((gnuOrder nb so syms).map (·.1)).length → (sym j).2 = ((gnuOrder nb so syms).map (·.1)).getD j []) :
    ∃ g, gnuHashInit (Spec.elfStructs c) env c.cls
          (pre ++ encGnu c.le c.cls (buildGnu c.cls ((gnuOrder nb so syms).map (·.1)) nb so bs sh) ++ rest) pre.length = .ok g
      ∧ gnuHashCount c.le (pre ++ encGnu c.le c.cls (buildGnu c.cls ((gnuOrder nb so syms).map (·.1)) nb so bs sh) ++ rest) g
          = .ok syms.length
      ∧ (∀ s ∈ syms.drop so, ∃ j, so ≤ j ∧ j < syms.length ∧ ((gnuOrder nb so syms).map (·.1)).getD j [] = s.1 ∧
          gnuHashGetSymbol c.le c.cls
            (pre ++ encGnu c.le c.cls (buildGnu c.cls ((gnuOrder nb so syms).map (·.1)) nb so bs sh) ++ rest) g getSym s.1
            = .ok (some (sym j)))
      ∧ (∀ name, (∀ s ∈ syms.drop so, s.1 ≠ name) →
          gnuHashGetSymbol c.le c.cls
            (pre ++ encGnu c.le c.cls (buildGnu c.cls ((gnuOrder nb so syms).map (·.1)) nb so bs sh) ++ rest) g getSym name
            = .ok none) := by
  obtain ⟨g, h1, h2, h3⟩ := gnu_lookup_built_exact env c hcls syms nb so bs sh hnb hnb32 hbs hbs32 hsh32 hso1 hson hn32
    pre rest getSym sym hget hname
  have hl : ((gnuOrder nb so syms).map (·.1)).length = syms.length := by
    rw [List.length_map, Proofs.C03.gnuOrder_length]
  refine ⟨g, h1, h2, ?_, ?_⟩
  · intro s hs
    obtain ⟨i, hi1, hi2, hi3⟩ := Proofs.C03.gnuOrder_hashed_mem nb so syms s hs
    cases hf : gnuFirstNamed ((gnuOrder nb so syms).map (·.1)) so s.1 with
    | none =>
      exfalso
      refine firstFrom_ne_none (fun i => ((gnuOrder nb so syms).map (·.1)).getD i [] == s.1) _ so (i - so) (by omega) ?_ hf
      rw [show so + (i - so) = i by omega]; simpa using hi3
    | some j =>
      obtain ⟨a, b, c', _⟩ := firstFrom_spec _ _ _ _ hf
      exact ⟨j, a, by omega, by simpa using c', by rw [h3, hf]; rfl⟩
  · intro name habs
    cases hf : gnuFirstNamed ((gnuOrder nb so syms).map (·.1)) so name with
    | none => rw [h3, hf]; rfl
    | some j =>
      exfalso
      obtain ⟨a, b, c', _⟩ := firstFrom_spec _ _ _ _ hf
      obtain ⟨s, hs, hsn⟩ := Proofs.C03.gnuOrder_hashed_of_idx nb so syms j a (by omega)
      exact habs s hs (by rw [← hsn]; simpa using c')

/-- GNU, whole file: lookups through the real `get_symbol` over the laid-out (ordered) symbol table -/
theorem gnu_lookup_built_file {β : Type} {le : Bool} {cls : Nat} {data : Bytes} {h : SecHdr} {strOff : Nat}
    {es : List SymE} (env : Env) (m : String) (sol core : Bool) (syms : List (Bytes × β)) (nb so bs sh : Nat)
    (L : SymtabLayout le cls data h strOff es ((gnuOrder nb so syms).map (·.1)))
    (hnb : 1 ≤ nb) (hnb32 : nb < 2 ^ 32) (hbs : 1 ≤ bs) (hbs32 : bs < 2 ^ 32) (hsh32 : sh < 2 ^ 32)
    (hso1 : 1 ≤ so) (hson : so ≤ syms.length) (hn32 : syms.length < 2 ^ 32)
    (off : Nat) (rest : Bytes)
    (hd : data.drop off = encGnu le cls (buildGnu cls ((gnuOrder nb so syms).map (·.1)) nb so bs sh) ++ rest) :
    ∃ g, gnuHashInit (Spec.elfStructs ⟨le, cls, m, sol, core⟩) env cls data off = .ok g
      ∧ gnuHashCount le data g = .ok es.length
      ∧ ∀ name, gnuHashGetSymbol le cls data g (getSymbol (Spec.elfStructs ⟨le, cls, m, sol, core⟩) env data h strOff) name
          = .ok ((gnuFirstNamed ((gnuOrder nb so syms).map (·.1)) so name).map
                  (symObs env.enumDecode cls es ((gnuOrder nb so syms).map (·.1)))) := by
  have hl : ((gnuOrder nb so syms).map (·.1)).length = syms.length := by
    rw [List.length_map, Proofs.C03.gnuOrder_length]
  have hle := L.nlen
  have := Proofs.C03.gnu_built_bytes env ⟨le, cls, m, sol, core⟩ L.hcls syms nb so bs sh hnb hnb32 hbs hbs32 hsh32
    hso1 hson hn32 data off rest hd
    (getSymbol (Spec.elfStructs ⟨le, cls, m, sol, core⟩) env data h strOff)
    (symObs env.enumDecode cls es ((gnuOrder nb so syms).map (·.1)))
    (fun j hj => layout_getSymbol env m sol core L j (by omega)) (fun _ _ => rfl)
  rwa [show syms.length = es.length by omega] at this

/-! ### SUNW syminfo, whole table (TASK 2) -/

/-- `SUNWSyminfoTableSection.num_symbols` and `list(iter_symbols())`: the entries 1 … k−1 of a table of
    `k` entries in order (entry 0, the version record, is skipped; `k = 0` gives `num_symbols = −1`
    and nothing), each paired with the name of the same-numbered symbol of the linked symbol table -/
theorem syminfo_iter_exact {le : Bool} {cls : Nat} {data : Bytes} {h symH : SecHdr} {strOff : Nat} {es : List SymE}
    {names : List Bytes} {si : List (Nat × Nat)} (env : Env) (m : String) (sol core : Bool)
    (L : SymtabLayout le cls data symH strOff es names) (LS : SyminfoLayout le data h si)
    (hle : si.length ≤ es.length) :
    syminfoNum h = .ok ((si.length : Int) - 1)
      ∧ syminfoIter (Spec.elfStructs ⟨le, cls, m, sol, core⟩) env data h symH strOff
          = .ok ((List.range' 1 (si.length - 1)).map (syminfoObs env.enumDecode si names)) :=
  ⟨Proofs.C03.syminfoNum_ok LS, Proofs.C03.syminfoIter_ok env m sol core L LS hle⟩

/-- the packed section every producer writes (`sh_entsize = 4`, the encoded entries at `sh_offset`) is such a layout -/
theorem syminfo_packed_layout (le : Bool) (data : Bytes) (h : SecHdr) (si : List (Nat × Nat)) (rest : Bytes)
    (hent : h.entsize = 4) (hsize : h.size = si.length * 4)
    (hwf : ∀ e ∈ si, e.1 < 65536 ∧ e.2 < 65536) (hd : data.drop h.off = encSyminfo le si ++ rest) :
    SyminfoLayout le data h si :=
  Proofs.C03.syminfoLayout_packed le data h si rest hent hsize hwf hd

/-! ### SHT_SYMTAB_SHNDX, whole table; everything closed over the regenerated bundles (TASK 3) -/

/-- every entry of the companion table: `get_section_index(n)` is the `n`-th word, for all `n` in range -/
theorem shndx_table_exact (env : Env) (c : ElfCfg) (data : Bytes) (h : SecHdr) (ws : List Nat) (rest : Bytes)
    (hent : h.entsize = 4) (hws : ∀ w ∈ ws, w < 2 ^ 32) (hd : data.drop h.off = encShndx c.le ws ++ rest)
    (n : Nat) (hn : n < ws.length) :
    getSectionIndex (Spec.elfStructs c) env data h n = .ok (.int ws[n]) :=
  Proofs.C03.shndx_table_ok env c data h ws rest hent hws hd n hn

section generated
variable (c : ElfCfg) (S : ElfStructs) (hS : (c, S) ∈ Gen.elfBundles)
include hS

/-- Elf_Sym round trip with the bundle and the code tables regenerated from the library on this run -/
theorem sym_roundtrip_generated (hcls : c.cls = 32 ∨ c.cls = 64) (e : SymE) (hwf : e.WF c.cls = true) (pre rest : Bytes) :
    structParse Model.elfEnv S.Elf_Sym (pre ++ encSym c.le c.cls e ++ rest) pre.length
      = .ok (obsEntry Model.elfEnv.enumDecode c.cls e, pre.length + symSize c.cls) := by
  rw [TieC03.field_of_tie (·.Elf_Sym) TieC03.elf_Elf_Sym hS]
  obtain ⟨le, cls, m, sol, core⟩ := c
  rcases hcls with h | h
  · simp only at h; subst h; exact sym_roundtrip32 Model.elfEnv le m sol core e hwf pre rest
  · simp only at h; subst h; exact sym_roundtrip64 Model.elfEnv le m sol core e hwf pre rest

theorem iter_symbols_exact_generated {data : Bytes} {h : SecHdr} {strOff : Nat} {es : List SymE} {names : List Bytes}
    (L : SymtabLayout c.le c.cls data h strOff es names) :
    iterSymbols S Model.elfEnv data h strOff
      = .ok ((List.range es.length).map (symObs Model.elfEnv.enumDecode c.cls es names)) := by
  rw [Proofs.C03.iterSymbols_congr (TieC03.field_of_tie (·.Elf_Sym) TieC03.elf_Elf_Sym hS)]
  exact layout_iterSymbols Model.elfEnv c.mclass c.solaris c.core L

theorem by_name_exact_generated {data : Bytes} {h : SecHdr} {strOff : Nat} {es : List SymE} {names : List Bytes}
    (L : SymtabLayout c.le c.cls data h strOff es names) (name : Bytes) :
    getSymbolByName S Model.elfEnv data h strOff name
      = .ok (if byName names name = [] then none
             else some ((byName names name).map (symObs Model.elfEnv.enumDecode c.cls es names))) := by
  rw [Proofs.C03.getSymbolByName_congr (TieC03.field_of_tie (·.Elf_Sym) TieC03.elf_Elf_Sym hS)]
  exact layout_byName Model.elfEnv c.mclass c.solaris c.core L name

/-- SysV hash lookups over a whole file, regenerated bundle: built table, real `get_symbol` -/
theorem sysv_lookup_built_generated {data : Bytes} {h : SecHdr} {strOff : Nat} {es : List SymE} {names : List Bytes}
    (L : SymtabLayout c.le c.cls data h strOff es names) (nb : Nat)
    (hn : 1 ≤ es.length) (hn32 : es.length < 2 ^ 32) (hnb : 1 ≤ nb) (hnb32 : nb < 2 ^ 32)
    (off : Nat) (rest : Bytes) (hd : data.drop off = encSysV c.le (buildSysV names nb) ++ rest) :
    ∃ params, elfHashInit S Model.elfEnv data off = .ok params
      ∧ elfHashCount params = .ok (.int es.length)
      ∧ ∀ name, elfHashGetSymbol params (getSymbol S Model.elfEnv data h strOff) name
          = .ok ((sysvLastNamed names name).map (symObs Model.elfEnv.enumDecode c.cls es names)) := by
  rw [Proofs.C03.elfHashInit_congr (TieC03.field_of_tie (·.Elf_Hash) TieC03.elf_Elf_Hash hS),
    Proofs.C03.getSymbol_congr (TieC03.field_of_tie (·.Elf_Sym) TieC03.elf_Elf_Sym hS)]
  exact sysv_lookup_built_file Model.elfEnv c.mclass c.solaris c.core L nb hn hn32 hnb hnb32 off rest hd

/-- GNU hash lookups over a whole file, regenerated bundle -/
theorem gnu_lookup_built_generated {β : Type} {data : Bytes} {h : SecHdr} {strOff : Nat} {es : List SymE}
    (syms : List (Bytes × β)) (nb so bs sh : Nat)
    (L : SymtabLayout c.le c.cls data h strOff es ((gnuOrder nb so syms).map (·.1)))
    (hnb : 1 ≤ nb) (hnb32 : nb < 2 ^ 32) (hbs : 1 ≤ bs) (hbs32 : bs < 2 ^ 32) (hsh32 : sh < 2 ^ 32)
    (hso1 : 1 ≤ so) (hson : so ≤ syms.length) (hn32 : syms.length < 2 ^ 32)
    (off : Nat) (rest : Bytes)
    (hd : data.drop off = encGnu c.le c.cls (buildGnu c.cls ((gnuOrder nb so syms).map (·.1)) nb so bs sh) ++ rest) :
    ∃ g, gnuHashInit S Model.elfEnv c.cls data off = .ok g
      ∧ gnuHashCount c.le data g = .ok es.length
      ∧ ∀ name, gnuHashGetSymbol c.le c.cls data g (getSymbol S Model.elfEnv data h strOff) name
          = .ok ((gnuFirstNamed ((gnuOrder nb so syms).map (·.1)) so name).map
                  (symObs Model.elfEnv.enumDecode c.cls es ((gnuOrder nb so syms).map (·.1)))) := by
  rw [Proofs.C03.gnuHashInit_congr (TieC03.field_of_tie (·.Gnu_Hash) TieC03.elf_Gnu_Hash hS),
    Proofs.C03.getSymbol_congr (TieC03.field_of_tie (·.Elf_Sym) TieC03.elf_Elf_Sym hS)]
  exact gnu_lookup_built_file Model.elfEnv c.mclass c.solaris c.core syms nb so bs sh L hnb hnb32 hbs hbs32 hsh32
    hso1 hson hn32 off rest hd

theorem shndx_table_exact_generated (data : Bytes) (h : SecHdr) (ws : List Nat) (rest : Bytes)
    (hent : h.entsize = 4) (hws : ∀ w ∈ ws, w < 2 ^ 32) (hd : data.drop h.off = encShndx c.le ws ++ rest)
    (n : Nat) (hn : n < ws.length) :
    getSectionIndex S Model.elfEnv data h n = .ok (.int ws[n]) := by
  rw [Proofs.C03.getSectionIndex_congr (TieC03.field_of_tie (·.Elf_word) TieC03.elf_Elf_word hS)]
  exact shndx_table_exact Model.elfEnv c data h ws rest hent hws hd n hn

theorem syminfo_iter_exact_generated {data : Bytes} {h symH : SecHdr} {strOff : Nat} {es : List SymE}
    {names : List Bytes} {si : List (Nat × Nat)}
    (L : SymtabLayout c.le c.cls data symH strOff es names) (LS : SyminfoLayout c.le data h si)
    (hle : si.length ≤ es.length) :
    syminfoIter S Model.elfEnv data h symH strOff
      = .ok ((List.range' 1 (si.length - 1)).map (syminfoObs Model.elfEnv.enumDecode si names)) := by
  rw [Proofs.C03.syminfoIter_congr (TieC03.field_of_tie (·.Elf_Sym) TieC03.elf_Elf_Sym hS)
    (TieC03.field_of_tie (·.Elf_Sunw_Syminfo) TieC03.elf_Elf_Sunw_Syminfo hS)]
  exact (syminfo_iter_exact Model.elfEnv c.mclass c.solaris c.core L LS hle).2

end generated

/-! ### whole images built from one symbol list: string table, entries and hash table

  The symbol-table side of the run's inputs is built by `buildStrtab` and `encSymtab`.  The theorems
  below discharge `SymtabLayout` for every symbol list (names without NUL, fields in range, string
  table shorter than 2^32), so that nothing about the generated inputs remains a hypothesis. -/

/-- `buildStrtab` (with or without sharing of equal names): one offset per name, each denoting its name -/
theorem buildStrtab_exact (share : Bool) (names : List Bytes) (hnul : ∀ nm ∈ names, (0 : UInt8) ∉ nm) :
    (buildStrtab share names).2.length = names.length
      ∧ ∀ i (hi : i < names.length), ∃ o, (buildStrtab share names).2[i]? = some o
          ∧ strAt (buildStrtab share names).1 o = some names[i] :=
  Proofs.C03.buildStrtab_ok share names hnul

/-- the entries and the string table built from any symbol list, anywhere in a file, are a `SymtabLayout`
    (stride `symSize + pad`; `sh_size = n · sh_entsize`) -/
theorem built_symtab_layout (le : Bool) (cls pad : Nat) (share : Bool) (syms : List (Bytes × SymE))
    (hcls : cls = 32 ∨ cls = 64)
    (hnul : ∀ s ∈ syms, (0 : UInt8) ∉ s.1) (hwf : ∀ s ∈ syms, s.2.WF cls = true)
    (hlen : (buildStrtab share (syms.map (·.1))).1.length < 2 ^ 32)
    (data : Bytes) (symOff strOff : Nat) (rest1 rest2 : Bytes)
    (h1 : data.drop symOff
        = encSymtab le cls pad (builtEntries syms (buildStrtab share (syms.map (·.1))).2) ++ rest1)
    (h2 : data.drop strOff = (buildStrtab share (syms.map (·.1))).1 ++ rest2) :
    SymtabLayout le cls data ⟨symOff, syms.length * (symSize cls + pad), symSize cls + pad⟩ strOff
      (builtEntries syms (buildStrtab share (syms.map (·.1))).2) (syms.map (·.1)) :=
  Proofs.C03.built_layout le cls pad share syms hcls hnul hwf hlen data symOff strOff rest1 rest2 h1 h2

/-- SysV, the whole image from ONE symbol list (any size ≥ 1, duplicates, empty names, any padding,
    shared or unshared string table, any bucket count ≥ 1), regenerated bundle and code tables:
    enumeration yields exactly the symbols; `__init__` of the hash table succeeds; the recovered count is
    the number of symbols; every lookup returns the highest-indexed symbol `1 ≤ i < n` bearing the name,
    or `None` -/
theorem sysv_image_generated (c : ElfCfg) (S : ElfStructs) (hS : (c, S) ∈ Gen.elfBundles)
    (hcls : c.cls = 32 ∨ c.cls = 64) (pad : Nat) (share : Bool) (syms : List (Bytes × SymE)) (nb : Nat)
    (hnul : ∀ s ∈ syms, (0 : UInt8) ∉ s.1) (hwf : ∀ s ∈ syms, s.2.WF c.cls = true)
    (hlen : (buildStrtab share (syms.map (·.1))).1.length < 2 ^ 32)
    (hn : 1 ≤ syms.length) (hn32 : syms.length < 2 ^ 32) (hnb : 1 ≤ nb) (hnb32 : nb < 2 ^ 32)
    (data : Bytes) (symOff strOff hashOff : Nat) (rest1 rest2 rest3 : Bytes)
    (h1 : data.drop symOff
        = encSymtab c.le c.cls pad (builtEntries syms (buildStrtab share (syms.map (·.1))).2) ++ rest1)
    (h2 : data.drop strOff = (buildStrtab share (syms.map (·.1))).1 ++ rest2)
    (h3 : data.drop hashOff = encSysV c.le (buildSysV (syms.map (·.1)) nb) ++ rest3) :
    iterSymbols S Model.elfEnv data ⟨symOff, syms.length * (symSize c.cls + pad), symSize c.cls + pad⟩ strOff
        = .ok ((List.range syms.length).map (symObs Model.elfEnv.enumDecode c.cls
                (builtEntries syms (buildStrtab share (syms.map (·.1))).2) (syms.map (·.1))))
      ∧ ∃ params, elfHashInit S Model.elfEnv data hashOff = .ok params
          ∧ elfHashCount params = .ok (.int syms.length)
          ∧ ∀ name, elfHashGetSymbol params
                (getSymbol S Model.elfEnv data ⟨symOff, syms.length * (symSize c.cls + pad), symSize c.cls + pad⟩ strOff) name
              = .ok ((sysvLastNamed (syms.map (·.1)) name).map (symObs Model.elfEnv.enumDecode c.cls
                  (builtEntries syms (buildStrtab share (syms.map (·.1))).2) (syms.map (·.1)))) := by
  have L := built_symtab_layout c.le c.cls pad share syms hcls hnul hwf hlen data symOff strOff rest1 rest2 h1 h2
  have hel : (builtEntries syms (buildStrtab share (syms.map (·.1))).2).length = syms.length := by
    rw [← L.nlen, List.length_map]
  have a := iter_symbols_exact_generated c S hS L
  have b := sysv_lookup_built_generated c S hS L nb (by omega) (by omega) hnb hnb32 hashOff rest3 h3
  rw [hel] at a b
  exact ⟨a, b⟩

/-- GNU, the whole image from ONE symbol list, ordered by `gnuOrder` (any size, any `1 ≤ symoffset ≤ n`,
    any bucket count ≥ 1, Bloom size ≥ 1, shift), regenerated bundle and code tables: enumeration
    yields exactly the (ordered) symbols; `__init__` succeeds; the count recovered from buckets and
    chain is the number of symbols; every lookup returns the first hashed symbol bearing the name, or `None` -/
theorem gnu_image_generated (c : ElfCfg) (S : ElfStructs) (hS : (c, S) ∈ Gen.elfBundles)
    (hcls : c.cls = 32 ∨ c.cls = 64) (pad : Nat) (share : Bool) (syms0 : List (Bytes × SymE)) (nb so bs sh : Nat)
    (hnul : ∀ s ∈ syms0, (0 : UInt8) ∉ s.1) (hwf : ∀ s ∈ syms0, s.2.WF c.cls = true)
    (hlen : (buildStrtab share ((gnuOrder nb so syms0).map (·.1))).1.length < 2 ^ 32)
    (hnb : 1 ≤ nb) (hnb32 : nb < 2 ^ 32) (hbs : 1 ≤ bs) (hbs32 : bs < 2 ^ 32) (hsh32 : sh < 2 ^ 32)
    (hso1 : 1 ≤ so) (hson : so ≤ syms0.length) (hn32 : syms0.length < 2 ^ 32)
    (data : Bytes) (symOff strOff hashOff : Nat) (rest1 rest2 rest3 : Bytes)
    (h1 : data.drop symOff = encSymtab c.le c.cls pad
            (builtEntries (gnuOrder nb so syms0) (buildStrtab share ((gnuOrder nb so syms0).map (·.1))).2) ++ rest1)
    (h2 : data.drop strOff = (buildStrtab share ((gnuOrder nb so syms0).map (·.1))).1 ++ rest2)
    (h3 : data.drop hashOff
        = encGnu c.le c.cls (buildGnu c.cls ((gnuOrder nb so syms0).map (·.1)) nb so bs sh) ++ rest3) :
    iterSymbols S Model.elfEnv data ⟨symOff, syms0.length * (symSize c.cls + pad), symSize c.cls + pad⟩ strOff
        = .ok ((List.range syms0.length).map (symObs Model.elfEnv.enumDecode c.cls
                (builtEntries (gnuOrder nb so syms0) (buildStrtab share ((gnuOrder nb so syms0).map (·.1))).2)
                ((gnuOrder nb so syms0).map (·.1))))
      ∧ ∃ g, gnuHashInit S Model.elfEnv c.cls data hashOff = .ok g
          ∧ gnuHashCount c.le data g = .ok syms0.length
          ∧ ∀ name, gnuHashGetSymbol c.le c.cls data g
                (getSymbol S Model.elfEnv data ⟨symOff, syms0.length * (symSize c.cls + pad), symSize c.cls + pad⟩ strOff) name
              = .ok ((gnuFirstNamed ((gnuOrder nb so syms0).map (·.1)) so name).map (symObs Model.elfEnv.enumDecode c.cls
                  (builtEntries (gnuOrder nb so syms0) (buildStrtab share ((gnuOrder nb so syms0).map (·.1))).2)
                  ((gnuOrder nb so syms0).map (·.1)))) := by
  have hperm := Proofs.C03.gnuOrder_perm nb so syms0
  have hgl : (gnuOrder nb so syms0).length = syms0.length := Proofs.C03.gnuOrder_length nb so syms0
  have L := built_symtab_layout c.le c.cls pad share (gnuOrder nb so syms0) hcls
    (fun s hs => hnul s (hperm.mem_iff.mp hs)) (fun s hs => hwf s (hperm.mem_iff.mp hs)) hlen
    data symOff strOff rest1 rest2 h1 h2
  rw [hgl] at L
  have hel : (builtEntries (gnuOrder nb so syms0) (buildStrtab share ((gnuOrder nb so syms0).map (·.1))).2).length
      = syms0.length := by rw [← L.nlen, List.length_map, hgl]
  have a := iter_symbols_exact_generated c S hS L
  have b := gnu_lookup_built_generated c S hS syms0 nb so bs sh L hnb hnb32 hbs hbs32 hsh32 hso1 hson hn32 hashOff rest3 h3
  rw [hel] at a b
  exact ⟨a, b⟩


/-! ### non-vacuity of the whole-file and `_generated` forms -/

/-- a file: the two-entry ELF32 symbol table of `exData`, its string table, then the SysV hash table
    built for its names, then a packed two-entry syminfo table -/
def exFile : Bytes :=
  exData ++ encSysV true (buildSysV [[], [0x61]] 1) ++ encSyminfo true [(0, 0), (0xffff, 5)]

theorem ex_file_layout : SymtabLayout true 32 exFile ⟨0, 32, 16⟩ 32 [exE0, exE1] [[], [0x61]] where
  hcls := Or.inl rfl
  entpos := by decide
  size := by decide
  nlen := rfl
  wf := by
    intro i hi
    match i, hi with
    | 0, _ => show exE0.WF 32 = true; decide
    | 1, _ => show exE1.WF 32 = true; decide
  entry := by
    intro i hi
    match i, hi with
    | 0, _ => exact ⟨exFile.drop 16, by show List.drop 0 exFile = encSym true 32 exE0 ++ _; decide⟩
    | 1, _ => exact ⟨exFile.drop 32, by show List.drop 16 exFile = encSym true 32 exE1 ++ _; decide⟩
  name := by
    intro i hi
    match i, hi with
    | 0, _ => show strAt (List.drop 32 exFile) 0 = some []; decide
    | 1, _ => show strAt (List.drop 32 exFile) 1 = some [0x61]; decide

/-- the hypotheses of `sysv_lookup_built_file` are met by `exFile` (hash table at offset 35) … -/
example (env : Env) (m : String) (sol core : Bool) :
    ∃ params, elfHashInit (Spec.elfStructs ⟨true, 32, m, sol, core⟩) env exFile 35 = .ok params
      ∧ elfHashCount params = .ok (.int 2)
      ∧ ∀ name, elfHashGetSymbol params (getSymbol (Spec.elfStructs ⟨true, 32, m, sol, core⟩) env exFile ⟨0, 32, 16⟩ 32) name
          = .ok ((sysvLastNamed [[], [0x61]] name).map (symObs env.enumDecode 32 [exE0, exE1] [[], [0x61]])) :=
  sysv_lookup_built_file env m sol core ex_file_layout 1 (by decide) (by decide) (by decide) (by decide) 35
    (encSyminfo true [(0, 0), (0xffff, 5)]) (by decide)

/-- … and those of `syminfo_iter_exact` (syminfo table at offset 55, `sh_size` 8, `sh_entsize` 4) -/
example (env : Env) (m : String) (sol core : Bool) :
    syminfoIter (Spec.elfStructs ⟨true, 32, m, sol, core⟩) env exFile ⟨55, 8, 4⟩ ⟨0, 32, 16⟩ 32
      = .ok [(obsSyminfo env.enumDecode (0xffff, 5), [0x61])] :=
  (syminfo_iter_exact env m sol core ex_file_layout
    (syminfo_packed_layout true exFile ⟨55, 8, 4⟩ [(0, 0), (0xffff, 5)] [] (by decide) (by decide) (by decide) (by decide))
    (by decide)).2

/-- the configuration of `exFile` is one the translator enumerated, so the `_generated` forms apply to it -/
example : (Gen.elfBundles.map (·.1)).contains ⟨true, 32, "default", false, false⟩ = true := by decide +kernel

/-- the hypotheses of the whole-image theorems on a symbol list with duplicate, empty and colliding names:
    NUL-free names, fields in range, string table below 2^32 — and the three sections laid end to end
    satisfy the three placement hypotheses -/
def exSyms : List (Bytes × SymE) := exNames.map fun n => (n, { exE1 with stName := 0 })
example : (∀ s ∈ exSyms, (0 : UInt8) ∉ s.1) ∧ (∀ s ∈ exSyms, s.2.WF 32 = true)
    ∧ (buildStrtab true (exSyms.map (·.1))).1.length < 2 ^ 32
    ∧ (buildStrtab false ((gnuOrder 5 2 exSyms).map (·.1))).1.length < 2 ^ 32 := by decide
example (A B C : Bytes) : (A ++ B ++ C).drop 0 = A ++ (B ++ C) ∧ (A ++ B ++ C).drop A.length = B ++ C
    ∧ (A ++ B ++ C).drop (A.length + B.length) = C ++ [] := by
  refine ⟨by simp, by simp, ?_⟩
  rw [← List.length_append, List.append_nil]; exact List.drop_left' rfl


/-! ## whole files (fifth wave): the tables through `ELFFile(BytesIO(bytes)).get_section(i)` / `get_section_by_name`

  `d` is an abstract ELF description (C01, Spec/ElfImage.lean: sections anywhere in the file, in any order,
  compressed sections admitted: `wfZ`); `Layout d bytes` says the byte string carries it — nothing else about
  `bytes` is constrained.  `symFileWf` / `sysvFileWf` / `gnuFileWf` / `syminfoFileWf` / `shndxFileWf`
  (Spec/SymbolsFile.lean; decidable, evaluated by the driver on every description of the run's `file`
  stream) say that a section of `d` IS the table: its type, its `sh_link`, and what its body holds.
  `getSymSection` (Model/SymbolsFile.lean) mirrors `get_section` for the C03 classes; the objects it
  returns carry the constructor arguments the table theorems above take as given, so those theorems are
  closed over the container: nothing about offsets, header fields or the position of the linked tables
  remains a hypothesis. -/

open PyElf.Spec.C03 PyElf.Model.C03 PyElf.Proofs.C03F
open PyElf.Proofs.C15 (fileOf file_setup exImage ExSec)

/-- the file object the regenerated factory (`Model.elfStructsFor`, `Model.machineClassOf`: what the driver
    runs) opens is, on every byte string, the one the standards-side factory opens (C14's tie) -/
theorem open_generated (env : Env) (bytes : Bytes) :
    openElf env Model.elfStructsFor Model.machineClassOf bytes
      = openElf env C01.specStructs C01.specMachineClass bytes := by
  rw [C01.specStructs_eq, C01.specMachineClass_eq]
  exact TieC14File.openElf_generated env bytes

/-- SYMBOL TABLE of a whole file: `get_section(sec)` is a SymbolTableSection whose `num_symbols()`,
    `get_symbol(i)`, `iter_symbols()` and `get_symbol_by_name(n)` are exactly those of the entries and names
    the description holds — the table and its string table anywhere in the file, in any order -/
theorem symtab_file_exact (env : Env) (d : ElfDesc) (bytes : Bytes) (sec : Nat) (es : List SymE) (names : List Bytes)
    (hwf : symFileWf env d sec es names = true) (hl : Layout d bytes) :
    ∃ f h strOff, openElf env C01.specStructs C01.specMachineClass bytes = .ok f ∧
      getSymSection env f sec = .ok (.symtab h strOff) ∧
      SymtabObserved env f.S bytes d.cls h strOff es names := by
  simp only [symFileWf, Bool.and_eq_true] at hwf
  have F := symtabAt_unpack hwf.2
  obtain ⟨hdr, st, X, hopen⟩ := file_setup hwf.1 hl (Nat.lt_of_le_of_lt (Nat.zero_le _) F.hi)
  obtain ⟨hget, L⟩ := getSymSection_symtab X F
  rw [C01.specStructs_eq, C01.specMachineClass_eq]
  exact ⟨_, _, _, hopen, hget, symtab_observed env d.mclass d.solaris d.core L⟩

/-- SYSTEM V HASH SECTION of a whole file: `get_section(hsec)` is an ELFHashSection over the symbol table its
    `sh_link` designates; the recovered count is the table's true length; a lookup returns a symbol
    `1 ≤ j < n` bearing the name whenever one is present, and nothing otherwise -/
theorem sysv_file_exact (env : Env) (d : ElfDesc) (bytes : Bytes) (hsec sec : Nat) (es : List SymE) (names : List Bytes)
    (t : SysVTable) (hwf : sysvFileWf env d hsec sec es names t = true) (hl : Layout d bytes) :
    ∃ f params symH strOff, openElf env C01.specStructs C01.specMachineClass bytes = .ok f ∧
      getSymSection env f hsec = .ok (.sysv params symH strOff) ∧
      SysvObserved env f.S bytes d.cls params symH strOff es names := by
  simp only [sysvFileWf, symFileWf, Bool.and_eq_true] at hwf
  obtain ⟨⟨⟨hz, hsym⟩, hlk⟩, ht⟩ := hwf
  have F := symtabAt_unpack hsym
  have G := linkedAt_unpack hlk
  obtain ⟨hdr, st, X, hopen⟩ := file_setup hz hl (Nat.lt_of_le_of_lt (Nat.zero_le _) F.hi)
  obtain ⟨-, L⟩ := getSymSection_symtab X F
  rw [C01.specStructs_eq, C01.specMachineClass_eq]
  exact ⟨_, _, _, _, hopen, getSymSection_sysv X F G ht, sysv_observed env d.mclass d.solaris d.core L t ht⟩

/-- the same over the table the linker's construction builds: the lookup returns exactly the highest-indexed
    symbol `1 ≤ i < n` bearing the name -/
theorem sysv_file_built_exact (env : Env) (d : ElfDesc) (bytes : Bytes) (hsec sec : Nat) (es : List SymE)
    (names : List Bytes) (nb : Nat) (hnb : 1 ≤ nb) (hnb32 : nb < 2 ^ 32) (hn : 1 ≤ es.length) (hn32 : es.length < 2 ^ 32)
    (hwf : (symFileWf env d sec es names && linkedAt env d hsec sec "SHT_HASH" (encSysV d.le (buildSysV names nb))) = true)
    (hl : Layout d bytes) :
    ∃ f params symH strOff, openElf env C01.specStructs C01.specMachineClass bytes = .ok f ∧
      getSymSection env f hsec = .ok (.sysv params symH strOff) ∧
      elfHashCount params = .ok (.int es.length) ∧
      ∀ name, elfHashGetSymbol params (getSymbol f.S env bytes symH strOff) name
          = .ok ((sysvLastNamed names name).map (symObs env.enumDecode d.cls es names)) := by
  simp only [symFileWf, Bool.and_eq_true] at hwf
  obtain ⟨⟨hz, hsym⟩, hlk⟩ := hwf
  have F := symtabAt_unpack hsym
  have G := linkedAt_unpack hlk
  have hnl := F.nlen
  have ht : WFSysV names (buildSysV names nb) = true := buildSysV_wf names nb (by omega) (by omega) hnb hnb32
  obtain ⟨hdr, st, X, hopen⟩ := file_setup hz hl (Nat.lt_of_le_of_lt (Nat.zero_le _) F.hi)
  obtain ⟨-, L⟩ := getSymSection_symtab X F
  rw [C01.specStructs_eq, C01.specMachineClass_eq]
  refine ⟨_, _, _, _, hopen, getSymSection_sysv X F G ht, ?_, fun name => ?_⟩
  · rw [← hnl]; exact sysv_count names _ ht
  · exact Proofs.C03.sysv_built_exact names nb (by omega) (by omega) hnb hnb32 _ _
      (fun j hj => layout_getSymbol env d.mclass d.solaris d.core L j (by omega)) (fun _ _ => rfl) name

/-- GNU HASH SECTION of a whole file: `get_section(hsec)` is a GNUHashSection over the symbol table its
    `sh_link` designates; the count recovered from buckets and chain is the table's true length; a lookup
    returns the first hashed symbol (`symoffset ≤ j < n`) bearing the name, nothing when there is none -/
theorem gnu_file_exact (env : Env) (d : ElfDesc) (bytes : Bytes) (hsec sec : Nat) (es : List SymE) (names : List Bytes)
    (t : GnuTable) (hwf : gnuFileWf env d hsec sec es names t = true) (hl : Layout d bytes) :
    ∃ f g symH strOff, openElf env C01.specStructs C01.specMachineClass bytes = .ok f ∧
      getSymSection env f hsec = .ok (.gnu g symH strOff) ∧
      GnuObserved env f.S bytes d.le d.cls g symH strOff es names t.symoffset := by
  simp only [gnuFileWf, symFileWf, Bool.and_eq_true] at hwf
  obtain ⟨⟨⟨hz, hsym⟩, hlk⟩, ht⟩ := hwf
  have F := symtabAt_unpack hsym
  have G := linkedAt_unpack hlk
  obtain ⟨hdr, st, X, hopen⟩ := file_setup hz hl (Nat.lt_of_le_of_lt (Nat.zero_le _) F.hi)
  obtain ⟨-, L⟩ := getSymSection_symtab X F
  obtain ⟨g, hget, h2, h3, h4⟩ := getSymSection_gnu X F G ht
  rw [C01.specStructs_eq, C01.specMachineClass_eq]
  exact ⟨_, g, _, _, hopen, hget, gnu_observed env d.mclass d.solaris d.core L t ht g h2 h3 h4⟩

/-- what `GnuObserved` says of present and absent names (soundness, completeness) -/
theorem gnu_observed_sound_complete {env : Env} {S : ElfStructs} {data : Bytes} {le : Bool} {cls : Nat} {g : GnuHash}
    {symH : SecHdr} {strOff : Nat} {es : List SymE} {names : List Bytes} {so : Nat} (hso : so ≤ names.length)
    (O : GnuObserved env S data le cls g symH strOff es names so) (name : Bytes) :
    ∃ r, gnuHashGetSymbol le cls data g (getSymbol S env data symH strOff) name = .ok r ∧
      (∀ s, r = some s → ∃ j, so ≤ j ∧ j < names.length ∧ names.getD j [] = name ∧ s = symObs env.enumDecode cls es names j) ∧
      (r = none → ∀ i, so ≤ i → i < names.length → names.getD i [] ≠ name) := by
  refine ⟨_, O.2 name, ?_, ?_⟩
  · intro s hs
    obtain ⟨j, hj, rfl⟩ := Option.map_eq_some_iff.mp hs
    obtain ⟨h1, h2, h3, _⟩ := firstFrom_spec _ _ _ _ hj
    exact ⟨j, h1, by omega, by simpa using h3, rfl⟩
  · intro hnone i h1 h2 h3
    have hf : gnuFirstNamed names so name = none := by
      cases hf : gnuFirstNamed names so name with
      | none => rfl
      | some j => rw [hf] at hnone; cases hnone
    refine firstFrom_ne_none (fun i => names.getD i [] == name) (names.length - so) so (i - so) (by omega) ?_ hf
    rw [show so + (i - so) = i by omega]; simpa using h3

/-- SUNW SYMINFO SECTION of a whole file: entries 1 … k−1 in order, each with the name of the same-numbered
    symbol of the symbol table `sh_link` designates -/
theorem syminfo_file_exact (env : Env) (d : ElfDesc) (bytes : Bytes) (isec sec : Nat) (es : List SymE)
    (names : List Bytes) (si : List (Nat × Nat)) (hwf : syminfoFileWf env d isec sec es names si = true)
    (hl : Layout d bytes) :
    ∃ f h symH strOff, openElf env C01.specStructs C01.specMachineClass bytes = .ok f ∧
      getSymSection env f isec = .ok (.syminfo h symH strOff) ∧
      SyminfoObserved env f.S bytes h symH strOff si names := by
  simp only [syminfoFileWf, symFileWf, Bool.and_eq_true, decide_eq_true_eq, List.all_eq_true] at hwf
  obtain ⟨⟨⟨⟨⟨⟨hz, hsym⟩, hlk⟩, hent⟩, hsize⟩, hsi⟩, hle⟩ := hwf
  have F := symtabAt_unpack hsym
  have G := linkedAt_unpack hlk
  obtain ⟨hdr, st, X, hopen⟩ := file_setup hz hl (Nat.lt_of_le_of_lt (Nat.zero_le _) F.hi)
  obtain ⟨-, L⟩ := getSymSection_symtab X F
  obtain ⟨hget, LS⟩ := getSymSection_syminfo X F G hent hsize hsi
  rw [C01.specStructs_eq, C01.specMachineClass_eq]
  exact ⟨_, _, _, _, hopen, hget, Proofs.C03.syminfoNum_ok LS,
    Proofs.C03.syminfoIter_ok env d.mclass d.solaris d.core L LS hle⟩

/-- EXTENDED SECTION INDEX TABLE of a whole file: `get_section(xsec)` is a SymbolTableIndexSection whose
    `symboltable` attribute is the number in `sh_link` — ANY number: the constructor does not look at what it
    designates — and `get_section_index(n)` is the `n`-th word -/
theorem shndx_file_exact (env : Env) (d : ElfDesc) (bytes : Bytes) (xsec target : Nat) (ws : List Nat)
    (hwf : shndxFileWf env d xsec target ws = true) (hl : Layout d bytes) :
    ∃ f h, openElf env C01.specStructs C01.specMachineClass bytes = .ok f ∧
      getSymSection env f xsec = .ok (.shndx h target) ∧
      ∀ n (hn : n < ws.length), getSectionIndex f.S env bytes h n = .ok (.int ws[n]) := by
  simp only [shndxFileWf, Bool.and_eq_true, decide_eq_true_eq, List.all_eq_true] at hwf
  obtain ⟨⟨⟨hz, hlk⟩, hent⟩, hws⟩ := hwf
  have G := linkedAt_unpack hlk
  obtain ⟨hdr, st, X, hopen⟩ := file_setup hz hl (Nat.lt_of_le_of_lt (Nat.zero_le _) G.hi)
  obtain ⟨hget, hidx⟩ := getSymSection_shndx X G hent hws
  rw [C01.specStructs_eq, C01.specMachineClass_eq]
  exact ⟨_, _, hopen, hget, hidx⟩

/-- `get_section_by_name(name)` is `get_section` of the last section bearing the name, `None` when no section
    bears it (C01's `lookup_exact`, composed): every theorem above also holds through the name — `.dynsym`,
    `.symtab`, `.hash`, `.gnu.hash`, … — of the section -/
theorem by_name_section_exact (env : Env) (d : ElfDesc) (bytes : Bytes) (obs : ElfObs) (f : ElfFile)
    (hwf : d.wfZ env = true) (hl : Layout d bytes) (ho : d.observe env = .ok obs)
    (hf : openElf env C01.specStructs C01.specMachineClass bytes = .ok f) (name : Bytes) :
    getSymSectionByName env f name =
      match d.indexOfName name with
      | none => .ok none
      | some i => (getSymSection env f i).map some := by
  rw [C01.specStructs_eq, C01.specMachineClass_eq] at hf
  exact getSymSectionByName_eq hwf hl ho hf name

/-- in particular the symbol table by its name -/
theorem symtab_file_by_name_exact (env : Env) (d : ElfDesc) (bytes : Bytes) (obs : ElfObs) (sec : Nat) (es : List SymE)
    (names : List Bytes) (hwf : symFileWf env d sec es names = true) (hl : Layout d bytes)
    (ho : d.observe env = .ok obs) (name : Bytes) (hname : d.indexOfName name = some sec) :
    ∃ f h strOff, openElf env C01.specStructs C01.specMachineClass bytes = .ok f ∧
      getSymSectionByName env f name = .ok (some (.symtab h strOff)) ∧
      SymtabObserved env f.S bytes d.cls h strOff es names := by
  obtain ⟨f, h, strOff, hf, hget, hobs⟩ := symtab_file_exact env d bytes sec es names hwf hl
  have hz : d.wfZ env = true := by
    simp only [symFileWf, Bool.and_eq_true] at hwf
    exact hwf.1
  refine ⟨f, h, strOff, hf, ?_, hobs⟩
  rw [by_name_section_exact env d bytes obs f hz hl ho hf name, hname]
  simp only [hget]
  rfl

/-- and a name no section bears gives `None` -/
theorem by_name_absent (env : Env) (d : ElfDesc) (bytes : Bytes) (obs : ElfObs) (f : ElfFile)
    (hwf : d.wfZ env = true) (hl : Layout d bytes) (ho : d.observe env = .ok obs)
    (hf : openElf env C01.specStructs C01.specMachineClass bytes = .ok f) (name : Bytes)
    (hname : d.indexOfName name = none) : getSymSectionByName env f name = .ok none := by
  rw [by_name_section_exact env d bytes obs f hwf hl ho hf name, hname]

/-- the whole-file symbol table theorem with everything regenerated from the library on this run: the
    factory that opens the file, the bundle the table is read with, the code tables -/
theorem symtab_file_exact_generated (d : ElfDesc) (bytes : Bytes) (sec : Nat) (es : List SymE) (names : List Bytes)
    (hwf : symFileWf Model.elfEnv d sec es names = true) (hl : Layout d bytes) :
    ∃ f h strOff, openElf Model.elfEnv Model.elfStructsFor Model.machineClassOf bytes = .ok f ∧
      getSymSection Model.elfEnv f sec = .ok (.symtab h strOff) ∧
      SymtabObserved Model.elfEnv f.S bytes d.cls h strOff es names := by
  rw [open_generated]
  exact symtab_file_exact Model.elfEnv d bytes sec es names hwf hl

theorem sysv_file_exact_generated (d : ElfDesc) (bytes : Bytes) (hsec sec : Nat) (es : List SymE) (names : List Bytes)
    (t : SysVTable) (hwf : sysvFileWf Model.elfEnv d hsec sec es names t = true) (hl : Layout d bytes) :
    ∃ f params symH strOff, openElf Model.elfEnv Model.elfStructsFor Model.machineClassOf bytes = .ok f ∧
      getSymSection Model.elfEnv f hsec = .ok (.sysv params symH strOff) ∧
      SysvObserved Model.elfEnv f.S bytes d.cls params symH strOff es names := by
  rw [open_generated]
  exact sysv_file_exact Model.elfEnv d bytes hsec sec es names t hwf hl

theorem gnu_file_exact_generated (d : ElfDesc) (bytes : Bytes) (hsec sec : Nat) (es : List SymE) (names : List Bytes)
    (t : GnuTable) (hwf : gnuFileWf Model.elfEnv d hsec sec es names t = true) (hl : Layout d bytes) :
    ∃ f g symH strOff, openElf Model.elfEnv Model.elfStructsFor Model.machineClassOf bytes = .ok f ∧
      getSymSection Model.elfEnv f hsec = .ok (.gnu g symH strOff) ∧
      GnuObserved Model.elfEnv f.S bytes d.le d.cls g symH strOff es names t.symoffset := by
  rw [open_generated]
  exact gnu_file_exact Model.elfEnv d bytes hsec sec es names t hwf hl

theorem syminfo_file_exact_generated (d : ElfDesc) (bytes : Bytes) (isec sec : Nat) (es : List SymE)
    (names : List Bytes) (si : List (Nat × Nat)) (hwf : syminfoFileWf Model.elfEnv d isec sec es names si = true)
    (hl : Layout d bytes) :
    ∃ f h symH strOff, openElf Model.elfEnv Model.elfStructsFor Model.machineClassOf bytes = .ok f ∧
      getSymSection Model.elfEnv f isec = .ok (.syminfo h symH strOff) ∧
      SyminfoObserved Model.elfEnv f.S bytes h symH strOff si names := by
  rw [open_generated]
  exact syminfo_file_exact Model.elfEnv d bytes isec sec es names si hwf hl

theorem shndx_file_exact_generated (d : ElfDesc) (bytes : Bytes) (xsec target : Nat) (ws : List Nat)
    (hwf : shndxFileWf Model.elfEnv d xsec target ws = true) (hl : Layout d bytes) :
    ∃ f h, openElf Model.elfEnv Model.elfStructsFor Model.machineClassOf bytes = .ok f ∧
      getSymSection Model.elfEnv f xsec = .ok (.shndx h target) ∧
      ∀ n (hn : n < ws.length), getSectionIndex f.S Model.elfEnv bytes h n = .ok (.int ws[n]) := by
  rw [open_generated]
  exact shndx_file_exact Model.elfEnv d bytes xsec target ws hwf hl


/-! Non-vacuity of the whole-file hypotheses, with the regenerated environment `Model.elfEnv`.  As in
   C01/C09/C15 a kernel-checked `example` is not available (`ElfDesc.wfZ` goes through `Con.encodeRaw` /
   `Con.decodeRaw`, compiled by well-founded recursion, which do not reduce in the kernel); instead a concrete
   image is evaluated at build time by `#guard` (the build fails if it does not satisfy the hypotheses), and the
   driver evaluates the same predicates on every description of the run's `file` stream (`file:<kind>:wf`;
   the run aborts if it finds none). -/

open PyElf.Proofs.C15 (nDynstr nVer nShstr nDynsym) in
/-- a 32-bit image in which every table PRECEDES or FOLLOWS the table it links to in no particular order:
    null, `.v` = the SysV hash table (linked to section 4), `.dynstr`, `.s` = the section names, `.dynsym` (two
    entries, linked to 2), then a GNU hash table, a syminfo table and an extended index table, all linked to 4
    and all named `.v` -/
def exSymFile : ElfDesc :=
  exImage 32 true
    [{ name := [], nameOff := 0, ty := 0 },
     { name := nVer, nameOff := 9, ty := 5, link := 4, entsize := 4, body := some (encSysV true (buildSysV [[], [0x61]] 1)) },
     { name := nDynstr, nameOff := 1, ty := 3, body := some [0, 0x61, 0] },
     { name := nShstr, nameOff := 12, ty := 3, body := some PyElf.Proofs.C15.exNames },
     { name := nDynsym, nameOff := 15, ty := 11, link := 2, info := 1, entsize := 16,
       body := some (encSymtab true 32 0 [exE0, exE1]) },
     { name := nVer, nameOff := 9, ty := 0x6ffffff6, link := 4, body := some (encGnu true 32 (buildGnu 32 [[], [0x61]] 1 1 1 5)) },
     { name := nVer, nameOff := 9, ty := 0x6ffffffc, link := 4, entsize := 4,
       body := some (encSyminfo true [(0, 0), (0xffff, 5)]) },
     { name := nVer, nameOff := 9, ty := 18, link := 4, entsize := 4, body := some (encShndx true [7, 0x12345]) }] 3

#guard symFileWf Model.elfEnv exSymFile 4 [exE0, exE1] [[], [0x61]]
#guard sysvFileWf Model.elfEnv exSymFile 1 4 [exE0, exE1] [[], [0x61]] (buildSysV [[], [0x61]] 1)
#guard gnuFileWf Model.elfEnv exSymFile 5 4 [exE0, exE1] [[], [0x61]] (buildGnu 32 [[], [0x61]] 1 1 1 5)
#guard syminfoFileWf Model.elfEnv exSymFile 6 4 [exE0, exE1] [[], [0x61]] [(0, 0), (0xffff, 5)]
#guard shndxFileWf Model.elfEnv exSymFile 7 4 [7, 0x12345]
#guard (exSymFile.observe Model.elfEnv).toOption.isSome && exSymFile.indexOfName PyElf.Proofs.C15.nDynsym == some 4
  && exSymFile.indexOfName PyElf.Proofs.C15.nVer == some 7 && (exSymFile.assemble 3).isSome


/-! ## sections whose `sh_link` is not what the gABI requires (fifth wave, task 1)

  What `ELFFile.get_section(sec)` does — error class, or silent acceptance — when the section's link does
  not designate a table of the required type, exactly as `_make_symbol_table_section`,
  `_make_sunwsyminfo_table_section`, `_make_elf_hash_section`, `_make_gnu_hash_section` (through
  `_get_linked_strtab_section` / `_get_linked_symtab_section`) and `_make_symbol_table_index_section` have
  it.  Domain: `wfZCore` (Spec/SymbolsFile.lean) — C01's `wfZ` WITHOUT the clause that every section be
  interpretable: the container is sound, every section's link / entry size / contents are arbitrary.
  `linkVerdict` (Spec/SymbolsFile.lean) classifies the link of section `sec` from the description alone:

    * symbol tables (SHT_SYMTAB, SHT_DYNSYM, SHT_SUNW_LDYNSYM) must name an SHT_STRTAB section;
      syminfo, SysV hash and GNU hash sections must name an SHT_SYMTAB or SHT_DYNSYM section
      (an SHT_SUNW_LDYNSYM table is NOT accepted as the symbol table of a hash / syminfo section);
    * `.wrongType l`: section `l` exists and has another type (SHT_NOBITS, SHT_PROGBITS, SHT_NULL, an unnamed
      type code, the section itself, …)  → ELFError (`link_wrong_type_error`);
    * `.outOfRange l`: `l ≥ e_shnum`.  The code does not compare `l` with the section count; it reads a header
      at `e_shoff + l·e_shentsize`: beyond the end of the file `_get_section_header` answers `None`, which the
      type check subscripts → TypeError (`link_beyond_file_error`); an entry that starts inside the file but
      does not fit → ELFParseError (`link_truncated_header_error`); otherwise the stray bytes found there are
      taken for the linked header (silently accepted as far as the range is concerned) and judged by their
      `sh_type` like any header (`link_stray_header_wrong_type_error`);
    * `.linked l` with the linked symbol table's own link bad: the inner error surfaces
      (`link_nested_wrong_type_error`, `link_nested_beyond_file_error`);
    * `.unchecked`: SHT_SYMTAB_SHNDX — the constructor keeps `sh_link` as a number and never looks at what it
      designates: ANY value is silently accepted (`shndx_file_exact`, whose `target` is unconstrained).

  In every case the guard runs BEFORE `Section.__init__` and the `sh_entsize` asserts of
  `SymbolTableSection.__init__` (nothing about them is assumed here), and the error is raised by
  `get_section` itself, not by a later use of the object. -/

open PyElf.Proofs.C03L in
/-- the link designates an existing section of the wrong type: ELFError -/
theorem link_wrong_type_error (env : Env) (d : ElfDesc) (bytes : Bytes) (sec l : Nat)
    (hwf : wfZCore env d = true) (hl : Layout d bytes) (hv : linkVerdict env d sec = some (.wrongType l)) :
    ∃ f, openElf env C01.specStructs C01.specMachineClass bytes = .ok f ∧
      getSymSection env f sec = .error .elfError := by
  obtain ⟨l', g, V, hcase⟩ := verdict_unpack hv (by intro h; cases h)
  rcases hcase with ⟨h, _⟩ | ⟨h, lh, hldec, hbad⟩ | ⟨h, _⟩ <;> cases h
  obtain ⟨hdr, st, X, hopen⟩ := core_setup hwf hl (Nat.lt_of_le_of_lt (Nat.zero_le _) V.hi)
  rw [C01.specStructs_eq, C01.specMachineClass_eq]
  exact ⟨_, hopen, getSymSection_of_guardErr X V (guard_wrongType X g hldec hbad 3)⟩

open PyElf.Proofs.C03L in
/-- the link designates no section and the entry it would be lies beyond the end of the file: TypeError
    (`None['sh_type']`) — not ELFError, not IndexError -/
theorem link_beyond_file_error (env : Env) (d : ElfDesc) (bytes : Bytes) (sec l : Nat)
    (hwf : wfZCore env d = true) (hl : Layout d bytes) (hv : linkVerdict env d sec = some (.outOfRange l))
    (hb : bytes.length < d.shoff + l * d.shentsize) :
    ∃ f, openElf env C01.specStructs C01.specMachineClass bytes = .ok f ∧
      getSymSection env f sec = .error .typeError := by
  obtain ⟨l', g, V, hcase⟩ := verdict_unpack hv (by intro h; cases h)
  rcases hcase with ⟨h, _⟩ | ⟨h, _⟩ | ⟨h, _⟩ <;> cases h
  have hn : 0 < d.sections.length := Nat.lt_of_le_of_lt (Nat.zero_le _) V.hi
  obtain ⟨hdr, st, X, hopen⟩ := core_setup hwf hl hn
  rw [C01.specStructs_eq, C01.specMachineClass_eq]
  exact ⟨_, hopen, getSymSection_of_guardErr X V (guard_beyond X g hn hb 3)⟩

open PyElf.Proofs.C03L in
/-- the entry the link would designate starts inside the file but does not fit before its end: ELFParseError -/
theorem link_truncated_header_error (env : Env) (d : ElfDesc) (bytes : Bytes) (sec l : Nat)
    (hwf : wfZCore env d = true) (hl : Layout d bytes) (hv : linkVerdict env d sec = some (.outOfRange l))
    (h1 : d.shoff + l * d.shentsize ≤ bytes.length)
    (h2 : bytes.length < d.shoff + l * d.shentsize + (16 + 6 * (d.cls / 8))) :
    ∃ f, openElf env C01.specStructs C01.specMachineClass bytes = .ok f ∧
      getSymSection env f sec = .error .elfParseError := by
  obtain ⟨l', g, V, hcase⟩ := verdict_unpack hv (by intro h; cases h)
  rcases hcase with ⟨h, _⟩ | ⟨h, _⟩ | ⟨h, _⟩ <;> cases h
  have hn : 0 < d.sections.length := Nat.lt_of_le_of_lt (Nat.zero_le _) V.hi
  obtain ⟨hdr, st, X, hopen⟩ := core_setup hwf hl hn
  rw [C01.specStructs_eq, C01.specMachineClass_eq]
  exact ⟨_, hopen, getSymSection_of_guardErr X V (guard_truncated X g hn h1 h2 3)⟩

open PyElf.Proofs.C03L in
/-- whatever header `_get_section_header(sh_link)` returns — for an out-of-range link, the stray bytes at
    `e_shoff + l·e_shentsize` — is judged by its `sh_type`: a string-table guard rejects anything but
    SHT_STRTAB, a symbol-table guard anything but SHT_SYMTAB / SHT_DYNSYM, with ELFError -/
theorem link_stray_header_wrong_type_error (env : Env) (d : ElfDesc) (bytes : Bytes) (sec l : Nat)
    (hwf : wfZCore env d = true) (hl : Layout d bytes) (hv : linkVerdict env d sec = some (.outOfRange l))
    (f : ElfFile) (hf : openElf env C01.specStructs C01.specMachineClass bytes = .ok f) (lh t' : Val)
    (hget : getSectionHeader env f.S bytes f.header l = .ok (some lh)) (hty : lh.getField "sh_type" = .ok t')
    (hbad : ∀ s ∈ ["SHT_STRTAB", "SHT_SYMTAB", "SHT_DYNSYM"], isStr t' s = false) :
    getSymSection env f sec = .error .elfError := by
  obtain ⟨l', g, V, hcase⟩ := verdict_unpack hv (by intro h; cases h)
  rcases hcase with ⟨h, _⟩ | ⟨h, _⟩ | ⟨h, _⟩ <;> cases h
  have hn : 0 < d.sections.length := Nat.lt_of_le_of_lt (Nat.zero_le _) V.hi
  obtain ⟨hdr, st, X, hopen⟩ := core_setup hwf hl hn
  rw [C01.specStructs_eq, C01.specMachineClass_eq] at hf
  rw [hopen] at hf
  cases hf
  refine getSymSection_of_guardErr X V ?_
  cases g with
  | strtab => exact linkedStrtabR_wrongType hget hty (hbad _ (by simp))
  | symtab =>
    refine linkedSymtabR_wrongType hget hty ?_
    rw [hbad "SHT_SYMTAB" (by simp), hbad "SHT_DYNSYM" (by simp)]
    rfl

open PyElf.Proofs.C03L in
/-- a hash / syminfo section whose link designates a symbol table of an accepted type whose OWN link
    designates a section of the wrong type: the symbol table cannot be built, ELFError -/
theorem link_nested_wrong_type_error (env : Env) (d : ElfDesc) (bytes : Bytes) (sec l l2 : Nat)
    (hwf : wfZCore env d = true) (hl : Layout d bytes) (hv : linkVerdict env d sec = some (.linked l))
    (hv2 : linkVerdict env d l = some (.wrongType l2)) :
    ∃ f, openElf env C01.specStructs C01.specMachineClass bytes = .ok f ∧
      getSymSection env f sec = .error .elfError := by
  obtain ⟨l', g, V, hcase⟩ := verdict_unpack hv (by intro h; cases h)
  rcases hcase with ⟨h, lh, hldec, hgood⟩ | ⟨h, _⟩ | ⟨h, _⟩ <;> cases h
  obtain ⟨l2', g2, V2, hcase2⟩ := verdict_unpack hv2 (by intro h; cases h)
  rcases hcase2 with ⟨h, _⟩ | ⟨h, lh2, hldec2, hbad2⟩ | ⟨h, _⟩ <;> cases h
  obtain ⟨hdr, st, X, hopen⟩ := core_setup hwf hl (Nat.lt_of_le_of_lt (Nat.zero_le _) V.hi)
  rw [C01.specStructs_eq, C01.specMachineClass_eq]
  refine ⟨_, hopen, getSymSection_of_guardErr X V ?_⟩
  cases g with
  | symtab => exact guard_nested X V2 hldec hgood (guard_wrongType X g2 hldec2 hbad2 2)
  | strtab =>
    -- impossible: a string table has no link guard of its own
    exfalso
    obtain ⟨t, hty, hm⟩ := typeIn_unpack hgood
    simp only [Guard.types, List.mem_cons, List.not_mem_nil, or_false] at hm
    subst hm
    obtain ⟨hv', ty', hdec', hty', hg'⟩ := V2.ty
    rw [hldec] at hdec'
    cases hdec'
    rw [hty] at hty'
    cases hty'
    simp [guardOf] at hg'

open PyElf.Proofs.C03L in
/-- … or designates no section, beyond the end of the file: TypeError -/
theorem link_nested_beyond_file_error (env : Env) (d : ElfDesc) (bytes : Bytes) (sec l l2 : Nat)
    (hwf : wfZCore env d = true) (hl : Layout d bytes) (hv : linkVerdict env d sec = some (.linked l))
    (hv2 : linkVerdict env d l = some (.outOfRange l2)) (hb : bytes.length < d.shoff + l2 * d.shentsize) :
    ∃ f, openElf env C01.specStructs C01.specMachineClass bytes = .ok f ∧
      getSymSection env f sec = .error .typeError := by
  obtain ⟨l', g, V, hcase⟩ := verdict_unpack hv (by intro h; cases h)
  rcases hcase with ⟨h, lh, hldec, hgood⟩ | ⟨h, _⟩ | ⟨h, _⟩ <;> cases h
  obtain ⟨l2', g2, V2, hcase2⟩ := verdict_unpack hv2 (by intro h; cases h)
  rcases hcase2 with ⟨h, _⟩ | ⟨h, _⟩ | ⟨h, _⟩ <;> cases h
  have hn : 0 < d.sections.length := Nat.lt_of_le_of_lt (Nat.zero_le _) V.hi
  obtain ⟨hdr, st, X, hopen⟩ := core_setup hwf hl hn
  rw [C01.specStructs_eq, C01.specMachineClass_eq]
  refine ⟨_, hopen, getSymSection_of_guardErr X V ?_⟩
  cases g with
  | symtab => exact guard_nested X V2 hldec hgood (guard_beyond X g2 hn hb 2)
  | strtab =>
    exfalso
    obtain ⟨t, hty, hm⟩ := typeIn_unpack hgood
    simp only [Guard.types, List.mem_cons, List.not_mem_nil, or_false] at hm
    subst hm
    obtain ⟨hv', ty', hdec', hty', hg'⟩ := V2.ty
    rw [hldec] at hdec'
    cases hdec'
    rw [hty] at hty'
    cases hty'
    simp [guardOf] at hg'

/-- the relaxed domain contains every well-formed description (so the theorems above speak about the same
    files as C01's, plus those with arbitrary links / entry sizes / contents) -/
theorem wfZ_imp_wfZCore (env : Env) (d : ElfDesc) (h : d.wfZ env = true) : wfZCore env d = true :=
  Proofs.C03L.wfZ_imp_wfZCore h

/-- in a well-formed description no link is of the wrong type or out of range: the verdicts `.wrongType` /
    `.outOfRange` and `wfZ` exclude each other (the error theorems are about files outside C01's domain) -/
theorem wfZ_link_verdict (env : Env) (d : ElfDesc) (bytes : Bytes) (sec : Nat) (v : LinkVerdict)
    (hwf : d.wfZ env = true) (hl : Layout d bytes) (hv : linkVerdict env d sec = some v) :
    (∃ l, v = .linked l) ∨ v = .unchecked := by
  by_cases hu : v = .unchecked
  · exact Or.inr hu
  · obtain ⟨l, g, V, hcase⟩ := Proofs.C03L.verdict_unpack hv hu
    obtain ⟨lh, hldec, hgood⟩ := Proofs.C03L.wfZ_guarded_link hwf hl V
    rcases hcase with ⟨h, _⟩ | ⟨_, lh', hldec', hbad⟩ | ⟨_, hge⟩
    · exact Or.inl ⟨l, h⟩
    · rw [hldec] at hldec'
      cases hldec'
      rw [hgood] at hbad
      cases hbad
    · obtain ⟨hlt, _⟩ := decHdr_some hldec
      omega


open PyElf.Proofs.C15 (nDynstr nVer nShstr nDynsym) in
/-- non-vacuity of the bad-link theorems: `exSymFile` with `.dynsym` linked to the null section (wrong type),
    a second symbol table linked to section 99 (out of range; the file ends long before entry 99 of the
    header table), a third linked to itself, and a hash table over an SHT_SUNW_LDYNSYM table -/
def exBadLinkFile : ElfDesc :=
  exImage 32 true
    [{ name := [], nameOff := 0, ty := 0 },
     { name := nVer, nameOff := 9, ty := 5, link := 4, entsize := 4, body := some (encSysV true (buildSysV [[], [0x61]] 1)) },
     { name := nDynstr, nameOff := 1, ty := 3, body := some [0, 0x61, 0] },
     { name := nShstr, nameOff := 12, ty := 3, body := some PyElf.Proofs.C15.exNames },
     { name := nDynsym, nameOff := 15, ty := 11, link := 0, info := 1, entsize := 16,
       body := some (encSymtab true 32 0 [exE0, exE1]) },
     { name := nDynsym, nameOff := 15, ty := 2, link := 99, info := 1, entsize := 0, body := some [1, 2, 3] },
     { name := nDynsym, nameOff := 15, ty := 2, link := 6, info := 1, entsize := 16, body := none },
     { name := nDynsym, nameOff := 15, ty := 0x6ffffff3, link := 2, info := 1, entsize := 16,
       body := some (encSymtab true 32 0 [exE0, exE1]) },
     { name := nVer, nameOff := 9, ty := 0x6ffffff6, link := 7, body := some [] }] 3

#guard wfZCore Model.elfEnv exBadLinkFile && !exBadLinkFile.wfZ Model.elfEnv && (exBadLinkFile.assemble 0).isSome
#guard linkVerdict Model.elfEnv exBadLinkFile 4 == some (.wrongType 0)          -- `link_wrong_type_error`
#guard linkVerdict Model.elfEnv exBadLinkFile 6 == some (.wrongType 6)          -- its own header is not a string table
#guard linkVerdict Model.elfEnv exBadLinkFile 8 == some (.wrongType 7)          -- SHT_SUNW_LDYNSYM under a hash table
#guard linkVerdict Model.elfEnv exBadLinkFile 5 == some (.outOfRange 99)        -- `link_beyond_file_error` …
#guard ((exBadLinkFile.assemble 0).map fun b => decide (b.length < exBadLinkFile.shoff + 99 * exBadLinkFile.shentsize)) == some true
#guard linkVerdict Model.elfEnv exBadLinkFile 1 == some (.linked 4)             -- `link_nested_wrong_type_error`
#guard linkVerdict Model.elfEnv exBadLinkFile 7 == some (.linked 2) && linkVerdict Model.elfEnv exBadLinkFile 2 == some .unchecked
#guard wfZCore Model.elfEnv exSymFile && linkVerdict Model.elfEnv exSymFile 7 == some .unchecked


/-! ## names that are not valid UTF-8 (fifth wave, task 3)

  `StringTableSection.get_string` returns `s.decode('utf-8', errors='replace')`.  The theorems above carry a
  name as the bytes of the string table, which IS the reported `str` (through its UTF-8 encoding) when the
  bytes are valid UTF-8.  `Model/SymbolsDecoded.lean` makes the decoding explicit — `getSymbolD`,
  `iterSymbolsD`, `getSymbolByNameD` — with `bytes.decode('utf-8', errors='replace')` =
  `Spec.C03.utf8Replace` (Unicode 15 §3.9: every maximal subpart of an ill-formed subsequence becomes one
  U+FFFD; CPython's codec is trusted to implement it and is compared with `utf8Replace` on every run:
  stream `utf8`, and every name of every table of the other streams).  For EVERY byte string found at
  `st_name` the exact reported name is `utf8Replace` of it; the by-name map is keyed by reported names
  (two different byte strings that decode to the same `str` are the same name); hash lookups compare reported
  names.  The driver runs the decoding model. -/

open PyElf.Proofs.C03D PyElf.Proofs.C03U

/-- valid UTF-8 is reported unchanged (so on such tables the decoding model is the raw one) -/
theorem utf8_valid_unchanged (bs : Bytes) (h : validUtf8 bs = true) : utf8Replace bs = bs :=
  utf8Replace_of_valid bs.length bs (Nat.le_refl _) h

/-- every reported name is valid UTF-8 — a `str` — whatever the bytes -/
theorem utf8_reported_valid (bs : Bytes) : validUtf8 (utf8Replace bs) = true :=
  validUtf8_utf8Replace bs.length bs (Nat.le_refl _)

theorem utf8_idempotent (bs : Bytes) : utf8Replace (utf8Replace bs) = utf8Replace bs :=
  utf8_valid_unchanged _ (utf8_reported_valid bs)

/-- the decoding model is the raw model followed by the decoding of the name, on every input -/
theorem get_symbol_decoded_eq (S : ElfStructs) (env : Env) (data : Bytes) (h : SecHdr) (strOff n : Nat) :
    getSymbolD S env data h strOff n = (getSymbol S env data h strOff n).map decSym :=
  getSymbolD_eq S env data h strOff n

section decoded
variable {le : Bool} {cls : Nat} {data : Bytes} {h : SecHdr} {strOff : Nat} {es : List SymE} {names : List Bytes}
variable (env : Env) (m : String) (sol core : Bool)

/-- `get_symbol(i)` reports the name `utf8Replace (names[i])`, for ARBITRARY name bytes -/
theorem get_symbol_decoded_exact (L : SymtabLayout le cls data h strOff es names) (i : Nat) (hi : i < es.length) :
    getSymbolD (Spec.elfStructs ⟨le, cls, m, sol, core⟩) env data h strOff i
      = .ok (symObs env.enumDecode cls es (names.map utf8Replace) i) :=
  layout_getSymbolD env m sol core L i hi

theorem iter_symbols_decoded_exact (L : SymtabLayout le cls data h strOff es names) :
    iterSymbolsD (Spec.elfStructs ⟨le, cls, m, sol, core⟩) env data h strOff
      = .ok ((List.range es.length).map (symObs env.enumDecode cls es (names.map utf8Replace))) :=
  layout_iterSymbolsD env m sol core L

/-- `get_symbol_by_name(n)`: exactly the symbols REPORTED under `n`, in index order, or `None` -/
theorem by_name_decoded_exact (L : SymtabLayout le cls data h strOff es names) (name : Bytes) :
    getSymbolByNameD (Spec.elfStructs ⟨le, cls, m, sol, core⟩) env data h strOff name
      = .ok (if byName (names.map utf8Replace) name = [] then none
             else some ((byName (names.map utf8Replace) name).map
                    (symObs env.enumDecode cls es (names.map utf8Replace)))) :=
  layout_byNameD env m sol core L name

/-- on valid UTF-8 names the two models agree: every theorem about `getSymbol` is one about `getSymbolD` -/
theorem get_symbol_decoded_valid (L : SymtabLayout le cls data h strOff es names)
    (hv : ∀ nm ∈ names, validUtf8 nm = true) (i : Nat) (hi : i < es.length) :
    getSymbolD (Spec.elfStructs ⟨le, cls, m, sol, core⟩) env data h strOff i
      = getSymbol (Spec.elfStructs ⟨le, cls, m, sol, core⟩) env data h strOff i :=
  layout_getSymbolD_valid env m sol core L hv i hi

/-- SysV hash lookups through the decoding model, names arbitrary bytes: what is returned is a symbol
    `1 ≤ j < n` reported under the requested name; a requested name that is a valid string and the name (as
    bytes) of a symbol `1 ≤ i < n` is found; a name under which no symbol is reported is not.
    (A symbol whose name bytes are NOT valid UTF-8 sits on the chain of the hash of its bytes; a lookup
    hashes the UTF-8 encoding of the requested string, so such a symbol is found only by accident: its
    reported name is not the name the linker hashed.  The property's names are strings.) -/
theorem sysv_lookup_decoded (L : SymtabLayout le cls data h strOff es names) (t : SysVTable)
    (hwf : WFSysV names t = true) (name : Bytes) :
    ∃ r, elfHashGetSymbol (sysvParams t) (getSymbolD (Spec.elfStructs ⟨le, cls, m, sol, core⟩) env data h strOff) name
          = .ok r ∧
      (∀ s, r = some s → ∃ j, 1 ≤ j ∧ j < es.length ∧ utf8Replace (names.getD j []) = name ∧
          s = symObs env.enumDecode cls es (names.map utf8Replace) j) ∧
      (validUtf8 name = true → (∃ i, 1 ≤ i ∧ i < es.length ∧ names.getD i [] = name) → r ≠ none) ∧
      ((∀ i, 1 ≤ i → i < es.length → utf8Replace (names.getD i []) ≠ name) → r = none) := by
  have hl := L.nlen
  have hget : ∀ j, j < names.length →
      getSymbolD (Spec.elfStructs ⟨le, cls, m, sol, core⟩) env data h strOff j
        = .ok (symObs env.enumDecode cls es (names.map utf8Replace) j) :=
    fun j hj => layout_getSymbolD env m sol core L j (by omega)
  have hname : ∀ j, j < names.length →
      (symObs env.enumDecode cls es (names.map utf8Replace) j).2 = utf8Replace (names.getD j []) :=
    fun j _ => getD_map_utf8 names j
  obtain ⟨r, hr, hs⟩ := sysv_sound_decoded names t _ _ name hwf hget hname
  refine ⟨r, hr, ?_, ?_, ?_⟩
  · intro s hsome
    obtain ⟨j, a, b, c, e⟩ := hs s hsome
    exact ⟨j, a, by omega, c, e⟩
  · intro hv ⟨i, hi1, hin, hnm⟩ hnone
    obtain ⟨j, _, _, _, hj⟩ := sysv_complete_decoded names t _ _ name hwf hget hname hv i hi1 (by omega) hnm
    rw [hj] at hr
    cases hr
    cases hnone
  · intro habs
    have := sysv_absent_decoded names t _ _ name hwf hget hname (fun i a b => habs i a (by omega))
    rw [this] at hr
    cases hr
    rfl

end decoded

/-- everything the property says of a SymbolTableSection, with names as Python reports them -/
def SymtabObservedD (env : Env) (S : ElfStructs) (data : Bytes) (cls : Nat) (h : SecHdr) (strOff : Nat)
    (es : List SymE) (names : List Bytes) : Prop :=
  numSymbols h = .ok es.length ∧
  (∀ i, i < es.length → getSymbolD S env data h strOff i
      = .ok (symObs env.enumDecode cls es (names.map utf8Replace) i)) ∧
  iterSymbolsD S env data h strOff
      = .ok ((List.range es.length).map (symObs env.enumDecode cls es (names.map utf8Replace))) ∧
  ∀ name, getSymbolByNameD S env data h strOff name
    = .ok (if byName (names.map utf8Replace) name = [] then none
           else some ((byName (names.map utf8Replace) name).map (symObs env.enumDecode cls es (names.map utf8Replace))))

/-- the symbol table of a whole file with ARBITRARY name bytes, through `get_section(sec)`, regenerated
    factory / bundle / code tables: count, every entry with its reported name, enumeration, lookup by
    reported name -/
theorem symtab_file_decoded_exact_generated (d : ElfDesc) (bytes : Bytes) (sec : Nat) (es : List SymE)
    (names : List Bytes) (hwf : symFileWf Model.elfEnv d sec es names = true) (hl : Layout d bytes) :
    ∃ f h strOff, openElf Model.elfEnv Model.elfStructsFor Model.machineClassOf bytes = .ok f ∧
      getSymSection Model.elfEnv f sec = .ok (.symtab h strOff) ∧
      SymtabObservedD Model.elfEnv f.S bytes d.cls h strOff es names := by
  rw [open_generated]
  simp only [symFileWf, Bool.and_eq_true] at hwf
  have F := symtabAt_unpack hwf.2
  obtain ⟨hdr, st, X, hopen⟩ := file_setup hwf.1 hl (Nat.lt_of_le_of_lt (Nat.zero_le _) F.hi)
  obtain ⟨hget, L⟩ := getSymSection_symtab X F
  rw [C01.specStructs_eq, C01.specMachineClass_eq]
  exact ⟨_, _, _, hopen, hget, layout_numSymbols L,
    fun i hi => layout_getSymbolD Model.elfEnv d.mclass d.solaris d.core L i hi,
    layout_iterSymbolsD Model.elfEnv d.mclass d.solaris d.core L,
    fun name => layout_byNameD Model.elfEnv d.mclass d.solaris d.core L name⟩

/-! non-vacuity: byte patterns of every kind the run generates, and a table with such a name -/
#guard utf8Replace [0x61, 0xff, 0xe2, 0x82, 0x41, 0xf0, 0x9f, 0x98, 0x80, 0xed, 0xa0, 0x80, 0xc3]
  == [0x61] ++ replChar ++ replChar ++ [0x41, 0xf0, 0x9f, 0x98, 0x80] ++ replChar ++ replChar ++ replChar ++ replChar
#guard utf8Replace [0xc0, 0x80] == replChar ++ replChar && utf8Replace [0xf4, 0x90, 0x80, 0x80] == replChar ++ replChar ++ replChar ++ replChar
  && utf8Replace [0xf0, 0x9f, 0x98] == replChar && utf8Replace [0xe2, 0x82] == replChar && utf8Replace [0xc3, 0xa9] == [0xc3, 0xa9]
  && !validUtf8 [0xff] && validUtf8 (utf8Replace [0xff])

/-- two entries; the second is named by the single byte `ff` -/
def exDataU : Bytes := encSymtab true 32 0 [exE0, exE1] ++ [0, 0xff, 0]

theorem ex_layout_u : SymtabLayout true 32 exDataU ⟨0, 32, 16⟩ 32 [exE0, exE1] [[], [0xff]] where
  hcls := Or.inl rfl
  entpos := by decide
  size := by decide
  nlen := rfl
  wf := by
    intro i hi
    match i, hi with
    | 0, _ => show exE0.WF 32 = true; decide
    | 1, _ => show exE1.WF 32 = true; decide
  entry := by
    intro i hi
    match i, hi with
    | 0, _ => exact ⟨encSym true 32 exE1 ++ [0, 0xff, 0], by show List.drop 0 exDataU = encSym true 32 exE0 ++ _; decide⟩
    | 1, _ => exact ⟨[0, 0xff, 0], by show List.drop 16 exDataU = encSym true 32 exE1 ++ _; decide⟩
  name := by
    intro i hi
    match i, hi with
    | 0, _ => show strAt (List.drop 32 exDataU) 0 = some []; decide
    | 1, _ => show strAt (List.drop 32 exDataU) 1 = some [0xff]; decide

/-- … it is reported as U+FFFD and found under that name, not under its bytes -/
example (env : Env) (m : String) (sol core : Bool) :
    getSymbolByNameD (Spec.elfStructs ⟨true, 32, m, sol, core⟩) env exDataU ⟨0, 32, 16⟩ 32 [0xff]
      = .ok (if byName ([[], [0xff]].map utf8Replace) [0xff] = [] then none
             else some ((byName ([[], [0xff]].map utf8Replace) [0xff]).map
                    (symObs env.enumDecode 32 [exE0, exE1] ([[], [0xff]].map utf8Replace)))) :=
  by_name_decoded_exact env m sol core ex_layout_u [0xff]
#guard byName ([[], [0xff]].map utf8Replace) [0xff] == [] && byName ([[], [0xff]].map utf8Replace) replChar == [1]


/-! ### the extended section index of a symbol: the companion table found through `sh_link` -/

/-- how a client finds the SHT_SYMTAB_SHNDX table of symbol table `symIdx` (scripts/readelf.py: a dict
    `symboltable → section` over `iter_sections()`): it is the LAST index table whose `sh_link` is `symIdx`,
    nothing when there is none — for every well-formed image -/
theorem shndx_companion_exact (env : Env) (d : ElfDesc) (bytes : Bytes) (obs : ElfObs) (f : ElfFile)
    (hwf : d.wfZ env = true) (hl : Layout d bytes) (ho : d.observe env = .ok obs)
    (hf : openElf env C01.specStructs C01.specMachineClass bytes = .ok f) (symIdx : Nat) :
    shndxCompanion env f symIdx
      = .ok ((shndxTablesFor env d symIdx).getLast?.map fun i => (i, rawSecHdr d i)) := by
  rw [C01.specStructs_eq, C01.specMachineClass_eq] at hf
  exact shndxCompanion_eq hwf hl ho hf symIdx

/-- … and through it the extended section index of every symbol: when `xsec` is that last table and holds the
    words `ws`, the companion found by the scan answers `get_section_index(n) = ws[n]` -/
theorem shndx_companion_reads (env : Env) (d : ElfDesc) (bytes : Bytes) (obs : ElfObs) (xsec sec : Nat) (ws : List Nat)
    (hwf : shndxFileWf env d xsec sec ws = true) (hl : Layout d bytes) (ho : d.observe env = .ok obs)
    (hlast : (shndxTablesFor env d sec).getLast? = some xsec) :
    ∃ f h, openElf env C01.specStructs C01.specMachineClass bytes = .ok f ∧
      shndxCompanion env f sec = .ok (some (xsec, h)) ∧
      ∀ n (hn : n < ws.length), getSectionIndex f.S env bytes h n = .ok (.int ws[n]) := by
  have hwf' := hwf
  simp only [shndxFileWf, Bool.and_eq_true, decide_eq_true_eq, List.all_eq_true] at hwf'
  obtain ⟨⟨⟨hz, hlk⟩, hent⟩, hws⟩ := hwf'
  have G := linkedAt_unpack hlk
  obtain ⟨hdr, st, X, hopen⟩ := file_setup hz hl (Nat.lt_of_le_of_lt (Nat.zero_le _) G.hi)
  obtain ⟨-, hidx⟩ := getSymSection_shndx X G hent hws
  have hc := shndxCompanion_eq hz hl ho hopen sec
  rw [hlast] at hc
  rw [C01.specStructs_eq, C01.specMachineClass_eq]
  exact ⟨_, _, hopen, hc, hidx⟩

#guard shndxTablesFor Model.elfEnv exSymFile 4 == [7] && shndxTablesFor Model.elfEnv exSymFile 2 == []


/-- closing the hypothesis `symtabAt` over BUILT images: a section holding the entries `encSymtab` lays out for
    ANY symbol list (NUL-free names — valid UTF-8 or not —, fields in range, any padding), linked to a section
    holding the string table `buildStrtab` builds (shared or unshared), each followed by arbitrary slack, IS a
    symbol table in the sense of `symtabAt`; with `wfZ` of the container this is `symFileWf`, so
    `symtab_file_exact` / `sysv_file_built_exact` / `gnu_file_exact` (with `buildGnu_wf`) apply to every image
    built from a symbol list — nothing about the contents remains a hypothesis -/
theorem built_symtab_at (env : Env) (d : ElfDesc) (sec pad : Nat) (share : Bool) (syms : List (Bytes × SymE))
    (slack slack2 : Bytes) (hcls : d.cls = 32 ∨ d.cls = 64)
    (hnul : ∀ s ∈ syms, (0 : UInt8) ∉ s.1) (hwf : ∀ s ∈ syms, s.2.WF d.cls = true)
    (hlen : (buildStrtab share (syms.map (·.1))).1.length < 2 ^ 32)
    (hi : sec < d.sections.length)
    (hty : ∃ h, d.decHdr env sec = some h ∧ typeIn h ["SHT_SYMTAB", "SHT_DYNSYM", "SHT_SUNW_LDYNSYM"] = true)
    (hent : getNatD (d.sections[sec]).hdr "sh_entsize" = symSize d.cls + pad)
    (hsize : getNatD (d.sections[sec]).hdr "sh_size" = syms.length * (symSize d.cls + pad))
    (hbody : bodyOf (d.sections[sec])
      = encSymtab d.le d.cls pad (builtEntries syms (buildStrtab share (syms.map (·.1))).2) ++ slack)
    (hlink : getNatD (d.sections[sec]).hdr "sh_link" < d.sections.length)
    (hstr : bodyOf (d.sections[getNatD (d.sections[sec]).hdr "sh_link"])
      = (buildStrtab share (syms.map (·.1))).1 ++ slack2) :
    symtabAt env d sec (builtEntries syms (buildStrtab share (syms.map (·.1))).2) (syms.map (·.1)) = true :=
  built_symtabAt env d sec pad share syms slack slack2 hcls hnul hwf hlen hi hty hent hsize hbody hlink hstr

/-- non-vacuity: `exSymFile`'s symbol table is such a built one (two symbols, `buildStrtab` of their names) -/
example : buildStrtab false [[], [0x61]] = ([0, 0x61, 0], [0, 1])
    ∧ builtEntries [([], exE0), ([0x61], { exE1 with stName := 0 })] [0, 1] = [exE0, exE1] := by decide


/-- GNU hash lookups through the decoding model on a table whose names are valid UTF-8 (strings): exactly as
    `gnu_lookup_exact` — the first hashed symbol bearing the name, or `None` -/
theorem gnu_lookup_decoded_valid {le : Bool} {cls : Nat} {data : Bytes} {h : SecHdr} {strOff : Nat} {es : List SymE}
    {names : List Bytes} (env : Env) (m : String) (sol core : Bool)
    (L : SymtabLayout le cls data h strOff es names) (hv : ∀ nm ∈ names, validUtf8 nm = true)
    (t : GnuTable) (hwf : WFGnu cls names t = true) (g : GnuHash) (hg : g.params = gnuParams t) (hws : g.wordsize = 4)
    (hread : ∀ k (hk : k < t.chain.length), readHashWord le data (g.chainPos + k * 4) = .ok t.chain[k])
    (name : Bytes) :
    gnuHashGetSymbol le cls data g (getSymbolD (Spec.elfStructs ⟨le, cls, m, sol, core⟩) env data h strOff) name
      = .ok ((gnuFirstNamed names t.symoffset name).map (symObs env.enumDecode cls es names)) := by
  have hl := L.nlen
  refine gnuHashGetSymbol_eq cls names t le data g _ _ name hwf hg hws hread (fun j hj => ?_) (fun _ _ => rfl)
  rw [layout_getSymbolD env m sol core L j (by omega), map_utf8Replace_valid names hv]


/-- non-vacuity of `Layout` in the relaxed domain, for every description: the image the Spec assembler produces
    (what the run's `link` stream feeds the library) carries the description -/
theorem assemble_layout_core (env : Env) (d : ElfDesc) (tail : Nat) (bytes : Bytes)
    (hwf : wfZCore env d = true) (h : d.assemble tail = some bytes) : Layout d bytes :=
  Proofs.C03L.assemble_layout_core hwf h

/-! ### the cache `_symbol_name_map` -/

/-- symtab_by_name_history_independent.  For ANY section bytes: after ANY history of `get_symbol_by_name` calls on one
    `SymbolTableSection` object — repeated names, absent names, calls whose walk raised — every answer is the stateless
    `getSymbolByName` (the function the by-name exactness theorems are about).  The harness asks all the names of a case
    on ONE section object and compares each answer with the stateless model and with the description. -/
theorem symtab_by_name_history_independent (S : ElfStructs) (env : Env) (data : Bytes) (h : SecHdr) (strOff : Nat)
    (qs : List Bytes) :
    (symByNameHist S env data h strOff qs).1 = qs.map (getSymbolByName S env data h strOff) := by
  unfold symByNameHist
  rw [(Proofs.SigCache.run_answers _ _ _ _ (Proofs.SigCache.inv_init _)).1]
  apply List.map_congr_left
  intro q _
  unfold Model.SigCache.stateless symNameScan getSymbolByName
  cases iterSymbols S env data h strOff <;> rfl

/-- composed with `by_name_exact`: on every laid-out symbol table, after ANY history of `get_symbol_by_name` calls on
    one section object, each answer is `None` iff no symbol bears the name, else exactly the symbols bearing it in index
    order -/
theorem by_name_exact_any_history {le : Bool} {cls : Nat} {data : Bytes} {h : SecHdr} {strOff : Nat} {es : List SymE}
    {names : List Bytes} (env : Env) (m : String) (sol core : Bool) (L : SymtabLayout le cls data h strOff es names)
    (qs : List Bytes) :
    (symByNameHist (Spec.elfStructs ⟨le, cls, m, sol, core⟩) env data h strOff qs).1
      = qs.map (fun name => .ok (if byName names name = [] then none
                                 else some ((byName names name).map (symObs env.enumDecode cls es names)))) := by
  rw [symtab_by_name_history_independent]
  exact List.map_congr_left (fun q _ => by_name_exact env m sol core L q)

/-- a walk that raised publishes no map (the defect class of the half-built `defaultdict`) -/
theorem symtab_failed_walk_publishes_nothing (S : ElfStructs) (env : Env) (data : Bytes) (h : SecHdr) (strOff : Nat)
    (e : Err) (he : iterSymbols S env data h strOff = .error e) (qs : List Bytes) :
    (symByNameHist S env data h strOff qs).2.map.isSome = false := by
  unfold symByNameHist
  rw [Proofs.SigCache.run_published]
  unfold symNameScan
  rw [he]
  simp

end PyElf.Props.C03
