/-
  C03 — symbol tables enumerate exactly; name and hash lookups are complete and sound.

  Property theorems only.  Layers:
    * hash functions: the regenerated (T3) `elf_hash` / `gnu_hash` are the standard's 32-bit functions;
    * lookups over a parsed table: `params` is the Container the `Elf_Hash` / `Gnu_Hash` parse yields for
      a table `t` (`sysvParams t` / `gnuParams t`), the symbol table is anything offering `get_symbol`
      that returns symbol `j` for `j < n` (exactly how the Python classes are parameterised);
    * the table predicates `WFSysV` / `WFGnu` are decidable and evaluated by the driver on every
      generated table (`wf`), and hold of the builders' output on every case of the run.
-/
import PyElf.Spec.Symbols
import PyElf.Model.Symbols
import PyElf.Proofs.HashFns
import PyElf.Proofs.SysVLookup
import PyElf.Proofs.GnuLookup
import PyElf.Proofs.SymTable
import PyElf.Proofs.HashParse
import PyElf.Props.TieC03
namespace PyElf.Props.C03
open PyElf PyElf.Spec PyElf.Model PyElf.Proofs

/-! ### the hash functions -/

/-- `GNUHashTable.gnu_hash`: unbounded `h*33+c` and one final mask ≡ `uint32_t` wrap at every step -/
theorem gnu_hash_eq (bs : Bytes) : Gen.Pure.gnu_hash bs = ((gnuHash32 bs).toNat : Int) :=
  Proofs.gnu_hash_eq bs

/-- `ELFHashTable.elf_hash` (after `fix: elf_hash must stay within 32 bits`) is the gABI function.
    Before the fix the statement was false: see `elf_hash_old_counterexample`. -/
theorem elf_hash_eq (bs : Bytes) : Gen.Pure.elf_hash bs = ((elfHash32 bs).toNat : Int) :=
  Proofs.elf_hash_eq bs

/-- the loop body of `elf_hash` as it was before the fix (no 32-bit truncation of `(h << 4) + c`) -/
def elfHashOld (name : Bytes) : Int :=
  (name.foldl (fun (st : Int × Int) (b8 : UInt8) =>
    let h : Int := PyInt.shl st.1 4 + (b8.toNat : Int)
    let x : Int := PyInt.land h 4026531840
    let h : Int := if x != 0 then PyInt.xor h (PyInt.shr x 24) else h
    (PyInt.land h (PyInt.inv x), x)) (0, 0)).1

/-- the defect: on `0x0f`×7 ++ "A" the old code returned a 33-bit value, the standard hash is 0x31 -/
theorem elf_hash_old_counterexample :
    elfHashOld [0x0f, 0x0f, 0x0f, 0x0f, 0x0f, 0x0f, 0x0f, 0x41] = 0x100000031
      ∧ (elfHash32 [0x0f, 0x0f, 0x0f, 0x0f, 0x0f, 0x0f, 0x0f, 0x41]).toNat = 0x31 := by
  constructor <;> decide

/-! ### symbol table entries, enumeration, lookup by name -/

/-- Elf32_Sym: every field of every entry is read back (name index, value, size, binding and type from
    `st_info`, the `st_other` bit fields, section index), at any position, whatever follows -/
theorem sym_roundtrip32 (env : Env) (le : Bool) (m : String) (sol core : Bool) (e : SymE) (hwf : e.WF 32 = true)
    (pre rest : Bytes) :
    structParse env (Spec.elfStructs ⟨le, 32, m, sol, core⟩).Elf_Sym (pre ++ encSym le 32 e ++ rest) pre.length
      = .ok (obsEntry env.enumDecode 32 e, pre.length + 16) :=
  Proofs.sym_roundtrip32 env le m sol core e hwf _ _ rest (drop_pre pre _ rest)

/-- Elf64_Sym (different field order and widths) -/
theorem sym_roundtrip64 (env : Env) (le : Bool) (m : String) (sol core : Bool) (e : SymE) (hwf : e.WF 64 = true)
    (pre rest : Bytes) :
    structParse env (Spec.elfStructs ⟨le, 64, m, sol, core⟩).Elf_Sym (pre ++ encSym le 64 e ++ rest) pre.length
      = .ok (obsEntry env.enumDecode 64 e, pre.length + 24) :=
  Proofs.sym_roundtrip64 env le m sol core e hwf _ _ rest (drop_pre pre _ rest)

section table
variable {le : Bool} {cls : Nat} {data : Bytes} {h : SecHdr} {strOff : Nat} {es : List SymE} {names : List Bytes}
variable (env : Env) (m : String) (sol core : Bool)

/-- the constructor's guards pass and `num_symbols` is the number of entries -/
theorem num_symbols_exact (L : SymtabLayout le cls data h strOff es names) :
    symtabInit h = .ok () ∧ numSymbols h = .ok es.length :=
  ⟨layout_init L, layout_numSymbols L⟩

/-- `get_symbol(i)`: entry addressed by `sh_entsize`, name from the linked string table -/
theorem get_symbol_exact (L : SymtabLayout le cls data h strOff es names) (i : Nat) (hi : i < es.length) :
    getSymbol (Spec.elfStructs ⟨le, cls, m, sol, core⟩) env data h strOff i
      = .ok (symObs env.enumDecode cls es names i) :=
  layout_getSymbol env m sol core L i hi

/-- `iter_symbols` yields exactly the encoded entries, in index order -/
theorem iter_symbols_exact (L : SymtabLayout le cls data h strOff es names) :
    iterSymbols (Spec.elfStructs ⟨le, cls, m, sol, core⟩) env data h strOff
      = .ok ((List.range es.length).map (symObs env.enumDecode cls es names)) :=
  layout_iterSymbols env m sol core L

/-- `get_symbol_by_name(n)` is `None` iff no symbol bears the name, else exactly the symbols bearing it,
    in index order (duplicates, empty names included) -/
theorem by_name_exact (L : SymtabLayout le cls data h strOff es names) (name : Bytes) :
    getSymbolByName (Spec.elfStructs ⟨le, cls, m, sol, core⟩) env data h strOff name
      = .ok (if byName names name = [] then none
             else some ((byName names name).map (symObs env.enumDecode cls es names))) :=
  layout_byName env m sol core L name

end table

/-- SHT_SYMTAB_SHNDX: the extended section index of symbol `n` is the `n`-th word of the companion table -/
theorem shndx_exact (env : Env) (c : ElfCfg) (data : Bytes) (h : SecHdr) (n w : Nat) (rest : Bytes)
    (hw : w < 2 ^ 32) (hd : data.drop (h.off + n * h.entsize) = encNat c.le 4 w ++ rest) :
    getSectionIndex (Spec.elfStructs c) env data h n = .ok (.int w) :=
  getSectionIndex_ok env c data h n w rest hw hd

/-- one SUNW syminfo entry -/
theorem syminfo_entry_exact (env : Env) (c : ElfCfg) (b fl : Nat) (hb : b < 65536) (hf : fl < 65536) (pre rest : Bytes) :
    structParse env (Spec.elfStructs c).Elf_Sunw_Syminfo (pre ++ encSyminfo c.le [(b, fl)] ++ rest) pre.length
      = .ok (obsSyminfo env.enumDecode (b, fl), pre.length + 4) :=
  syminfo_entry_ok env c _ _ b fl rest hb hf (drop_pre pre _ rest)

def exE0 : SymE := ⟨0, 0, 0, 0, 0, 0⟩
def exE1 : SymE := ⟨1, 0x1000, 4, 0x12, 3, 0xfff1⟩
def exData : Bytes := encSymtab true 32 0 [exE0, exE1] ++ [0, 0x61, 0]

/-- non-vacuity: a two-entry ELF32 table followed by its string table satisfies `SymtabLayout` -/
example : SymtabLayout true 32 exData ⟨0, 32, 16⟩ 32 [exE0, exE1] [[], [0x61]] where
  hcls := Or.inl rfl
  entpos := by decide
  size := by decide
  nlen := rfl
  wf := by
    intro i hi
    match i, hi with
    | 0, _ => show exE0.WF 32 = true; decide
    | 1, _ => show exE1.WF 32 = true; decide
  entry := by
    intro i hi
    match i, hi with
    | 0, _ => exact ⟨encSym true 32 exE1 ++ [0, 0x61, 0], by show List.drop 0 exData = encSym true 32 exE0 ++ _; decide⟩
    | 1, _ => exact ⟨[0, 0x61, 0], by show List.drop 16 exData = encSym true 32 exE1 ++ _; decide⟩
  name := by
    intro i hi
    match i, hi with
    | 0, _ => show strAt (List.drop 32 exData) 0 = some []; decide
    | 1, _ => show strAt (List.drop 32 exData) 1 = some [0x61]; decide

/-! ### System V hash table lookups -/

section sysv
variable (names : List Bytes) (t : SysVTable) (getSym : Nat → R Symbol) (sym : Nat → Symbol) (name : Bytes)

/-- exact result: the first symbol bearing the name on the chain of the name's bucket; the walk
    terminates (no `outOfFuel`) and raises nothing -/
theorem sysv_lookup_exact (hwf : WFSysV names t = true)
    (hget : ∀ j, j < names.length → getSym j = .ok (sym j)) :
    ∃ l, sysvBucketChain t name = some l ∧
      elfHashGetSymbol (sysvParams t) getSym name = .ok ((l.find? fun j => decide ((sym j).2 = name)).map sym) :=
  elfHashGetSymbol_eq names t getSym sym name hwf hget

theorem sysv_lookup_sound (hwf : WFSysV names t = true)
    (hget : ∀ j, j < names.length → getSym j = .ok (sym j))
    (hname : ∀ j, j < names.length → (sym j).2 = names.getD j []) :
    ∃ r, elfHashGetSymbol (sysvParams t) getSym name = .ok r ∧
      ∀ s, r = some s → ∃ j, 1 ≤ j ∧ j < names.length ∧ names.getD j [] = name ∧ s = sym j :=
  sysv_sound names t getSym sym name hwf hget hname

theorem sysv_lookup_complete (hwf : WFSysV names t = true)
    (hget : ∀ j, j < names.length → getSym j = .ok (sym j))
    (hname : ∀ j, j < names.length → (sym j).2 = names.getD j [])
    (i : Nat) (hi1 : 1 ≤ i) (hin : i < names.length) (hnm : names.getD i [] = name) :
    ∃ j, 1 ≤ j ∧ j < names.length ∧ names.getD j [] = name ∧
      elfHashGetSymbol (sysvParams t) getSym name = .ok (some (sym j)) :=
  sysv_complete names t getSym sym name hwf hget hname i hi1 hin hnm

theorem sysv_lookup_absent (hwf : WFSysV names t = true)
    (hget : ∀ j, j < names.length → getSym j = .ok (sym j))
    (hname : ∀ j, j < names.length → (sym j).2 = names.getD j [])
    (habs : ∀ i, 1 ≤ i → i < names.length → names.getD i [] ≠ name) :
    elfHashGetSymbol (sysvParams t) getSym name = .ok none :=
  sysv_absent_none names t getSym sym name hwf hget hname habs

/-- the count recovered from the table is the symbol table's length -/
theorem sysv_count (hwf : WFSysV names t = true) : elfHashCount (sysvParams t) = .ok (.int names.length) :=
  sysv_count_eq names t hwf

/-- an empty table (`nbucket = 0`) finds nothing and does not divide by zero -/
theorem sysv_empty_none (hnb : t.nbucket = 0) : elfHashGetSymbol (sysvParams t) getSym name = .ok none :=
  sysv_empty t getSym name hnb

end sysv

/-! ### GNU hash table lookups -/

section gnu
variable (cls : Nat) (names : List Bytes) (t : GnuTable) (le : Bool) (data : Bytes) (g : GnuHash)
variable (getSym : Nat → R Symbol) (sym : Nat → Symbol) (name : Bytes)

/-- exact result: the first hashed symbol (`symoffset ≤ i < n`) bearing the name, or `None`.
    `hread` says the chain words of `t` lie at `_chain_pos` in the file. Covers Bloom-filter
    false positives, bucket collisions and `hash|1` collisions (the name compare decides). -/
theorem gnu_lookup_exact (hwf : WFGnu cls names t = true) (hg : g.params = gnuParams t) (hws : g.wordsize = 4)
    (hread : ∀ k (hk : k < t.chain.length), readHashWord le data (g.chainPos + k * 4) = .ok t.chain[k])
    (hget : ∀ j, j < names.length → getSym j = .ok (sym j))
    (hname : ∀ j, j < names.length → (sym j).2 = names.getD j []) :
    gnuHashGetSymbol le cls data g getSym name = .ok ((gnuFirstNamed names t.symoffset name).map sym) :=
  gnuHashGetSymbol_eq cls names t le data g getSym sym name hwf hg hws hread hget hname

theorem gnu_lookup_sound (hwf : WFGnu cls names t = true) (hg : g.params = gnuParams t) (hws : g.wordsize = 4)
    (hread : ∀ k (hk : k < t.chain.length), readHashWord le data (g.chainPos + k * 4) = .ok t.chain[k])
    (hget : ∀ j, j < names.length → getSym j = .ok (sym j))
    (hname : ∀ j, j < names.length → (sym j).2 = names.getD j []) :
    ∃ r, gnuHashGetSymbol le cls data g getSym name = .ok r ∧
      ∀ s, r = some s → ∃ j, t.symoffset ≤ j ∧ j < names.length ∧ names.getD j [] = name ∧ s = sym j := by
  refine ⟨_, gnu_lookup_exact cls names t le data g getSym sym name hwf hg hws hread hget hname, ?_⟩
  intro s hs
  obtain ⟨j, hj, rfl⟩ := Option.map_eq_some_iff.mp hs
  obtain ⟨h1, h2, h3, _⟩ := firstFrom_spec _ _ _ _ hj
  have F : GnuFacts cls names.length (gnuHashes names t.symoffset) t := WFGnuH_facts hwf
  exact ⟨j, h1, by have := F.son; omega, by simpa using h3, rfl⟩

/-- completeness: the Bloom filter never rejects a present name, and hash collisions fall through -/
theorem gnu_lookup_complete (hwf : WFGnu cls names t = true) (hg : g.params = gnuParams t) (hws : g.wordsize = 4)
    (hread : ∀ k (hk : k < t.chain.length), readHashWord le data (g.chainPos + k * 4) = .ok t.chain[k])
    (hget : ∀ j, j < names.length → getSym j = .ok (sym j))
    (hname : ∀ j, j < names.length → (sym j).2 = names.getD j [])
    (i : Nat) (hi1 : t.symoffset ≤ i) (hin : i < names.length) (hnm : names.getD i [] = name) :
    ∃ j, t.symoffset ≤ j ∧ j < names.length ∧ names.getD j [] = name ∧
      gnuHashGetSymbol le cls data g getSym name = .ok (some (sym j)) := by
  have hex := gnu_lookup_exact cls names t le data g getSym sym name hwf hg hws hread hget hname
  cases hf : gnuFirstNamed names t.symoffset name with
  | none =>
    -- impossible: `i` is a hashed symbol bearing the name
    exfalso
    refine firstFrom_ne_none (fun i => names.getD i [] == name) (names.length - t.symoffset) t.symoffset
      (i - t.symoffset) (by omega) ?_ hf
    rw [show t.symoffset + (i - t.symoffset) = i by omega]; simpa using hnm
  | some j =>
    obtain ⟨h1, h2, h3, _⟩ := firstFrom_spec _ _ _ _ hf
    have F : GnuFacts cls names.length (gnuHashes names t.symoffset) t := WFGnuH_facts hwf
    exact ⟨j, h1, by have := F.son; omega, by simpa using h3, by rw [hex, hf]; rfl⟩

theorem gnu_lookup_absent (hwf : WFGnu cls names t = true) (hg : g.params = gnuParams t) (hws : g.wordsize = 4)
    (hread : ∀ k (hk : k < t.chain.length), readHashWord le data (g.chainPos + k * 4) = .ok t.chain[k])
    (hget : ∀ j, j < names.length → getSym j = .ok (sym j))
    (hname : ∀ j, j < names.length → (sym j).2 = names.getD j [])
    (habs : ∀ i, t.symoffset ≤ i → i < names.length → names.getD i [] ≠ name) :
    gnuHashGetSymbol le cls data g getSym name = .ok none := by
  obtain ⟨r, hr, hsound⟩ := gnu_lookup_sound cls names t le data g getSym sym name hwf hg hws hread hget hname
  cases r with
  | none => exact hr
  | some s =>
    obtain ⟨j, h1, h2, h3, _⟩ := hsound s rfl
    exact absurd h3 (habs j h1 h2)

/-- the count recovered from the buckets and the last chain is the symbol table's true length -/
theorem gnu_count_exact (hwf : WFGnu cls names t = true) (hg : g.params = gnuParams t) (hws : g.wordsize = 4)
    (hread : ∀ k (hk : k < t.chain.length), readHashWord le data (g.chainPos + k * 4) = .ok t.chain[k]) :
    gnuHashCount le data g = .ok names.length :=
  gnuHashCount_eq cls names t le data g hwf hg hws hread

end gnu

/-! ### from bytes: the encoded tables parse to the params the lookup theorems speak about -/

/-- `ELFHashTable.__init__` on an encoded well-formed SysV table yields exactly `sysvParams t` -/
theorem sysv_init_exact (env : Env) (c : ElfCfg) (names : List Bytes) (t : SysVTable)
    (pre rest : Bytes) (hwf : WFSysV names t = true) :
    elfHashInit (Spec.elfStructs c) env (pre ++ encSysV c.le t ++ rest) pre.length = .ok (sysvParams t) :=
  sysv_init_of_wf env c names t _ _ rest hwf (drop_pre pre _ rest)

/-- `GNUHashTable.__init__` on an encoded well-formed GNU table: the params, the word size and the
    chain words at `_chain_pos` — the hypotheses `hg`, `hws`, `hread` of the GNU theorems above -/
theorem gnu_init_exact (env : Env) (c : ElfCfg) (hcls : c.cls = 32 ∨ c.cls = 64) (names : List Bytes) (t : GnuTable)
    (pre rest : Bytes) (hwf : WFGnu c.cls names t = true) :
    ∃ g, gnuHashInit (Spec.elfStructs c) env c.cls (pre ++ encGnu c.le c.cls t ++ rest) pre.length = .ok g
      ∧ g.params = gnuParams t ∧ g.wordsize = 4
      ∧ ∀ k (hk : k < t.chain.length),
          readHashWord c.le (pre ++ encGnu c.le c.cls t ++ rest) (g.chainPos + k * 4) = .ok t.chain[k] :=
  gnu_init_of_wf env c hcls names t _ _ rest hwf (drop_pre pre _ rest)

/-- end to end for the GNU table: from the encoded bytes to the lookup result and the count -/
theorem gnu_bytes_exact (env : Env) (c : ElfCfg) (hcls : c.cls = 32 ∨ c.cls = 64) (names : List Bytes) (t : GnuTable)
    (pre rest : Bytes) (hwf : WFGnu c.cls names t = true)
    (getSym : Nat → R Symbol) (sym : Nat → Symbol)
    (hget : ∀ j, j < names.length → getSym j = .ok (sym j))
    (hname : ∀ j, j < names.length → (sym j).2 = names.getD j []) :
    ∃ g, gnuHashInit (Spec.elfStructs c) env c.cls (pre ++ encGnu c.le c.cls t ++ rest) pre.length = .ok g
      ∧ gnuHashCount c.le (pre ++ encGnu c.le c.cls t ++ rest) g = .ok names.length
      ∧ ∀ name, gnuHashGetSymbol c.le c.cls (pre ++ encGnu c.le c.cls t ++ rest) g getSym name
          = .ok ((gnuFirstNamed names t.symoffset name).map sym) := by
  obtain ⟨g, h1, h2, h3, h4⟩ := gnu_init_exact env c hcls names t pre rest hwf
  exact ⟨g, h1, gnu_count_exact c.cls names t c.le _ g hwf h2 h3 h4,
    fun name => gnu_lookup_exact c.cls names t c.le _ g getSym sym name hwf h2 h3 h4 hget hname⟩

/-! ### non-vacuity: concrete tables satisfy the hypotheses (with hash and bucket collisions) -/

/-- "bB" and "c!" have the same GNU hash (33·a + b) -/
example : gnuHash32 [0x62, 0x42] = gnuHash32 [0x63, 0x21] := by decide

def exNames : List Bytes := [[], [0x62, 0x42], [0x63, 0x21], [0x70], [0x70], [0xc3, 0xa9]]

example : WFSysV exNames (buildSysV exNames 2) = true := by decide
example : WFSysV exNames (buildSysV exNames 1) = true := by decide
example : WFGnu 64 exNames (buildGnu 64 exNames 1 1 1 6) = true := by decide
example : WFGnu 32 exNames (buildGnu 32 exNames 1 3 2 5) = true := by decide

end PyElf.Props.C03
