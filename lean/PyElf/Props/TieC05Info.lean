/-
  C05 tie, seventh wave (line programs from section bytes): what the composition with C04's `.debug_info` model
  reads from the regenerated side.

  * `line_program_for_CU` parses with `CU.structs`, the bundle the regenerated `DWARFStructs(...)` constructor
    answers with for the unit's (byte order, format, address size, version): it is the standard's bundle
    (the same statement as Props/TieC07Info `gen_structs`; the fields the line-program code reads are listed one by
    one in Props/TieC05).
  * the regenerated `ENUM_DW_AT` presents 0x10 — and nothing else — as "DW_AT_stmt_list", the name
    `line_program_for_CU` looks up in `top_DIE.attributes`.
-/
import PyElf.Gen.Structs
import PyElf.Spec.DwarfStructs
import PyElf.Model.Env
import PyElf.Props.TieC04
namespace PyElf.Props.TieC05
open PyElf

theorem gen_structs_all :
    Spec.allDwarfCfgs.map Model.dwarfStructsFor = Spec.allDwarfCfgs.map (fun c => some (Spec.dwarfStructs c)) := by rfl

theorem gen_structs (c : DwarfCfg) (hc : c ∈ Spec.allDwarfCfgs) : Model.dwarfStructsFor c = some (Spec.dwarfStructs c) :=
  (List.map_inj_left.1 gen_structs_all) c hc

theorem stmt_list_name (k : Nat) :
    ((Proofs.C04.namesOf Model.genEnumDecode).at_ k == Val.str "DW_AT_stmt_list") = (k == 0x10) :=
  TieC04.gen_at_iff (v := 0x10) (by decide +kernel) (by decide +kernel) k

end PyElf.Props.TieC05
