/-
  Helper lemmas for C08: struct parsing of relocation entries, RELR bit-level
  induction, recipe table walk, read–compute–wrap–write frame.
-/
import PyElf.Core.Construct
import PyElf.Spec.ElfStructs
import PyElf.Spec.Reloc
import PyElf.Model.Relocation
import PyElf.Proofs.Primitives
namespace PyElf.Proofs.Reloc
open PyElf PyElf.Spec PyElf.Model PyElf.Model.Reloc PyElf.Proofs

/-! ### generic `Con.parse` steps -/

theorem parse_struct (env : Env) (data : Bytes) (fs : ConFields) (ctx : Fields) (pos : Nat) :
    Con.parse env data (.struct fs) ctx pos =
      (match Con.parseFields env data fs [] [] pos with
       | .ok (obj, p, _) => .ok (.record obj, p, ctx)
       | .error e => .error e) := by
  rw [Con.parse]
  cases Con.parseFields env data fs [] [] pos <;> rfl

theorem parseFields_nil (env : Env) (data : Bytes) (obj ctx : Fields) (pos : Nat) :
    Con.parseFields env data .nil obj ctx pos = .ok (obj, pos, ctx) := by
  rw [Con.parseFields]

theorem parseFields_named (env : Env) (data : Bytes) (nm : String) (c : Con) (rest : ConFields)
    (obj ctx : Fields) (pos : Nat) :
    Con.parseFields env data (.cons (some nm) false c rest) obj ctx pos =
      (match Con.parse env data c ctx pos with
       | .ok (v, p, ctx') => Con.parseFields env data rest (Fields.set obj nm v) (Fields.set ctx' nm v) p
       | .error e => .error e) := by
  rw [Con.parseFields]
  cases Con.parse env data c ctx pos <;> rfl

theorem parse_value (env : Env) (data : Bytes) (e : Expr) (ctx : Fields) (pos : Nat) :
    Con.parse env data (.value e) ctx pos =
      (match e.eval ctx .none with
       | .ok v => .ok (v, pos, ctx)
       | .error er => .error er) := by
  rw [Con.parse]
  cases e.eval ctx .none <;> rfl

theorem parse_uint_at {env : Env} {data : Bytes} {pos n v : Nat} {le : Bool} {ctx : Fields} {rest : Bytes}
    (hd : data.drop pos = encNat le n v ++ rest) (hv : v < 256 ^ n) :
    Con.parse env data (.uint n le) ctx pos = .ok (.int (v : Int), pos + n, ctx) := by
  rw [parse_uint_ok hd (encNat_length le n v), decNat_encNat_of_lt le hv]

theorem drop_next {data : Bytes} {pos n v : Nat} {le : Bool} {rest : Bytes}
    (hd : data.drop pos = encNat le n v ++ rest) : data.drop (pos + n) = rest := by
  have := drop_add_of_drop hd
  rwa [encNat_length] at this

/-! ### Python integer operators on naturals -/

theorem land_nat (a b : Nat) : PyInt.land (a : Int) (b : Int) = ((a &&& b : Nat) : Int) := rfl
theorem lor_nat (a b : Nat) : PyInt.lor (a : Int) (b : Int) = ((a ||| b : Nat) : Int) := rfl
theorem shr_nat (a n : Nat) : PyInt.shr (a : Int) n = ((a / 2 ^ n : Nat) : Int) := by
  simp [PyInt.shr, Int.natCast_ediv]
theorem shl_nat (a n : Nat) : PyInt.shl (a : Int) n = ((a * 2 ^ n : Nat) : Int) := by
  simp [PyInt.shl]


theorem land_mask_nat (a k : Nat) : PyInt.land (a : Int) (((2 ^ k - 1 : Nat)) : Int) = ((a % 2 ^ k : Nat) : Int) := by
  rw [land_nat, Nat.and_two_pow_sub_one_eq_mod]

theorem or_low {X b : Nat} (k q : Nat) (hb : b < 2 ^ k) (hX : X = 2 ^ k * q) : X ||| b = X + b := by
  rw [hX, ← Nat.two_pow_add_eq_or_of_lt hb]

/-! ### the relocation entry structs of `Spec.elfStructs` -/

/-- the r_info decomposition fields, as `Spec.elfStructs` writes them -/
def relInfoFields (le : Bool) (cls : Nat) (mclass : String) : List FieldSpec :=
  let byte := Con.uint 1 le
  let word := Con.uint 4 le
  let addr := Con.uint (cls / 8) le
  let mips64 := cls = 64 && mclass = "EM_MIPS"
  if cls = 32 then
      [f "r_info" addr,
       f "r_info_sym" (.value (.band (.shr (ctx "r_info") (lit 8)) (lit 0xFFFFFF))),
       f "r_info_type" (.value (.band (ctx "r_info") (lit 0xFF)))]
    else if mips64 then
      [f "r_sym" word, f "r_ssym" byte, f "r_type3" byte, f "r_type2" byte, f "r_type" byte,
       f "r_info_sym" (.value (ctx "r_sym")), f "r_info_ssym" (.value (ctx "r_ssym")),
       f "r_info_type" (.value (ctx "r_type")), f "r_info_type2" (.value (ctx "r_type2")),
       f "r_info_type3" (.value (ctx "r_type3")),
       f "r_info" (.value (.bor (.bor (.bor (.bor (.shl (ctx "r_sym") (lit 32)) (.shl (ctx "r_ssym") (lit 24)))
          (.shl (ctx "r_type3") (lit 16))) (.shl (ctx "r_type2") (lit 8))) (ctx "r_type")))]
    else
      [f "r_info" addr,
       f "r_info_sym" (.value (.band (.shr (ctx "r_info") (lit 32)) (lit 0xFFFFFFFF))),
       f "r_info_type" (.value (.band (ctx "r_info") (lit 0xFFFFFFFF)))]

theorem spec_Elf_Rel (c : ElfCfg) :
    (Spec.elfStructs c).Elf_Rel = st (f "r_offset" (.uint (c.cls / 8) c.le) :: relInfoFields c.le c.cls c.mclass ++ []) := by
  rw [List.append_nil]; rfl

theorem spec_Elf_Rela (c : ElfCfg) :
    (Spec.elfStructs c).Elf_Rela = st (f "r_offset" (.uint (c.cls / 8) c.le) :: relInfoFields c.le c.cls c.mclass
        ++ [f "r_addend" (.sint (c.cls / 8) c.le)]) := rfl

theorem spec_Elf_Relr (c : ElfCfg) :
    (Spec.elfStructs c).Elf_Relr = st [f "r_offset" (.uint (c.cls / 8) c.le)] := rfl

theorem spec_Elf_addr (c : ElfCfg) : (Spec.elfStructs c).Elf_addr = .uint (c.cls / 8) c.le := rfl

local macro "ev" : tactic =>
  `(tactic| simp [Expr.eval, Expr.arith, ctx, lit, Fields.getR, Fields.get?, Val.asInt, bind, Except.bind, pure, Except.pure])

theorem eval32_sym (off info : Nat) :
    Expr.eval [("r_offset", .int off), ("r_info", .int info)] .none
      (.band (.shr (ctx "r_info") (lit 8)) (lit 0xFFFFFF)) = .ok (.int ((info / 2 ^ 8 % 2 ^ 24 : Nat) : Int)) := by
  ev
  rw [show (16777215:Int) = ((2^24-1 : Nat):Int) from rfl, shr_nat, land_mask_nat]; omega

theorem eval32_type (off info : Nat) (x : Val) :
    Expr.eval [("r_offset", .int off), ("r_info", .int info), ("r_info_sym", x)] .none
      (.band (ctx "r_info") (lit 0xFF)) = .ok (.int ((info % 2 ^ 8 : Nat) : Int)) := by
  ev
  rw [show (255:Int) = ((2^8-1 : Nat):Int) from rfl, land_mask_nat]; omega

theorem eval64_sym (off info : Nat) :
    Expr.eval [("r_offset", .int off), ("r_info", .int info)] .none
      (.band (.shr (ctx "r_info") (lit 32)) (lit 0xFFFFFFFF)) = .ok (.int ((info / 2 ^ 32 % 2 ^ 32 : Nat) : Int)) := by
  ev
  rw [show (4294967295:Int) = ((2^32-1 : Nat):Int) from rfl, shr_nat, land_mask_nat]; omega

theorem eval64_type (off info : Nat) (x : Val) :
    Expr.eval [("r_offset", .int off), ("r_info", .int info), ("r_info_sym", x)] .none
      (.band (ctx "r_info") (lit 0xFFFFFFFF)) = .ok (.int ((info % 2 ^ 32 : Nat) : Int)) := by
  ev
  rw [show (4294967295:Int) = ((2^32-1 : Nat):Int) from rfl, land_mask_nat]; omega

/-- the observation of the fields before `r_addend` -/
def relObsFields (c : RelCfg) (e : RelEntry) : Fields :=
  [("r_offset", .int e.offset)] ++
    (if c.packed then
       [("r_sym", .int e.sym), ("r_ssym", .int e.ssym), ("r_type3", .int e.type3), ("r_type2", .int e.type2),
        ("r_type", .int e.type), ("r_info_sym", .int e.sym), ("r_info_ssym", .int e.ssym),
        ("r_info_type", .int e.type), ("r_info_type2", .int e.type2), ("r_info_type3", .int e.type3),
        ("r_info", .int (rInfo c e))]
     else
       [("r_info", .int (rInfo c e)), ("r_info_sym", .int e.sym), ("r_info_type", .int e.type)])

local macro "fs" : tactic => `(tactic| simp only [Fields.set, String.reduceEq, ↓reduceIte])
local macro "vl" : tactic =>
  `(tactic| simp only [ctx, Expr.eval, Fields.getR, Fields.get?, String.reduceEq, ↓reduceIte])

theorem fields32 {env : Env} {data : Bytes} {pos : Nat} {le : Bool} {rest : Bytes} {m : String} (e : RelEntry)
    (ys : List FieldSpec)
    (hoff : e.offset < 2 ^ 32) (hs : e.sym < 2 ^ 24) (ht : e.type < 2 ^ 8)
    (hd : data.drop pos = encNat le 4 e.offset ++ (encNat le 4 (e.sym * 2 ^ 8 + e.type) ++ rest)) :
    Con.parseFields env data (mkFields (f "r_offset" (.uint (32 / 8) le) :: relInfoFields le 32 m ++ ys)) [] [] pos
      = Con.parseFields env data (mkFields ys)
          (relObsFields ⟨le, 32, mm⟩ e) (relObsFields ⟨le, 32, mm⟩ e) (pos + 4 + 4) := by
  have hd1 := drop_next hd
  simp only [relInfoFields, mkFields, f, if_true, List.cons_append, List.nil_append, show 32 / 8 = 4 from rfl]
  rw [parseFields_named, parse_uint_at hd (by omega)]; fs
  rw [parseFields_named, parse_uint_at hd1 (by omega)]; fs
  rw [parseFields_named, parse_value, eval32_sym]; fs
  rw [parseFields_named, parse_value, eval32_type]; fs
  have h1 : (e.sym * 2 ^ 8 + e.type) / 2 ^ 8 % 2 ^ 24 = e.sym := by omega
  have h2 : (e.sym * 2 ^ 8 + e.type) % 2 ^ 8 = e.type := by omega
  rw [h1, h2]
  simp [relObsFields, RelCfg.packed, rInfo]

theorem fields64 {env : Env} {data : Bytes} {pos : Nat} {le : Bool} {rest : Bytes} {m : String} (e : RelEntry)
    (ys : List FieldSpec) (hm : (m = "EM_MIPS") = False)
    (hoff : e.offset < 2 ^ 64) (hs : e.sym < 2 ^ 32) (ht : e.type < 2 ^ 32)
    (hd : data.drop pos = encNat le 8 e.offset ++ (encNat le 8 (e.sym * 2 ^ 32 + e.type) ++ rest)) :
    Con.parseFields env data (mkFields (f "r_offset" (.uint (64 / 8) le) :: relInfoFields le 64 m ++ ys)) [] [] pos
      = Con.parseFields env data (mkFields ys)
          (relObsFields ⟨le, 64, false⟩ e) (relObsFields ⟨le, 64, false⟩ e) (pos + 8 + 8) := by
  have hd1 := drop_next hd
  simp only [relInfoFields, mkFields, f, List.cons_append, List.nil_append, show 64 / 8 = 8 from rfl, hm,
    show ((64 : Nat) = 32) = False from by simp, if_false, decide_false, Bool.and_false, Bool.false_eq_true]
  rw [parseFields_named, parse_uint_at hd (by omega)]; fs
  rw [parseFields_named, parse_uint_at hd1 (by omega)]; fs
  rw [parseFields_named, parse_value, eval64_sym]; fs
  rw [parseFields_named, parse_value, eval64_type]; fs
  have h1 : (e.sym * 2 ^ 32 + e.type) / 2 ^ 32 % 2 ^ 32 = e.sym := by omega
  have h2 : (e.sym * 2 ^ 32 + e.type) % 2 ^ 32 = e.type := by omega
  rw [h1, h2]
  simp [relObsFields, RelCfg.packed, rInfo]

theorem mips_info_arith (sym ssym t3 t2 t : Nat) (h1 : ssym < 2 ^ 8) (h2 : t3 < 2 ^ 8) (h3 : t2 < 2 ^ 8) (h4 : t < 2 ^ 8) :
    PyInt.lor (PyInt.lor (PyInt.lor (PyInt.lor (PyInt.shl (sym : Int) 32) (PyInt.shl (ssym : Int) 24))
      (PyInt.shl (t3 : Int) 16)) (PyInt.shl (t2 : Int) 8)) (t : Int)
      = ((sym * 2 ^ 32 + ssym * 2 ^ 24 + t3 * 2 ^ 16 + t2 * 2 ^ 8 + t : Nat) : Int) := by
  simp only [shl_nat, lor_nat]
  have h1 : sym * 2 ^ 32 ||| ssym * 2 ^ 24 = sym * 2 ^ 32 + ssym * 2 ^ 24 := or_low 32 sym (by omega) (by omega)
  rw [h1]
  have h2 : (sym * 2 ^ 32 + ssym * 2 ^ 24) ||| t3 * 2 ^ 16 = sym * 2 ^ 32 + ssym * 2 ^ 24 + t3 * 2 ^ 16 :=
    or_low 24 (sym * 2 ^ 8 + ssym) (by omega) (by omega)
  rw [h2]
  have h3 : (sym * 2 ^ 32 + ssym * 2 ^ 24 + t3 * 2 ^ 16) ||| t2 * 2 ^ 8
      = sym * 2 ^ 32 + ssym * 2 ^ 24 + t3 * 2 ^ 16 + t2 * 2 ^ 8 :=
    or_low 16 (sym * 2 ^ 16 + ssym * 2 ^ 8 + t3) (by omega) (by omega)
  rw [h3]
  have h4 : (sym * 2 ^ 32 + ssym * 2 ^ 24 + t3 * 2 ^ 16 + t2 * 2 ^ 8) ||| t
      = sym * 2 ^ 32 + ssym * 2 ^ 24 + t3 * 2 ^ 16 + t2 * 2 ^ 8 + t :=
    or_low 8 (sym * 2 ^ 24 + ssym * 2 ^ 16 + t3 * 2 ^ 8 + t2) (by omega) (by omega)
  rw [h4]

theorem eval_mips_info (fs : Fields) (sym ssym t3 t2 t : Nat)
    (g1 : Fields.getR fs "r_sym" = .ok (.int sym)) (g2 : Fields.getR fs "r_ssym" = .ok (.int ssym))
    (g3 : Fields.getR fs "r_type3" = .ok (.int t3)) (g4 : Fields.getR fs "r_type2" = .ok (.int t2))
    (g5 : Fields.getR fs "r_type" = .ok (.int t))
    (h1 : ssym < 2 ^ 8) (h2 : t3 < 2 ^ 8) (h3 : t2 < 2 ^ 8) (h4 : t < 2 ^ 8) :
    Expr.eval fs .none (.bor (.bor (.bor (.bor (.shl (.ctx "r_sym") (lit 32)) (.shl (.ctx "r_ssym") (lit 24)))
          (.shl (.ctx "r_type3") (lit 16))) (.shl (.ctx "r_type2") (lit 8))) (.ctx "r_type"))
      = .ok (.int ((sym * 2 ^ 32 + ssym * 2 ^ 24 + t3 * 2 ^ 16 + t2 * 2 ^ 8 + t : Nat) : Int)) := by
  simp only [Expr.eval, ctx, lit, g1, g2, g3, g4, g5, Expr.arith, Val.asInt, bind, Except.bind, pure, Except.pure]
  simp only [show ¬ ((32 : Int) < 0) by decide, show ¬ ((24 : Int) < 0) by decide, show ¬ ((16 : Int) < 0) by decide,
    show ¬ ((8 : Int) < 0) by decide, ↓reduceIte, show Int.toNat 32 = 32 from rfl, show Int.toNat 24 = 24 from rfl,
    show Int.toNat 16 = 16 from rfl, show Int.toNat 8 = 8 from rfl]
  rw [mips_info_arith sym ssym t3 t2 t h1 h2 h3 h4]

theorem fieldsMips {env : Env} {data : Bytes} {pos : Nat} {le : Bool} {rest : Bytes} (e : RelEntry)
    (ys : List FieldSpec)
    (hoff : e.offset < 2 ^ 64) (hs : e.sym < 2 ^ 32) (ht : e.type < 2 ^ 8) (ht2 : e.type2 < 2 ^ 8)
    (ht3 : e.type3 < 2 ^ 8) (hss : e.ssym < 2 ^ 8)
    (hd : data.drop pos = encNat le 8 e.offset ++ (encNat le 4 e.sym ++ (encNat le 1 e.ssym ++ (encNat le 1 e.type3 ++
        (encNat le 1 e.type2 ++ (encNat le 1 e.type ++ rest)))))) :
    Con.parseFields env data (mkFields (f "r_offset" (.uint (64 / 8) le) :: relInfoFields le 64 "EM_MIPS" ++ ys)) [] [] pos
      = Con.parseFields env data (mkFields ys)
          (relObsFields ⟨le, 64, true⟩ e) (relObsFields ⟨le, 64, true⟩ e) (pos + 8 + 4 + 1 + 1 + 1 + 1) := by
  have hd1 := drop_next hd
  have hd2 := drop_next hd1
  have hd3 := drop_next hd2
  have hd4 := drop_next hd3
  have hd5 := drop_next hd4
  simp only [relInfoFields, mkFields, f, List.cons_append, List.nil_append, show 64 / 8 = 8 from rfl,
    show ((64 : Nat) = 32) = False from by simp, if_false, decide_true, Bool.and_true, if_true]
  rw [parseFields_named, parse_uint_at hd (by omega)]; fs
  rw [parseFields_named, parse_uint_at hd1 (by omega)]; fs
  rw [parseFields_named, parse_uint_at hd2 (by omega)]; fs
  rw [parseFields_named, parse_uint_at hd3 (by omega)]; fs
  rw [parseFields_named, parse_uint_at hd4 (by omega)]; fs
  rw [parseFields_named, parse_uint_at hd5 (by omega)]; fs
  rw [parseFields_named, parse_value]; vl; fs
  rw [parseFields_named, parse_value]; vl; fs
  rw [parseFields_named, parse_value]; vl; fs
  rw [parseFields_named, parse_value]; vl; fs
  rw [parseFields_named, parse_value]; vl; fs
  rw [parseFields_named, parse_value,
    eval_mips_info _ e.sym e.ssym e.type3 e.type2 e.type (by simp [Fields.getR, Fields.get?])
      (by simp [Fields.getR, Fields.get?]) (by simp [Fields.getR, Fields.get?]) (by simp [Fields.getR, Fields.get?])
      (by simp [Fields.getR, Fields.get?]) hss ht3 ht2 ht]; fs
  simp [relObsFields, RelCfg.packed, rInfo]


theorem set_absent (F : Fields) (k : String) (v : Val) (h : Fields.get? F k = none) :
    Fields.set F k v = F ++ [(k, v)] := by
  induction F with
  | nil => rfl
  | cons x xs ih =>
    obtain ⟨k', v'⟩ := x
    simp only [Fields.get?] at h
    split at h
    · cases h
    · rename_i hne
      simp only [Fields.set, hne, ↓reduceIte, ih h, List.cons_append]

theorem addend_step {env : Env} {data : Bytes} {pos w : Nat} {le : Bool} {rest : Bytes} (F : Fields) (a : Int)
    (hw : 1 ≤ w) (hlo : -((2 ^ (8 * w - 1) : Nat) : Int) ≤ a) (hhi : a < ((2 ^ (8 * w - 1) : Nat) : Int))
    (hd : data.drop pos = encNat le w (ofSigned (8 * w) a) ++ rest) (hF : Fields.get? F "r_addend" = none) :
    Con.parseFields env data (mkFields [f "r_addend" (.sint w le)]) F F pos
      = .ok (F ++ [("r_addend", .int a)], pos + w, F ++ [("r_addend", .int a)]) := by
  simp only [mkFields, f]
  rw [parseFields_named, parse_sint_ok hd (encNat_length le w _), sint_codec le w a hw hlo hhi]
  simp only [set_absent F _ _ hF]
  rw [parseFields_nil]

/-- the relocation-entry configuration of a struct-bundle configuration -/
def relCfgOf (c : ElfCfg) : RelCfg := ⟨c.le, c.cls, decide (c.mclass = "EM_MIPS")⟩

theorem structParse_struct (env : Env) (fs : ConFields) (data : Bytes) (pos : Nat) {obj : Fields} {p : Nat} {c' : Fields}
    (h : Con.parseFields env data fs [] [] pos = .ok (obj, p, c')) :
    structParse env (.struct fs) data pos = .ok (.record obj, p) := by
  simp only [structParse, parse_struct, h, bind, Except.bind, pure, Except.pure]

theorem observeRel_eq (c : RelCfg) (rela : Bool) (e : RelEntry) :
    observeRel c rela e = .record (relObsFields c e ++ if rela then [("r_addend", .int e.addend)] else []) := rfl

theorem addend_step' {env : Env} {data : Bytes} {pos w bits : Nat} {le : Bool} {rest : Bytes} (F : Fields) (a : Int)
    (hb : 8 * w = bits) (hw : 1 ≤ w)
    (hlo : -((2 ^ (bits - 1) : Nat) : Int) ≤ a) (hhi : a < ((2 ^ (bits - 1) : Nat) : Int))
    (hd : data.drop pos = encNat le w (ofSigned bits a) ++ rest) (hF : Fields.get? F "r_addend" = none) :
    Con.parseFields env data (mkFields [f "r_addend" (.sint w le)]) F F pos
      = .ok (F ++ [("r_addend", .int a)], pos + w, F ++ [("r_addend", .int a)]) := by
  subst hb
  exact addend_step F a hw hlo hhi hd hF

theorem wfRel_addend {c : RelCfg} {e : RelEntry} (h : WFRel c true e = true) :
    -((2 ^ (c.cls - 1) : Nat) : Int) ≤ e.addend ∧ e.addend < ((2 ^ (c.cls - 1) : Nat) : Int) := by
  simp only [WFRel, Bool.and_eq_true, Bool.not_true, Bool.false_or, decide_eq_true_eq] at h
  exact h.2

theorem wfRel_32 {le mm rela} {e : RelEntry} (h : WFRel ⟨le, 32, mm⟩ rela e = true) :
    e.offset < 2 ^ 32 ∧ e.sym < 2 ^ 24 ∧ e.type < 2 ^ 8 := by
  simp only [WFRel, Bool.and_eq_true, decide_eq_true_eq, ↓reduceIte] at h
  exact ⟨by simpa using h.1.1, h.1.2.1, h.1.2.2⟩

theorem wfRel_mips {le rela} {e : RelEntry} (h : WFRel ⟨le, 64, true⟩ rela e = true) :
    e.offset < 2 ^ 64 ∧ e.sym < 2 ^ 32 ∧ e.type < 2 ^ 8 ∧ e.type2 < 2 ^ 8 ∧ e.type3 < 2 ^ 8 ∧ e.ssym < 2 ^ 8 := by
  simp only [WFRel, RelCfg.packed, Bool.and_eq_true, decide_eq_true_eq, ↓reduceIte,
    show ((64 : Nat) = 32) = False from by simp, decide_true, Bool.and_true] at h
  exact ⟨by simpa using h.1.1, h.1.2.1.1.1.1, h.1.2.1.1.1.2, h.1.2.1.1.2, h.1.2.1.2, h.1.2.2⟩

theorem wfRel_64 {le mm rela} {e : RelEntry} (hmm : mm = false) (h : WFRel ⟨le, 64, mm⟩ rela e = true) :
    e.offset < 2 ^ 64 ∧ e.sym < 2 ^ 32 ∧ e.type < 2 ^ 32 := by
  subst hmm
  simp only [WFRel, RelCfg.packed, Bool.and_eq_true, decide_eq_true_eq, ↓reduceIte,
    show ((64 : Nat) = 32) = False from by simp, Bool.and_false, Bool.false_eq_true] at h
  exact ⟨by simpa using h.1.1, h.1.2.1, h.1.2.2⟩

theorem parse_rel_entry (cfg : ElfCfg) (hcls : cfg.cls = 32 ∨ cfg.cls = 64) (env : Env) (rela : Bool) (e : RelEntry)
    (hwf : WFRel (relCfgOf cfg) rela e = true) {data : Bytes} {pos : Nat} {rest : Bytes}
    (hd : data.drop pos = encRel (relCfgOf cfg) rela e ++ rest) :
    structParse env (if rela then (Spec.elfStructs cfg).Elf_Rela else (Spec.elfStructs cfg).Elf_Rel) data pos
      = .ok (observeRel (relCfgOf cfg) rela e, pos + relEntSize (relCfgOf cfg) rela) := by
  obtain ⟨le, cls, m, sol, core⟩ := cfg
  simp only at hcls
  rw [observeRel_eq]
  rcases hcls with rfl | rfl
  · -- ELF32
    obtain ⟨ho, hs, ht⟩ := wfRel_32 hwf
    simp only [encRel, relCfgOf, RelCfg.packed, RelCfg.w, rInfo, List.append_assoc,
        show ((32 : Nat) = 64) = False from by simp, decide_false, Bool.false_and, Bool.false_eq_true, ↓reduceIte,
        show 32 / 8 = 4 from rfl] at hd
    cases rela
    · simp only [Bool.false_eq_true, ↓reduceIte, spec_Elf_Rel, st, List.nil_append] at hd ⊢
      have key : Con.parseFields env data
          (mkFields (f "r_offset" (.uint (32 / 8) le) :: relInfoFields le 32 m ++ [])) [] [] pos
          = .ok (relObsFields ⟨le, 32, decide (m = "EM_MIPS")⟩ e, pos + 4 + 4,
                 relObsFields ⟨le, 32, decide (m = "EM_MIPS")⟩ e) := by
        rw [fields32 e [] ho hs ht hd]; simp only [mkFields]; rw [parseFields_nil]
      rw [structParse_struct env _ data pos key]
      simp [relEntSize, RelCfg.w, relCfgOf]
    · have ha := wfRel_addend hwf
      simp only [↓reduceIte, spec_Elf_Rela, st] at hd ⊢
      have hd2 := drop_next (drop_next hd)
      have key : Con.parseFields env data
          (mkFields (f "r_offset" (.uint (32 / 8) le) :: relInfoFields le 32 m ++ [f "r_addend" (.sint (32 / 8) le)])) [] [] pos
          = .ok (relObsFields ⟨le, 32, decide (m = "EM_MIPS")⟩ e ++ [("r_addend", .int e.addend)], pos + 4 + 4 + 32 / 8,
                 relObsFields ⟨le, 32, decide (m = "EM_MIPS")⟩ e ++ [("r_addend", .int e.addend)]) := by
        rw [fields32 e _ ho hs ht hd]
        exact addend_step' _ e.addend (by rfl) (by omega) ha.1 ha.2 hd2 (by simp [relObsFields, RelCfg.packed, Fields.get?])
      rw [structParse_struct env _ data pos key]
      simp [relEntSize, RelCfg.w, relCfgOf]
  · -- ELF64
    by_cases hm : m = "EM_MIPS"
    · subst hm
      have hb := wfRel_mips hwf
      obtain ⟨ho, hs, ht, ht2, ht3, hss⟩ := hb
      simp only [encRel, relCfgOf, RelCfg.packed, RelCfg.w, List.append_assoc, decide_true, Bool.and_true,
        ↓reduceIte, show 64 / 8 = 8 from rfl] at hd
      cases rela
      · simp only [Bool.false_eq_true, ↓reduceIte, spec_Elf_Rel, st, List.nil_append] at hd ⊢
        have key : Con.parseFields env data
            (mkFields (f "r_offset" (.uint (64 / 8) le) :: relInfoFields le 64 "EM_MIPS" ++ [])) [] [] pos
            = .ok (relObsFields ⟨le, 64, true⟩ e, pos + 8 + 4 + 1 + 1 + 1 + 1, relObsFields ⟨le, 64, true⟩ e) := by
          rw [fieldsMips e [] ho hs ht ht2 ht3 hss hd]; simp only [mkFields]; rw [parseFields_nil]
        rw [structParse_struct env _ data pos key]
        simp [relEntSize, RelCfg.w, relCfgOf]
      · have ha := wfRel_addend hwf
        simp only [↓reduceIte, spec_Elf_Rela, st] at hd ⊢
        have hd2 := drop_next (drop_next (drop_next (drop_next (drop_next (drop_next hd)))))
        have key : Con.parseFields env data
            (mkFields (f "r_offset" (.uint (64 / 8) le) :: relInfoFields le 64 "EM_MIPS" ++ [f "r_addend" (.sint (64 / 8) le)])) [] [] pos
            = .ok (relObsFields ⟨le, 64, true⟩ e ++ [("r_addend", .int e.addend)], pos + 8 + 4 + 1 + 1 + 1 + 1 + 64 / 8,
                   relObsFields ⟨le, 64, true⟩ e ++ [("r_addend", .int e.addend)]) := by
          rw [fieldsMips e _ ho hs ht ht2 ht3 hss hd]
          exact addend_step' _ e.addend (by rfl) (by omega) ha.1 ha.2 hd2 (by simp [relObsFields, RelCfg.packed, Fields.get?])
        rw [structParse_struct env _ data pos key]
        simp [relEntSize, RelCfg.w, relCfgOf]
    · have hb := wfRel_64 (mm := decide (m = "EM_MIPS")) (by simp [hm]) hwf
      obtain ⟨ho, hs, ht⟩ := hb
      simp only [encRel, relCfgOf, RelCfg.packed, RelCfg.w, rInfo, List.append_assoc, hm, decide_false, Bool.and_false,
        Bool.false_eq_true, ↓reduceIte, show 64 / 8 = 8 from rfl, show ((64 : Nat) = 32) = False from by simp] at hd
      cases rela
      · simp only [Bool.false_eq_true, ↓reduceIte, spec_Elf_Rel, st, List.nil_append] at hd ⊢
        have key : Con.parseFields env data
            (mkFields (f "r_offset" (.uint (64 / 8) le) :: relInfoFields le 64 m ++ [])) [] [] pos
            = .ok (relObsFields ⟨le, 64, false⟩ e, pos + 8 + 8, relObsFields ⟨le, 64, false⟩ e) := by
          rw [fields64 e [] (eq_false hm) ho hs ht hd]; simp only [mkFields]; rw [parseFields_nil]
        rw [structParse_struct env _ data pos key]
        simp [relEntSize, RelCfg.w, relCfgOf, hm]
      · have ha := wfRel_addend hwf
        simp only [↓reduceIte, spec_Elf_Rela, st] at hd ⊢
        have hd2 := drop_next (drop_next hd)
        have key : Con.parseFields env data
            (mkFields (f "r_offset" (.uint (64 / 8) le) :: relInfoFields le 64 m ++ [f "r_addend" (.sint (64 / 8) le)])) [] [] pos
            = .ok (relObsFields ⟨le, 64, false⟩ e ++ [("r_addend", .int e.addend)], pos + 8 + 8 + 64 / 8,
                   relObsFields ⟨le, 64, false⟩ e ++ [("r_addend", .int e.addend)]) := by
          rw [fields64 e _ (eq_false hm) ho hs ht hd]
          exact addend_step' _ e.addend (by rfl) (by omega) ha.1 ha.2 hd2 (by simp [relObsFields, RelCfg.packed, Fields.get?])
        rw [structParse_struct env _ data pos key]
        simp [relEntSize, RelCfg.w, relCfgOf, hm]

/-! ### tables -/

theorem encRel_length (c : RelCfg) (hcls : c.cls = 32 ∨ c.cls = 64) (rela : Bool) (e : RelEntry) :
    (encRel c rela e).length = relEntSize c rela := by
  obtain ⟨le, cls, mm⟩ := c
  simp only at hcls
  rcases hcls with rfl | rfl <;> cases mm <;> cases rela <;>
    simp [encRel, relEntSize, RelCfg.packed, RelCfg.w, encNat_length]

theorem table_drop (c : RelCfg) (hcls : c.cls = 32 ∨ c.cls = 64) (rela : Bool) {data rest : Bytes} :
    ∀ (es : List RelEntry) (n pos : Nat) (h : n < es.length),
      data.drop pos = encRelTable c rela es ++ rest →
      data.drop (pos + n * relEntSize c rela) = encRel c rela es[n] ++ (encRelTable c rela (es.drop (n + 1)) ++ rest) := by
  intro es
  induction es with
  | nil => intro n pos h; simp at h
  | cons e es ih =>
    intro n pos h hd
    have hd' : data.drop pos = encRel c rela e ++ (encRelTable c rela es ++ rest) := by
      rw [hd]; simp [encRelTable, List.append_assoc]
    cases n with
    | zero => simpa [encRelTable] using hd'
    | succ k =>
      have hnext : data.drop (pos + relEntSize c rela) = encRelTable c rela es ++ rest := by
        have := drop_add_of_drop hd'
        rwa [encRel_length c hcls] at this
      have := ih k (pos + relEntSize c rela) (by simpa using h) hnext
      have e1 : pos + (k + 1) * relEntSize c rela = pos + relEntSize c rela + k * relEntSize c rela := by
        rw [Nat.succ_mul]; omega
      rw [e1]
      simpa using this

theorem encRelTable_length (c : RelCfg) (hcls : c.cls = 32 ∨ c.cls = 64) (rela : Bool) (es : List RelEntry) :
    (encRelTable c rela es).length = es.length * relEntSize c rela := by
  induction es with
  | nil => simp [encRelTable]
  | cons e es ih =>
    simp only [encRelTable, List.flatMap_cons, List.length_append, List.length_cons] at ih ⊢
    rw [ih, encRel_length c hcls, Nat.succ_mul]; omega

theorem relEntSize_pos (c : RelCfg) (hcls : c.cls = 32 ∨ c.cls = 64) (rela : Bool) : 0 < relEntSize c rela := by
  rcases hcls with h | h <;> cases rela <;> simp [relEntSize, RelCfg.w, h]

theorem sizeof_rel (cfg : ElfCfg) (hcls : cfg.cls = 32 ∨ cfg.cls = 64) (rela : Bool) :
    conSizeof (if rela then (Spec.elfStructs cfg).Elf_Rela else (Spec.elfStructs cfg).Elf_Rel)
      = .ok (relEntSize (relCfgOf cfg) rela) := by
  obtain ⟨le, cls, m, sol, core⟩ := cfg
  simp only at hcls
  rcases hcls with rfl | rfl
  · cases rela <;>
      simp [spec_Elf_Rel, spec_Elf_Rela, st, f, mkFields, relInfoFields, conSizeof, fieldsSizeof, relEntSize, RelCfg.w,
        relCfgOf, bind, Except.bind, pure, Except.pure]
  · by_cases hm : m = "EM_MIPS" <;> cases rela <;>
      simp [spec_Elf_Rel, spec_Elf_Rela, st, f, mkFields, relInfoFields, conSizeof, fieldsSizeof, relEntSize, RelCfg.w,
        relCfgOf, bind, Except.bind, pure, Except.pure, hm]

/-- the table object the library builds over the standard's structs -/
def specTable (cfg : ElfCfg) (off : Option Nat) (size : Nat) (rela : Bool) : RelocTable :=
  { offset := off, size := size, isRela := rela,
    entryStruct := if rela then (Spec.elfStructs cfg).Elf_Rela else (Spec.elfStructs cfg).Elf_Rel,
    entrySize := relEntSize (relCfgOf cfg) rela }

theorem mkTable_spec (cfg : ElfCfg) (hcls : cfg.cls = 32 ∨ cfg.cls = 64) (off : Option Nat) (size : Nat) (rela : Bool) :
    mkTable (Spec.elfStructs cfg) off size rela = .ok (specTable cfg off size rela) := by
  have := sizeof_rel cfg hcls rela
  cases rela <;> simp_all [mkTable, specTable, bind, Except.bind, pure, Except.pure]

theorem getRelocation_spec (cfg : ElfCfg) (hcls : cfg.cls = 32 ∨ cfg.cls = 64) (env : Env) (rela : Bool)
    (es : List RelEntry) (hwf : ∀ e ∈ es, WFRel (relCfgOf cfg) rela e = true) {data rest : Bytes} {base size : Nat}
    (hd : data.drop base = encRelTable (relCfgOf cfg) rela es ++ rest)
    (hfit : base + es.length * relEntSize (relCfgOf cfg) rela ≤ 2 ^ 63)
    (n : Nat) (hn : n < es.length) :
    getRelocation env data (specTable cfg (some base) size rela) n = .ok (observeRel (relCfgOf cfg) rela es[n]) := by
  have hdn := table_drop (relCfgOf cfg) hcls rela es n base hn hd
  have hpos := relEntSize_pos (relCfgOf cfg) hcls rela
  have hlt : base + n * relEntSize (relCfgOf cfg) rela < 2 ^ 63 := by
    have : (n + 1) * relEntSize (relCfgOf cfg) rela ≤ es.length * relEntSize (relCfgOf cfg) rela :=
      Nat.mul_le_mul_right _ hn
    rw [Nat.succ_mul] at this
    omega
  have hp := parse_rel_entry cfg hcls env rela es[n] (hwf _ (List.getElem_mem hn)) hdn
  show seekParse env (if rela then (Spec.elfStructs cfg).Elf_Rela else (Spec.elfStructs cfg).Elf_Rel) data
      (base + n * relEntSize (relCfgOf cfg) rela) = _
  unfold seekParse
  rw [if_neg (by omega), hp]
  rfl

theorem iterFrom_spec (cfg : ElfCfg) (hcls : cfg.cls = 32 ∨ cfg.cls = 64) (env : Env) (rela : Bool)
    (es : List RelEntry) (hwf : ∀ e ∈ es, WFRel (relCfgOf cfg) rela e = true) {data rest : Bytes} {base size : Nat}
    (hd : data.drop base = encRelTable (relCfgOf cfg) rela es ++ rest)
    (hfit : base + es.length * relEntSize (relCfgOf cfg) rela ≤ 2 ^ 63) :
    ∀ (count i : Nat), i + count = es.length →
      iterFrom env data (specTable cfg (some base) size rela) count i
        = .ok ((es.drop i).map (observeRel (relCfgOf cfg) rela)) := by
  intro count
  induction count with
  | zero =>
    intro i hi
    have : es.drop i = [] := List.drop_eq_nil_of_le (by omega)
    simp [iterFrom, this]
  | succ k ih =>
    intro i hi
    have hlt : i < es.length := by omega
    rw [iterFrom, getRelocation_spec cfg hcls env rela es hwf hd hfit i hlt, ih (i + 1) (by omega)]
    rw [List.drop_eq_getElem_cons hlt]
    rfl

theorem numRelocations_spec (cfg : ElfCfg) (hcls : cfg.cls = 32 ∨ cfg.cls = 64) (rela : Bool) (es : List RelEntry)
    (off : Option Nat) :
    numRelocations (specTable cfg off (encRelTable (relCfgOf cfg) rela es).length rela) = .ok es.length := by
  have hpos := relEntSize_pos (relCfgOf cfg) hcls rela
  show (if relEntSize (relCfgOf cfg) rela = 0 then Except.error Err.zeroDivision
    else Except.ok ((encRelTable (relCfgOf cfg) rela es).length / relEntSize (relCfgOf cfg) rela)) = _
  rw [if_neg (by omega), encRelTable_length (relCfgOf cfg) hcls, Nat.mul_div_cancel _ hpos]

theorem iterRelocations_spec (cfg : ElfCfg) (hcls : cfg.cls = 32 ∨ cfg.cls = 64) (env : Env) (rela : Bool)
    (es : List RelEntry) (hwf : ∀ e ∈ es, WFRel (relCfgOf cfg) rela e = true) {data rest : Bytes} {base : Nat}
    (hd : data.drop base = encRelTable (relCfgOf cfg) rela es ++ rest)
    (hfit : base + es.length * relEntSize (relCfgOf cfg) rela ≤ 2 ^ 63) :
    iterRelocations env data (specTable cfg (some base) (encRelTable (relCfgOf cfg) rela es).length rela)
      = .ok (es.map (observeRel (relCfgOf cfg) rela)) := by
  rw [iterRelocations, numRelocations_spec cfg hcls rela es]
  have := iterFrom_spec cfg hcls env rela es hwf (size := (encRelTable (relCfgOf cfg) rela es).length) hd hfit es.length 0 (by omega)
  simpa [bind, Except.bind] using this


end PyElf.Proofs.Reloc
