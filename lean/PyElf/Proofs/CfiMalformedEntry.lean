/-
  C06 helper lemmas: exact behaviour on MALFORMED call-frame data, entry level.

  `cie_prologue`: a CIE whose header fields are those of a description `c` but whose LENGTH field `L` and the
  bytes after the augmentation data (`tail`) are ARBITRARY: `_parse_entry_at` decodes the header and the
  augmentation and then runs `_parse_instructions` from the end of the augmentation data to `off + L + ilfs`.
  Everything the instruction-level lemmas of Proofs/CfiMalformed.lean say lifts through it to whole entries
  (`cie_unknown_opcode`, `cie_length_past_data`, `cie_operand_cut`, `cie_length_short`), and through
  `parseEntries_first` to the section scan.  FDE side: the CIE pointer (`ciePtr_*`).  Augmentation strings
  outside the 'z' family (`aug_*`).
-/
import PyElf.Proofs.CfiEntries
import PyElf.Proofs.CfiEhFde
import PyElf.Proofs.CfiMalformed
namespace PyElf.Proofs.CfiBad
open PyElf PyElf.Spec PyElf.Model PyElf.Proofs PyElf.Proofs.Cfi

/-- the header part of `Cie.wf`: everything but the instruction list and the length -/
def cieHeaderWf (sec : Section) (c : Cie) : Bool :=
  (if sec.eh then !c.fmt64 && (c.version == 1 || c.version == 3)
   else (c.version == 1 || c.version == 3 || c.version == 4) && c.aug.isNone)
  && (c.version < 4 || (c.addrSize == sec.asz && c.segSize == 0))
  && c.caf.wf && c.daf.wf && (if c.version = 1 then decide (c.ra.v < 256) else c.ra.wf)
  && (match c.aug with
      | none => true
      | some items => (items.map AugItem.letter).Nodup && items.all (AugItem.wf sec.asz)
                      && decide (1 ≤ c.augLenN) && decide ((augData sec.le sec.asz items).length < 2 ^ (7 * c.augLenN)))

/-- where the instructions of such a CIE start -/
def cieInstrStart (sec : Section) (c : Cie) (off : Nat) : Nat :=
  off + ilfs c.fmt64 + cieHdrLen (offSize c.fmt64) c.version (augString c.aug) c.caf c.daf c.ra + (cieAugPart sec c).length

/-- the CIE object built from header `c`, length field `L` and instruction list `instrs` -/
def cieObj (sec : Section) (c : Cie) (L off : Nat) (instrs : List Instr) : Model.Entry :=
  .cie (cieFields L (cieIdv sec c) c.version (augString c.aug) c.addrSize c.segSize c.caf.v c.daf.v c.ra.v)
    instrs off (augDictObs sec.le sec.asz c.aug) (cieAugBytes sec c) (fmtOf c.fmt64)

theorem cie_prologue (sec : Section) (env : Env) (data : Bytes) (c : Cie) (L : Nat) (tail : Bytes)
    (off fuel pos : Nat) (cache : Cache)
    (hw : cieHeaderWf sec c = true) (hasz : sec.asz = 4 ∨ sec.asz = 8)
    (hd' : data.drop off = encLength sec.le c.fmt64 L ++
      cieHdrBytes sec.le (offSize c.fmt64) (cieIdv sec c) c.version (augString c.aug) c.addrSize c.segSize c.caf c.daf
        c.ra (cieAugPart sec c ++ tail))
    (hlen : lenOk c.fmt64 L = true) (hLpos : 0 < L) (hoff : off < 2 ^ 63)
    (hmiss : cache.get (off : Int) = none) :
    parseEntryAt (cfiOf sec env data) (fuel + 1) off pos cache
      = (parseInstructions Spec.cfiTables (Spec.dwarfStructs ⟨sec.le, fmtOf c.fmt64, sec.asz, 2⟩) env data
          (off + L + ilfs c.fmt64) (data.length + 1 - cieInstrStart sec c off) (cieInstrStart sec c off)).map
          (fun r => (cieObj sec c L off r.1, r.2, ((off : Int), cieObj sec c L off r.1) :: cache)) := by
  simp only [cieHeaderWf, Bool.and_eq_true] at hw
  obtain ⟨⟨⟨⟨⟨hkind, hv4⟩, hcaf⟩, hdaf⟩, hra⟩, haug⟩ := hw
  have hver : c.version = 1 ∨ c.version = 3 ∨ c.version = 4 := by
    cases heh : sec.eh <;> simp [heh] at hkind <;> omega
  have hid : cieIdv sec c < 256 ^ offSize c.fmt64 := by
    unfold cieIdv; split
    · exact Nat.pow_pos (by decide)
    · exact Nat.sub_lt (Nat.pow_pos (by decide)) (by decide)
  have ha : 4 ≤ c.version → c.addrSize < 256 := by
    intro h4
    simp only [Bool.or_eq_true, decide_eq_true_eq, Bool.and_eq_true, beq_iff_eq] at hv4
    omega
  have hs : 4 ≤ c.version → c.segSize < 256 := by
    intro h4
    simp only [Bool.or_eq_true, decide_eq_true_eq, Bool.and_eq_true, beq_iff_eq] at hv4
    omega
  have hra' : if c.version = 1 then c.ra.v < 256 else c.ra.wf = true := by
    split at hra
    · rename_i h1; simp only [h1, if_true]; simpa using hra
    · rename_i h1; simp only [h1, if_false]; exact hra
  have hwords := entry_words (env := env) hd' hlen hid
  have hhdr := sp_cie_header (env := env) hd' hlen hid hver (augString_nonzero c.aug) ha hs hcaf hdaf hra'
  obtain ⟨pre, hprelen, hpre⟩ := cieHdrBytes_split sec.le (offSize c.fmt64) (cieIdv sec c) c.version (augString c.aug)
    c.addrSize c.segSize c.caf c.daf c.ra (cieAugPart sec c ++ tail)
  have hd1 := drop_after hd' (encLength_length ..)
  rw [hpre] at hd1
  have hd2 := drop_after hd1 hprelen
  -- the augmentation
  have haugp : parseCieAugmentation (cfiOf sec env data) (Spec.dwarfStructs ⟨sec.le, fmtOf c.fmt64, sec.asz, 2⟩)
      (cieFields L (cieIdv sec c) c.version (augString c.aug) c.addrSize c.segSize c.caf.v c.daf.v c.ra.v)
      (off + ilfs c.fmt64 + cieHdrLen (offSize c.fmt64) c.version (augString c.aug) c.caf c.daf c.ra)
      = .ok (cieAugBytes sec c, augDictObs sec.le sec.asz c.aug,
          off + ilfs c.fmt64 + cieHdrLen (offSize c.fmt64) c.version (augString c.aug) c.caf c.daf c.ra
            + (cieAugPart sec c).length) := by
    cases hau : c.aug with
    | none =>
      rw [cieAug_none (by rw [cieFields_aug]; rfl)]
      simp [cieAugBytes, cieAugPart, hau, augDictObs]
    | some items =>
      cases heh : sec.eh with
      | false => simp [heh, hau] at hkind
      | true =>
        rw [hau] at haug
        simp only [Bool.and_eq_true, decide_eq_true_eq, List.all_eq_true] at haug
        have hd2' : (cfiOf sec env data).data.drop
            (off + ilfs c.fmt64 + cieHdrLen (offSize c.fmt64) c.version (augString c.aug) c.caf c.daf c.ra)
            = encUlebN c.augLenN (augData sec.le sec.asz items).length ++ (augData sec.le sec.asz items ++ tail) := by
          rw [show (cfiOf sec env data).data = data from rfl, hd2]
          simp [cieAugPart, hau, heh, List.append_assoc]
        rw [← hau]
        rw [cieAug_some (C := cfiOf sec env data) rfl heh (by rw [cieFields_aug, hau]; rfl) haug.1.1.1 haug.1.1.2
          haug.1.2 haug.2 hd2']
        simp [cieAugBytes, cieAugPart, hau, heh, encUlebN_length, Nat.add_assoc]
  obtain ⟨hw1, hw2⟩ := first_word sec.eh c.fmt64 _ hlen hLpos
  have hisCie : (if sec.eh = true then (cieIdv sec c == 0)
      else (fmtOf c.fmt64 == 32 && cieIdv sec c == 0xFFFFFFFF) || cieIdv sec c == 0xFFFFFFFFFFFFFFFF) = true := by
    unfold cieIdv fmtOf offSize
    cases sec.eh <;> cases c.fmt64 <;> decide
  have hw2' := hwords.2
  rw [fmtOf_div] at hw2'
  rw [parseEntryAt]
  simp only [hmiss, seekPos_nat off hoff, cfiOf_structs, cfiOf_eh, cfiOf_data, cfiOf_env, cfiOf_T, bind, Except.bind, pure,
    Except.pure, the_u32_eq, hwords.1, asNat_nat,
    hw1, hw2, Bool.false_eq_true, if_false, fmtOf_ilfs, the_offset_eq, fmtOf_div, hw2', hisCie, if_true, eh_cie_header_eq,
    cie_header_eq, ite_self, hhdr, asFields, haugp, cieFields_length, cieInstrStart]
  cases parseInstructions Spec.cfiTables (Spec.dwarfStructs ⟨sec.le, fmtOf c.fmt64, sec.asz, 2⟩) env data
    (off + L + ilfs c.fmt64)
    (data.length + 1 - (off + ilfs c.fmt64 + cieHdrLen (offSize c.fmt64) c.version (augString c.aug) c.caf c.daf c.ra
      + (cieAugPart sec c).length))
    (off + ilfs c.fmt64 + cieHdrLen (offSize c.fmt64) c.version (augString c.aug) c.caf c.daf c.ra
      + (cieAugPart sec c).length) <;> simp [Except.map, cieObj]

/-- the bytes at the start of the instructions -/
theorem cie_tail_drop (sec : Section) (data : Bytes) (c : Cie) (L : Nat) (tail : Bytes) (off : Nat)
    (hd' : data.drop off = encLength sec.le c.fmt64 L ++
      cieHdrBytes sec.le (offSize c.fmt64) (cieIdv sec c) c.version (augString c.aug) c.addrSize c.segSize c.caf c.daf
        c.ra (cieAugPart sec c ++ tail)) :
    data.drop (cieInstrStart sec c off) = tail := by
  obtain ⟨pre, hprelen, hpre⟩ := cieHdrBytes_split sec.le (offSize c.fmt64) (cieIdv sec c) c.version (augString c.aug)
    c.addrSize c.segSize c.caf c.daf c.ra (cieAugPart sec c ++ tail)
  have hd1 := drop_after hd' (encLength_length ..)
  rw [hpre] at hd1
  have hd2 := drop_after hd1 hprelen
  exact drop_after hd2 rfl

theorem cie_start_le (sec : Section) (data : Bytes) (c : Cie) (L : Nat) (tail : Bytes) (off : Nat)
    (hd' : data.drop off = encLength sec.le c.fmt64 L ++
      cieHdrBytes sec.le (offSize c.fmt64) (cieIdv sec c) c.version (augString c.aug) c.addrSize c.segSize c.caf c.daf
        c.ra (cieAugPart sec c ++ tail)) :
    data.length = cieInstrStart sec c off + tail.length := by
  have h := length_of_drop hd'
  simp only [List.length_append, encLength_length, cieHdrBytes_length] at h
  have hil : 4 ≤ ilfs c.fmt64 := by cases c.fmt64 <;> simp [ilfs]
  unfold cieInstrStart
  omega

/-- CLASS unknown opcode, whole entry: a CIE whose instruction list holds, after well-formed instructions and
    before its declared end, a byte outside the DW_CFA set: `_parse_entry_at` raises DWARFError -/
theorem cie_unknown_opcode (sec : Section) (env : Env) (data : Bytes) (c : Cie) (L : Nat) (is : List Cfa) (op : Nat)
    (rest : Bytes) (off fuel pos : Nat) (cache : Cache)
    (hw : cieHeaderWf sec c = true) (hasz : sec.asz = 4 ∨ sec.asz = 8)
    (hd' : data.drop off = encLength sec.le c.fmt64 L ++
      cieHdrBytes sec.le (offSize c.fmt64) (cieIdv sec c) c.version (augString c.aug) c.addrSize c.segSize c.caf c.daf
        c.ra (cieAugPart sec c ++ (encInstrs sec.le sec.asz is ++ (byte op ++ rest))))
    (hlen : lenOk c.fmt64 L = true) (hLpos : 0 < L) (hoff : off < 2 ^ 63) (hmiss : cache.get (off : Int) = none)
    (hwi : ∀ i ∈ is, i.wf sec.asz = true)
    (hend : cieInstrStart sec c off + (encInstrs sec.le sec.asz is).length < off + L + ilfs c.fmt64)
    (hlt : op < 0x40) (hunk : op ∉ knownExt) :
    parseEntryAt (cfiOf sec env data) (fuel + 1) off pos cache = .error .dwarfError := by
  rw [cie_prologue sec env data c L _ off fuel pos cache hw hasz hd' hlen hLpos hoff hmiss]
  have hl := cie_start_le sec data c L _ off hd'
  have hil := instrs_length_le sec.le sec.asz is
  simp only [List.length_append, byte, List.length_cons, List.length_nil] at hl
  obtain ⟨f, hf⟩ : ∃ f, data.length + 1 - cieInstrStart sec c off = f + 1 + is.length :=
    ⟨data.length + 1 - cieInstrStart sec c off - 1 - is.length, by omega⟩
  rw [hf, parseInstructions_unknown (instrStructs_spec sec.le (fmtOf c.fmt64) sec.asz 2) env data _ is _ f op rest
    (cie_tail_drop sec data c L _ off hd') hwi hend hlt hunk]
  rfl

/-- CLASS entry length running past the section: a CIE (well-formed header and instructions) that is the last
    thing in the data and whose length field claims more than the data holds: ELFParseError -/
theorem cie_length_past_data (sec : Section) (env : Env) (data : Bytes) (c : Cie) (L : Nat) (is : List Cfa)
    (off fuel pos : Nat) (cache : Cache)
    (hw : cieHeaderWf sec c = true) (hasz : sec.asz = 4 ∨ sec.asz = 8)
    (hd' : data.drop off = encLength sec.le c.fmt64 L ++
      cieHdrBytes sec.le (offSize c.fmt64) (cieIdv sec c) c.version (augString c.aug) c.addrSize c.segSize c.caf c.daf
        c.ra (cieAugPart sec c ++ encInstrs sec.le sec.asz is))
    (hlen : lenOk c.fmt64 L = true) (hLpos : 0 < L) (hoff : off < 2 ^ 63) (hmiss : cache.get (off : Int) = none)
    (hwi : ∀ i ∈ is, i.wf sec.asz = true)
    (hend : data.length < off + L + ilfs c.fmt64) :
    parseEntryAt (cfiOf sec env data) (fuel + 1) off pos cache = .error .elfParseError := by
  rw [cie_prologue sec env data c L _ off fuel pos cache hw hasz hd' hlen hLpos hoff hmiss]
  have hl := cie_start_le sec data c L _ off hd'
  have hil := instrs_length_le sec.le sec.asz is
  obtain ⟨f, hf⟩ : ∃ f, data.length + 1 - cieInstrStart sec c off = f + 1 + is.length :=
    ⟨data.length + 1 - cieInstrStart sec c off - 1 - is.length, by omega⟩
  rw [hf, parseInstructions_past_data (instrStructs_spec sec.le (fmtOf c.fmt64) sec.asz 2) env data _ is _ f
    (cie_tail_drop sec data c L _ off hd') hwi hend (by omega)]
  rfl

/-- CLASS truncated operand, whole entry: the data ends right after the opcode byte of an instruction that
    has operands: ELFParseError -/
theorem cie_operand_cut (sec : Section) (env : Env) (data : Bytes) (c : Cie) (L : Nat) (is : List Cfa) (i : Cfa)
    (off fuel pos : Nat) (cache : Cache)
    (hw : cieHeaderWf sec c = true) (hasz : sec.asz = 4 ∨ sec.asz = 8)
    (hd' : data.drop off = encLength sec.le c.fmt64 L ++
      cieHdrBytes sec.le (offSize c.fmt64) (cieIdv sec c) c.version (augString c.aug) c.addrSize c.segSize c.caf c.daf
        c.ra (cieAugPart sec c ++ (encInstrs sec.le sec.asz is ++ byte i.opcode)))
    (hlen : lenOk c.fmt64 L = true) (hLpos : 0 < L) (hoff : off < 2 ^ 63) (hmiss : cache.get (off : Int) = none)
    (hwi : ∀ j ∈ is, j.wf sec.asz = true) (hi : i.wf sec.asz = true) (ho : hasOperands i = true) (hop : i.opcode < 256)
    (hend : cieInstrStart sec c off + (encInstrs sec.le sec.asz is).length < off + L + ilfs c.fmt64) :
    parseEntryAt (cfiOf sec env data) (fuel + 1) off pos cache = .error .elfParseError := by
  rw [cie_prologue sec env data c L _ off fuel pos cache hw hasz hd' hlen hLpos hoff hmiss]
  have hl := cie_start_le sec data c L _ off hd'
  have hil := instrs_length_le sec.le sec.asz is
  simp only [List.length_append, byte, List.length_cons, List.length_nil] at hl
  obtain ⟨f, hf⟩ : ∃ f, data.length + 1 - cieInstrStart sec c off = f + 1 + is.length :=
    ⟨data.length + 1 - cieInstrStart sec c off - 1 - is.length, by omega⟩
  rw [hf, parseInstructions_operand_eof (instrStructs_spec sec.le (fmtOf c.fmt64) sec.asz 2) env data _ is _ f i
    (cie_tail_drop sec data c L _ off hd') hwi hi ho (by omega) hop hend]
  rfl

/-- CLASS entry length too short (the declared end falls inside an instruction): no error; the straddling
    instruction is read in full, belongs to the CIE, and the stream is left beyond the declared end -/
theorem cie_length_short (sec : Section) (env : Env) (data : Bytes) (c : Cie) (L : Nat) (is : List Cfa) (i : Cfa)
    (rest : Bytes) (off fuel pos : Nat) (cache : Cache)
    (hw : cieHeaderWf sec c = true) (hasz : sec.asz = 4 ∨ sec.asz = 8)
    (hd' : data.drop off = encLength sec.le c.fmt64 L ++
      cieHdrBytes sec.le (offSize c.fmt64) (cieIdv sec c) c.version (augString c.aug) c.addrSize c.segSize c.caf c.daf
        c.ra (cieAugPart sec c ++ (encInstrs sec.le sec.asz is ++ (i.enc sec.le sec.asz ++ rest))))
    (hlen : lenOk c.fmt64 L = true) (hLpos : 0 < L) (hoff : off < 2 ^ 63) (hmiss : cache.get (off : Int) = none)
    (hwi : ∀ j ∈ is, j.wf sec.asz = true) (hi : i.wf sec.asz = true)
    (hstart : cieInstrStart sec c off + (encInstrs sec.le sec.asz is).length < off + L + ilfs c.fmt64)
    (hend : off + L + ilfs c.fmt64
      ≤ cieInstrStart sec c off + (encInstrs sec.le sec.asz is).length + (i.enc sec.le sec.asz).length) :
    parseEntryAt (cfiOf sec env data) (fuel + 1) off pos cache
      = .ok (cieObj sec c L off (is.map toInstr ++ [toInstr i]),
             cieInstrStart sec c off + (encInstrs sec.le sec.asz is).length + (i.enc sec.le sec.asz).length,
             ((off : Int), cieObj sec c L off (is.map toInstr ++ [toInstr i])) :: cache) := by
  rw [cie_prologue sec env data c L _ off fuel pos cache hw hasz hd' hlen hLpos hoff hmiss]
  have hl := cie_start_le sec data c L _ off hd'
  have hil := instrs_length_le sec.le sec.asz is
  have hpi := enc_length_pos sec.le sec.asz i
  simp only [List.length_append] at hl
  obtain ⟨f, hf⟩ : ∃ f, data.length + 1 - cieInstrStart sec c off = f + 2 + is.length :=
    ⟨data.length + 1 - cieInstrStart sec c off - 2 - is.length, by omega⟩
  rw [hf, parseInstructions_overrun (instrStructs_spec sec.le (fmtOf c.fmt64) sec.asz 2) env data _ is _ f i rest
    (cie_tail_drop sec data c L _ off hd') hwi hi hstart hend]
  rfl

/-! ### the section scan stops at the first entry that fails -/

theorem parseEntries_first_error (C : Cfi) (size : Nat) (e : Err) (hsize : 0 < size)
    (h : parseEntryAt C (size + 2) ((0 : Nat) : Int) 0 [] = .error e) : parseEntries C size = .error e := by
  show parseEntriesLoop C size (size + 2) ((size + 1) + 1) 0 [] = _
  rw [parseEntriesLoop]
  simp only [hsize, if_true, h, bind, Except.bind]

/-- anywhere in the scan: the loop ends with the error of the first entry that fails, and an entry that parses is
    followed by the scan from where it left the stream -/
theorem parseEntriesLoop_error (C : Cfi) (size depth fuel off : Nat) (cache : Cache) (e : Err) (hoff : off < size)
    (h : parseEntryAt C depth (off : Int) off cache = .error e) :
    parseEntriesLoop C size depth (fuel + 1) off cache = .error e := by
  rw [parseEntriesLoop]
  simp only [hoff, if_true, h, bind, Except.bind]

theorem parseEntriesLoop_ok (C : Cfi) (size depth fuel off : Nat) (cache cache' : Cache) (en : Model.Entry) (p : Nat)
    (hoff : off < size) (h : parseEntryAt C depth (off : Int) off cache = .ok (en, p, cache')) :
    parseEntriesLoop C size depth (fuel + 1) off cache
      = (parseEntriesLoop C size depth fuel p cache').map (en :: ·) := by
  rw [parseEntriesLoop]
  simp only [hoff, if_true, h, bind, Except.bind, pure, Except.pure]
  cases parseEntriesLoop C size depth fuel p cache' <;> rfl

/-! ### the CIE pointer of an FDE -/

/-- CLASS CIE pointer out of range, `.debug_frame`: the pointer designates an offset at or beyond the end of the
    data (or one no C `Py_ssize_t` holds): ELFParseError from the recursive `_parse_entry_at` -/
theorem ciePtr_past_data (C : Cfi) (S32 : DwarfStructs) (le : Bool) (fuel fdeOff fmt pos : Nat) (header : Fields)
    (cache : Cache) (cp : Nat) (heh : C.eh = false) (hS : C.structs 32 = .ok S32)
    (hu32 : S32.the_Dwarf_uint32 = .uint 4 le)
    (hptr : Fields.getR header "CIE_pointer" = .ok (.int cp)) (hpast : C.data.length ≤ cp)
    (hmiss : cache.get (cp : Int) = none) :
    parseCieForFde C (parseEntryAt C (fuel + 1)) fdeOff header fmt pos cache = .error .elfParseError := by
  simp only [parseCieForFde, hptr, heh, Val.asInt, bind, Except.bind, Bool.false_eq_true, if_false, parseEntryAt, hmiss]
  by_cases hbig : cp < 2 ^ 63
  · simp only [seekPos_nat cp hbig, hS, hu32, sp_uint_eof (n := 4) (drop_eof hpast) (by simp)]
  · have h1 : ¬ ((cp : Int) < 0) := by omega
    have h2 : (cp : Int) ≥ 2 ^ 63 := by omega
    simp only [seekPos, h1, h2, if_false, if_true]

/-- CLASS CIE pointer out of range, `.eh_frame`: the distance back is larger than the offset of the pointer
    field: the designated offset is negative, the seek raises ValueError -/
theorem ciePtr_before_start (C : Cfi) (fuel fdeOff fmt pos : Nat) (header : Fields) (cache : Cache) (cp : Nat)
    (heh : C.eh = true) (hptr : Fields.getR header "CIE_pointer" = .ok (.int cp)) (hneg : fdeOff + fmt / 8 < cp)
    (hmiss : cache.get ((fdeOff : Int) + (fmt / 8 : Nat) - cp) = none) :
    parseCieForFde C (parseEntryAt C (fuel + 1)) fdeOff header fmt pos cache = .error .valueError := by
  have h1 : ((fdeOff : Int) + (fmt / 8 : Nat) - (cp : Int)) < 0 := by omega
  simp only [parseCieForFde, hptr, heh, Val.asInt, bind, Except.bind, if_true, parseEntryAt, hmiss, seekPos, h1]

/-- CLASS CIE pointer to a non-CIE: whatever entry `_parse_entry_at` yields at the designated offset — here one
    already in the cache, e.g. another FDE — becomes the FDE's `cie`; nothing checks its kind -/
theorem ciePtr_any_entry (C : Cfi) (fuel fdeOff fmt pos : Nat) (header : Fields) (cache : Cache) (cp : Int) (e : Model.Entry)
    (h : Fields) (len il : Nat)
    (hptr : Fields.getR header "CIE_pointer" = .ok (.int cp))
    (hc : cache.get (if C.eh then (fdeOff : Int) + (fmt / 8 : Nat) - cp else cp) = some e)
    (hh : e.header = .ok h) (hl : Fields.getR h "length" = .ok (.int len)) (hi : e.ilfs = .ok il) :
    parseCieForFde C (parseEntryAt C (fuel + 1)) fdeOff header fmt pos cache = .ok (e, cache) := by
  simp only [parseCieForFde, hptr, Val.asInt, bind, Except.bind]
  rw [entry_cached C fuel _ pos cache e h len il hc hh hl hi]
  rfl

/-- CLASS CIE pointer out of range, whole `.debug_frame` FDE: a well-formed FDE header whose CIE pointer `k`
    (not the CIE id) designates an offset at or beyond the end of the data: `_parse_entry_at` raises ELFParseError -/
theorem fde_ptr_past_data (sec : Section) (env : Env) (data : Bytes) (heh : sec.eh = false) (fmt64 : Bool) (L k : Nat)
    (loc range : Int) (tail : Bytes) (off fuel pos : Nat) (cache : Cache)
    (hd' : data.drop off = encLength sec.le fmt64 L ++ (encNat sec.le (offSize fmt64) k ++
      (encPtr sec.le sec.asz 0 loc ++ (encPtr sec.le sec.asz 0 range ++ tail))))
    (hlen : lenOk fmt64 L = true) (hLpos : 0 < L) (hk : k < 256 ^ offSize fmt64 - 1)
    (hfl : ptrFits sec.asz 0 loc = true) (hfr : ptrFits sec.asz 0 range = true)
    (hoff : off < 2 ^ 63) (hmiss : cache.get (off : Int) = none)
    (hpast : data.length ≤ k) (hmissk : cache.get (k : Int) = none) :
    parseEntryAt (cfiOf sec env data) (fuel + 2) off pos cache = .error .elfParseError := by
  have hkl' : k < 256 ^ offSize fmt64 := by omega
  have hwords := entry_words (env := env) hd' hlen hkl'
  have hw2' := hwords.2
  rw [fmtOf_div] at hw2'
  have hd1 := drop_after hd' (encLength_length ..)
  have hd2 := drop_after hd1 (encNat_length ..)
  have hd3 := drop_after hd2 (encPtr0_length ..)
  have hhdr := sp_fde_full (env := env) (c := .uint sec.asz sec.le) hd' hlen hkl'
    (fun ctx => by
      have := parse_ptr (env := env) (ctx := ctx) (le := sec.le) (asz := sec.asz) (base := 0) rfl hfl hd2
      rwa [encPtr0_length] at this)
    (fun ctx => by
      have := parse_ptr (env := env) (ctx := ctx) (le := sec.le) (asz := sec.asz) (base := 0) rfl hfr hd3
      rwa [encPtr0_length] at this)
  obtain ⟨hw1, hw2⟩ := first_word sec.eh fmt64 _ hlen hLpos
  have hisCie : ((fmtOf fmt64 == 32 && k == 0xFFFFFFFF) || k == 0xFFFFFFFFFFFFFFFF) = false := by
    revert hk; unfold fmtOf offSize
    cases fmt64 <;> simp <;> omega
  have hptr : Fields.getR [("length", Val.int (L : Nat)), ("CIE_pointer", Val.int (k : Nat)),
      ("initial_location", Val.int loc), ("address_range", Val.int range)] "CIE_pointer" = .ok (.int (k : Nat)) := rfl
  have hbad := fun (fdeOff fmt p : Nat) =>
    ciePtr_past_data (cfiOf sec env data) (Spec.dwarfStructs ⟨sec.le, 32, sec.asz, 2⟩) sec.le fuel fdeOff fmt p _ cache k
      heh rfl rfl hptr hpast hmissk
  rw [parseEntryAt]
  simp only [hmiss, seekPos_nat off hoff, cfiOf_structs, cfiOf_eh, cfiOf_data, cfiOf_env, cfiOf_T, bind, Except.bind, pure,
    Except.pure, the_u32_eq, hwords.1, asNat_nat,
    hw2, Bool.false_eq_true, if_false, fmtOf_ilfs, the_offset_eq, fmtOf_div, hw2', heh, hisCie,
    parseFdeHeader, Bool.not_false, if_true, fde_header_eq, hhdr, asFields, hbad, Bool.false_and]

/-- CLASS CIE pointer out of range, whole `.eh_frame` FDE: the distance back `cp` (non-zero: an FDE) reaches before
    the start of the section: ValueError (from the seek to a negative offset), already in `_parse_fde_header` -/
theorem fde_ptr_before_start (sec : Section) (env : Env) (data : Bytes) (heh : sec.eh = true) (fmt64 : Bool) (L cp : Nat)
    (rest : Bytes) (off fuel pos : Nat) (cache : Cache)
    (hd' : data.drop off = encLength sec.le fmt64 L ++ (encNat sec.le (offSize fmt64) cp ++ rest))
    (hlen : lenOk fmt64 L = true) (hLpos : 0 < L) (hcp : cp < 256 ^ offSize fmt64) (hcp0 : cp ≠ 0)
    (hoff : off < 2 ^ 63) (hmiss : cache.get (off : Int) = none)
    (hneg : off + offSize fmt64 < cp)
    (hmissk : cache.get ((off : Int) + (offSize fmt64 : Nat) - cp) = none) :
    parseEntryAt (cfiOf sec env data) (fuel + 2) off pos cache = .error .valueError := by
  have hwords := entry_words (env := env) hd' hlen hcp
  have hw2' := hwords.2
  rw [fmtOf_div] at hw2'
  have hmin := sp_fde_min (env := env) hd' hlen hcp
  obtain ⟨hw1, hw2⟩ := first_word sec.eh fmt64 _ hlen hLpos
  have hisCie : (cp == 0) = false := by simpa using hcp0
  have hw1' : ((if fmt64 = true then 4294967295 else L : Nat) == 0) = false := by simpa [heh] using hw1
  have hptr : Fields.getR [("length", Val.int (L : Nat)), ("CIE_pointer", Val.int (cp : Nat))] "CIE_pointer"
      = .ok (.int (cp : Nat)) := rfl
  have hbad := fun (p : Nat) =>
    ciePtr_before_start (cfiOf sec env data) fuel off (fmtOf fmt64) p _ cache cp heh hptr
      (by rw [fmtOf_div]; exact hneg) (by rw [fmtOf_div]; exact hmissk)
  rw [parseEntryAt]
  simp only [hmiss, seekPos_nat off hoff, cfiOf_structs, cfiOf_eh, cfiOf_data, cfiOf_env, cfiOf_T, bind, Except.bind, pure,
    Except.pure, the_u32_eq, hwords.1, asNat_nat,
    hw2, Bool.false_eq_true, if_false, fmtOf_ilfs, the_offset_eq, fmtOf_div, hw2', heh, hisCie,
    parseFdeHeader, Bool.not_true, if_true, dwarf_initlen_eq, dwarf_offset_eq, hmin, asFields, hbad, Bool.true_and]
  simp [hw1']

/-! ### augmentation strings outside the 'z' family -/

/-- CLASS unknown augmentation: a non-empty augmentation string that neither begins with `armcc` nor with `z`:
    AssertionError (`assert augmentation.startswith(b'z')`) -/
theorem aug_not_z (C : Cfi) (S : DwarfStructs) (header : Fields) (pos : Nat) (augB : Bytes)
    (ha : Fields.get? header "augmentation" = some (.bytes augB)) (hne : augB ≠ [])
    (harm : ([0x61, 0x72, 0x6d, 0x63, 0x63] : Bytes).isPrefixOf augB = false)
    (hz : ([0x7a] : Bytes).isPrefixOf augB = false) :
    parseCieAugmentation C S header pos = .error .assertion := by
  have ht : (Val.bytes augB).truthy = true := by
    cases augB with
    | nil => exact absurd rfl hne
    | cons b bs => simp [Val.truthy]
  simp [parseCieAugmentation, ha, ht, harm, hz, bind, Except.bind, pure, Except.pure]

/-- CLASS unknown augmentation, whole CIE (either section kind): a CIE header — any version 1/3/4, any fields —
    whose augmentation string `augB` is non-empty and begins neither with `z` nor with `armcc`:
    `_parse_entry_at` raises AssertionError -/
theorem cie_bad_aug (sec : Section) (env : Env) (data : Bytes) (fmt64 : Bool) (L ver a sg : Nat) (augB : Bytes)
    (caf : ULeb) (daf : SLeb) (ra : ULeb) (tail : Bytes) (off fuel pos : Nat) (cache : Cache)
    (hd' : data.drop off = encLength sec.le fmt64 L ++
      cieHdrBytes sec.le (offSize fmt64) (if sec.eh then 0 else 256 ^ offSize fmt64 - 1) ver augB a sg caf daf ra tail)
    (hlen : lenOk fmt64 L = true) (hLpos : 0 < L) (hoff : off < 2 ^ 63) (hmiss : cache.get (off : Int) = none)
    (hver : ver = 1 ∨ ver = 3 ∨ ver = 4) (haug0 : ∀ b ∈ augB, b ≠ 0)
    (ha : 4 ≤ ver → a < 256) (hs : 4 ≤ ver → sg < 256) (hcaf : caf.wf = true) (hdaf : daf.wf = true)
    (hra : if ver = 1 then ra.v < 256 else ra.wf = true)
    (hne : augB ≠ []) (harm : ([0x61, 0x72, 0x6d, 0x63, 0x63] : Bytes).isPrefixOf augB = false)
    (hz : ([0x7a] : Bytes).isPrefixOf augB = false) :
    parseEntryAt (cfiOf sec env data) (fuel + 1) off pos cache = .error .assertion := by
  have hid : (if sec.eh then 0 else 256 ^ offSize fmt64 - 1) < 256 ^ offSize fmt64 := by
    split
    · exact Nat.pow_pos (by decide)
    · exact Nat.sub_lt (Nat.pow_pos (by decide)) (by decide)
  have hwords := entry_words (env := env) hd' hlen hid
  have hhdr := sp_cie_header (env := env) hd' hlen hid hver haug0 ha hs hcaf hdaf hra
  obtain ⟨hw1, hw2⟩ := first_word sec.eh fmt64 _ hlen hLpos
  have hisCie : (if sec.eh = true then ((if sec.eh then 0 else 256 ^ offSize fmt64 - 1 : Nat) == 0)
      else (fmtOf fmt64 == 32 && (if sec.eh then 0 else 256 ^ offSize fmt64 - 1 : Nat) == 0xFFFFFFFF)
        || (if sec.eh then 0 else 256 ^ offSize fmt64 - 1 : Nat) == 0xFFFFFFFFFFFFFFFF) = true := by
    unfold fmtOf offSize
    cases sec.eh <;> cases fmt64 <;> decide
  have hw2' := hwords.2
  rw [fmtOf_div] at hw2'
  have hbad := fun (p : Nat) => aug_not_z (cfiOf sec env data) (Spec.dwarfStructs ⟨sec.le, fmtOf fmt64, sec.asz, 2⟩)
    (cieFields L (if sec.eh then 0 else 256 ^ offSize fmt64 - 1) ver augB a sg caf.v daf.v ra.v) p augB
    (cieFields_aug ..) hne harm hz
  rw [parseEntryAt]
  simp only [hmiss, seekPos_nat off hoff, cfiOf_structs, cfiOf_eh, cfiOf_data, cfiOf_env, cfiOf_T, bind, Except.bind, pure,
    Except.pure, the_u32_eq, hwords.1, asNat_nat,
    hw1, hw2, Bool.false_eq_true, if_false, fmtOf_ilfs, the_offset_eq, fmtOf_div, hw2', hisCie, if_true, eh_cie_header_eq,
    cie_header_eq, ite_self, hhdr, asFields, hbad]

/-- `armcc…`: ignored, no augmentation data is read -/
theorem aug_armcc (C : Cfi) (S : DwarfStructs) (header : Fields) (pos : Nat) (augB : Bytes)
    (ha : Fields.get? header "augmentation" = some (.bytes augB))
    (harm : ([0x61, 0x72, 0x6d, 0x63, 0x63] : Bytes).isPrefixOf augB = true) :
    parseCieAugmentation C S header pos = .ok ([], [], pos) := by
  have ht : (Val.bytes augB).truthy = true := by
    cases augB with
    | nil => simp at harm
    | cons b bs => simp [Val.truthy]
  simp [parseCieAugmentation, ha, ht, harm, bind, Except.bind, pure, Except.pure]

/-- CLASS unknown augmentation letter after `z`: the loop over the letters BREAKS at the first letter outside
    z / L / R / S / P (the `KeyError → break`): the letters before it decide the fields, everything from the
    unknown letter on is ignored -/
theorem aug_unknown_letter (T : CfiTables) (S : DwarfStructs) (b : UInt8) (rest : Bytes)
    (hb : b ≠ 0x7a ∧ b ≠ 0x4c ∧ b ≠ 0x52 ∧ b ≠ 0x53 ∧ b ≠ 0x50) :
    ∀ (pre : Bytes) (fields : List (String × Con)) (d : Fields),
      augFieldsLoop T S (pre ++ b :: rest) fields d = augFieldsLoop T S pre fields d := by
  intro pre
  induction pre with
  | nil =>
    intro fields d
    simp [augFieldsLoop, hb.1, hb.2.1, hb.2.2.1, hb.2.2.2.1, hb.2.2.2.2]
  | cons x xs ih =>
    intro fields d
    simp only [List.cons_append, augFieldsLoop]
    split
    · exact ih _ _
    · split
      · exact ih _ _
      · split
        · exact ih _ _
        · split
          · exact ih _ _
          · split
            · simp only [bind, Except.bind]
              split
              · rfl
              · exact ih _ _
            · rfl

end PyElf.Proofs.CfiBad
