/-
  C07 × C12: the expression bytes a location entry (or a `LocationExpr`) carries, handed to `DWARFExprParser`.

  `loc_expr` is a Python list of ints (`exprVal`); `parse_expr` wraps it in `BytesIO(bytes(expr))` — `exprBytes`
  is that conversion (`bytes()` refuses an element outside 0..255: `none`).
-/
import PyElf.Spec.Lists
import PyElf.Model.Lists
import PyElf.Model.DwarfExpr
namespace PyElf.Proofs.ListsExpr
open PyElf PyElf.Spec PyElf.Spec.Lists

/-- `bytes(loc_expr)` -/
def exprBytes : Val → Option Bytes
  | .list vs => vs.mapM fun v => match v with
      | .int n => if 0 ≤ n ∧ n < 256 then some (UInt8.ofNat n.toNat) else none
      | _ => none
  | _ => none

theorem exprBytes_exprVal (x : Bytes) : exprBytes (exprVal x) = some x := by
  unfold exprBytes exprVal
  simp only
  induction x with
  | nil => rfl
  | cons b x ih =>
    rw [List.map_cons, List.mapM_cons, ih]
    have hb : b.toNat < 256 := b.toNat_lt
    have h1 : (0 : Int) ≤ (b.toNat : Int) ∧ (b.toNat : Int) < 256 := by omega
    simp only [h1, and_self, if_true, Int.toNat_natCast, bind, Option.bind, pure]
    congr 2
    exact UInt8.ofNat_toNat

/-- the `loc_expr` field of a location entry is its expression bytes -/
theorem locationEntry_expr (off len : Nat) (b e : Int) (x : Bytes) (abs : Bool) :
    Model.Lists.attr (locationEntry off len b e x abs) "loc_expr" = .ok (exprVal x) := by
  simp [Model.Lists.attr, locationEntry, Fields.get?]

end PyElf.Proofs.ListsExpr
