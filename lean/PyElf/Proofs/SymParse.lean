/-
  `Elf_Sym` parses back what `encSym` wrote.
-/
import PyElf.Proofs.Primitives
import PyElf.Spec.ElfStructs
import PyElf.Spec.Symbols
import PyElf.Model.Symbols
namespace PyElf.Proofs
open PyElf PyElf.Spec PyElf.Model

/-- one named, non-embedded field whose parse leaves the context alone -/
theorem parseFields_named {env : Env} {data : Bytes} {nm : String} {c : Con} {rest : ConFields}
    {obj ctx : Fields} {pos p : Nat} {v : Val}
    (h : Con.parse env data c ctx pos = .ok (v, p, ctx)) :
    Con.parseFields env data (.cons (some nm) false c rest) obj ctx pos
      = Con.parseFields env data rest (Fields.set obj nm v) (Fields.set ctx nm v) p := by
  rw [Con.parseFields]
  simp [h, bind, Except.bind]

theorem sym_encNat_one (le : Bool) (v : Nat) : encNat le 1 v = [UInt8.ofNat (v % 256)] := by
  cases le <;> simp [encNat, natBE, natLE]

theorem splitBits_named (env : Env) (v total w : Nat) (nm tbl : String) (rest : List BitFld) (acc : Fields) :
    splitBits env v total (⟨some nm, w, some (tbl, true)⟩ :: rest) acc
      = splitBits env v (total - w) rest (acc ++ [(nm, nameOr env.enumDecode tbl ((v >>> (total - w)) % 2 ^ w))]) := by
  rw [splitBits]
  simp only [nameOr]
  cases env.enumDecode tbl ((v >>> (total - w) % 2 ^ w : Nat) : Int) <;> simp

theorem splitBits_pad (env : Env) (v total w : Nat) (rest : List BitFld) (acc : Fields) :
    splitBits env v total (⟨none, w, none⟩ :: rest) acc = splitBits env v (total - w) rest acc := by
  rw [splitBits]

/-- the `st_info` BitStruct -/
theorem parse_st_info {env : Env} {data : Bytes} {pos : Nat} {ctx : Fields} {le : Bool} {v : Nat} {rest : Bytes}
    (hv : v < 256) (hd : data.drop pos = encNat le 1 v ++ rest) :
    Con.parse env data (.bits [⟨some "bind", 4, some ("ENUM_ST_INFO_BIND", true)⟩,
                               ⟨some "type", 4, some ("ENUM_ST_INFO_TYPE", true)⟩]) ctx pos
      = .ok (.record [("bind", nameOr env.enumDecode "ENUM_ST_INFO_BIND" (v / 16 % 16)),
                      ("type", nameOr env.enumDecode "ENUM_ST_INFO_TYPE" (v % 16))], pos + 1, ctx) := by
  rw [sym_encNat_one] at hd
  rw [Con.parse]
  have hr : readExact data pos 1 = .ok [UInt8.ofNat (v % 256)] := readExact_ok hd rfl
  have hb : beNat [UInt8.ofNat (v % 256)] = v := by
    simp [beNat, leNat]; omega
  simp only [List.foldl_cons, List.foldl_nil, Nat.zero_add, show (4 + 4 + 7) / 8 = 1 from rfl, hr, bind, Except.bind,
    hb, splitBits, Nat.mul_one, List.nil_append, List.cons_append, Nat.shiftRight_eq_div_pow]
  simp only [show 8 - 4 = 4 from rfl, show 4 - 4 = 0 from rfl, Nat.pow_zero, Nat.div_one, show (2:Nat) ^ 4 = 16 from rfl]
  simp only [nameOr]
  generalize env.enumDecode "ENUM_ST_INFO_BIND" ((v / 16 % 16 : Nat) : Int) = a
  generalize env.enumDecode "ENUM_ST_INFO_TYPE" ((v % 16 : Nat) : Int) = b
  cases a <;> cases b <;> rfl

/-- the `st_other` BitStruct -/
theorem parse_st_other {env : Env} {data : Bytes} {pos : Nat} {ctx : Fields} {le : Bool} {v : Nat} {rest : Bytes}
    (hv : v < 256) (hd : data.drop pos = encNat le 1 v ++ rest) :
    Con.parse env data (.bits [⟨some "local", 3, some ("ENUM_ST_LOCAL", true)⟩, ⟨none, 2, none⟩,
                               ⟨some "visibility", 3, some ("ENUM_ST_VISIBILITY", true)⟩]) ctx pos
      = .ok (.record [("local", nameOr env.enumDecode "ENUM_ST_LOCAL" (v / 32 % 8)),
                      ("visibility", nameOr env.enumDecode "ENUM_ST_VISIBILITY" (v % 8))], pos + 1, ctx) := by
  rw [sym_encNat_one] at hd
  rw [Con.parse]
  have hr : readExact data pos 1 = .ok [UInt8.ofNat (v % 256)] := readExact_ok hd rfl
  have hb : beNat [UInt8.ofNat (v % 256)] = v := by
    simp [beNat, leNat]; omega
  simp only [List.foldl_cons, List.foldl_nil, Nat.zero_add, show (3 + 2 + 3 + 7) / 8 = 1 from rfl, hr, bind, Except.bind,
    hb, splitBits, Nat.mul_one, List.nil_append, List.cons_append, Nat.shiftRight_eq_div_pow]
  simp only [show 8 - 3 = 5 from rfl, show 5 - 2 = 3 from rfl, show 3 - 3 = 0 from rfl, Nat.pow_zero, Nat.div_one,
    show (2:Nat) ^ 5 = 32 from rfl, show (2:Nat) ^ 3 = 8 from rfl]
  simp only [nameOr]
  generalize env.enumDecode "ENUM_ST_LOCAL" ((v / 32 % 8 : Nat) : Int) = a
  generalize env.enumDecode "ENUM_ST_VISIBILITY" ((v % 8 : Nat) : Int) = b
  cases a <;> cases b <;> rfl

theorem parse_enum_uint {env : Env} {data : Bytes} {pos n : Nat} {le : Bool} {ctx : Fields} {tbl : String}
    {v : Nat} {rest : Bytes} (hv : v < 256 ^ n) (hd : data.drop pos = encNat le n v ++ rest) :
    Con.parse env data (.enum (.uint n le) tbl true) ctx pos = .ok (nameOr env.enumDecode tbl v, pos + n, ctx) := by
  rw [Con.parse, parse_uint_ok hd (encNat_length le n v), decNat_encNat_of_lt le hv]
  simp only [bind, Except.bind, nameOr]
  cases env.enumDecode tbl (v : Int) <;> rfl

theorem parse_uint_enc {env : Env} {data : Bytes} {pos n : Nat} {le : Bool} {ctx : Fields}
    {v : Nat} {rest : Bytes} (hv : v < 256 ^ n) (hd : data.drop pos = encNat le n v ++ rest) :
    Con.parse env data (.uint n le) ctx pos = .ok (.int v, pos + n, ctx) := by
  rw [parse_uint_ok hd (encNat_length le n v), decNat_encNat_of_lt le hv]

def stInfoCon : Con := .bits [⟨some "bind", 4, some ("ENUM_ST_INFO_BIND", true)⟩, ⟨some "type", 4, some ("ENUM_ST_INFO_TYPE", true)⟩]
def stOtherCon : Con := .bits [⟨some "local", 3, some ("ENUM_ST_LOCAL", true)⟩, ⟨none, 2, none⟩,
                               ⟨some "visibility", 3, some ("ENUM_ST_VISIBILITY", true)⟩]

/-- the Spec bundle's Elf32_Sym, spelled out -/
theorem elfSym32 (le : Bool) (m : String) (sol core : Bool) :
    (Spec.elfStructs ⟨le, 32, m, sol, core⟩).Elf_Sym
      = .struct (.cons (some "st_name") false (.uint 4 le) (.cons (some "st_value") false (.uint 4 le)
          (.cons (some "st_size") false (.uint 4 le) (.cons (some "st_info") false stInfoCon
          (.cons (some "st_other") false stOtherCon
          (.cons (some "st_shndx") false (.enum (.uint 2 le) "ENUM_ST_SHNDX" true) .nil)))))) := by
  simp [Spec.elfStructs, st, f, mkFields, enumOf, stInfoCon, stOtherCon]

theorem elfSym64 (le : Bool) (m : String) (sol core : Bool) :
    (Spec.elfStructs ⟨le, 64, m, sol, core⟩).Elf_Sym
      = .struct (.cons (some "st_name") false (.uint 4 le) (.cons (some "st_info") false stInfoCon
          (.cons (some "st_other") false stOtherCon
          (.cons (some "st_shndx") false (.enum (.uint 2 le) "ENUM_ST_SHNDX" true)
          (.cons (some "st_value") false (.uint 8 le) (.cons (some "st_size") false (.uint 8 le) .nil)))))) := by
  simp [Spec.elfStructs, st, f, mkFields, enumOf, stInfoCon, stOtherCon]

theorem SymE.WF_facts {cls : Nat} {e : SymE} (h : e.WF cls = true) :
    e.stName < 2 ^ 32 ∧ e.value < 2 ^ cls ∧ e.size < 2 ^ cls ∧ e.info < 256 ∧ e.other < 256 ∧ e.shndx < 65536 := by
  simp only [SymE.WF, Bool.and_eq_true, decide_eq_true_eq] at h
  obtain ⟨⟨⟨⟨⟨a, b⟩, c⟩, d⟩, e'⟩, f'⟩ := h
  exact ⟨a, b, c, d, e', f'⟩

/-- Elf32_Sym round trip, at any position, whatever follows -/
theorem sym_roundtrip32 (env : Env) (le : Bool) (m : String) (sol core : Bool) (e : SymE) (hwf : e.WF 32 = true)
    (data : Bytes) (pos : Nat) (rest : Bytes) (hd : data.drop pos = encSym le 32 e ++ rest) :
    structParse env (Spec.elfStructs ⟨le, 32, m, sol, core⟩).Elf_Sym data pos
      = .ok (obsEntry env.enumDecode 32 e, pos + 16) := by
  obtain ⟨w1, w2, w3, w4, w5, w6⟩ := SymE.WF_facts hwf
  have h0 : data.drop pos = encNat le 4 e.stName ++ (encNat le 4 e.value ++ (encNat le 4 e.size ++
      (encNat le 1 e.info ++ (encNat le 1 e.other ++ (encNat le 2 e.shndx ++ rest))))) := by
    rw [hd]; simp [encSym, List.append_assoc]
  have h1 := drop_add_of_drop h0; rw [encNat_length] at h1
  have h2 := drop_add_of_drop h1; rw [encNat_length] at h2
  have h3 := drop_add_of_drop h2; rw [encNat_length] at h3
  have h4 := drop_add_of_drop h3; rw [encNat_length] at h4
  have h5 := drop_add_of_drop h4; rw [encNat_length] at h5
  rw [elfSym32, structParse, Con.parse]
  simp only [stInfoCon, stOtherCon]
  rw [parseFields_named (parse_uint_enc (by omega) h0), parseFields_named (parse_uint_enc (by omega) h1),
    parseFields_named (parse_uint_enc (by omega) h2), parseFields_named (parse_st_info w4 h3),
    parseFields_named (parse_st_other w5 h4), parseFields_named (parse_enum_uint (by omega) h5), Con.parseFields]
  simp [bind, Except.bind, pure, Except.pure, Fields.set, obsEntry, Nat.add_assoc]

/-- Elf64_Sym round trip -/
theorem sym_roundtrip64 (env : Env) (le : Bool) (m : String) (sol core : Bool) (e : SymE) (hwf : e.WF 64 = true)
    (data : Bytes) (pos : Nat) (rest : Bytes) (hd : data.drop pos = encSym le 64 e ++ rest) :
    structParse env (Spec.elfStructs ⟨le, 64, m, sol, core⟩).Elf_Sym data pos
      = .ok (obsEntry env.enumDecode 64 e, pos + 24) := by
  obtain ⟨w1, w2, w3, w4, w5, w6⟩ := SymE.WF_facts hwf
  have h0 : data.drop pos = encNat le 4 e.stName ++ (encNat le 1 e.info ++ (encNat le 1 e.other ++
      (encNat le 2 e.shndx ++ (encNat le 8 e.value ++ (encNat le 8 e.size ++ rest))))) := by
    rw [hd]; simp [encSym, List.append_assoc]
  have h1 := drop_add_of_drop h0; rw [encNat_length] at h1
  have h2 := drop_add_of_drop h1; rw [encNat_length] at h2
  have h3 := drop_add_of_drop h2; rw [encNat_length] at h3
  have h4 := drop_add_of_drop h3; rw [encNat_length] at h4
  have h5 := drop_add_of_drop h4; rw [encNat_length] at h5
  rw [elfSym64, structParse, Con.parse]
  simp only [stInfoCon, stOtherCon]
  rw [parseFields_named (parse_uint_enc (by omega) h0), parseFields_named (parse_st_info w4 h1),
    parseFields_named (parse_st_other w5 h2), parseFields_named (parse_enum_uint (by omega) h3),
    parseFields_named (parse_uint_enc (by omega) h4), parseFields_named (parse_uint_enc (by omega) h5), Con.parseFields]
  simp [bind, Except.bind, pure, Except.pure, Fields.set, obsEntry, Nat.add_assoc]

end PyElf.Proofs
