/-
  C06 helper lemmas: exact behaviour on MALFORMED call-frame data, instruction level.

    * an opcode byte outside the DW_CFA set                     → DWARFError          (`parseInstr_unknown`)
    * the data ends where an opcode byte is expected            → ELFParseError       (`parseInstr_eof`)
    * the data ends right after the opcode byte of an instruction that has operands,
      or inside its first operand (fixed-width operands)        → ELFParseError       (`parseInstr_operand_eof`)
    * a good prefix of instructions does not change any of this (`parseInstructions_prefix`)
    * an instruction that straddles the declared end of the entry is read in full: the scan does not stop
      inside an operand, the stream ends up BEYOND `end_offset`                         (`parseInstructions_overrun`)
-/
import PyElf.Spec.CFI
import PyElf.Spec.DwarfStructs
import PyElf.Model.CallFrame
import PyElf.Proofs.Primitives
import PyElf.Proofs.CfiTable
import PyElf.Proofs.CfiParse
namespace PyElf.Proofs.CfiBad
open PyElf PyElf.Spec PyElf.Model PyElf.Proofs PyElf.Proofs.Cfi

/-! ### primitives at the end of the data -/

theorem drop_eof {data : Bytes} {pos : Nat} (h : data.length ≤ pos) : data.drop pos = [] :=
  List.drop_eq_nil_of_le h

theorem sp_uint_eof {env : Env} {data : Bytes} {pos n : Nat} {le : Bool} {bs : Bytes}
    (hd : data.drop pos = bs) (hn : bs.length < n) :
    structParse env (.uint n le) data pos = .error .elfParseError := by
  simp only [structParse, parse_uint_short hd hn, bind, Except.bind]

theorem sp_uleb_eof {env : Env} {data : Bytes} {pos : Nat} (h : data.length ≤ pos) :
    structParse env .uleb data pos = .error .elfParseError := by
  have := parseUleb_trunc (data := data) (pos := pos) (bs := []) (drop_eof h) (by simp)
  simp only [structParse, Con.parse, this, bind, Except.bind]

theorem sp_sleb_eof {env : Env} {data : Bytes} {pos : Nat} (h : data.length ≤ pos) :
    structParse env .sleb data pos = .error .elfParseError := by
  have := parseSleb_trunc (data := data) (pos := pos) (bs := []) (drop_eof h) (by simp)
  simp only [structParse, Con.parse, this, bind, Except.bind]

theorem sp_block_eof {env : Env} {data : Bytes} {pos : Nat} {le : Bool} (h : data.length ≤ pos) :
    structParse env (.prefixed .uleb (.uint 1 le)) data pos = .error .elfParseError := by
  have := parseUleb_trunc (data := data) (pos := pos) (bs := []) (drop_eof h) (by simp)
  simp only [structParse, Con.parse, this, bind, Except.bind]

/-! ### unknown opcode -/

/-- the extended (high bits 00) opcodes of the DW_CFA set: DWARF 5 table 7.29 plus the two vendor opcodes -/
def knownExt : List Nat :=
  [0, 1, 2, 3, 4, 5, 6, 7, 8, 9, 0xa, 0xb, 0xc, 0xd, 0xe, 0xf, 0x10, 0x11, 0x12, 0x13, 0x14, 0x15, 0x16, 0x2d, 0x2e]

theorem and_c0_lt : ∀ op < 64, op &&& 0xc0 = 0 := by decide

/-- `dwarf_assert(False, 'Unknown CFI opcode')`: an opcode byte outside the DW_CFA set -/
theorem parseInstrArgs_unknown (S : DwarfStructs) (env : Env) (data : Bytes) (op p : Nat)
    (hlt : op < 0x40) (hunk : op ∉ knownExt) :
    parseInstrArgs Spec.cfiTables S env data op p = .error .dwarfError := by
  have h0 := and_c0_lt op hlt
  simp only [knownExt, List.mem_cons, List.not_mem_nil, or_false, not_or] at hunk
  obtain ⟨h00, h01, h02, h03, h04, h05, h06, h07, h08, h09, h0a, h0b, h0c, h0d, h0e, h0f, h10, h11, h12, h13, h14,
    h15, h16, h2d, h2e⟩ := hunk
  simp [parseInstrArgs, Spec.cfiTables, cfaOps, h0, h00, h01, h02, h03, h04, h05, h06, h07, h08, h09, h0a, h0b, h0c,
    h0d, h0e, h0f, h10, h11, h12, h13, h14, h15, h16, h2d, h2e]

theorem parseInstr_unknown {S : DwarfStructs} {le : Bool} {asz : Nat} (hS : InstrStructs S le asz) (env : Env)
    (data : Bytes) (pos op : Nat) (rest : Bytes) (hd : data.drop pos = byte op ++ rest)
    (hlt : op < 0x40) (hunk : op ∉ knownExt) :
    parseInstr Spec.cfiTables S env data pos = .error .dwarfError := by
  simp only [parseInstr, hS.u8, sp_byte hd (by omega), asNat_nat, parseInstrArgs_unknown S env data op (pos + 1) hlt hunk,
    bind, Except.bind]

/-! ### end of data -/

/-- the data ends where an opcode byte is expected (the declared end of the entry lies beyond the section) -/
theorem parseInstr_eof {S : DwarfStructs} {le : Bool} {asz : Nat} (hS : InstrStructs S le asz) (env : Env)
    (data : Bytes) (pos : Nat) (h : data.length ≤ pos) :
    parseInstr Spec.cfiTables S env data pos = .error .elfParseError := by
  simp only [parseInstr, hS.u8, sp_uint_eof (n := 1) (drop_eof h) (by simp), bind, Except.bind]

/-- an instruction has operands -/
def hasOperands : Cfa → Bool
  | .advance_loc _ | .restore _ | .nop | .remember_state | .restore_state | .negate_ra_state => false
  | _ => true

set_option maxHeartbeats 1000000 in
set_option linter.unusedSimpArgs false in
/-- the data ends right after the opcode byte of an instruction that has operands -/
theorem parseInstrArgs_eof {S : DwarfStructs} {le : Bool} {asz : Nat} (hS : InstrStructs S le asz) (env : Env)
    (data : Bytes) (p : Nat) (i : Cfa) (hw : i.wf asz = true) (ho : hasOperands i = true) (hasz : 0 < asz)
    (h : data.length ≤ p) :
    parseInstrArgs Spec.cfiTables S env data i.opcode p = .error .elfParseError := by
  have hu := sp_uleb_eof (env := env) h
  have hs := sp_sleb_eof (env := env) h
  have hb := sp_block_eof (env := env) (le := le) h
  have h1 := sp_uint_eof (env := env) (n := 1) (le := le) (drop_eof h) (by simp)
  have h2 := sp_uint_eof (env := env) (n := 2) (le := le) (drop_eof h) (by simp)
  have h4 := sp_uint_eof (env := env) (n := 4) (le := le) (drop_eof h) (by simp)
  have ha := sp_uint_eof (env := env) (n := asz) (le := le) (drop_eof h) (by simpa using hasz)
  cases i <;> simp only [hasOperands, Bool.false_eq_true] at ho <;>
    first
    | (rename_i d o
       simp only [Cfa.wf, Bool.and_eq_true, decide_eq_true_eq] at hw
       simp (config := { decide := true }) [Cfa.opcode, parseInstrArgs, Spec.cfiTables, cfaOps, hS.uleb, hS.sleb, hS.u8,
         hS.u16, hS.u32, hS.addr, formBlock_ok hS, bind, Except.bind, pure, Except.pure, and_c0_80 d hw.1,
         and_3f_80 d hw.1, hu, hs, hb, h1, h2, h4, ha])
    | simp (config := { decide := true }) [Cfa.opcode, parseInstrArgs, Spec.cfiTables, cfaOps, hS.uleb, hS.sleb, hS.u8,
        hS.u16, hS.u32, hS.addr, formBlock_ok hS, bind, Except.bind, pure, Except.pure, hu, hs, hb, h1, h2, h4, ha]

/-- … as `_parse_instructions` sees it: ELFParseError from the operand read -/
theorem parseInstr_operand_eof {S : DwarfStructs} {le : Bool} {asz : Nat} (hS : InstrStructs S le asz) (env : Env)
    (data : Bytes) (pos : Nat) (i : Cfa) (hw : i.wf asz = true) (ho : hasOperands i = true) (hasz : 0 < asz)
    (hd : data.drop pos = byte i.opcode) (hop : i.opcode < 256) :
    parseInstr Spec.cfiTables S env data pos = .error .elfParseError := by
  have hlen : data.length ≤ pos + 1 := by
    have := congrArg List.length hd
    simp [byte] at this; omega
  have hd' : data.drop pos = byte i.opcode ++ [] := by simpa using hd
  simp only [parseInstr, hS.u8, sp_byte hd' hop, asNat_nat, parseInstrArgs_eof hS env data (pos + 1) i hw ho hasz hlen,
    bind, Except.bind]

/-! ### a good prefix of instructions -/

/-- after any list of well-formed instructions that ends at or before `endOff`, `_parse_instructions` continues
    as if started there -/
theorem parseInstructions_prefix {S : DwarfStructs} {le : Bool} {asz : Nat} (hS : InstrStructs S le asz) (env : Env)
    (data : Bytes) (endOff : Nat) (is : List Cfa) : ∀ (pos fuel : Nat) (rest : Bytes),
      data.drop pos = encInstrs le asz is ++ rest → (∀ i ∈ is, i.wf asz = true) →
      pos + (encInstrs le asz is).length ≤ endOff →
      parseInstructions Spec.cfiTables S env data endOff (fuel + is.length) pos
        = (parseInstructions Spec.cfiTables S env data endOff fuel (pos + (encInstrs le asz is).length)).map
            (fun r => (is.map toInstr ++ r.1, r.2)) := by
  induction is with
  | nil =>
    intro pos fuel rest _ _ _
    cases h : parseInstructions Spec.cfiTables S env data endOff fuel pos <;> simp [encInstrs, h, Except.map]
  | cons i is ih =>
    intro pos fuel rest hd hw hend
    have hlen : (encInstrs le asz (i :: is)).length = (i.enc le asz).length + (encInstrs le asz is).length := by
      simp [encInstrs]
    have hd0 : data.drop pos = i.enc le asz ++ (encInstrs le asz is ++ rest) := by
      rw [hd]; simp [encInstrs, List.append_assoc]
    have h1 := parseInstr_ok hS env data pos i _ hd0 (hw i (List.mem_cons_self ..))
    have hd1 : data.drop (pos + (i.enc le asz).length) = encInstrs le asz is ++ rest := drop_add_of_drop hd0
    have hpos := enc_length_pos le asz i
    have h2 := ih (pos + (i.enc le asz).length) fuel rest hd1 (fun j hj => hw j (List.mem_cons_of_mem _ hj))
      (by rw [hlen] at hend; omega)
    have hlt : pos < endOff := by rw [hlen] at hend; omega
    rw [show fuel + (i :: is).length = (fuel + is.length) + 1 by simp; omega, parseInstructions]
    simp only [hlt, if_true, h1, bind, Except.bind, pure, Except.pure]
    rw [h2, hlen, ← Nat.add_assoc]
    cases parseInstructions Spec.cfiTables S env data endOff fuel
      (pos + (i.enc le asz).length + (encInstrs le asz is).length) <;> simp [Except.map]

/-- CLASS unknown opcode: well-formed instructions, then — before the declared end — a byte outside the
    DW_CFA set: DWARFError, whatever follows -/
theorem parseInstructions_unknown {S : DwarfStructs} {le : Bool} {asz : Nat} (hS : InstrStructs S le asz) (env : Env)
    (data : Bytes) (endOff : Nat) (is : List Cfa) (pos fuel op : Nat) (rest : Bytes)
    (hd : data.drop pos = encInstrs le asz is ++ (byte op ++ rest)) (hw : ∀ i ∈ is, i.wf asz = true)
    (hend : pos + (encInstrs le asz is).length < endOff) (hlt : op < 0x40) (hunk : op ∉ knownExt) :
    parseInstructions Spec.cfiTables S env data endOff (fuel + 1 + is.length) pos = .error .dwarfError := by
  rw [parseInstructions_prefix hS env data endOff is pos (fuel + 1) _ hd hw (by omega), parseInstructions]
  simp only [hend, if_true, parseInstr_unknown hS env data _ op rest (drop_add_of_drop hd) hlt hunk, bind, Except.bind,
    Except.map]

/-- CLASS entry length running past the data: well-formed instructions up to the end of the DATA while the
    declared end lies beyond it: ELFParseError (the opcode read at end of stream) -/
theorem parseInstructions_past_data {S : DwarfStructs} {le : Bool} {asz : Nat} (hS : InstrStructs S le asz) (env : Env)
    (data : Bytes) (endOff : Nat) (is : List Cfa) (pos fuel : Nat)
    (hd : data.drop pos = encInstrs le asz is) (hw : ∀ i ∈ is, i.wf asz = true)
    (hend : data.length < endOff) (hpos : pos ≤ data.length) :
    parseInstructions Spec.cfiTables S env data endOff (fuel + 1 + is.length) pos = .error .elfParseError := by
  have hl : data.length = pos + (encInstrs le asz is).length := by
    have := congrArg List.length hd
    simp at this; omega
  rw [parseInstructions_prefix hS env data endOff is pos (fuel + 1) [] (by simpa using hd) hw (by omega), parseInstructions]
  have he := parseInstr_eof hS env data (pos + (encInstrs le asz is).length) (by omega)
  simp only [show pos + (encInstrs le asz is).length < endOff by omega, if_true, he, bind, Except.bind, Except.map]

/-- CLASS truncated operand: well-formed instructions, then the opcode byte of an instruction that has
    operands, and the data ends: ELFParseError -/
theorem parseInstructions_operand_eof {S : DwarfStructs} {le : Bool} {asz : Nat} (hS : InstrStructs S le asz) (env : Env)
    (data : Bytes) (endOff : Nat) (is : List Cfa) (pos fuel : Nat) (i : Cfa)
    (hd : data.drop pos = encInstrs le asz is ++ byte i.opcode) (hw : ∀ j ∈ is, j.wf asz = true)
    (hwi : i.wf asz = true) (ho : hasOperands i = true) (hasz : 0 < asz) (hop : i.opcode < 256)
    (hend : pos + (encInstrs le asz is).length < endOff) :
    parseInstructions Spec.cfiTables S env data endOff (fuel + 1 + is.length) pos = .error .elfParseError := by
  rw [parseInstructions_prefix hS env data endOff is pos (fuel + 1) _ hd hw (by omega), parseInstructions]
  simp only [hend, if_true, parseInstr_operand_eof hS env data _ i hwi ho hasz (drop_add_of_drop hd) hop, bind,
    Except.bind, Except.map]

/-- CLASS instruction straddling the declared end (entry length too short): the last instruction is read in
    full — the scan never stops inside an operand — and the stream is left BEYOND `end_offset`, where the section
    scan resumes -/
theorem parseInstructions_overrun {S : DwarfStructs} {le : Bool} {asz : Nat} (hS : InstrStructs S le asz) (env : Env)
    (data : Bytes) (endOff : Nat) (is : List Cfa) (pos fuel : Nat) (i : Cfa) (rest : Bytes)
    (hd : data.drop pos = encInstrs le asz is ++ (i.enc le asz ++ rest)) (hw : ∀ j ∈ is, j.wf asz = true)
    (hwi : i.wf asz = true)
    (hstart : pos + (encInstrs le asz is).length < endOff)
    (hend : endOff ≤ pos + (encInstrs le asz is).length + (i.enc le asz).length) :
    parseInstructions Spec.cfiTables S env data endOff (fuel + 2 + is.length) pos
      = .ok (is.map toInstr ++ [toInstr i], pos + (encInstrs le asz is).length + (i.enc le asz).length) := by
  rw [parseInstructions_prefix hS env data endOff is pos (fuel + 2) _ hd hw (by omega), parseInstructions]
  have h1 := parseInstr_ok hS env data _ i rest (drop_add_of_drop hd) hwi
  simp only [hstart, if_true, h1, bind, Except.bind, pure, Except.pure]
  rw [parseInstructions]
  simp [show ¬ (pos + (encInstrs le asz is).length + (i.enc le asz).length < endOff) by omega, Except.map]

end PyElf.Proofs.CfiBad
