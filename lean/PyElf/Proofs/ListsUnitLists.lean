/-
  `RangeLists.iter_CU_range_lists_ex(cu)`: on a unit whose body is its range lists one
  after the other, the enumeration yields exactly those lists, whatever the size of the
  offset table.
-/
import PyElf.Spec.DwarfStructs
import PyElf.Spec.Lists
import PyElf.Model.Lists
import PyElf.Proofs.Primitives
import PyElf.Proofs.ListsV5
import PyElf.Proofs.ListsUnits
namespace PyElf.Proofs.ListsUnitLists
open PyElf PyElf.Spec PyElf.Spec.Lists PyElf.Model.Lists PyElf.Proofs

/-! ### one list at an arbitrary position -/

theorem encList_length (le : Bool) (asz : Nat) (es : List Ent) :
    (encList le asz es).length = listSize asz es := by
  induction es with
  | nil => simp [encList, listSize]
  | cons e es ih =>
    simp only [encList, listSize, List.flatMap_cons, List.length_append, List.map_cons, List.sum_cons,
      ListsV5.ent_enc_length, List.length_cons, List.length_nil] at ih ⊢
    omega

theorem listSize_pos (asz : Nat) (es : List Ent) : 1 ≤ listSize asz es := by
  simp [listSize]

/-- position-general form of `ListsV5.parse_rnglists_entries` -/
theorem structParse_rnglists_at (env : Env) (cfg : DwarfCfg) (data rest : Bytes) (pos : Nat) (es : List Ent)
    (henv : ∀ k ∈ rleKinds, env.enumDecode "ENUM_DW_RLE" (k.code : Int) = some k.name)
    (hwf : ∀ e ∈ es, e.wf rleKinds cfg.asz = true)
    (hd : data.drop pos = encList cfg.le cfg.asz es ++ rest) :
    structParse env (Spec.dwarfStructs cfg).Dwarf_rnglists_entries data pos
      = .ok (.list (rawObsList cfg.asz pos es), pos + listSize cfg.asz es) := by
  have hl := length_of_drop hd
  have hge := ListsV5.encList_length_ge cfg.le cfg.asz es
  unfold structParse
  rw [ListsV5.rnglists_entries_eq, ListsV5.entryCon, Con.parse]
  rw [ListsV5.repeatLoop_entries env data cfg.le cfg.asz _ _ rleKinds rest [] (by decide) ListsV5.rle_ok henv
    (by decide) (by decide) es _ pos [] hwf (by simp only [List.length_append] at hl; omega) hd]
  simp [bind, Except.bind, pure, Except.pure]

/-! ### the loop -/

theorem rangeListsExLoop_lists (env : Env) (cfg : DwarfCfg) (l : Model.Lists.Lists) (rest : Bytes)
    (henv : ∀ k ∈ rleKinds, env.enumDecode "ENUM_DW_RLE" (k.code : Int) = some k.name)
    (hS : l.S.Dwarf_rnglists_entries = (Spec.dwarfStructs cfg).Dwarf_rnglists_entries) :
    ∀ (ls : List (List Ent)) (fuel pos : Nat) (acc : List Val) (stop : Int),
      (∀ es ∈ ls, ∀ e ∈ es, e.wf rleKinds cfg.asz = true) → ls.length + 1 ≤ fuel →
      l.data.drop pos = encLists cfg.le cfg.asz ls ++ rest →
      stop = ((pos + (encLists cfg.le cfg.asz ls).length : Nat) : Int) →
      rangeListsExLoop env l stop fuel pos acc
        = .ok (acc.reverse ++ (rawObsLists cfg.asz pos ls).map Val.list) := by
  intro ls
  induction ls with
  | nil =>
    intro fuel pos acc stop _ hf _ hstop
    cases fuel with
    | zero => omega
    | succ fuel =>
      simp only [encLists, List.flatMap_nil, List.length_nil, Nat.add_zero] at hstop
      rw [rangeListsExLoop, if_neg (by omega)]
      simp [rawObsLists]
  | cons es ls ih =>
    intro fuel pos acc stop hwf hf hd hstop
    cases fuel with
    | zero => omega
    | succ fuel =>
      have hd0 : l.data.drop pos = encList cfg.le cfg.asz es ++ (encLists cfg.le cfg.asz ls ++ rest) := by
        simpa [encLists, List.append_assoc] using hd
      have hd1 : l.data.drop (pos + listSize cfg.asz es) = encLists cfg.le cfg.asz ls ++ rest := by
        rw [← encList_length cfg.le cfg.asz es]; exact drop_add_of_drop hd0
      have hpos := listSize_pos cfg.asz es
      have hlen : (encLists cfg.le cfg.asz (es :: ls)).length
          = listSize cfg.asz es + (encLists cfg.le cfg.asz ls).length := by
        simp [encLists, encList_length]
      rw [hlen] at hstop
      rw [rangeListsExLoop, if_pos (by omega), hS,
        structParse_rnglists_at env cfg l.data _ pos es henv (hwf es (by simp)) hd0]
      simp only
      rw [ih fuel _ _ stop (fun x hx => hwf x (by simp [hx])) (by simp at hf; omega) hd1
        (by rw [hstop]; omega)]
      simp [rawObsLists]

/-! ### the data layout -/

theorem drop_after_table {data : Bytes} {pos : Nat} (le : Bool) (u : UnitHdr) (body rest : Bytes)
    (hd : data.drop pos = encUnit le u body ++ rest) :
    data.drop (pos + u.lenSize + 8 + u.osz * u.offsets.length) = body ++ rest := by
  have := drop_add_of_drop (ListsUnits.drop_after_header le u body rest hd)
  rwa [ListsUnits.encOffsets_length] at this

theorem lists_count_le (le : Bool) (asz : Nat) (ls : List (List Ent)) :
    ls.length ≤ (encLists le asz ls).length := by
  induction ls with
  | nil => simp
  | cons es ls ih =>
    have := listSize_pos asz es
    simp only [encLists, List.flatMap_cons, List.length_append, encList_length, List.length_cons] at ih ⊢
    omega

/-! ### the theorem -/

theorem iterCURangeListsEx_exact (env : Env) (cfg : DwarfCfg) (l : Model.Lists.Lists) (u : UnitHdr)
    (ls : List (List Ent)) (pre rest : Bytes)
    (henv : ∀ k ∈ rleKinds, env.enumDecode "ENUM_DW_RLE" (k.code : Int) = some k.name)
    (hS : l.S.Dwarf_rnglists_entries = (Spec.dwarfStructs cfg).Dwarf_rnglists_entries)
    (hd : l.data = pre ++ encUnit cfg.le u (encLists cfg.le cfg.asz ls) ++ rest)
    (hwf : ∀ es ∈ ls, ∀ e ∈ es, e.wf rleKinds cfg.asz = true)
    (hsmall : l.data.length < 2 ^ 63) :
    iterCURangeListsEx env l (u.obs pre.length (encLists cfg.le cfg.asz ls))
      = .ok ((rawObsLists cfg.asz (pre.length + u.lenSize + 8 + u.osz * u.offsets.length) ls).map Val.list) := by
  have hdrop : l.data.drop pre.length = encUnit cfg.le u (encLists cfg.le cfg.asz ls) ++ rest := by
    rw [hd]; exact drop_pre _ _ _
  have hbody := drop_after_table cfg.le u _ rest hdrop
  have hl := length_of_drop hbody
  have hlu := length_of_drop hdrop
  rw [List.length_append, ListsUnits.encUnit_length] at hlu
  rw [List.length_append] at hl
  have hcnt := lists_count_le cfg.le cfg.asz ls
  have hplen : pre.length ≤ l.data.length := by rw [hd]; simp only [List.length_append]; omega
  have hsz : u.size (encLists cfg.le cfg.asz ls)
      = u.lenSize + 8 + u.osz * u.offsets.length + (encLists cfg.le cfg.asz ls).length := by
    simp only [UnitHdr.size, UnitHdr.innerLen]; omega
  -- the start position is within the data
  have hstart : pre.length + u.lenSize + 8 + u.osz * u.offsets.length ≤ l.data.length := by omega
  have hmul : ((if (Val.bool u.fmt64).truthy = true then (8 : Int) else 4) * (u.offsets.length : Int))
      = ((u.osz * u.offsets.length : Nat) : Int) := by
    cases hf : u.fmt64 <;> simp [Val.truthy, UnitHdr.osz, hf]
  have hseek : seekInt (((pre.length + u.lenSize + 8 : Nat) : Int)
        + (if (Val.bool u.fmt64).truthy = true then (8 : Int) else 4) * (u.offsets.length : Int))
      = .ok (pre.length + u.lenSize + 8 + u.osz * u.offsets.length) := by
    rw [hmul]
    have e : ((pre.length + u.lenSize + 8 : Nat) : Int) + ((u.osz * u.offsets.length : Nat) : Int)
        = ((pre.length + u.lenSize + 8 + u.osz * u.offsets.length : Nat) : Int) := by omega
    rw [e]
    simp only [seekInt, Int.toNat_natCast]
    rw [if_neg (by omega), if_neg (by omega)]
  have a1 : attr (u.obs pre.length (encLists cfg.le cfg.asz ls)) "offset_table_offset"
      = .ok (.int (pre.length + u.lenSize + 8 : Nat)) := by
    simp [attr, UnitHdr.obs, UnitHdr.obsFields, Fields.get?]
  have a2 : attr (u.obs pre.length (encLists cfg.le cfg.asz ls)) "is64" = .ok (.bool u.fmt64) := by
    simp [attr, UnitHdr.obs, UnitHdr.obsFields, Fields.get?]
  have a3 : attr (u.obs pre.length (encLists cfg.le cfg.asz ls)) "offset_count"
      = .ok (.int u.offsets.length) := by
    simp [attr, UnitHdr.obs, UnitHdr.obsFields, Fields.get?]
  have a4 : attr (u.obs pre.length (encLists cfg.le cfg.asz ls)) "offset_after_length"
      = .ok (.int (pre.length + u.lenSize : Nat)) := by
    simp [attr, UnitHdr.obs, UnitHdr.obsFields, Fields.get?]
  have a5 : attr (u.obs pre.length (encLists cfg.le cfg.asz ls)) "unit_length"
      = .ok (.int (u.innerLen (encLists cfg.le cfg.asz ls))) := by
    simp [attr, UnitHdr.obs, UnitHdr.obsFields, Fields.get?]
  unfold iterCURangeListsEx
  simp only [a1, a2, a3, a4, a5, bind, Except.bind, Val.asInt, hseek]
  rw [rangeListsExLoop_lists env cfg l rest henv hS ls _ _ [] _ hwf (by omega) hbody
    (by simp only [UnitHdr.innerLen]; omega)]
  simp

/-! ### non-vacuity -/

example : ∀ es ∈ ([[⟨⟨6, "DW_RLE_start_end", [("start_address", .addr), ("end_address", .addr)]⟩,
      [.addr 1, .addr 2]⟩], []] : List (List Ent)), ∀ e ∈ es, e.wf rleKinds 8 = true := by decide

end PyElf.Proofs.ListsUnitLists
